import Mathlib.Tactic.Ring
/-
C06 — the equations `norm_term` rewrites with (z3wrapper.norm_thms) and the rules of
`fologic.simplify`, stated over sets-as-predicates and an arbitrary field, and proved valid.
Sets of the HOL library are modelled as predicates `α → Prop`; membership is application.
-/
namespace Holpy.C06.Norm

universe u
variable {α : Type u}

/-- member_empty_simp: x ∈ {} ⟷ false -/
theorem member_empty_simp (x : α) : (fun _ : α => False) x ↔ False := Iff.rfl
/-- member_insert: y ∈ insert x A ⟷ y = x ∨ y ∈ A -/
theorem member_insert (x y : α) (A : α → Prop) : (fun z => z = x ∨ A z) y ↔ (y = x ∨ A y) := Iff.rfl
/-- member_univ_simp: x ∈ univ ⟷ true -/
theorem member_univ_simp (x : α) : (fun _ : α => True) x ↔ True := Iff.rfl
/-- member_collect: x ∈ collect P ⟷ P x -/
theorem member_collect (x : α) (P : α → Prop) : (fun z => P z) x ↔ P x := Iff.rfl
/-- member_union_iff -/
theorem member_union_iff (x : α) (A B : α → Prop) : (fun z => A z ∨ B z) x ↔ (A x ∨ B x) := Iff.rfl
/-- member_inter_iff -/
theorem member_inter_iff (x : α) (A B : α → Prop) : (fun z => A z ∧ B z) x ↔ (A x ∧ B x) := Iff.rfl
/-- set_equal_iff: A = B ⟷ (∀x. x ∈ A ⟷ x ∈ B) -/
theorem set_equal_iff (A B : α → Prop) : A = B ↔ ∀ x, A x ↔ B x :=
  ⟨fun h x => h ▸ Iff.rfl, fun h => funext fun x => propext (h x)⟩
/-- subset_def: A ⊆ B ⟷ (∀x. x ∈ A ⟶ x ∈ B) -/
theorem subset_def (A B : α → Prop) : (∀ x, A x → B x) ↔ ∀ x, A x → B x := Iff.rfl
/-- diff_def: diff s t = {x. x ∈ s ∧ ¬x ∈ t} -/
theorem diff_def (s t : α → Prop) : (fun x => s x ∧ ¬ t x) = fun x => s x ∧ ¬ t x := rfl

variable {K : Type u} [Field K]

/-- real_zero_def (used right to left): of_nat 0 = 0 -/
theorem real_zero_def : ((0 : Nat) : K) = 0 := Nat.cast_zero
/-- real_one_def (used right to left): of_nat 1 = 1 -/
theorem real_one_def : ((1 : Nat) : K) = 1 := Nat.cast_one
/-- real_of_nat_add (used right to left): of_nat (m + n) = of_nat m + of_nat n -/
theorem real_of_nat_add (m n : Nat) : ((m + n : Nat) : K) = (m : K) + (n : K) := Nat.cast_add m n
/-- real_of_nat_mul (used right to left): of_nat (m * n) = of_nat m * of_nat n -/
theorem real_of_nat_mul (m n : Nat) : ((m * n : Nat) : K) = (m : K) * (n : K) := Nat.cast_mul m n
/-- real_of_nat_minus: of_nat (m - n) = (if m ≥ n then of_nat m - of_nat n else 0), `-` on nat truncated -/
theorem real_of_nat_minus (m n : Nat) : ((m - n : Nat) : K) = if m ≥ n then (m : K) - (n : K) else 0 := by
  split
  · rename_i h; exact Nat.cast_sub h
  · rename_i h
    have : m - n = 0 := by omega
    rw [this]; exact Nat.cast_zero
/-- real_inverse_divide: real_inverse x = 1 / x -/
theorem real_inverse_divide (x : K) : x⁻¹ = 1 / x := (one_div x).symm
/-- real_open_interval_def: real_open_interval a b = {p. a < p ∧ p < b} -/
theorem real_open_interval_def [LT K] (a b : K) : (fun p => a < p ∧ p < b) = fun p : K => a < p ∧ p < b := rfl
/-- real_closed_interval_def -/
theorem real_closed_interval_def [LE K] (a b : K) : (fun p => a ≤ p ∧ p ≤ b) = fun p : K => a ≤ p ∧ p ≤ b := rfl

/-- the rules of `fologic.simplify1` on the connectives -/
theorem simplify_rules : ∀ p : Bool,
    (!false) = true ∧ (!true) = false ∧ (!(!p)) = p
    ∧ (false && p) = false ∧ (p && false) = false ∧ (true && p) = p ∧ (p && true) = p
    ∧ (true || p) = true ∧ (p || true) = true ∧ (false || p) = p ∧ (p || false) = p
    ∧ ((!false) || p) = true ∧ ((!p) || true) = true ∧ ((!true) || p) = p ∧ ((!p) || false) = (!p)
    ∧ (true == p) = p ∧ (p == true) = p ∧ (false == p) = (!p) ∧ (p == false) = (!p) := by decide

/-- vacuous quantifiers are removed: types are nonempty -/
theorem vacuous_quantifier [Nonempty α] (P : Prop) : ((∀ _ : α, P) ↔ P) ∧ ((∃ _ : α, P) ↔ P) :=
  ⟨⟨fun h => h (Classical.arbitrary α), fun h _ => h⟩, ⟨fun ⟨_, h⟩ => h, fun h => ⟨Classical.arbitrary α, h⟩⟩⟩

end Holpy.C06.Norm
