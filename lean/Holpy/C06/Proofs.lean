import Holpy.C06.Model
/-
C06 — helper lemmas for Props.lean (core Lean only).
-/
namespace Holpy.C06

variable {K : Type} (N : Num K) (Q : Quant K)

/-- Interpretation of division by zero under which Z3's `/` is HOL's. -/
def div0H : K → K := fun _ => N.ofRat 0

/-- The link between HOL's quantifier ranges and Z3's: nat binders range over the non-negative
integers, every other base type over the whole sort. -/
structure Compat : Prop where
  all_nat : ∀ p, Q.allH .nat p = Q.allZ .int (fun v => !(asBool (vge N v (.i 0))) || p v)
  ex_nat : ∀ p, Q.exH .nat p = Q.exZ .int (fun v => asBool (vge N v (.i 0)) && p v)
  all_other : ∀ T p, T ≠ .nat → Q.allH T p = Q.allZ T.srt p
  ex_other : ∀ T p, T ≠ .nat → Q.exH T p = Q.exZ T.srt p

/-- Standard ranges: what "for all x :: T" means in HOL and "for all x of sort s" in Z3.
`U a` is the (arbitrary) carrier of the type variable / uninterpreted sort `a`. -/
structure Std (U : String → Nat → Prop) : Prop where
  allH_nat : ∀ p, Q.allH .nat p = true ↔ ∀ n : Nat, p (.i n) = true
  exH_nat : ∀ p, Q.exH .nat p = true ↔ ∃ n : Nat, p (.i n) = true
  allH_int : ∀ p, Q.allH .int p = true ↔ ∀ n : Int, p (.i n) = true
  exH_int : ∀ p, Q.exH .int p = true ↔ ∃ n : Int, p (.i n) = true
  allH_real : ∀ p, Q.allH .real p = true ↔ ∀ x : K, p (.r x) = true
  exH_real : ∀ p, Q.exH .real p = true ↔ ∃ x : K, p (.r x) = true
  allH_bool : ∀ p, Q.allH .bool p = true ↔ ∀ b : Bool, p (.b b) = true
  exH_bool : ∀ p, Q.exH .bool p = true ↔ ∃ b : Bool, p (.b b) = true
  allH_tv : ∀ a p, Q.allH (.tv a) p = true ↔ ∀ k, U a k → p (.u k) = true
  exH_tv : ∀ a p, Q.exH (.tv a) p = true ↔ ∃ k, U a k ∧ p (.u k) = true
  allZ_int : ∀ p, Q.allZ .int p = true ↔ ∀ n : Int, p (.i n) = true
  exZ_int : ∀ p, Q.exZ .int p = true ↔ ∃ n : Int, p (.i n) = true
  allZ_real : ∀ p, Q.allZ .real p = true ↔ ∀ x : K, p (.r x) = true
  exZ_real : ∀ p, Q.exZ .real p = true ↔ ∃ x : K, p (.r x) = true
  allZ_bool : ∀ p, Q.allZ .bool p = true ↔ ∀ b : Bool, p (.b b) = true
  exZ_bool : ∀ p, Q.exZ .bool p = true ↔ ∃ b : Bool, p (.b b) = true
  allZ_u : ∀ a p, Q.allZ (.u a) p = true ↔ ∀ k, U a k → p (.u k) = true
  exZ_u : ∀ a p, Q.exZ (.u a) p = true ↔ ∃ k, U a k ∧ p (.u k) = true

theorem bool_eq_of_iff {a b : Bool} (h : a = true ↔ b = true) : a = b := by
  cases a <;> cases b <;> simp_all

theorem vge_i0 (n : Int) : asBool (vge N (.i n : Val K) (.i 0)) = decide (0 ≤ n) := by
  simp [vge, vle, asBool]

/-- Relativisation lemma for nat binders. -/
theorem std_compat {U} (h : Std Q U) : Compat N Q where
  all_nat p := by
    apply bool_eq_of_iff
    rw [h.allH_nat, h.allZ_int]
    constructor
    · intro hp n
      rw [vge_i0]
      by_cases hn : 0 ≤ n
      · obtain ⟨k, rfl⟩ := Int.eq_ofNat_of_zero_le hn
        simp [hp k]
      · simp [hn]
    · intro hp k
      have := hp (k : Int)
      rw [vge_i0] at this
      simpa using this
  ex_nat p := by
    apply bool_eq_of_iff
    rw [h.exH_nat, h.exZ_int]
    constructor
    · rintro ⟨k, hk⟩
      exact ⟨(k : Int), by rw [vge_i0]; simp [hk]⟩
    · rintro ⟨n, hn⟩
      rw [vge_i0] at hn
      simp only [Bool.and_eq_true, decide_eq_true_eq] at hn
      obtain ⟨k, rfl⟩ := Int.eq_ofNat_of_zero_le hn.1
      exact ⟨k, hn.2⟩
  all_other T p hT := by
    apply bool_eq_of_iff
    cases T with
    | nat => exact absurd rfl hT
    | bool => rw [h.allH_bool]; exact (h.allZ_bool p).symm
    | int => rw [h.allH_int]; exact (h.allZ_int p).symm
    | real => rw [h.allH_real]; exact (h.allZ_real p).symm
    | tv a => rw [h.allH_tv]; exact (h.allZ_u a p).symm
  ex_other T p hT := by
    apply bool_eq_of_iff
    cases T with
    | nat => exact absurd rfl hT
    | bool => rw [h.exH_bool]; exact (h.exZ_bool p).symm
    | int => rw [h.exH_int]; exact (h.exZ_int p).symm
    | real => rw [h.exH_real]; exact (h.exZ_real p).symm
    | tv a => rw [h.exH_tv]; exact (h.exZ_u a p).symm

/-! ### Semantics of the helper operations on `rec` results -/

section Helpers
variable (σ : String → Val K) (F : String → Val K → Val K) (ρ : List (Val K))

local notation "eR" => evalR N Q (div0H N) σ F ρ
local notation "eZ" => evalZ N Q (div0H N) σ F ρ

def Cmp.sem : Cmp → Val K → Val K → Val K
  | .le => vle N | .lt => vlt N | .ge => vge N | .gt => vgt N

def Arith.sem : Arith → Val K → Val K → Val K
  | .add => vadd N | .sub => vsub N | .mul => vmul N

theorem toZ_sem (r : R) : eZ r.toZ = eR r := by
  cases r <;> rfl

theorem boolArg_sem {r : R} {z : Z} (h : boolArg r = .ok z) : eZ z = eR r := by
  cases r <;> simp [boolArg] at h <;> subst h <;> rfl

theorem Cmp.mk_sem (op : Cmp) (a b : Z) : eZ (op.mk a b) = op.sem N (eZ a) (eZ b) := by
  cases op <;> rfl

theorem Cmp.flip_sem (op : Cmp) (x y : Val K) : op.flip.sem N x y = op.sem N y x := by
  cases op <;> rfl

theorem Cmp.evalInt_sem (op : Cmp) (m n : Int) : (.b (op.evalInt m n) : Val K) = op.sem N (.i m) (.i n) := by
  cases op <;> rfl

theorem cmpR_sem {op : Cmp} {a b r : R} (h : cmpR op a b = .ok r) : eR r = op.sem N (eR a) (eR b) := by
  cases a <;> cases b <;> simp [cmpR] at h <;> subst h
  · exact Cmp.evalInt_sem N op _ _
  · show eZ _ = _
    rw [Cmp.mk_sem, Cmp.flip_sem]; rfl
  · show eZ _ = _
    rw [Cmp.mk_sem]; rfl
  · show eZ _ = _
    split
    · rw [Cmp.mk_sem, Cmp.flip_sem]; rfl
    · rw [Cmp.mk_sem]; rfl

theorem veq_comm (a b : Val K) : veq N a b = veq N b a := by
  cases a <;> cases b <;> simp [veq, Bool.beq_comm, eq_comm]

theorem eqR_sem {a b r : R} (h : eqR a b = .ok r) : eR r = veq N (eR a) (eR b) := by
  cases a <;> cases b <;> simp [eqR] at h <;> subst h
  · rfl
  · show veq N (eZ _) (.i _) = _
    rw [veq_comm]; rfl
  · rfl
  · show veq N (eZ _) (.b _) = _
    rw [veq_comm]; rfl
  · rfl
  · rfl
  · show eZ _ = _
    split
    · show veq N _ _ = _
      rw [veq_comm]; rfl
    · rfl

theorem Arith.mk_sem (op : Arith) (a b : Z) : eZ (op.mk a b) = op.sem N (eZ a) (eZ b) := by
  cases op <;> rfl

theorem arithR_sem {op : Arith} {a b r : R} (h : arithR op a b = .ok r) : eR r = op.sem N (eR a) (eR b) := by
  cases a <;> cases b <;> simp [arithR] at h <;> subst h
  all_goals first
    | (cases op <;> rfl)
    | (show eZ _ = _; rw [Arith.mk_sem]; rfl)

theorem iteR_sem {c a b r : R} (h : iteR c a b = .ok r) : eR r = vite (eR c) (eR a) (eR b) := by
  unfold iteR at h
  cases hc : boolArg c with
  | error e => simp [hc, bind, Except.bind] at h
  | ok z =>
    simp [hc, bind, Except.bind] at h
    subst h
    show vite (eZ z) (eZ a.toZ) (eZ b.toZ) = _
    rw [boolArg_sem N Q σ F ρ hc, toZ_sem, toZ_sem]

theorem vtsub_eq (a b : Val K) : vtsub N a b = vite (vge N a b) (vsub N a b) (.i 0) := by
  cases a <;> cases b <;> try rfl
  simp only [vtsub, vite, vge, vle, vsub, asBool]
  split <;> simp_all <;> omega

end Helpers

end Holpy.C06
