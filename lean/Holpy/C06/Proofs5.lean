import Holpy.C06.Proofs4
/-
C06 — from a HOL valuation to a Z3 valuation: coincidence lemma, the extension that interprets
the auxiliary constants, and the conditions on the final tables (`FinalOk`) under which it works.
-/
namespace Holpy.C06

variable {K : Type} {N : Num K} {Q : Quant K}
variable {F : String → Val K → Val K} {O : Oracle K}

theorem variantAux_fresh (nm : String) (prevs : List String) :
    ∀ fuel i n, variantAux nm prevs fuel i = some n → prevs.contains n = false := by
  intro fuel
  induction fuel with
  | zero => intro i n h; simp [variantAux] at h
  | succ f ih =>
    intro i n h
    simp only [variantAux] at h
    split at h
    · exact ih _ _ h
    · rename_i hc
      simp only [Option.some.injEq] at h
      subst h
      simpa using hc

/-- `get_variant_name` returns a name that is not among the names to avoid. -/
theorem variantName_fresh {nm : String} {prevs : List String} {n : String}
    (h : variantName nm prevs = some n) : n ∉ prevs := by
  unfold variantName at h
  split at h
  · have := variantAux_fresh nm prevs _ _ _ h
    simpa using this
  · rename_i hc
    simp only [Option.some.injEq] at h
    subst h
    simpa using hc

/-- HOL evaluation looks at the valuation only at the declared variables. -/
theorem evalH_congr (vars : List (String × Ty)) (σ σ' : String → Val K)
    (hσ : ∀ p ∈ vars, σ p.1 = σ' p.1) (t : H) :
    t.scoped vars = true → ∀ ρ, evalH N Q O σ F ρ t = evalH N Q O σ' F ρ t := by
  induction t with
  | var x T =>
    intro hs ρ
    simp only [H.scoped, List.contains_iff_mem] at hs
    exact hσ _ hs
  | ofNatVar x =>
    intro hs ρ
    simp only [H.scoped, List.contains_iff_mem] at hs
    show vtoReal N (σ x) = vtoReal N (σ' x)
    rw [hσ _ hs]
  | all x T b ih =>
    intro hs ρ
    simp only [H.scoped] at hs
    simp only [evalH]
    congr 2; funext v; rw [ih hs]
  | ex x T b ih =>
    intro hs ρ
    simp only [H.scoped] at hs
    simp only [evalH]
    congr 2; funext v; rw [ih hs]
  | ite c a b ihc iha ihb =>
    intro hs ρ
    simp only [H.scoped, Bool.and_eq_true] at hs
    simp only [evalH, ihc hs.1.1, iha hs.1.2, ihb hs.2]
  | bv | num | tt | ff | eqFun | unsup => intro _ ρ; rfl
  | not a ih | neg _ a ih | ofNat a ih | abs _ a ih | app _ _ _ a ih | mem a _ _ ih =>
    intro hs ρ
    simp only [H.scoped] at hs
    simp only [evalH, ih hs]
  | and a b iha ihb | or a b iha ihb | imp a b iha ihb | xor a b iha ihb | eq a b iha ihb
  | add a b iha ihb | sub _ a b iha ihb | mul a b iha ihb | div a b iha ihb | le a b iha ihb
  | lt a b iha ihb | ge a b iha ihb | gt a b iha ihb | max a b iha ihb | min a b iha ihb =>
    intro hs ρ
    simp only [H.scoped, Bool.and_eq_true] at hs
    simp only [evalH, iha hs.1, ihb hs.2]

/-- What the final tables of `solve_core` must satisfy for a HOL valuation to extend to a Z3
valuation (proved of every run in Proofs6: `solveCoreFull_finalOk`). -/
structure FinalOk (vars : List (String × Ty)) (st : St) : Prop where
  rx_fresh : ∀ p ∈ st.toReal, p.2 ∉ vars.map (·.1)
  rx_nodup : (st.toReal.map (·.2)).Nodup
  rx_nat : ∀ p ∈ st.toReal, (p.1, Ty.nat) ∈ vars
  assms_ok : ∀ p ∈ st.assms,
    (p.2 = .ge (.const p.1 .int) (.ilit 0) ∧
      ((p.1, Ty.nat) ∈ vars ∨ (p.1 ∉ vars.map (·.1) ∧ p.1 ∉ st.toReal.map (·.2))))
    ∨ (p.2 = .ge (.const p.1 .real) (.rlit 0) ∧ p.1 ∈ st.toReal.map (·.2))

def revLookup (v : String) : List (String × String) → Option String
  | [] => none
  | (k, v') :: rest => if v == v' then some k else revLookup v rest

theorem revLookup_none {v : String} {l : List (String × String)} (h : v ∉ l.map (·.2)) : revLookup v l = none := by
  induction l with
  | nil => rfl
  | cons p rest ih =>
    obtain ⟨k, v'⟩ := p
    simp only [List.map_cons, List.mem_cons, not_or] at h
    simp only [revLookup]
    split
    · rename_i heq; exact absurd (by simpa using heq) h.1
    · exact ih h.2

theorem revLookup_mem {k v : String} {l : List (String × String)} (hm : (k, v) ∈ l) (hnd : (l.map (·.2)).Nodup) :
    revLookup v l = some k := by
  induction l with
  | nil => simp at hm
  | cons p rest ih =>
    obtain ⟨k', v'⟩ := p
    simp only [List.map_cons, List.nodup_cons] at hnd
    simp only [revLookup]
    rcases List.mem_cons.mp hm with h | h
    · simp only [Prod.mk.injEq] at h
      obtain ⟨rfl, rfl⟩ := h
      simp
    · have : v ≠ v' := by
        intro e; subst e
        exact hnd.1 (List.mem_map.mpr ⟨(k, v), h, rfl⟩)
      simp only [beq_iff_eq, this, if_false]
      exact ih h hnd.2

theorem revLookup_some {k v : String} {l : List (String × String)} (h : revLookup v l = some k) : (k, v) ∈ l := by
  induction l with
  | nil => simp [revLookup] at h
  | cons p rest ih =>
    obtain ⟨k', v'⟩ := p
    simp only [revLookup] at h
    split at h
    · rename_i heq
      simp only [Option.some.injEq] at h
      have : v = v' := by simpa using heq
      subst this; subst h; exact List.mem_cons_self
    · exact List.mem_cons_of_mem _ (ih h)

theorem lookup_mem {β : Type} {k : String} {v : β} {l : List (String × β)} (h : lookup k l = some v) : (k, v) ∈ l := by
  induction l with
  | nil => simp [lookup] at h
  | cons p rest ih =>
    obtain ⟨k', v'⟩ := p
    simp only [lookup] at h
    split at h
    · rename_i heq
      simp only [Option.some.injEq] at h
      have : k = k' := by simpa using heq
      subst this; subst h; exact List.mem_cons_self
    · exact List.mem_cons_of_mem _ (ih h)

/-- The Z3 valuation belonging to a HOL valuation: declared variables keep their values, each
auxiliary constant rx is `of_nat x`, every other name (generated binder names) is 0. -/
def extendVal (N : Num K) (vars : List (String × Ty)) (st : St) (σ : String → Val K) : String → Val K :=
  fun y => match revLookup y st.toReal with
    | some x => vtoReal N (σ x)
    | none => if (vars.map (·.1)).contains y then σ y else .i 0

/-- nat variables hold non-negative integers -/
def Admissible (vars : List (String × Ty)) (σ : String → Val K) : Prop :=
  ∀ x, (x, Ty.nat) ∈ vars → ∃ n : Int, 0 ≤ n ∧ σ x = .i n

theorem extendVal_agree {vars : List (String × Ty)} {st : St} (h : FinalOk vars st) (σ : String → Val K) :
    ∀ p ∈ vars, σ p.1 = extendVal N vars st σ p.1 := by
  intro p hp
  have hin : p.1 ∈ vars.map (·.1) := List.mem_map.mpr ⟨p, hp, rfl⟩
  have hnot : p.1 ∉ st.toReal.map (·.2) := by
    intro hm
    obtain ⟨q, hq, he⟩ := List.mem_map.mp hm
    exact h.rx_fresh q hq (he ▸ hin)
  simp only [extendVal, revLookup_none hnot]
  simp [hin]

theorem extendVal_trok {vars : List (String × Ty)} {st : St} (h : FinalOk vars st) (σ : String → Val K) :
    TROk N (extendVal N vars st σ) st := by
  intro x rx hl
  have hm := lookup_mem hl
  have h1 : extendVal N vars st σ rx = vtoReal N (σ x) := by
    simp only [extendVal, revLookup_mem hm h.rx_nodup]
  rw [h1, ← extendVal_agree h σ (x, Ty.nat) (h.rx_nat _ hm)]

theorem extendVal_side {vars : List (String × Ty)} {st : St} (h : FinalOk vars st) (σ : String → Val K)
    (hadm : Admissible vars σ) (hcast : ∀ n : Int, 0 ≤ n → N.le (N.ofRat 0) (N.ofInt n) = true) :
    ∀ p ∈ st.assms, HoldsZ N Q (div0H N) (extendVal N vars st σ) F p.2 := by
  intro p hp
  rcases h.assms_ok p hp with ⟨he, hk⟩ | ⟨he, hk⟩
  · rw [he]
    rcases hk with hv | ⟨h1, h2⟩
    · obtain ⟨n, hn, hσ⟩ := hadm _ hv
      have := extendVal_agree (N := N) h σ (p.1, Ty.nat) hv
      show asBool (vge N (extendVal N vars st σ p.1) (.i 0)) = true
      rw [← this, hσ]
      simp [vge, vle, asBool, hn]
    · show asBool (vge N (extendVal N vars st σ p.1) (.i 0)) = true
      have : extendVal N vars st σ p.1 = .i 0 := by
        simp only [extendVal, revLookup_none h2]
        have hc : (vars.map (·.1)).contains p.1 = false := by
          cases hcc : (vars.map (·.1)).contains p.1
          · rfl
          · exact absurd (List.contains_iff_mem.mp hcc) h1
        rw [hc]; rfl
      rw [this]; rfl
  · rw [he]
    obtain ⟨q, hq, hqe⟩ := List.mem_map.mp hk
    have hm : (q.1, p.1) ∈ st.toReal := by rw [← hqe]; exact hq
    obtain ⟨n, hn, hσ⟩ := hadm _ (h.rx_nat _ hq)
    show asBool (vge N (extendVal N vars st σ p.1) (.r (N.ofRat 0))) = true
    have : extendVal N vars st σ p.1 = .r (N.ofInt n) := by
      simp only [extendVal, revLookup_mem hm h.rx_nodup, hσ, vtoReal]
    rw [this]
    simp [vge, vle, asBool, hcast n hn]

end Holpy.C06
