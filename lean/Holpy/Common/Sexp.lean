/-
Wire format shared by every driver: one s-expression per line.
Atoms are maximal runs of characters other than whitespace and parentheses; the Python side
percent-encodes anything else (harness/common/sexp.py), so no quoting is needed here.
Import-free on purpose (drivers must link without Mathlib).
-/
namespace Holpy

inductive Sexp where
  | atom (s : String)
  | list (xs : List Sexp)
  deriving Repr, Inhabited, BEq

namespace Sexp

partial def toStr : Sexp → String
  | atom s => s
  | list xs => "(" ++ " ".intercalate (xs.map toStr) ++ ")"

instance : ToString Sexp := ⟨toStr⟩

/-- Tokeniser: parentheses are tokens, everything else splits on whitespace. -/
def tokens (s : String) : List String := Id.run do
  let mut out : Array String := #[]
  let mut cur : String := ""
  for c in s.toList do
    if c == '(' || c == ')' then
      if cur != "" then out := out.push cur
      cur := ""
      out := out.push (String.singleton c)
    else if c == ' ' || c == '\t' || c == '\n' || c == '\r' then
      if cur != "" then out := out.push cur
      cur := ""
    else
      cur := cur.push c
  if cur != "" then out := out.push cur
  return out.toList

/-- Parse one expression from a token list with an explicit stack (total, no fuel needed). -/
def parseTokens (ts : List String) : Option Sexp :=
  let rec go (ts : List String) (stack : List (List Sexp)) : Option Sexp :=
    match ts with
    | [] =>
      match stack with
      | [[e]] => some e
      | _ => none
    | "(" :: rest => go rest ([] :: stack)
    | ")" :: rest =>
      match stack with
      | top :: parent :: stack' => go rest ((Sexp.list top.reverse :: parent) :: stack')
      | _ => none
    | t :: rest =>
      match stack with
      | top :: stack' => go rest ((Sexp.atom t :: top) :: stack')
      | [] => none
  go ts [[]]

def parse (s : String) : Option Sexp := parseTokens (tokens s)

def ofNat (n : Nat) : Sexp := atom (toString n)
def ofInt (n : Int) : Sexp := atom (toString n)
def ofBool (b : Bool) : Sexp := atom (if b then "T" else "F")

def toInt? : Sexp → Option Int
  | atom s => s.toInt?
  | _ => none

def toNat? : Sexp → Option Nat
  | atom s => s.toNat?
  | _ => none

def toBool? : Sexp → Option Bool
  | atom "T" => some true
  | atom "F" => some false
  | _ => none

def toList? : Sexp → Option (List Sexp)
  | list xs => some xs
  | _ => none

end Sexp

/-- Read stdin line by line, answer each non-empty line with `f line`. -/
partial def lineLoop (f : String → String) : IO Unit := do
  let stdin ← IO.getStdin
  let stdout ← IO.getStdout
  let rec loop : IO Unit := do
    let line ← stdin.getLine
    if line.isEmpty then
      stdout.flush
      return ()
    let l := line.trimAscii.toString
    if l != "" then
      stdout.putStrLn (f l)
    loop
  loop

end Holpy
