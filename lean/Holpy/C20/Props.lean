import Holpy.C20.Model
import Holpy.C20.Gen
import Holpy.C20.Proofs
namespace Holpy.C20
end Holpy.C20
