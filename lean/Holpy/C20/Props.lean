import Holpy.C20.Model
import Holpy.C20.Gen
import Holpy.C20.Proofs
import Holpy.C20.ProofsSem
import Holpy.C20.ProofsTy
import Holpy.C20.ProofsParse
import Holpy.C20.ProofsParseCond
import Holpy.C20.ProofsParseWf
import Holpy.C20.ProofsLex4
import Holpy.C20.ProofsLexCom
import Holpy.C20.ProofsVcWf
import Holpy.C20.ProofsComParse
import Holpy.C20.ProofsHist
/-
C20 — property theorems (helper lemmas: Proofs.lean, ProofsSem.lean, ProofsParse.lean).
`Exec` is the big-step semantics of Proofs.lean, `holds s e` is `evalE s e = some (.bool true)`,
`valid e` is `∀ s, holds s e`.
-/
namespace Holpy.C20

/-! ### verification conditions -/

/-- If every condition in the list `c.pre = [P]; c.compute_wp(Q); c.get_vcs(..)` is valid, then every
terminating execution of `c` from a state satisfying `P` ends in a state satisfying `Q`. -/
theorem vcs_sound (p q : Expr) (c : Com) (hv : ∀ v ∈ vcsOf p c q, valid v)
    (s s' : State) (hp : holds s p) (hex : Exec c s s') : holds s' q := by
  exact wp_sound c [p] q hv s s' hex (holds_mkVc (hv _ (mkVc_mem_getVcs c p q) s) hp)

namespace Ex
/-- the countdown loop of com_test.testVCG: `while (0 < a) {[0 <= a] a := a - 1}` -/
def inv : Expr := .bin .le (.int 0) (.var "a")
def prog : Com := .while (.bin .lt (.int 0) (.var "a")) inv (.assign "a" (.bin .sub (.var "a") (.int 1)))
def post : Expr := .bin .eq (.var "a") (.int 0)
def s1 : State := fun x => if x = "a" then 1 else 0
end Ex

/-- non-vacuity: the three VCs of the countdown loop are valid, and the loop runs. -/
example : (∀ v ∈ vcsOf Ex.inv Ex.prog Ex.post, valid v) ∧ (vcsOf Ex.inv Ex.prog Ex.post).length = 3 ∧
    holds Ex.s1 Ex.inv ∧ Exec Ex.prog Ex.s1 (upd Ex.s1 "a" 0) := by
  refine ⟨?_, by decide, by simp [holds, Ex.inv, Ex.s1, evalE, evalBin], ?_⟩
  · have e : vcsOf Ex.inv Ex.prog Ex.post =
        [implies Ex.inv Ex.inv,
         implies (conj Ex.inv (.bin .lt (.int 0) (.var "a"))) (.bin .le (.int 0) (.bin .sub (.var "a") (.int 1))),
         implies (conj Ex.inv (neg (.bin .lt (.int 0) (.var "a")))) Ex.post] := by decide
    rw [e]
    intro v hv
    simp only [List.mem_cons, List.not_mem_nil, or_false] at hv
    rcases hv with rfl | rfl | rfl <;> intro s <;>
      simp only [holds, implies, conj, neg, Ex.inv, Ex.post, evalE, evalBin, evalUn] <;>
      simp <;> omega
  · refine .whileT (s1 := upd Ex.s1 "a" 0) ?_ (.assign ?_) (.whileF ?_) <;>
      simp [Ex.s1, evalE, evalBin, upd]

/-- The same for `imp.vcg` (imperative/imp.py): if every assumption of the theorem
`A₁ ⟶ … ⟶ Aₙ ⟶ Valid P c Q` that `vcg`/`vcg_norm` return is valid, the triple holds. (`vcsH` is the
list of those assumptions: the conditions of `get_vcs` without the `== true` shortcut.) -/
theorem vcg_sound (p q : Expr) (c : Com) (hv : ∀ v ∈ vcsH p c q, valid v)
    (s s' : State) (hp : holds s p) (hex : Exec c s s') : holds s' q :=
  vcs_sound p q c (allValid_getVcs _ hv) s s' hp hex

/-- non-vacuity: the loop `Ex.prog` has three `imp.vcg` conditions, all valid. -/
example : (vcsH Ex.inv Ex.prog Ex.post).length = 3 ∧ vcsH Ex.inv Ex.prog Ex.post = vcsOf Ex.inv Ex.prog Ex.post := by decide

/-! ### the simplifications applied to the conditions are meaning-preserving

`get_vcs` drops a hypothesis that is literally `true` (`ls[i+1] if ls[i] == expr.true`); `imp.vcg_norm`
unfolds `Entail`, beta-normalises and evaluates the function updates `(s)(a := b s) k`, which in the model
is the syntactic substitution `subst`. Nothing else is simplified. -/

/-- The `== true` shortcut does not change the meaning of a condition, in any state. -/
theorem norm_vc_equiv (a b : Expr) (s : State) : holds s (mkVc a b) ↔ holds s (implies a b) :=
  holds_mkVc_iff a b s

example : mkVc etrue (.bin .le (.int 0) (.var "a")) = .bin .le (.int 0) (.var "a") ∧
    mkVc (.bin .lt (.int 0) (.var "a")) etrue = implies (.bin .lt (.int 0) (.var "a")) etrue := by decide

/-- Hence the conditions of `get_vcs` are all valid exactly when the conditions of `imp.vcg` are. -/
theorem vcs_equiv_vcsH (p q : Expr) (c : Com) : (∀ v ∈ vcsOf p c q, valid v) ↔ (∀ v ∈ vcsH p c q, valid v) :=
  ⟨allValid_getVcsH _, allValid_getVcs _⟩

example : vcsOf etrue Ex.prog Ex.post ≠ vcsH etrue Ex.prog Ex.post := by decide

/-- Evaluating the function update that `assign_rule` introduces is substitution: `Q[x := e]` in `s` is
`Q` in the updated state (the normalisation `fun_upd_eval_conv` performs on the conditions). -/
theorem norm_subst_equiv (s : State) (x : String) (e q : Expr) (v : Int) (he : evalE s e = some (.int v)) :
    evalE s (subst x e q) = evalE (upd s x v) q :=
  evalE_subst he q

example : evalE (fun _ => 2) (subst "a" (.bin .add (.var "a") (.int 1)) (.bin .le (.var "a") (.int 3))) = some (.bool true) := by decide

/-- Only partial correctness is claimed (by the code and here): all conditions of a program can be valid
although no execution of it terminates. -/
theorem vcs_partial_only : ∃ p q c, (∀ v ∈ vcsOf p c q, valid v) ∧ (∀ s, holds s p) ∧ (∀ s, ¬ holds s q) ∧
    ∀ s s', ¬ Exec c s s' :=
  ⟨etrue, .bool false, .while (.bool true) etrue .skip,
   by intro v hv
      have e : vcsOf etrue (.while (.bool true) etrue .skip) (.bool false) =
          [etrue, implies (conj etrue (.bool true)) etrue, implies (conj etrue (neg (.bool true))) (.bool false)] := by decide
      rw [e] at hv
      simp only [List.mem_cons, List.not_mem_nil, or_false] at hv
      rcases hv with rfl | rfl | rfl <;> intro s <;> rfl,
   fun _ => rfl, fun s h => by simp [holds, evalE] at h, no_exec_loop etrue⟩

example : (vcsOf etrue (.while (.bool true) etrue .skip) (.bool false)).length = 3 := by decide

/-! ### the theorem `imp.vcg` / `vcg_norm` / `vcg_solve` return, as a HOL statement

`Gen.Valid`, `Gen.Sem` are the definitions of library/hoare.json (Gen.lean, regenerated each run);
`embed c`, `bval p` are the HOL terms a program / assertion denotes; a condition `Aᵢ` is the closed
formula `∀s. vᵢ s`, i.e. `valid vᵢ`. -/

/-- The statement `A₁ ⟶ … ⟶ Aₙ ⟶ Valid P c Q` that `imp.vcg_norm` returns is true (for well-sorted `c`). -/
theorem vcg_statement_true (p q : Expr) (c : Com) (hw : wsCom c = true) :
    chain ((vcsH p c q).map valid) (Gen.Valid (bval p) (embed c) (bval q)) := by
  rw [chain_iff]
  intro h
  exact valid_triple p q c hw (fun v hv => h (valid v) (List.mem_map.mpr ⟨v, hv, rfl⟩))

/-- `vcg_solve`: when every condition has been discharged (zero remaining `Aᵢ`), the triple
`Valid P c Q` of library/hoare.json holds. -/
theorem vcg_solve_sound (p q : Expr) (c : Com) (hw : wsCom c = true) (hv : ∀ v ∈ vcsH p c q, valid v) :
    Gen.Valid (bval p) (embed c) (bval q) :=
  valid_triple p q c hw hv

/-- non-vacuity: the countdown loop; its three conditions are valid, so the HOL triple holds. -/
example : wsCom Ex.prog = true ∧ ((vcsH Ex.inv Ex.prog Ex.post).map valid).length = 3 := by decide

/-! ### the interpreter and the semantics -/

/-- The big-step semantics is deterministic. -/
theorem exec_deterministic (c : Com) (s s1 s2 : State) (h1 : Exec c s s1) (h2 : Exec c s s2) : s1 = s2 :=
  exec_det h1 h2

example : Exec (.assign "x" (.int 1)) (fun _ => 0) (upd (fun _ => 0) "x" 1) := .assign rfl

/-- If the fuel interpreter returns a state, that state is the result of an execution. -/
theorem interp_sound (n : Nat) (c : Com) (s s' : State) (h : interp n c s = .ok s') : Exec c s s' :=
  interp_exec n c s s' h

example : ∃ s', interp 10 (.seq (.assign "x" (.int 1)) (.assign "y" (.var "x"))) (fun _ => 0) = .ok s' ∧ s' "y" = 1 :=
  ⟨_, rfl, by decide⟩

/-- Every execution is found by the interpreter with enough fuel (so oracle runs that end are
exactly the terminating executions). -/
theorem interp_complete (c : Com) (s s' : State) (h : Exec c s s') : ∃ n, interp n c s = .ok s' :=
  exec_interp h

example : ∃ n, interp n .skip (fun _ => 0) = .ok (fun _ => 0) := ⟨1, rfl⟩

/-! ### printing and re-parsing conditions

`toks e` is the token sequence of the printed form `pp e` (Model.lean; the harness checks
`lex (pp e) = toks e` on every generated expression), `parseCondToks` is parser2's grammar as Lark's
LALR(1) parser with shift preference reads it, `wfC e` says `e` is a condition of the assertion
language (comparisons ==, !=, <=, < of arithmetic expressions over +, -, *, unary -, abs, max; true;
~, &, |, -->, if-then-else), `normNeg` replaces a negative constant `-n` by unary minus applied to `n`. -/

/-- Printing a condition with (the fixed) `Op.__str__` and parsing the tokens with parser2's grammar
gives back the same expression, up to the reading of negative constants. -/
theorem print_parse_tokens (e : Expr) (h : wfC e = true) : parseCondToks (toks e) = some (normNeg e) :=
  parse_toks e h

example : parseCondToks (toks (.un .not (.bin .and (.bin .eq (.bin .sub (.bin .sub (.var "a") (.var "b")) (.int (-3))) (.int 0)) (.bool true)))) =
    some (.un .not (.bin .and (.bin .eq (.bin .sub (.bin .sub (.var "a") (.var "b")) (.un .neg (.int 3))) (.int 0)) (.bool true))) := by
  decide

/-- non-vacuity with a loop: every VC `get_vcs` produces for `Ex.prog` is in the assertion language and reads back as itself. -/
example : ∀ v ∈ vcsOf Ex.inv Ex.prog Ex.post, wfC v = true ∧ parseCondToks (toks v) = some v := by decide

/-- … and exactly the same expression when it contains no negative constant (what parser2 itself produces). -/
theorem print_parse_id (e : Expr) (h : wfC e = true) (hn : noNegConst e = true) : parseCondToks (toks e) = some e := by
  rw [parse_toks e h, normNeg_id e hn]

example : wfC (.bin .imp (.bin .imp (.bool true) (.bool true)) (.ite (.bool true) (.bool true) (.bool true))) = true ∧
    noNegConst (.bin .imp (.bin .imp (.bool true) (.bool true)) (.ite (.bool true) (.bool true) (.bool true))) = true := by decide

/-- The hypothesis `wfC e` of the theorems above is not vacuous for what the code builds: every condition
the grammar returns satisfies it (and `wfC` is decidable; the driver evaluates it on every generated
condition, on every VC `compute_wp` produces and on every result of the real `cond_parser`). -/
theorem parse_produces_wfC (ts : List Tok) (e : Expr) (h : parseCondToks ts = some e) : wfC e = true :=
  parse_wfC h

example : parseCondToks [.tilde, .lp, .id "a", .le, .num 3, .amp, .ktrue, .rp] =
    some (.un .not (.bin .and (.bin .le (.var "a") (.int 3)) (.bool true))) := by decide

/-- Hence: whatever condition the user enters, printing the parsed condition and parsing it again gives
the same condition (up to the reading of negative constants, which the parser itself never produces). -/
theorem reparse_of_parsed (ts : List Tok) (e : Expr) (h : parseCondToks ts = some e) :
    parseCondToks (toks e) = some (normNeg e) :=
  parse_toks e (parse_wfC h)

example : parseCondToks [.id "a", .minus, .id "b", .minus, .id "c", .eqeq, .num 0] =
      some (.bin .eq (.bin .sub (.var "a") (.bin .sub (.var "b") (.var "c"))) (.int 0)) ∧
    parseCondToks (toks (.bin .eq (.bin .sub (.var "a") (.bin .sub (.var "b") (.var "c"))) (.int 0))) =
      some (.bin .eq (.bin .sub (.var "a") (.bin .sub (.var "b") (.var "c"))) (.int 0)) := ⟨by decide, by decide⟩

/-! ### … on strings

`pp e` is the string `str(e)`; `lex` is Lark's standard lexer for the grammar's terminals (white space
skipped, CNAME / INT matched as long as possible, a CNAME equal to a keyword literal becomes the
keyword, otherwise the longest literal); `namesOK e`: every variable name has the CNAME shape and is
not a keyword (`nameOK`, decidable; the driver evaluates it on every generated name). -/

/-- The lexer reads the printed form of a condition back as exactly the tokens of the printer. -/
theorem lex_print (e : Expr) (hw : wfC e = true) (hn : namesOK e = true) : lex (pp e) = some (toks e) :=
  lex_pp ((lexOK_of_wf e hn).2 hw)

example : wfC (.bin .imp (.bin .lt (.var "a1") (.un .neg (.un .neg (.var "_b")))) (.un .not (.bool true))) = true ∧
    namesOK (.bin .imp (.bin .lt (.var "a1") (.un .neg (.un .neg (.var "_b")))) (.un .not (.bool true))) = true ∧
    pp (.bin .imp (.bin .lt (.var "a1") (.un .neg (.un .neg (.var "_b")))) (.un .not (.bool true))) = "a1 < --_b --> ~true" := by
  decide

/-- The same for arithmetic expressions (what is printed in assignments and as operands). -/
theorem lex_print_arith (e : Expr) (hw : wfA e = true) (hn : namesOK e = true) : lex (pp e) = some (toks e) :=
  lex_pp ((lexOK_of_wf e hn).1 hw)

example : wfA (.bin .mul (.bin .add (.var "x") (.var "y")) (.fn2 .max (.var "x") (.var "while1"))) = true ∧
    namesOK (.bin .mul (.bin .add (.var "x") (.var "y")) (.fn2 .max (.var "x") (.var "while1"))) = true := by decide

/-- Printing a condition with (the fixed) `Op.__str__` and parsing the STRING with parser2 (lexer and
grammar) gives back the same condition, up to the reading of negative constants. -/
theorem print_parse_string (e : Expr) (hw : wfC e = true) (hn : namesOK e = true) : parseCond (pp e) = some (normNeg e) := by
  simp only [parseCond, lex_print e hw hn, Option.bind]
  exact parse_toks e hw

example : parseCond (pp (.un .not (.bin .and (.bin .eq (.bin .sub (.bin .sub (.var "a") (.var "b")) (.var "c")) (.var "d")) (.bool true)))) =
    some (.un .not (.bin .and (.bin .eq (.bin .sub (.bin .sub (.var "a") (.var "b")) (.var "c")) (.var "d")) (.bool true))) :=
  print_parse_string _ (by decide) (by decide)

/-- The condition shown to the user (a string), when parsed again, has the same value in every state
as the condition computed. -/
theorem print_parse_sem (e : Expr) (hw : wfC e = true) (hn : namesOK e = true) :
    ∃ e', parseCond (pp e) = some e' ∧ ∀ s, evalE s e' = evalE s e :=
  ⟨normNeg e, print_parse_string e hw hn, fun s => evalE_normNeg s e⟩

/-- non-vacuity with a loop: every VC of `Ex.prog` is a `wfC` condition over identifiers, so its shown
string parses back to it. -/
example : ∀ v ∈ vcsOf Ex.inv Ex.prog Ex.post, wfC v = true ∧ namesOK v = true := by decide

/-- Every condition `get_vcs` produces for a program of the assertion language (`okCom`: guards and
invariants are `wfC` conditions, assigned expressions `wfA`, all over identifiers; decidable, evaluated by
the driver on every generated case) is again such a condition. -/
theorem vcs_in_language (p q : Expr) (c : Com) (hc : okCom c = true) (hp : okE p = true) (hq : okE q = true) :
    ∀ v ∈ vcsOf p c q, okE v = true :=
  vcs_ok c [p] q hc hq (by intro x hx; simp at hx; subst hx; exact hp)

example : okCom Ex.prog = true ∧ okE Ex.inv = true ∧ okE Ex.post = true := by decide

/-- Hence every verification condition SHOWN to the user, when parsed again from its string, has in every
state the value of the condition computed. -/
theorem vcs_shown_sem (p q : Expr) (c : Com) (hc : okCom c = true) (hp : okE p = true) (hq : okE q = true) :
    ∀ v ∈ vcsOf p c q, ∃ v', parseCond (pp v) = some v' ∧ ∀ s, evalE s v' = evalE s v := by
  intro v hv
  have h := vcs_in_language p q c hc hp hq v hv
  simp only [okE, Bool.and_eq_true] at h
  exact print_parse_sem v h.1 h.2

example : ∃ v, v ∈ vcsOf Ex.inv Ex.prog Ex.post ∧ parseCond (pp v) = some v :=
  ⟨implies Ex.inv Ex.inv, by decide, print_parse_string _ (by decide) (by decide)⟩

/-- The lexer reads a printed program (`print_com`, lines joined by newlines) back as exactly its tokens
`comToks c`, for every program whose names are identifiers (`nameOK`) and whose operators have a concrete
syntax (`lexOKc`, decidable). No parse-back theorem for programs is claimed: `Seq(Cond(..), c)` has no
concrete syntax (known finding). -/
theorem lex_print_com (c : Com) (h : lexOKc c = true) : lex (ppCom c) = some (comToks c) :=
  lex_ppCom h

example : lexOKc (.seq Ex.prog (.cond (.bin .le (.var "a") (.int 0)) .skip (.assign "b_1" (.un .neg (.var "a"))))) = true ∧
    (comToks (.seq Ex.prog (.cond (.bin .le (.var "a") (.int 0)) .skip (.assign "b_1" (.un .neg (.var "a")))))).length = 32 := by decide

/-! ### printing and re-parsing programs -/

/-- For every program `print_com` can express (`printableCom`, decidable: the first part of a sequence is
neither a sequence nor a conditional; guards, invariants, assigned expressions in the assertion language;
names are identifiers), parsing the printed TEXT gives the program back, up to the reading of negative
constants. -/
theorem com_parse_print (c : Com) (h : printableCom c = true) : parseCom (ppCom c) = some (normNegCom c) := by
  simp only [printableCom, Bool.and_eq_true] at h
  simp only [parseCom, lex_print_com c h.2, Option.bind]
  exact parseComToks_print h.1.1 h.1.2

/-- … and the program read back executes exactly like the one printed. -/
theorem com_parse_print_exec (c : Com) (h : printableCom c = true) :
    ∃ c', parseCom (ppCom c) = some c' ∧ ∀ s t, Exec c' s t ↔ Exec c s t :=
  ⟨normNegCom c, com_parse_print c h, exec_normNegCom c⟩

/-- non-vacuity with a loop, a sequence and a conditional -/
example : printableCom (.seq Ex.prog (.cond (.bin .le (.var "a") (.int 0)) .skip (.assign "b_1" (.un .neg (.var "a"))))) = true := by decide

namespace Ex
/-- `(if (x == 0) then x := 1 else skip); y := 1` — not expressible by `print_com` -/
def bad : Com := .seq (.cond (.bin .eq (.var "x") (.int 0)) (.assign "x" (.int 1)) .skip) (.assign "y" (.int 1))
/-- what it is read back as: `if (x == 0) then x := 1 else (skip; y := 1)` -/
def badRead : Com := .cond (.bin .eq (.var "x") (.int 0)) (.assign "x" (.int 1)) (.seq .skip (.assign "y" (.int 1)))
end Ex

/-- The known finding, proved: a sequence whose first part is a conditional prints with the tokens of the
conditional whose else-branch swallows the rest, is read back as that program, and the two behave
differently (from x = 0 one ends with y = 1, the other with y = 0). -/
theorem seq_after_cond_counterexample :
    printableCom Ex.bad = false ∧ parseCom (ppCom Ex.bad) = some Ex.badRead ∧
    Exec Ex.bad (fun _ => 0) (upd (upd (fun _ => 0) "x" 1) "y" 1) ∧
    Exec Ex.badRead (fun _ => 0) (upd (fun _ => 0) "x" 1) := by
  refine ⟨by decide, ?_, ?_, ?_⟩
  · have h1 : lex (ppCom Ex.bad) = some (comToks Ex.bad) := lex_print_com _ (by decide)
    have h2 : comToks Ex.bad = comToks Ex.badRead := by decide
    have h3 : parseComToks (comToks Ex.badRead) = some (normNegCom Ex.badRead) := parseComToks_print (by decide) (by decide)
    have h4 : normNegCom Ex.badRead = Ex.badRead := by decide
    simp only [parseCom, h1, Option.bind, h2, h3, h4]
  · exact .seq (.condT (by simp [evalE, evalBin]) (.assign rfl)) (.assign rfl)
  · exact .condT (by simp [evalE, evalBin]) (.assign rfl)

example : (upd (upd (fun _ => (0 : Int)) "x" 1) "y" 1) "y" ≠ (upd (fun _ => (0 : Int)) "x" 1) "y" := by decide

/-! ### `Sem` of library/hoare.json (Gen.lean is regenerated from the library on every run) -/

/-- The inductive predicate `Sem` defined by the rules `Sem_basic … Sem_while_loop` of
library/hoare.json, on the HOL term a well-sorted program denotes, is exactly the big-step semantics:
a checker-accepted theorem `Sem c s s'` (what `imp.eval_Sem` proves) states the interpreter's result. -/
theorem sem_adequate (c : Com) (hw : WS c) (s s' : State) : Gen.Sem (embed c) s s' ↔ Exec c s s' :=
  ⟨sem_to_exec c hw s s', exec_to_sem⟩

example : WS (.cond (.bin .eq (.var "a") (.int 0)) (.assign "a" (.int 1)) .skip) :=
  ⟨fun _ => ⟨_, rfl⟩, fun _ => ⟨_, rfl⟩, trivial⟩

/-- The hypothesis of `sem_adequate` is decidable: `wsCom c` (guards are well-typed conditions,
assigned expressions well-typed integer expressions; Model.lean) implies it. The driver evaluates
`wsCom` on every generated program, so the theorem applies to what the harness builds. -/
theorem sem_adequate_ws (c : Com) (hw : wsCom c = true) (s s' : State) : Gen.Sem (embed c) s s' ↔ Exec c s s' :=
  sem_adequate c (ws_of_wsCom c hw) s s'

/-- non-vacuity with a loop: `while (0 < a) {[0 <= a] a := a - 1}` is well-sorted, and `Sem` holds
of its run from a = 1. -/
example : wsCom Ex.prog = true ∧ Gen.Sem (embed Ex.prog) Ex.s1 (upd Ex.s1 "a" 0) := by
  refine ⟨by decide, (sem_adequate_ws Ex.prog (by decide) _ _).mpr ?_⟩
  refine .whileT (s1 := upd Ex.s1 "a" 0) ?_ (.assign ?_) (.whileF ?_) <;>
    simp [Ex.s1, evalE, evalBin, upd]

/-- Well-typed expressions always have a value of their sort (so `holds`/`Exec` never get stuck on
what `convert_hol` can translate). -/
theorem typed_total (s : State) (e : Expr) :
    (tyA e = true → ∃ v, evalE s e = some (.int v)) ∧ (tyC e = true → ∃ b, evalE s e = some (.bool b)) :=
  ty_sound s e

example : tyC (.ite (.bin .ge (.var "a") (.int 0)) (.bin .eq (.fn1 .abs (.var "a")) (.var "a")) (.bool false)) = true := by decide

/-- `imp.eval_Sem`: whenever the model of the function returns a derivation `d` and a final state `t`
for (c, s), `d` is a well-formed derivation from the theorems `Sem_Skip`, `Sem_Assign`, `Sem_seq`, `Sem_if1`,
`Sem_if2`, `Sem_while_skip`, `Sem_while_loop` of library/hoare.json, it proves `Sem c s t` in the inductive
`Sem` the library defines, and `t` is the state the direct interpreter computes. So the theorem the real
function returns (same statement and same rule sequence: compared per run) states a true fact. -/
theorem eval_Sem_derives (n : Nat) (c : Com) (s t : State) (d : Deriv) (h : evalSem n c s = some (d, t)) :
    DerivOK d (embed c) s t ∧ Gen.Sem (embed c) s t ∧ interp n c s = .ok t ∧ Exec c s t :=
  have hs := evalSem_spec n c s d t h
  ⟨hs.1, derivOK_sound hs.1, hs.2, interp_exec n c s t hs.2⟩

/-- non-vacuity: the countdown loop from a = 1: the derivation is Sem_while_loop(Sem_Assign, Sem_while_skip). -/
example : ∃ d t, evalSem 5 Ex.prog Ex.s1 = some (d, t) ∧ d.rules = ["Sem_while_loop", "Sem_Assign", "Sem_while_skip"] ∧ t "a" = 0 :=
  ⟨_, _, rfl, by decide, by decide⟩

/-- `eval_Sem` succeeds exactly when the interpreter does (same fuel), so on every terminating, non-stuck
run the real function's result is covered by `eval_Sem_derives`. -/
theorem eval_Sem_total (n : Nat) (c : Com) (s t : State) (h : interp n c s = .ok t) : ∃ d, evalSem n c s = some (d, t) :=
  evalSem_of_interp n c s t h

example : ∃ d, evalSem 3 (.seq .skip (.assign "x" (.int 2))) (fun _ => 0) = some (d, upd (fun _ => 0) "x" 2) := ⟨_, rfl⟩

/-- the rule list translated is the one the proof above was written for -/
theorem sem_rules_pinned : Gen.semRuleNames =
    ["Sem_basic", "Sem_seq", "Sem_if1", "Sem_if2", "Sem_while_skip", "Sem_while_loop"] := by decide

example : Gen.semRuleNames.length = 6 := by decide

/-- The derived facts `Sem_Skip`, `Sem_Assign` that `eval_Sem` applies and the Hoare rules that
`imp.compute_wp`/`imp.vcg` apply (`skip_rule`, `if_rule`, `while_rule` carry no proof in the library)
are valid for the `Sem` the library defines. -/
theorem hoare_rules_valid :
    Gen.Sem_Skip_stmt ∧ Gen.Sem_Assign_stmt ∧ Gen.pre_rule_stmt ∧ Gen.skip_rule_stmt ∧ Gen.assign_rule_stmt ∧
    Gen.seq_rule_stmt ∧ Gen.if_rule_stmt ∧ Gen.while_rule_stmt :=
  ⟨sem_skip_ok, sem_assign_ok, pre_rule_ok, skip_rule_ok, assign_rule_ok, seq_rule_ok, if_rule_ok, while_rule_ok⟩

example : Gen.hoareRuleNames =
    ["Sem_Skip", "Sem_Assign", "pre_rule", "skip_rule", "assign_rule", "seq_rule", "if_rule", "while_rule"] := by decide

/-! ### ONE command object analysed more than once (mutable `Com.pre` / `Com.post`) -/

/-- Re-used objects: after ANY history of `obj.pre = [p]`, `obj.compute_wp(..)`, `get_vcs`, `print_com` on one object
built for `c` in which only reads follow the last `compute_wp(q)`: if every condition `get_vcs` then returns is valid,
every terminating execution of `c` from a state satisfying `obj.pre[0]` (the value that `compute_wp` returned) ends in a
state satisfying `q` -- whatever was stored in the object's `pre`/`post` lists by the earlier analyses. -/
theorem history_vcs_sound_ret (c : Com) (h1 h2 : List Op) (q : Expr) (hro : ∀ o ∈ h2, o.readOnly = true)
    (hv : ∀ v ∈ getVcs (runOps (ACom.init c) (h1 ++ .wp q :: h2)), valid v)
    (s s' : State) (hs : holds s (runOps (ACom.init c) (h1 ++ .wp q :: h2)).ret) (hex : Exec c s s') : holds s' q := by
  have e : runOps (ACom.init c) (h1 ++ .wp q :: h2) = reWpAux [] (runOps (ACom.init c) h1) q := by
    simp only [runOps, List.foldl_append, List.foldl_cons]
    exact runOps_readOnly h2 _ hro
  rw [e] at hv hs
  have hc : (runOps (ACom.init c) h1).erase = c := by rw [runOps_erase, init_erase]
  exact reWp_sound _ [] q hv s s' (by rw [hc]; exact hex) hs

/-- The same with the precondition the caller stated: `p` is the argument of the last `obj.pre = [p]`, `q` the argument
of the last `compute_wp`, which comes after it; all VCs of the final `get_vcs` valid ==> `{p} c {q}` (partial correctness). -/
theorem history_vcs_sound (c : Com) (h1 h2 : List Op) (p q : Expr) (hp : lastPre h1 = some p)
    (hro : ∀ o ∈ h2, o.readOnly = true)
    (hv : ∀ v ∈ getVcs (runOps (ACom.init c) (h1 ++ .wp q :: h2)), valid v)
    (s s' : State) (hs : holds s p) (hex : Exec c s s') : holds s' q := by
  refine history_vcs_sound_ret c h1 h2 q hro hv s s' ?_ hex
  have e : runOps (ACom.init c) (h1 ++ .wp q :: h2) = reWpAux [] (runOps (ACom.init c) h1) q := by
    simp only [runOps, List.foldl_append, List.foldl_cons]
    exact runOps_readOnly h2 _ hro
  have h0 : headIs p (runOps (ACom.init c) h1) := lastPre_headIs h1 _ none (by intro _ h; cases h) p hp
  have hr : (reWpAux [] (runOps (ACom.init c) h1) q).ret = p :=
    headIs_ret (headIs_step (.wp q) (by intro _ h; cases h) h0)
  rw [e, hr]
  exact hs

/-- non-vacuity: the countdown loop analysed for a wrong postcondition first, printed, then analysed again for the right
one on the same object: 5 conditions (the 3 of a fresh object + 2 repeated ones, e.g. `I & b --> I & b` in the body), all valid; the loop runs. -/
example : let h1 : List Op := [.vcs, .setPre Ex.inv, .wp Ex.inv, .print, .setPre Ex.inv]
    lastPre h1 = some Ex.inv ∧
    (getVcs (runOps (ACom.init Ex.prog) (h1 ++ .wp Ex.post :: [.vcs, .print]))).length = 5 ∧
    (∀ v ∈ getVcs (runOps (ACom.init Ex.prog) (h1 ++ .wp Ex.post :: [.vcs, .print])), valid v) ∧
    holds Ex.s1 Ex.inv ∧ Exec Ex.prog Ex.s1 (upd Ex.s1 "a" 0) := by
  refine ⟨by decide, by decide, ?_, by simp [holds, Ex.inv, Ex.s1, evalE, evalBin], ?_⟩
  · have e : getVcs (runOps (ACom.init Ex.prog)
        ([.vcs, .setPre Ex.inv, .wp Ex.inv, .print, .setPre Ex.inv] ++ .wp Ex.post :: [.vcs, .print])) =
        [implies Ex.inv Ex.inv,
         implies (conj Ex.inv (.bin .lt (.int 0) (.var "a"))) (conj Ex.inv (.bin .lt (.int 0) (.var "a"))),
         implies (conj Ex.inv (.bin .lt (.int 0) (.var "a"))) (.bin .le (.int 0) (.bin .sub (.var "a") (.int 1))),
         implies (.bin .le (.int 0) (.bin .sub (.var "a") (.int 1))) (.bin .le (.int 0) (.bin .sub (.var "a") (.int 1))),
         implies (conj Ex.inv (neg (.bin .lt (.int 0) (.var "a")))) Ex.post] := by decide
    rw [e]
    intro v hv
    simp only [List.mem_cons, List.not_mem_nil, or_false] at hv
    rcases hv with rfl | rfl | rfl | rfl | rfl <;> intro s <;>
      simp only [holds, implies, conj, neg, Ex.inv, Ex.post, evalE, evalBin, evalUn] <;>
      simp <;> omega
  · refine .whileT (s1 := upd Ex.s1 "a" 0) ?_ (.assign ?_) (.whileF ?_) <;>
      simp [Ex.s1, evalE, evalBin, upd]

/-- The order matters: `obj.pre = [p]` AFTER the last `compute_wp` throws the analysis of the top node away -- `get_vcs`
returns nothing for `skip`, yet `{true} skip {a == 0}` is false.  (The caller's protocol, parser2 and app/imperative.py set
`pre` before analysing; this is why `history_vcs_sound` asks for it.) -/
theorem history_set_pre_after_wp_counterexample :
    getVcs (runOps (ACom.init .skip) [.wp Ex.post, .setPre etrue]) = [] ∧
    holds Ex.s1 etrue ∧ Exec .skip Ex.s1 Ex.s1 ∧ ¬ holds Ex.s1 Ex.post := by
  refine ⟨by decide, by simp [holds, etrue, evalE], .skip, ?_⟩
  simp [holds, Ex.post, Ex.s1, evalE, evalBin]

/-- A fresh object analysed once is the special case `vcs_sound` talks about. -/
theorem history_fresh (c : Com) (p q : Expr) :
    getVcs (runOps (ACom.init c) [.setPre p, .wp q]) = vcsOf p c q := by
  simp only [runOps, List.foldl_cons, List.foldl_nil, stepOp, reWp, vcsOf]
  congr 1
  cases c <;> simp [ACom.init, ACom.setPre, reWpAux, computeWp, reWpAux_init]

example : getVcs (runOps (ACom.init Ex.prog) [.setPre Ex.inv, .wp Ex.post]) = vcsOf Ex.inv Ex.prog Ex.post ∧
    (vcsOf Ex.inv Ex.prog Ex.post).length = 3 := ⟨by decide, by decide⟩

/-- What a re-analysis does on the current tree: nothing is forgotten below the top node.  `a := a + 1` after `skip`,
analysed for `a == 1` and then (with `pre` set again) for `a == 2`, keeps asking for the old intermediate assertion:
the second `get_vcs` contains `a + 1 == 1 --> a + 1 == 2`, which is not valid, although `{a == 1} skip; a := a + 1 {a == 2}`
is true and a fresh object's conditions for it are valid: re-analysis is sound (above) but NOT complete. -/
theorem history_reanalysis_incomplete :
    let c : Com := .seq .skip (.assign "a" (.bin .add (.var "a") (.int 1)))
    let q1 : Expr := .bin .eq (.var "a") (.int 1)
    let q2 : Expr := .bin .eq (.var "a") (.int 2)
    let w1 : Expr := .bin .eq (.bin .add (.var "a") (.int 1)) (.int 1)
    let w2 : Expr := .bin .eq (.bin .add (.var "a") (.int 1)) (.int 2)
    implies w1 w2 ∈ getVcs (runOps (ACom.init c) [.setPre q1, .wp q1, .setPre q1, .wp q2]) ∧
    ¬ valid (implies w1 w2) ∧ vcsOf q1 c q2 = [implies q1 w2] ∧ valid (implies q1 w2) := by
  refine ⟨by decide, ?_, by decide, ?_⟩
  · intro h
    have := h (fun _ => 0)
    simp [holds, implies, evalE, evalBin] at this
  · intro s
    simp only [holds, implies, evalE, evalBin]
    simp
    omega

end Holpy.C20
