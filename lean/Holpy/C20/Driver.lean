import Holpy.Common.Sexp
import Holpy.C20.Model
/-
Line protocol of the C20 model (one s-expression in, one out).

  EXPR  = (var x) | (int n) | (bool T|F) | (un neg|not E) | (bin OP E E) | (fn1 abs|max E)
        | (fn2 abs|max E E) | (ite E E E)
  COM   = (skip) | (assign x E) | (seq C C) | (cond E C C) | (while E E C)
  STATE = ((x n) ...)          variables not listed are 0
  STR   = atom, percent-encoded as in harness/common/sexp.py

  (vcs COM PRE POST)        -> (ok ACOM (E ...) (STR ...) (wsCom&&okCom okEpre okEpost allVCsokE))   annotated command, VCs, printed VCs, hypotheses of the theorems
  (vcsh COM PRE POST)       -> (E ...)                        conditions of imp.vcg (no `== true` shortcut)
  (wf E)                    -> (wfC wfA tyC tyA)              each T | F
  (ws COM)                  -> T | F                          wsCom
  (pp E)                    -> STR
  (lexpp E)                 -> T | F        does `lex (pp E)` equal `toks E`
  (ppcom COM)               -> STR                            the lines of print_com joined by newlines
  (lex STR)                 -> (ok (TOK ...)) | err           TOK = (id x) | (num n) | (sym s)
  (nameok x)                -> T | F
  (evalsem FUEL COM STATE (x ...)) -> (ok (RULE ...) (n ...)) | none    rule names of the derivation (pre-order), final state
  (printable COM)           -> (printableCom c   parseCom (ppCom c) == normNegCom c)   each T | F
  (lexcom COM)              -> (lexOKc  lex(ppCom c)==comToks c)   each T | F
  (parsecond STR)           -> (ok E) | err
  (parsecom STR)            -> (ok COM) | err
  (eval E STATE)            -> (int n) | (bool T|F) | none
  (interp FUEL COM STATE (x ...)) -> (ok (n ...)) | stuck | fuel
  (hist COM (OP ...))       -> ((STR ...) ...)     OP = (setpre E) | (wp E) | (vcs) | (print): ONE object, printed VCs of get_vcs after every operation
-/
open Holpy Holpy.C20

namespace Holpy.C20.Driver

def safeChars : List Char :=
  "abcdefghijklmnopqrstuvwxyzABCDEFGHIJKLMNOPQRSTUVWXYZ0123456789_-+.'?:=<>!*/&|~^@#$,;[]{}".toList

def hexStr (n : Nat) : String := String.ofList (Nat.toDigits 16 n)

def enc (s : String) : String :=
  if s.isEmpty then "%e" else
  String.join (s.toList.map fun c =>
    if safeChars.contains c then String.singleton c else "%" ++ hexStr c.toNat ++ "%")

def hexVal (cs : List Char) : Nat :=
  cs.foldl (fun n c =>
    16 * n + (if c.isDigit then c.toNat - '0'.toNat
              else if 'a' ≤ c ∧ c ≤ 'f' then c.toNat - 'a'.toNat + 10
              else if 'A' ≤ c ∧ c ≤ 'F' then c.toNat - 'A'.toNat + 10 else 0)) 0

partial def decAux : List Char → List Char → List Char
  | [], acc => acc.reverse
  | '%' :: cs, acc =>
    let h := cs.takeWhile (· != '%')
    let rest := (cs.dropWhile (· != '%')).drop 1
    decAux rest (Char.ofNat (hexVal h) :: acc)
  | c :: cs, acc => decAux cs (c :: acc)

def dec (a : String) : String :=
  if a = "%e" then "" else String.ofList (decAux a.toList [])

def uopOf : String → Option UOp
  | "neg" => some .neg | "not" => some .not | _ => none
def uopTo : UOp → String
  | .neg => "neg" | .not => "not"
def bopOf : String → Option BOp
  | "add" => some .add | "sub" => some .sub | "mul" => some .mul
  | "eq" => some .eq | "ne" => some .ne | "le" => some .le | "lt" => some .lt
  | "ge" => some .ge | "gt" => some .gt
  | "and" => some .and | "or" => some .or | "imp" => some .imp | "iff" => some .iff
  | _ => none
def bopTo : BOp → String
  | .add => "add" | .sub => "sub" | .mul => "mul"
  | .eq => "eq" | .ne => "ne" | .le => "le" | .lt => "lt" | .ge => "ge" | .gt => "gt"
  | .and => "and" | .or => "or" | .imp => "imp" | .iff => "iff"
def fnOfS : String → Option Fn
  | "abs" => some .abs | "max" => some .max | _ => none

partial def exprOf : Sexp → Option Expr
  | .list [.atom "var", .atom x] => some (.var (dec x))
  | .list [.atom "int", n] => do some (.int (← n.toInt?))
  | .list [.atom "bool", b] => do some (.bool (← b.toBool?))
  | .list [.atom "un", .atom o, a] => do some (.un (← uopOf o) (← exprOf a))
  | .list [.atom "bin", .atom o, a, b] => do some (.bin (← bopOf o) (← exprOf a) (← exprOf b))
  | .list [.atom "fn1", .atom f, a] => do some (.fn1 (← fnOfS f) (← exprOf a))
  | .list [.atom "fn2", .atom f, a, b] => do some (.fn2 (← fnOfS f) (← exprOf a) (← exprOf b))
  | .list [.atom "ite", c, a, b] => do some (.ite (← exprOf c) (← exprOf a) (← exprOf b))
  | _ => none

def exprTo : Expr → Sexp
  | .var x => .list [.atom "var", .atom (enc x)]
  | .int i => .list [.atom "int", Sexp.ofInt i]
  | .bool b => .list [.atom "bool", Sexp.ofBool b]
  | .un o a => .list [.atom "un", .atom (uopTo o), exprTo a]
  | .bin o a b => .list [.atom "bin", .atom (bopTo o), exprTo a, exprTo b]
  | .fn1 f a => .list [.atom "fn1", .atom f.str, exprTo a]
  | .fn2 f a b => .list [.atom "fn2", .atom f.str, exprTo a, exprTo b]
  | .ite c a b => .list [.atom "ite", exprTo c, exprTo a, exprTo b]

partial def comOf : Sexp → Option Com
  | .list [.atom "skip"] => some .skip
  | .list [.atom "assign", .atom x, e] => do some (.assign (dec x) (← exprOf e))
  | .list [.atom "seq", a, b] => do some (.seq (← comOf a) (← comOf b))
  | .list [.atom "cond", b, c1, c2] => do some (.cond (← exprOf b) (← comOf c1) (← comOf c2))
  | .list [.atom "while", b, i, c] => do some (.while (← exprOf b) (← exprOf i) (← comOf c))
  | _ => none

def comTo : Com → Sexp
  | .skip => .list [.atom "skip"]
  | .assign x e => .list [.atom "assign", .atom (enc x), exprTo e]
  | .seq a b => .list [.atom "seq", comTo a, comTo b]
  | .cond b c1 c2 => .list [.atom "cond", exprTo b, comTo c1, comTo c2]
  | .while b i c => .list [.atom "while", exprTo b, exprTo i, comTo c]

def exprsTo (l : List Expr) : Sexp := .list (l.map exprTo)

def acomTo : ACom → Sexp
  | .skip p q => .list [.atom "skip", exprsTo p, exprsTo q]
  | .assign p q _ _ => .list [.atom "assign", exprsTo p, exprsTo q]
  | .seq p q a b => .list [.atom "seq", exprsTo p, exprsTo q, acomTo a, acomTo b]
  | .cond p q _ a b => .list [.atom "cond", exprsTo p, exprsTo q, acomTo a, acomTo b]
  | .while p q _ _ a => .list [.atom "while", exprsTo p, exprsTo q, acomTo a]

def stateOf (s : Sexp) : Option State := do
  let xs ← s.toList?
  let ps ← xs.mapM fun
    | .list [.atom x, n] => do some (dec x, (← n.toInt?))
    | _ => none
  some (fun y => match ps.find? (·.1 = y) with
    | some p => p.2
    | none => 0)

def valTo : Option Val → Sexp
  | some (.int i) => .list [.atom "int", Sexp.ofInt i]
  | some (.bool b) => .list [.atom "bool", Sexp.ofBool b]
  | none => .atom "none"

def opOf : Sexp → Option Op
  | .list [.atom "setpre", e] => do some (.setPre (← exprOf e))
  | .list [.atom "wp", e] => do some (.wp (← exprOf e))
  | .list [.atom "vcs"] => some .vcs
  | .list [.atom "print"] => some .print
  | _ => none

def handle (line : String) : String :=
  match Sexp.parse line with
  | some (.list [.atom "vcs", c, p, q]) =>
    match comOf c, exprOf p, exprOf q with
    | some c, some p, some q =>
      let a := computeWp c [p] q
      let vcs := getVcs a
      toString (Sexp.list [.atom "ok", acomTo a, exprsTo vcs, .list (vcs.map fun v => .atom (enc (pp v))),
        .list [Sexp.ofBool (wsCom c && okCom c), Sexp.ofBool (okE p), Sexp.ofBool (okE q), Sexp.ofBool (vcs.all okE)]])
    | _, _, _ => "bad-op"
  | some (.list [.atom "vcsh", c, p, q]) =>
    match comOf c, exprOf p, exprOf q with
    | some c, some p, some q => toString (exprsTo (vcsH p c q))
    | _, _, _ => "bad-op"
  | some (.list [.atom "wf", e]) =>
    match exprOf e with
    | some e => toString (Sexp.list [Sexp.ofBool (wfC e), Sexp.ofBool (wfA e), Sexp.ofBool (tyC e), Sexp.ofBool (tyA e)])
    | none => "bad-op"
  | some (.list [.atom "ws", c]) =>
    match comOf c with
    | some c => toString (Sexp.ofBool (wsCom c))
    | none => "bad-op"
  | some (.list [.atom "pp", e]) =>
    match exprOf e with
    | some e => enc (pp e)
    | none => "bad-op"
  | some (.list [.atom "lexpp", e]) =>
    match exprOf e with
    | some e => toString (Sexp.ofBool (lex (pp e) == some (toks e)))
    | none => "bad-op"
  | some (.list [.atom "lex", .atom s]) =>
    match lex (dec s) with
    | some ts => toString (Sexp.list [.atom "ok", .list (ts.map fun
        | .id x => .list [.atom "id", .atom (enc x)]
        | .num n => .list [.atom "num", Sexp.ofNat n]
        | t => .list [.atom "sym", .atom (enc (String.ofList (tokChars t)))])])
    | none => "err"
  | some (.list [.atom "lexcom", c]) =>
    match comOf c with
    | some c => toString (Sexp.list [Sexp.ofBool (lexOKc c), Sexp.ofBool (lex (ppCom c) == some (comToks c))])
    | none => "bad-op"
  | some (.list [.atom "evalsem", fuel, c, st, .list vars]) =>
    match fuel.toNat?, comOf c, stateOf st with
    | some f, some c, some s =>
      match evalSem f c s with
      | some (dv, s') => toString (Sexp.list [.atom "ok", .list (dv.rules.map Sexp.atom), .list (vars.map fun
          | .atom x => Sexp.ofInt (s' (dec x))
          | _ => .atom "?")])
      | none => "none"
    | _, _, _ => "bad-op"
  | some (.list [.atom "printable", c]) =>
    match comOf c with
    | some c => toString (Sexp.list [Sexp.ofBool (printableCom c), Sexp.ofBool (parseCom (ppCom c) == some (normNegCom c))])
    | none => "bad-op"
  | some (.list [.atom "nameok", .atom x]) => toString (Sexp.ofBool (nameOK (dec x)))
  | some (.list [.atom "ppcom", c]) =>
    match comOf c with
    | some c => enc (ppCom c)
    | none => "bad-op"
  | some (.list [.atom "parsecond", .atom s]) =>
    match parseCond (dec s) with
    | some e => toString (Sexp.list [.atom "ok", exprTo e])
    | none => "err"
  | some (.list [.atom "parsecom", .atom s]) =>
    match parseCom (dec s) with
    | some c => toString (Sexp.list [.atom "ok", comTo c])
    | none => "err"
  | some (.list [.atom "eval", e, st]) =>
    match exprOf e, stateOf st with
    | some e, some s => toString (valTo (evalE s e))
    | _, _ => "bad-op"
  | some (.list [.atom "interp", fuel, c, st, .list vars]) =>
    match fuel.toNat?, comOf c, stateOf st with
    | some f, some c, some s =>
      match interp f c s with
      | .ok s' => toString (Sexp.list [.atom "ok", .list (vars.map fun
          | .atom x => Sexp.ofInt (s' (dec x))
          | _ => .atom "?")])
      | .stuck => "stuck"
      | .fuel => "fuel"
    | _, _, _ => "bad-op"
  | some (.list [.atom "hist", c, .list ops]) =>
    match comOf c, ops.mapM opOf with
    | some c, some ops =>
      toString (Sexp.list ((vcsTrace (ACom.init c) ops).map fun vcs => .list (vcs.map fun v => .atom (enc (pp v)))))
    | _, _ => "bad-op"
  | _ => "bad-op"

end Holpy.C20.Driver

def main : IO Unit := Holpy.lineLoop Holpy.C20.Driver.handle
