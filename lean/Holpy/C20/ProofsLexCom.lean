import Holpy.C20.ProofsLex4
/-
C20 — the lexer reads printed programs back (`lex (ppCom c) = some (comToks c)`).
-/
namespace Holpy.C20

theorem tokensOf_comItems : ∀ c ind, tokensOf (comItems ind c) = comToks c := by
  intro c
  induction c with
  | skip => intro ind; rfl
  | assign x e => intro ind; simp [comItems, comToks, tokensOf, tokensOf_items]
  | seq c1 c2 ih1 ih2 => intro ind; simp [comItems, comToks, tokensOf, tokensOf_append, ih1, ih2]
  | cond b c1 c2 ih1 ih2 => intro ind; simp [comItems, comToks, tokensOf, tokensOf_append, tokensOf_items, ih1, ih2]
  | «while» b inv c ih => intro ind; simp [comItems, comToks, tokensOf, tokensOf_append, tokensOf_items, ih]

theorem benign_nl (r) : benign ('\n' :: r) = true := by simp [benign]; decide
theorem benign_semi (r) : benign (';' :: r) = true := by simp [benign]; decide
theorem benign_rbrack (r) : benign (']' :: r) = true := by simp [benign]; decide

theorem okK_nil (k : List Char) : okK k [] = true := rfl
theorem render_nil : render [] = [] := rfl

theorem okK_ws (k : List Char) (nl : Bool) (n : Nat) (l : List Item) : okK k (.ws nl n :: l) = okK k l := rfl

theorem render_nl (n : Nat) (l : List Item) : render (.ws true n :: l) = '\n' :: (List.replicate n ' ' ++ render l) := by
  simp [render, Item.chars]

theorem comItems_ok : ∀ c, lexOKc c = true → ∀ ind k, benign k = true → okK k (comItems ind c) = true := by
  intro c
  induction c with
  | skip =>
    intro _ ind k hk
    simp [comItems, okK, render, tokOK, safe_benign .kskip rfl k hk]
  | assign x e =>
    intro h ind k hk
    simp only [lexOKc, Bool.and_eq_true] at h
    simp only [comItems, okK_ws, okK_tok, okK_sp, render_sp, render_tok, List.cons_append]
    simp [tokOK, h.1, safe_sp (.id x) (by simpa [tokOK] using h.1), safeAfter, items_ok e h.2 k hk]
    decide
  | seq c1 c2 ih1 ih2 =>
    intro h ind k hk
    simp only [lexOKc, Bool.and_eq_true] at h
    simp only [comItems, okK_append, okK_tok, okK_ws, render_tok, tokChars, List.cons_append, List.nil_append]
    simp [tokOK, safeAfter, ih1 h.1 ind _ (benign_semi _), ih2 h.2 ind k hk]
  | cond b c1 c2 ih1 ih2 =>
    intro h ind k hk
    simp only [lexOKc, Bool.and_eq_true] at h
    simp only [comItems, okK_append, okK_tok, okK_ws, okK_sp, render_tok, render_sp, render_nl, tokChars, List.cons_append, List.nil_append,
      render_append]
    simp [tokOK, safeAfter, safe_sp .kif rfl, safe_benign .kthen rfl _ (benign_nl _), safe_benign .kelse rfl _ (benign_nl _),
      items_ok b h.1.1 _ (benign_rp _), ih1 h.1.2 (ind + 2) _ (benign_nl _), ih2 h.2 (ind + 2) k hk]
    exact ⟨by decide, by decide⟩
  | «while» b inv c ih =>
    intro h ind k hk
    simp only [lexOKc, Bool.and_eq_true] at h
    simp only [comItems, okK_append, okK_tok, okK_ws, okK_sp, render_tok, render_sp, render_nl, tokChars, List.cons_append, List.nil_append,
      render_append, okK_nil, render_nil, List.nil_append]
    simp [tokOK, safeAfter, safe_sp .kwhile rfl, items_ok b h.1.1 _ (benign_rp _), items_ok inv h.1.2 _ (benign_rbrack _),
      ih h.2 (ind + 2) _ (benign_nl _)]
    try decide

theorem lex_ppCom {c : Com} (h : lexOKc c = true) : lex (ppCom c) = some (comToks c) := by
  rw [← tokensOf_comItems c 0]
  exact lex_render (comItems_ok c h 0 [] rfl)

end Holpy.C20
