import Holpy.C20.ProofsParse
/-
C20 — whatever the grammar model returns is in the assertion language: `parseCondToks ts = some e → wfC e`.
So the hypothesis `wfC e` of the print/parse theorems holds for every condition parser2 can produce.
-/
namespace Holpy.C20

/-- a parser result is an arithmetic expression or a condition of the assertion language -/
def G (e : Expr) : Prop := (isArithE e = true ∧ wfA e = true) ∨ (isCondE e = true ∧ wfC e = true)

theorem arith_not_cond : ∀ e, isArithE e = true → isCondE e = false := by
  intro e h
  cases e with
  | un o a => cases o <;> simp_all [isArithE, isCondE]
  | bin o a b => simp_all [isArithE, isCondE]
  | _ => simp_all [isArithE, isCondE]

theorem G_arith {e} (g : G e) (h : isArithE e = true) : wfA e = true := by
  rcases g with g | g
  · exact g.2
  · have := arith_not_cond e h; rw [this] at g; exact absurd g.1 (by simp)

theorem G_cond {e} (g : G e) (h : isCondE e = true) : wfC e = true := by
  rcases g with g | g
  · have := arith_not_cond e g.1; rw [this] at h; exact absurd h (by simp)
  · exact g.2

abbrev Good (f : List Tok → PRes) : Prop := ∀ ts e r, f ts = some (e, r) → G e

theorem binRes_some {o ok a res e r} (h : binRes o ok a res = some (e, r)) :
    ∃ b, res = some (b, r) ∧ ok a = true ∧ ok b = true ∧ e = .bin o a b := by
  cases res with
  | none => simp [binRes] at h
  | some p =>
    obtain ⟨b, r'⟩ := p
    simp only [binRes] at h
    split at h
    · rename_i hok
      simp only [Bool.and_eq_true] at hok
      cases h
      exact ⟨b, rfl, hok.1, hok.2, rfl⟩
    · cases h

theorem unRes_some {o ok res e r} (h : unRes o ok res = some (e, r)) :
    ∃ a, res = some (a, r) ∧ ok a = true ∧ e = .un o a := by
  cases res with
  | none => simp [unRes] at h
  | some p =>
    obtain ⟨a, r'⟩ := p
    simp only [unRes] at h
    split at h
    · rename_i hok; cases h; exact ⟨a, rfl, hok, rfl⟩
    · cases h

theorem G_binC {o : BOp} (ho : o.boolPrio.isSome = true) {a b} (ga : G a) (gb : G b)
    (ha : isCondE a = true) (hb : isCondE b = true) : G (.bin o a b) := by
  refine Or.inr ⟨?_, ?_⟩
  · cases o <;> simp_all [isCondE, BOp.isArith, BOp.boolPrio]
  · simp [wfC, ho, G_cond ga ha, G_cond gb hb]

theorem G_binA {o : BOp} (ho : o.isArith = true) {a b} (ga : G a) (gb : G b)
    (ha : isArithE a = true) (hb : isArithE b = true) : G (.bin o a b) :=
  Or.inl ⟨by simp [isArithE, ho], by simp [wfA, ho, G_arith ga ha, G_arith gb hb]⟩

theorem G_binR {o : BOp} (ho : o.isRel = true) {a b} (ga : G a) (gb : G b)
    (ha : isArithE a = true) (hb : isArithE b = true) : G (.bin o a b) := by
  refine Or.inr ⟨?_, ?_⟩
  · cases o <;> simp_all [isCondE, BOp.isArith, BOp.isRel]
  · simp [wfC, ho, G_arith ga ha, G_arith gb hb]

theorem arithOf_isArith {t o} (h : arithOf t = some o) : o.isArith = true := by
  cases t <;> simp [arithOf] at h <;> subst h <;> rfl

theorem relOf_isRel {t o} (h : relOf t = some o) : o.isRel = true := by
  cases t <;> simp [relOf] at h <;> subst h <;> rfl

theorem good_contTok {tok o rec a r e r'} (ho : o.boolPrio.isSome = true) (hrec : Good rec) (ga : G a)
    (h : contTok tok o rec a r = some (e, r')) : G e := by
  unfold contTok at h
  split at h
  · split at h
    · obtain ⟨b, hb, oka, okb, rfl⟩ := binRes_some h
      exact G_binC ho ga (hrec _ _ _ hb) oka okb
    · cases h; exact ga
  · cases h; exact ga

theorem good_contArith {rec a r e r'} (hrec : Good rec) (ga : G a)
    (h : contArith rec a r = some (e, r')) : G e := by
  unfold contArith at h
  split at h
  · split at h
    · rename_i o ho
      obtain ⟨b, hb, oka, okb, rfl⟩ := binRes_some h
      exact G_binA (arithOf_isArith ho) ga (hrec _ _ _ hb) oka okb
    · cases h; exact ga
  · cases h; exact ga

theorem good_contRel {rec a r e r'} (hrec : Good rec) (ga : G a)
    (h : contRel rec a r = some (e, r')) : G e := by
  unfold contRel at h
  split at h
  · split at h
    · rename_i o ho
      obtain ⟨b, hb, oka, okb, rfl⟩ := binRes_some h
      exact G_binR (relOf_isRel ho) ga (hrec _ _ _ hb) oka okb
    · cases h; exact ga
  · cases h; exact ga

theorem good_andThen {res k e r} (hk : ∀ a r0, res = some (a, r0) → k a r0 = some (e, r) → G e)
    (h : andThen res k = some (e, r)) : G e := by
  cases res with
  | none => simp [andThen] at h
  | some p => obtain ⟨a, r0⟩ := p; exact hk a r0 rfl h

theorem good_fnRes {f rec r e r'} (hrec : Good rec) (h : fnRes f rec r = some (e, r')) : G e := by
  unfold fnRes at h
  split at h
  · cases h
  · split at h
    · rename_i a r1 ha
      split at h
      · rename_i oka; cases h
        exact Or.inl ⟨rfl, by simp [wfA, G_arith (hrec _ _ _ ha) oka]⟩
      · cases h
    · rename_i a r1 ha
      split at h
      · rename_i b r2 hb
        split at h
        · rename_i ok
          simp only [Bool.and_eq_true] at ok
          cases h
          exact Or.inl ⟨rfl, by simp [wfA, G_arith (hrec _ _ _ ha) ok.1, G_arith (hrec _ _ _ hb) ok.2]⟩
        · cases h
      · cases h
    · cases h

theorem good_iteRes {rec r e r'} (hrec : Good rec) (h : iteRes rec r = some (e, r')) : G e := by
  unfold iteRes at h
  split at h
  · rename_i c r1 hc
    split at h
    · rename_i a r2 ha
      split at h
      · rename_i b r3 hb
        split at h
        · rename_i ok
          simp only [Bool.and_eq_true] at ok
          cases h
          exact Or.inr ⟨rfl, by simp [wfC, G_cond (hrec _ _ _ hc) ok.1.1, G_cond (hrec _ _ _ ha) ok.1.2, G_cond (hrec _ _ _ hb) ok.2]⟩
        · cases h
      · cases h
    · cases h
  · cases h

theorem good_parenRes {res e r} (hres : ∀ a r0, res = some (a, r0) → G a) (h : parenRes res = some (e, r)) : G e := by
  cases res with
  | none => simp [parenRes] at h
  | some p =>
    obtain ⟨a, r0⟩ := p
    have ga := hres a r0 rfl
    cases r0 with
    | nil => simp [parenRes] at h
    | cons t r1 => cases t <;> simp [parenRes] at h; obtain ⟨rfl, _⟩ := h; exact ga

theorem good_all : ∀ n, Good (pImp n) ∧ Good (pDisj n) ∧ Good (pConj n) ∧ Good (pNeg n) ∧ Good (pCmp n) ∧
    Good (pArith n) ∧ Good (pPrim n) := by
  intro n
  induction n with
  | zero => refine ⟨?_, ?_, ?_, ?_, ?_, ?_, ?_⟩ <;> intro ts e r h <;> simp [pImp, pDisj, pConj, pNeg, pCmp, pArith, pPrim] at h
  | succ n ih =>
    obtain ⟨hI, hD, hC, hN, hM, hA, hP⟩ := ih
    refine ⟨?_, ?_, ?_, ?_, ?_, ?_, ?_⟩
    · intro ts e r h
      rw [pImp_eq] at h
      exact good_andThen (fun a r0 ha hk => good_contTok rfl hI (hD _ _ _ ha) hk) h
    · intro ts e r h
      rw [pDisj_eq] at h
      exact good_andThen (fun a r0 ha hk => good_contTok rfl hD (hC _ _ _ ha) hk) h
    · intro ts e r h
      rw [pConj_eq] at h
      exact good_andThen (fun a r0 ha hk => good_contTok rfl hC (hN _ _ _ ha) hk) h
    · intro ts e r h
      simp only [pNeg] at h
      split at h
      · obtain ⟨a, ha, ok, rfl⟩ := unRes_some h
        exact Or.inr ⟨rfl, by simp [wfC, G_cond (hM _ _ _ ha) ok]⟩
      · exact hM _ _ _ h
    · intro ts e r h
      rw [pCmp_eq] at h
      exact good_andThen (fun a r0 ha hk => good_contRel hA (hA _ _ _ ha) hk) h
    · intro ts e r h
      simp only [pArith] at h
      split at h
      · obtain ⟨a, ha, ok, rfl⟩ := unRes_some h
        exact Or.inl ⟨rfl, by simp [wfA, G_arith (hA _ _ _ ha) ok]⟩
      · exact good_andThen (fun a r0 ha hk => good_contArith hA (hP _ _ _ ha) hk) h
    · intro ts e r h
      simp only [pPrim] at h
      split at h
      · exact good_fnRes hA h
      · cases h; exact Or.inl ⟨rfl, rfl⟩
      · cases h; exact Or.inl ⟨rfl, rfl⟩
      · cases h; exact Or.inr ⟨rfl, rfl⟩
      · exact good_iteRes hI h
      · exact good_parenRes (fun a r0 ha => hI _ _ _ ha) h
      · cases h

/-- every condition the grammar returns is in the assertion language -/
theorem parse_wfC {ts : List Tok} {e : Expr} (h : parseCondToks ts = some e) : wfC e = true := by
  unfold parseCondToks at h
  split at h
  · rename_i e' heq
    split at h
    · rename_i hc; cases h; exact G_cond ((good_all _).1 _ _ _ heq) hc
    · cases h
  · cases h

end Holpy.C20
