import Holpy.C20.ProofsLex2
/-
C20 — printed expressions are lexable item lists (part 3 of the helper lemmas for `lex_print`).
-/
namespace Holpy.C20

/-- a continuation that cannot merge with any token before it -/
def benign (k : List Char) : Bool :=
  match k with
  | [] => true
  | c :: _ => !isIdChar c && c != '-' && c != '=' && c != '>'

theorem safe_benign (t : Tok) (ht : tokOK t = true) (k : List Char) (hk : benign k = true) : safeAfter t k = true := by
  cases k with
  | nil => cases t <;> simp_all [safeAfter, tokOK]
  | cons c r =>
    simp only [benign, Bool.and_eq_true, Bool.not_eq_true', bne_iff_ne, ne_eq] at hk
    cases t <;> simp_all [safeAfter, tokOK]

theorem benign_sp (r) : benign (' ' :: r) = true := by simp [benign]; decide
theorem benign_rp (r) : benign (')' :: r) = true := by simp [benign]; decide
theorem benign_comma (r) : benign (',' :: r) = true := by simp [benign]; decide

theorem render_sp (l : List Item) : render (Item.sp :: l) = ' ' :: render l := by
  simp [render, Item.chars, List.replicate]

theorem render_tok (t : Tok) (l : List Item) : render (.tok t :: l) = tokChars t ++ render l := rfl

theorem tokOK_op {o : BOp} (h : opOK o = true) : tokOK o.tok = true := by
  cases o <;> simp_all [opOK, BOp.tok, tokOK, BOp.isArith, BOp.isRel, BOp.boolPrio]

theorem nameOK_fn (f : Fn) : nameOK f.str = true := by cases f <;> decide

/-- first characters of a printed expression: never `>`, and `-` is never followed by `>` -/
def startOK (cs : List Char) : Prop :=
  ∃ c r, cs = c :: r ∧ c ≠ '>' ∧ (c = '-' → ∃ d r', r = d :: r' ∧ d ≠ '>')

theorem startOK_append {cs : List Char} (h : startOK cs) (k : List Char) : startOK (cs ++ k) := by
  obtain ⟨c, r, rfl, h1, h2⟩ := h
  refine ⟨c, r ++ k, rfl, h1, fun e => ?_⟩
  obtain ⟨d, r', rfl, hd⟩ := h2 e
  exact ⟨d, r' ++ k, rfl, hd⟩

theorem startOK_lit {c : Char} (r : List Char) (h1 : c ≠ '>') (h2 : c ≠ '-') : startOK (c :: r) :=
  ⟨c, r, rfl, h1, fun e => absurd e h2⟩

theorem startOK_digits (n : Nat) (k : List Char) : ∃ c r, natDigits n ++ k = c :: r ∧ c ≠ '>' ∧ c ≠ '-' := by
  obtain ⟨_, h2, h3⟩ := natDigits_spec n
  cases hd : natDigits n with
  | nil => exact absurd hd h3
  | cons c cs =>
    refine ⟨c, cs ++ k, rfl, ?_, ?_⟩ <;>
      (rcases digit_cases c (h2 c (by simp [hd])) with rfl | rfl | rfl | rfl | rfl | rfl | rfl | rfl | rfl | rfl <;> decide)

theorem startOK_name {x : String} (h : nameOK x = true) (k : List Char) : startOK (x.toList ++ k) := by
  obtain ⟨c, cs, hx, hc, _, _⟩ := nameOK_spec h
  rw [hx]
  exact startOK_lit _ (idStart_not c hc).2.2.1 (idStart_not c hc).2.2.2.2

theorem startOK_items : ∀ e, lexOK e = true → startOK (render (items e)) := by
  intro e
  induction e with
  | var x => intro h; simpa [items, render, Item.chars, tokChars] using startOK_name h []
  | int i =>
    intro _
    by_cases hi : i < 0
    · obtain ⟨c, r, hc, h1, _⟩ := startOK_digits i.natAbs []
      simp only [items, hi, if_true, render, Item.chars, tokChars, List.cons_append, List.nil_append]
      exact ⟨'-', _, rfl, by decide, fun _ => ⟨c, r, by simpa using hc, h1⟩⟩
    · obtain ⟨c, r, hc, h1, h2⟩ := startOK_digits i.toNat []
      simp only [items, hi, if_false, render, Item.chars, tokChars]
      rw [hc]; exact startOK_lit _ h1 h2
  | bool b => intro _; cases b <;> simp only [items] <;> exact startOK_lit _ (by decide) (by decide)
  | un o a iha =>
    intro h
    have ha := iha (by simpa [lexOK] using h)
    cases o with
    | not => simp only [items, render_tok, tokChars]; exact startOK_lit _ (by decide) (by decide)
    | neg =>
      simp only [items, render_tok, tokChars, List.cons_append, List.nil_append]
      refine ⟨'-', _, rfl, by decide, fun _ => ?_⟩
      by_cases hp : parNeg a = true
      · simp only [parenI, hp, if_true, render_tok, tokChars, List.cons_append, List.nil_append]
        exact ⟨'(', _, rfl, by decide⟩
      · simp only [parenI, hp]
        obtain ⟨c, r, hc, h1, _⟩ := ha
        exact ⟨c, r, hc, h1⟩
  | bin o a b iha _ =>
    intro h
    have ha := iha (by simp [lexOK] at h; exact h.1.2)
    by_cases hp : parL o a = true
    · simp only [items, parenI, hp, if_true, List.cons_append, render_tok, tokChars, List.nil_append]
      exact startOK_lit _ (by decide) (by decide)
    · simp only [items, parenI, hp, render_append]
      exact startOK_append ha _
  | fn1 f a _ => intro _; simp only [items, render_tok, tokChars]; exact startOK_name (nameOK_fn f) _
  | fn2 f a b _ _ => intro _; simp only [items, render_tok, tokChars]; exact startOK_name (nameOK_fn f) _
  | ite c a b _ _ _ => intro _; simp only [items, render_tok, tokChars]; exact startOK_lit _ (by decide) (by decide)

end Holpy.C20
