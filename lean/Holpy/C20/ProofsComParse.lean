import Holpy.C20.Proofs
import Holpy.C20.ProofsParseCond
import Holpy.C20.ProofsLexCom
/-
C20 — printing a program and parsing it again (`com_parse_print` in Props.lean).
-/
namespace Holpy.C20

/-- what may follow a command that is the last one of its block -/
def okR : List Tok → Bool
  | [] => true
  | t :: _ => t == .kelse || t == .rbrace

/-- what may follow a command that is not a conditional -/
def okF : List Tok → Bool
  | [] => true
  | t :: _ => t == .kelse || t == .rbrace || t == .semi

theorem okF_of_okR {r} (h : okR r = true) : okF r = true := by
  cases r with
  | nil => rfl
  | cons t r' => simp only [okR, Bool.or_eq_true] at h; simp only [okF, Bool.or_eq_true]; exact Or.inl h

theorem okA_of_okF {r} (h : okF r = true) : okA r = true := by
  cases r with
  | nil => rfl
  | cons t r' => cases t <;> simp_all [okF, okA]

theorem seqCont_stop {rec : List Tok → CRes} {c : Com} {r : List Tok} (h : okR r = true) : seqCont rec (some (c, r)) = some (c, r) := by
  cases r with
  | nil => rfl
  | cons t r' => cases t <;> simp_all [okR, seqCont]

theorem fuel_arith (e : Expr) (rest : List Tok) : cost e ≤ parseFuel (toks e ++ rest) := by
  have := cost_le_toks e
  simp only [parseFuel, List.length_append]; omega

theorem pImp_cond (e : Expr) (h : wfC e = true) (rest : List Tok) (hr : okC 0 rest = true) :
    pImp (parseFuel (toks e ++ rest)) (toks e ++ rest) = some (normNeg e, rest) := by
  have := cond_main e h 0 (by omega) (parseFuel (toks e ++ rest)) rest (fuel_arith e rest) hr
  simpa [P] using this

theorem okC_rp' (r) : okC 0 (.rp :: r) = true := by simp [okC, stopC]
theorem okC_rbrack (r) : okC 0 (.rbrack :: r) = true := by simp [okC, stopC]

theorem pCmd_succ (n : Nat) (ts : List Tok) : pCmd (n + 1) ts = seqCont (pCmd n) (pFirst (pCmd n) ts) := rfl

theorem isSeq_atomic {c : Com} (h : atomicCom c = true) : ∀ a b, c ≠ .seq a b := by
  intro a b e; subst e; simp [atomicCom] at h

/-- the two levels of the command parser on the tokens of a printable program -/
theorem pCmd_toks : ∀ c, shapeOK c = true → okCom c = true → ∀ n rest, (comToks c).length ≤ n →
    ((∀ a b, c ≠ .seq a b) → (if atomicCom c then okF rest else okR rest) = true →
        pFirst (pCmd n) (comToks c ++ rest) = some (normNegCom c, rest)) ∧
    (okR rest = true → pCmd (n + 1) (comToks c ++ rest) = some (normNegCom c, rest)) := by
  intro c
  induction c with
  | skip =>
    intro _ _ n rest _
    have h1 : pFirst (pCmd n) (comToks .skip ++ rest) = some (normNegCom .skip, rest) := rfl
    exact ⟨fun _ _ => h1, fun hr => by simp only [pCmd, h1]; exact seqCont_stop hr⟩
  | assign x e =>
    intro _ hok n rest _
    simp only [okCom, Bool.and_eq_true] at hok
    have h1 : ∀ rest, okF rest = true → pFirst (pCmd n) (comToks (.assign x e) ++ rest) = some (normNegCom (.assign x e), rest) := by
      intro rest hr
      have ha := (arith_main e hok.1).1 (parseFuel (toks e ++ rest)) rest (fuel_arith e rest) (okA_of_okF hr)
      simp only [comToks, List.cons_append, pFirst, ha, assignRes, isArithE_normNeg e hok.1, if_true, normNegCom]
    exact ⟨fun _ hr => h1 rest (by simpa [atomicCom] using hr), fun hr => by simp only [pCmd, h1 rest (okF_of_okR hr)]; exact seqCont_stop hr⟩
  | seq c1 c2 ih1 ih2 =>
    intro hs hok n rest hn
    simp only [shapeOK, Bool.and_eq_true] at hs
    simp only [okCom, Bool.and_eq_true] at hok
    refine ⟨fun h => absurd rfl (h c1 c2), fun hr => ?_⟩
    simp only [comToks, List.length_append, List.length_cons] at hn
    obtain ⟨m, rfl⟩ : ∃ m, n = m + 1 := ⟨n - 1, by omega⟩
    have h1 := (ih1 hs.1.2 hok.1 (m + 1) (.semi :: (comToks c2 ++ rest)) (by omega)).1 (isSeq_atomic hs.1.1)
      (by simp [hs.1.1, okF])
    have h2 := (ih2 hs.2 hok.2 m rest (by omega)).2 hr
    have ht : comToks (.seq c1 c2) ++ rest = comToks c1 ++ (.semi :: (comToks c2 ++ rest)) := by simp [comToks]
    rw [ht, pCmd_succ, h1]
    simp only [seqCont, h2, normNegCom]
  | cond b c1 c2 ih1 ih2 =>
    intro hs hok n rest hn
    simp only [shapeOK, Bool.and_eq_true] at hs
    simp only [okCom, okE, Bool.and_eq_true] at hok
    simp only [comToks, List.length_append, List.length_cons] at hn
    obtain ⟨m, rfl⟩ : ∃ m, n = m + 1 := ⟨n - 1, by omega⟩
    have h1 : okR rest = true → pFirst (pCmd (m + 1)) (comToks (.cond b c1 c2) ++ rest) = some (normNegCom (.cond b c1 c2), rest) := by
      intro hr
      have hb := pImp_cond b hok.1.1.1 (.rp :: .kthen :: (comToks c1 ++ .kelse :: (comToks c2 ++ rest))) (okC_rp' _)
      have hc1 := (ih1 hs.1 hok.1.2 m (.kelse :: (comToks c2 ++ rest)) (by omega)).2 rfl
      have hc2 := (ih2 hs.2 hok.2 m rest (by omega)).2 hr
      have ht : comToks (.cond b c1 c2) ++ rest =
          .kif :: .lp :: (toks b ++ .rp :: .kthen :: (comToks c1 ++ .kelse :: (comToks c2 ++ rest))) := by simp [comToks]
      rw [ht]
      simp only [pFirst, hb, condRes, isCondE_normNeg b hok.1.1.1, if_true, hc1, hc2, normNegCom]
    exact ⟨fun _ hr => h1 (by simpa [atomicCom] using hr), fun hr => by simp only [pCmd] at h1 ⊢; rw [h1 hr]; exact seqCont_stop hr⟩
  | «while» b inv c ih =>
    intro hs hok n rest hn
    simp only [shapeOK] at hs
    simp only [okCom, okE, Bool.and_eq_true] at hok
    simp only [comToks, List.length_append, List.length_cons, List.length_nil] at hn
    obtain ⟨m, rfl⟩ : ∃ m, n = m + 1 := ⟨n - 1, by omega⟩
    have h1 : pFirst (pCmd (m + 1)) (comToks (.while b inv c) ++ rest) = some (normNegCom (.while b inv c), rest) := by
      have hb := pImp_cond b hok.1.1.1 (.rp :: .lbrace :: .lbrack :: (toks inv ++ .rbrack :: (comToks c ++ .rbrace :: rest))) (okC_rp' _)
      have hi := pImp_cond inv hok.1.2.1 (.rbrack :: (comToks c ++ .rbrace :: rest)) (okC_rbrack _)
      have hc := (ih hs hok.2 m (.rbrace :: rest) (by omega)).2 rfl
      have ht : comToks (.while b inv c) ++ rest =
          .kwhile :: .lp :: (toks b ++ .rp :: .lbrace :: .lbrack :: (toks inv ++ .rbrack :: (comToks c ++ .rbrace :: rest))) := by
        simp [comToks]
      rw [ht]
      simp only [pFirst, hb, whileRes, isCondE_normNeg b hok.1.1.1, if_true, hi, isCondE_normNeg inv hok.1.2.1, hc, normNegCom]
    exact ⟨fun _ _ => h1, fun hr => by simp only [pCmd] at h1 ⊢; rw [h1]; exact seqCont_stop hr⟩

theorem parseComToks_print {c : Com} (hs : shapeOK c = true) (hok : okCom c = true) :
    parseComToks (comToks c) = some (normNegCom c) := by
  have := (pCmd_toks c hs hok (comToks c).length [] (Nat.le_refl _)).2 rfl
  simp only [List.append_nil] at this
  simp [parseComToks, this]

/-- reading negative constants as unary minus does not change what a program does -/
theorem interp_normNegCom : ∀ n c s, interp n (normNegCom c) s = interp n c s := by
  intro n
  induction n with
  | zero => intro c s; rfl
  | succ n ih =>
    intro c s
    cases c with
    | skip => rfl
    | assign x e => simp only [normNegCom, interp, evalE_normNeg]
    | seq c1 c2 => simp only [normNegCom, interp, ih]
    | cond b c1 c2 => simp only [normNegCom, interp, evalE_normNeg, ih]
    | «while» b inv c =>
      have := ih (.while b inv c)
      simp only [normNegCom] at this
      simp only [normNegCom, interp, evalE_normNeg, ih, this]

theorem exec_normNegCom (c : Com) (s t : State) : Exec (normNegCom c) s t ↔ Exec c s t := by
  constructor
  · intro h; obtain ⟨n, hn⟩ := exec_interp h; rw [interp_normNegCom] at hn; exact interp_exec _ _ _ _ hn
  · intro h; obtain ⟨n, hn⟩ := exec_interp h; rw [← interp_normNegCom] at hn; exact interp_exec _ _ _ _ hn

end Holpy.C20
