import Holpy.C20.ProofsLex
/-
C20 — the lexer on printed item lists (part 2 of the helper lemmas for `lex_print`).
-/
namespace Holpy.C20

/-- every token of the list has a concrete syntax and is followed by something that does not change
how it is read; `k` is what follows the whole list -/
def okK (k : List Char) : List Item → Bool
  | [] => true
  | .tok t :: l => tokOK t && safeAfter t (render l ++ k) && okK k l
  | .ws _ _ :: l => okK k l

theorem render_append (l1 l2 : List Item) : render (l1 ++ l2) = render l1 ++ render l2 := by
  induction l1 with
  | nil => rfl
  | cons i l ih => simp [render, ih]

theorem tokensOf_append (l1 l2 : List Item) : tokensOf (l1 ++ l2) = tokensOf l1 ++ tokensOf l2 := by
  induction l1 with
  | nil => rfl
  | cons i l ih => cases i <;> simp [tokensOf, ih]

theorem okK_append (k : List Char) (l1 l2 : List Item) :
    okK k (l1 ++ l2) = (okK (render l2 ++ k) l1 && okK k l2) := by
  induction l1 with
  | nil => simp [okK]
  | cons i l ih =>
    cases i with
    | tok t => simp only [List.cons_append, okK, ih, render_append, List.append_assoc, Bool.and_assoc]
    | ws nl n => simp only [List.cons_append, okK, ih]

theorem ws_chars (nl : Bool) (n : Nat) : ∀ c ∈ (Item.ws nl n).chars, isWs c = true := by
  intro c hc
  simp only [Item.chars, List.mem_append, List.mem_replicate] at hc
  rcases hc with hc | hc
  · cases nl <;> simp at hc; subst hc; decide
  · rw [hc.2]; decide

theorem tok_first (t : Tok) (ht : tokOK t = true) : ∃ c r, tokChars t = c :: r ∧ isWs c = false := by
  cases t with
  | id x =>
    obtain ⟨c, cs, hx, hc, _, _⟩ := nameOK_spec ht
    exact ⟨c, cs, hx, (idStart_not c hc).1⟩
  | num n =>
    obtain ⟨_, h2, h3⟩ := natDigits_spec n
    cases hd : natDigits n with
    | nil => exact absurd hd h3
    | cons c cs => exact ⟨c, cs, hd, (digit_props c (h2 c (by simp [hd]))).2.2⟩
  | bad s => simp [tokOK] at ht
  | _ => exact ⟨_, _, rfl, by decide⟩

theorem lexF_ws (m : Nat) (w X : List Char) (hw : ∀ c ∈ w, isWs c = true) : lexF (m + 1) (w ++ X) = lexF (m + 1) X := by
  simp only [lexF, List.dropWhile_append_of_pos hw]

/-- the lexer reads a printed item list back as its tokens -/
theorem lexF_items : ∀ l n, okK [] l = true → (tokensOf l).length < n → lexF n (render l) = some (tokensOf l) := by
  intro l
  induction l with
  | nil => intro n _ hn; obtain ⟨m, rfl⟩ : ∃ m, n = m + 1 := ⟨n - 1, by simp [tokensOf] at hn; omega⟩; rfl
  | cons i l ih =>
    intro n hok hn
    cases i with
    | ws nl k =>
      obtain ⟨m, rfl⟩ : ∃ m, n = m + 1 := ⟨n - 1, by omega⟩
      simp only [render, tokensOf]
      rw [lexF_ws m _ _ (ws_chars nl k)]
      exact ih (m + 1) (by simpa [okK] using hok) (by simpa [tokensOf] using hn)
    | tok t =>
      simp only [okK, Bool.and_eq_true, List.append_nil] at hok
      obtain ⟨c, r, hc, hws⟩ := tok_first t hok.1.1
      obtain ⟨m, rfl⟩ : ∃ m, n = m + 1 := ⟨n - 1, by omega⟩
      have hnt := nextTok_tok t (render l) hok.1.1 hok.1.2
      have hih := ih m hok.2 (by simp [tokensOf] at hn; omega)
      simp only [render, tokensOf, Item.chars]
      rw [hc] at hnt ⊢
      simp only [lexF, List.cons_append, List.dropWhile, hws]
      simp only [List.cons_append] at hnt
      rw [hnt]
      simp only [hih, Option.map]

end Holpy.C20
