import Holpy.C20.ProofsParse
/-
C20 — printing followed by parsing (token level), part 2: conditions, and the final statements.
-/
namespace Holpy.C20

def lvl : Expr → Nat
  | .un .not _ => 3
  | .bin .and _ _ => 2
  | .bin .or _ _ => 1
  | .bin .imp _ _ => 0
  | .ite _ _ _ => 0
  | _ => 4

theorem step2 {n ts a r j} (h : pNeg n ts = some (a, r)) (hok : okC j r = true) (hj : j ≤ 2) :
    pConj (n + 1) ts = some (a, r) := by
  rw [pConj_eq, h]; exact contTok_stop (okC_noAmp hok hj)
theorem step1 {n ts a r j} (h : pConj n ts = some (a, r)) (hok : okC j r = true) (hj : j ≤ 1) :
    pDisj (n + 1) ts = some (a, r) := by
  rw [pDisj_eq, h]; exact contTok_stop (okC_noBar hok hj)
theorem step0 {n ts a r j} (h : pDisj n ts = some (a, r)) (hok : okC j r = true) (hj : j = 0) :
    pImp (n + 1) ts = some (a, r) := by
  rw [pImp_eq, h]; exact contTok_stop (okC_noArrow hok hj)

/-- a result of level `k ≤ 3` is passed up to level `j ≤ k` when no operator of the levels in between follows -/
theorem lift_from {k n ts a r} (h : P k n ts = some (a, r)) (hk : k ≤ 3) :
    ∀ j, j ≤ k → okC j r = true → P j (n + (k - j)) ts = some (a, r) := by
  intro j hj hok
  match k, hk, j, hj with
  | 0, _, 0, _ => exact h
  | 1, _, 0, _ => exact step0 h hok rfl
  | 1, _, 1, _ => exact h
  | 2, _, 0, _ => exact step0 (step1 h hok (by omega)) hok rfl
  | 2, _, 1, _ => exact step1 h hok (by omega)
  | 2, _, 2, _ => exact h
  | 3, _, 0, _ => exact step0 (step1 (step2 h hok (by omega)) hok (by omega)) hok rfl
  | 3, _, 1, _ => exact step1 (step2 h hok (by omega)) hok (by omega)
  | 3, _, 2, _ => exact step2 h hok (by omega)
  | 3, _, 3, _ => exact h

theorem isCondE_normNeg : ∀ e, wfC e = true → isCondE (normNeg e) = true := by
  intro e h
  cases e with
  | un o a => cases o <;> simp_all [wfC, normNeg, isCondE]
  | bin o a b => cases o <;> simp_all [wfC, normNeg, isCondE, BOp.isArith, BOp.isRel, BOp.boolPrio]
  | _ => simp_all [wfC, normNeg, isCondE]

theorem okC_noArith {j r} (h : okC j r = true) : ∀ t r', r = t :: r' → arithOf t = none :=
  okA_noArith (okC_okA h)

/-- a parenthesised condition (or expression) at the atom level -/
theorem paren_cmp {m ts na rest j} (hI : pImp m (ts ++ .rp :: rest) = some (na, .rp :: rest))
    (hr : okC j rest = true) : pCmp (m + 3) (.lp :: ts ++ .rp :: rest) = some (na, rest) :=
  cmp_of_arith (arith_of_prim (paren_prim hI) (by intro r' e; cases e) (okC_noArith hr)) (okC_noRel hr)

theorem paren_lvl {m ts na rest j} (hI : pImp m (ts ++ .rp :: rest) = some (na, .rp :: rest))
    (hr : okC j rest = true) (hj : j ≤ 4) : P j (m + 3 + (4 - j)) (.lp :: ts ++ .rp :: rest) = some (na, rest) :=
  lift_from_cmp (paren_cmp hI hr) (by intro r' e; cases e) j hj hr


def opAt : Nat → BOp
  | 0 => .imp | 1 => .or | _ => .and

theorem P_bin_eq {k} (hk : k ≤ 2) (m ts) :
    P k (m + 1) ts = andThen (P (k + 1) m ts) (contTok (opAt k).tok (opAt k) (P k m)) := by
  match k, hk with
  | 0, _ => exact pImp_eq m ts
  | 1, _ => exact pDisj_eq m ts
  | 2, _ => exact pConj_eq m ts

theorem okC_optok {k} (hk : k ≤ 2) (r) : okC (k + 1) ((opAt k).tok :: r) = true := by
  match k, hk with
  | 0, _ => rfl
  | 1, _ => rfl
  | 2, _ => rfl

theorem okC_rp (j r) : okC j (.rp :: r) = true := by simp [okC, stopC]
theorem okC_then (j r) : okC j (.kthen :: r) = true := by simp [okC, stopC]
theorem okC_else (j r) : okC j (.kelse :: r) = true := by simp [okC, stopC]

/-- the case of a right-associative connective of level `k` -/
theorem bin_case {k : Nat} (hk : k ≤ 2) {a b na nb : Expr}
    (iha : ∀ j, j ≤ lvl a → ∀ n rest, cost a ≤ n → okC j rest = true → P j n (toks a ++ rest) = some (na, rest))
    (ihb : ∀ j, j ≤ lvl b → ∀ n rest, cost b ≤ n → okC j rest = true → P j n (toks b ++ rest) = some (nb, rest))
    (hla : parL (opAt k) a = false → k + 1 ≤ lvl a) (hlb : parR (opAt k) b = false → k ≤ lvl b)
    (hca : isCondE na = true) (hcb : isCondE nb = true) :
    ∀ j, j ≤ k → ∀ n rest, cost a + cost b + 16 ≤ n → okC j rest = true →
      P j n (toks (.bin (opAt k) a b) ++ rest) = some (.bin (opAt k) na nb, rest) := by
  intro j hj n rest hn hok
  obtain ⟨m, rfl⟩ : ∃ m, n = m + 1 + (k - j) := ⟨n - 1 - (k - j), by omega⟩
  have hokk : okC k rest = true := okC_mono hok hj
  have hR : P k m (parenT (parR (opAt k) b) (toks b) ++ rest) = some (nb, rest) := by
    cases hp : parR (opAt k) b with
    | true =>
      obtain ⟨m0, rfl⟩ : ∃ m0, m = m0 + 3 + (4 - k) := ⟨m - 3 - (4 - k), by omega⟩
      simp only [parenT, if_true, List.append_assoc, List.singleton_append]
      exact paren_lvl (ihb 0 (by omega) m0 _ (by omega) (okC_rp _ _)) hokk (by omega)
    | false =>
      simp only [parenT]
      exact ihb k (hlb hp) m rest (by omega) hokk
  have hL : P (k + 1) m (parenT (parL (opAt k) a) (toks a) ++ (opAt k).tok :: (parenT (parR (opAt k) b) (toks b) ++ rest)) =
      some (na, (opAt k).tok :: (parenT (parR (opAt k) b) (toks b) ++ rest)) := by
    cases hp : parL (opAt k) a with
    | true =>
      obtain ⟨m0, rfl⟩ : ∃ m0, m = m0 + 3 + (4 - (k + 1)) := ⟨m - 3 - (4 - (k + 1)), by omega⟩
      simp only [parenT, if_true, List.append_assoc, List.singleton_append]
      exact paren_lvl (iha 0 (by omega) m0 _ (by omega) (okC_rp _ _)) (okC_optok hk _) (by omega)
    | false =>
      simp only [parenT]
      exact iha (k + 1) (hla hp) m _ (by omega) (okC_optok hk _)
  have ht : toks (.bin (opAt k) a b) ++ rest =
      parenT (parL (opAt k) a) (toks a) ++ (opAt k).tok :: (parenT (parR (opAt k) b) (toks b) ++ rest) := by
    simp [toks]
  have hbase : P k (m + 1) (toks (.bin (opAt k) a b) ++ rest) = some (.bin (opAt k) na nb, rest) := by
    rw [ht, P_bin_eq hk, hL]
    simp only [andThen, contTok_go, hR, binRes, hca, hcb, Bool.and_self, if_true]
  exact lift_from hbase (by omega) j hj hok


theorem lvl_of_parL {k} (hk : k ≤ 2) : ∀ a, wfC a = true → parL (opAt k) a = false → k + 1 ≤ lvl a := by
  intro a hw hp
  match k, hk with
  | 0, _ => cases a with
    | un o x => cases o <;> simp_all [wfC, parL, opAt, BOp.isArith, BOp.boolPrio, isIte, isOp, prio, lvl]
    | bin o x y => cases o <;> simp_all [wfC, parL, opAt, BOp.isArith, BOp.boolPrio, BOp.isRel, isIte, isOp, prio, lvl]
    | _ => simp_all [wfC, parL, opAt, BOp.isArith, BOp.boolPrio, isIte, isOp, prio, lvl]
  | 1, _ => cases a with
    | un o x => cases o <;> simp_all [wfC, parL, opAt, BOp.isArith, BOp.boolPrio, isIte, isOp, prio, lvl]
    | bin o x y => cases o <;> simp_all [wfC, parL, opAt, BOp.isArith, BOp.boolPrio, BOp.isRel, isIte, isOp, prio, lvl]
    | _ => simp_all [wfC, parL, opAt, BOp.isArith, BOp.boolPrio, isIte, isOp, prio, lvl]
  | 2, _ => cases a with
    | un o x => cases o <;> simp_all [wfC, parL, opAt, BOp.isArith, BOp.boolPrio, isIte, isOp, prio, lvl]
    | bin o x y => cases o <;> simp_all [wfC, parL, opAt, BOp.isArith, BOp.boolPrio, BOp.isRel, isIte, isOp, prio, lvl]
    | _ => simp_all [wfC, parL, opAt, BOp.isArith, BOp.boolPrio, isIte, isOp, prio, lvl]

theorem lvl_of_parR {k} (hk : k ≤ 2) : ∀ a, wfC a = true → parR (opAt k) a = false → k ≤ lvl a := by
  intro a hw hp
  match k, hk with
  | 0, _ => omega
  | 1, _ => cases a with
    | un o x => cases o <;> simp_all [wfC, parR, opAt, BOp.isArith, BOp.boolPrio, isIte, isOp, prio, lvl]
    | bin o x y => cases o <;> simp_all [wfC, parR, opAt, BOp.isArith, BOp.boolPrio, BOp.isRel, isIte, isOp, prio, lvl]
    | _ => simp_all [wfC, parR, opAt, BOp.isArith, BOp.boolPrio, isIte, isOp, prio, lvl]
  | 2, _ => cases a with
    | un o x => cases o <;> simp_all [wfC, parR, opAt, BOp.isArith, BOp.boolPrio, isIte, isOp, prio, lvl]
    | bin o x y => cases o <;> simp_all [wfC, parR, opAt, BOp.isArith, BOp.boolPrio, BOp.isRel, isIte, isOp, prio, lvl]
    | _ => simp_all [wfC, parR, opAt, BOp.isArith, BOp.boolPrio, isIte, isOp, prio, lvl]

theorem lvl_of_parNot : ∀ a, wfC a = true → parNot a = false → lvl a = 4 := by
  intro a hw hp
  cases a with
  | un o x => cases o <;> simp_all [wfC, parNot, isIte, isOp, prio, lvl]
  | bin o x y => cases o <;> simp_all [wfC, parNot, BOp.boolPrio, BOp.isRel, isIte, isOp, prio, lvl]
  | _ => simp_all [wfC, parNot, isIte, isOp, prio, lvl]

theorem relOf_tok {o : BOp} (h : o.isRel = true) : relOf o.tok = some o := by
  cases o <;> simp_all [BOp.isRel, BOp.tok, relOf]

theorem okA_reltok {o : BOp} (h : o.isRel = true) (r) : okA (o.tok :: r) = true := by
  cases o <;> simp_all [BOp.isRel, BOp.tok, okA]

theorem par_rel {o : BOp} (h : o.isRel = true) (a) : parL o a = false ∧ parR o a = false := by
  cases o <;> simp_all [BOp.isRel, parL, parR, BOp.isArith, BOp.boolPrio]

theorem cond_main : ∀ e, wfC e = true → ∀ j, j ≤ lvl e → ∀ n rest, cost e ≤ n → okC j rest = true →
    P j n (toks e ++ rest) = some (normNeg e, rest) := by
  intro e
  induction e with
  | var x => intro h; simp [wfC] at h
  | int i => intro h; simp [wfC] at h
  | bool b =>
    intro h j hj n rest hn hok
    have hb : b = true := by simpa [wfC] using h
    subst hb
    simp only [cost] at hn
    obtain ⟨m, rfl⟩ : ∃ m, n = m + 3 + (4 - j) := ⟨n - 3 - (4 - j), by simp only [lvl] at hj; omega⟩
    have h1 : pPrim (m + 1) (toks (.bool true) ++ rest) = some (.bool true, rest) := by
      simp [toks, pPrim_true]
    have h4 := cmp_of_arith (arith_of_prim h1 (by simp [toks]) (okC_noArith hok)) (okC_noRel hok)
    exact lift_from_cmp h4 (by simp [toks]) j hj hok
  | un o a iha =>
    intro h j hj n rest hn hok
    cases o with
    | neg => simp [wfC] at h
    | not =>
      have hwa : wfC a = true := by simpa [wfC] using h
      simp only [cost] at hn
      simp only [lvl] at hj
      obtain ⟨m, rfl⟩ : ∃ m, n = m + 1 + (3 - j) := ⟨n - 1 - (3 - j), by omega⟩
      have hin : pCmp m (parenT (parNot a) (toks a) ++ rest) = some (normNeg a, rest) := by
        cases hp : parNot a with
        | true =>
          obtain ⟨m0, rfl⟩ : ∃ m0, m = m0 + 3 := ⟨m - 3, by omega⟩
          simp only [parenT, if_true, List.append_assoc, List.singleton_append]
          exact paren_cmp (iha hwa 0 (by omega) m0 _ (by omega) (okC_rp _ _)) hok
        | false =>
          simp only [parenT]
          have := iha hwa 4 (by rw [lvl_of_parNot a hwa hp]; omega) m rest (by omega) (okC_mono hok (by omega))
          exact this
      have hbase : P 3 (m + 1) (toks (.un .not a) ++ rest) = some (normNeg (.un .not a), rest) := by
        simp only [P]
        simp only [toks, List.cons_append, pNeg_tilde, hin, unRes, isCondE_normNeg a hwa, if_true, normNeg]
      exact lift_from hbase (by omega) j hj hok
  | bin o a b iha ihb =>
    intro h j hj n rest hn hok
    simp only [cost] at hn
    by_cases hrel : o.isRel = true
    · -- comparison of two arithmetic expressions
      have hwa : wfA a = true := by cases o <;> simp_all [wfC, BOp.isRel, BOp.boolPrio]
      have hwb : wfA b = true := by cases o <;> simp_all [wfC, BOp.isRel, BOp.boolPrio]
      have hl4 : lvl (.bin o a b) ≤ 4 := by cases o <;> simp [lvl]
      have hj4 : j ≤ 4 := by omega
      obtain ⟨m, rfl⟩ : ∃ m, n = m + 1 + (4 - j) := ⟨n - 1 - (4 - j), by omega⟩
      have ht : toks (.bin o a b) ++ rest = toks a ++ o.tok :: (toks b ++ rest) := by
        simp [toks, parenT, (par_rel hrel a).1, (par_rel hrel b).2]
      have hA := (arith_main a hwa).1 m (o.tok :: (toks b ++ rest)) (by omega) (okA_reltok hrel _)
      have hB := (arith_main b hwb).1 m rest (by omega) (okC_okA hok)
      have h4 : pCmp (m + 1) (toks (.bin o a b) ++ rest) = some (normNeg (.bin o a b), rest) := by
        rw [ht, pCmp_eq, hA]
        simp only [andThen, contRel, relOf_tok hrel, hB, binRes, isArithE_normNeg a hwa, isArithE_normNeg b hwb,
          Bool.and_self, if_true, normNeg]
      refine lift_from_cmp h4 ?_ j hj4 hok
      rw [ht]; exact toks_ne (firstTok_A a hwa).1 _
    · have hwa : wfC a = true := by cases o <;> simp_all [wfC, BOp.isRel, BOp.boolPrio]
      have hwb : wfC b = true := by cases o <;> simp_all [wfC, BOp.isRel, BOp.boolPrio]
      cases o with
      | and =>
        exact bin_case (k := 2) (by omega) (iha hwa) (ihb hwb) (lvl_of_parL (by omega) a hwa) (lvl_of_parR (by omega) b hwb)
          (isCondE_normNeg a hwa) (isCondE_normNeg b hwb) j (by simpa [lvl] using hj) n rest hn hok
      | or =>
        exact bin_case (k := 1) (by omega) (iha hwa) (ihb hwb) (lvl_of_parL (by omega) a hwa) (lvl_of_parR (by omega) b hwb)
          (isCondE_normNeg a hwa) (isCondE_normNeg b hwb) j (by simpa [lvl] using hj) n rest hn hok
      | imp =>
        exact bin_case (k := 0) (by omega) (iha hwa) (ihb hwb) (lvl_of_parL (by omega) a hwa) (lvl_of_parR (by omega) b hwb)
          (isCondE_normNeg a hwa) (isCondE_normNeg b hwb) j (by simpa [lvl] using hj) n rest hn hok
      | _ => simp_all [wfC, BOp.isRel, BOp.boolPrio]
  | fn1 f a _ => intro h; simp [wfC] at h
  | fn2 f a b _ _ => intro h; simp [wfC] at h
  | ite c a b ihc iha ihb =>
    intro h j hj n rest hn hok
    have hwc : wfC c = true := by simp [wfC] at h; exact h.1.1
    have hwa : wfC a = true := by simp [wfC] at h; exact h.1.2
    have hwb : wfC b = true := by simp [wfC] at h; exact h.2
    simp only [cost] at hn
    simp only [lvl] at hj
    have hj0 : j = 0 := by omega
    subst hj0
    obtain ⟨m, rfl⟩ : ∃ m, n = m + 3 + (4 - 0) := ⟨n - 7, by omega⟩
    have hC := ihc hwc 0 (by omega) m (.kthen :: (toks a ++ .kelse :: (toks b ++ rest))) (by omega) (okC_then _ _)
    have hA := iha hwa 0 (by omega) m (.kelse :: (toks b ++ rest)) (by omega) (okC_else _ _)
    have hB := ihb hwb 0 (by omega) m rest (by omega) hok
    have h1 : pPrim (m + 1) (toks (.ite c a b) ++ rest) = some (normNeg (.ite c a b), rest) := by
      have ht : toks (.ite c a b) ++ rest = .kif :: (toks c ++ .kthen :: (toks a ++ .kelse :: (toks b ++ rest))) := by
        simp [toks]
      rw [ht, pPrim_if]
      simp only [P] at hC hA hB
      simp only [iteRes, hC, hA, hB, isCondE_normNeg c hwc, isCondE_normNeg a hwa, isCondE_normNeg b hwb,
        Bool.and_self, if_true, normNeg]
    have h4 := cmp_of_arith (arith_of_prim h1 (by simp [toks]) (okC_noArith hok)) (okC_noRel hok)
    exact lift_from_cmp h4 (by simp [toks]) 0 (by omega) hok


theorem length_parenT (b : Bool) (ts : List Tok) : ts.length ≤ (parenT b ts).length := by
  cases b <;> simp [parenT] <;> omega

theorem cost_le_toks : ∀ e, cost e ≤ 16 * (toks e).length := by
  intro e
  induction e with
  | var x => simp [cost, toks]
  | int i => by_cases hi : i < 0 <;> simp [cost, toks, hi]
  | bool b => cases b <;> simp [cost, toks]
  | un o a ih =>
    have := length_parenT (parNeg a) (toks a)
    have := length_parenT (parNot a) (toks a)
    cases o <;> simp only [cost, toks, List.length_cons] <;> omega
  | bin o a b iha ihb =>
    have := length_parenT (parL o a) (toks a)
    have := length_parenT (parR o b) (toks b)
    simp only [cost, toks, List.length_append, List.length_cons]
    omega
  | fn1 f a ih => simp only [cost, toks, List.length_append, List.length_cons, List.length_nil]; omega
  | fn2 f a b iha ihb => simp only [cost, toks, List.length_append, List.length_cons, List.length_nil]; omega
  | ite c a b ihc iha ihb => simp only [cost, toks, List.length_append, List.length_cons]; omega

/-- printing a condition of the assertion language to tokens and parsing gives it back -/
theorem parse_toks (e : Expr) (h : wfC e = true) : parseCondToks (toks e) = some (normNeg e) := by
  have hc : cost e ≤ parseFuel (toks e) := by
    have := cost_le_toks e
    simp only [parseFuel]; omega
  have := cond_main e h 0 (by omega) (parseFuel (toks e)) [] hc rfl
  simp only [P, List.append_nil] at this
  simp [parseCondToks, this, isCondE_normNeg e h]

/-- without negative constants the round trip is the identity -/
def noNegConst : Expr → Bool
  | .int i => decide (0 ≤ i)
  | .un _ a => noNegConst a
  | .bin _ a b => noNegConst a && noNegConst b
  | .fn1 _ a => noNegConst a
  | .fn2 _ a b => noNegConst a && noNegConst b
  | .ite c a b => noNegConst c && noNegConst a && noNegConst b
  | _ => true

theorem normNeg_id : ∀ e, noNegConst e = true → normNeg e = e := by
  intro e
  induction e with
  | int i => intro h; simp [noNegConst] at h; simp [normNeg]; omega
  | un o a ih => intro h; simp_all [noNegConst, normNeg]
  | bin o a b iha ihb => intro h; simp_all [noNegConst, normNeg]
  | fn1 f a ih => intro h; simp_all [noNegConst, normNeg]
  | fn2 f a b iha ihb => intro h; simp_all [noNegConst, normNeg]
  | ite c a b ihc iha ihb => intro h; simp_all [noNegConst, normNeg]
  | _ => intro _; rfl


end Holpy.C20
