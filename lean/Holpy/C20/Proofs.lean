import Holpy.C20.Model
/-
C20 — big-step semantics and helper lemmas (statements of the property theorems are in Props.lean).
-/
namespace Holpy.C20

/-- Big-step semantics of commands; the invariant annotation plays no role. An execution is
stuck (no derivation) when a guard is not boolean or an assigned expression is not an integer. -/
inductive Exec : Com → State → State → Prop where
  | skip {s} : Exec .skip s s
  | assign {s x e v} : evalE s e = some (.int v) → Exec (.assign x e) s (upd s x v)
  | seq {c1 c2 s s1 s2} : Exec c1 s s1 → Exec c2 s1 s2 → Exec (.seq c1 c2) s s2
  | condT {b c1 c2 s s'} : evalE s b = some (.bool true) → Exec c1 s s' → Exec (.cond b c1 c2) s s'
  | condF {b c1 c2 s s'} : evalE s b = some (.bool false) → Exec c2 s s' → Exec (.cond b c1 c2) s s'
  | whileF {b inv c s} : evalE s b = some (.bool false) → Exec (.while b inv c) s s
  | whileT {b inv c s s1 s2} : evalE s b = some (.bool true) → Exec c s s1 →
      Exec (.while b inv c) s1 s2 → Exec (.while b inv c) s s2

/-- the condition `e` is true in state `s` -/
def holds (s : State) (e : Expr) : Prop := evalE s e = some (.bool true)

/-- `e` is true in every state: what the user is asked to prove for a verification condition -/
def valid (e : Expr) : Prop := ∀ s, holds s e

/-! ### determinism, interpreter -/

theorem exec_det {c s s1 s2} (h1 : Exec c s s1) (h2 : Exec c s s2) : s1 = s2 := by
  induction h1 generalizing s2 with
  | skip => cases h2; rfl
  | assign h => cases h2 with | assign h' => rw [h] at h'; cases h'; rfl
  | seq _ _ ih1 ih2 => cases h2 with | seq a b => cases ih1 a; exact ih2 b
  | condT h _ ih => cases h2 with
    | condT _ a => exact ih a
    | condF h' _ => rw [h] at h'; cases h'
  | condF h _ ih => cases h2 with
    | condT h' _ => rw [h] at h'; cases h'
    | condF _ a => exact ih a
  | whileF h => cases h2 with
    | whileF _ => rfl
    | whileT h' _ _ => rw [h] at h'; cases h'
  | whileT h _ _ ih1 ih2 => cases h2 with
    | whileF h' => rw [h] at h'; cases h'
    | whileT _ a b => cases ih1 a; exact ih2 b

theorem interp_exec : ∀ n c s s', interp n c s = .ok s' → Exec c s s' := by
  intro n
  induction n with
  | zero => intro c s s' h; simp [interp] at h
  | succ n ih =>
    intro c s s' h
    cases c with
    | skip => simp [interp] at h; cases h; exact .skip
    | assign x e =>
      simp only [interp] at h
      split at h
      · rename_i v hv; cases h; exact .assign hv
      · cases h
    | seq c1 c2 =>
      simp only [interp] at h
      split at h
      · rename_i s1 h1; exact .seq (ih _ _ _ h1) (ih _ _ _ h)
      · rename_i r hr; cases r <;> simp_all
    | cond b c1 c2 =>
      simp only [interp] at h
      split at h
      · rename_i hb; exact .condT hb (ih _ _ _ h)
      · rename_i hb; exact .condF hb (ih _ _ _ h)
      · cases h
    | «while» b inv c =>
      simp only [interp] at h
      split at h
      · rename_i hb
        split at h
        · rename_i s1 h1; exact .whileT hb (ih _ _ _ h1) (ih _ _ _ h)
        · rename_i r hr; cases r <;> simp_all
      · rename_i hb; cases h; exact .whileF hb
      · cases h

theorem interp_seq (n c1 c2 s) : interp (n + 1) (.seq c1 c2) s =
    match interp n c1 s with | .ok s1 => interp n c2 s1 | r => r := rfl
theorem interp_cond (n b c1 c2 s) : interp (n + 1) (.cond b c1 c2) s =
    match evalE s b with
    | some (.bool true) => interp n c1 s | some (.bool false) => interp n c2 s | _ => .stuck := rfl
theorem interp_while (n b inv c s) : interp (n + 1) (.while b inv c) s =
    match evalE s b with
    | some (.bool true) => (match interp n c s with | .ok s1 => interp n (.while b inv c) s1 | r => r)
    | some (.bool false) => .ok s | _ => .stuck := rfl

theorem interp_mono : ∀ n c s s', interp n c s = .ok s' → interp (n + 1) c s = .ok s' := by
  intro n
  induction n with
  | zero => intro c s s' h; simp [interp] at h
  | succ n ih =>
    intro c s s' h
    cases c with
    | skip => simpa [interp] using h
    | assign x e => simpa [interp] using h
    | seq c1 c2 =>
      rw [interp_seq] at h ⊢
      cases h1 : interp n c1 s with
      | ok s1 => rw [h1] at h; rw [ih _ _ _ h1]; exact ih _ _ _ h
      | stuck => rw [h1] at h; cases h
      | fuel => rw [h1] at h; cases h
    | cond b c1 c2 =>
      rw [interp_cond] at h ⊢
      split at h
      · exact ih _ _ _ h
      · exact ih _ _ _ h
      · cases h
    | «while» b inv c =>
      rw [interp_while] at h ⊢
      split at h
      · cases h1 : interp n c s with
        | ok s1 => rw [h1] at h; rw [ih _ _ _ h1]; exact ih _ _ _ h
        | stuck => rw [h1] at h; cases h
        | fuel => rw [h1] at h; cases h
      · exact h
      · cases h

theorem interp_mono_le {n m c s s'} (h : interp n c s = .ok s') (hle : n ≤ m) : interp m c s = .ok s' := by
  induction hle with
  | refl => exact h
  | step _ ih => exact interp_mono _ _ _ _ ih

theorem exec_interp {c s s'} (h : Exec c s s') : ∃ n, interp n c s = .ok s' := by
  induction h with
  | skip => exact ⟨1, rfl⟩
  | assign h => exact ⟨1, by simp [interp, h]⟩
  | seq _ _ ih1 ih2 =>
    obtain ⟨n1, h1⟩ := ih1; obtain ⟨n2, h2⟩ := ih2
    refine ⟨max n1 n2 + 1, ?_⟩
    simp only [interp]
    rw [interp_mono_le h1 (Nat.le_max_left _ _)]
    exact interp_mono_le h2 (Nat.le_max_right _ _)
  | condT hb _ ih => obtain ⟨n, h⟩ := ih; exact ⟨n + 1, by simp only [interp, hb]; exact h⟩
  | condF hb _ ih => obtain ⟨n, h⟩ := ih; exact ⟨n + 1, by simp only [interp, hb]; exact h⟩
  | whileF hb => exact ⟨1, by simp [interp, hb]⟩
  | whileT hb _ _ ih1 ih2 =>
    obtain ⟨n1, h1⟩ := ih1; obtain ⟨n2, h2⟩ := ih2
    refine ⟨max n1 n2 + 1, ?_⟩
    simp only [interp, hb]
    rw [interp_mono_le h1 (Nat.le_max_left _ _)]
    exact interp_mono_le h2 (Nat.le_max_right _ _)

/-! ### evaluation lemmas -/

theorem holds_implies {s a b} (h : holds s (implies a b)) (ha : holds s a) : holds s b := by
  unfold holds implies at *
  simp only [evalE, ha] at h
  cases hb : evalE s b with
  | none => simp [hb] at h
  | some w =>
    rw [hb] at h
    cases w with
    | int i => simp [evalBin] at h
    | bool v => cases v <;> simp_all [evalBin]

theorem holds_conj {s a b} : holds s (conj a b) ↔ holds s a ∧ holds s b := by
  unfold holds conj
  simp only [evalE]
  cases ha : evalE s a with
  | none => simp
  | some v =>
    cases hb : evalE s b with
    | none => simp
    | some w =>
      cases v <;> cases w <;> simp [evalBin]

theorem holds_neg {s b} : holds s (neg b) ↔ evalE s b = some (.bool false) := by
  unfold holds neg
  simp only [evalE]
  cases hb : evalE s b with
  | none => simp
  | some w => cases w with
    | int i => simp [evalUn]
    | bool v => cases v <;> simp [evalUn]

theorem holds_ite_true {s b x y} (hb : evalE s b = some (.bool true)) : holds s (.ite b x y) ↔ holds s x := by
  unfold holds; simp [evalE, hb]

theorem holds_ite_false {s b x y} (hb : evalE s b = some (.bool false)) : holds s (.ite b x y) ↔ holds s y := by
  unfold holds; simp [evalE, hb]

theorem holds_mkVc {s a b} (h : holds s (mkVc a b)) (ha : holds s a) : holds s b := by
  unfold mkVc at h
  split at h
  · exact h
  · exact holds_implies h ha

/-- substitution lemma: `Q[x := e]` in `s` means `Q` in the updated state -/
theorem evalE_subst {s x e v} (he : evalE s e = some (.int v)) :
    ∀ a, evalE s (subst x e a) = evalE (upd s x v) a := by
  intro a
  induction a with
  | var y =>
    simp only [subst]
    split
    · rename_i h; subst h; simp [evalE, upd, he]
    · rename_i h; simp [evalE, upd, h]
  | int i => rfl
  | bool b => rfl
  | un o a ih => simp only [subst, evalE, ih]
  | bin o a b iha ihb => simp only [subst, evalE, iha, ihb]
  | fn1 f a ih => simp only [subst, evalE, ih]
  | fn2 f a b iha ihb => simp only [subst, evalE, iha, ihb]
  | ite c a b ihc iha ihb => simp only [subst, evalE, ihc, iha, ihb]

/-! ### `compute_wp` characterised -/

/-- the weakest precondition `compute_wp` appends to `pre` -/
def wpE : Com → Expr → Expr
  | .skip, q => q
  | .assign x e, q => subst x e q
  | .seq c1 c2, q => wpE c1 (wpE c2 q)
  | .cond b c1 c2, q => .ite b (wpE c1 q) (wpE c2 q)
  | .while _ inv _, _ => inv

theorem computeWp_pre : ∀ c pre0 q, (computeWp c pre0 q).pre = pre0 ++ [wpE c q] := by
  intro c
  induction c with
  | skip => intro pre0 q; rfl
  | assign x e => intro pre0 q; rfl
  | seq c1 c2 ih1 ih2 =>
    intro pre0 q
    have e2 : (computeWp c2 [] q).ret = wpE c2 q := by simp [ACom.ret, ih2]
    have e1 : ∀ q', (computeWp c1 [] q').ret = wpE c1 q' := by intro q'; simp [ACom.ret, ih1]
    simp only [computeWp, e2, e1, wpE]
    rfl
  | cond b c1 c2 ih1 ih2 =>
    intro pre0 q
    have e2 : (computeWp c2 [] q).ret = wpE c2 q := by simp [ACom.ret, ih2]
    have e1 : (computeWp c1 [] q).ret = wpE c1 q := by simp [ACom.ret, ih1]
    simp only [computeWp, e2, e1, wpE]
    rfl
  | «while» b inv c ih => intro pre0 q; rfl

theorem computeWp_ret_nil (c q) : (computeWp c [] q).ret = wpE c q := by
  simp [ACom.ret, computeWp_pre]

def allValid (l : List Expr) : Prop := ∀ v ∈ l, valid v

theorem allValid_append {l1 l2} : allValid (l1 ++ l2) ↔ allValid l1 ∧ allValid l2 := by
  unfold allValid
  constructor
  · intro h; exact ⟨fun v hv => h v (List.mem_append_left _ hv), fun v hv => h v (List.mem_append_right _ hv)⟩
  · intro ⟨h1, h2⟩ v hv
    rcases List.mem_append.mp hv with h | h
    · exact h1 v h
    · exact h2 v h

theorem addVc_last : ∀ (pre0 : List Expr) (a b : Expr), mkVc a b ∈ addVc (pre0 ++ [a, b]) := by
  intro pre0
  induction pre0 with
  | nil => intro a b; simp [addVc]
  | cons x xs ih =>
    intro a b
    cases xs with
    | nil => simp [addVc]
    | cons y ys =>
      have := ih a b
      simp only [List.cons_append, addVc] at this ⊢
      exact List.mem_cons_of_mem _ this

/-- the VC list starts with the conditions relating consecutive entries of `pre` -/
theorem getVcs_prefix (c : Com) (pre0 : List Expr) (q : Expr) :
    ∃ rest, getVcs (computeWp c pre0 q) = addVc (pre0 ++ [wpE c q]) ++ rest := by
  cases c with
  | skip => exact ⟨[], by simp [computeWp, getVcs, wpE]⟩
  | assign x e => exact ⟨[], by simp [computeWp, getVcs, wpE]⟩
  | seq c1 c2 => exact ⟨_, by simp only [computeWp, getVcs, wpE, computeWp_ret_nil, List.append_assoc]; rfl⟩
  | cond b c1 c2 => exact ⟨_, by simp only [computeWp, getVcs, wpE, computeWp_ret_nil, List.append_assoc]; rfl⟩
  | «while» b inv c => exact ⟨_, by simp only [computeWp, getVcs, wpE, List.append_assoc]; rfl⟩

theorem mkVc_mem_getVcs (c : Com) (p q : Expr) : mkVc p (wpE c q) ∈ getVcs (computeWp c [p] q) := by
  obtain ⟨rest, h⟩ := getVcs_prefix c [p] q
  rw [h]
  exact List.mem_append_left _ (addVc_last [] _ _)

/-- Soundness of the generated conditions, for a command whose `pre` list was pre-set to `pre0`. -/
theorem wp_sound : ∀ c pre0 q, allValid (getVcs (computeWp c pre0 q)) →
    ∀ s s', Exec c s s' → holds s (wpE c q) → holds s' q := by
  intro c
  induction c with
  | skip => intro pre0 q _ s s' h hw; cases h; exact hw
  | assign x e =>
    intro pre0 q _ s s' h hw
    cases h with
    | assign he => unfold holds at *; rw [← evalE_subst he]; exact hw
  | seq c1 c2 ih1 ih2 =>
    intro pre0 q hv s s' h hw
    simp only [computeWp, getVcs] at hv
    rw [allValid_append, allValid_append] at hv
    cases h with
    | seq h1 h2 =>
      simp only [computeWp_ret_nil] at hv
      exact ih2 [] q hv.2 _ _ h2 (ih1 [] _ hv.1.2 _ _ h1 hw)
  | cond b c1 c2 ih1 ih2 =>
    intro pre0 q hv s s' h hw
    simp only [computeWp, getVcs] at hv
    rw [allValid_append, allValid_append] at hv
    cases h with
    | condT hb h1 => exact ih1 [] q hv.1.2 _ _ h1 ((holds_ite_true hb).mp hw)
    | condF hb h2 => exact ih2 [] q hv.2 _ _ h2 ((holds_ite_false hb).mp hw)
  | «while» b inv c ih =>
    intro pre0 q hv s s' h hw
    simp only [computeWp, getVcs] at hv
    rw [allValid_append, allValid_append] at hv
    obtain ⟨⟨_, hbody⟩, hpost⟩ := hv
    -- the VC  inv & b --> wp(body, inv)
    have hpres : valid (mkVc (conj inv b) (wpE c inv)) := hbody _ (mkVc_mem_getVcs c _ _)
    -- the VC  inv & ~b --> q
    have hexit : valid (mkVc (conj inv (neg b)) q) := hpost _ (by simp [addVc])
    -- loop invariant by induction on the execution
    have key : ∀ w s s', Exec w s s' → w = .while b inv c → holds s inv → holds s' inv ∧ evalE s' b = some (.bool false) := by
      intro w s s' hex
      induction hex with
      | skip => intro hw; cases hw
      | assign => intro hw; cases hw
      | seq => intro hw; cases hw
      | condT => intro hw; cases hw
      | condF => intro hw; cases hw
      | whileF hb => intro hw hi; cases hw; exact ⟨hi, hb⟩
      | whileT hb h1 _ _ ih2 =>
        intro hw hi
        cases hw
        have h1' := ih [conj inv b] inv hbody _ _ h1 (holds_mkVc (hpres _) (holds_conj.mpr ⟨hi, hb⟩))
        exact ih2 rfl h1'
    obtain ⟨hi, hnb⟩ := key _ _ _ h rfl hw
    exact holds_mkVc (hexit _) (holds_conj.mpr ⟨hi, holds_neg.mpr hnb⟩)

end Holpy.C20
