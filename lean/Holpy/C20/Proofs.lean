import Holpy.C20.Model
namespace Holpy.C20
end Holpy.C20
