/-
C20 — executable model of holpy's `imperative/` package (import-free: linked into `c20_model`).

  * `Expr`, `evalE`, `subst`          — imperative/expr.py (`Var`, `Const`, `Op`, `Fun`, `ITE`)
  * `Com`, `interp`                    — imperative/com.py command classes + a fuel interpreter
  * `computeWp`, `getVcs`              — `Com.compute_wp` (the `pre`/`post` lists it builds by
                                         mutation) and `Com.get_lines/get_vcs`
  * `pp`, `ppCom`                      — `Expr.__str__` (with fixes/C20-1: parentheses by the
                                         grammar's priorities) and `Com.print_com`
  * `lex`, `parseCond`, `parseCom`     — the Lark grammar of imperative/parser2.py as LALR(1) with
                                         shift preference reads it (all of +,-,* right-nested on one
                                         level; unary minus, if-then-else and the else-branch of a
                                         conditional command extend maximally to the right)

Not modelled: `ArrayElt`, `Field`, `Forall` (no `convert_hol`, so no VC containing them can be
produced by `get_vcs`; the parser model answers `none` on `.`, `[`, `forall`), functions of
arity other than 1 or 2.
-/
namespace Holpy.C20

/-! ## Expressions -/

inductive Val where
  | int (i : Int)
  | bool (b : Bool)
  deriving DecidableEq, Repr, Inhabited

/-- unary operators of `Op`: "-" and "~" -/
inductive UOp where
  | neg | not
  deriving DecidableEq, Repr

/-- binary operators of `Op`, in the order of the assertion in `Op.__init__` -/
inductive BOp where
  | add | sub | mul
  | eq | ne | le | lt | ge | gt
  | and | or | imp | iff
  deriving DecidableEq, Repr

/-- `expr.global_fnames` -/
inductive Fn where
  | abs | max
  deriving DecidableEq, Repr

inductive Expr where
  | var (x : String)
  | int (i : Int)
  | bool (b : Bool)
  | un (o : UOp) (a : Expr)
  | bin (o : BOp) (a b : Expr)
  | fn1 (f : Fn) (a : Expr)
  | fn2 (f : Fn) (a b : Expr)
  | ite (c a b : Expr)
  deriving DecidableEq, Repr, Inhabited

abbrev State := String → Int

def upd (s : State) (x : String) (v : Int) : State := fun y => if y = x then v else s y

def evalUn : UOp → Val → Option Val
  | .neg, .int i => some (.int (-i))
  | .not, .bool b => some (.bool (!b))
  | _, _ => none

def evalBin : BOp → Val → Val → Option Val
  | .add, .int a, .int b => some (.int (a + b))
  | .sub, .int a, .int b => some (.int (a - b))
  | .mul, .int a, .int b => some (.int (a * b))
  | .eq, .int a, .int b => some (.bool (decide (a = b)))
  | .eq, .bool a, .bool b => some (.bool (decide (a = b)))
  | .ne, .int a, .int b => some (.bool (!decide (a = b)))
  | .ne, .bool a, .bool b => some (.bool (!decide (a = b)))
  | .le, .int a, .int b => some (.bool (decide (a ≤ b)))
  | .lt, .int a, .int b => some (.bool (decide (a < b)))
  | .ge, .int a, .int b => some (.bool (decide (b ≤ a)))
  | .gt, .int a, .int b => some (.bool (decide (b < a)))
  | .and, .bool a, .bool b => some (.bool (a && b))
  | .or, .bool a, .bool b => some (.bool (a || b))
  | .imp, .bool a, .bool b => some (.bool (!a || b))
  | .iff, .bool a, .bool b => some (.bool (decide (a = b)))
  | _, _, _ => none

def evalFn1 : Fn → Val → Option Val
  | .abs, .int a => some (.int (if a < 0 then -a else a))
  | _, _ => none

def evalFn2 : Fn → Val → Val → Option Val
  | .max, .int a, .int b => some (.int (if a ≤ b then b else a))
  | _, _, _ => none

/-- Meaning of an expression: what `convert_hol` denotes over integer variables; `none` when the
expression is ill-sorted (the HOL term would not type-check). -/
def evalE (s : State) : Expr → Option Val
  | .var x => some (.int (s x))
  | .int i => some (.int i)
  | .bool b => some (.bool b)
  | .un o a => match evalE s a with
    | some v => evalUn o v
    | none => none
  | .bin o a b => match evalE s a, evalE s b with
    | some v, some w => evalBin o v w
    | _, _ => none
  | .fn1 f a => match evalE s a with
    | some v => evalFn1 f v
    | none => none
  | .fn2 f a b => match evalE s a, evalE s b with
    | some v, some w => evalFn2 f v w
    | _, _ => none
  | .ite c a b => match evalE s c with
    | some (.bool true) => evalE s a
    | some (.bool false) => evalE s b
    | _ => none

/-- `Expr.subst({x: e})` -/
def subst (x : String) (e : Expr) : Expr → Expr
  | .var y => if y = x then e else .var y
  | .int i => .int i
  | .bool b => .bool b
  | .un o a => .un o (subst x e a)
  | .bin o a b => .bin o (subst x e a) (subst x e b)
  | .fn1 f a => .fn1 f (subst x e a)
  | .fn2 f a b => .fn2 f (subst x e a) (subst x e b)
  | .ite c a b => .ite (subst x e c) (subst x e a) (subst x e b)

def etrue : Expr := .bool true
def conj (a b : Expr) : Expr := .bin .and a b
def neg (a : Expr) : Expr := .un .not a
def implies (a b : Expr) : Expr := .bin .imp a b

/-! ## Commands -/

inductive Com where
  | skip
  | assign (x : String) (e : Expr)
  | seq (c1 c2 : Com)
  | cond (b : Expr) (c1 c2 : Com)
  | while (b inv : Expr) (c : Com)
  deriving DecidableEq, Repr, Inhabited

inductive Res where
  | ok (s : State)
  | stuck      -- a guard is not boolean / an assigned expression is not an integer
  | fuel

/-- Fuel-bounded direct interpreter. -/
def interp : Nat → Com → State → Res
  | 0, _, _ => .fuel
  | _ + 1, .skip, s => .ok s
  | _ + 1, .assign x e, s => match evalE s e with
    | some (.int v) => .ok (upd s x v)
    | _ => .stuck
  | n + 1, .seq c1 c2, s => match interp n c1 s with
    | .ok s1 => interp n c2 s1
    | r => r
  | n + 1, .cond b c1 c2, s => match evalE s b with
    | some (.bool true) => interp n c1 s
    | some (.bool false) => interp n c2 s
    | _ => .stuck
  | n + 1, .while b inv c, s => match evalE s b with
    | some (.bool true) => match interp n c s with
      | .ok s1 => interp n (.while b inv c) s1
      | r => r
    | some (.bool false) => .ok s
    | _ => .stuck

/-! ## `imp.eval_Sem`: the derivation it builds

`eval_Sem c st` returns a proof term of `Sem c st st'` assembled from the theorems `Sem_Skip`,
`Sem_Assign`, `Sem_seq`, `Sem_if1`, `Sem_if2`, `Sem_while_skip`, `Sem_while_loop` of library/hoare.json,
following the evaluation of the program; `Deriv` is that tree, `Deriv.rules` the theorem names in the
order of a pre-order walk of the proof term. -/

inductive Deriv where
  | skip
  | assign
  | seq (d1 d2 : Deriv)
  | if1 (d : Deriv)
  | if2 (d : Deriv)
  | whileSkip
  | whileLoop (d1 d2 : Deriv)
  deriving Repr, Inhabited

def Deriv.rules : Deriv → List String
  | .skip => ["Sem_Skip"]
  | .assign => ["Sem_Assign"]
  | .seq d1 d2 => "Sem_seq" :: (d1.rules ++ d2.rules)
  | .if1 d => "Sem_if1" :: d.rules
  | .if2 d => "Sem_if2" :: d.rules
  | .whileSkip => ["Sem_while_skip"]
  | .whileLoop d1 d2 => "Sem_while_loop" :: (d1.rules ++ d2.rules)

/-- Fuel-bounded model of `eval_Sem` (`none`: out of fuel, or a guard / assigned expression that does
not evaluate, where the real function raises). -/
def evalSem : Nat → Com → State → Option (Deriv × State)
  | 0, _, _ => none
  | _ + 1, .skip, s => some (.skip, s)
  | _ + 1, .assign x e, s => match evalE s e with
    | some (.int v) => some (.assign, upd s x v)
    | _ => none
  | n + 1, .seq c1 c2, s => match evalSem n c1 s with
    | some (d1, s1) => match evalSem n c2 s1 with
      | some (d2, s2) => some (.seq d1 d2, s2)
      | none => none
    | none => none
  | n + 1, .cond b c1 c2, s => match evalE s b with
    | some (.bool true) => match evalSem n c1 s with
      | some (d, s2) => some (.if1 d, s2)
      | none => none
    | some (.bool false) => match evalSem n c2 s with
      | some (d, s2) => some (.if2 d, s2)
      | none => none
    | _ => none
  | n + 1, .while b inv c, s => match evalE s b with
    | some (.bool true) => match evalSem n c s with
      | some (d1, s1) => match evalSem n (.while b inv c) s1 with
        | some (d2, s2) => some (.whileLoop d1 d2, s2)
        | none => none
      | none => none
    | some (.bool false) => some (.whileSkip, s)
    | _ => none

/-! ## `compute_wp` and `get_vcs`

`computeWp c pre0 q` is `c.compute_wp(q)` called on a fresh command object whose `pre` list was
set to `pre0` beforehand (the top-level caller sets `[P]`, `While` sets `[I & b]` on its body);
the result records the `pre` and `post` lists of every sub-command afterwards. -/

inductive ACom where
  | skip (pre post : List Expr)
  | assign (pre post : List Expr) (x : String) (e : Expr)
  | seq (pre post : List Expr) (c1 c2 : ACom)
  | cond (pre post : List Expr) (b : Expr) (c1 c2 : ACom)
  | while (pre post : List Expr) (b inv : Expr) (c : ACom)
  deriving Repr, Inhabited

def ACom.pre : ACom → List Expr
  | .skip p _ => p | .assign p _ _ _ => p | .seq p _ _ _ => p | .cond p _ _ _ _ => p
  | .while p _ _ _ _ => p

/-- `self.pre[0]`, the value `compute_wp` returns -/
def ACom.ret (a : ACom) : Expr := a.pre.head?.getD etrue

def computeWp : Com → List Expr → Expr → ACom
  | .skip, pre0, q => .skip (pre0 ++ [q]) [q]
  | .assign x e, pre0, q => .assign (pre0 ++ [subst x e q]) [q] x e
  | .seq c1 c2, pre0, q =>
    let a2 := computeWp c2 [] q
    let a1 := computeWp c1 [] a2.ret
    .seq (pre0 ++ [a1.ret]) [q] a1 a2
  | .cond b c1 c2, pre0, q =>
    let a1 := computeWp c1 [] q
    let a2 := computeWp c2 [] q
    .cond (pre0 ++ [.ite b a1.ret a2.ret]) [q] b a1 a2
  | .while b inv c, pre0, q =>
    let a := computeWp c [conj inv b] inv
    .while (pre0 ++ [inv]) [conj inv (neg b), q] b inv a

/-- one verification condition of `add_vc`: `ls[i+1] if ls[i] == expr.true else implies(..)` -/
def mkVc (a b : Expr) : Expr := if a = etrue then b else implies a b

def addVc : List Expr → List Expr
  | a :: b :: rest => mkVc a b :: addVc (b :: rest)
  | _ => []

/-- the 'vc' lines of `get_lines`, in order -/
def getVcs : ACom → List Expr
  | .skip pre _ => addVc pre
  | .assign pre _ _ _ => addVc pre
  | .seq pre _ a1 a2 => addVc pre ++ getVcs a1 ++ getVcs a2
  | .cond pre _ _ a1 a2 => addVc pre ++ getVcs a1 ++ getVcs a2
  | .while pre post _ _ a => addVc pre ++ getVcs a ++ addVc post

/-- `c.pre = [P]; c.compute_wp(Q); c.get_vcs(vars)` as expressions -/
def vcsOf (p : Expr) (c : Com) (q : Expr) : List Expr := getVcs (computeWp c [p] q)

/-! ## Printer (`__str__`, with fixes/C20-1) -/

def BOp.str : BOp → String
  | .add => "+" | .sub => "-" | .mul => "*"
  | .eq => "==" | .ne => "!=" | .le => "<=" | .lt => "<" | .ge => ">=" | .gt => ">"
  | .and => "&" | .or => "|" | .imp => "-->" | .iff => "<-->"

def UOp.str : UOp → String
  | .neg => "-" | .not => "~"

def Fn.str : Fn → String
  | .abs => "abs" | .max => "max"

def BOp.isArith : BOp → Bool
  | .add | .sub | .mul => true
  | _ => false

/-- `bool_priority` -/
def BOp.boolPrio : BOp → Option Nat
  | .imp => some 25 | .or => some 30 | .and => some 35
  | _ => none

/-- `Op.priority()` (100 for everything that is not `~`, `&`, `|`, `-->`) -/
def prio : Expr → Nat
  | .un .not _ => 40
  | .bin o _ _ => (o.boolPrio).getD 100
  | _ => 100

def isOp : Expr → Bool
  | .un _ _ | .bin _ _ _ => true
  | _ => false

def isIte : Expr → Bool
  | .ite _ _ _ => true
  | _ => false

/-- `isinstance(a, Op) and a.is_arith()` -/
def isArithOp : Expr → Bool
  | .un .neg _ => true
  | .bin o _ _ => o.isArith
  | _ => false

def isNegConst : Expr → Bool
  | .int i => decide (i < 0)
  | _ => false

/-- `isinstance(a, Op) and a.op in ('+', '-')` -/
def isPlusMinus : Expr → Bool
  | .un .neg _ | .bin .add _ _ | .bin .sub _ _ => true
  | _ => false

def isBinPlusMinus : Expr → Bool
  | .bin .add _ _ | .bin .sub _ _ => true
  | _ => false

def isBin : Expr → Bool
  | .bin _ _ _ => true
  | _ => false

/-- argument of `~` gets parentheses -/
def parNot (a : Expr) : Bool := isIte a || (isOp a && decide (prio a ≤ 40))
/-- argument of unary `-` gets parentheses -/
def parNeg (a : Expr) : Bool := isBin a
/-- left / right argument of the binary operator `o` gets parentheses -/
def parL (o : BOp) (a : Expr) : Bool :=
  if o.isArith then isArithOp a || isNegConst a
  else match o.boolPrio with
    | some p => isIte a || (isOp a && decide (prio a ≤ p))
    | none => false
def parR (o : BOp) (a : Expr) : Bool :=
  if o.isArith then (o == .mul && isPlusMinus a) || (o == .sub && isBinPlusMinus a)
  else match o.boolPrio with
    | some p => isIte a || (isOp a && decide (prio a < p))
    | none => false

/-! ### Tokens (the terminals of parser2's grammar) -/

inductive Tok where
  | id (s : String)
  | num (n : Nat)
  | lp | rp | comma | plus | minus | star
  | eqeq | neq | le | lt
  | tilde | amp | bar | arrow
  | ktrue | kif | kthen | kelse
  | assign | semi | lbrace | rbrace | lbrack | rbrack | dot
  | kskip | kwhile | kforall
  | bad (s : String)      -- an operator of `Op` without concrete syntax in parser2 (>=, >, <-->): printed, never lexed
  deriving DecidableEq, Repr, Inhabited

def BOp.tok : BOp → Tok
  | .add => .plus | .sub => .minus | .mul => .star
  | .eq => .eqeq | .ne => .neq | .le => .le | .lt => .lt
  | .and => .amp | .or => .bar | .imp => .arrow
  | .ge => .bad ">=" | .gt => .bad ">" | .iff => .bad "<-->"

/-- decimal digits of a natural number (what `str(int)` prints) -/
def natDigits (n : Nat) : List Char :=
  if h : n < 10 then [Char.ofNat (48 + n)] else natDigits (n / 10) ++ [Char.ofNat (48 + n % 10)]
termination_by n
decreasing_by omega

/-- the characters of a token -/
def tokChars : Tok → List Char
  | .id s => s.toList
  | .num n => natDigits n
  | .lp => ['('] | .rp => [')'] | .comma => [','] | .plus => ['+'] | .minus => ['-'] | .star => ['*']
  | .eqeq => ['=', '='] | .neq => ['!', '='] | .le => ['<', '='] | .lt => ['<']
  | .tilde => ['~'] | .amp => ['&'] | .bar => ['|'] | .arrow => ['-', '-', '>']
  | .ktrue => ['t', 'r', 'u', 'e'] | .kif => ['i', 'f'] | .kthen => ['t', 'h', 'e', 'n'] | .kelse => ['e', 'l', 's', 'e']
  | .assign => [':', '='] | .semi => [';'] | .lbrace => ['{'] | .rbrace => ['}'] | .lbrack => ['['] | .rbrack => [']']
  | .dot => ['.']
  | .kskip => ['s', 'k', 'i', 'p'] | .kwhile => ['w', 'h', 'i', 'l', 'e'] | .kforall => ['f', 'o', 'r', 'a', 'l', 'l']
  | .bad s => s.toList

/-- What is printed: tokens and white space (`ws nl k`: a newline if `nl`, then `k` blanks). -/
inductive Item where
  | tok (t : Tok)
  | ws (nl : Bool) (k : Nat)
  deriving Repr

abbrev Item.sp : Item := .ws false 1

def Item.chars : Item → List Char
  | .tok t => tokChars t
  | .ws nl k => (if nl then ['\n'] else []) ++ List.replicate k ' '

def render : List Item → List Char
  | [] => []
  | i :: l => i.chars ++ render l

def tokensOf : List Item → List Tok
  | [] => []
  | .tok t :: l => t :: tokensOf l
  | .ws _ _ :: l => tokensOf l

def parenI (b : Bool) (l : List Item) : List Item := if b then .tok .lp :: l ++ [.tok .rp] else l

/-- `Expr.__str__` as tokens and blanks: "%s%s" for unary, "%s %s %s" for binary operators,
"f(a,b)", "if %s then %s else %s", parentheses by the fixed rules. -/
def items : Expr → List Item
  | .var x => [.tok (.id x)]
  | .int i => if i < 0 then [.tok .minus, .tok (.num i.natAbs)] else [.tok (.num i.toNat)]
  | .bool b => if b then [.tok .ktrue] else [.tok (.id "false")]
  | .un .neg a => .tok .minus :: parenI (parNeg a) (items a)
  | .un .not a => .tok .tilde :: parenI (parNot a) (items a)
  | .bin o a b => parenI (parL o a) (items a) ++ .sp :: .tok o.tok :: .sp :: parenI (parR o b) (items b)
  | .fn1 f a => .tok (.id f.str) :: .tok .lp :: items a ++ [.tok .rp]
  | .fn2 f a b => .tok (.id f.str) :: .tok .lp :: items a ++ .tok .comma :: items b ++ [.tok .rp]
  | .ite c a b => .tok .kif :: .sp :: items c ++ .sp :: .tok .kthen :: .sp :: items a ++ .sp :: .tok .kelse :: .sp :: items b

/-- `str(e)` -/
def pp (e : Expr) : String := String.ofList (render (items e))

/-- `Com.print_com` (the 'com' and 'inv' lines joined by newlines; no 'vc' lines since `pre`/`post`
are empty on a command that `compute_wp` was not called on): every line starts with its indentation,
`;` is appended to the last line of the first part of a sequence. -/
def comItems (ind : Nat) : Com → List Item
  | .skip => [.ws false ind, .tok .kskip]
  | .assign x e => .ws false ind :: .tok (.id x) :: .sp :: .tok .assign :: .sp :: items e
  | .seq c1 c2 => comItems ind c1 ++ .tok .semi :: .ws true 0 :: comItems ind c2
  | .cond b c1 c2 =>
    .ws false ind :: .tok .kif :: .sp :: .tok .lp :: items b ++ .tok .rp :: .sp :: .tok .kthen :: .ws true 0 ::
      comItems (ind + 2) c1 ++ .ws true ind :: .tok .kelse :: .ws true 0 :: comItems (ind + 2) c2
  | .while b inv c =>
    .ws false ind :: .tok .kwhile :: .sp :: .tok .lp :: items b ++ .tok .rp :: .sp :: .tok .lbrace ::
      .ws true (ind + 2) :: .tok .lbrack :: items inv ++ .tok .rbrack :: .ws true 0 ::
      comItems (ind + 2) c ++ [.ws true ind, .tok .rbrace]

def ppCom (c : Com) : String := String.ofList (render (comItems 0 c))

/-! ### Lexer: Lark's standard lexer for the terminals of the grammar

At each position white space is skipped; then CNAME `[a-zA-Z_][a-zA-Z0-9_]*` and INT `[0-9]+` are
matched as long as possible (a CNAME equal to a keyword literal becomes that keyword: Lark's
`unless` callback), then the longest literal.  `none` when no terminal matches. -/

def isIdStart (c : Char) : Bool := c.isAlpha || c == '_'
def isIdChar (c : Char) : Bool := c.isAlphanum || c == '_'
def isWs (c : Char) : Bool := c == ' ' || c == '\t' || c == '\n' || c == '\r' || c == '\x0c'

def keyword (s : String) : Tok :=
  if s = "true" then .ktrue else if s = "if" then .kif else if s = "then" then .kthen
  else if s = "else" then .kelse else if s = "skip" then .kskip else if s = "while" then .kwhile
  else if s = "forall" then .kforall else .id s

def digitsToNat (ds : List Char) : Nat := ds.foldl (fun n c => 10 * n + (c.toNat - '0'.toNat)) 0

/-- the longest literal at the head of the input -/
def symTok : List Char → Option (Tok × List Char)
  | '-' :: '-' :: '>' :: r => some (.arrow, r)
  | '=' :: '=' :: r => some (.eqeq, r)
  | '!' :: '=' :: r => some (.neq, r)
  | '<' :: '=' :: r => some (.le, r)
  | ':' :: '=' :: r => some (.assign, r)
  | '(' :: r => some (.lp, r)
  | ')' :: r => some (.rp, r)
  | ',' :: r => some (.comma, r)
  | '+' :: r => some (.plus, r)
  | '-' :: r => some (.minus, r)
  | '*' :: r => some (.star, r)
  | '<' :: r => some (.lt, r)
  | '~' :: r => some (.tilde, r)
  | '&' :: r => some (.amp, r)
  | '|' :: r => some (.bar, r)
  | ';' :: r => some (.semi, r)
  | '{' :: r => some (.lbrace, r)
  | '}' :: r => some (.rbrace, r)
  | '[' :: r => some (.lbrack, r)
  | ']' :: r => some (.rbrack, r)
  | '.' :: r => some (.dot, r)
  | _ => none

/-- one token at the head of the input (which does not start with white space) -/
def nextTok : List Char → Option (Tok × List Char)
  | [] => none
  | c :: cs =>
    if isIdStart c then some (keyword (String.ofList (c :: cs.takeWhile isIdChar)), cs.dropWhile isIdChar)
    else if c.isDigit then some (.num (digitsToNat (c :: cs.takeWhile Char.isDigit)), cs.dropWhile Char.isDigit)
    else symTok (c :: cs)

/-- Fuel = number of characters + 1 (every token has at least one character). -/
def lexF : Nat → List Char → Option (List Tok)
  | 0, _ => none
  | n + 1, cs => match cs.dropWhile isWs with
    | [] => some []
    | c :: r => match nextTok (c :: r) with
      | some (t, r') => (lexF n r').map (t :: ·)
      | none => none

def lex (s : String) : Option (List Tok) := lexF (s.length + 1) s.toList

/-- identifiers the theorems are about: CNAME shape, not a keyword of the grammar -/
def nameOK (x : String) : Bool :=
  match x.toList with
  | [] => false
  | c :: cs => isIdStart c && cs.all isIdChar && (keyword x == .id x)

/-! ### Token-level printer

`toks e` is the token sequence of `pp e` (`lex_print` in Props.lean); `normNeg e` is what the grammar
can give back for it: a negative constant `Const(-n)` prints as `-n`, which reads as unary minus
applied to `Const(n)`. -/

def parenT (b : Bool) (ts : List Tok) : List Tok := if b then .lp :: ts ++ [.rp] else ts

def toks : Expr → List Tok
  | .var x => [.id x]
  | .int i => if i < 0 then [.minus, .num i.natAbs] else [.num i.toNat]
  | .bool b => if b then [.ktrue] else [.id "false"]
  | .un .neg a => .minus :: parenT (parNeg a) (toks a)
  | .un .not a => .tilde :: parenT (parNot a) (toks a)
  | .bin o a b => parenT (parL o a) (toks a) ++ o.tok :: parenT (parR o b) (toks b)
  | .fn1 f a => .id f.str :: .lp :: toks a ++ [.rp]
  | .fn2 f a b => .id f.str :: .lp :: toks a ++ .comma :: toks b ++ [.rp]
  | .ite c a b => .kif :: toks c ++ .kthen :: toks a ++ .kelse :: toks b

/-! ## The assertion language and well-sortedness (decidable; the driver answers them for every generated input)

`wfC` / `wfA`: conditions / arithmetic expressions that parser2's grammar can produce (the domain of
the print/parse theorems).  `tyC` / `tyA`: expressions whose `convert_hol` is a well-typed HOL term
of type bool / int (every operator of `Op`, `abs` with one and `max` with two arguments);
`wsCom`: guards are `tyC` and assigned expressions `tyA` (the domain of `sem_adequate`). -/

/-- arithmetic expressions of the assertion language -/
def wfA : Expr → Bool
  | .var _ | .int _ => true
  | .un .neg a => wfA a
  | .bin o a b => o.isArith && wfA a && wfA b
  | .fn1 _ a => wfA a
  | .fn2 _ a b => wfA a && wfA b
  | _ => false

def BOp.isRel : BOp → Bool
  | .eq | .ne | .le | .lt => true
  | _ => false

/-- conditions of the assertion language -/
def wfC : Expr → Bool
  | .bool b => b
  | .un .not a => wfC a
  | .bin o a b => (o.isRel && wfA a && wfA b) || (o.boolPrio.isSome && wfC a && wfC b)
  | .ite c a b => wfC c && wfC a && wfC b
  | _ => false


mutual
def tyA : Expr → Bool
  | .var _ | .int _ => true
  | .un .neg a => tyA a
  | .bin o a b => o.isArith && tyA a && tyA b
  | .fn1 .abs a => tyA a
  | .fn2 .max a b => tyA a && tyA b
  | .ite c a b => tyC c && tyA a && tyA b
  | _ => false
def tyC : Expr → Bool
  | .bool _ => true
  | .un .not a => tyC a
  | .bin .eq a b | .bin .ne a b => (tyA a && tyA b) || (tyC a && tyC b)
  | .bin .le a b | .bin .lt a b | .bin .ge a b | .bin .gt a b => tyA a && tyA b
  | .bin .and a b | .bin .or a b | .bin .imp a b | .bin .iff a b => tyC a && tyC b
  | .ite c a b => tyC c && tyC a && tyC b
  | _ => false
end

def wsCom : Com → Bool
  | .skip => true
  | .assign _ e => tyA e
  | .seq c1 c2 => wsCom c1 && wsCom c2
  | .cond b c1 c2 => tyC b && wsCom c1 && wsCom c2
  | .while b _ c => tyC b && wsCom c

/-! ## Decidable hypotheses of the lexer theorems (answered by the driver for every generated input) -/

def opOK (o : BOp) : Bool := o.isArith || o.isRel || o.boolPrio.isSome

/-- expressions all of whose tokens have a concrete syntax: operators of the grammar, names that are identifiers -/
def lexOK : Expr → Bool
  | .var x => nameOK x
  | .int _ | .bool _ => true
  | .un _ a => lexOK a
  | .bin o a b => opOK o && lexOK a && lexOK b
  | .fn1 _ a => lexOK a
  | .fn2 _ a b => lexOK a && lexOK b
  | .ite c a b => lexOK c && lexOK a && lexOK b

/-- all variable names are identifiers that are not keywords -/
def namesOK : Expr → Bool
  | .var x => nameOK x
  | .int _ | .bool _ => true
  | .un _ a => namesOK a
  | .bin _ a b => namesOK a && namesOK b
  | .fn1 _ a => namesOK a
  | .fn2 _ a b => namesOK a && namesOK b
  | .ite c a b => namesOK c && namesOK a && namesOK b

/-- a condition of the assertion language over identifiers -/
def okE (e : Expr) : Bool := wfC e && namesOK e

/-- a program whose guards and invariants are such conditions and whose assigned expressions are
arithmetic expressions of the assertion language over identifiers -/
def okCom : Com → Bool
  | .skip => true
  | .assign _ e => wfA e && namesOK e
  | .seq c1 c2 => okCom c1 && okCom c2
  | .cond b c1 c2 => okE b && okCom c1 && okCom c2
  | .while b inv c => okE b && okE inv && okCom c

/-! ## `imp.vcg` (the HOL-level generator of imperative/imp.py)

`imp.vcg T (Valid P c Q)` applies `pre_rule` to `compute_wp`, whose `While` case assumes
`Entail (I ∧ ¬b) Q` and calls `vcg` on `Valid (I ∧ b) c I`: the assumptions of the theorem it returns
are the same conditions as `get_vcs`, without the `== true` shortcut (`true ⟶ X` is kept). -/

def addVcH : List Expr → List Expr
  | a :: b :: rest => implies a b :: addVcH (b :: rest)
  | _ => []

def getVcsH : ACom → List Expr
  | .skip pre _ => addVcH pre
  | .assign pre _ _ _ => addVcH pre
  | .seq pre _ a1 a2 => addVcH pre ++ getVcsH a1 ++ getVcsH a2
  | .cond pre _ _ a1 a2 => addVcH pre ++ getVcsH a1 ++ getVcsH a2
  | .while pre post _ _ a => addVcH pre ++ getVcsH a ++ addVcH post

def vcsH (p : Expr) (c : Com) (q : Expr) : List Expr := getVcsH (computeWp c [p] q)

def normNeg : Expr → Expr
  | .var x => .var x
  | .int i => if i < 0 then .un .neg (.int (-i)) else .int i
  | .bool b => .bool b
  | .un o a => .un o (normNeg a)
  | .bin o a b => .bin o (normNeg a) (normNeg b)
  | .fn1 f a => .fn1 f (normNeg a)
  | .fn2 f a b => .fn2 f (normNeg a) (normNeg b)
  | .ite c a b => .ite (normNeg c) (normNeg a) (normNeg b)


/-- the tokens of a printed program -/
def comToks : Com → List Tok
  | .skip => [.kskip]
  | .assign x e => .id x :: .assign :: toks e
  | .seq c1 c2 => comToks c1 ++ .semi :: comToks c2
  | .cond b c1 c2 => .kif :: .lp :: toks b ++ .rp :: .kthen :: comToks c1 ++ .kelse :: comToks c2
  | .while b inv c => .kwhile :: .lp :: toks b ++ .rp :: .lbrace :: .lbrack :: toks inv ++ .rbrack :: comToks c ++ [.rbrace]

/-- programs all of whose tokens have a concrete syntax -/
def lexOKc : Com → Bool
  | .skip => true
  | .assign x e => nameOK x && lexOK e
  | .seq c1 c2 => lexOKc c1 && lexOKc c2
  | .cond b c1 c2 => lexOK b && lexOKc c1 && lexOKc c2
  | .while b inv c => lexOK b && lexOK inv && lexOKc c

/-- a command that is neither a sequence nor a conditional -/
def atomicCom : Com → Bool
  | .skip | .assign _ _ | .while _ _ _ => true
  | _ => false

/-- the shape of the programs parser2 can return: the first part of a sequence is neither a sequence
(`;` nests to the right) nor a conditional (an else-branch extends as far as possible) -/
def shapeOK : Com → Bool
  | .seq c1 c2 => atomicCom c1 && shapeOK c1 && shapeOK c2
  | .cond _ c1 c2 => shapeOK c1 && shapeOK c2
  | .while _ _ c => shapeOK c
  | _ => true

/-- programs that `print_com` can express: of that shape, over the assertion language and identifiers -/
def printableCom (c : Com) : Bool := shapeOK c && okCom c && lexOKc c

def normNegCom : Com → Com
  | .skip => .skip
  | .assign x e => .assign x (normNeg e)
  | .seq c1 c2 => .seq (normNegCom c1) (normNegCom c2)
  | .cond b c1 c2 => .cond (normNeg b) (normNegCom c1) (normNegCom c2)
  | .while b inv c => .while (normNeg b) (normNeg inv) (normNegCom c)

/-! ## Parser

Recursive descent that accepts exactly what Lark's LALR(1) parser accepts for parser2's grammar
when every shift/reduce conflict is resolved by shifting.  Arithmetic and boolean phrases share
the parenthesis rule, so the functions return whatever they read and the *kind* of the result
(`isArithE` / `isCondE` on the top constructor) is checked where the grammar demands one. -/

/-- results the `expr` nonterminal can produce -/
def isArithE : Expr → Bool
  | .var _ | .int _ | .fn1 _ _ | .fn2 _ _ _ => true
  | .un .neg _ => true
  | .bin o _ _ => o.isArith
  | _ => false

/-- results the `cond` nonterminal can produce -/
def isCondE : Expr → Bool
  | .bool _ | .ite _ _ _ => true
  | .un .not _ => true
  | .bin o _ _ => !o.isArith
  | _ => false

def relOf : Tok → Option BOp
  | .eqeq => some .eq | .neq => some .ne | .le => some .le | .lt => some .lt
  | _ => none

def arithOf : Tok → Option BOp
  | .plus => some .add | .minus => some .sub | .star => some .mul
  | _ => none

def fnOf (s : String) : Option Fn :=
  if s = "abs" then some .abs else if s = "max" then some .max else none

abbrev PRes := Option (Expr × List Tok)

/-- `a o b` if both operands have the kind `ok` -/
def binRes (o : BOp) (ok : Expr → Bool) (a : Expr) (res : PRes) : PRes :=
  match res with
  | some (b, r') => if ok a && ok b then some (.bin o a b, r') else none
  | none => none

def unRes (o : UOp) (ok : Expr → Bool) (res : PRes) : PRes :=
  match res with
  | some (a, r') => if ok a then some (.un o a, r') else none
  | none => none

/-- after a primary: an arithmetic operator and the rest of the expression, if any (shift) -/
def contArith (rec : List Tok → PRes) (a : Expr) (r : List Tok) : PRes :=
  match r with
  | t :: r' => match arithOf t with
    | some o => binRes o isArithE a (rec r')
    | none => some (a, r)
  | [] => some (a, r)

def contRel (rec : List Tok → PRes) (a : Expr) (r : List Tok) : PRes :=
  match r with
  | t :: r' => match relOf t with
    | some o => binRes o isArithE a (rec r')
    | none => some (a, r)
  | [] => some (a, r)

/-- after an operand of the right-associative connective `tok` -/
def contTok (tok : Tok) (o : BOp) (rec : List Tok → PRes) (a : Expr) (r : List Tok) : PRes :=
  match r with
  | t :: r' => if t = tok then binRes o isCondE a (rec r') else some (a, r)
  | [] => some (a, r)

def andThen (res : PRes) (k : Expr → List Tok → PRes) : PRes :=
  match res with
  | some (a, r) => k a r
  | none => none

def fnRes (f : String) (rec : List Tok → PRes) (r : List Tok) : PRes :=
  match fnOf f with
  | none => none
  | some fn => match rec r with
    | some (a, .rp :: r') => if isArithE a then some (.fn1 fn a, r') else none
    | some (a, .comma :: r') => match rec r' with
      | some (b, .rp :: r'') => if isArithE a && isArithE b then some (.fn2 fn a b, r'') else none
      | _ => none
    | _ => none

def iteRes (rec : List Tok → PRes) (r : List Tok) : PRes :=
  match rec r with
  | some (c, .kthen :: r1) => match rec r1 with
    | some (a, .kelse :: r2) => match rec r2 with
      | some (b, r3) => if isCondE c && isCondE a && isCondE b then some (.ite c a b, r3) else none
      | none => none
    | _ => none
  | _ => none

def parenRes (res : PRes) : PRes :=
  match res with
  | some (a, .rp :: r') => some (a, r')
  | _ => none

mutual
def pImp : Nat → List Tok → PRes
  | 0, _ => none
  | n + 1, ts => andThen (pDisj n ts) (contTok .arrow .imp (pImp n))
def pDisj : Nat → List Tok → PRes
  | 0, _ => none
  | n + 1, ts => andThen (pConj n ts) (contTok .bar .or (pDisj n))
def pConj : Nat → List Tok → PRes
  | 0, _ => none
  | n + 1, ts => andThen (pNeg n ts) (contTok .amp .and (pConj n))
def pNeg : Nat → List Tok → PRes
  | 0, _ => none
  | n + 1, ts => match ts with
    | .tilde :: r => unRes .not isCondE (pCmp n r)
    | _ => pCmp n ts
def pCmp : Nat → List Tok → PRes
  | 0, _ => none
  | n + 1, ts => andThen (pArith n ts) (contRel (pArith n))
def pArith : Nat → List Tok → PRes
  | 0, _ => none
  | n + 1, ts => match ts with
    | .minus :: r => unRes .neg isArithE (pArith n r)
    | _ => andThen (pPrim n ts) (contArith (pArith n))
def pPrim : Nat → List Tok → PRes
  | 0, _ => none
  | n + 1, ts => match ts with
    | .id f :: .lp :: r => fnRes f (pArith n) r
    | .id x :: r => some (.var x, r)
    | .num k :: r => some (.int (Int.ofNat k), r)
    | .ktrue :: r => some (.bool true, r)
    | .kif :: r => iteRes (pImp n) r
    | .lp :: r => parenRes (pImp n r)
    | _ => none
end

def parseFuel (ts : List Tok) : Nat := 16 * ts.length + 16

/-- `cond_parser.parse` on a token list -/
def parseCondToks (ts : List Tok) : Option Expr :=
  match pImp (parseFuel ts) ts with
  | some (e, []) => if isCondE e then some e else none
  | _ => none

def parseCond (s : String) : Option Expr := (lex s).bind parseCondToks

abbrev CRes := Option (Com × List Tok)

/-- cmd: "skip" | CNAME ":=" expr | "if" "(" cond ")" "then" cmd "else" cmd
       | "while" "(" cond ")" "{" ("[" cond "]")? cmd "}" | cmd ";" cmd   (right-nested) -/
def assignRes (x : String) (res : PRes) : CRes :=
  match res with
  | some (e, r') => if isArithE e then some (.assign x e, r') else none
  | none => none

def condRes (rec : List Tok → CRes) (res : PRes) : CRes :=
  match res with
  | some (b, .rp :: .kthen :: r1) =>
    if isCondE b then match rec r1 with
      | some (c1, .kelse :: r2) => match rec r2 with
        | some (c2, r3) => some (.cond b c1 c2, r3)
        | none => none
      | _ => none
    else none
  | _ => none

def whileRes (rec : List Tok → CRes) (res : PRes) : CRes :=
  match res with
  | some (b, .rp :: .lbrace :: .lbrack :: r1) =>
    if isCondE b then match pImp (parseFuel r1) r1 with
      | some (inv, .rbrack :: r2) =>
        if isCondE inv then match rec r2 with
          | some (c, .rbrace :: r3) => some (.while b inv c, r3)
          | _ => none
        else none
      | _ => none
    else none
  | some (b, .rp :: .lbrace :: r1) =>
    if isCondE b then match rec r1 with
      | some (c, .rbrace :: r3) => some (.while b etrue c, r3)
      | _ => none
    else none
  | _ => none

/-- one command that is not a sequence -/
def pFirst (rec : List Tok → CRes) : List Tok → CRes
  | .kskip :: r => some (.skip, r)
  | .id x :: .assign :: r => assignRes x (pArith (parseFuel r) r)
  | .kif :: .lp :: r => condRes rec (pImp (parseFuel r) r)
  | .kwhile :: .lp :: r => whileRes rec (pImp (parseFuel r) r)
  | _ => none

/-- `cmd ";" cmd`, shift preferred: everything after the `;` belongs to the second part -/
def seqCont (rec : List Tok → CRes) (first : CRes) : CRes :=
  match first with
  | some (c1, .semi :: r) => match rec r with
    | some (c2, r') => some (.seq c1 c2, r')
    | none => none
  | res => res

def pCmd : Nat → List Tok → CRes
  | 0, _ => none
  | n + 1, ts => seqCont (pCmd n) (pFirst (pCmd n) ts)

def parseComToks (ts : List Tok) : Option Com :=
  match pCmd (ts.length + 1) ts with
  | some (c, []) => some c
  | _ => none

def parseCom (s : String) : Option Com := (lex s).bind parseComToks

/-! ### ONE command object analysed more than once (the mutable `pre` / `post` lists of imperative/com.py)

`ACom` is the object state: the program plus the `pre` and `post` list of every node.  `compute_wp` never
clears `pre`: it APPENDS to it (`self.pre.append(..)`), resets `post`, prepends `[I & b]` to the `pre` of a
loop body (`self.c.pre = [conj(inv, b)] + self.c.pre`) and returns `self.pre[0]`, which on a re-used object
is the first element ever stored there, not the condition just computed. -/

/-- a freshly built object (`Com.__init__`): every list empty -/
def ACom.init : Com → ACom
  | .skip => .skip [] []
  | .assign x e => .assign [] [] x e
  | .seq c1 c2 => .seq [] [] (ACom.init c1) (ACom.init c2)
  | .cond b c1 c2 => .cond [] [] b (ACom.init c1) (ACom.init c2)
  | .while b inv c => .while [] [] b inv (ACom.init c)

/-- the program of an object -/
def ACom.erase : ACom → Com
  | .skip _ _ => .skip
  | .assign _ _ x e => .assign x e
  | .seq _ _ a1 a2 => .seq a1.erase a2.erase
  | .cond _ _ b a1 a2 => .cond b a1.erase a2.erase
  | .while _ _ b inv a => .while b inv a.erase

/-- `obj.pre = l` (the caller's way to state the precondition: `l = [P]`) -/
def ACom.setPre (l : List Expr) : ACom → ACom
  | .skip _ q => .skip l q
  | .assign _ q x e => .assign l q x e
  | .seq _ q a1 a2 => .seq l q a1 a2
  | .cond _ q b a1 a2 => .cond l q b a1 a2
  | .while _ q b inv a => .while l q b inv a

/-- `obj.pre = extra + obj.pre; obj.compute_wp(q)` on an object in ANY state (`extra = []` for the call
itself, `[I & b]` for the body of a loop); the result is the new state, `.ret` of it the value returned. -/
def reWpAux : List Expr → ACom → Expr → ACom
  | ex, .skip pre _, q => .skip (ex ++ pre ++ [q]) [q]
  | ex, .assign pre _ x e, q => .assign (ex ++ pre ++ [subst x e q]) [q] x e
  | ex, .seq pre _ a1 a2, q =>
    let a2' := reWpAux [] a2 q
    let a1' := reWpAux [] a1 a2'.ret
    .seq (ex ++ pre ++ [a1'.ret]) [q] a1' a2'
  | ex, .cond pre _ b a1 a2, q =>
    let a1' := reWpAux [] a1 q
    let a2' := reWpAux [] a2 q
    .cond (ex ++ pre ++ [.ite b a1'.ret a2'.ret]) [q] b a1' a2'
  | ex, .while pre _ b inv a, q =>
    let a' := reWpAux [conj inv b] a inv
    .while (ex ++ pre ++ [inv]) [conj inv (neg b), q] b inv a'

/-- `obj.compute_wp(q)` -/
def reWp (a : ACom) (q : Expr) : ACom := reWpAux [] a q

/-- the operations of a history on one object -/
inductive Op where
  | setPre (p : Expr)      -- obj.pre = [p]
  | wp (q : Expr)          -- obj.compute_wp(q)
  | vcs                    -- obj.get_vcs(vars) / get_lines(vars): reads only
  | print                  -- obj.print_com(vars): reads only
  deriving Repr, Inhabited

def Op.readOnly : Op → Bool
  | .vcs | .print => true
  | _ => false

def stepOp (a : ACom) : Op → ACom
  | .setPre p => a.setPre [p]
  | .wp q => reWp a q
  | .vcs => a
  | .print => a

/-- the object after a history -/
def runOps (a : ACom) (h : List Op) : ACom := h.foldl stepOp a

/-- the argument of the last `obj.pre = [p]` of a history -/
def lastPre (h : List Op) : Option Expr :=
  h.foldl (fun acc o => match o with | .setPre p => some p | _ => acc) none

/-- what `get_vcs` returns after each operation of a history (the observable trace) -/
def vcsTrace : ACom → List Op → List (List Expr)
  | _, [] => []
  | a, o :: h => getVcs (stepOp a o) :: vcsTrace (stepOp a o) h

end Holpy.C20
