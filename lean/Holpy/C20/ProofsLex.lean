import Holpy.C20.Model
/-
C20 — the lexer reads the printed form back: helper lemmas for `lex_print` (Props.lean).
Part 1: characters of single tokens.
-/
namespace Holpy.C20

/-! ### decimal digits -/

def isDig (c : Char) : Bool := c.isDigit

theorem digit_char (d : Nat) (h : d < 10) : (Char.ofNat (48 + d)).isDigit = true ∧ (Char.ofNat (48 + d)).toNat - 48 = d := by
  have : d = 0 ∨ d = 1 ∨ d = 2 ∨ d = 3 ∨ d = 4 ∨ d = 5 ∨ d = 6 ∨ d = 7 ∨ d = 8 ∨ d = 9 := by omega
  rcases this with rfl | rfl | rfl | rfl | rfl | rfl | rfl | rfl | rfl | rfl <;> decide

theorem digitsToNat_append (l : List Char) (c : Char) :
    digitsToNat (l ++ [c]) = 10 * digitsToNat l + (c.toNat - '0'.toNat) := by
  simp [digitsToNat, List.foldl_append]

theorem natDigits_spec : ∀ n, digitsToNat (natDigits n) = n ∧ (∀ c ∈ natDigits n, c.isDigit = true) ∧ natDigits n ≠ [] := by
  intro n
  induction n using Nat.strongRecOn with
  | ind n ih =>
    rw [natDigits]
    split
    · rename_i h
      have := digit_char n h
      refine ⟨by simp [digitsToNat, this.2], by simp [this.1], by simp⟩
    · rename_i h
      have hd := digit_char (n % 10) (Nat.mod_lt _ (by omega))
      obtain ⟨h1, h2, h3⟩ := ih (n / 10) (by omega)
      refine ⟨?_, ?_, by simp⟩
      · have z : '0'.toNat = 48 := rfl
        rw [digitsToNat_append, h1, z, hd.2]; omega
      · intro c hc
        rcases List.mem_append.mp hc with hc | hc
        · exact h2 c hc
        · simp at hc; subst hc; exact hd.1

/-! ### `takeWhile` / `dropWhile` on a run followed by a stopper -/

def stops (p : Char → Bool) (k : List Char) : Prop := ∀ c r, k = c :: r → p c = false

theorem takeWhile_run {p : Char → Bool} {l k : List Char} (hl : ∀ c ∈ l, p c = true) (hk : stops p k) :
    (l ++ k).takeWhile p = l ∧ (l ++ k).dropWhile p = k := by
  have hk' : k.takeWhile p = [] ∧ k.dropWhile p = k := by
    cases k with
    | nil => simp
    | cons c r => have := hk c r rfl; simp [List.takeWhile, List.dropWhile, this]
  rw [List.takeWhile_append_of_pos hl, List.dropWhile_append_of_pos hl, hk'.1, hk'.2]
  simp

/-! ### one token -/

/-- what may follow the token `t` without white space so that it is still read as `t` -/
def safeAfter (t : Tok) (k : List Char) : Bool :=
  match t with
  | .id _ | .num _ | .ktrue | .kif | .kthen | .kelse | .kskip | .kwhile | .kforall =>
    match k with
    | [] => true
    | c :: _ => !isIdChar c
  | .minus =>
    match k with
    | '-' :: '>' :: _ => false
    | _ => true
  | .lt =>
    match k with
    | '=' :: _ => false
    | _ => true
  | .bad _ => false
  | _ => true

/-- tokens with a concrete syntax -/
def tokOK : Tok → Bool
  | .id x => nameOK x
  | .bad _ => false
  | _ => true

theorem word_tok {c : Char} {cs k : List Char} (hc : isIdStart c = true) (hcs : ∀ d ∈ cs, isIdChar d = true)
    (hk : stops isIdChar k) : nextTok (c :: cs ++ k) = some (keyword (String.ofList (c :: cs)), k) := by
  have := takeWhile_run hcs hk
  simp only [List.cons_append, nextTok, hc, if_true, this.1, this.2]

theorem stops_of_safe {k : List Char} (h : (match k with | [] => true | c :: _ => !isIdChar c) = true) : stops isIdChar k := by
  intro c r e; subst e; simpa using h

theorem digit_cases (c : Char) (h : c.isDigit = true) :
    c = '0' ∨ c = '1' ∨ c = '2' ∨ c = '3' ∨ c = '4' ∨ c = '5' ∨ c = '6' ∨ c = '7' ∨ c = '8' ∨ c = '9' := by
  have hc : c.val ≥ 48 ∧ c.val ≤ 57 := by simpa [Char.isDigit] using h
  have h1 : 48 ≤ c.toNat ∧ c.toNat ≤ 57 := ⟨hc.1, hc.2⟩
  have e : c = Char.ofNat c.toNat := (Char.ofNat_toNat c).symm
  have : c.toNat = 48 ∨ c.toNat = 49 ∨ c.toNat = 50 ∨ c.toNat = 51 ∨ c.toNat = 52 ∨ c.toNat = 53 ∨ c.toNat = 54 ∨
      c.toNat = 55 ∨ c.toNat = 56 ∨ c.toNat = 57 := by omega
  rcases this with h | h | h | h | h | h | h | h | h | h <;> rw [h] at e <;> simp [e]

theorem digit_props : ∀ c, c.isDigit = true → isIdStart c = false ∧ isIdChar c = true ∧ isWs c = false := by
  intro c h
  rcases digit_cases c h with rfl | rfl | rfl | rfl | rfl | rfl | rfl | rfl | rfl | rfl <;> decide

theorem idStart_not (c : Char) (h : isIdStart c = true) :
    isWs c = false ∧ c.isDigit = false ∧ c ≠ '>' ∧ c ≠ '=' ∧ c ≠ '-' := by
  refine ⟨?_, ?_, ?_, ?_, ?_⟩
  · simp only [isWs, Bool.or_eq_false_iff, beq_eq_false_iff_ne, ne_eq]
    refine ⟨⟨⟨⟨?_, ?_⟩, ?_⟩, ?_⟩, ?_⟩ <;> (intro e; subst e; exact absurd h (by decide))
  · cases hd : c.isDigit with
    | false => rfl
    | true => have := (digit_props c hd).1; rw [h] at this; cases this
  all_goals (intro e; subst e; exact absurd h (by decide))

theorem nameOK_spec {x : String} (h : nameOK x = true) :
    ∃ c cs, x.toList = c :: cs ∧ isIdStart c = true ∧ (∀ d ∈ cs, isIdChar d = true) ∧ keyword x = .id x := by
  unfold nameOK at h
  split at h
  · cases h
  · rename_i c cs hx
    simp only [Bool.and_eq_true, List.all_eq_true, beq_iff_eq] at h
    exact ⟨c, cs, hx, h.1.1, h.1.2, h.2⟩

/-- the lexer reads the characters of `t` followed by `k` as `t`, leaving `k` -/
theorem nextTok_tok (t : Tok) (k : List Char) (ht : tokOK t = true) (hs : safeAfter t k = true) :
    nextTok (tokChars t ++ k) = some (t, k) := by
  cases t with
  | id x =>
    obtain ⟨c, cs, hx, hc, hcs, hkw⟩ := nameOK_spec ht
    have := word_tok hc hcs (stops_of_safe hs) (k := k)
    simp only [tokChars, hx, this]
    rw [← hx, String.ofList_toList, hkw]
  | num n =>
    obtain ⟨h1, h2, h3⟩ := natDigits_spec n
    cases hd : natDigits n with
    | nil => exact absurd hd h3
    | cons c cs =>
      rw [hd] at h1 h2
      have hc := digit_props c (h2 c (by simp))
      have hcd : c.isDigit = true := h2 c (by simp)
      have hk : stops Char.isDigit k := by
        intro d r e; subst e
        have : isIdChar d = false := by simpa [safeAfter] using hs
        cases hdd : d.isDigit with
        | false => rfl
        | true => rw [(digit_props d hdd).2.1] at this; cases this
      have := takeWhile_run (p := Char.isDigit) (l := cs) (k := k) (fun d hd' => h2 d (by simp [hd'])) hk
      simp only [tokChars, hd, List.cons_append, nextTok, hc.1, hcd, if_true, this.1, this.2, h1]
      simp
  | ktrue => exact word_tok (c := 't') (cs := ['r', 'u', 'e']) (by decide) (by decide) (stops_of_safe hs)
  | kif => exact word_tok (c := 'i') (cs := ['f']) (by decide) (by decide) (stops_of_safe hs)
  | kthen => exact word_tok (c := 't') (cs := ['h', 'e', 'n']) (by decide) (by decide) (stops_of_safe hs)
  | kelse => exact word_tok (c := 'e') (cs := ['l', 's', 'e']) (by decide) (by decide) (stops_of_safe hs)
  | kskip => exact word_tok (c := 's') (cs := ['k', 'i', 'p']) (by decide) (by decide) (stops_of_safe hs)
  | kwhile => exact word_tok (c := 'w') (cs := ['h', 'i', 'l', 'e']) (by decide) (by decide) (stops_of_safe hs)
  | kforall => exact word_tok (c := 'f') (cs := ['o', 'r', 'a', 'l', 'l']) (by decide) (by decide) (stops_of_safe hs)
  | bad s => simp [tokOK] at ht
  | minus =>
    have key : symTok ('-' :: k) = some (.minus, k) := by
      match k, hs with
      | [], _ => rfl
      | [a], _ => by_cases ha : a = '-' <;> simp [symTok, ha]
      | a :: b :: r, hs =>
        by_cases ha : a = '-'
        · subst ha
          by_cases hb : b = '>'
          · subst hb; simp [safeAfter] at hs
          · simp [symTok, hb]
        · simp [symTok, ha]
    have h1 : isIdStart '-' = false := by decide
    have h2 : ('-' : Char).isDigit = false := by decide
    simp only [tokChars, List.cons_append, List.nil_append, nextTok, h1, h2, key]
    simp
  | lt =>
    have key : symTok ('<' :: k) = some (.lt, k) := by
      match k, hs with
      | [], _ => rfl
      | a :: r, hs =>
        by_cases ha : a = '='
        · subst ha; simp [safeAfter] at hs
        · simp [symTok, ha]
    have h1 : isIdStart '<' = false := by decide
    have h2 : ('<' : Char).isDigit = false := by decide
    simp only [tokChars, List.cons_append, List.nil_append, nextTok, h1, h2, key]
    simp
  | _ => simp [tokChars, nextTok, symTok, isIdStart, Char.isAlpha, Char.isUpper, Char.isLower, Char.isDigit]

end Holpy.C20
