import Holpy.C20.Proofs
import Holpy.C20.Gen
/-
C20 — the `Sem` predicate and the Hoare rules of library/hoare.json (Gen.lean, regenerated on every
run) against the big-step semantics `Exec`.
-/
namespace Holpy.C20
open Gen Gen.HCom

/-- a guard as a HOL predicate on states -/
def bval (b : Expr) : State → Prop := fun s => evalE s b = some (.bool true)

/-- an assigned expression as a HOL function on states -/
def ival (e : Expr) : State → Int := fun s => match evalE s e with
  | some (.int v) => v
  | _ => 0

/-- the HOL term a program over integer variables denotes in the theory of library/hoare.json -/
def embed : Com → HCom State
  | .skip => Gen.Skip
  | .assign x e => Gen.Assign x (ival e)
  | .seq c1 c2 => Seq (embed c1) (embed c2)
  | .cond b c1 c2 => Cond (bval b) (embed c1) (embed c2)
  | .while b inv c => While (bval b) (bval inv) (embed c)

/-- guards are boolean and assigned expressions are integers in every state (HOL typing) -/
def WS : Com → Prop
  | .skip => True
  | .assign _ e => ∀ s, ∃ v, evalE s e = some (.int v)
  | .seq c1 c2 => WS c1 ∧ WS c2
  | .cond b c1 c2 => (∀ s, ∃ v, evalE s b = some (.bool v)) ∧ WS c1 ∧ WS c2
  | .while b _ c => (∀ s, ∃ v, evalE s b = some (.bool v)) ∧ WS c

theorem gen_upd_eq (s : State) (x : String) (v : Int) : Gen.upd s x v = upd s x v := rfl

theorem not_bval {b s} (hb : ∃ v, evalE s b = some (.bool v)) (h : ¬ bval b s) : evalE s b = some (.bool false) := by
  obtain ⟨v, hv⟩ := hb
  cases v with
  | false => exact hv
  | true => exact absurd hv h

theorem sem_to_exec : ∀ c, WS c → ∀ s s', Sem (embed c) s s' → Exec c s s' := by
  intro c
  induction c with
  | skip =>
    intro _ s s' h
    simp only [embed, Gen.Skip] at h
    cases h
    exact .skip
  | assign x e =>
    intro hw s s' h
    simp only [embed, Gen.Assign] at h
    cases h
    obtain ⟨v, hv⟩ := hw s
    have : ival e s = v := by simp [ival, hv]
    show Exec (Com.assign x e) s (Gen.upd s x (ival e s))
    rw [gen_upd_eq, this]
    exact .assign hv
  | seq c1 c2 ih1 ih2 =>
    intro hw s s' h
    simp only [embed] at h
    cases h with
    | Sem_seq h1 h2 => exact .seq (ih1 hw.1 _ _ h1) (ih2 hw.2 _ _ h2)
  | cond b c1 c2 ih1 ih2 =>
    intro hw s s' h
    simp only [embed] at h
    cases h with
    | Sem_if1 hb h1 => exact .condT hb (ih1 hw.2.1 _ _ h1)
    | Sem_if2 hb h2 => exact .condF (not_bval (hw.1 s) hb) (ih2 hw.2.2 _ _ h2)
  | «while» b inv c ih =>
    intro hw s s' h
    simp only [embed] at h
    have key : ∀ w s s', Sem w s s' → w = While (bval b) (bval inv) (embed c) → Exec (.while b inv c) s s' := by
      intro w s s' hs
      induction hs with
      | Sem_basic => intro e; cases e
      | Sem_seq => intro e; cases e
      | Sem_if1 => intro e; cases e
      | Sem_if2 => intro e; cases e
      | Sem_while_skip hb => intro e; cases e; exact .whileF (not_bval (hw.1 _) hb)
      | Sem_while_loop hb h1 _ _ ih2 =>
        intro e; cases e
        exact .whileT hb (ih hw.2 _ _ h1) (ih2 rfl)
    exact key _ _ _ h rfl

theorem exec_to_sem {c s s'} (h : Exec c s s') : Sem (embed c) s s' := by
  induction h with
  | skip => exact Sem.Sem_basic
  | assign he =>
    rename_i s x e v
    have : upd s x v = Gen.upd s x (ival e s) := by simp [ival, he, gen_upd_eq]
    rw [this]
    exact Sem.Sem_basic
  | seq _ _ ih1 ih2 => exact Sem.Sem_seq ih1 ih2
  | condT hb _ ih => exact Sem.Sem_if1 hb ih
  | condF hb _ ih => exact Sem.Sem_if2 (by simp [bval, hb]) ih
  | whileF hb => exact Sem.Sem_while_skip (by simp [bval, hb])
  | whileT hb _ _ ih1 ih2 => exact Sem.Sem_while_loop hb ih1 ih2

/-! ### the Hoare rules used by `imp.compute_wp` / `imp.vcg` -/

theorem pre_rule_ok : pre_rule_stmt := by
  intro σ P Q R c hE hV s s2 hP hS
  exact hV s s2 (hE s hP) hS

theorem sem_skip_ok : Sem_Skip_stmt := by
  intro σ s; exact Sem.Sem_basic

theorem sem_assign_ok : Sem_Assign_stmt := by
  intro α β _ a b s; exact Sem.Sem_basic

theorem skip_rule_ok : skip_rule_stmt := by
  intro σ P s s2 hP hS
  simp only [Gen.Skip] at hS
  cases hS; exact hP

theorem assign_rule_ok : assign_rule_stmt := by
  intro α β _ P a b s s2 hP hS
  simp only [Gen.Assign] at hS
  cases hS; exact hP

theorem seq_rule_ok : seq_rule_stmt := by
  intro σ P Q R c1 c2 h1 h2 s s2 hP hS
  cases hS with
  | Sem_seq a b => exact h2 _ _ (h1 _ _ hP a) b

theorem if_rule_ok : if_rule_stmt := by
  intro σ P Q R b c1 c2 h1 h2 s s2 hP hS
  cases hS with
  | Sem_if1 hb a => exact h1 _ _ (hP.1 hb) a
  | Sem_if2 hb a => exact h2 _ _ (hP.2 hb) a

theorem while_rule_ok : while_rule_stmt := by
  intro σ I Q b c hE hV s s2 hI hS
  have key : ∀ w s s2, Sem w s s2 → w = While b I c → I s → I s2 ∧ ¬ b s2 := by
    intro w s s2 hs
    induction hs with
    | Sem_basic => intro e; cases e
    | Sem_seq => intro e; cases e
    | Sem_if1 => intro e; cases e
    | Sem_if2 => intro e; cases e
    | Sem_while_skip hb => intro e hi; cases e; exact ⟨hi, hb⟩
    | Sem_while_loop hb h1 _ _ ih2 =>
      intro e hi; cases e
      exact ih2 rfl (hV _ _ ⟨hi, hb⟩ h1)
  exact hE _ (key _ _ _ hS rfl hI)

/-! ### the derivation `eval_Sem` builds -/

/-- `d` is a well-formed derivation of `Sem h s t` from the theorems of library/hoare.json: every node
applies the named theorem to premises of the right form -/
inductive DerivOK : Deriv → HCom State → State → State → Prop where
  | skip {s} : DerivOK .skip Gen.Skip s s
  | assign {x f s} : DerivOK .assign (Gen.Assign x f) s (Gen.upd s x (f s))
  | seq {d1 d2 c1 c2 s s3 s2} : DerivOK d1 c1 s s3 → DerivOK d2 c2 s3 s2 → DerivOK (.seq d1 d2) (Seq c1 c2) s s2
  | if1 {d} {b : State → Prop} {c1 c2 s s2} : b s → DerivOK d c1 s s2 → DerivOK (.if1 d) (Cond b c1 c2) s s2
  | if2 {d} {b : State → Prop} {c1 c2 s s2} : ¬ b s → DerivOK d c2 s s2 → DerivOK (.if2 d) (Cond b c1 c2) s s2
  | whileSkip {b I : State → Prop} {c s} : ¬ b s → DerivOK .whileSkip (While b I c) s s
  | whileLoop {d1 d2} {b I : State → Prop} {c s s3 s2} : b s → DerivOK d1 c s s3 → DerivOK d2 (While b I c) s3 s2 →
      DerivOK (.whileLoop d1 d2) (While b I c) s s2

/-- a well-formed derivation proves its conclusion in the `Sem` of the library -/
theorem derivOK_sound {d h s t} (hd : DerivOK d h s t) : Sem h s t := by
  induction hd with
  | skip => exact sem_skip_ok _
  | assign => exact sem_assign_ok _ _ _
  | seq _ _ ih1 ih2 => exact Sem.Sem_seq ih1 ih2
  | if1 hb _ ih => exact Sem.Sem_if1 hb ih
  | if2 hb _ ih => exact Sem.Sem_if2 hb ih
  | whileSkip hb => exact Sem.Sem_while_skip hb
  | whileLoop hb _ _ ih1 ih2 => exact Sem.Sem_while_loop hb ih1 ih2

theorem evalSem_spec : ∀ n c s d t, evalSem n c s = some (d, t) → DerivOK d (embed c) s t ∧ interp n c s = .ok t := by
  intro n
  induction n with
  | zero => intro c s d t h; simp [evalSem] at h
  | succ n ih =>
    intro c s d t h
    cases c with
    | skip => simp only [evalSem] at h; cases h; exact ⟨.skip, rfl⟩
    | assign x e =>
      simp only [evalSem] at h
      split at h
      · rename_i v hv
        cases h
        refine ⟨?_, by simp [interp, hv]⟩
        have : upd s x v = Gen.upd s x (ival e s) := by simp [ival, hv, gen_upd_eq]
        rw [this]; exact .assign
      · cases h
    | seq c1 c2 =>
      simp only [evalSem] at h
      split at h
      · rename_i d1 s1 h1
        split at h
        · rename_i d2 s2 h2
          cases h
          obtain ⟨a1, b1⟩ := ih _ _ _ _ h1
          obtain ⟨a2, b2⟩ := ih _ _ _ _ h2
          exact ⟨.seq a1 a2, by simp [interp, b1, b2]⟩
        · cases h
      · cases h
    | cond b c1 c2 =>
      simp only [evalSem] at h
      split at h
      · rename_i hb
        split at h
        · rename_i d' s2 h1
          cases h
          obtain ⟨a1, b1⟩ := ih _ _ _ _ h1
          exact ⟨.if1 hb a1, by simp [interp, hb, b1]⟩
        · cases h
      · rename_i hb
        split at h
        · rename_i d' s2 h1
          cases h
          obtain ⟨a1, b1⟩ := ih _ _ _ _ h1
          exact ⟨.if2 (by simp [bval, hb]) a1, by simp [interp, hb, b1]⟩
        · cases h
      · cases h
    | «while» b inv c =>
      simp only [evalSem] at h
      split at h
      · rename_i hb
        split at h
        · rename_i d1 s1 h1
          split at h
          · rename_i d2 s2 h2
            cases h
            obtain ⟨a1, b1⟩ := ih _ _ _ _ h1
            obtain ⟨a2, b2⟩ := ih _ _ _ _ h2
            exact ⟨.whileLoop hb a1 a2, by simp [interp, hb, b1, b2]⟩
          · cases h
        · cases h
      · rename_i hb; cases h; exact ⟨.whileSkip (by simp [bval, hb]), by simp [interp, hb]⟩
      · cases h

theorem evalSem_of_interp : ∀ n c s t, interp n c s = .ok t → ∃ d, evalSem n c s = some (d, t) := by
  intro n
  induction n with
  | zero => intro c s t h; simp [interp] at h
  | succ n ih =>
    intro c s t h
    cases c with
    | skip => simp only [interp] at h; cases h; exact ⟨_, rfl⟩
    | assign x e =>
      simp only [interp] at h
      split at h
      · rename_i v hv; cases h; exact ⟨.assign, by simp [evalSem, hv]⟩
      · cases h
    | seq c1 c2 =>
      rw [interp_seq] at h
      cases h1 : interp n c1 s with
      | ok s1 =>
        rw [h1] at h
        obtain ⟨d1, e1⟩ := ih _ _ _ h1
        obtain ⟨d2, e2⟩ := ih _ _ _ h
        exact ⟨.seq d1 d2, by simp [evalSem, e1, e2]⟩
      | stuck => rw [h1] at h; cases h
      | fuel => rw [h1] at h; cases h
    | cond b c1 c2 =>
      rw [interp_cond] at h
      split at h
      · rename_i hb; obtain ⟨d, e⟩ := ih _ _ _ h; exact ⟨.if1 d, by simp [evalSem, hb, e]⟩
      · rename_i hb; obtain ⟨d, e⟩ := ih _ _ _ h; exact ⟨.if2 d, by simp [evalSem, hb, e]⟩
      · cases h
    | «while» b inv c =>
      rw [interp_while] at h
      split at h
      · rename_i hb
        cases h1 : interp n c s with
        | ok s1 =>
          rw [h1] at h
          obtain ⟨d1, e1⟩ := ih _ _ _ h1
          obtain ⟨d2, e2⟩ := ih _ _ _ h
          exact ⟨.whileLoop d1 d2, by simp [evalSem, hb, e1, e2]⟩
        | stuck => rw [h1] at h; cases h
        | fuel => rw [h1] at h; cases h
      · rename_i hb; cases h; exact ⟨.whileSkip, by simp [evalSem, hb]⟩
      · cases h

end Holpy.C20
