import Holpy.C20.ProofsSem
/-
C20 — well-sortedness is decidable (`tyA`, `tyC`, `wsCom` of Model.lean) and implies the semantic
hypotheses used in Props.lean; the conditions of `imp.vcg` (`vcsH`) imply those of `get_vcs`.
-/
namespace Holpy.C20

theorem ty_sound (s : State) : ∀ e,
    (tyA e = true → ∃ v, evalE s e = some (.int v)) ∧ (tyC e = true → ∃ b, evalE s e = some (.bool b)) := by
  intro e
  induction e with
  | var x => exact ⟨fun _ => ⟨_, rfl⟩, by simp [tyC]⟩
  | int i => exact ⟨fun _ => ⟨_, rfl⟩, by simp [tyC]⟩
  | bool b => exact ⟨by simp [tyA], fun _ => ⟨_, rfl⟩⟩
  | un o a ih =>
    cases o with
    | neg =>
      refine ⟨fun h => ?_, by simp [tyC]⟩
      obtain ⟨v, hv⟩ := ih.1 (by simpa [tyA] using h)
      exact ⟨-v, by simp [evalE, hv, evalUn]⟩
    | not =>
      refine ⟨by simp [tyA], fun h => ?_⟩
      obtain ⟨v, hv⟩ := ih.2 (by simpa [tyC] using h)
      exact ⟨!v, by simp [evalE, hv, evalUn]⟩
  | bin o a b iha ihb =>
    constructor
    · intro h
      have ho : o.isArith = true := by simp [tyA] at h; exact h.1.1
      obtain ⟨v, hv⟩ := iha.1 (by simp [tyA] at h; exact h.1.2)
      obtain ⟨w, hw⟩ := ihb.1 (by simp [tyA] at h; exact h.2)
      cases o <;> simp_all [BOp.isArith, evalE, evalBin]
    · intro h
      cases o <;> simp only [tyC, Bool.or_eq_true, Bool.and_eq_true] at h
      case add | sub | mul => simp at h
      case eq | ne =>
        rcases h with ⟨ha, hb⟩ | ⟨ha, hb⟩
        · obtain ⟨v, hv⟩ := iha.1 ha; obtain ⟨w, hw⟩ := ihb.1 hb; (simp only [evalE, hv, hw]; exact ⟨_, rfl⟩)
        · obtain ⟨v, hv⟩ := iha.2 ha; obtain ⟨w, hw⟩ := ihb.2 hb; (simp only [evalE, hv, hw]; exact ⟨_, rfl⟩)
      case le | lt | ge | gt =>
        obtain ⟨v, hv⟩ := iha.1 h.1; obtain ⟨w, hw⟩ := ihb.1 h.2; (simp only [evalE, hv, hw]; exact ⟨_, rfl⟩)
      case and | or | imp | iff =>
        obtain ⟨v, hv⟩ := iha.2 h.1; obtain ⟨w, hw⟩ := ihb.2 h.2; (simp only [evalE, hv, hw]; exact ⟨_, rfl⟩)
  | fn1 f a ih =>
    refine ⟨fun h => ?_, by simp [tyC]⟩
    cases f with
    | abs => obtain ⟨v, hv⟩ := ih.1 (by simpa [tyA] using h); simp only [evalE, hv]; exact ⟨_, rfl⟩
    | max => simp [tyA] at h
  | fn2 f a b iha ihb =>
    refine ⟨fun h => ?_, by simp [tyC]⟩
    cases f with
    | abs => simp [tyA] at h
    | max =>
      obtain ⟨v, hv⟩ := iha.1 (by simp [tyA] at h; exact h.1)
      obtain ⟨w, hw⟩ := ihb.1 (by simp [tyA] at h; exact h.2)
      simp only [evalE, hv, hw]; exact ⟨_, rfl⟩
  | ite c a b ihc iha ihb =>
    constructor
    · intro h
      simp only [tyA, Bool.and_eq_true] at h
      obtain ⟨vc, hc⟩ := ihc.2 h.1.1
      obtain ⟨v, hv⟩ := iha.1 h.1.2; obtain ⟨w, hw⟩ := ihb.1 h.2
      cases vc <;> simp [evalE, hc, hv, hw]
    · intro h
      simp only [tyC, Bool.and_eq_true] at h
      obtain ⟨vc, hc⟩ := ihc.2 h.1.1
      obtain ⟨v, hv⟩ := iha.2 h.1.2; obtain ⟨w, hw⟩ := ihb.2 h.2
      cases vc <;> simp [evalE, hc, hv, hw]

theorem ws_of_wsCom : ∀ c, wsCom c = true → WS c := by
  intro c
  induction c with
  | skip => intro _; trivial
  | assign x e => intro h s; exact (ty_sound s e).1 (by simpa [wsCom] using h)
  | seq c1 c2 ih1 ih2 => intro h; simp [wsCom] at h; exact ⟨ih1 h.1, ih2 h.2⟩
  | cond b c1 c2 ih1 ih2 =>
    intro h; simp [wsCom] at h
    exact ⟨fun s => (ty_sound s b).2 h.1.1, ih1 h.1.2, ih2 h.2⟩
  | «while» b inv c ih =>
    intro h; simp [wsCom] at h
    exact ⟨fun s => (ty_sound s b).2 h.1, ih h.2⟩

/-! ### `imp.vcg`: its conditions imply those of `get_vcs` -/

theorem valid_of_implies_true {b : Expr} (h : valid (implies etrue b)) : valid b :=
  fun s => holds_implies (h s) rfl

theorem allValid_addVc : ∀ l, allValid (addVcH l) → allValid (addVc l) := by
  intro l
  induction l with
  | nil => intro _; simp [addVc, allValid]
  | cons a t ih =>
    cases t with
    | nil => intro _; simp [addVc, allValid]
    | cons b rest =>
      intro h
      have h1 : valid (implies a b) := h _ (by simp [addVcH])
      have h2 : allValid (addVcH (b :: rest)) := fun v hv => h v (by simp [addVcH]; exact Or.inr hv)
      intro v hv
      simp only [addVc, List.mem_cons] at hv
      rcases hv with rfl | hv
      · unfold mkVc; split
        · rename_i e; subst e; exact valid_of_implies_true h1
        · exact h1
      · exact ih h2 v hv

theorem allValid_getVcs : ∀ a, allValid (getVcsH a) → allValid (getVcs a) := by
  intro a
  induction a with
  | skip pre post => exact allValid_addVc pre
  | assign pre post x e => exact allValid_addVc pre
  | seq pre post a1 a2 ih1 ih2 =>
    intro h
    simp only [getVcsH, getVcs, allValid_append] at h ⊢
    exact ⟨⟨allValid_addVc _ h.1.1, ih1 h.1.2⟩, ih2 h.2⟩
  | cond pre post b a1 a2 ih1 ih2 =>
    intro h
    simp only [getVcsH, getVcs, allValid_append] at h ⊢
    exact ⟨⟨allValid_addVc _ h.1.1, ih1 h.1.2⟩, ih2 h.2⟩
  | «while» pre post b inv a ih =>
    intro h
    simp only [getVcsH, getVcs, allValid_append] at h ⊢
    exact ⟨⟨allValid_addVc _ h.1.1, ih h.1.2⟩, allValid_addVc _ h.2⟩

/-! ### the `== true` shortcut is meaning-preserving; partial correctness only -/

theorem holds_mkVc_iff (a b : Expr) (s : State) : holds s (mkVc a b) ↔ holds s (implies a b) := by
  unfold mkVc
  split
  · rename_i e; subst e
    constructor
    · intro h; unfold holds implies etrue at *; simp [evalE, h, evalBin]
    · intro h; exact holds_implies h rfl
  · exact Iff.rfl

theorem allValid_addVcH : ∀ l, allValid (addVc l) → allValid (addVcH l) := by
  intro l
  induction l with
  | nil => intro _; simp [addVcH, allValid]
  | cons a t ih =>
    cases t with
    | nil => intro _; simp [addVcH, allValid]
    | cons b rest =>
      intro h
      have h1 : valid (mkVc a b) := h _ (by simp [addVc])
      have h2 : allValid (addVc (b :: rest)) := fun v hv => h v (by simp [addVc]; exact Or.inr hv)
      intro v hv
      simp only [addVcH, List.mem_cons] at hv
      rcases hv with rfl | hv
      · exact fun s => (holds_mkVc_iff a b s).mp (h1 s)
      · exact ih h2 v hv

theorem allValid_getVcsH : ∀ a, allValid (getVcs a) → allValid (getVcsH a) := by
  intro a
  induction a with
  | skip pre post => exact allValid_addVcH pre
  | assign pre post x e => exact allValid_addVcH pre
  | seq pre post a1 a2 ih1 ih2 =>
    intro h
    simp only [getVcsH, getVcs, allValid_append] at h ⊢
    exact ⟨⟨allValid_addVcH _ h.1.1, ih1 h.1.2⟩, ih2 h.2⟩
  | cond pre post b a1 a2 ih1 ih2 =>
    intro h
    simp only [getVcsH, getVcs, allValid_append] at h ⊢
    exact ⟨⟨allValid_addVcH _ h.1.1, ih1 h.1.2⟩, ih2 h.2⟩
  | «while» pre post b inv a ih =>
    intro h
    simp only [getVcsH, getVcs, allValid_append] at h ⊢
    exact ⟨⟨allValid_addVcH _ h.1.1, ih h.1.2⟩, allValid_addVcH _ h.2⟩

theorem no_exec_loop (inv : Expr) : ∀ s s', ¬ Exec (.while (.bool true) inv .skip) s s' := by
  intro s s' h
  have key : ∀ w s s', Exec w s s' → w = .while (.bool true) inv .skip → False := by
    intro w s s' hex
    induction hex with
    | skip => intro e; cases e
    | assign => intro e; cases e
    | seq => intro e; cases e
    | condT => intro e; cases e
    | condF => intro e; cases e
    | whileF hb => intro e; cases e; simp [evalE] at hb
    | whileT _ _ _ _ ih2 => intro e; exact ih2 e
  exact key _ _ _ h rfl

/-! ### the statement `imp.vcg` / `vcg_norm` / `vcg_solve` return -/

/-- `A₁ ⟶ … ⟶ Aₙ ⟶ C` -/
def chain (as : List Prop) (concl : Prop) : Prop := as.foldr (fun a acc => a → acc) concl

theorem chain_iff (as : List Prop) (concl : Prop) : chain as concl ↔ ((∀ a ∈ as, a) → concl) := by
  induction as with
  | nil => simp [chain]
  | cons a t ih =>
    simp only [chain, List.foldr] at ih ⊢
    constructor
    · intro h hall; exact ih.mp (h (hall a (List.mem_cons_self ..))) (fun x hx => hall x (List.mem_cons_of_mem _ hx))
    · intro h ha; exact ih.mpr (fun hall => h (by intro x hx; rcases List.mem_cons.mp hx with rfl | hx; exact ha; exact hall x hx))

theorem valid_triple (p q : Expr) (c : Com) (hw : wsCom c = true) (hv : ∀ v ∈ vcsH p c q, valid v) :
    Gen.Valid (bval p) (embed c) (bval q) := by
  intro s s2 hp hsem
  have hex := (sem_to_exec c (ws_of_wsCom c hw) s s2) hsem
  exact wp_sound c [p] q (allValid_getVcs _ hv) s s2 hex
    (holds_mkVc ((allValid_getVcs _ hv) _ (mkVc_mem_getVcs c p q) s) hp)

end Holpy.C20
