import Holpy.C20.Proofs
/-!
C20 — one command object analysed more than once: helper lemmas for `history_vcs_sound` (Props.lean).
-/
namespace Holpy.C20

/-- the chain of conditions `l[0] --> l[1]`, ..., `l[n-1] --> x` carries truth from the head to the last element -/
theorem chain_holds : ∀ (l : List Expr) (x : Expr), allValid (addVc (l ++ [x])) →
    ∀ s, holds s ((l ++ [x]).head?.getD etrue) → holds s x := by
  intro l
  induction l with
  | nil => intro x _ s h; simpa using h
  | cons a l ih =>
    intro x hv s h
    cases l with
    | nil =>
      simp only [List.cons_append, List.nil_append, addVc] at hv
      simp only [List.cons_append, List.head?_cons, Option.getD_some] at h
      exact holds_mkVc (hv _ (by simp) s) h
    | cons b l' =>
      simp only [List.cons_append, addVc] at hv
      simp only [List.cons_append, List.head?_cons, Option.getD_some] at h
      have hb : holds s b := holds_mkVc (hv _ (by simp) s) h
      apply ih x
      · intro v hvm
        exact hv v (by simp only [List.mem_cons]; right; simpa using hvm)
      · simpa using hb

theorem reWpAux_pre_ne (ex : List Expr) (a : ACom) (q : Expr) : ∃ l x, (reWpAux ex a q).pre = l ++ [x] ∧
    l = ex ++ a.pre := by
  cases a <;> simp [reWpAux, ACom.pre]

theorem reWpAux_erase : ∀ (a : ACom) (ex : List Expr) (q : Expr), (reWpAux ex a q).erase = a.erase := by
  intro a
  induction a with
  | skip => intros; rfl
  | assign => intros; rfl
  | seq p q' a1 a2 ih1 ih2 => intro ex q; simp [reWpAux, ACom.erase, ih1, ih2]
  | cond p q' b a1 a2 ih1 ih2 => intro ex q; simp [reWpAux, ACom.erase, ih1, ih2]
  | «while» p q' b inv a ih => intro ex q; simp [reWpAux, ACom.erase, ih]

theorem setPre_erase (l : List Expr) (a : ACom) : (a.setPre l).erase = a.erase := by
  cases a <;> rfl

/-- Soundness of the conditions of an object just analysed, WHATEVER state it was in before. -/
theorem reWp_sound : ∀ (a : ACom) (ex : List Expr) (q : Expr), allValid (getVcs (reWpAux ex a q)) →
    ∀ s s', Exec a.erase s s' → holds s (reWpAux ex a q).ret → holds s' q := by
  intro a
  induction a with
  | skip p q' =>
    intro ex q hv s s' h hw
    cases h
    simp only [reWpAux, getVcs] at hv
    exact chain_holds (ex ++ p) q hv s (by simpa [reWpAux, ACom.ret, ACom.pre] using hw)
  | assign p q' x e =>
    intro ex q hv s s' h hw
    simp only [reWpAux, getVcs] at hv
    have h1 := chain_holds (ex ++ p) _ hv s (by simpa [reWpAux, ACom.ret, ACom.pre] using hw)
    cases h with
    | assign he => unfold holds at *; rw [← evalE_subst he]; exact h1
  | seq p q' a1 a2 ih1 ih2 =>
    intro ex q hv s s' h hw
    simp only [reWpAux, getVcs] at hv
    rw [allValid_append, allValid_append] at hv
    have h1 := chain_holds (ex ++ p) _ hv.1.1 s (by simpa [reWpAux, ACom.ret, ACom.pre] using hw)
    cases h with
    | seq e1 e2 => exact ih2 [] q hv.2 _ _ e2 (ih1 [] _ hv.1.2 _ _ e1 h1)
  | cond p q' b a1 a2 ih1 ih2 =>
    intro ex q hv s s' h hw
    simp only [reWpAux, getVcs] at hv
    rw [allValid_append, allValid_append] at hv
    have h1 := chain_holds (ex ++ p) _ hv.1.1 s (by simpa [reWpAux, ACom.ret, ACom.pre] using hw)
    cases h with
    | condT hb e1 => exact ih1 [] q hv.1.2 _ _ e1 ((holds_ite_true hb).mp h1)
    | condF hb e2 => exact ih2 [] q hv.2 _ _ e2 ((holds_ite_false hb).mp h1)
  | «while» p q' b inv a ih =>
    intro ex q hv s s' h hw
    simp only [reWpAux, getVcs] at hv
    rw [allValid_append, allValid_append] at hv
    obtain ⟨⟨hpre, hbody⟩, hpost⟩ := hv
    have hi0 := chain_holds (ex ++ p) _ hpre s (by simpa [reWpAux, ACom.ret, ACom.pre] using hw)
    have hexit : valid (mkVc (conj inv (neg b)) q) := hpost _ (by simp [addVc])
    -- the body's `pre` list starts with `I & b`: that is what its `compute_wp` returns
    have hret : (reWpAux [conj inv b] a inv).ret = conj inv b := by
      obtain ⟨l, x, hl, hl2⟩ := reWpAux_pre_ne [conj inv b] a inv
      simp [ACom.ret, hl, hl2]
    have key : ∀ w s s', Exec w s s' → w = .while b inv a.erase → holds s inv →
        holds s' inv ∧ evalE s' b = some (.bool false) := by
      intro w s s' hex
      induction hex with
      | skip => intro hw; cases hw
      | assign => intro hw; cases hw
      | seq => intro hw; cases hw
      | condT => intro hw; cases hw
      | condF => intro hw; cases hw
      | whileF hb => intro hw hi; cases hw; exact ⟨hi, hb⟩
      | whileT hb h1 _ _ ih2 =>
        intro hw hi
        cases hw
        have h1' := ih [conj inv b] inv hbody _ _ h1 (by rw [hret]; exact holds_conj.mpr ⟨hi, hb⟩)
        exact ih2 rfl h1'
    obtain ⟨hi, hnb⟩ := key _ _ _ h rfl hi0
    exact holds_mkVc (hexit _) (holds_conj.mpr ⟨hi, holds_neg.mpr hnb⟩)

theorem stepOp_erase (a : ACom) (o : Op) : (stepOp a o).erase = a.erase := by
  cases o <;> simp [stepOp, setPre_erase, reWp, reWpAux_erase]

theorem runOps_erase : ∀ (h : List Op) (a : ACom), (runOps a h).erase = a.erase := by
  intro h
  induction h with
  | nil => intro a; rfl
  | cons o h ih => intro a; simp only [runOps, List.foldl_cons] at *; rw [ih, stepOp_erase]

theorem init_erase : ∀ c : Com, (ACom.init c).erase = c := by
  intro c
  induction c <;> simp_all [ACom.init, ACom.erase]

theorem runOps_readOnly : ∀ (h : List Op) (a : ACom), (∀ o ∈ h, o.readOnly = true) → runOps a h = a := by
  intro h
  induction h with
  | nil => intro a _; rfl
  | cons o h ih =>
    intro a hr
    simp only [runOps, List.foldl_cons]
    have ho := hr o (by simp)
    have : stepOp a o = a := by cases o <;> simp_all [stepOp, Op.readOnly]
    rw [this]
    exact ih a (fun o' ho' => hr o' (by simp [ho']))

/-- `pre` starts with `p` -/
def headIs (p : Expr) (a : ACom) : Prop := ∃ t, a.pre = p :: t

theorem setPre_pre (l : List Expr) (a : ACom) : (a.setPre l).pre = l := by cases a <;> rfl

theorem headIs_step {p : Expr} {a : ACom} (o : Op) (hne : ∀ p', o ≠ .setPre p') (h : headIs p a) :
    headIs p (stepOp a o) := by
  obtain ⟨t, ht⟩ := h
  cases o with
  | setPre p' => exact absurd rfl (hne p')
  | wp q =>
    obtain ⟨l, x, hl, hl2⟩ := reWpAux_pre_ne [] a q
    exact ⟨t ++ [x], by simp [stepOp, reWp, hl, hl2, ht]⟩
  | vcs => exact ⟨t, ht⟩
  | print => exact ⟨t, ht⟩

theorem lastPre_headIs : ∀ (h : List Op) (a : ACom) (acc : Option Expr),
    (∀ p, acc = some p → headIs p a) → ∀ p,
    h.foldl (fun acc o => match o with | .setPre p => some p | _ => acc) acc = some p →
    headIs p (runOps a h) := by
  intro h
  induction h with
  | nil => intro a acc hacc p hp; exact hacc p hp
  | cons o h ih =>
    intro a acc hacc p hp
    simp only [List.foldl_cons, runOps] at hp ⊢
    refine ih (stepOp a o) _ ?_ p hp
    intro p' hp'
    cases o with
    | setPre p0 =>
      simp only [Option.some.injEq] at hp'
      subst hp'
      exact ⟨[], by simp [stepOp, setPre_pre]⟩
    | wp q => exact headIs_step _ (by intro _ h; cases h) (hacc p' hp')
    | vcs => exact headIs_step _ (by intro _ h; cases h) (hacc p' hp')
    | print => exact headIs_step _ (by intro _ h; cases h) (hacc p' hp')

theorem headIs_ret {p : Expr} {a : ACom} (h : headIs p a) : a.ret = p := by
  obtain ⟨t, ht⟩ := h
  simp [ACom.ret, ht]

/-- a fresh object analysed once is the fresh-object model `computeWp` -/
theorem reWpAux_init : ∀ (c : Com) (ex : List Expr) (q : Expr),
    reWpAux ex (ACom.init c) q = computeWp c ex q := by
  intro c
  induction c with
  | skip => intros; simp [ACom.init, reWpAux, computeWp]
  | assign => intros; simp [ACom.init, reWpAux, computeWp]
  | seq c1 c2 ih1 ih2 => intro ex q; simp [ACom.init, reWpAux, computeWp, ih1, ih2]
  | cond b c1 c2 ih1 ih2 => intro ex q; simp [ACom.init, reWpAux, computeWp, ih1, ih2]
  | «while» b inv c ih => intro ex q; simp [ACom.init, reWpAux, computeWp, ih]

end Holpy.C20
