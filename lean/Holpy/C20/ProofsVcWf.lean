import Holpy.C20.Proofs
/-
C20 — every condition `get_vcs` produces for a program of the assertion language is again a condition of
the assertion language over identifiers (so the print / parse theorems apply to every VC shown).
-/
namespace Holpy.C20

theorem subst_wf (x : String) (e : Expr) (he : wfA e = true) : ∀ a,
    (wfA a = true → wfA (subst x e a) = true) ∧ (wfC a = true → wfC (subst x e a) = true) := by
  intro a
  induction a with
  | var y => refine ⟨fun _ => ?_, by simp [wfC]⟩; simp only [subst]; split <;> simp [wfA, he]
  | int i => exact ⟨fun _ => rfl, by simp [wfC]⟩
  | bool b => exact ⟨by simp [wfA], fun h => h⟩
  | un o a ih => cases o <;> simp_all [subst, wfA, wfC]
  | bin o a b iha ihb =>
    constructor
    · intro h; simp only [wfA, Bool.and_eq_true] at h; simp [subst, wfA, h.1.1, iha.1 h.1.2, ihb.1 h.2]
    · intro h
      simp only [wfC, Bool.or_eq_true, Bool.and_eq_true] at h
      rcases h with h | h
      · simp [subst, wfC, h.1.1, iha.1 h.1.2, ihb.1 h.2]
      · simp [subst, wfC, h.1.1, iha.2 h.1.2, ihb.2 h.2]
  | fn1 f a ih => simp_all [subst, wfA, wfC]
  | fn2 f a b iha ihb => simp_all [subst, wfA, wfC]
  | ite c a b ihc iha ihb => simp_all [subst, wfA, wfC]

theorem subst_names (x : String) (e : Expr) (he : namesOK e = true) : ∀ a, namesOK a = true → namesOK (subst x e a) = true := by
  intro a
  induction a with
  | var y => intro h; simp only [subst]; split <;> simp_all [namesOK]
  | un o a ih => simpa [subst, namesOK] using ih
  | bin o a b iha ihb => intro h; simp only [namesOK, Bool.and_eq_true] at h; simp [subst, namesOK, iha h.1, ihb h.2]
  | fn1 f a ih => simpa [subst, namesOK] using ih
  | fn2 f a b iha ihb => intro h; simp only [namesOK, Bool.and_eq_true] at h; simp [subst, namesOK, iha h.1, ihb h.2]
  | ite c a b ihc iha ihb =>
    intro h; simp only [namesOK, Bool.and_eq_true] at h; simp [subst, namesOK, ihc h.1.1, iha h.1.2, ihb h.2]
  | _ => intro h; simpa [subst] using h

theorem okE_implies {a b} (ha : okE a = true) (hb : okE b = true) : okE (implies a b) = true := by
  simp only [okE, Bool.and_eq_true] at *
  simp [implies, wfC, namesOK, BOp.isRel, BOp.boolPrio, ha.1, ha.2, hb.1, hb.2]

theorem okE_conj {a b} (ha : okE a = true) (hb : okE b = true) : okE (conj a b) = true := by
  simp only [okE, Bool.and_eq_true] at *
  simp [conj, wfC, namesOK, BOp.isRel, BOp.boolPrio, ha.1, ha.2, hb.1, hb.2]

theorem okE_neg {a} (ha : okE a = true) : okE (neg a) = true := by
  simp only [okE, Bool.and_eq_true] at *
  simp [neg, wfC, namesOK, ha.1, ha.2]

theorem okE_ite {c a b} (hc : okE c = true) (ha : okE a = true) (hb : okE b = true) : okE (.ite c a b) = true := by
  simp only [okE, Bool.and_eq_true] at *
  simp [wfC, namesOK, hc.1, hc.2, ha.1, ha.2, hb.1, hb.2]

theorem okE_mkVc {a b} (ha : okE a = true) (hb : okE b = true) : okE (mkVc a b) = true := by
  unfold mkVc; split
  · exact hb
  · exact okE_implies ha hb

theorem okE_addVc : ∀ l : List Expr, (∀ x ∈ l, okE x = true) → ∀ v ∈ addVc l, okE v = true := by
  intro l
  induction l with
  | nil => intro _ v hv; simp [addVc] at hv
  | cons a t ih =>
    cases t with
    | nil => intro _ v hv; simp [addVc] at hv
    | cons b rest =>
      intro h v hv
      simp only [addVc, List.mem_cons] at hv
      rcases hv with rfl | hv
      · exact okE_mkVc (h a (by simp)) (h b (by simp))
      · exact ih (fun x hx => h x (List.mem_cons_of_mem _ hx)) v hv

theorem wpE_ok : ∀ c q, okCom c = true → okE q = true → okE (wpE c q) = true := by
  intro c
  induction c with
  | skip => intro q _ hq; exact hq
  | assign x e =>
    intro q hc hq
    simp only [okCom, Bool.and_eq_true] at hc
    simp only [okE, Bool.and_eq_true] at hq ⊢
    exact ⟨(subst_wf x e hc.1 q).2 hq.1, subst_names x e hc.2 q hq.2⟩
  | seq c1 c2 ih1 ih2 =>
    intro q hc hq
    simp only [okCom, Bool.and_eq_true] at hc
    exact ih1 _ hc.1 (ih2 q hc.2 hq)
  | cond b c1 c2 ih1 ih2 =>
    intro q hc hq
    simp only [okCom, Bool.and_eq_true] at hc
    exact okE_ite hc.1.1 (ih1 q hc.1.2 hq) (ih2 q hc.2 hq)
  | «while» b inv c _ =>
    intro q hc _
    simp only [okCom, Bool.and_eq_true] at hc
    exact hc.1.2

theorem vcs_ok : ∀ c pre0 q, okCom c = true → okE q = true → (∀ x ∈ pre0, okE x = true) →
    ∀ v ∈ getVcs (computeWp c pre0 q), okE v = true := by
  intro c
  induction c with
  | skip =>
    intro pre0 q _ hq hp v hv
    exact okE_addVc _ (by intro x hx; rcases List.mem_append.mp hx with h | h; exact hp x h; simp at h; subst h; exact hq) v hv
  | assign x e =>
    intro pre0 q hc hq hp v hv
    have hw := wpE_ok (.assign x e) q hc hq
    exact okE_addVc _ (by intro y hy; rcases List.mem_append.mp hy with h | h; exact hp y h; simp at h; subst h; exact hw) v hv
  | seq c1 c2 ih1 ih2 =>
    intro pre0 q hc hq hp v hv
    have hw := wpE_ok (.seq c1 c2) q hc hq
    simp only [okCom, Bool.and_eq_true] at hc
    simp only [computeWp, getVcs, computeWp_ret_nil, List.mem_append] at hv
    rcases hv with (hv | hv) | hv
    · exact okE_addVc _ (by intro y hy; rcases List.mem_append.mp hy with h | h; exact hp y h; simp at h; subst h; exact hw) v hv
    · exact ih1 [] _ hc.1 (wpE_ok c2 q hc.2 hq) (by simp) v hv
    · exact ih2 [] q hc.2 hq (by simp) v hv
  | cond b c1 c2 ih1 ih2 =>
    intro pre0 q hc hq hp v hv
    have hw := wpE_ok (.cond b c1 c2) q hc hq
    simp only [okCom, Bool.and_eq_true] at hc
    simp only [computeWp, getVcs, computeWp_ret_nil, List.mem_append] at hv
    rcases hv with (hv | hv) | hv
    · exact okE_addVc _ (by intro y hy; rcases List.mem_append.mp hy with h | h; exact hp y h; simp at h; subst h; exact hw) v hv
    · exact ih1 [] q hc.1.2 hq (by simp) v hv
    · exact ih2 [] q hc.2 hq (by simp) v hv
  | «while» b inv c ih =>
    intro pre0 q hc hq hp v hv
    simp only [okCom, Bool.and_eq_true] at hc
    simp only [computeWp, getVcs, List.mem_append] at hv
    rcases hv with (hv | hv) | hv
    · exact okE_addVc _ (by intro y hy; rcases List.mem_append.mp hy with h | h; exact hp y h; simp at h; subst h; exact hc.1.2) v hv
    · exact ih [conj inv b] inv hc.2 hc.1.2 (by intro y hy; simp at hy; subst hy; exact okE_conj hc.1.2 hc.1.1) v hv
    · exact okE_addVc _ (by intro y hy; simp at hy; rcases hy with rfl | rfl; exact okE_conj hc.1.2 (okE_neg hc.1.1); exact hq) v hv

end Holpy.C20
