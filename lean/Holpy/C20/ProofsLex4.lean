import Holpy.C20.ProofsLex3
/-
C20 — `lex (pp e) = some (toks e)` (part 4 of the helper lemmas for `lex_print`).
-/
namespace Holpy.C20

theorem okK_tok (k : List Char) (t : Tok) (l : List Item) :
    okK k (.tok t :: l) = (tokOK t && safeAfter t (render l ++ k) && okK k l) := rfl

theorem okK_sp (k : List Char) (l : List Item) : okK k (Item.sp :: l) = okK k l := rfl

theorem safe_minus_start {cs : List Char} (h : startOK cs) : safeAfter .minus cs = true := by
  obtain ⟨c, r, rfl, h1, h2⟩ := h
  by_cases hc : c = '-'
  · subst hc
    obtain ⟨d, r', rfl, hd⟩ := h2 rfl
    simp [safeAfter, hd]
  · simp [safeAfter, hc]

/-- a token followed by a blank is read as itself -/
theorem safe_sp (t : Tok) (ht : tokOK t = true) (r : List Char) : safeAfter t (' ' :: r) = true :=
  safe_benign t ht _ (benign_sp r)

theorem okK_paren {l : List Item} (hl : ∀ k, benign k = true → okK k l = true) (b : Bool) :
    ∀ k, benign k = true → okK k (parenI b l) = true := by
  intro k hk
  cases b with
  | false => exact hl k hk
  | true =>
    simp only [parenI, if_true, okK_tok, okK_append, render, Item.chars, tokChars, List.append_nil, List.cons_append,
      List.nil_append, okK, Bool.and_true]
    simp [tokOK, safeAfter, hl _ (benign_rp k)]

theorem items_ok : ∀ e, lexOK e = true → ∀ k, benign k = true → okK k (items e) = true := by
  intro e
  induction e with
  | var x =>
    intro h k hk
    have hx : nameOK x = true := by simpa [lexOK] using h
    simp only [items, okK, render, List.nil_append, Bool.and_true]
    simp [tokOK, hx, safe_benign (.id x) (by simpa [tokOK] using hx) k hk]
  | int i =>
    intro _ k hk
    by_cases hi : i < 0
    · obtain ⟨c, r, hc, h1, h2⟩ := startOK_digits i.natAbs k
      simp only [items, hi, if_true, okK, render, Item.chars, List.append_nil, List.nil_append, Bool.and_true, tokChars]
      rw [hc]
      simp [tokOK, safe_minus_start (startOK_lit r h1 h2), safe_benign (.num i.natAbs) rfl k hk]
    · simp only [items, hi, if_false, okK, render, List.nil_append, Bool.and_true]
      simp [tokOK, safe_benign (.num i.toNat) rfl k hk]
  | bool b =>
    intro _ k hk
    cases b with
    | true => simp [items, okK, render, tokOK, safe_benign .ktrue rfl k hk]
    | false =>
      have hn : nameOK "false" = true := by decide
      simp [items, okK, render, tokOK, hn, safe_benign (.id "false") (by simpa [tokOK] using hn) k hk]
  | un o a iha =>
    intro h k hk
    have ha := iha (by simpa [lexOK] using h)
    cases o with
    | not =>
      simp only [items, okK_tok]
      simp [tokOK, safeAfter, okK_paren ha (parNot a) k hk]
    | neg =>
      simp only [items, okK_tok]
      have hs : startOK (render (parenI (parNeg a) (items a)) ++ k) := by
        apply startOK_append
        by_cases hp : parNeg a = true
        · simp only [parenI, hp, if_true, render_tok, tokChars, List.cons_append, List.nil_append]
          exact startOK_lit _ (by decide) (by decide)
        · simp only [parenI, hp]
          exact startOK_items a (by simpa [lexOK] using h)
      simp [tokOK, safe_minus_start hs, okK_paren ha (parNeg a) k hk]
  | bin o a b iha ihb =>
    intro h k hk
    simp only [lexOK, Bool.and_eq_true] at h
    have hop := tokOK_op h.1.1
    simp only [items, okK_append, okK_sp, okK_tok, render_sp, render_tok, List.cons_append]
    simp [hop, safe_sp _ hop, okK_paren (iha h.1.2) (parL o a) _ (benign_sp _), okK_paren (ihb h.2) (parR o b) k hk]
  | fn1 f a iha =>
    intro h k hk
    have hf := nameOK_fn f
    simp only [items, okK_tok, okK_append, render_tok, tokChars, List.cons_append, List.nil_append, render, Item.chars, List.append_nil, okK, Bool.and_true]
    simp [tokOK, hf, safeAfter, iha (by simpa [lexOK] using h) _ (benign_rp k)]
    decide
  | fn2 f a b iha ihb =>
    intro h k hk
    simp only [lexOK, Bool.and_eq_true] at h
    have hf := nameOK_fn f
    simp only [items, okK_tok, okK_append, render_tok, tokChars, List.cons_append, List.nil_append, render, Item.chars, List.append_nil, okK, Bool.and_true,
      render_append, List.append_assoc]
    simp [tokOK, hf, safeAfter, iha h.1 _ (benign_comma _), ihb h.2 _ (benign_rp k)]
    decide
  | ite c a b ihc iha ihb =>
    intro h k hk
    simp only [lexOK, Bool.and_eq_true] at h
    simp only [items, okK_tok, okK_sp, okK_append, render_sp, render_tok, List.cons_append, render_append]
    simp [tokOK, safe_sp .kif rfl, safe_sp .kthen rfl, safe_sp .kelse rfl, ihc h.1.1 _ (benign_sp _), iha h.1.2 _ (benign_sp _), ihb h.2 k hk]

theorem tokensOf_paren (b : Bool) (l : List Item) : tokensOf (parenI b l) = parenT b (tokensOf l) := by
  cases b <;> simp [parenI, parenT, tokensOf, tokensOf_append]

theorem tokensOf_items : ∀ e, tokensOf (items e) = toks e := by
  intro e
  induction e with
  | var x => rfl
  | int i => by_cases hi : i < 0 <;> simp [items, toks, hi, tokensOf]
  | bool b => cases b <;> rfl
  | un o a ih => cases o <;> simp [items, toks, tokensOf, tokensOf_paren, ih]
  | bin o a b iha ihb => simp [items, toks, tokensOf, tokensOf_append, tokensOf_paren, iha, ihb]
  | fn1 f a ih => simp [items, toks, tokensOf, tokensOf_append, ih]
  | fn2 f a b iha ihb => simp [items, toks, tokensOf, tokensOf_append, iha, ihb]
  | ite c a b ihc iha ihb => simp [items, toks, tokensOf, tokensOf_append, ihc, iha, ihb]

theorem tokChars_pos (t : Tok) (ht : tokOK t = true) : 0 < (tokChars t).length := by
  obtain ⟨c, r, h, _⟩ := tok_first t ht
  simp [h]

theorem tokens_le_chars : ∀ l k, okK k l = true → (tokensOf l).length ≤ (render l).length := by
  intro l
  induction l with
  | nil => intro k _; simp [tokensOf, render]
  | cons i l ih =>
    intro k h
    cases i with
    | ws nl n => have := ih k (by simpa [okK] using h); simp [tokensOf, render]; omega
    | tok t =>
      simp only [okK, Bool.and_eq_true] at h
      have := ih k h.2
      have := tokChars_pos t h.1.1
      simp [tokensOf, render, Item.chars]; omega

/-- lexing a rendered item list that is `okK` gives its tokens -/
theorem lex_render {l : List Item} (h : okK [] l = true) : lex (String.ofList (render l)) = some (tokensOf l) := by
  have := tokens_le_chars l [] h
  simp only [lex, String.toList_ofList, String.length_ofList]
  exact lexF_items l _ h (by omega)

theorem lexOK_of_wf : ∀ e, namesOK e = true → (wfA e = true → lexOK e = true) ∧ (wfC e = true → lexOK e = true) := by
  intro e
  induction e with
  | var x => intro h; exact ⟨fun _ => h, fun _ => h⟩
  | int i => intro _; exact ⟨fun _ => rfl, fun _ => rfl⟩
  | bool b => intro _; exact ⟨fun _ => rfl, fun _ => rfl⟩
  | un o a ih =>
    intro h
    have := ih (by simpa [namesOK] using h)
    cases o <;> simp_all [wfA, wfC, lexOK]
  | bin o a b iha ihb =>
    intro h
    simp only [namesOK, Bool.and_eq_true] at h
    have ha := iha h.1
    have hb := ihb h.2
    constructor
    · intro hw
      simp only [wfA, Bool.and_eq_true] at hw
      simp [lexOK, opOK, hw.1.1, ha.1 hw.1.2, hb.1 hw.2]
    · intro hw
      simp only [wfC, Bool.or_eq_true, Bool.and_eq_true] at hw
      rcases hw with hw | hw
      · simp [lexOK, opOK, hw.1.1, ha.1 hw.1.2, hb.1 hw.2]
      · simp [lexOK, opOK, hw.1.1, ha.2 hw.1.2, hb.2 hw.2]
  | fn1 f a ih => intro h; have := ih (by simpa [namesOK] using h); simp_all [wfA, wfC, lexOK]
  | fn2 f a b iha ihb =>
    intro h
    simp only [namesOK, Bool.and_eq_true] at h
    have := iha h.1; have := ihb h.2
    simp_all [wfA, wfC, lexOK]
  | ite c a b ihc iha ihb =>
    intro h
    simp only [namesOK, Bool.and_eq_true] at h
    have := ihc h.1.1; have := iha h.1.2; have := ihb h.2
    simp_all [wfA, wfC, lexOK]

theorem lex_pp {e : Expr} (h : lexOK e = true) : lex (pp e) = some (toks e) := by
  rw [← tokensOf_items e]
  exact lex_render (items_ok e h [] rfl)

end Holpy.C20
