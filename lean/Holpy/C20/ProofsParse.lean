import Holpy.C20.Model
/-
C20 — printing followed by parsing (token level): helper lemmas for `print_parse_*` in Props.lean.
-/
namespace Holpy.C20

theorem pImp_eq (n ts) : pImp (n + 1) ts = andThen (pDisj n ts) (contTok .arrow .imp (pImp n)) := by simp only [pImp]
theorem pDisj_eq (n ts) : pDisj (n + 1) ts = andThen (pConj n ts) (contTok .bar .or (pDisj n)) := by simp only [pDisj]
theorem pConj_eq (n ts) : pConj (n + 1) ts = andThen (pNeg n ts) (contTok .amp .and (pConj n)) := by simp only [pConj]
theorem pNeg_tilde (n r) : pNeg (n + 1) (.tilde :: r) = unRes .not isCondE (pCmp n r) := by simp only [pNeg]
theorem pNeg_other (n ts) (h : ∀ r, ts ≠ .tilde :: r) : pNeg (n + 1) ts = pCmp n ts := by
  simp only [pNeg]
theorem pCmp_eq (n ts) : pCmp (n + 1) ts = andThen (pArith n ts) (contRel (pArith n)) := by simp only [pCmp]
theorem pArith_minus (n r) : pArith (n + 1) (.minus :: r) = unRes .neg isArithE (pArith n r) := by simp only [pArith]
theorem pArith_other (n ts) (h : ∀ r, ts ≠ .minus :: r) :
    pArith (n + 1) ts = andThen (pPrim n ts) (contArith (pArith n)) := by
  simp only [pArith]
theorem pPrim_fn (n f r) : pPrim (n + 1) (.id f :: .lp :: r) = fnRes f (pArith n) r := by simp only [pPrim]
theorem pPrim_id (n x r) (h : ∀ r', r ≠ .lp :: r') : pPrim (n + 1) (.id x :: r) = some (.var x, r) := by
  simp only [pPrim]
theorem pPrim_num (n k r) : pPrim (n + 1) (.num k :: r) = some (.int (Int.ofNat k), r) := by simp only [pPrim]
theorem pPrim_true (n r) : pPrim (n + 1) (.ktrue :: r) = some (.bool true, r) := by simp only [pPrim]
theorem pPrim_if (n r) : pPrim (n + 1) (.kif :: r) = iteRes (pImp n) r := by simp only [pPrim]
theorem pPrim_lp (n r) : pPrim (n + 1) (.lp :: r) = parenRes (pImp n r) := by simp only [pPrim]

def cost : Expr → Nat
  | .un _ a => cost a + 16
  | .bin _ a b => cost a + cost b + 16
  | .fn1 _ a => cost a + 16
  | .fn2 _ a b => cost a + cost b + 16
  | .ite c a b => cost c + cost a + cost b + 16
  | _ => 16

def okA : List Tok → Bool
  | [] => true
  | t :: _ => t == .eqeq || t == .neq || t == .le || t == .lt || t == .comma || t == .rp || t == .amp ||
      t == .bar || t == .arrow || t == .kthen || t == .kelse || t == .semi || t == .rbrace || t == .rbrack

theorem evalE_normNeg (s : State) : ∀ e, evalE s (normNeg e) = evalE s e := by
  intro e
  induction e with
  | var x => rfl
  | int i =>
    simp only [normNeg]
    split
    · simp [evalE, evalUn]
    · rfl
  | bool b => rfl
  | un o a ih => simp only [normNeg, evalE, ih]
  | bin o a b iha ihb => simp only [normNeg, evalE, iha, ihb]
  | fn1 f a ih => simp only [normNeg, evalE, ih]
  | fn2 f a b iha ihb => simp only [normNeg, evalE, iha, ihb]
  | ite c a b ihc iha ihb => simp only [normNeg, evalE, ihc, iha, ihb]

theorem isArithE_normNeg : ∀ e, wfA e = true → isArithE (normNeg e) = true := by
  intro e h
  cases e with
  | int i => simp only [normNeg]; split <;> rfl
  | un o a => cases o <;> simp_all [wfA, normNeg, isArithE]
  | bin o a b => cases o <;> simp_all [wfA, normNeg, isArithE, BOp.isArith]
  | _ => simp_all [wfA, normNeg, isArithE]

theorem fnOf_str (f : Fn) : fnOf f.str = some f := by cases f <;> rfl


/-- tokens that may follow a condition parsed at level `j` (0 imp, 1 disj, 2 conj, 3 neg, 4 atom) -/
def stopC (j : Nat) (t : Tok) : Bool :=
  t == .rp || t == .kthen || t == .kelse || t == .rbrack || (decide (1 ≤ j) && t == .arrow) ||
  (decide (2 ≤ j) && t == .bar) || (decide (3 ≤ j) && t == .amp)

def okC (j : Nat) : List Tok → Bool
  | [] => true
  | t :: _ => stopC j t

theorem okA_nolp {r} (h : okA r = true) : ∀ r', r ≠ .lp :: r' := by
  intro r' e; subst e; simp [okA] at h

theorem okA_noArith {r} (h : okA r = true) : ∀ t r', r = t :: r' → arithOf t = none := by
  intro t r' e; subst e
  cases t <;> simp_all [okA, arithOf]

theorem okC_okA {j r} (h : okC j r = true) : okA r = true := by
  cases r with
  | nil => rfl
  | cons t r' => cases t <;> simp_all [okC, stopC, okA]

theorem okC_noRel {j r} (h : okC j r = true) : ∀ t r', r = t :: r' → relOf t = none := by
  intro t r' e; subst e
  cases t <;> simp_all [okC, stopC, relOf]

theorem okC_mono {j k r} (h : okC j r = true) (hjk : j ≤ k) : okC k r = true := by
  cases r with
  | nil => rfl
  | cons t r' =>
    cases t <;> simp_all [okC, stopC] <;> omega

theorem contArith_stop {rec a r} (h : ∀ t r', r = t :: r' → arithOf t = none) : contArith rec a r = some (a, r) := by
  cases r with
  | nil => rfl
  | cons t r' => simp [contArith, h t r' rfl]

theorem contRel_stop {rec a r} (h : ∀ t r', r = t :: r' → relOf t = none) : contRel rec a r = some (a, r) := by
  cases r with
  | nil => rfl
  | cons t r' => simp [contRel, h t r' rfl]

theorem contTok_stop {tok o rec a r} (h : ∀ r', r ≠ tok :: r') : contTok tok o rec a r = some (a, r) := by
  cases r with
  | nil => rfl
  | cons t r' =>
    simp only [contTok]
    split
    · rename_i e; exact absurd (by rw [e]) (h r')
    · rfl

theorem contTok_go {tok o rec a r} : contTok tok o rec a (tok :: r) = binRes o isCondE a (rec r) := by
  simp [contTok]

def okI (r : List Tok) : Bool := okC 0 r

theorem okI_facts {r} (h : okI r = true) :
    (∀ r', r ≠ .amp :: r') ∧ (∀ r', r ≠ .bar :: r') ∧ (∀ r', r ≠ .arrow :: r') := by
  cases r with
  | nil => simp
  | cons t r' => cases t <;> simp_all [okI, okC, stopC]

theorem okC_noAmp {j r} (h : okC j r = true) (hj : j ≤ 2) : ∀ r', r ≠ .amp :: r' := by
  intro r' e; subst e; simp [okC, stopC] at h; omega
theorem okC_noBar {j r} (h : okC j r = true) (hj : j ≤ 1) : ∀ r', r ≠ .bar :: r' := by
  intro r' e; subst e; simp [okC, stopC] at h; omega
theorem okC_noArrow {j r} (h : okC j r = true) (hj : j = 0) : ∀ r', r ≠ .arrow :: r' := by
  intro r' e; subst e; simp [okC, stopC] at h; omega

/-- parser of level `j` -/
def P : Nat → Nat → List Tok → PRes
  | 0 => pImp | 1 => pDisj | 2 => pConj | 3 => pNeg | _ => pCmp

/-- a result of the atom level is passed up unchanged through the levels whose operator does not follow -/
theorem lift_from_cmp {n ts a r} (h : pCmp n ts = some (a, r)) (ht : ∀ r', ts ≠ .tilde :: r') :
    ∀ j, j ≤ 4 → okC j r = true → P j (n + (4 - j)) ts = some (a, r) := by
  have h3 : pNeg (n + 1) ts = some (a, r) := by rw [pNeg_other _ _ ht]; exact h
  intro j hj hok
  have h2 : j ≤ 2 → pConj (n + 2) ts = some (a, r) := by
    intro hj2; rw [pConj_eq, h3]; exact contTok_stop (okC_noAmp hok hj2)
  have h1 : j ≤ 1 → pDisj (n + 3) ts = some (a, r) := by
    intro hj1; rw [pDisj_eq, h2 (by omega)]; exact contTok_stop (okC_noBar hok hj1)
  have h0 : j = 0 → pImp (n + 4) ts = some (a, r) := by
    intro hj0; rw [pImp_eq, h1 (by omega)]; exact contTok_stop (okC_noArrow hok hj0)
  match j, hj with
  | 0, _ => exact h0 rfl
  | 1, _ => exact h1 (by omega)
  | 2, _ => exact h2 (by omega)
  | 3, _ => exact h3
  | 4, _ => exact h

theorem cmp_of_arith {n ts a r} (h : pArith n ts = some (a, r)) (hr : ∀ t r', r = t :: r' → relOf t = none) :
    pCmp (n + 1) ts = some (a, r) := by
  rw [pCmp_eq, h]; exact contRel_stop hr

theorem arith_of_prim {n ts a r} (h : pPrim n ts = some (a, r)) (hm : ∀ r', ts ≠ .minus :: r')
    (hr : ∀ t r', r = t :: r' → arithOf t = none) : pArith (n + 1) ts = some (a, r) := by
  rw [pArith_other _ _ hm, h]; exact contArith_stop hr


theorem imp_of_arith {k ts a r} (h : pArith k ts = some (a, r)) (hr : okI r = true)
    (ht : ∀ r', ts ≠ .tilde :: r') : pImp (k + 5) ts = some (a, r) :=
  lift_from_cmp (cmp_of_arith h (okC_noRel hr)) ht 0 (by omega) hr

theorem paren_prim {k ts a rest} (h : pImp k (ts ++ .rp :: rest) = some (a, .rp :: rest)) :
    pPrim (k + 1) (.lp :: ts ++ .rp :: rest) = some (a, rest) := by
  rw [List.cons_append, pPrim_lp, h]; rfl

theorem paren_arith {k ts a rest} (h : pImp k (ts ++ .rp :: rest) = some (a, .rp :: rest))
    (hr : okA rest = true) : pArith (k + 2) (.lp :: ts ++ .rp :: rest) = some (a, rest) :=
  arith_of_prim (paren_prim h) (by intro r' e; cases e) (okA_noArith hr)

def firstTok : Expr → Tok
  | .var x => .id x
  | .int i => if i < 0 then .minus else .num i.toNat
  | .bool b => if b then .ktrue else .id "false"
  | .un .neg _ => .minus
  | .un .not _ => .tilde
  | .bin o a _ => if parL o a then .lp else firstTok a
  | .fn1 f _ => .id f.str
  | .fn2 f _ _ => .id f.str
  | .ite _ _ _ => .kif

theorem toks_cons : ∀ e, ∃ tl, toks e = firstTok e :: tl := by
  intro e
  induction e with
  | var x => exact ⟨[], rfl⟩
  | int i => by_cases hi : i < 0 <;> simp [toks, firstTok, hi]
  | bool b => cases b <;> simp [toks, firstTok]
  | un o a _ => cases o <;> simp [toks, firstTok]
  | bin o a b iha _ =>
    by_cases hp : parL o a = true
    · simp [toks, firstTok, hp, parenT]
    · obtain ⟨tl, h⟩ := iha
      simp [toks, firstTok, hp, parenT, h]
  | fn1 f a _ => simp [toks, firstTok]
  | fn2 f a b _ _ => simp [toks, firstTok]
  | ite c a b _ _ _ => simp [toks, firstTok]

theorem toks_ne {e : Expr} {t : Tok} (h : firstTok e ≠ t) (r r' : List Tok) : toks e ++ r ≠ t :: r' := by
  obtain ⟨tl, htl⟩ := toks_cons e
  rw [htl]; intro e'; injection e' with e1 _; exact h e1

/-- atomic arithmetic expression: variable, non-negative constant or function application -/
def atomA (e : Expr) : Bool := !isArithOp e && !isNegConst e

theorem firstTok_A : ∀ e, wfA e = true → firstTok e ≠ .tilde ∧ firstTok e ≠ .amp ∧
    (atomA e = true → firstTok e ≠ .minus ∧ firstTok e ≠ .lp) := by
  intro e
  induction e with
  | var x => intro _; simp [firstTok]
  | int i => intro _; by_cases hi : i < 0 <;> simp [firstTok, hi, atomA, isNegConst, isArithOp]
  | bool b => intro h; simp [wfA] at h
  | un o a _ => intro h; cases o <;> simp_all [wfA, firstTok, atomA, isArithOp]
  | bin o a b iha _ =>
    intro h
    have ho : o.isArith = true := by simp [wfA] at h; exact h.1.1
    have ha : wfA a = true := by simp [wfA] at h; exact h.1.2
    by_cases hp : parL o a = true
    · simp [firstTok, hp, atomA, isArithOp, ho]
    · have hat : atomA a = true := by
        simp only [parL, ho, if_true] at hp
        simp only [atomA]
        cases h1 : isArithOp a <;> cases h2 : isNegConst a <;> simp_all
      have := iha ha
      simp [firstTok, hp, atomA, isArithOp, ho, this.1, this.2.1]
  | fn1 f a _ => intro _; simp [firstTok]
  | fn2 f a b _ _ => intro _; simp [firstTok]
  | ite c a b _ _ _ => intro h; simp [wfA] at h


theorem arithOf_tok {o : BOp} (h : o.isArith = true) : arithOf o.tok = some o := by
  cases o <;> simp_all [BOp.isArith, BOp.tok, arithOf]

theorem okA_tok_arith {o : BOp} (h : o.isArith = true) (r) : ∀ r', o.tok :: r ≠ .lp :: r' := by
  intro r' e; cases o <;> simp_all [BOp.isArith, BOp.tok]

theorem okA_rp (r) : okA (.rp :: r) = true := rfl
theorem okA_comma (r) : okA (.comma :: r) = true := rfl
theorem okI_rp (r) : okI (.rp :: r) = true := rfl

/-- a parenthesised arithmetic expression, given the induction hypothesis for it -/
theorem paren_of_A1 {a : Expr} (hwa : wfA a = true)
    (ih : ∀ n rest, cost a ≤ n → okA rest = true → pArith n (toks a ++ rest) = some (normNeg a, rest))
    {k rest} (hk : cost a + 6 ≤ k) :
    pPrim (k + 1) (.lp :: toks a ++ .rp :: rest) = some (normNeg a, rest) := by
  obtain ⟨m, rfl⟩ : ∃ m, k = m + 5 := ⟨k - 5, by omega⟩
  exact paren_prim (imp_of_arith (ih m _ (by omega) (okA_rp _)) (okI_rp _) (toks_ne (firstTok_A a hwa).1 _))

theorem arith_main : ∀ e, wfA e = true →
    (∀ n rest, cost e ≤ n → okA rest = true → pArith n (toks e ++ rest) = some (normNeg e, rest)) ∧
    (atomA e = true → ∀ n r, cost e ≤ n + 1 → (∀ r', r ≠ .lp :: r') →
      pPrim n (toks e ++ r) = some (normNeg e, r)) := by
  intro e
  induction e with
  | var x =>
    intro _
    have a2 : ∀ n r, cost (Expr.var x) ≤ n + 1 → (∀ r', r ≠ .lp :: r') →
        pPrim n (toks (.var x) ++ r) = some (normNeg (.var x), r) := by
      intro n r hn hr
      simp only [cost] at hn
      obtain ⟨m, rfl⟩ : ∃ m, n = m + 1 := ⟨n - 1, by omega⟩
      exact pPrim_id m x r hr
    refine ⟨?_, fun _ => a2⟩
    intro n rest hn hr
    simp only [cost] at hn
    obtain ⟨m, rfl⟩ : ∃ m, n = m + 1 := ⟨n - 1, by omega⟩
    exact arith_of_prim (a2 m rest (by simp only [cost]; omega) (okA_nolp hr)) (by intro r' e; cases e) (okA_noArith hr)
  | int i =>
    intro _
    by_cases hi : i < 0
    · refine ⟨?_, by simp [atomA, isNegConst, hi]⟩
      intro n rest hn hr
      simp only [cost] at hn
      obtain ⟨m, rfl⟩ : ∃ m, n = m + 3 := ⟨n - 3, by omega⟩
      have hp : pArith (m + 2) (.num i.natAbs :: rest) = some (.int (Int.ofNat i.natAbs), rest) :=
        arith_of_prim (pPrim_num m _ _) (by intro r' e; cases e) (okA_noArith hr)
      have hv : Int.ofNat i.natAbs = -i := by rw [Int.ofNat_eq_natCast]; omega
      simp only [toks, hi, if_true, List.cons_append, List.nil_append, pArith_minus, hp, unRes, isArithE, normNeg, hv]
    · have a2 : ∀ n r, cost (Expr.int i) ≤ n + 1 → pPrim n (toks (.int i) ++ r) = some (normNeg (.int i), r) := by
        intro n r hn
        simp only [cost] at hn
        obtain ⟨m, rfl⟩ : ∃ m, n = m + 1 := ⟨n - 1, by omega⟩
        have hv : Int.ofNat i.toNat = i := by rw [Int.ofNat_eq_natCast]; omega
        simp only [toks, hi, if_false, List.cons_append, List.nil_append, pPrim_num, normNeg, hv]
      refine ⟨?_, fun _ n r hn _ => a2 n r hn⟩
      intro n rest hn hr
      simp only [cost] at hn
      obtain ⟨m, rfl⟩ : ∃ m, n = m + 1 := ⟨n - 1, by omega⟩
      refine arith_of_prim (a2 m rest (by simp only [cost]; omega)) ?_ (okA_noArith hr)
      simp [toks, hi]
  | bool b => intro h; simp [wfA] at h
  | un o a iha =>
    intro h
    cases o with
    | not => simp [wfA] at h
    | neg =>
      have hwa : wfA a = true := by simpa [wfA] using h
      have ih := (iha hwa).1
      refine ⟨?_, by simp [atomA, isArithOp]⟩
      intro n rest hn hr
      simp only [cost] at hn
      obtain ⟨m, rfl⟩ : ∃ m, n = m + 9 := ⟨n - 9, by omega⟩
      have hm : cost a + 7 ≤ m + 8 := by omega
      have hin : pArith (m + 8) (parenT (parNeg a) (toks a) ++ rest) = some (normNeg a, rest) := by
        by_cases hp : parNeg a = true
        · simp only [parenT, hp, if_true, List.append_assoc, List.singleton_append]
          exact arith_of_prim (paren_of_A1 hwa ih (by omega)) (by intro r' e; cases e) (okA_noArith hr)
        · simp only [parenT, hp]
          exact ih _ _ (by omega) hr
      simp only [toks, List.cons_append, pArith_minus, hin, unRes, isArithE_normNeg a hwa, if_true, normNeg]
  | bin o a b iha ihb =>
    intro h
    have ho : o.isArith = true := by simp [wfA] at h; exact h.1.1
    have hwa : wfA a = true := by simp [wfA] at h; exact h.1.2
    have hwb : wfA b = true := by simp [wfA] at h; exact h.2
    refine ⟨?_, by simp [atomA, isArithOp, ho]⟩
    intro n rest hn hr
    simp only [cost] at hn
    obtain ⟨m, rfl⟩ : ∃ m, n = m + 9 := ⟨n - 9, by omega⟩
    have hca : cost a + 7 ≤ m + 8 := by omega
    have hcb : cost b + 7 ≤ m + 8 := by omega
    -- right operand
    have hR : pArith (m + 8) (parenT (parR o b) (toks b) ++ rest) = some (normNeg b, rest) := by
      by_cases hp : parR o b = true
      · simp only [parenT, hp, if_true, List.append_assoc, List.singleton_append]
        exact arith_of_prim (paren_of_A1 hwb (ihb hwb).1 (by omega)) (by intro r' e; cases e) (okA_noArith hr)
      · simp only [parenT, hp]
        exact (ihb hwb).1 _ _ (by omega) hr
    -- left operand, as a primary followed by the operator
    have hL : pPrim (m + 8) (parenT (parL o a) (toks a) ++ o.tok :: (parenT (parR o b) (toks b) ++ rest)) =
        some (normNeg a, o.tok :: (parenT (parR o b) (toks b) ++ rest)) := by
      by_cases hp : parL o a = true
      · simp only [parenT, hp, if_true, List.append_assoc, List.singleton_append]
        exact paren_of_A1 hwa (iha hwa).1 (by omega)
      · simp only [parenT, hp]
        have hat : atomA a = true := by
          simp only [parL, ho, if_true] at hp
          simp only [atomA]
          cases h1 : isArithOp a <;> cases h2 : isNegConst a <;> simp_all
        exact (iha hwa).2 hat _ _ (by omega) (okA_tok_arith ho _)
    have hne : ∀ r', parenT (parL o a) (toks a) ++ o.tok :: (parenT (parR o b) (toks b) ++ rest) ≠ .minus :: r' := by
      by_cases hp : parL o a = true
      · intro r' e; simp [parenT, hp] at e
      · have hat : atomA a = true := by
          simp only [parL, ho, if_true] at hp
          simp only [atomA]
          cases h1 : isArithOp a <;> cases h2 : isNegConst a <;> simp_all
        simp only [parenT, hp]
        exact toks_ne ((firstTok_A a hwa).2.2 hat).1 _
    have : toks (.bin o a b) ++ rest = parenT (parL o a) (toks a) ++ o.tok :: (parenT (parR o b) (toks b) ++ rest) := by
      simp [toks]
    rw [this, pArith_other _ _ hne, hL]
    simp only [andThen, contArith, arithOf_tok ho, hR, binRes, isArithE_normNeg a hwa, isArithE_normNeg b hwb,
      Bool.and_self, if_true, normNeg]
  | fn1 f a iha =>
    intro h
    have hwa : wfA a = true := by simpa [wfA] using h
    have a2 : ∀ n r, cost (Expr.fn1 f a) ≤ n + 1 → pPrim n (toks (.fn1 f a) ++ r) = some (normNeg (.fn1 f a), r) := by
      intro n r hn
      simp only [cost] at hn
      obtain ⟨m, rfl⟩ : ∃ m, n = m + 1 := ⟨n - 1, by omega⟩
      have hin := (iha hwa).1 m (.rp :: r) (by omega) (okA_rp _)
      simp only [toks, List.cons_append, List.append_assoc, List.singleton_append, pPrim_fn, fnRes, fnOf_str, List.nil_append, hin,
        isArithE_normNeg a hwa, if_true, normNeg]
    refine ⟨?_, fun _ n r hn _ => a2 n r hn⟩
    intro n rest hn hr
    simp only [cost] at hn
    obtain ⟨m, rfl⟩ : ∃ m, n = m + 1 := ⟨n - 1, by omega⟩
    exact arith_of_prim (a2 m rest (by simp only [cost]; omega)) (by simp [toks]) (okA_noArith hr)
  | fn2 f a b iha ihb =>
    intro h
    have hwa : wfA a = true := by simp [wfA] at h; exact h.1
    have hwb : wfA b = true := by simp [wfA] at h; exact h.2
    have a2 : ∀ n r, cost (Expr.fn2 f a b) ≤ n + 1 → pPrim n (toks (.fn2 f a b) ++ r) = some (normNeg (.fn2 f a b), r) := by
      intro n r hn
      simp only [cost] at hn
      obtain ⟨m, rfl⟩ : ∃ m, n = m + 1 := ⟨n - 1, by omega⟩
      have hina := (iha hwa).1 m (.comma :: (toks b ++ .rp :: r)) (by omega) (okA_comma _)
      have hinb := (ihb hwb).1 m (.rp :: r) (by omega) (okA_rp _)
      simp only [toks, List.cons_append, List.append_assoc, List.singleton_append, pPrim_fn, fnRes, fnOf_str, List.nil_append, hina, hinb,
        isArithE_normNeg a hwa, isArithE_normNeg b hwb, Bool.and_self, if_true, normNeg]
    refine ⟨?_, fun _ n r hn _ => a2 n r hn⟩
    intro n rest hn hr
    simp only [cost] at hn
    obtain ⟨m, rfl⟩ : ∃ m, n = m + 1 := ⟨n - 1, by omega⟩
    exact arith_of_prim (a2 m rest (by simp only [cost]; omega)) (by simp [toks]) (okA_noArith hr)
  | ite c a b _ _ _ => intro h; simp [wfA] at h

end Holpy.C20
