import Holpy.C02.Model
import Holpy.C02.ProofsId
/-
C02 — lemmas about positions in the proof tree: reading (`getItem`, `findItem`) against writing
(`setTh`, `setSub`), and the "visible from" relation that `can_depend_on` induces on positions.
-/
namespace Holpy.C02

/-- Two position paths part ways at some index (neither is a prefix of the other). -/
inductive Diverge : List Nat → List Nat → Prop
  | head {a b : Nat} {p q : List Nat} : a ≠ b → Diverge (a :: p) (b :: q)
  | tail {a : Nat} {p q : List Nat} : Diverge p q → Diverge (a :: p) (a :: q)

theorem Diverge.append_right {q p : List Nat} (h : Diverge q p) (e : List Nat) : Diverge q (p ++ e) := by
  induction h with
  | head hne => exact .head hne
  | tail _ ih => exact .tail ih

theorem Diverge.prefix_left (pre : List Nat) {q p : List Nat} (h : Diverge q p) :
    Diverge (pre ++ q) (pre ++ p) := by
  induction pre with
  | nil => exact h
  | cons a pre ih => exact .tail ih

theorem diverge_snoc (pre : List Nat) {a b : Nat} (h : a ≠ b) (s t : List Nat) :
    Diverge (pre ++ a :: s) (pre ++ b :: t) :=
  Diverge.prefix_left pre (.head h)

/-- `q` is an earlier sibling of `pos` or of one of its ancestors. -/
def Vis (pos q : List Nat) : Prop :=
  ∃ (pre : List Nat) (a b : Nat) (suf : List Nat), pos = pre ++ a :: suf ∧ q = pre ++ [b] ∧ b < a

theorem Vis.diverge {pos q : List Nat} (h : Vis pos q) : Diverge q pos := by
  obtain ⟨pre, a, b, suf, rfl, rfl, hlt⟩ := h
  exact diverge_snoc pre (by omega) [] suf

theorem vis_snoc_iff (pre : List Nat) (j : Nat) (q : List Nat) :
    Vis (pre ++ [j]) q ↔ Vis pre q ∨ ∃ b, b < j ∧ q = pre ++ [b] := by
  constructor
  · rintro ⟨p, a, b, suf, h1, h2, hlt⟩
    rcases list_nil_or_snoc suf with hs | ⟨suf', z, hs⟩
    · subst hs
      have := List.append_inj' h1 (by simp)
      simp at this
      obtain ⟨rfl, rfl⟩ := this
      exact Or.inr ⟨b, hlt, h2⟩
    · subst hs
      have e : p ++ a :: (suf' ++ [z]) = (p ++ a :: suf') ++ [z] := by simp
      rw [e] at h1
      have := List.append_inj' h1 (by simp)
      simp at this
      exact Or.inl ⟨p, a, b, suf', this.1, h2, hlt⟩
  · rintro (⟨p, a, b, suf, h1, h2, hlt⟩ | ⟨b, hlt, h2⟩)
    · exact ⟨p, a, b, suf ++ [j], by simp [h1], h2, hlt⟩
    · exact ⟨pre, j, b, [], rfl, h2, hlt⟩

/-! ### reading after writing -/

theorem descend_modItem_diverge (f : Item → Item) {q p : List Nat} (h : Diverge q p) :
    ∀ it : Item, descend (modItem f it p) q = descend it q := by
  induction h with
  | @head a b p q hne =>
    intro it
    simp only [modItem, descend]
    cases hs : it.sub with
    | none => simp [hs]
    | some s =>
      simp only [List.getElem?_modify]
      have : ¬ b = a := fun e => hne e.symm
      simp [this]
  | @tail a p q _ ih =>
    intro it
    simp only [modItem, descend]
    cases hs : it.sub with
    | none => simp [hs]
    | some s =>
      simp only [List.getElem?_modify]
      cases hx : s[a]? with
      | none => simp
      | some x => simp [ih x]

theorem getItem_modRoot_diverge (f : Item → Item) (root : List Item) {q p : List Nat} (h : Diverge q p) :
    getItem (modRoot f root p) q = getItem root q := by
  cases h with
  | @head a b p q hne =>
    simp only [modRoot, getItem, List.getElem?_modify]
    have : ¬ b = a := fun e => hne e.symm
    simp [this]
  | @tail a p q h =>
    simp only [modRoot, getItem, List.getElem?_modify]
    cases hx : root[a]? with
    | none => simp
    | some x => simp [descend_modItem_diverge f h x]

theorem descend_modItem_self (f : Item → Item) : ∀ (p : List Nat) (it : Item),
    descend (modItem f it p) p = (descend it p).map f := by
  intro p
  induction p with
  | nil => intro it; simp [modItem, descend]
  | cons i rest ih =>
    intro it
    simp only [modItem, descend]
    cases hs : it.sub with
    | none => simp [hs]
    | some s =>
      simp only [List.getElem?_modify]
      cases hx : s[i]? with
      | none => simp
      | some x => simp [ih x]

theorem getItem_modRoot_self (f : Item → Item) (root : List Item) (p : List Nat) :
    getItem (modRoot f root p) p = (getItem root p).map f := by
  cases p with
  | nil => simp [getItem]
  | cons i rest =>
    simp only [modRoot, getItem, List.getElem?_modify]
    cases hx : root[i]? with
    | none => simp
    | some x => simp [descend_modItem_self f rest x]

theorem descend_snoc : ∀ (p : List Nat) (j : Nat) (it : Item),
    descend it (p ++ [j]) = (descend it p).bind fun x => x.sub.bind fun s => s[j]? := by
  intro p
  induction p with
  | nil =>
    intro j it
    simp only [List.nil_append, descend]
    cases hs : it.sub with
    | none => simp [hs]
    | some s => cases hx : s[j]? <;> simp [hx, hs]
  | cons i rest ih =>
    intro j it
    simp only [List.cons_append, descend]
    cases hs : it.sub with
    | none => simp
    | some s =>
      cases hx : s[i]? with
      | none => simp [hx]
      | some x => simpa [hx] using ih j x

theorem getItem_snoc (root : List Item) (p : List Nat) (hp : p ≠ []) (j : Nat) :
    getItem root (p ++ [j]) = (getItem root p).bind fun x => x.sub.bind fun s => s[j]? := by
  cases p with
  | nil => exact absurd rfl hp
  | cons i rest =>
    simp only [List.cons_append, getItem]
    cases hx : root[i]? with
    | none => simp
    | some x => simpa using descend_snoc rest j x

theorem getItem_singleton (root : List Item) (j : Nat) : getItem root [j] = root[j]? := by
  simp only [getItem]
  cases root[j]? <;> simp [descend]

/-! ### `find_item` on non-negative ids is `getItem` -/

theorem descendI_posId : ∀ (p : List Nat) (it : Item), descendI it (posId p) = descend it p := by
  intro p
  induction p with
  | nil => intro it; simp [posId, descendI, descend]
  | cons i rest ih =>
    intro it
    simp only [posId, List.map_cons, descendI, descend, Int.ofNat_eq_natCast, pyIdx_ofNat]
    cases hs : it.sub with
    | none => rfl
    | some s =>
      cases hx : s[i]? with
      | none => simp [hx]
      | some x => simpa [posId, hx] using ih x

theorem findItem_posId (root : List Item) (p : List Nat) : findItem root (posId p) = getItem root p := by
  unfold findItem
  have h : (posId p).any (fun i => decide (i < 0)) = false := by
    simp [posId]
  simp only [h]
  cases p with
  | nil => simp [posId, getItem]
  | cons i rest =>
    simp only [posId, List.map_cons, getItem, Int.ofNat_eq_natCast, pyIdx_ofNat]
    cases hx : root[i]? with
    | none => simp
    | some x => simpa [posId] using descendI_posId rest x

theorem findItem_some_nonneg {root : List Item} {p : List Int} {it : Item} (h : findItem root p = some it) :
    ∃ q : List Nat, p = posId q := by
  unfold findItem at h
  split at h
  · simp at h
  · rename_i hneg
    refine ⟨p.map Int.toNat, ?_⟩
    simp only [posId, List.map_map]
    simp only [Bool.not_eq_true, List.any_eq_false, decide_eq_true_eq] at hneg
    conv => lhs; rw [← List.map_id p]
    apply List.map_congr_left
    intro x hx
    have := hneg x hx
    simp only [Function.comp, Int.ofNat_eq_natCast, id]
    omega

theorem posId_injective {a b : List Nat} (h : posId a = posId b) : a = b := by
  induction a generalizing b with
  | nil => cases b with
    | nil => rfl
    | cons _ _ => simp [posId] at h
  | cons x a ih => cases b with
    | nil => simp [posId] at h
    | cons y b =>
      simp only [posId, List.map_cons, List.cons.injEq, Int.ofNat_eq_natCast, Int.natCast_inj] at h
      rw [h.1, ih (by simpa [posId] using h.2)]

/-- A citation that passes `can_depend_on` and `find_item` from an item whose id is its position
reads an item at a position visible from it. -/
theorem cited_visible {root : List Item} {pos : List Nat} {p : List Int} {it : Item}
    (hd : Gen.can_depend_on (posId pos) p = some true) (hf : findItem root p = some it) :
    ∃ q, Vis pos q ∧ getItem root q = some it := by
  obtain ⟨q, rfl⟩ := findItem_some_nonneg hf
  rw [findItem_posId] at hf
  refine ⟨q, ?_, hf⟩
  obtain ⟨pre, x, y, suf, hq, hpos, hlt⟩ := (can_depend_on_iff _ _).mp hd
  -- split `pos` and `q` along the integer decomposition
  unfold posId at hq hpos
  obtain ⟨pre1, l1, rfl, hpre1, hl1⟩ := List.map_eq_append_iff.mp hq
  obtain ⟨pre2, l2, rfl, hpre2, hl2⟩ := List.map_eq_append_iff.mp hpos
  obtain ⟨b, rfl, hb⟩ : ∃ b, l1 = [b] ∧ Int.ofNat b = x := by
    cases l1 with
    | nil => simp at hl1
    | cons b t =>
      cases t with
      | nil => exact ⟨b, rfl, by simpa using hl1⟩
      | cons _ _ => simp at hl1
  obtain ⟨a, suf', rfl, ha, _⟩ : ∃ a suf', l2 = a :: suf' ∧ Int.ofNat a = y ∧ True := by
    cases l2 with
    | nil => simp at hl2
    | cons a t => exact ⟨a, t, rfl, by simpa using (List.cons.inj hl2).1, trivial⟩
  have : pre1 = pre2 := posId_injective (by unfold posId; rw [hpre1, hpre2])
  subst this
  refine ⟨pre1, a, b, suf', rfl, rfl, ?_⟩
  subst hb ha
  simpa using hlt

end Holpy.C02
