import Holpy.C02.Unfold
import Holpy.C02.ProofsHeapPath
/-
C02 — static facts about the unfolding of an object graph: positions are found alike.
-/
namespace Holpy.C02

theorem pyIdx_map {α β : Type} (f : α → β) (l : List α) (k : Int) :
    pyIdx (l.map f) k = (pyIdx l k).map f := by
  unfold pyIdx pyLen
  simp only [List.length_map]
  split
  · split <;> simp
  · simp

theorem unfoldItem_succ (st : Store) (n i : Nat) :
    unfoldItem st (n + 1) i =
      match st.items[i]? with
      | none => ⟨[], "", .none, [], none, none⟩
      | some h => ⟨h.id, h.rule, h.args, h.prevs, h.th,
          (h.sub.bind (st.proofs[·]?)).map (fun l => l.map (unfoldItem st n))⟩ := by
  rw [unfoldItem]
  cases st.items[i]? <;> rfl

theorem descendI_unfold (st : Store) : ∀ (rest : List Int) (n j : Nat), rest.length ≤ n →
    descendI (unfoldItem st n j) rest = (hDescend st j rest).map (unfoldItem st (n - rest.length)) := by
  intro rest
  induction rest with
  | nil => intro n j _; simp [descendI, hDescend]
  | cons k rest ih =>
    intro n j hn
    cases n with
    | zero => simp at hn
    | succ m =>
      simp only [List.length_cons, Nat.add_le_add_iff_right] at hn
      rw [unfoldItem_succ]
      simp only [hDescend, List.length_cons, Nat.add_sub_add_right]
      cases hj : st.items[j]? with
      | none => simp [descendI]
      | some h =>
        simp only [descendI]
        cases hs : h.sub with
        | none => simp
        | some p =>
          cases hp : st.proofs[p]? with
          | none => simp [hp]
          | some l =>
            simp only [Option.bind_some, hp, Option.map_some, pyIdx_map]
            cases hk : pyIdx l k with
            | none => simp
            | some j' =>
              simp only [Option.map_some]
              exact ih m j' hn

/-- The unfolding of an existing cell copies its fields (base case of the relation a lock-step
simulation of the heap walk against the tree checker starts from). -/
theorem unfoldItem_fields (st : Store) (n i : Nat) (h : HItem) (hi : st.items[i]? = some h) :
    (unfoldItem st n i).id = h.id ∧ (unfoldItem st n i).rule = h.rule ∧ (unfoldItem st n i).args = h.args ∧
    (unfoldItem st n i).prevs = h.prevs ∧ (unfoldItem st n i).th = h.th := by
  cases n <;> simp [unfoldItem, hi]

/-- One level down the unfolding of a cell holds the unfoldings of the entries of its block. -/
theorem unfoldItem_sub (st : Store) (n i : Nat) (h : HItem) (hi : st.items[i]? = some h) :
    (unfoldItem st (n + 1) i).sub = (h.sub.bind (st.proofs[·]?)).map (fun l => l.map (unfoldItem st n)) := by
  rw [unfoldItem_succ]; simp [hi]

/-- A reference to a cell that does not exist unfolds to an item whose id no position matches. -/
theorem unfoldItem_dangling (st : Store) (n i : Nat) (hi : st.items[i]? = none) (pos : List Nat) (hp : pos ≠ []) :
    (unfoldItem st n i).id ≠ posId pos := by
  cases n <;> simp [unfoldItem, hi, posId, hp]

end Holpy.C02
