import Holpy.C02.Heap
import Holpy.C02.ProofsCheck
import Holpy.C02.ProofsHeapPath
/-
C02 — what the heap walk knows about its surroundings at a position (`AncIds`, `VisGoodH`) and why
that knowledge survives store changes that only touch cells whose ids extend the position.
-/
namespace Holpy.C02

def cellTh (st : Store) (j : Nat) : Option Seq := (st.items[j]?).bind (·.th)

/-- Every cell on the way to `pos` (strictly above it) carries its position as id. -/
def AncIds (st : Store) (root : Nat) (pos : List Nat) : Prop :=
  ∀ a k e, pos = a ++ k :: e → e ≠ [] →
    ∃ la j, listAt st root a = some la ∧ la[k]? = some j ∧ idOf st j = some (posId (a ++ [k]))

/-- Every cell citable from `pos` carries its position as id and a good statement. -/
def VisGoodH (R : Rules) (G : Seq → Prop) (st : Store) (root : Nat) (pos : List Nat) : Prop :=
  ∀ a x suf b, pos = a ++ x :: suf → b < x → ∀ la j, listAt st root a = some la → la[b]? = some j →
    idOf st j = some (posId (a ++ [b])) ∧ ∀ s, cellTh st j = some s → Good R G s

/-- `st'` differs from `st` only in cells whose ids extend `pos` (and in fresh cells / fresh lists). -/
structure Keeps (st st' : Store) (pos : List Nat) (touch : Nat → Prop) : Prop where
  len : st.items.length ≤ st'.items.length
  ids : ∀ j, j < st.items.length → idOf st' j = idOf st j
  cells : ∀ j, j < st.items.length → ¬ touch j → st'.items[j]? = st.items[j]?
  proofs : ∀ p, p < st.proofs.length → st'.proofs[p]? = st.proofs[p]?
  touched : ∀ j, j < st.items.length → touch j → ∃ q, idOf st j = some (posId q) ∧ pos <+: q

theorem Keeps.untouched {st st' : Store} {pos : List Nat} {touch : Nat → Prop} (K : Keeps st st' pos touch)
    {j : Nat} {q0 : List Nat} (hid : idOf st j = some (posId q0)) (hq : ¬ pos <+: q0) :
    st'.items[j]? = st.items[j]? := by
  have hj := idOf_some_lt hid
  refine K.cells j hj ?_
  intro ht
  obtain ⟨q, hq1, hq2⟩ := K.touched j hj ht
  rw [hid] at hq1
  have := posId_injective (Option.some.inj hq1)
  subst this; exact hq hq2

theorem Keeps.ofFrame {st : Store} {pos : List Nat} {out : HOut} (F : HFrame st pos out) :
    Keeps st out.st pos (fun j => ∃ q, (q, j) ∈ out.walked) := by
  refine ⟨F.inv.grows, F.inv.ids, ?_, F.proofs, ?_⟩
  · intro j hj hnt
    exact F.cells j hj (fun q hq => hnt ⟨q, hq⟩)
  · rintro j hj ⟨q, hq⟩
    refine ⟨q, ?_, F.pre (q, j) hq⟩
    rw [← F.inv.ids j hj]; exact F.inv.walked (q, j) hq

theorem not_prefix_anc {pos a e : List Nat} {k : Nat} (h : pos = a ++ k :: e) (he : e ≠ []) :
    ¬ pos <+: a ++ [k] := by
  intro hp
  have := hp.length_le
  rw [h] at this
  simp at this
  cases e with
  | nil => exact he rfl
  | cons _ _ => simp at this

theorem not_prefix_vis {pos a suf : List Nat} {x b : Nat} (h : pos = a ++ x :: suf) (hb : b ≠ x) :
    ¬ pos <+: a ++ [b] := by
  intro hp
  rw [h] at hp
  obtain ⟨t, ht⟩ := hp
  rw [List.append_assoc] at ht
  have := List.append_cancel_left ht
  simp at this
  exact hb this.1.symm

/-- Block lists above `pos` survive. -/
theorem Keeps.lists {st st' : Store} {pos : List Nat} {touch : Nat → Prop} (K : Keeps st st' pos touch)
    {root : Nat} (hA : AncIds st root pos) :
    ∀ a e, pos = a ++ e → e ≠ [] → ∀ la, listAt st root a = some la → listAt st' root a = some la := by
  intro a e hpos he la hla
  refine listAt_stable st st' root K.proofs a la hla ?_
  intro a' k e' la' j ha hla' hj
  -- the cell at a' ++ [k] is strictly above pos
  have hpos' : pos = a' ++ k :: (e' ++ e) := by rw [hpos, ha]; simp
  have hne : e' ++ e ≠ [] := by simp [he]
  obtain ⟨la'', j'', h1, h2, h3⟩ := hA a' k (e' ++ e) hpos' hne
  rw [hla'] at h1
  have := Option.some.inj h1
  subst this
  rw [hj] at h2
  have := Option.some.inj h2
  subst this
  exact K.untouched h3 (not_prefix_anc hpos' hne)

theorem Keeps.ancIds {st st' : Store} {pos : List Nat} {touch : Nat → Prop} (K : Keeps st st' pos touch)
    {root : Nat} (hA : AncIds st root pos) : AncIds st' root pos := by
  intro a k e hpos he
  obtain ⟨la, j, h1, h2, h3⟩ := hA a k e hpos he
  refine ⟨la, j, K.lists hA a (k :: e) hpos (by simp) la h1, h2, ?_⟩
  rw [K.ids j (idOf_some_lt h3)]; exact h3

theorem Keeps.visGood {R : Rules} {G : Seq → Prop} {st st' : Store} {pos : List Nat} {touch : Nat → Prop}
    (K : Keeps st st' pos touch) {root : Nat} (hA : AncIds st root pos)
    (hB : ∀ a e, pos = a ++ e → e ≠ [] → ∃ la, listAt st root a = some la)
    (hV : VisGoodH R G st root pos) : VisGoodH R G st' root pos := by
  intro a x suf b hpos hb la' j hla' hj
  obtain ⟨la, hla⟩ := hB a (x :: suf) hpos (by simp)
  have := K.lists hA a (x :: suf) hpos (by simp) la hla
  rw [hla'] at this
  have := Option.some.inj this
  subst this
  obtain ⟨h1, h2⟩ := hV a x suf b hpos hb la' j hla hj
  have hcell := K.untouched h1 (not_prefix_vis hpos (by omega))
  refine ⟨by rw [K.ids j (idOf_some_lt h1)]; exact h1, ?_⟩
  intro s hs
  exact h2 s (by simpa [cellTh, hcell] using hs)

end Holpy.C02
