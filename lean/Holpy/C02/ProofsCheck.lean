import Holpy.C02.Model
import Holpy.C02.ProofsId
import Holpy.C02.ProofsTree
/-
C02 — the invariant of the checker: every statement that can be cited from the item under
inspection has a `Justified` derivation; checking an item keeps it and adds the item itself.
-/
namespace Holpy.C02

theorem canProve_iff (a b : Seq) :
    canProve a b = true ↔ a.concl = b.concl ∧ ∀ h ∈ a.hyps, h ∈ b.hyps := by
  simp [canProve, Gen.can_prove, pySubset]

theorem canProve_refl (a : Seq) : canProve a a = true := by
  rw [canProve_iff]; exact ⟨rfl, fun _ h => h⟩

theorem canProve_trans {a b c : Seq} (h1 : canProve a b = true) (h2 : canProve b c = true) :
    canProve a c = true := by
  rw [canProve_iff] at *
  exact ⟨h1.1.trans h2.1, fun h hh => h2.2 h (h1.2 h hh)⟩

/-- `qs` and `ps` have the same length and every `q` proves (`can_prove`) the corresponding `p`. -/
inductive Weakens : List Seq → List Seq → Prop
  | nil : Weakens [] []
  | cons {q p : Seq} {qs ps : List Seq} : canProve q p = true → Weakens qs ps → Weakens (q :: qs) (p :: ps)

/-- Sequents with a derivation: closure of the rule layer (`theorem`, `variable`, primitive rules,
evaluated macros) over premises that are weakenings (`can_prove`) of derivable sequents, plus the
gaps in `G`. -/
inductive Justified (R : Rules) (G : Seq → Prop) : Seq → Prop
  | gap {s : Seq} (h : G s) : Justified R G s
  | thm {a : Arg} {s : Seq} (h : R.thm a = .ok s) : Justified R G s
  | var {a : Arg} {s : Seq} (h : R.var a = .ok s) : Justified R G s
  | prim {r : String} {a : Arg} {qs ps : List Seq} {s : Seq}
      (hq : ∀ q ∈ qs, Justified R G q)
      (hw : Weakens qs ps)
      (h : R.prim r a ps = .ok s) : Justified R G s
  | eval {r : String} {a : Arg} {qs ps : List Seq} {s : Seq}
      (hq : ∀ q ∈ qs, Justified R G q)
      (hw : Weakens qs ps)
      (h : R.eval r a ps = .ok s) : Justified R G s

/-- `s` is no stronger than some derivable sequent. -/
def Good (R : Rules) (G : Seq → Prop) (s : Seq) : Prop :=
  ∃ q, Justified R G q ∧ canProve q s = true

theorem Good.of_justified {R : Rules} {G : Seq → Prop} {s : Seq} (h : Justified R G s) : Good R G s :=
  ⟨s, h, canProve_refl s⟩

theorem Good.weaken {R : Rules} {G : Seq → Prop} {r t : Seq} (h : Good R G r) (hc : canProve r t = true) :
    Good R G t := by
  obtain ⟨q, hq, hqr⟩ := h
  exact ⟨q, hq, canProve_trans hqr hc⟩

theorem good_list {R : Rules} {G : Seq → Prop} : ∀ {ps : List Seq}, (∀ p ∈ ps, Good R G p) →
    ∃ qs, (∀ q ∈ qs, Justified R G q) ∧ Weakens qs ps
  | [], _ => ⟨[], by simp, .nil⟩
  | p :: ps, h => by
    obtain ⟨q, hq, hqp⟩ := h p (by simp)
    obtain ⟨qs, hqs, hf⟩ := good_list (ps := ps) (fun x hx => h x (by simp [hx]))
    exact ⟨q :: qs, by
      intro x hx
      rcases List.mem_cons.mp hx with rfl | hx
      · exact hq
      · exact hqs x hx, .cons hqp hf⟩

/-- Everything citable from `pos` is good. -/
def VisGood (R : Rules) (G : Seq → Prop) (root : List Item) (pos : List Nat) : Prop :=
  ∀ q, Vis pos q → ∀ it, getItem root q = some it → ∀ s, it.th = some s → Good R G s

/-- What checking the item at `pos` guarantees. -/
structure Post (R : Rules) (G : Seq → Prop) (root : List Item) (pos : List Nat) (out : Out) : Prop where
  trace : ∀ e ∈ out.trace, Good R G e.th
  frame : ∀ q, Diverge q pos → getItem out.root q = getItem root q
  self : ∀ it, getItem out.root pos = some it → ∀ s, it.th = some s → Good R G s
  above : ∀ q e, pos = q ++ e → e ≠ [] → (getItem out.root q).map (·.th) = (getItem root q).map (·.th)

/-! ### writes do not change statements above the written position -/

theorem descend_modItem_above_th (f : Item → Item) : ∀ (q e : List Nat) (it : Item), e ≠ [] →
    (descend (modItem f it (q ++ e)) q).map (·.th) = (descend it q).map (·.th) := by
  intro q
  induction q with
  | nil =>
    intro e it he
    cases e with
    | nil => exact absurd rfl he
    | cons i rest =>
      simp only [List.nil_append, modItem, descend]
      cases hs : it.sub <;> simp
  | cons i rest ih =>
    intro e it he
    simp only [List.cons_append, modItem, descend]
    cases hs : it.sub with
    | none => simp [hs]
    | some s =>
      simp only [List.getElem?_modify]
      cases hx : s[i]? with
      | none => simp
      | some x => simpa using ih e x he

theorem getItem_modRoot_above_th (f : Item → Item) (root : List Item) (q e : List Nat) (he : e ≠ []) :
    (getItem (modRoot f root (q ++ e)) q).map (·.th) = (getItem root q).map (·.th) := by
  cases q with
  | nil => simp [getItem]
  | cons i rest =>
    simp only [List.cons_append, modRoot, getItem, List.getElem?_modify]
    cases hx : root[i]? with
    | none => simp
    | some x => simpa using descend_modItem_above_th f rest e x he

/-! ### the two loops over `prevs` -/

theorem resolvePrevs_good {R : Rules} {G : Seq → Prop} {root : List Item} {pos : List Nat}
    (hv : VisGood R G root pos) :
    ∀ (ps : List (List Int)) (pths : List (Option Seq)),
      resolvePrevs root (posId pos) ps = .ok pths → ∀ s, some s ∈ pths → Good R G s := by
  intro ps
  induction ps with
  | nil => intro pths h s hs; simp [resolvePrevs] at h; subst h; simp at hs
  | cons p ps ih =>
    intro pths h s hs
    simp only [resolvePrevs] at h
    split at h
    · simp at h
    · simp at h
    · rename_i hdep
      split at h
      · simp at h
      · rename_i it hf
        split at h
        · simp at h
        · rename_i r hr
          simp only [Except.ok.injEq] at h
          subst h
          rcases List.mem_cons.mp hs with h1 | h1
          · obtain ⟨q, hvis, hq⟩ := cited_visible hdep hf
            exact hv q hvis it hq s h1.symm
          · exact ih r hr s h1

theorem allSome_mem : ∀ (l : List (Option Seq)) (r : List Seq), allSome l = .ok r → ∀ s ∈ r, some s ∈ l := by
  intro l
  induction l with
  | nil => intro r h s hs; simp [allSome] at h; subst h; simp at hs
  | cons x l ih =>
    intro r h s hs
    cases x with
    | none => simp [allSome] at h
    | some y =>
      simp only [allSome] at h
      split at h
      · simp at h
      · rename_i l' hl'
        simp only [Except.ok.injEq] at h
        subst h
        rcases List.mem_cons.mp hs with rfl | h1
        · simp
        · exact List.mem_cons_of_mem _ (ih l' hl' s h1)

/-! ### the tail of `_check_proof_item` -/

theorem finish_post {R : Rules} {G : Seq → Prop} {root0 root1 : List Item} {pos : List Nat} {seq : Item}
    {gaps : List Seq} {trace : List Ev} {res : Option Seq} {out : Out}
    (h : finish R root1 pos seq gaps trace res = .ok out)
    (hself : (getItem root1 pos).map (·.th) = some seq.th)
    (hframe : ∀ q, Diverge q pos → getItem root1 q = getItem root0 q)
    (habove : ∀ q e, pos = q ++ e → e ≠ [] → (getItem root1 q).map (·.th) = (getItem root0 q).map (·.th))
    (htrace : ∀ e ∈ trace, Good R G e.th)
    (hres : ∀ r, res = some r → Good R G r) :
    Post R G root0 pos out := by
  unfold finish at h
  split at h
  · simp at h
  · rename_i r
    have hr : Good R G r := hres r rfl
    split at h
    · -- no statement: store the computed one
      split at h
      · simp only [Except.ok.injEq] at h
        subst h
        refine ⟨?_, ?_, ?_, ?_⟩
        · intro e he
          rcases List.mem_append.mp he with he | he
          · exact htrace e he
          · simp at he; subst he; exact hr
        · intro q hq
          simp only [setTh]
          rw [getItem_modRoot_diverge _ _ hq]; exact hframe q hq
        · intro it hit s hs
          simp only [setTh, getItem_modRoot_self] at hit
          cases hx : getItem root1 pos with
          | none => simp [hx] at hit
          | some x =>
            simp only [hx, Option.map_some, Option.some.injEq] at hit
            subst hit
            simp at hs; subst hs; exact hr
        · intro q e hqe he
          simp only [setTh]
          subst hqe
          rw [getItem_modRoot_above_th _ _ _ _ he]; exact habove q e rfl he
      · simp at h
    · rename_i t ht
      split at h
      · rename_i hcp
        split at h
        · simp only [Except.ok.injEq] at h
          subst h
          have hgt : Good R G t := hr.weaken hcp
          refine ⟨?_, hframe, ?_, habove⟩
          · intro e he
            rcases List.mem_append.mp he with he | he
            · exact htrace e he
            · simp at he; subst he; exact hgt
          · intro it hit s hs
            simp only [hit, Option.map_some, Option.some.injEq, ht] at hself
            rw [hself] at hs
            simp at hs; subst hs; exact hgt
        · simp at h
      · simp at h

theorem finish_trace_mem {R : Rules} {root : List Item} {pos : List Nat} {seq : Item}
    {gaps : List Seq} {trace : List Ev} {res : Option Seq} {out : Out}
    (h : finish R root pos seq gaps trace res = .ok out) : ∀ e ∈ trace, e ∈ out.trace := by
  unfold finish at h
  split at h
  · simp at h
  · split at h
    · split at h
      · simp only [Except.ok.injEq] at h; subst h; exact fun e he => List.mem_append_left _ he
      · simp at h
    · split at h
      · split at h
        · simp only [Except.ok.injEq] at h; subst h; exact fun e he => List.mem_append_left _ he
        · simp at h
      · simp at h

theorem finish_gaps {R : Rules} {root : List Item} {pos : List Nat} {seq : Item}
    {gaps : List Seq} {trace : List Ev} {res : Option Seq} {out : Out}
    (h : finish R root pos seq gaps trace res = .ok out) : out.gaps = gaps := by
  unfold finish at h
  split at h
  · simp at h
  · split at h
    · split at h
      · simp only [Except.ok.injEq] at h; subst h; rfl
      · simp at h
    · split at h
      · split at h
        · simp only [Except.ok.injEq] at h; subst h; rfl
        · simp at h
      · simp at h

theorem lastTh_good {R : Rules} {G : Seq → Prop} {root : List Item} {pos : List Nat} {r : Seq}
    (hpos : pos ≠ []) (h : lastTh root pos = some r)
    (hitems : ∀ m it, getItem root (pos ++ [m]) = some it → ∀ s, it.th = some s → Good R G s) :
    Good R G r := by
  unfold lastTh at h
  split at h
  · simp at h
  · rename_i it hit
    split at h
    · simp at h
    · rename_i s' hs'
      split at h
      · simp at h
      · rename_i l hl
        refine hitems (s'.length - 1) l ?_ r h
        rw [getItem_snoc _ _ hpos, hit]
        simp only [Option.bind_some, hs']
        rw [← hl, List.getLast?_eq_getElem?]

/-- What the loop over the items of the (sub)proof at `pre`, from position `j` on, guarantees. -/
structure PostL (R : Rules) (G : Seq → Prop) (root : List Item) (pre : List Nat) (j : Nat) (out : Out) : Prop where
  trace : ∀ e ∈ out.trace, Good R G e.th
  frame : ∀ q, (∀ m, j ≤ m → Diverge q (pre ++ [m])) → getItem out.root q = getItem root q
  items : ∀ m, j ≤ m → ∀ it, getItem out.root (pre ++ [m]) = some it → ∀ s, it.th = some s → Good R G s
  above : ∀ q e, pre = q ++ e → (getItem out.root q).map (·.th) = (getItem root q).map (·.th)

theorem checkList_post {R : Rules} {G : Seq → Prop} (f : List Item → List Nat → Item → Except Err Out)
    (pre : List Nat)
    (hf : ∀ root pos seq out, f root pos seq = .ok out → getItem root pos = some seq →
      VisGood R G root pos → (∀ e ∈ out.trace, e.computed = none → G e.th) → Post R G root pos out) :
    ∀ (items : List Item) (root : List Item) (j : Nat) (out : Out),
      checkList f pre root j items = .ok out →
      (∀ k, getItem root (pre ++ [j + k]) = items[k]?) →
      VisGood R G root (pre ++ [j]) →
      (∀ e ∈ out.trace, e.computed = none → G e.th) →
      PostL R G root pre j out := by
  intro items
  induction items with
  | nil =>
    intro root j out h hH _ _
    simp only [checkList, Except.ok.injEq] at h
    subst h
    refine ⟨by simp, fun _ _ => rfl, ?_, fun _ _ _ => rfl⟩
    intro m hm it hit
    have := hH (m - j)
    rw [show j + (m - j) = m by omega] at this
    simp [this] at hit
  | cons s rest ih =>
    intro root j out h hH hv hg
    simp only [checkList] at h
    split at h
    · simp at h
    · rename_i o1 h1
      split at h
      · simp at h
      · rename_i o2 h2
        simp only [Except.ok.injEq] at h
        subst h
        simp only [List.forall_mem_append] at hg
        have hs0 : getItem root (pre ++ [j]) = some s := by simpa using hH 0
        have P1 : Post R G root (pre ++ [j]) o1 := hf root (pre ++ [j]) s o1 h1 hs0 hv hg.1
        have hH' : ∀ k, getItem o1.root (pre ++ [j + 1 + k]) = rest[k]? := by
          intro k
          rw [P1.frame _ (diverge_snoc pre (by omega) [] [])]
          have := hH (k + 1)
          rw [show j + (k + 1) = j + 1 + k by omega] at this
          simpa using this
        have hv' : VisGood R G o1.root (pre ++ [j + 1]) := by
          intro q hq it hit t ht
          have hold : Vis (pre ++ [j]) q → Good R G t := by
            intro hq'
            rw [P1.frame q hq'.diverge] at hit
            exact hv q hq' it hit t ht
          rcases (vis_snoc_iff pre (j + 1) q).mp hq with hq' | ⟨b, hb, rfl⟩
          · exact hold ((vis_snoc_iff pre j q).mpr (Or.inl hq'))
          · by_cases hbj : b = j
            · subst hbj; exact P1.self it hit t ht
            · exact hold ((vis_snoc_iff pre j _).mpr (Or.inr ⟨b, by omega, rfl⟩))
        have P2 : PostL R G o1.root pre (j + 1) o2 := ih o1.root (j + 1) o2 h2 hH' hv' hg.2
        refine ⟨?_, ?_, ?_, ?_⟩
        · intro e he
          rcases List.mem_append.mp he with he | he
          · exact P1.trace e he
          · exact P2.trace e he
        · intro q hq
          show getItem o2.root q = getItem root q
          rw [P2.frame q (fun m hm => hq m (by omega)), P1.frame q (hq j (Nat.le_refl j))]
        · intro m hm it hit t ht
          by_cases hmj : m = j
          · subst hmj
            have : getItem o2.root (pre ++ [m]) = getItem o1.root (pre ++ [m]) :=
              P2.frame _ (fun m' hm' => diverge_snoc pre (by omega) [] [])
            rw [show getItem (Out.mk o2.root (o1.gaps ++ o2.gaps) (o1.trace ++ o2.trace)).root (pre ++ [m])
                  = getItem o2.root (pre ++ [m]) from rfl, this] at hit
            exact P1.self it hit t ht
          · exact P2.items m (by omega) it hit t ht
        · intro q e hqe
          show (getItem o2.root q).map _ = _
          rw [P2.above q e hqe]
          exact P1.above q (e ++ [j]) (by rw [hqe]; simp) (by simp)

theorem post_same {R : Rules} {G : Seq → Prop} {root : List Item} {pos : List Nat} {seq : Item}
    {gaps : List Seq} {trace : List Ev}
    (hget : getItem root pos = some seq) (htrace : ∀ e ∈ trace, Good R G e.th)
    (hth : ∀ s, seq.th = some s → Good R G s) : Post R G root pos ⟨root, gaps, trace⟩ := by
  refine ⟨htrace, fun _ _ => rfl, ?_, fun _ _ _ _ => rfl⟩
  intro it hit s hs
  simp only [hget, Option.some.injEq] at hit
  subst hit
  exact hth s hs

theorem setSub_th (root : List Item) (pos : List Nat) (sub : Option (List Item)) :
    (getItem (setSub root pos sub) pos).map (·.th) = (getItem root pos).map (·.th) := by
  simp only [setSub, getItem_modRoot_self, Option.map_map]
  rfl

/-- Main invariant: a successful check of the item at `pos` (whose citable surroundings are good)
leaves everything off its path unchanged, makes every recorded statement good, and leaves a good
statement at `pos`. -/
theorem checkItem_post {R : Rules} {cfg : Cfg} {G : Seq → Prop} :
    ∀ (fuel : Nat) (root : List Item) (pos : List Nat) (seq : Item) (out : Out),
      checkItem R cfg fuel root pos seq = .ok out → getItem root pos = some seq →
      VisGood R G root pos → (∀ e ∈ out.trace, e.computed = none → G e.th) → Post R G root pos out := by
  intro fuel
  induction fuel with
  | zero => intro root pos seq out h; simp [checkItem] at h
  | succ fuel ih =>
    intro root pos seq out h hget hv hg
    have hpos : pos ≠ [] := by
      intro e; subst e; simp [getItem] at hget
    have hselfroot : (getItem root pos).map (·.th) = some seq.th := by simp [hget]
    simp only [checkItem] at h
    split at h
    · simp at h
    · rename_i hid
      have hid : seq.id = posId pos := by simpa using hid
      split at h
      · -- empty line
        split at h
        · simp at h
        · rename_i hnone
          simp only [Except.ok.injEq] at h
          subst h
          refine post_same hget (by simp) ?_
          intro s hs; simp [hs] at hnone
      · split at h
        · -- gap
          split at h
          · simp at h
          · rename_i t ht
            split at h
            · simp at h
            · simp only [Except.ok.injEq] at h
              subst h
              have hgt : Good R G t := Good.of_justified (.gap (hg ⟨pos, seq.rule, none, t⟩ (by simp) rfl))
              refine post_same hget ?_ ?_
              · intro e he; simp at he; subst he; exact hgt
              · intro s hs; rw [ht] at hs; simp at hs; subst hs; exact hgt
        · split at h
          · -- compute_only: the stated sequent is taken on trust
            split at h
            · rename_i hnone
              simp only [Except.ok.injEq] at h; subst h
              exact post_same hget (by simp) (fun s hs => by rw [hnone] at hs; simp at hs)
            · rename_i t ht
              split at h
              · split at h
                · simp at h
                · rename_i s hs
                  split at h
                  · simp at h
                  · rename_i o ho
                    simp only [Except.ok.injEq] at h; subst h
                    have hgt : Good R G t :=
                      Good.of_justified (.gap (hg ⟨pos, seq.rule, none, t⟩ (by simp) rfl))
                    have hgo : ∀ e ∈ o.trace, e.computed = none → G e.th :=
                      fun e he => hg e (List.mem_append_left _ he)
                    have hH : ∀ k, getItem root (pos ++ [0 + k]) = s[k]? := by
                      intro k
                      rw [getItem_snoc _ _ hpos, hget]
                      simp [hs]
                    have hv0 : VisGood R G root (pos ++ [0]) := by
                      intro q hq
                      rcases (vis_snoc_iff pos 0 q).mp hq with hq' | ⟨b, hb, _⟩
                      · exact hv q hq'
                      · omega
                    have PL := checkList_post (R := R) (G := G) (checkItem R cfg fuel) pos
                      (fun root pos seq out => ih root pos seq out) s root 0 o ho hH hv0 hgo
                    refine ⟨?_, ?_, ?_, ?_⟩
                    · intro e he
                      rcases List.mem_append.mp he with he | he
                      · exact PL.trace e he
                      · simp at he; subst he; exact hgt
                    · intro q hq
                      exact PL.frame q (fun m _ => hq.append_right [m])
                    · intro it hit u hu
                      have := PL.above pos [] (by simp)
                      rw [hit, hselfroot] at this
                      simp only [Option.map_some, Option.some.injEq] at this
                      rw [this, ht] at hu
                      simp at hu; subst hu; exact hgt
                    · intro q e hqe _
                      exact PL.above q e hqe
              · simp only [Except.ok.injEq] at h; subst h
                have hgt : Good R G t :=
                  Good.of_justified (.gap (hg ⟨pos, seq.rule, none, t⟩ (by simp) rfl))
                refine post_same hget ?_ ?_
                · intro e he; simp at he; subst he; exact hgt
                · intro u hu; rw [ht] at hu; simp at hu; subst hu; exact hgt
          · split at h
            · -- theorem
              split at h
              · simp at h
              · simp at h
              · rename_i r hr
                exact finish_post h hselfroot (fun _ _ => rfl) (fun _ _ _ _ => rfl) (by simp)
                  (fun r' hr' => by simp at hr'; subst hr'; exact Good.of_justified (.thm hr))
            · split at h
              · -- variable
                split at h
                · simp at h
                · rename_i r hr
                  exact finish_post h hselfroot (fun _ _ => rfl) (fun _ _ _ _ => rfl) (by simp)
                    (fun r' hr' => by simp at hr'; subst hr'; exact Good.of_justified (.var hr))
              · split at h
                · -- subproof
                  split at h
                  · simp at h
                  · rename_i s hs
                    split at h
                    · simp at h
                    · rename_i o ho
                      have hgo : ∀ e ∈ o.trace, e.computed = none → G e.th :=
                        fun e he => hg e (finish_trace_mem h e he)
                      have hH : ∀ k, getItem root (pos ++ [0 + k]) = s[k]? := by
                        intro k
                        rw [getItem_snoc _ _ hpos, hget]
                        simp [hs]
                      have hv0 : VisGood R G root (pos ++ [0]) := by
                        intro q hq
                        rcases (vis_snoc_iff pos 0 q).mp hq with hq' | ⟨b, hb, _⟩
                        · exact hv q hq'
                        · omega
                      have PL := checkList_post (R := R) (G := G) (checkItem R cfg fuel) pos
                        (fun root pos seq out => ih root pos seq out) s root 0 o ho hH hv0 hgo
                      refine finish_post h ?_ ?_ ?_ PL.trace ?_
                      · rw [PL.above pos [] (by simp)]; exact hselfroot
                      · intro q hq
                        exact PL.frame q (fun m _ => hq.append_right [m])
                      · intro q e hqe _
                        exact PL.above q e hqe
                      · intro r hr
                        exact lastTh_good hpos hr (fun m => PL.items m (Nat.zero_le m))
                · -- rule application
                  split at h
                  · simp at h
                  · rename_i pths hpths
                    split at h
                    · simp at h
                    · rename_i prevThs hprev
                      have hgoodp : ∀ p ∈ prevThs, Good R G p := by
                        intro p hp
                        rw [hid] at hpths
                        exact resolvePrevs_good hv _ _ hpths p (allSome_mem _ _ hprev p hp)
                      obtain ⟨qs, hqs, hw⟩ := good_list hgoodp
                      split at h
                      · -- primitive
                        split at h
                        · simp at h
                        · split at h
                          · simp at h
                          · simp at h
                          · simp at h
                          · rename_i r hr
                            exact finish_post h hselfroot (fun _ _ => rfl) (fun _ _ _ _ => rfl) (by simp)
                              (fun r' hr' => by simp at hr'; subst hr'; exact Good.of_justified (.prim hqs hw hr))
                      · -- macro
                        rename_i level hkind
                        by_cases hc : levelOk level cfg.checkLevel = true
                        · rw [if_pos hc] at h
                          split at h
                          · simp at h
                          · rename_i r hr
                            exact finish_post h hselfroot (fun _ _ => rfl) (fun _ _ _ _ => rfl) (by simp)
                              (fun r' hr' => by simp at hr'; subst hr'; exact Good.of_justified (.eval hqs hw hr))
                        · rw [if_neg hc] at h
                          split at h
                          · simp at h
                          · rename_i exp hexp
                            split at h
                            · simp at h
                            · rename_i o ho
                              have hgo : ∀ e ∈ o.trace, e.computed = none → G e.th :=
                                fun e he => hg e (finish_trace_mem h e he)
                              have hget1 : getItem (setSub root pos (some exp)) pos
                                  = some { seq with sub := some exp } := by
                                simp [setSub, getItem_modRoot_self, hget]
                              have hH : ∀ k, getItem (setSub root pos (some exp)) (pos ++ [0 + k]) = exp[k]? := by
                                intro k
                                rw [getItem_snoc _ _ hpos, hget1]
                                simp
                              have hv0 : VisGood R G (setSub root pos (some exp)) (pos ++ [0]) := by
                                intro q hq it hit
                                rcases (vis_snoc_iff pos 0 q).mp hq with hq' | ⟨b, hb, _⟩
                                · simp only [setSub, getItem_modRoot_diverge _ _ hq'.diverge] at hit
                                  exact hv q hq' it hit
                                · omega
                              have PL := checkList_post (R := R) (G := G) (checkItem R cfg fuel) pos
                                (fun root pos seq out => ih root pos seq out) exp _ 0 o ho hH hv0 hgo
                              refine finish_post h ?_ ?_ ?_ PL.trace ?_
                              · rw [setSub_th, PL.above pos [] (by simp), setSub_th]; exact hselfroot
                              · intro q hq
                                simp only [setSub]
                                rw [getItem_modRoot_diverge _ _ hq, PL.frame q (fun m _ => hq.append_right [m])]
                                simp only [setSub]
                                rw [getItem_modRoot_diverge _ _ hq]
                              · intro q e hqe he
                                subst hqe
                                simp only [setSub]
                                rw [getItem_modRoot_above_th _ _ _ _ he, PL.above q e rfl]
                                simp only [setSub]
                                rw [getItem_modRoot_above_th _ _ _ _ he]
                              · intro r hr
                                exact lastTh_good hpos hr (fun m => PL.items m (Nat.zero_le m))
                      · simp at h

end Holpy.C02
