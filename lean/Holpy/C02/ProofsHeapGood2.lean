import Holpy.C02.ProofsHeapGood
/-
C02 — the loop over a block and the item step of the heap invariant.
-/
namespace Holpy.C02

def ItemGood (R : Rules) (G : Seq → Prop) (st : Store) (pos : List Nat) (i : Nat) (out : HOut) : Prop :=
  (∀ e ∈ out.trace, Good R G e.th) ∧ idOf st i = some (posId pos) ∧ (∀ s, cellTh out.st i = some s → Good R G s)

theorem ancIds_sibling {st : Store} {root : Nat} {pre : List Nat} {j m : Nat}
    (h : AncIds st root (pre ++ [j])) : AncIds st root (pre ++ [m]) := by
  intro a k e hpos he
  rcases snoc_split hpos with ⟨h1, _, _⟩ | ⟨s', hs, hpre⟩
  · exact absurd h1 he
  · exact h a k (s' ++ [j]) (by rw [hpre]; simp) (by simp)

theorem ancIds_child {st : Store} {root : Nat} {pos : List Nat} {i m : Nat}
    (hpar : ∃ a k la, pos = a ++ [k] ∧ listAt st root a = some la ∧ la[k]? = some i)
    (hA : AncIds st root pos) (hi : idOf st i = some (posId pos)) : AncIds st root (pos ++ [m]) := by
  intro a k e hpos he
  rcases snoc_split hpos with ⟨h1, _, _⟩ | ⟨s', hs, hp⟩
  · exact absurd h1 he
  · by_cases hs' : s' = []
    · subst hs'
      obtain ⟨a0, k0, la, h0, hla, hk⟩ := hpar
      rw [h0] at hp
      have := List.append_inj' hp (by simp)
      simp at this
      obtain ⟨rfl, rfl⟩ := this
      exact ⟨la, i, hla, hk, by rw [← h0]; exact hi⟩
    · exact hA a k s' hp hs'

theorem visGood_child0 {R : Rules} {G : Seq → Prop} {st : Store} {root : Nat} {pos : List Nat}
    (hV : VisGoodH R G st root pos) : VisGoodH R G st root (pos ++ [0]) := by
  intro a x suf b hpos hb la j hla hj
  rcases snoc_split hpos with ⟨_, _, hx⟩ | ⟨s', _, hp⟩
  · omega
  · exact hV a x s' b hp hb la j hla hj

theorem hCheckList_good {R : Rules} {G : Seq → Prop} {root : Nat}
    (f : Store → List Nat → Nat → Except Err HOut) (pre : List Nat)
    (hfF : ∀ st pos i out, f st pos i = .ok out → HFrame st pos out)
    (hfG : ∀ st pos i out, f st pos i = .ok out →
      (∃ a k la, pos = a ++ [k] ∧ listAt st root a = some la ∧ la[k]? = some i) →
      AncIds st root pos → VisGoodH R G st root pos →
      (∀ e ∈ out.trace, e.computed = none → G e.th) → ItemGood R G st pos i out) :
    ∀ (rest : List Nat) (st : Store) (j : Nat) (out : HOut),
      hCheckList f pre st j rest = .ok out →
      ∀ l, listAt st root pre = some l → (∀ k, l[j + k]? = rest[k]?) →
      AncIds st root (pre ++ [j]) → VisGoodH R G st root (pre ++ [j]) →
      (∀ e ∈ out.trace, e.computed = none → G e.th) →
      (∀ e ∈ out.trace, Good R G e.th) ∧ listAt out.st root pre = some l ∧
        VisGoodH R G out.st root (pre ++ [j + rest.length]) := by
  intro rest
  induction rest with
  | nil =>
    intro st j out h l hl _ _ hV _
    simp only [hCheckList, Except.ok.injEq] at h
    subst h
    exact ⟨by simp, hl, by simpa using hV⟩
  | cons i rest ih =>
    intro st j out h l hl hidx hA hV hT
    simp only [hCheckList] at h
    split at h
    · simp at h
    · rename_i o1 h1
      split at h
      · simp at h
      · rename_i o2 h2
        simp only [Except.ok.injEq] at h
        subst h
        simp only [List.forall_mem_append] at hT
        have hi0 : l[j]? = some i := by simpa using hidx 0
        have hpar : ∃ a k la, pre ++ [j] = a ++ [k] ∧ listAt st root a = some la ∧ la[k]? = some i :=
          ⟨pre, j, l, rfl, hl, hi0⟩
        have G1 := hfG _ _ _ _ h1 hpar hA hV hT.1
        have K := Keeps.ofFrame (hfF _ _ _ _ h1)
        have hB := blocks_of hpar hA
        have hl1 : listAt o1.st root pre = some l := K.lists hA pre [j] rfl (by simp) l hl
        have hA1 : AncIds o1.st root (pre ++ [j + 1]) := ancIds_sibling (K.ancIds hA)
        have hVold := K.visGood hA hB hV
        have hV1 : VisGoodH R G o1.st root (pre ++ [j + 1]) := by
          intro a x suf b hpos hb la j0 hla hj0
          rcases snoc_split hpos with ⟨_, ha, hx⟩ | ⟨s', hs, hp⟩
          · subst ha; subst hx
            rw [hl1] at hla
            have := Option.some.inj hla
            subst this
            by_cases hbj : b = j
            · subst hbj
              rw [hi0] at hj0
              have := Option.some.inj hj0
              subst this
              refine ⟨by rw [K.ids _ (idOf_some_lt G1.2.1)]; exact G1.2.1, G1.2.2⟩
            · exact hVold _ j [] b rfl (by omega) _ j0 hl1 hj0
          · exact hVold a x (s' ++ [j]) b (by rw [hp]; simp) hb la j0 hla hj0
        have hidx1 : ∀ k, l[j + 1 + k]? = rest[k]? := by
          intro k
          have := hidx (k + 1)
          rw [show j + (k + 1) = j + 1 + k by omega] at this
          simpa using this
        obtain ⟨t2, l2, v2⟩ := ih o1.st (j + 1) o2 h2 l hl1 hidx1 hA1 hV1 hT.2
        refine ⟨?_, l2, ?_⟩
        · intro e he
          rcases List.mem_append.mp he with he | he
          · exact G1.1 e he
          · exact t2 e he
        · have : j + (i :: rest).length = j + 1 + rest.length := by simp; omega
          rw [this]; exact v2

end Holpy.C02
