import Holpy.C02.Heap
import Holpy.C02.ProofsHeapFrame
/-
C02 — positions in the object graph: the list of a block, `find_item` as "block list, then index",
and when these survive a change of the store.
-/
namespace Holpy.C02

/-- `item.subproof.items` of the object `j`. -/
def childList (st : Store) (j : Nat) : Option (List Nat) :=
  (st.items[j]?).bind fun it => it.sub.bind fun p => st.proofs[p]?

/-- From the list `l` of a block, the list of the block reached along `path`. -/
def listFrom (st : Store) : List Nat → List Nat → Option (List Nat)
  | l, [] => some l
  | l, k :: rest => (l[k]?).bind fun j => (childList st j).bind fun l' => listFrom st l' rest

/-- The `items` list of the block at position `a` (`[]` is the proof `root` itself). -/
def listAt (st : Store) (root : Nat) (a : List Nat) : Option (List Nat) :=
  (st.proofs[root]?).bind fun l => listFrom st l a

theorem listFrom_snoc (st : Store) : ∀ (a : List Nat) (l : List Nat) (k : Nat),
    listFrom st l (a ++ [k]) = (listFrom st l a).bind fun la => (la[k]?).bind fun j => childList st j := by
  intro a
  induction a with
  | nil => intro l k; simp [listFrom]
  | cons x a ih =>
    intro l k
    simp only [List.cons_append, listFrom]
    cases hx : l[x]? with
    | none => simp
    | some j =>
      cases hc : childList st j with
      | none => simp [hc]
      | some l' => simpa [hc] using ih l' k

theorem listAt_snoc (st : Store) (root : Nat) (a : List Nat) (k : Nat) :
    listAt st root (a ++ [k]) = (listAt st root a).bind fun la => (la[k]?).bind fun j => childList st j := by
  simp only [listAt]
  cases hr : st.proofs[root]? with
  | none => simp
  | some l => simpa using listFrom_snoc st a l k

theorem hDescend_posId (st : Store) : ∀ (rest : List Nat) (b : Nat) (j : Nat),
    hDescend st j (posId (rest ++ [b])) =
      ((childList st j).bind fun l => listFrom st l rest).bind fun la => la[b]? := by
  intro rest
  induction rest with
  | nil =>
    intro b j
    simp only [List.nil_append, posId, List.map_cons, List.map_nil, hDescend, childList, listFrom,
      Int.ofNat_eq_natCast, pyIdx_ofNat]
    cases hj : st.items[j]? with
    | none => simp
    | some it =>
      cases hs : it.sub with
      | none => simp [hs]
      | some p =>
        cases hp : st.proofs[p]? with
        | none => simp [hs, hp]
        | some l => cases hb : l[b]? <;> simp [hs, hp, hb]
  | cons k rest ih =>
    intro b j
    simp only [List.cons_append, posId, List.map_cons, hDescend, childList, listFrom,
      Int.ofNat_eq_natCast, pyIdx_ofNat]
    cases hj : st.items[j]? with
    | none => simp
    | some it =>
      cases hs : it.sub with
      | none => simp [hs]
      | some p =>
        cases hp : st.proofs[p]? with
        | none => simp [hs, hp]
        | some l =>
          cases hk : l[k]? with
          | none => simp [hs, hp, hk]
          | some j' =>
            have := ih b j'
            simp only [posId, List.map_append, List.map_cons, List.map_nil, Int.ofNat_eq_natCast] at this
            simp [hs, hp, hk, this, childList]

/-- `find_item` on a non-negative id: the list of the enclosing block, then the last index. -/
theorem hFind_posId (st : Store) (root : Nat) (a : List Nat) (b : Nat) :
    hFind st root (posId (a ++ [b])) = (listAt st root a).bind fun la => la[b]? := by
  unfold hFind
  have h : (posId (a ++ [b])).any (fun i => decide (i < 0)) = false := by simp [posId]
  simp only [h]
  cases a with
  | nil =>
    simp only [List.nil_append, posId, List.map_cons, List.map_nil, listAt, listFrom,
      Int.ofNat_eq_natCast, pyIdx_ofNat]
    cases hr : st.proofs[root]? with
    | none => simp
    | some l => cases hb : l[b]? <;> simp [hDescend, hb]
  | cons k rest =>
    simp only [List.cons_append, posId, List.map_cons, listAt, listFrom, Int.ofNat_eq_natCast, pyIdx_ofNat]
    cases hr : st.proofs[root]? with
    | none => simp
    | some l =>
      cases hk : l[k]? with
      | none => simp [hk]
      | some j =>
        have := hDescend_posId st rest b j
        simp only [posId, List.map_append, List.map_cons, List.map_nil, Int.ofNat_eq_natCast] at this
        simp [hk, this]

/-- `find_item` succeeds only on ids without negative components. -/
theorem hFind_some_nonneg {st : Store} {root : Nat} {p : List Int} {j : Nat} (h : hFind st root p = some j) :
    ∃ q : List Nat, p = posId q ∧ q ≠ [] := by
  unfold hFind at h
  split at h
  · simp at h
  · rename_i hneg
    cases p with
    | nil => simp at h
    | cons x t =>
      refine ⟨(x :: t).map Int.toNat, ?_, by simp⟩
      simp only [posId, List.map_map]
      simp only [Bool.not_eq_true, List.any_eq_false, decide_eq_true_eq] at hneg
      conv => lhs; rw [← List.map_id (x :: t)]
      apply List.map_congr_left
      intro y hy
      have := hneg y hy
      simp only [Function.comp, Int.ofNat_eq_natCast, id]
      omega

/-- The list of a block survives a change of the store that keeps the proof lists that exist and
the cells on the way to the block. -/
theorem listAt_stable (st st' : Store) (root : Nat)
    (hp : ∀ p, p < st.proofs.length → st'.proofs[p]? = st.proofs[p]?) :
    ∀ (a : List Nat) (la : List Nat), listAt st root a = some la →
      (∀ a' k e la' j, a = a' ++ k :: e → listAt st root a' = some la' → la'[k]? = some j →
        st'.items[j]? = st.items[j]?) →
      listAt st' root a = some la := by
  intro a
  induction hn : a.length generalizing a with
  | zero =>
    intro la h _
    have : a = [] := List.eq_nil_of_length_eq_zero hn
    subst this
    simp only [listAt, listFrom, Option.bind_eq_some_iff, Option.some.injEq] at h ⊢
    obtain ⟨l, hl, rfl⟩ := h
    refine ⟨l, ?_, rfl⟩
    rw [hp root (List.getElem?_eq_some_iff.mp hl).1]; exact hl
  | succ n ih =>
    intro la h hc
    rcases list_nil_or_snoc a with ha | ⟨a0, k, ha⟩
    · subst ha; simp at hn
    · subst ha
      rw [listAt_snoc] at h ⊢
      simp only [Option.bind_eq_some_iff] at h
      obtain ⟨la', hla', j, hj, hcl⟩ := h
      have h1 := ih a0 (by simp at hn; omega) la' hla'
        (fun a' k' e la'' j' he => hc a' k' (e ++ [k]) la'' j' (by rw [he]; simp))
      have hcell : st'.items[j]? = st.items[j]? := hc a0 k [] la' j rfl hla' hj
      simp only [h1, Option.bind_some, hj]
      simp only [childList, Option.bind_eq_some_iff] at hcl ⊢
      obtain ⟨it, hit, p, hps, hpl⟩ := hcl
      exact ⟨it, by rw [hcell]; exact hit, p, hps, by rw [hp p (List.getElem?_eq_some_iff.mp hpl).1]; exact hpl⟩

end Holpy.C02
