import Holpy.C02.Model
/-
C02 — the heap view of the checker: what `check_proof` does on the Python OBJECT GRAPH.
`ProofItem` and `Proof` objects live in a store and are referred to by index, so one object may sit
at several places (and cycles are possible); `seq.th = …` and `seq.subproof = …` are updates of the
store cell of `seq`, seen through every reference to it; a macro expansion allocates fresh objects.
The walk carries the position path `pos` exactly like `_check_proof_item(prf, seq, pos, …)`.
Import-free (linked into the driver).
-/
namespace Holpy.C02

/-- A `ProofItem` object; `sub` is the index of the `Proof` object in `subproof`. -/
structure HItem where
  id : List Int
  rule : String
  args : Arg
  prevs : List (List Int)
  th : Option Seq
  sub : Option Nat
  deriving Inhabited

/-- The heap: `ProofItem` objects and `Proof` objects (`items` lists of item indices). -/
structure Store where
  items : List HItem
  proofs : List (List Nat)
  deriving Inhabited

def Store.setTh (st : Store) (i : Nat) (th : Option Seq) : Store :=
  { st with items := st.items.modify i (fun it => { it with th := th }) }

def Store.setSub (st : Store) (i : Nat) (sub : Option Nat) : Store :=
  { st with items := st.items.modify i (fun it => { it with sub := sub }) }

/-- Fresh objects for a tree of items (what `macro.expand` returns); returns the indices of the
top-level items.  `fuel` bounds the nesting depth of the tree (deeper subproofs are dropped). -/
def allocItems : Nat → Store → List Item → Store × List Nat
  | _, st, [] => (st, [])
  | 0, st, _ => (st, [])
  | fuel + 1, st, it :: rest =>
    let (st1, sub) : Store × Option Nat :=
      match it.sub with
      | none => (st, none)
      | some s =>
        let (st', idxs) := allocItems fuel st s
        ({ st' with proofs := st'.proofs ++ [idxs] }, some st'.proofs.length)
    let i := st1.items.length
    let st2 : Store := { st1 with items := st1.items ++ [⟨it.id, it.rule, it.args, it.prevs, it.th, sub⟩] }
    let (st3, idxs) := allocItems (fuel + 1) st2 rest
    (st3, i :: idxs)
termination_by fuel _ l => (fuel, l.length)

/-- A fresh `Proof` object holding fresh copies of `items`; returns its index. -/
def allocProof (st : Store) (items : List Item) : Store × Nat :=
  let (st', idxs) := allocItems 64 st items
  ({ st' with proofs := st'.proofs ++ [idxs] }, st'.proofs.length)

/-- `item.subproof.items[k]` … along a path of Python ints, from the item with index `i`. -/
def hDescend (st : Store) : Nat → List Int → Option Nat
  | i, [] => some i
  | i, k :: rest =>
    match st.items[i]? with
    | none => none
    | some it =>
      match it.sub with
      | none => none
      | some p =>
        match st.proofs[p]? with
        | none => none
        | some l =>
          match pyIdx l k with
          | none => none
          | some j => hDescend st j rest

/-- `Proof.find_item` on the object graph rooted at the `Proof` object `root`. -/
def hFind (st : Store) (root : Nat) (id : List Int) : Option Nat :=
  if id.any (fun i => decide (i < 0)) then none
  else match id with
    | [] => none
    | k :: rest =>
      match st.proofs[root]? with
      | none => none
      | some l =>
        match pyIdx l k with
        | none => none
        | some j => hDescend st j rest

/-- `seq.subproof.items[-1].th` for the item with index `i`. -/
def hLastTh (st : Store) (i : Nat) : Option Seq :=
  match st.items[i]? with
  | none => none
  | some it =>
    match it.sub with
    | none => none
    | some p =>
      match st.proofs[p]? with
      | none => none
      | some l =>
        match l.getLast? with
        | none => none
        | some j => (st.items[j]?).bind (·.th)

/-- State after a (partial) walk: the heap, what was appended to `rpt.gaps` and to the trace, and
(ghost) which object was walked at which position. -/
structure HOut where
  st : Store
  gaps : List Seq
  trace : List Ev
  walked : List (List Nat × Nat)

def hResolvePrevs (st : Store) (root : Nat) (id : List Int) : List (List Int) → Except Err (List (Option Seq))
  | [] => .ok []
  | p :: ps =>
    match Gen.can_depend_on id p with
    | none => .error .crash
    | some false => .error (.check .cannotDepend)
    | some true =>
      match hFind st root p with
      | none => .error (.check .prevNotFound)
      | some j =>
        match hResolvePrevs st root id ps with
        | .error e => .error e
        | .ok r => .ok ((st.items[j]?).bind (·.th) :: r)

def hCheckList (f : Store → List Nat → Nat → Except Err HOut) (pre : List Nat) :
    Store → Nat → List Nat → Except Err HOut
  | st, _, [] => .ok ⟨st, [], [], []⟩
  | st, j, i :: rest =>
    match f st (pre ++ [j]) i with
    | .error e => .error e
    | .ok o1 =>
      match hCheckList f pre o1.st (j + 1) rest with
      | .error e => .error e
      | .ok o2 => .ok ⟨o2.st, o1.gaps ++ o2.gaps, o1.trace ++ o2.trace, o1.walked ++ o2.walked⟩

/-- Tail of `_check_proof_item` on the heap; the cell of item `i` is read as it is now. -/
def hFinish (R : Rules) (st : Store) (pos : List Nat) (i : Nat) (gaps : List Seq)
    (trace : List Ev) (walked : List (List Nat × Nat)) (res : Option Seq) : Except Err HOut :=
  match res with
  | none => .error .crash
  | some r =>
    match st.items[i]? with
    | none => .error .crash
    | some seq =>
      match seq.th with
      | none =>
        if R.typeOk r then .ok ⟨st.setTh i (some r), gaps, trace ++ [⟨pos, seq.rule, some r, r⟩], walked ++ [(pos, i)]⟩
        else .error (.check .typing)
      | some t =>
        if canProve r t then
          if R.typeOk t then .ok ⟨st, gaps, trace ++ [⟨pos, seq.rule, some r, t⟩], walked ++ [(pos, i)]⟩
          else .error (.check .typing)
        else .error (.check .mismatch)

/-- `_check_proof_item(prf, seq, pos, …)` where `prf` is the `Proof` object `root` and `seq` the
`ProofItem` object `i`. -/
def hCheckItem (R : Rules) (cfg : Cfg) (root : Nat) : Nat → Store → List Nat → Nat → Except Err HOut
  | 0, _, _, _ => .error .fuel
  | fuel + 1, st, pos, i =>
    match st.items[i]? with
    | none => .error .crash
    | some seq =>
    if seq.id ≠ posId pos then .error (.check .idMismatch)
    else if seq.rule = "" then
      (if seq.th.isSome then .error (.check .emptyStated) else .ok ⟨st, [], [], [(pos, i)]⟩)
    else if seq.rule = gapRule then
      match seq.th with
      | none => .error .assertion
      | some t =>
        if cfg.noGaps then .error (.check .gaps)
        else .ok ⟨st, [t], [⟨pos, seq.rule, none, t⟩], [(pos, i)]⟩
    else if cfg.computeOnly && seq.th.isSome then
      match seq.th with
      | none => .ok ⟨st, [], [], [(pos, i)]⟩
      | some t =>
        if seq.rule = "subproof" then
          match seq.sub.bind (st.proofs[·]?) with
          | none => .error .crash
          | some l =>
            match hCheckList (hCheckItem R cfg root fuel) pos st 0 l with
            | .error e => .error e
            | .ok o => .ok ⟨o.st, o.gaps, o.trace ++ [⟨pos, seq.rule, none, t⟩], o.walked ++ [(pos, i)]⟩
        else .ok ⟨st, [], [⟨pos, seq.rule, none, t⟩], [(pos, i)]⟩
    else if seq.rule = "theorem" then
      match R.thm seq.args with
      | .error .theory => .error (.check .theoremNotFound)
      | .error e => .error (.raised e)
      | .ok r => hFinish R st pos i [] [] [] (some r)
    else if seq.rule = "variable" then
      match R.var seq.args with
      | .error e => .error (.raised e)
      | .ok r => hFinish R st pos i [] [] [] (some r)
    else if seq.rule = "subproof" then
      match seq.sub.bind (st.proofs[·]?) with
      | none => .error .crash
      | some l =>
        match hCheckList (hCheckItem R cfg root fuel) pos st 0 l with
        | .error e => .error e
        | .ok o => hFinish R o.st pos i o.gaps o.trace o.walked (hLastTh o.st i)
    else
      match hResolvePrevs st root seq.id seq.prevs with
      | .error e => .error e
      | .ok pths =>
        match allSome pths with
        | .error e => .error e
        | .ok prevThs =>
          match R.kind seq.rule with
          | .prim =>
            if !R.primSig seq.rule seq.args then .error (.check .invalidInput)
            else match R.prim seq.rule seq.args prevThs with
            | .error .invalidDerivation => .error (.check .invalidDerivation)
            | .error .typeError => .error (.check .invalidInput)
            | .error e => .error (.raised e)
            | .ok r => hFinish R st pos i [] [] [] (some r)
          | .macro level =>
            if levelOk level cfg.checkLevel then
              match R.eval seq.rule seq.args prevThs with
              | .error e => .error (.raised e)
              | .ok r => hFinish R st pos i [] [] [] (some r)
            else
              match R.expand seq.rule seq.id seq.args (seq.prevs.zip prevThs) with
              | .error e => .error (.raised e)
              | .ok exp =>
                let (st1, p) := allocProof st exp
                match hCheckList (hCheckItem R cfg root fuel) pos (st1.setSub i (some p)) 0
                    ((st1.proofs[p]?).getD []) with
                | .error e => .error e
                | .ok o =>
                  hFinish R (o.st.setSub i none) pos i o.gaps o.trace o.walked (hLastTh o.st i)
          | .unknown => .error (.check .methodNotFound)

structure HRes where
  th : Option Seq
  st : Store
  gaps : List Seq
  trace : List Ev
  walked : List (List Nat × Nat)

/-- `check_proof(prf, …)` for the `Proof` object `root` of the heap. -/
def hCheckProof (R : Rules) (cfg : Cfg) (fuel : Nat) (st : Store) (root : Nat) : Except Err HRes :=
  match st.proofs[root]? with
  | none => .error .crash
  | some l =>
    match hCheckList (hCheckItem R cfg root fuel) [] st 0 l with
    | .error e => .error e
    | .ok o =>
      match (o.st.proofs[root]?).bind (·.getLast?) with
      | none => .error .crash
      | some j => .ok ⟨(o.st.items[j]?).bind (·.th), o.st, o.gaps, o.trace, o.walked⟩

end Holpy.C02
