import Holpy.C02.Heap
import Holpy.C02.ProofsCheck
import Holpy.C02.ProofsHeapEnv
/-
C02 — the invariant of the checker, proved directly on the heap walk (object graph with shared and
cyclic objects): every statement citable from the object under inspection is good; walking an
object keeps that and makes its own statement good.
-/
namespace Holpy.C02

theorem dep_vis {pos q : List Nat} (hd : Gen.can_depend_on (posId pos) (posId q) = some true) : Vis pos q := by
  obtain ⟨pre, x, y, suf, hq, hpos, hlt⟩ := (can_depend_on_iff _ _).mp hd
  unfold posId at hq hpos
  obtain ⟨pre1, l1, rfl, hpre1, hl1⟩ := List.map_eq_append_iff.mp hq
  obtain ⟨pre2, l2, rfl, hpre2, hl2⟩ := List.map_eq_append_iff.mp hpos
  obtain ⟨b, rfl, hb⟩ : ∃ b, l1 = [b] ∧ Int.ofNat b = x := by
    cases l1 with
    | nil => simp at hl1
    | cons b t =>
      cases t with
      | nil => exact ⟨b, rfl, by simpa using hl1⟩
      | cons _ _ => simp at hl1
  obtain ⟨a, suf', rfl, ha, _⟩ : ∃ a suf', l2 = a :: suf' ∧ Int.ofNat a = y ∧ True := by
    cases l2 with
    | nil => simp at hl2
    | cons a t => exact ⟨a, t, rfl, by simpa using (List.cons.inj hl2).1, trivial⟩
  have : pre1 = pre2 := posId_injective (by unfold posId; rw [hpre1, hpre2])
  subst this
  refine ⟨pre1, a, b, suf', rfl, rfl, ?_⟩
  subst hb ha
  simpa using hlt

/-- A citation that passes `can_depend_on` and `find_item` on the heap reads a cell that sits, in a
block list on the way to `pos`, strictly before the entry leading to `pos`. -/
theorem hFind_visible {st : Store} {root : Nat} {pos : List Nat} {p : List Int} {j : Nat}
    (hd : Gen.can_depend_on (posId pos) p = some true) (hf : hFind st root p = some j) :
    ∃ a x suf b la, pos = a ++ x :: suf ∧ b < x ∧ p = posId (a ++ [b]) ∧
      listAt st root a = some la ∧ la[b]? = some j := by
  obtain ⟨q, rfl, _⟩ := hFind_some_nonneg hf
  obtain ⟨a, x, b, suf, hpos, hq, hlt⟩ := dep_vis hd
  subst hq
  rw [hFind_posId] at hf
  simp only [Option.bind_eq_some_iff] at hf
  obtain ⟨la, hla, hj⟩ := hf
  exact ⟨a, x, suf, b, la, hpos, hlt, rfl, hla, hj⟩

theorem hResolvePrevs_good {R : Rules} {G : Seq → Prop} {st : Store} {root : Nat} {pos : List Nat}
    (hV : VisGoodH R G st root pos) :
    ∀ (ps : List (List Int)) (pths : List (Option Seq)),
      hResolvePrevs st root (posId pos) ps = .ok pths → ∀ s, some s ∈ pths → Good R G s := by
  intro ps
  induction ps with
  | nil => intro pths h s hs; simp [hResolvePrevs] at h; subst h; simp at hs
  | cons p ps ih =>
    intro pths h s hs
    simp only [hResolvePrevs] at h
    split at h
    · simp at h
    · simp at h
    · rename_i hdep
      split at h
      · simp at h
      · rename_i j hf
        split at h
        · simp at h
        · rename_i r hr
          simp only [Except.ok.injEq] at h
          subst h
          rcases List.mem_cons.mp hs with h1 | h1
          · obtain ⟨a, x, suf, b, la, hpos, hlt, _, hla, hj⟩ := hFind_visible hdep hf
            exact (hV a x suf b hpos hlt la j hla hj).2 s h1.symm
          · exact ih r hr s h1

theorem cellTh_setTh_self (st : Store) (i : Nat) (v : Option Seq) (s : Seq)
    (h : cellTh (st.setTh i v) i = some s) : v = some s := by
  simp only [cellTh, Store.setTh, List.getElem?_modify] at h
  cases hx : st.items[i]? with
  | none => simp [hx] at h
  | some it => simpa [hx] using h

theorem hFinish_good {R : Rules} {G : Seq → Prop} {st1 : Store} {pos : List Nat} {i : Nat}
    {gaps : List Seq} {trace : List Ev} {walked : List (List Nat × Nat)} {res : Option Seq} {out : HOut}
    (h : hFinish R st1 pos i gaps trace walked res = .ok out)
    (hres : ∀ r, res = some r → Good R G r) (ht : ∀ e ∈ trace, Good R G e.th) :
    (∀ e ∈ out.trace, Good R G e.th) ∧ ∀ s, cellTh out.st i = some s → Good R G s := by
  unfold hFinish at h
  split at h
  · simp at h
  · rename_i r
    have hr := hres r rfl
    split at h
    · simp at h
    · rename_i seq hseq
      split at h
      · split at h
        · simp only [Except.ok.injEq] at h; subst h
          refine ⟨?_, ?_⟩
          · intro e he
            rcases List.mem_append.mp he with he | he
            · exact ht e he
            · simp at he; subst he; exact hr
          · intro s hs
            have := cellTh_setTh_self _ _ _ _ hs
            simp at this; subst this; exact hr
        · simp at h
      · rename_i t hth
        split at h
        · rename_i hcp
          split at h
          · simp only [Except.ok.injEq] at h; subst h
            have hgt : Good R G t := hr.weaken hcp
            refine ⟨?_, ?_⟩
            · intro e he
              rcases List.mem_append.mp he with he | he
              · exact ht e he
              · simp at he; subst he; exact hgt
            · intro s hs
              simp only [cellTh, hseq, Option.bind_some, hth, Option.some.injEq] at hs
              subst hs; exact hgt
          · simp at h
        · simp at h

/-- The blocks above `pos` exist. -/
theorem blocks_of {st : Store} {root : Nat} {pos : List Nat} {i : Nat}
    (hpar : ∃ a k la, pos = a ++ [k] ∧ listAt st root a = some la ∧ la[k]? = some i)
    (hA : AncIds st root pos) :
    ∀ a e, pos = a ++ e → e ≠ [] → ∃ la, listAt st root a = some la := by
  intro a e hpos he
  cases e with
  | nil => exact absurd rfl he
  | cons k e' =>
    by_cases he' : e' = []
    · subst he'
      obtain ⟨a0, k0, la, h0, hla, _⟩ := hpar
      rw [h0] at hpos
      have := List.append_inj' hpos (by simp)
      exact ⟨la, by rw [← this.1]; exact hla⟩
    · obtain ⟨la, _, h1, _, _⟩ := hA a k e' hpos he'
      exact ⟨la, h1⟩

theorem snoc_split {pos a suf : List Nat} {j x : Nat} (h : pos ++ [j] = a ++ x :: suf) :
    (suf = [] ∧ a = pos ∧ x = j) ∨ ∃ s', suf = s' ++ [j] ∧ pos = a ++ x :: s' := by
  rcases list_nil_or_snoc suf with hs | ⟨s', z, hs⟩
  · subst hs
    have := List.append_inj' h (by simp)
    simp at this
    exact Or.inl ⟨rfl, this.1.symm, this.2.symm⟩
  · subst hs
    have e : a ++ x :: (s' ++ [z]) = (a ++ x :: s') ++ [z] := by simp
    rw [e] at h
    have := List.append_inj' h (by simp)
    simp at this
    exact Or.inr ⟨s', by rw [this.2], this.1⟩

end Holpy.C02
