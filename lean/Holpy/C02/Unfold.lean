import Holpy.C02.Heap
/-
C02 — the unfolding of an object graph: the tree of values a `Proof` object of the heap describes
(what the tree model `Model.lean` is run on).  A cyclic graph has no finite unfolding; the tree is
cut at nesting depth `n` (a cut item keeps its fields and loses its `subproof`), and the checker run
with fuel `n` never looks below that depth.  A reference to a cell that does not exist unfolds to an
item that no position accepts (empty id).  Import-free (linked into the driver).
-/
namespace Holpy.C02

/-- The value tree below the `ProofItem` object `i`, `n` levels of `subproof` deep. -/
def unfoldItem (st : Store) : Nat → Nat → Item
  | n, i =>
    match st.items[i]? with
    | none => ⟨[], "", .none, [], none, none⟩
    | some h =>
      ⟨h.id, h.rule, h.args, h.prevs, h.th,
        match n with
        | 0 => none
        | n + 1 => (h.sub.bind (st.proofs[·]?)).map (fun l => l.map (unfoldItem st n))⟩

/-- The value tree of the `Proof` object `root` (`none`: there is no such object). -/
def unfoldProof (st : Store) (n : Nat) (root : Nat) : Option (List Item) :=
  (st.proofs[root]?).map (fun l => l.map (unfoldItem st n))

/-- The tree model run on the unfolding of the graph. -/
def checkUnfolded (R : Rules) (cfg : Cfg) (fuel : Nat) (st : Store) (root : Nat) : Except Err Res :=
  match unfoldProof st fuel root with
  | none => .error .crash
  | some prf => checkProof R cfg fuel prf

/-- Same verdict and, when accepted, same returned theorem, reported gaps and trace. -/
def sameOutcome (h : Except Err HRes) (t : Except Err Res) : Bool :=
  match h, t with
  | .ok a, .ok b =>
    let ev : Ev → List Nat × String × Option Seq × Seq := fun e => (e.pos, e.rule, e.computed, e.th)
    decide (a.th = b.th) && decide (a.gaps = b.gaps) && decide (a.trace.map ev = b.trace.map ev)
  | .error _, .error _ => true
  | _, _ => false

end Holpy.C02
