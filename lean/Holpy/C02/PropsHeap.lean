import Holpy.C02.Heap
import Holpy.C02.Toy
import Holpy.C02.ProofsHeap
import Holpy.C02.ProofsHeapGood3
/-
C02 — property theorems about the heap view (`Heap.lean`: the walk of `check_proof` over the Python
object graph, objects by index, shared and cyclic objects allowed).
NOT proved here: `graph_check_eq_unfolding` (the heap walk accepts iff the tree model accepts the
unfolding, with the same outputs).  That agreement is tied three ways on every run instead — the
implementation on the object graph, the heap model on the same graph and the tree model on its
unfolding must give the same verdict and outputs (streams shared-directed, shared-random, random,
exh-gaps, corpus) — and argued in the header of Model.lean.
-/
namespace Holpy.C02

/-- Every object an accepted heap walk visits carries, as its id, the position at which it was
visited (ids are never written, allocation of expansions only appends objects). -/
theorem accepted_walk_ids (R : Rules) (cfg : Cfg) (fuel : Nat) (st : Store) (root : Nat) (res : HRes)
    (h : hCheckProof R cfg fuel st root = .ok res) :
    ∀ pos i, (pos, i) ∈ res.walked → (res.st.items[i]?).map (·.id) = some (posId pos) :=
  fun pos i hm => hCheckProof_inv h (pos, i) hm

/-- Hence the walked part of an accepted object graph is a tree: no `ProofItem` object is visited at
two different positions, however the objects are shared (or cyclic) elsewhere. -/
theorem accepted_walk_is_tree (R : Rules) (cfg : Cfg) (fuel : Nat) (st : Store) (root : Nat) (res : HRes)
    (h : hCheckProof R cfg fuel st root = .ok res) :
    ∀ p1 p2 i, (p1, i) ∈ res.walked → (p2, i) ∈ res.walked → p1 = p2 := by
  intro p1 p2 i h1 h2
  have e1 := hCheckProof_inv h (p1, i) h1
  have e2 := hCheckProof_inv h (p2, i) h2
  rw [e1] at e2
  exact posId_injective (Option.some.inj e2)

/-- Object 0 (`⊢ 1 by verif_ax`, id 0) is the first line and ALSO sits in the unwalked attachment of
object 1 (`verif_id from 0`): accepted, both objects walked once. -/
def exShared : Store :=
  ⟨[⟨[0], "verif_ax", .list [.list [], .num 1], [], none, none⟩,
    ⟨[1], "verif_id", .none, [[0]], none, some 1⟩],
   [[0, 1], [0]]⟩

example : ∃ res, hCheckProof (Toy.rules []) ⟨true, false, 0⟩ 5 exShared 0 = .ok res ∧
    res.walked = [([0], 0), ([1], 1)] ∧ res.th = some ⟨[], 1⟩ := by
  refine ⟨_, rfl, ?_, ?_⟩ <;> rfl

/-- The audit's circular object graph: object 2 (id 2, cites 0) sits inside block 0 and at top level. -/
def exCircular : Store :=
  ⟨[⟨[0], "subproof", .none, [], some ⟨[], 9⟩, some 1⟩,
    ⟨[1], "verif_id", .none, [[0]], none, none⟩,
    ⟨[2], "verif_id", .none, [[0]], none, none⟩],
   [[0, 1, 2], [2]]⟩

example : hCheckProof (Toy.rules []) ⟨true, false, 0⟩ 5 exCircular 0 = .error (.check .idMismatch) := rfl

/-- Soundness of `check_proof` proved directly on the OBJECT GRAPH (no unfolding, shared and cyclic
objects allowed): if the heap walk accepts, every statement that became citable and the returned
theorem are no stronger than a sequent the rules derive from the statements nobody computed (the
placeholders; under `compute_only` also the stated sequents taken on trust).  The derivation is
built in walk order; aliasing cannot help because an accepted walk writes only cells whose ids
extend the current position, so the statements already cited stay what they were. -/
theorem heap_accepted_justified (R : Rules) (cfg : Cfg) (fuel : Nat) (st : Store) (root : Nat) (res : HRes)
    (h : hCheckProof R cfg fuel st root = .ok res) :
    (∀ e ∈ res.trace, ∃ r, Justified R (fun g => ∃ e' ∈ res.trace, e'.computed = none ∧ e'.th = g) r ∧
      canProve r e.th = true) ∧
    (∀ s, res.th = some s → ∃ r, Justified R (fun g => ∃ e' ∈ res.trace, e'.computed = none ∧ e'.th = g) r ∧
      canProve r s = true) :=
  hCheckProof_good h _ (fun e he hn => ⟨e, he, hn, rfl⟩)

example : ∃ res, hCheckProof (Toy.rules []) ⟨true, false, 0⟩ 5 exShared 0 = .ok res ∧
    res.trace.map (·.computed) = [some ⟨[], 1⟩, some ⟨[], 1⟩] := by
  refine ⟨_, rfl, ?_⟩; rfl

/-- `find_item` on the object graph resolves by position only: a successful lookup has no negative
component and is not empty, and returns the entry `b` of the list of the block at `a` where the id is
`a ++ [b]` (so negative, empty and out-of-range ids resolve to nothing).  If moreover `can_depend_on`
allowed the citation from `pos`, that entry stands, in a block on the way to `pos`, strictly before
the entry leading to `pos` — a place the walk has finished before it reached `pos`. -/
theorem hFind_only_walked_positions (st : Store) (root : Nat) (p : List Int) (j : Nat)
    (h : hFind st root p = some j) :
    (∀ x ∈ p, 0 ≤ x) ∧
    (∃ a b la, p = posId (a ++ [b]) ∧ listAt st root a = some la ∧ la[b]? = some j) ∧
    (∀ pos, Gen.can_depend_on (posId pos) p = some true →
      ∃ a x suf b la, pos = a ++ x :: suf ∧ b < x ∧ p = posId (a ++ [b]) ∧
        listAt st root a = some la ∧ la[b]? = some j) := by
  obtain ⟨q, hq, hne⟩ := hFind_some_nonneg h
  refine ⟨?_, ?_, fun pos hd => hFind_visible hd h⟩
  · intro x hx; subst hq; simp [posId] at hx; obtain ⟨n, _, rfl⟩ := hx; simp
  · rcases list_nil_or_snoc q with e | ⟨a, b, e⟩
    · exact absurd e hne
    · subst e; subst hq
      rw [hFind_posId] at h
      simp only [Option.bind_eq_some_iff] at h
      obtain ⟨la, hla, hj⟩ := h
      exact ⟨a, b, la, rfl, hla, hj⟩

example : hFind exShared 0 [-1] = none ∧ hFind exShared 0 [] = none ∧ hFind exShared 0 [5] = none ∧
    hFind exShared 0 [1, 0] = some 0 ∧ hFind exShared 0 [1, -1] = none := by decide

end Holpy.C02
