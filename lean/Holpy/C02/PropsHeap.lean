import Holpy.C02.Heap
import Holpy.C02.Toy
import Holpy.C02.ProofsHeap
/-
C02 — property theorems about the heap view (`Heap.lean`: the walk of `check_proof` over the Python
object graph, objects by index, shared and cyclic objects allowed).
NOT proved here: `graph_check_eq_unfolding` (the heap walk accepts iff the tree model accepts the
unfolding, with the same outputs).  That agreement is tied three ways on every run instead — the
implementation on the object graph, the heap model on the same graph and the tree model on its
unfolding must give the same verdict and outputs (streams shared-directed, shared-random, random,
exh-gaps, corpus) — and argued in the header of Model.lean.
-/
namespace Holpy.C02

/-- Every object an accepted heap walk visits carries, as its id, the position at which it was
visited (ids are never written, allocation of expansions only appends objects). -/
theorem accepted_walk_ids (R : Rules) (cfg : Cfg) (fuel : Nat) (st : Store) (root : Nat) (res : HRes)
    (h : hCheckProof R cfg fuel st root = .ok res) :
    ∀ pos i, (pos, i) ∈ res.walked → (res.st.items[i]?).map (·.id) = some (posId pos) :=
  fun pos i hm => hCheckProof_inv h (pos, i) hm

/-- Hence the walked part of an accepted object graph is a tree: no `ProofItem` object is visited at
two different positions, however the objects are shared (or cyclic) elsewhere. -/
theorem accepted_walk_is_tree (R : Rules) (cfg : Cfg) (fuel : Nat) (st : Store) (root : Nat) (res : HRes)
    (h : hCheckProof R cfg fuel st root = .ok res) :
    ∀ p1 p2 i, (p1, i) ∈ res.walked → (p2, i) ∈ res.walked → p1 = p2 := by
  intro p1 p2 i h1 h2
  have e1 := hCheckProof_inv h (p1, i) h1
  have e2 := hCheckProof_inv h (p2, i) h2
  rw [e1] at e2
  exact posId_injective (Option.some.inj e2)

/-- Object 0 (`⊢ 1 by verif_ax`, id 0) is the first line and ALSO sits in the unwalked attachment of
object 1 (`verif_id from 0`): accepted, both objects walked once. -/
def exShared : Store :=
  ⟨[⟨[0], "verif_ax", .list [.list [], .num 1], [], none, none⟩,
    ⟨[1], "verif_id", .none, [[0]], none, some 1⟩],
   [[0, 1], [0]]⟩

example : ∃ res, hCheckProof (Toy.rules []) ⟨true, false, 0⟩ 5 exShared 0 = .ok res ∧
    res.walked = [([0], 0), ([1], 1)] ∧ res.th = some ⟨[], 1⟩ := by
  refine ⟨_, rfl, ?_, ?_⟩ <;> rfl

/-- The audit's circular object graph: object 2 (id 2, cites 0) sits inside block 0 and at top level. -/
def exCircular : Store :=
  ⟨[⟨[0], "subproof", .none, [], some ⟨[], 9⟩, some 1⟩,
    ⟨[1], "verif_id", .none, [[0]], none, none⟩,
    ⟨[2], "verif_id", .none, [[0]], none, none⟩],
   [[0, 1, 2], [2]]⟩

example : hCheckProof (Toy.rules []) ⟨true, false, 0⟩ 5 exCircular 0 = .error (.check .idMismatch) := rfl

end Holpy.C02
