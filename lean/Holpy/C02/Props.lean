import Holpy.C02.Model
import Holpy.C02.Gen
import Holpy.C02.Toy
import Holpy.C02.Proofs
/-
C02 — property theorems (statements live here, helper lemmas in Proofs*.lean).
Every theorem about the checker is for an arbitrary rule layer `R : Rules`, an arbitrary fuel and
an arbitrary proof object (ids, citations, statements and nesting are unconstrained).
`Justified R G s`: `s` has a derivation by the rule layer from weakenings of derivable sequents and
the gaps in `G` (ProofsCheck.lean).  The trace lists every item whose statement became citable
during the run, at any depth, including items of macro expansions.
-/
namespace Holpy.C02

/-! ### Examples used for non-vacuity -/

def axItem (k : Nat) (hs : List Nat) (c : Nat) (th : Option Seq) : Item :=
  ⟨[Int.ofNat k], "verif_ax", .list [.list (hs.map fun h => Arg.num (Int.ofNat h)), .num (Int.ofNat c)], [], th, none⟩

/-- `0: 1 ⊢ 2 by verif_ax; 1: 1,3,4 ⊢ 2 by verif_weaken 3 from 0` (statement weaker than computed). -/
def exPrf : List Item :=
  [axItem 0 [1] 2 none, ⟨[1], "verif_weaken", .num 3, [[0]], some ⟨[1, 3, 4], 2⟩, none⟩]

/-- A level-1 macro whose expansion is `0.0: ⊢ 0 by verif_ax; 0.1: placeholder ⊢ 1; 0.2: verif_id from 0.0`. -/
def exExp : List Item :=
  [⟨[0], "verif_exp", .list [.list [.list [], .num 0],
      .list [.list [.list [.num 0, .num 0], .str "verif_ax", .list [.list [], .num 0], .list [], .none, .none],
             .list [.list [.num 0, .num 1], .str gapRule, .none, .list [], .list [.list [], .num 1], .none],
             .list [.list [.num 0, .num 2], .str "verif_id", .none, .list [.list [.num 0, .num 0]], .none, .none]]],
    [], none, none⟩]

/-! ### The checker -/

/-- `check_proof` (not `compute_only`) accepts ⇒ every statement that became citable during the run
(items at any depth and inside expansions: the trace), every statement left in the top-level items
and the returned theorem are no stronger than a sequent with a `Justified` derivation whose only
unproved leaves are the reported gaps.  The derivation is built in check order, so forward, self,
circular and into-a-closed-block citations cannot contribute, whatever ids the items carry. -/
theorem accepted_justified (R : Rules) (cfg : Cfg) (fuel : Nat) (prf : List Item) (res : Res)
    (hco : cfg.computeOnly = false) (h : checkProof R cfg fuel prf = .ok res) :
    (∀ e ∈ res.trace, ∃ r, Justified R (fun g => g ∈ res.gaps) r ∧ canProve r e.th = true) ∧
    (∀ (m : Nat) (it : Item) (s : Seq), res.root[m]? = some it → it.th = some s →
      ∃ r, Justified R (fun g => g ∈ res.gaps) r ∧ canProve r s = true) ∧
    (∀ s, res.th = some s → ∃ r, Justified R (fun g => g ∈ res.gaps) r ∧ canProve r s = true) :=
  checkProof_post hco h

example : ∃ res, checkProof (Toy.rules []) ⟨true, false, 0⟩ 5 exPrf = .ok res ∧
    res.th = some ⟨[1, 3, 4], 2⟩ ∧ res.trace.length = 2 := by
  refine ⟨_, rfl, ?_, ?_⟩ <;> rfl

/-- An item is accepted only at the position path its id spells (the guard `seq.id.id != pos`). -/
theorem accepted_id_is_position (R : Rules) (cfg : Cfg) (fuel : Nat) (root : List Item) (pos : List Nat)
    (seq : Item) (out : Out) (h : checkItem R cfg fuel root pos seq = .ok out) : seq.id = posId pos := by
  cases fuel with
  | zero => simp [checkItem] at h
  | succ fuel =>
    simp only [checkItem] at h
    split at h
    · simp at h
    · rename_i hid; simpa using hid

/-- Hence one item (a `ProofItem` object sitting at two places of the proof object has one id) cannot
be accepted at two different walked positions, whatever the state of the proof at either moment. -/
theorem shared_item_refused (R : Rules) (cfg : Cfg) (f1 f2 : Nat) (root1 root2 : List Item)
    (pos1 pos2 : List Nat) (seq : Item) (o1 o2 : Out) (hne : pos1 ≠ pos2)
    (h1 : checkItem R cfg f1 root1 pos1 seq = .ok o1) (h2 : checkItem R cfg f2 root2 pos2 seq = .ok o2) :
    False := by
  have e1 := accepted_id_is_position R cfg f1 root1 pos1 seq o1 h1
  have e2 := accepted_id_is_position R cfg f2 root2 pos2 seq o2 h2
  exact hne (posId_injective (e1.symm.trans e2))

/- the item with id 2 of the audit's circular proof is refused inside block 0 (position 0.0) -/
example : checkItem (Toy.rules []) ⟨true, false, 0⟩ 3 [] [0, 0]
    ⟨[2], "verif_id", .none, [[0]], none, none⟩ = .error (.check .idMismatch) := rfl

/-- The trace covers the proof object: every item reached through `subproof` blocks from a
top-level item (empty lines excepted) has an event at its position with its rule and, if it states
a sequent, that sequent.  With `accepted_justified`: every stated sequent of such an item is no
stronger than a justified one. -/
theorem trace_covers (R : Rules) (cfg : Cfg) (fuel : Nat) (prf : List Item) (res : Res)
    (hco : cfg.computeOnly = false) (h : checkProof R cfg fuel prf = .ok res)
    (k : Nat) (top it : Item) (q : List Nat) (hk : prf[k]? = some top) (hr : ReachFrom top q it)
    (hne : it.rule ≠ "") :
    (∃ e ∈ res.trace, e.pos = k :: q ∧ e.rule = it.rule ∧ ∀ t, it.th = some t → e.th = t) ∧
    (∀ t, it.th = some t → ∃ r, Justified R (fun g => g ∈ res.gaps) r ∧ canProve r t = true) := by
  have hc := checkProof_covers hco h hk hr hne
  refine ⟨hc, ?_⟩
  intro t ht
  obtain ⟨e, he, _, _, h3⟩ := hc
  have := (checkProof_post hco h).1 e he
  rw [h3 t ht] at this
  exact this

/- the second item of `exPrf` is reached (as a top-level item) and states `1,3,4 ⊢ 2` -/
example : ReachFrom (exPrf[1]) [] (exPrf[1]) ∧ (exPrf[1]).rule ≠ "" ∧ (exPrf[1]).th = some ⟨[1, 3, 4], 2⟩ :=
  ⟨.here _, by decide, rfl⟩

/-- With `no_gaps` an accepted proof met no placeholder at any depth (the trace also covers the
items of every expansion produced while checking), and no gap is reported. -/
theorem no_gaps_exact (R : Rules) (cfg : Cfg) (fuel : Nat) (prf : List Item) (res : Res)
    (hng : cfg.noGaps = true) (h : checkProof R cfg fuel prf = .ok res) :
    res.gaps = [] ∧ ∀ e ∈ res.trace, e.rule ≠ gapRule := by
  have ht := checkProof_trok h
  have hne : ∀ e ∈ res.trace, e.rule ≠ gapRule := by
    intro e he hr
    have := ((ht.1 e he).1 hr).2
    rw [hng] at this; simp at this
  refine ⟨?_, hne⟩
  rw [ht.2, gapsOf]
  have : res.trace.filter (fun e => e.rule == gapRule) = [] := by
    rw [List.filter_eq_nil_iff]
    intro e he hc
    exact hne e he (by simpa using hc)
  rw [this]; rfl

/-- With `no_gaps` the derivations of `accepted_justified` have no unproved leaves at all. -/
theorem no_gaps_justified (R : Rules) (cfg : Cfg) (fuel : Nat) (prf : List Item) (res : Res)
    (hco : cfg.computeOnly = false) (hng : cfg.noGaps = true) (h : checkProof R cfg fuel prf = .ok res) :
    (∀ e ∈ res.trace, ∃ r, Justified R (fun _ => False) r ∧ canProve r e.th = true) ∧
    (∀ s, res.th = some s → ∃ r, Justified R (fun _ => False) r ∧ canProve r s = true) := by
  have hg := (no_gaps_exact R cfg fuel prf res hng h).1
  have P := checkProof_post hco h
  have mono : ∀ s, Good R (fun g => g ∈ res.gaps) s → Good R (fun _ => False) s :=
    fun s hs => hs.mono (fun g hgm => by rw [hg] at hgm; simp at hgm)
  exact ⟨fun e he => mono _ (P.1 e he), fun s hs => mono _ (P.2.2 s hs)⟩

example : ∃ res, checkProof (Toy.rules []) ⟨true, false, 0⟩ 5 exPrf = .ok res := ⟨_, rfl⟩
/- the same proof with a placeholder inside an expansion is refused under `no_gaps` -/
example : checkProof (Toy.rules []) ⟨true, false, 0⟩ 5 exExp = .error (.check .gaps) := rfl

/-- With gaps allowed (or not) the reported gaps are exactly the statements of the placeholder
items met during the run, in order, including those inside expansions. -/
theorem gaps_reported_exact (R : Rules) (cfg : Cfg) (fuel : Nat) (prf : List Item) (res : Res)
    (h : checkProof R cfg fuel prf = .ok res) :
    res.gaps = (res.trace.filter (fun e => e.rule == gapRule)).map (·.th) := by
  exact (checkProof_trok h).2

example : ∃ res, checkProof (Toy.rules []) ⟨false, false, 0⟩ 5 exExp = .ok res ∧
    res.gaps = [⟨[], 1⟩] ∧ res.trace.length = 4 := by
  refine ⟨_, rfl, ?_, ?_⟩ <;> rfl

/-- Every accepted item's stated (stored) sequent is no stronger than what its rule yielded:
same conclusion, and the computed hypotheses are among the stated ones. -/
theorem stated_not_stronger (R : Rules) (cfg : Cfg) (fuel : Nat) (prf : List Item) (res : Res)
    (h : checkProof R cfg fuel prf = .ok res) :
    ∀ e ∈ res.trace, ∀ r, e.computed = some r → r.concl = e.th.concl ∧ ∀ x ∈ r.hyps, x ∈ e.th.hyps := by
  intro e he r hr
  exact (canProve_iff r e.th).mp ((checkProof_trok h).1 e he |>.2.1 r hr)

example : ∃ res, checkProof (Toy.rules []) ⟨true, false, 0⟩ 5 exPrf = .ok res ∧
    res.trace.map (·.computed) = [some ⟨[1], 2⟩, some ⟨[1, 3], 2⟩] := by
  refine ⟨_, rfl, ?_⟩; rfl
/- a statement stronger than the computed sequent is refused -/
example : checkProof (Toy.rules []) ⟨true, false, 0⟩ 5 [axItem 0 [1] 2 (some ⟨[], 2⟩)] = .error (.check .mismatch) := rfl

/-! ### `compute_only` and `check_level` -/

/-- In every mode, `compute_only` included: each statement that became citable and the returned
theorem are no stronger than what the rules compute from the statements nobody computed (`T`:
placeholders and, under `compute_only` only, stated sequents taken on trust).  Nothing is claimed
about the trusted statements themselves; without `compute_only` there are none (third part). -/
theorem compute_only_computes (R : Rules) (cfg : Cfg) (fuel : Nat) (prf : List Item) (res : Res)
    (h : checkProof R cfg fuel prf = .ok res) :
    (∀ e ∈ res.trace, ∃ r, Justified R (fun g => ∃ e' ∈ res.trace, e'.computed = none ∧ e'.th = g) r ∧
      canProve r e.th = true) ∧
    (∀ s, res.th = some s → ∃ r, Justified R (fun g => ∃ e' ∈ res.trace, e'.computed = none ∧ e'.th = g) r ∧
      canProve r s = true) ∧
    (∀ e ∈ res.trace, e.computed = none → e.rule = gapRule ∨ cfg.computeOnly = true) := by
  have P := checkProof_post_gen h (fun g => ∃ e' ∈ res.trace, e'.computed = none ∧ e'.th = g)
    (fun e he hn => ⟨e, he, hn, rfl⟩)
  exact ⟨P.1, P.2.2, fun e he hn => ((checkProof_trok h).1 e he).2.2 hn⟩

/- compute_only: line 0 states `⊢ 7` although its rule yields `1 ⊢ 2`; it is trusted, line 1 computes from it -/
example : ∃ res, checkProof (Toy.rules []) ⟨true, true, 0⟩ 5
      [axItem 0 [1] 2 (some ⟨[], 7⟩), ⟨[1], "verif_weaken", .num 3, [[0]], none, none⟩] = .ok res ∧
    res.th = some ⟨[3], 7⟩ ∧ res.trace.map (·.computed) = [none, some ⟨[3], 7⟩] := by
  refine ⟨_, rfl, ?_, ?_⟩ <;> rfl

/-- The checker evaluates a macro only when its level is at most `check_level`, expands it
otherwise, and applies a primitive rule only to an argument of the declared kind: checking against
the rule layer with all other calls disabled (`Rules.restrict`) is the same computation.  So the
derivations of `accepted_justified` use `eval` only for macros of level ≤ `check_level`. -/
theorem check_level_trusts_only_leq_level (R : Rules) (cfg : Cfg) (fuel : Nat) (prf : List Item) :
    checkProof (R.restrict cfg.checkLevel) cfg fuel prf = checkProof R cfg fuel prf ∧
    (∀ r a ps s, (R.restrict cfg.checkLevel).eval r a ps = .ok s →
      ∃ l, R.kind r = .macro l ∧ levelOk l cfg.checkLevel = true ∧ R.eval r a ps = .ok s) ∧
    (∀ r a ps s, (R.restrict cfg.checkLevel).prim r a ps = .ok s →
      R.kind r = .prim ∧ R.primSig r a = true ∧ R.prim r a ps = .ok s) :=
  ⟨checkProof_restrict R cfg fuel prf, fun _ _ _ _ h => restrict_eval_ok h, fun _ _ _ _ h => restrict_prim_ok h⟩

/- at level 0 the level-1 macro of `exExp` is expanded (4 events), at level 1 it is evaluated (1 event) -/
example : (∃ res, checkProof (Toy.rules []) ⟨false, false, 0⟩ 5 exExp = .ok res ∧ res.trace.length = 4) ∧
    (∃ res, checkProof (Toy.rules []) ⟨false, false, 1⟩ 5 exExp = .ok res ∧ res.trace.length = 1) ∧
    ((Toy.rules []).restrict 0).eval "verif_exp" (.list [.list [.list [], .num 0], .list []]) [] = .error (.other 0) := by
  refine ⟨⟨_, rfl, rfl⟩, ⟨_, rfl, rfl⟩, rfl⟩

/-! ### `ProofReport` counters -/

/-- The report counters as the model derives them from the trace (`countsOf`, compared with
`rpt.thm_steps / prim_steps / macro_steps / macros_eval / macros_expand` of the implementation on
every run): each counted step is an event with a computed sequent, a macro listed as evaluated has
level ≤ `check_level`, a macro listed as expanded does not. -/
theorem report_counts_exact (R : Rules) (lvl : Nat) (trace : List Ev) :
    (countsOf R lvl trace).thm + (countsOf R lvl trace).prim + (countsOf R lvl trace).mac
      ≤ (trace.filter (fun e => e.computed.isSome)).length ∧
    (∀ n ∈ (countsOf R lvl trace).evald, ∃ l, R.kind n = .macro l ∧ levelOk l lvl = true) ∧
    (∀ n ∈ (countsOf R lvl trace).expanded, ∃ l, R.kind n = .macro l ∧ levelOk l lvl = false) := by
  have key : ∀ (tr : List Ev) (c : Counts) (k : Nat),
      c.thm + c.prim + c.mac ≤ k →
      (∀ n ∈ c.evald, ∃ l, R.kind n = .macro l ∧ levelOk l lvl = true) →
      (∀ n ∈ c.expanded, ∃ l, R.kind n = .macro l ∧ levelOk l lvl = false) →
      (tr.foldl (countEv R lvl) c).thm + (tr.foldl (countEv R lvl) c).prim + (tr.foldl (countEv R lvl) c).mac
        ≤ k + (tr.filter (fun e => e.computed.isSome)).length ∧
      (∀ n ∈ (tr.foldl (countEv R lvl) c).evald, ∃ l, R.kind n = .macro l ∧ levelOk l lvl = true) ∧
      (∀ n ∈ (tr.foldl (countEv R lvl) c).expanded, ∃ l, R.kind n = .macro l ∧ levelOk l lvl = false) := by
    intro tr
    induction tr with
    | nil => intro c k h1 h2 h3; exact ⟨by simpa using h1, h2, h3⟩
    | cons e tr ih =>
      intro c k h1 h2 h3
      simp only [List.foldl_cons]
      cases hc : e.computed with
      | none =>
        have : countEv R lvl c e = c := by simp [countEv, hc]
        rw [this]
        simpa [List.filter, hc] using ih c k h1 h2 h3
      | some r =>
        have facts : (countEv R lvl c e).thm + (countEv R lvl c e).prim + (countEv R lvl c e).mac ≤ k + 1 ∧
            (∀ n ∈ (countEv R lvl c e).evald, ∃ l, R.kind n = .macro l ∧ levelOk l lvl = true) ∧
            (∀ n ∈ (countEv R lvl c e).expanded, ∃ l, R.kind n = .macro l ∧ levelOk l lvl = false) := by
          by_cases ht : e.rule = "theorem"
          · simp only [countEv, hc, ht, if_true]; exact ⟨by first | omega | (simp; omega), h2, h3⟩
          · by_cases hv : (e.rule = "variable" || e.rule = "subproof") = true
            · simp only [countEv, hc, ht, hv, if_true, if_false]; exact ⟨by first | omega | (simp; omega), h2, h3⟩
            · cases hk : R.kind e.rule with
              | prim => simp only [countEv, hc, ht, hv, hk, if_false]; exact ⟨by first | omega | (simp; omega), h2, h3⟩
              | unknown => simp only [countEv, hc, ht, hv, hk, if_false]; exact ⟨by first | omega | (simp; omega), h2, h3⟩
              | «macro» l =>
                by_cases hl : levelOk l lvl = true
                · simp only [countEv, hc, ht, hv, hk, hl, if_true, if_false]
                  refine ⟨by first | omega | (simp; omega), ?_, h3⟩
                  intro n hn
                  have hn' : n ∈ c.evald ∨ n = e.rule := by
                    simp only [addName] at hn
                    by_cases hcn : c.evald.contains e.rule = true
                    · simp only [hcn, if_true] at hn; exact Or.inl hn
                    · simp only [hcn] at hn
                      rcases List.mem_append.mp hn with hn | hn
                      · exact Or.inl hn
                      · exact Or.inr (by simpa using hn)
                  rcases hn' with hn' | hn'
                  · exact h2 n hn'
                  · subst hn'; exact ⟨l, hk, hl⟩
                · simp only [countEv, hc, ht, hv, hk, hl, if_false]
                  refine ⟨by first | omega | (simp; omega), h2, ?_⟩
                  intro n hn
                  have hn' : n ∈ c.expanded ∨ n = e.rule := by
                    simp only [addName] at hn
                    by_cases hcn : c.expanded.contains e.rule = true
                    · simp only [hcn, if_true] at hn; exact Or.inl hn
                    · simp only [hcn] at hn
                      rcases List.mem_append.mp hn with hn | hn
                      · exact Or.inl hn
                      · exact Or.inr (by simpa using hn)
                  rcases hn' with hn' | hn'
                  · exact h3 n hn'
                  · subst hn'; exact ⟨l, hk, by simpa using hl⟩
        have := ih (countEv R lvl c e) (k + 1) facts.1 facts.2.1 facts.2.2
        simpa [List.filter, hc, Nat.add_assoc, Nat.add_comm 1] using this
  have := key trace ⟨0, 0, 0, [], []⟩ 0 (by simp) (by simp) (by simp)
  simpa [countsOf] using this

example : countsOf (Toy.rules []) 0
    [⟨[0], "verif_ax", some ⟨[], 1⟩, ⟨[], 1⟩⟩, ⟨[1, 0], "assume", some ⟨[2], 2⟩, ⟨[2], 2⟩⟩,
     ⟨[1], "verif_exp", some ⟨[2], 2⟩, ⟨[2], 2⟩⟩, ⟨[2], gapRule, none, ⟨[], 3⟩⟩]
    = ⟨0, 1, 1, ["verif_ax"], ["verif_exp"]⟩ := by decide

/-! ### `checked_extend` -/

/-- One extension offered with a proof and installed without error: the proof is accepted by
`check_proof` with `no_gaps=True` in the theory as it is, reports no gap, its final sequent
`can_prove`s the stated theorem (which so has a derivation without unproved leaves), the theorem is
what the table now holds under that name, and nothing is added to the axiom report. -/
theorem extend_admits_only_proved (R : List (String × Seq) → Rules) (fuel : Nat) (st st' : ExtState)
    (name : String) (th : Seq) (prf : List Item)
    (h : checkedExtend R fuel st [.theorem name th (some prf)] = (st', none)) :
    ∃ res r, checkProof (R st.theorems) ⟨true, false, 0⟩ fuel prf = .ok res ∧ res.gaps = [] ∧
      res.th = some r ∧ canProve r th = true ∧
      (∃ q, Justified (R st.theorems) (fun _ => False) q ∧ canProve q th = true) ∧
      lookupThm st'.theorems name = some th ∧ st'.axioms = st.axioms := by
  simp only [checkedExtend] at h
  split at h
  · simp at h
  · rename_i res hres
    split at h
    · simp at h
    · rename_i r hr
      split at h
      · rename_i hcp
        simp only [Prod.mk.injEq, and_true] at h
        subst h
        have hg := (no_gaps_exact _ _ _ _ _ rfl hres).1
        obtain ⟨q, hq, hqr⟩ := (no_gaps_justified _ _ _ _ _ rfl rfl hres).2 r hr
        exact ⟨res, r, hres, hg, hr, hcp, ⟨q, hq, canProve_trans hqr hcp⟩, lookupThm_upsert_self _ _ _, rfl⟩
      · simp at h

/-- Invariant of `checked_extend` over a whole list of extensions, names may repeat and overwrite
each other: whatever the table holds under a name afterwards was held under that name before, or is
reported as an axiom, or comes from an extension `pre ++ [Theorem(name, th, prf)] ++ post` of the
list whose proof `check_proof` accepts with `no_gaps=True` in the table reached after `pre`,
without gaps, concluding `th` — so `th` has a derivation without unproved leaves over that table. -/
theorem extend_list_admits_only_proved (R : List (String × Seq) → Rules) (fuel : Nat) :
    ∀ (exts : List Ext) (st st' : ExtState) (err : Option Err),
      checkedExtend R fuel st exts = (st', err) →
      ∀ name th, lookupThm st'.theorems name = some th →
        lookupThm st.theorems name = some th ∨ (name, th) ∈ st'.axioms ∨
        ∃ pre post prf mid res r, exts = pre ++ Ext.theorem name th (some prf) :: post ∧
          checkedExtend R fuel st pre = (mid, none) ∧
          checkProof (R mid.theorems) ⟨true, false, 0⟩ fuel prf = .ok res ∧ res.gaps = [] ∧
          res.th = some r ∧ canProve r th = true ∧
          ∃ q, Justified (R mid.theorems) (fun _ => False) q ∧ canProve q th = true := by
  intro exts
  induction exts with
  | nil =>
    intro st st' err h name th hm
    simp only [checkedExtend, Prod.mk.injEq] at h
    rw [← h.1] at hm; exact Or.inl hm
  | cons e rest ih =>
    intro st st' err h name th hm
    -- from the invariant of `rest` started in the state after `e`
    have lift : ∀ st1 : ExtState, checkedExtend R fuel st1 rest = (st', err) →
        (∀ pre mid, checkedExtend R fuel st1 pre = (mid, none) →
          checkedExtend R fuel st (e :: pre) = (mid, none)) →
        (lookupThm st1.theorems name = some th →
          lookupThm st.theorems name = some th ∨ (name, th) ∈ st'.axioms ∨
          ∃ pre post prf mid res r, e :: rest = pre ++ Ext.theorem name th (some prf) :: post ∧
            checkedExtend R fuel st pre = (mid, none) ∧
            checkProof (R mid.theorems) ⟨true, false, 0⟩ fuel prf = .ok res ∧ res.gaps = [] ∧
            res.th = some r ∧ canProve r th = true ∧
            ∃ q, Justified (R mid.theorems) (fun _ => False) q ∧ canProve q th = true) →
        lookupThm st.theorems name = some th ∨ (name, th) ∈ st'.axioms ∨
          ∃ pre post prf mid res r, e :: rest = pre ++ Ext.theorem name th (some prf) :: post ∧
            checkedExtend R fuel st pre = (mid, none) ∧
            checkProof (R mid.theorems) ⟨true, false, 0⟩ fuel prf = .ok res ∧ res.gaps = [] ∧
            res.th = some r ∧ canProve r th = true ∧
            ∃ q, Justified (R mid.theorems) (fun _ => False) q ∧ canProve q th = true := by
      intro st1 h1 hstep hin
      rcases ih st1 st' err h1 name th hm with h2 | h2 | ⟨pre, post, prf, mid, res, r, hsplit, hpre, hrest⟩
      · exact hin h2
      · exact Or.inr (Or.inl h2)
      · exact Or.inr (Or.inr ⟨e :: pre, post, prf, mid, res, r, by rw [hsplit]; rfl, hstep pre mid hpre, hrest⟩)
    cases e with
    | other =>
      simp only [checkedExtend] at h
      exact lift st h (fun pre mid hp => by simpa [checkedExtend] using hp) (fun hin => Or.inl hin)
    | «theorem» n t prf =>
      cases prf with
      | none =>
        simp only [checkedExtend] at h
        refine lift _ h (fun pre mid hp => by simpa [checkedExtend] using hp) ?_
        intro hin
        by_cases hn : name = n
        · subst hn
          rw [lookupThm_upsert_self] at hin
          simp only [Option.some.injEq] at hin
          subst hin
          refine Or.inr (Or.inl ?_)
          exact (checkedExtend_axioms_prefix R fuel rest _ st' err h).subset (List.mem_append_right _ (by simp))
        · rw [lookupThm_upsert_ne _ _ _ hn] at hin
          exact Or.inl hin
      | some p =>
        simp only [checkedExtend] at h
        split at h
        · simp only [Prod.mk.injEq] at h; rw [← h.1] at hm; exact Or.inl hm
        · rename_i res hres
          split at h
          · simp only [Prod.mk.injEq] at h; rw [← h.1] at hm; exact Or.inl hm
          · rename_i r hr
            split at h
            · rename_i hcp
              refine lift _ h (fun pre mid hp => by simpa [checkedExtend, hres, hr, hcp] using hp) ?_
              intro hin
              by_cases hn : name = n
              · subst hn
                rw [lookupThm_upsert_self] at hin
                simp only [Option.some.injEq] at hin
                subst hin
                have hg := (no_gaps_exact _ _ _ _ _ rfl hres).1
                obtain ⟨q, hq, hqr⟩ := (no_gaps_justified _ _ _ _ _ rfl rfl hres).2 r hr
                exact Or.inr (Or.inr ⟨[], rest, p, st, res, r, rfl, rfl, hres, hg, hr, hcp,
                  q, hq, canProve_trans hqr hcp⟩)
              · rw [lookupThm_upsert_ne _ _ _ hn] at hin
                exact Or.inl hin
            · simp only [Prod.mk.injEq] at h; rw [← h.1] at hm; exact Or.inl hm

/- a name given twice: the second statement replaces the first, both axioms are reported; a proof by
`theorem a` offered afterwards for the OLD statement is refused -/
example : (checkedExtend Toy.rules 5 ⟨[], []⟩ [.theorem "a" ⟨[], 0⟩ none, .theorem "a" ⟨[], 1⟩ none,
      .theorem "c" ⟨[], 0⟩ (some [⟨[0], "theorem", .str "a", [], none, none⟩])])
    = (⟨[("a", ⟨[], 1⟩)], [("a", ⟨[], 0⟩), ("a", ⟨[], 1⟩)]⟩, some (.check .notConclude)) := rfl

/- a proof of `⊢ 1` offered for `⊢ 0` is refused; the right proof is admitted and is not an axiom -/
example : (checkedExtend Toy.rules 5 ⟨[], []⟩ [.theorem "bogus" ⟨[], 0⟩ (some [axItem 0 [] 1 none])]).2
    = some (.check .notConclude) := rfl
example : (checkedExtend Toy.rules 5 ⟨[], []⟩ [.theorem "ok" ⟨[], 0⟩ (some [axItem 0 [] 0 none]),
      .theorem "ax" ⟨[], 1⟩ none]).1.axioms = [("ax", ⟨[], 1⟩)] := rfl

/-! ### `ItemID` (about the definitions generated from `kernel/proof.py` on every run) -/

/-- `can_depend_on` is irreflexive. -/
theorem can_depend_on_irrefl (a : List Int) : Gen.can_depend_on a a ≠ some true :=
  can_depend_on_irrefl' a

/-- `can_depend_on` is transitive. -/
theorem can_depend_on_trans (a b c : List Int)
    (hab : Gen.can_depend_on a b = some true) (hbc : Gen.can_depend_on b c = some true) :
    Gen.can_depend_on a c = some true :=
  can_depend_on_trans' a b c hab hbc

/-- `a.can_depend_on(b)` ⇒ `b` strictly precedes `a` in document order (lexicographic order on
position paths, a block before its contents) and `b` is not an ancestor of `a`: `b` is an earlier
sibling of `a` or of one of `a`'s ancestors. -/
theorem can_depend_on_precedes (a b : List Int) (h : Gen.can_depend_on a b = some true) :
    b < a ∧ ¬ b <+: a := by
  obtain ⟨pre, x, y, suf, rfl, rfl, hlt⟩ := (can_depend_on_iff a b).mp h
  constructor
  · induction pre with
    | nil => exact List.cons_lt_cons_iff.mpr (Or.inl hlt)
    | cons c pre ih => exact List.cons_lt_cons_iff.mpr (Or.inr ⟨rfl, ih (by
        rw [can_depend_on_iff]; exact ⟨pre, x, y, suf, rfl, rfl, hlt⟩)⟩)
  · rintro ⟨t, ht⟩
    rw [List.append_assoc] at ht
    have := List.append_cancel_left ht
    simp at this
    omega

example : Gen.can_depend_on [1, 2] [1, 0] = some true ∧ Gen.can_depend_on [1, 2] [0] = some true ∧
    Gen.can_depend_on [2] [1, 0] = some false ∧ Gen.can_depend_on [0] [-1] = some true := by decide

/-- A citation accepted by `can_depend_on` + `find_item` from an item whose id is its position reads
the item at a position visible from it; in particular negative components never resolve. -/
theorem citation_resolves_visible (root : List Item) (pos : List Nat) (p : List Int) (it : Item)
    (hd : Gen.can_depend_on (posId pos) p = some true) (hf : findItem root p = some it) :
    ∃ q, Vis pos q ∧ getItem root q = some it :=
  cited_visible hd hf

example : findItem exPrf [-1] = none := rfl

end Holpy.C02
