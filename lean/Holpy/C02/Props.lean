import Holpy.C02.Model
import Holpy.C02.Toy
import Holpy.C02.Proofs
namespace Holpy.C02
end Holpy.C02
