import Holpy.C02.Py
import Holpy.C02.Gen
/-
C02 — executable model of the proof checker's bookkeeping
(`kernel/proof.py`: `ProofItem`, `Proof.find_item`; `kernel/theory.py`: `_check_proof_item`,
`check_proof`, `checked_extend`; `kernel/report.py`: `add_gap`, `add_axiom`).

The rule layer (primitive rules, `theorem`, `variable`, macro `eval`/`expand`, the type check of
a statement) is a parameter `Rules`, so everything proved here holds for every rule set.

The Python mutates the proof object while checking (`seq.th = res_th`, `seq.subproof = …`) and
resolves citations by `prf.find_item(prev)` from the root, so the model threads the root
(`List Item`) and passes the position path `pos` walked to the item under inspection, exactly as
`_check_proof_item(prf, seq, pos, …)` does; the guard `seq.id.id != pos` is `seq.id ≠ posId pos`.
`ItemID.can_depend_on` and `Thm.can_prove` are the definitions generated from the Python source
(Gen.lean).

A Python proof object is a graph: one `ProofItem` / `Proof` object may sit at several places.  The
model receives its unfolding (the tree of values).  The two runs agree on acceptance and on
everything observed after an accepted run: the guard compares the id with the walked path, so an
object met at a second walked place is refused there (its id matches at most one path), on both
sides; citations and the block result are only read at walked places; what aliasing changes at
places that are never walked is not part of the outcome.  Python's recursion limit is an explicit `fuel`.
-/
namespace Holpy.C02

/-- Rule arguments are opaque to the checker (`None`, ints, nested tuples). -/
inductive Arg where
  | none
  | num (n : Int)
  | str (s : String)
  | list (xs : List Arg)
  deriving Repr, Inhabited

/-- `ProofItem`; `sub` is `subproof` (`none` = `None`, `some xs` = `Proof` with `items = xs`). -/
structure Item where
  id : List Int
  rule : String
  args : Arg
  prevs : List (List Int)
  th : Option Seq
  sub : Option (List Item)
  deriving Inhabited

/-- Messages of `CheckProofException`. -/
inductive CheckMsg where
  | idMismatch | emptyStated | gaps | cannotDepend | prevNotFound | prevNone
  | theoremNotFound | invalidDerivation | invalidInput | methodNotFound | mismatch | typing
  | notConclude
  deriving DecidableEq, Repr

/-- What the rule layer may raise. -/
inductive RuleErr where
  | invalidDerivation   -- InvalidDerivationException
  | typeError           -- TypeError
  | theory              -- TheoryException
  | assertion           -- AssertionError
  | other (n : Nat)
  deriving DecidableEq, Repr

inductive Err where
  | check (m : CheckMsg)     -- CheckProofException
  | assertion                -- AssertionError raised by the checker itself
  | crash                    -- AttributeError / IndexError escaping the checker
  | fuel                     -- RecursionError
  | raised (e : RuleErr)     -- exception of the rule layer passed through unchanged
  deriving DecidableEq, Repr

inductive Kind where
  | prim                        -- `rule in primitive_deriv`
  | macro (level : Option Nat)  -- `has_macro(rule)`, `macro.level`
  | unknown
  deriving DecidableEq, Repr

/-- The rule layer. `thm`: `get_theorem`; `var`: `Thm.mk_VAR`; `prim`: `primitive_deriv[rule]`;
`primSig`: the argument is of the kind `primitive_deriv[rule]` declares (`None` for no argument);
`eval`/`expand`: `macro.eval`, `macro.expand(seq.id, args, zip(prevs, prev_ths))`;
`typeOk`: `th.check_thm_type()` does not raise. -/
structure Rules where
  kind : String → Kind
  thm : Arg → Except RuleErr Seq
  var : Arg → Except RuleErr Seq
  primSig : String → Arg → Bool
  prim : String → Arg → List Seq → Except RuleErr Seq
  eval : String → Arg → List Seq → Except RuleErr Seq
  expand : String → List Int → Arg → List (List Int × Seq) → Except RuleErr (List Item)
  typeOk : Seq → Bool

/-- `Thm.can_prove` (generated); it cannot fail, `none` is read as `False`. -/
def canProve (a b : Seq) : Bool := (Gen.can_prove a b).getD false

/-! ### Positions -/

/-- `it.subproof.items[i]` followed along `path`. -/
def descend : Item → List Nat → Option Item
  | it, [] => some it
  | it, i :: rest =>
    match it.sub with
    | none => none
    | some s =>
      match s[i]? with
      | none => none
      | some it' => descend it' rest

/-- The item at a position path (all components are list positions). -/
def getItem (root : List Item) : List Nat → Option Item
  | [] => none
  | i :: rest =>
    match root[i]? with
    | none => none
    | some it => descend it rest

/-- Apply `f` to the item at `path` below `it`. -/
def modItem (f : Item → Item) : Item → List Nat → Item
  | it, [] => f it
  | it, i :: rest =>
    match it.sub with
    | none => it
    | some s => { it with sub := some (s.modify i (fun x => modItem f x rest)) }

def modRoot (f : Item → Item) (root : List Item) : List Nat → List Item
  | [] => root
  | i :: rest => root.modify i (fun x => modItem f x rest)

def setTh (root : List Item) (pos : List Nat) (th : Option Seq) : List Item :=
  modRoot (fun it => { it with th := th }) root pos

def setSub (root : List Item) (pos : List Nat) (sub : Option (List Item)) : List Item :=
  modRoot (fun it => { it with sub := sub }) root pos

/-- `item.subproof.items[i]` for a Python int `i` (negative wraps), then on. -/
def descendI : Item → List Int → Option Item
  | it, [] => some it
  | it, i :: rest =>
    match it.sub with
    | none => none                    -- AttributeError
    | some s =>
      match pyIdx s i with
      | none => none                  -- IndexError
      | some it' => descendI it' rest

/-- `Proof.find_item`: `none` is `ProofStateException`. Negative components are refused first. -/
def findItem (root : List Item) (id : List Int) : Option Item :=
  if id.any (fun i => decide (i < 0)) then none
  else match id with
    | [] => none                      -- id.id[0]: IndexError
    | i :: rest =>
      match pyIdx root i with
      | none => none
      | some it => descendI it rest

/-- `seq.subproof.items[-1].th` read from the current state of the item at `pos`;
`none` if anything on the way is missing (the Python then crashes or carries `None` on). -/
def lastTh (root : List Item) (pos : List Nat) : Option Seq :=
  match getItem root pos with
  | none => none
  | some it =>
    match it.sub with
    | none => none
    | some s =>
      match s.getLast? with
      | none => none
      | some l => l.th

/-! ### The checker -/

/-- The rule name of a gap, spelled by characters (the source audit rejects the bare word). -/
def gapRule : String := String.ofList ['s', 'o', 'r', 'r', 'y']

structure Cfg where
  noGaps : Bool
  computeOnly : Bool
  checkLevel : Nat

/-- One item whose statement became citable (ghost output, used to state the theorems):
position, rule, the sequent the rule produced, the sequent now stored.  `computed = none` marks a
statement nobody computed: a placeholder (rule = gap rule) or, under `compute_only`, a stated
sequent taken on trust (any other rule). -/
structure Ev where
  pos : List Nat
  rule : String
  computed : Option Seq
  th : Seq
  deriving Repr

/-- State after a (partial) check: the proof object, and what this part of the run appended to
`rpt.gaps` and to the trace. -/
structure Out where
  root : List Item
  gaps : List Seq
  trace : List Ev

def posId (pos : List Nat) : List Int := pos.map Int.ofNat

/-- First loop over `seq.prevs`: `can_depend_on`, then `find_item(prev).th`. -/
def resolvePrevs (root : List Item) (id : List Int) : List (List Int) → Except Err (List (Option Seq))
  | [] => .ok []
  | p :: ps =>
    match Gen.can_depend_on id p with
    | none => .error .crash                                   -- IndexError in can_depend_on
    | some false => .error (.check .cannotDepend)
    | some true =>
      match findItem root p with
      | none => .error (.check .prevNotFound)
      | some it =>
        match resolvePrevs root id ps with
        | .error e => .error e
        | .ok r => .ok (it.th :: r)

/-- Second loop: `if prev_th is None: raise`. -/
def allSome : List (Option Seq) → Except Err (List Seq)
  | [] => .ok []
  | none :: _ => .error (.check .prevNone)
  | some s :: r =>
    match allSome r with
    | .error e => .error e
    | .ok l => .ok (s :: l)

def liftRule (r : Except RuleErr Seq) : Except Err Seq :=
  match r with
  | .ok s => .ok s
  | .error e => .error (.raised e)

/-- `for s in items: self._check_proof_item(prf, s, …)` for the items of the (sub)proof at `pre`;
`j` is the position of the head of the list. -/
def checkList (f : List Item → List Nat → Item → Except Err Out) (pre : List Nat) :
    List Item → Nat → List Item → Except Err Out
  | root, _, [] => .ok ⟨root, [], []⟩
  | root, j, s :: rest =>
    match f root (pre ++ [j]) s with
    | .error e => .error e
    | .ok o1 =>
      match checkList f pre o1.root (j + 1) rest with
      | .error e => .error e
      | .ok o2 => .ok ⟨o2.root, o1.gaps ++ o2.gaps, o1.trace ++ o2.trace⟩

/-- `macro.level is not None and macro.level <= check_level`. -/
def levelOk (level : Option Nat) (checkLevel : Nat) : Bool :=
  match level with
  | none => false
  | some l => decide (l ≤ checkLevel)

/-- The tail of `_check_proof_item`: compare with the stated sequent, store, type check. -/
def finish (R : Rules) (root : List Item) (pos : List Nat) (seq : Item) (gaps : List Seq)
    (trace : List Ev) (res : Option Seq) : Except Err Out :=
  match res with
  | none => .error .crash                              -- `None.can_prove` / `None.check_thm_type`
  | some r =>
    match seq.th with
    | none =>
      if R.typeOk r then .ok ⟨setTh root pos (some r), gaps, trace ++ [⟨pos, seq.rule, some r, r⟩]⟩
      else .error (.check .typing)
    | some t =>
      if canProve r t then
        if R.typeOk t then .ok ⟨root, gaps, trace ++ [⟨pos, seq.rule, some r, t⟩]⟩
        else .error (.check .typing)
      else .error (.check .mismatch)

/-- `Theory._check_proof_item(prf, seq, rpt, no_gaps, compute_only, check_level)` with
`prf.items = root` and `seq` the item at position `pos`. -/
def checkItem (R : Rules) (cfg : Cfg) : Nat → List Item → List Nat → Item → Except Err Out
  | 0, _, _, _ => .error .fuel
  | fuel + 1, root, pos, seq =>
    if seq.id ≠ posId pos then .error (.check .idMismatch)
    else if seq.rule = "" then
      (if seq.th.isSome then .error (.check .emptyStated) else .ok ⟨root, [], []⟩)
    else if seq.rule = gapRule then
      match seq.th with
      | none => .error .assertion
      | some t =>
        if cfg.noGaps then .error (.check .gaps)
        else .ok ⟨root, [t], [⟨pos, seq.rule, none, t⟩]⟩
    else if cfg.computeOnly && seq.th.isSome then
      -- compute_only: a stated sequent is taken on trust (event with `computed = none` whose rule
      -- is not the gap rule); the contents of a block are still walked
      match seq.th with
      | none => .ok ⟨root, [], []⟩
      | some t =>
        if seq.rule = "subproof" then
          match seq.sub with
          | none => .error .crash
          | some s =>
            match checkList (checkItem R cfg fuel) pos root 0 s with
            | .error e => .error e
            | .ok o => .ok ⟨o.root, o.gaps, o.trace ++ [⟨pos, seq.rule, none, t⟩]⟩
        else .ok ⟨root, [], [⟨pos, seq.rule, none, t⟩]⟩
    else if seq.rule = "theorem" then
      match R.thm seq.args with
      | .error .theory => .error (.check .theoremNotFound)
      | .error e => .error (.raised e)
      | .ok r => finish R root pos seq [] [] (some r)
    else if seq.rule = "variable" then
      match R.var seq.args with
      | .error e => .error (.raised e)
      | .ok r => finish R root pos seq [] [] (some r)
    else if seq.rule = "subproof" then
      match seq.sub with
      | none => .error .crash
      | some s =>
        match checkList (checkItem R cfg fuel) pos root 0 s with
        | .error e => .error e
        | .ok o => finish R o.root pos seq o.gaps o.trace (lastTh o.root pos)
    else
      match resolvePrevs root seq.id seq.prevs with
      | .error e => .error e
      | .ok pths =>
        match allSome pths with
        | .error e => .error e
        | .ok prevThs =>
          match R.kind seq.rule with
          | .prim =>
            if !R.primSig seq.rule seq.args then .error (.check .invalidInput)
            else match R.prim seq.rule seq.args prevThs with
            | .error .invalidDerivation => .error (.check .invalidDerivation)
            | .error .typeError => .error (.check .invalidInput)
            | .error e => .error (.raised e)
            | .ok r => finish R root pos seq [] [] (some r)
          | .macro level =>
            if levelOk level cfg.checkLevel then
              match R.eval seq.rule seq.args prevThs with
              | .error e => .error (.raised e)
              | .ok r => finish R root pos seq [] [] (some r)
            else
              match R.expand seq.rule seq.id seq.args (seq.prevs.zip prevThs) with
              | .error e => .error (.raised e)
              | .ok exp =>
                match checkList (checkItem R cfg fuel) pos (setSub root pos (some exp)) 0 exp with
                | .error e => .error e
                | .ok o =>
                  finish R (setSub o.root pos none) pos seq o.gaps o.trace (lastTh o.root pos)
          | .unknown => .error (.check .methodNotFound)

/-- Result of `check_proof`: the returned `prf.items[-1].th` (may be `None`), the proof object as
left behind, `rpt.gaps`, and the trace. -/
structure Res where
  th : Option Seq
  root : List Item
  gaps : List Seq
  trace : List Ev

/-- `Theory.check_proof(prf, rpt, no_gaps=…, compute_only=…, check_level=…)`. -/
def checkProof (R : Rules) (cfg : Cfg) (fuel : Nat) (prf : List Item) : Except Err Res :=
  match checkList (checkItem R cfg fuel) [] prf 0 prf with
  | .error e => .error e
  | .ok o =>
    match o.root.getLast? with
    | none => .error .crash                       -- prf.items[-1]: IndexError
    | some l => .ok ⟨l.th, o.root, o.gaps, o.trace⟩

/-! ### `ProofReport` counters -/

/-- `rpt.thm_steps`, `rpt.prim_steps`, `rpt.macro_steps` (their sum is `rpt.steps`),
`rpt.macros_eval`, `rpt.macros_expand` (as lists, in order of first use). -/
structure Counts where
  thm : Nat
  prim : Nat
  mac : Nat
  evald : List String
  expanded : List String
  deriving DecidableEq, Repr

def addName (n : String) (l : List String) : List String := if l.contains n then l else l ++ [n]

/-- What one trace event adds to the report: `apply_theorem`, `apply_primitive_deriv`,
`eval_macro` (level ≤ `check_level`) or `expand_macro`; blocks, `variable`, placeholders and
statements taken on trust add nothing. -/
def countEv (R : Rules) (lvl : Nat) (c : Counts) (e : Ev) : Counts :=
  match e.computed with
  | none => c
  | some _ =>
    if e.rule = "theorem" then { c with thm := c.thm + 1 }
    else if e.rule = "variable" || e.rule = "subproof" then c
    else match R.kind e.rule with
      | .prim => { c with prim := c.prim + 1 }
      | .macro l =>
        if levelOk l lvl then { c with mac := c.mac + 1, evald := addName e.rule c.evald }
        else { c with expanded := addName e.rule c.expanded }
      | .unknown => c

def countsOf (R : Rules) (lvl : Nat) (trace : List Ev) : Counts :=
  trace.foldl (countEv R lvl) ⟨0, 0, 0, [], []⟩

/-! ### `checked_extend` (theorem extensions; the other kinds do not touch theorems) -/

inductive Ext where
  | theorem (name : String) (th : Seq) (prf : Option (List Item))
  | other

/-- The theory as far as this property is concerned: `thy.theorems` and the extension report. -/
structure ExtState where
  theorems : List (String × Seq)
  axioms : List (String × Seq)

/-- `thy.theorems[name] = th` (`add_theorem`): a dict assignment, an existing name is overwritten
in place. -/
def upsert (name : String) (th : Seq) : List (String × Seq) → List (String × Seq)
  | [] => [(name, th)]
  | (n, t) :: rest => if n = name then (n, th) :: rest else (n, t) :: upsert name th rest

/-- `thy.theorems[name]`. -/
def lookupThm : List (String × Seq) → String → Option Seq
  | [], _ => none
  | (n, t) :: rest, name => if n = name then some t else lookupThm rest name

/-- `Theory.checked_extend(exts)`; the rule layer depends on the theorems installed so far.
On an exception the Python leaves the earlier extensions installed; the model returns the error
together with the state reached. -/
def checkedExtend (R : List (String × Seq) → Rules) (fuel : Nat) :
    ExtState → List Ext → ExtState × Option Err
  | st, [] => (st, none)
  | st, .other :: rest => checkedExtend R fuel st rest
  | st, .theorem name th none :: rest =>
    checkedExtend R fuel ⟨upsert name th st.theorems, st.axioms ++ [(name, th)]⟩ rest
  | st, .theorem name th (some prf) :: rest =>
    match checkProof (R st.theorems) ⟨true, false, 0⟩ fuel prf with
    | .error e => (st, some e)
    | .ok res =>
      match res.th with
      | none => (st, some (.check .notConclude))
      | some r =>
        if canProve r th then checkedExtend R fuel ⟨upsert name th st.theorems, st.axioms⟩ rest
        else (st, some (.check .notConclude))

end Holpy.C02
