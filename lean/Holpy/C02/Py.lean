/-
C02 — the few Python primitives the generated code (Gen.lean) and the model use.
Import-free.  Python ints are `Int`; tuples of ints are `List Int`.
`pyIdx` is `t[i]` (negative indices wrap, out of range = IndexError = `none`);
`pySlice` is `t[lo:hi]` (negative bounds wrap, everything clamps, never fails).
-/
namespace Holpy.C02

/-- `len(t)` as a Python int. -/
def pyLen {α : Type} (t : List α) : Int := Int.ofNat t.length

/-- `t[i]`: negative indices count from the end; out of range is `IndexError` (`none`). -/
def pyIdx {α : Type} (t : List α) (i : Int) : Option α :=
  if i < 0 then
    (if -i ≤ pyLen t then t[(pyLen t + i).toNat]? else none)
  else t[i.toNat]?

/-- Normalise one slice bound as CPython does for step 1: add `len` when negative, clamp to `[0, len]`. -/
def pyBound (n : Nat) (b : Int) : Nat :=
  if b < 0 then (if Int.ofNat n + b < 0 then 0 else (Int.ofNat n + b).toNat)
  else (if b > Int.ofNat n then n else b.toNat)

/-- `t[lo:hi]` with optional bounds. -/
def pySlice {α : Type} (t : List α) (lo hi : Option Int) : List α :=
  let l := match lo with | none => 0 | some b => pyBound t.length b
  let h := match hi with | none => t.length | some b => pyBound t.length b
  (t.take h).drop l

/-- Sequents over opaque propositions (`Thm`: `hyps`, `prop`). -/
structure Seq where
  hyps : List Nat
  concl : Nat
  deriving DecidableEq, Repr, Inhabited

/-- `set(a).issubset(set(b))` on tuples. -/
def pySubset (a b : List Nat) : Bool := a.all (fun h => b.contains h)

end Holpy.C02
