import Holpy.C02.Unfold
import Holpy.C02.ProofsUnfold
import Holpy.C02.PropsHeap
/-
C02 — the object graph against its unfolding (`Unfold.lean`).
PROVED here: `find_item` agrees on the graph and on the unfolding (static: before any write).
NOT proved: `GraphCheckEqUnfolding` below (the full walk with its writes); it is stated as a
definition, decided on the examples, and tested on every run: the driver answers each `hcheck` line
also with `sameOutcome (hCheckProof …) (checkUnfolded …)` on these very definitions.
-/
namespace Holpy.C02

/-- `Proof.find_item` gives the same answer on the object graph and on its unfolding: for every id not
longer than the unfolding is deep it fails on both (negative component, empty id, out of range, no
subproof) or finds, in the tree, the unfolding of the object found in the graph. -/
theorem graph_find_eq_unfolding (st : Store) (root n : Nat) (prf : List Item) (p : List Int)
    (hu : unfoldProof st n root = some prf) (hp : p.length ≤ n + 1) :
    findItem prf p = (hFind st root p).map (unfoldItem st (n + 1 - p.length)) := by
  unfold unfoldProof at hu
  cases hl : st.proofs[root]? with
  | none => simp [hl] at hu
  | some l =>
    simp only [hl, Option.map_some, Option.some.injEq] at hu
    subst hu
    unfold findItem hFind
    by_cases hneg : (p.any fun i => decide (i < 0)) = true
    · simp [hneg]
    · simp only [hneg, Bool.false_eq_true, ↓reduceIte]
      cases p with
      | nil => simp
      | cons k rest =>
        simp only [hl, pyIdx_map]
        cases hk : pyIdx l k with
        | none => simp
        | some j =>
          simp only [Option.map_some, List.length_cons]
          have hr : rest.length ≤ n := by simpa using hp
          rw [descendI_unfold st rest n j hr]
          congr 2
          omega

example : (findItem ((unfoldProof exShared 3 0).getD []) [1, 0]).map (fun it => (it.id, it.rule)) =
      some ([0], "verif_ax") ∧
    hFind exShared 0 [1, 0] = some 0 ∧
    (findItem ((unfoldProof exShared 3 0).getD []) [1, -1]).map (·.id) = none := by
  decide

/-- The statement that is still open: the heap walk on a graph and the tree checker on its unfolding
(cut at depth `fuel`) fail together or accept together with the same returned theorem, reported gaps
and trace.  (`fuel ≤ 64`: the heap model copies a macro expansion 64 levels deep.) -/
def GraphCheckEqUnfolding : Prop :=
  ∀ (R : Rules) (cfg : Cfg) (fuel : Nat) (st : Store) (root : Nat), fuel ≤ 64 →
    sameOutcome (hCheckProof R cfg fuel st root) (checkUnfolded R cfg fuel st root) = true

/-- Pinned instances of the open statement: the shared graph of `PropsHeap` is accepted by both with
the same outputs, the circular one is refused by both. -/
theorem graph_check_eq_unfolding_examples :
    sameOutcome (hCheckProof (Toy.rules []) ⟨true, false, 0⟩ 5 exShared 0)
      (checkUnfolded (Toy.rules []) ⟨true, false, 0⟩ 5 exShared 0) = true ∧
    (∃ r, checkUnfolded (Toy.rules []) ⟨true, false, 0⟩ 5 exShared 0 = .ok r ∧ r.th = some ⟨[], 1⟩) ∧
    sameOutcome (hCheckProof (Toy.rules []) ⟨true, false, 0⟩ 5 exCircular 0)
      (checkUnfolded (Toy.rules []) ⟨true, false, 0⟩ 5 exCircular 0) = true ∧
    checkUnfolded (Toy.rules []) ⟨true, false, 0⟩ 5 exCircular 0 = .error (.check .idMismatch) := by
  refine ⟨by rfl, ⟨_, rfl, rfl⟩, by rfl, by rfl⟩

example : (unfoldProof exCircular 2 0).map (·.length) = some 3 := by decide

end Holpy.C02
