import Holpy.C02.Model
/-
C02 — `check_level`: the checker evaluates (trusts) a macro only if its level is at most
`check_level`, expands it otherwise, and applies `primitive_deriv` only to primitive rules whose
argument has the declared kind.  Stated as: checking with the rule layer cut down to exactly
those calls is the same function.
-/
namespace Holpy.C02

/-- The rule layer with every call the checker must not make at trust level `lvl` disabled. -/
def Rules.restrict (R : Rules) (lvl : Nat) : Rules :=
  { R with
    prim := fun r a ps =>
      if R.kind r = .prim ∧ R.primSig r a = true then R.prim r a ps else .error (.other 0)
    eval := fun r a ps =>
      match R.kind r with
      | .macro l => if levelOk l lvl = true then R.eval r a ps else .error (.other 0)
      | _ => .error (.other 0)
    expand := fun r i a ps =>
      match R.kind r with
      | .macro l => if levelOk l lvl = true then .error (.other 0) else R.expand r i a ps
      | _ => .error (.other 0) }

theorem restrict_eval_ok {R : Rules} {lvl : Nat} {r : String} {a : Arg} {ps : List Seq} {s : Seq}
    (h : (R.restrict lvl).eval r a ps = .ok s) :
    ∃ l, R.kind r = .macro l ∧ levelOk l lvl = true ∧ R.eval r a ps = .ok s := by
  simp only [Rules.restrict] at h
  split at h
  · rename_i l hk
    split at h
    · rename_i hl; exact ⟨l, hk, hl, h⟩
    · simp at h
  · simp at h

theorem restrict_prim_ok {R : Rules} {lvl : Nat} {r : String} {a : Arg} {ps : List Seq} {s : Seq}
    (h : (R.restrict lvl).prim r a ps = .ok s) :
    R.kind r = .prim ∧ R.primSig r a = true ∧ R.prim r a ps = .ok s := by
  simp only [Rules.restrict] at h
  split at h
  · rename_i hc; exact ⟨hc.1, hc.2, h⟩
  · simp at h

theorem finish_restrict (R : Rules) (lvl : Nat) : finish (R.restrict lvl) = finish R := by
  funext root pos seq gaps trace res
  rfl

theorem checkItem_restrict (R : Rules) (cfg : Cfg) :
    ∀ fuel, checkItem (R.restrict cfg.checkLevel) cfg fuel = checkItem R cfg fuel := by
  intro fuel
  induction fuel with
  | zero => funext root pos seq; simp [checkItem]
  | succ fuel ih =>
    funext root pos seq
    simp only [checkItem, ih, finish_restrict]
    have hk : (R.restrict cfg.checkLevel).kind = R.kind := rfl
    have ht : (R.restrict cfg.checkLevel).thm = R.thm := rfl
    have hv : (R.restrict cfg.checkLevel).var = R.var := rfl
    have hs : (R.restrict cfg.checkLevel).primSig = R.primSig := rfl
    simp only [hk, ht, hv, hs]
    cases hkind : R.kind seq.rule with
    | prim =>
      by_cases hsig : R.primSig seq.rule seq.args = true
      · have : (R.restrict cfg.checkLevel).prim seq.rule seq.args = R.prim seq.rule seq.args := by
          funext ps; simp [Rules.restrict, hkind, hsig]
        simp only [this]
      · simp [hsig]
    | «macro» l =>
      by_cases hl : levelOk l cfg.checkLevel = true
      · have : (R.restrict cfg.checkLevel).eval seq.rule seq.args = R.eval seq.rule seq.args := by
          funext ps; simp [Rules.restrict, hkind, hl]
        simp only [this, hl, if_true]
      · have : (R.restrict cfg.checkLevel).expand seq.rule seq.id seq.args = R.expand seq.rule seq.id seq.args := by
          funext ps; simp [Rules.restrict, hkind, hl]
        simp only [this, hl, if_false]
        rfl
    | unknown => rfl

theorem checkProof_restrict (R : Rules) (cfg : Cfg) (fuel : Nat) (prf : List Item) :
    checkProof (R.restrict cfg.checkLevel) cfg fuel prf = checkProof R cfg fuel prf := by
  simp only [checkProof, checkItem_restrict]

end Holpy.C02
