import Holpy.C02.Model
import Holpy.C02.ProofsCheck
/-
C02 — what the trace and the gap list of a successful check look like (no assumption on the
proof object, any configuration): placeholders are recorded exactly as gaps, never with `no_gaps`,
and every stated sequent is no stronger than the computed one.
-/
namespace Holpy.C02

/-- One trace event is well-formed: an event of the gap rule has nothing computed and needs
`no_gaps = False`; a computed sequent proves the stored one; nothing computed means a placeholder
or, only under `compute_only`, a statement taken on trust. -/
def EvOK (cfg : Cfg) (e : Ev) : Prop :=
  (e.rule = gapRule → e.computed = none ∧ cfg.noGaps = false) ∧
  (∀ r, e.computed = some r → canProve r e.th = true) ∧
  (e.computed = none → e.rule = gapRule ∨ cfg.computeOnly = true)

/-- The statements of the placeholders met, in check order. -/
def gapsOf (trace : List Ev) : List Seq := (trace.filter (fun e => e.rule == gapRule)).map (·.th)

/-- The event of a statement taken on trust. -/
theorem TrOK_trusted_ev (cfg : Cfg) (hco : cfg.computeOnly = true) (pos : List Nat) (rule : String)
    (hr : rule ≠ gapRule) (t : Seq) :
    (∀ e ∈ [(⟨pos, rule, none, t⟩ : Ev)], EvOK cfg e) ∧ ([] : List Seq) = gapsOf [(⟨pos, rule, none, t⟩ : Ev)] := by
  refine ⟨?_, by simp [gapsOf, hr]⟩
  intro e he
  simp at he; subst he
  exact ⟨fun h => absurd h hr, by simp, fun _ => Or.inr hco⟩

theorem gapsOf_append (a b : List Ev) : gapsOf (a ++ b) = gapsOf a ++ gapsOf b := by
  simp [gapsOf]

def TrOK (cfg : Cfg) (gaps : List Seq) (trace : List Ev) : Prop :=
  (∀ e ∈ trace, EvOK cfg e) ∧ gaps = gapsOf trace

theorem TrOK.nil (cfg : Cfg) : TrOK cfg [] [] := ⟨by simp, rfl⟩

theorem TrOK.append {cfg : Cfg} {g1 g2 : List Seq} {t1 t2 : List Ev}
    (h1 : TrOK cfg g1 t1) (h2 : TrOK cfg g2 t2) : TrOK cfg (g1 ++ g2) (t1 ++ t2) := by
  refine ⟨?_, ?_⟩
  · intro e he
    rcases List.mem_append.mp he with he | he
    · exact h1.1 e he
    · exact h2.1 e he
  · rw [gapsOf_append, h1.2, h2.2]

theorem finish_trok {R : Rules} {cfg : Cfg} {root : List Item} {pos : List Nat} {seq : Item}
    {gaps : List Seq} {trace : List Ev} {res : Option Seq} {out : Out}
    (h : finish R root pos seq gaps trace res = .ok out) (hrule : seq.rule ≠ gapRule)
    (ht : TrOK cfg gaps trace) : TrOK cfg out.gaps out.trace := by
  have key : ∀ (r t : Seq), canProve r t = true →
      TrOK cfg gaps (trace ++ [⟨pos, seq.rule, some r, t⟩]) := by
    intro r t hc
    have : TrOK cfg [] [(⟨pos, seq.rule, some r, t⟩ : Ev)] := by
      refine ⟨?_, by simp [gapsOf, hrule]⟩
      intro e he
      simp at he; subst he
      refine ⟨fun h => absurd h hrule, ?_, by simp⟩
      intro r' hr'; simp at hr'; subst hr'; exact hc
    simpa using ht.append this
  unfold finish at h
  split at h
  · simp at h
  · rename_i r
    split at h
    · split at h
      · simp only [Except.ok.injEq] at h; subst h; exact key r r (canProve_refl r)
      · simp at h
    · rename_i t _
      split at h
      · rename_i hcp
        split at h
        · simp only [Except.ok.injEq] at h; subst h; exact key r t hcp
        · simp at h
      · simp at h

theorem checkList_trok {cfg : Cfg} (f : List Item → List Nat → Item → Except Err Out) (pre : List Nat)
    (hf : ∀ root pos seq out, f root pos seq = .ok out → TrOK cfg out.gaps out.trace) :
    ∀ (items : List Item) (root : List Item) (j : Nat) (out : Out),
      checkList f pre root j items = .ok out → TrOK cfg out.gaps out.trace := by
  intro items
  induction items with
  | nil =>
    intro root j out h
    simp only [checkList, Except.ok.injEq] at h
    subst h; exact TrOK.nil cfg
  | cons s rest ih =>
    intro root j out h
    simp only [checkList] at h
    split at h
    · simp at h
    · rename_i o1 h1
      split at h
      · simp at h
      · rename_i o2 h2
        simp only [Except.ok.injEq] at h
        subst h
        exact (hf _ _ _ _ h1).append (ih _ _ _ h2)

theorem checkItem_trok {R : Rules} {cfg : Cfg} :
    ∀ (fuel : Nat) (root : List Item) (pos : List Nat) (seq : Item) (out : Out),
      checkItem R cfg fuel root pos seq = .ok out → TrOK cfg out.gaps out.trace := by
  intro fuel
  induction fuel with
  | zero => intro root pos seq out h; simp [checkItem] at h
  | succ fuel ih =>
    intro root pos seq out h
    simp only [checkItem] at h
    split at h
    · simp at h
    · split at h
      · split at h
        · simp at h
        · simp only [Except.ok.injEq] at h; subst h; exact TrOK.nil cfg
      · rename_i hne
        split at h
        · rename_i hgap
          split at h
          · simp at h
          · rename_i t ht
            split at h
            · simp at h
            · rename_i hng
              simp only [Except.ok.injEq] at h
              subst h
              refine ⟨?_, by simp [gapsOf, hgap]⟩
              intro e he
              simp at he; subst he
              exact ⟨fun _ => ⟨rfl, by simpa using hng⟩, by simp, fun _ => Or.inl hgap⟩
        · rename_i hngap
          split at h
          · -- compute_only with a statement
            rename_i hco
            have hco : cfg.computeOnly = true := by
              simp only [Bool.and_eq_true] at hco; exact hco.1
            split at h
            · simp only [Except.ok.injEq] at h; subst h; exact TrOK.nil cfg
            · rename_i t _
              split at h
              · split at h
                · simp at h
                · split at h
                  · simp at h
                  · rename_i o ho
                    simp only [Except.ok.injEq] at h; subst h
                    have h1 := checkList_trok _ _ (fun root pos seq out => ih root pos seq out) _ _ _ _ ho
                    have h2 := TrOK_trusted_ev cfg hco pos seq.rule hngap t
                    simpa using TrOK.append h1 h2
              · simp only [Except.ok.injEq] at h; subst h
                exact TrOK_trusted_ev cfg hco pos seq.rule hngap t
          · split at h
            · split at h
              · simp at h
              · simp at h
              · exact finish_trok h hngap (TrOK.nil cfg)
            · split at h
              · split at h
                · simp at h
                · exact finish_trok h hngap (TrOK.nil cfg)
              · split at h
                · split at h
                  · simp at h
                  · split at h
                    · simp at h
                    · rename_i o ho
                      exact finish_trok h hngap
                        (checkList_trok _ _ (fun root pos seq out => ih root pos seq out) _ _ _ _ ho)
                · split at h
                  · simp at h
                  · split at h
                    · simp at h
                    · split at h
                      · split at h
                        · simp at h
                        · split at h
                          · simp at h
                          · simp at h
                          · simp at h
                          · exact finish_trok h hngap (TrOK.nil cfg)
                      · rename_i level _
                        by_cases hc : levelOk level cfg.checkLevel = true
                        · rw [if_pos hc] at h
                          split at h
                          · simp at h
                          · exact finish_trok h hngap (TrOK.nil cfg)
                        · rw [if_neg hc] at h
                          split at h
                          · simp at h
                          · split at h
                            · simp at h
                            · rename_i o ho
                              exact finish_trok h hngap
                                (checkList_trok _ _ (fun root pos seq out => ih root pos seq out) _ _ _ _ ho)
                      · simp at h

theorem checkProof_trok {R : Rules} {cfg : Cfg} {fuel : Nat} {prf : List Item} {res : Res}
    (h : checkProof R cfg fuel prf = .ok res) : TrOK cfg res.gaps res.trace := by
  unfold checkProof at h
  split at h
  · simp at h
  · rename_i o ho
    split at h
    · simp at h
    · simp only [Except.ok.injEq] at h
      subst h
      exact checkList_trok _ _ (fun root pos seq out => checkItem_trok fuel root pos seq out) _ _ _ _ ho

end Holpy.C02
