import Holpy.Common.Sexp
import Holpy.C02.Model
import Holpy.C02.Toy
import Holpy.C02.Heap
import Holpy.C02.Unfold
/-
Line protocol for the C02 model (one s-expression in, one out):
  (check NOGAPS COMPUTEONLY LEVEL FUEL THMS PROOF) -> (ok TH TREE GAPS TRACE) | (err E)
  (hcheck NOGAPS COMPUTEONLY LEVEL FUEL THMS HITEMS HPROOFS ROOT) -> (ok TH WALKED GAPS TRACE OBJS U) | (err E U),
     U = T|F: the tree model on the unfolding (Unfold.lean) has the same outcome; S: unfolding too large, skipped
  (extend FUEL THMS EXTS)                          -> (THMS AXIOMS E|N)
  (find PROOF ID)                                  -> N | (ID RULE TH)
  (dep A B) (incr_after A B n) (incr A n) (decr A B) (last A)  -> generated ItemID functions; E = IndexError
PROOF = (ITEM…), ITEM = (ID RULE ARG (ID…) TH SUB), ID = (int…), TH = N | SEQ, SUB = N | (ITEM…),
SEQ = ((hyp…) concl), ARG = N | (i int) | (s atom) | (l ARG…), THMS = ((name SEQ)…),
EXTS = ((thm name SEQ N|PROOF) | other …), TREE = ((POS TH)…) in document order,
TRACE = ((POS RULE TH|N SEQ)…).
-/
open Holpy Holpy.C02

namespace Holpy.C02.Driver

def intsOf (s : Sexp) : Option (List Int) := do (← s.toList?).mapM Sexp.toInt?
def natsOf (s : Sexp) : Option (List Nat) := do (← s.toList?).mapM Sexp.toNat?

def seqOf : Sexp → Option Seq
  | .list [hs, c] => do some ⟨← natsOf hs, ← c.toNat?⟩
  | _ => none

def optSeqOf : Sexp → Option (Option Seq)
  | .atom "N" => some none
  | s => (seqOf s).map some

partial def argOf : Sexp → Option Arg
  | .atom "N" => some .none
  | .list [.atom "i", n] => n.toInt?.map .num
  | .list [.atom "s", .atom a] => some (.str (if a == "%e" then "" else a))
  | .list (.atom "l" :: xs) => (xs.mapM argOf).map .list
  | _ => none

partial def itemOf : Sexp → Option Item
  | .list [id, .atom rule, args, prevs, th, sub] => do
    let sub ← match sub with
      | .atom "N" => some none
      | .list xs => (xs.mapM itemOf).map some
      | _ => none
    some ⟨← intsOf id, if rule == "%e" then "" else rule, ← argOf args, ← (← prevs.toList?).mapM intsOf, ← optSeqOf th, sub⟩
  | _ => none

def proofOf (s : Sexp) : Option (List Item) := do (← s.toList?).mapM itemOf

/-- The theorem table is a dict on the Python side: entries are installed one by one. -/
def thmsOf (s : Sexp) : Option (List (String × Seq)) := do
  let l ← (← s.toList?).mapM fun
    | .list [.atom n, q] => do some (n, ← seqOf q)
    | _ => none
  some (l.foldl (fun acc p => upsert p.1 p.2 acc) [])

def extOf : Sexp → Option Ext
  | .atom "other" => some .other
  | .list [.atom "thm", .atom n, q, .atom "N"] => do some (.theorem n (← seqOf q) none)
  | .list [.atom "thm", .atom n, q, p] => do some (.theorem n (← seqOf q) (some (← proofOf p)))
  | _ => none

def seqTo (s : Seq) : Sexp := .list [.list (s.hyps.map Sexp.ofNat), Sexp.ofNat s.concl]
def optSeqTo : Option Seq → Sexp
  | none => .atom "N"
  | some s => seqTo s
def posTo (p : List Nat) : Sexp := .list (p.map Sexp.ofNat)
def idTo (p : List Int) : Sexp := .list (p.map Sexp.ofInt)
def ruleTo (r : String) : Sexp := .atom (if r == "" then "%e" else r)

partial def treeTo (pre : List Nat) (items : List Item) : List Sexp :=
  (items.zipIdx.map fun (it, i) =>
    let here := Sexp.list [posTo (pre ++ [i]), optSeqTo it.th]
    match it.sub with
    | none => [here]
    | some s => here :: treeTo (pre ++ [i]) s).flatten

def checkMsgTo : CheckMsg → String
  | .idMismatch => "id-mismatch" | .emptyStated => "empty-stated" | .gaps => "gaps"
  | .cannotDepend => "cannot-depend" | .prevNotFound => "prev-not-found" | .prevNone => "prev-none"
  | .theoremNotFound => "theorem-not-found" | .invalidDerivation => "invalid-derivation"
  | .invalidInput => "invalid-input" | .methodNotFound => "method-not-found"
  | .mismatch => "mismatch" | .typing => "typing" | .notConclude => "not-conclude"

def errTo : Err → String
  | .check m => "check:" ++ checkMsgTo m
  | .assertion => "assertion"
  | .crash => "crash"
  | .fuel => "fuel"
  | .raised .invalidDerivation => "raised:invalid-derivation"
  | .raised .typeError => "raised:type-error"
  | .raised .theory => "raised:theory"
  | .raised .assertion => "assertion"
  | .raised (.other n) => "raised:other" ++ toString n

def boolOpt : Option Bool → String
  | none => "E" | some true => "T" | some false => "F"
def idOpt : Option (List Int) → String
  | none => "E" | some l => toString (idTo l)

/-- What is left of budget `b` after visiting the unfolding of object `i`, `n` levels deep (0 = spent):
the unfolding of a graph with shared / cyclic blocks can be exponentially larger than the graph. -/
def unfoldCost (st : Store) : Nat → Nat → Nat → Nat
  | n, i, b =>
    if b = 0 then 0 else
    match n with
    | 0 => b - 1
    | n + 1 =>
      match (st.items[i]?).bind (fun h => h.sub.bind (st.proofs[·]?)) with
      | none => b - 1
      | some l => l.foldl (fun b j => unfoldCost st n j b) (b - 1)

def handle (line : String) : String :=
  match Sexp.parse line with
  | some (.list [.atom "check", ng, co, lvl, fuel, thms, prf]) =>
    match ng.toBool?, co.toBool?, lvl.toNat?, fuel.toNat?, thmsOf thms, proofOf prf with
    | some ng, some co, some lvl, some fuel, some thms, some prf =>
      match checkProof (Toy.rules thms) ⟨ng, co, lvl⟩ fuel prf with
      | .error e => toString (Sexp.list [.atom "err", .atom (errTo e)])
      | .ok r => toString (Sexp.list [.atom "ok", optSeqTo r.th, .list (treeTo [] r.root),
          .list (r.gaps.map seqTo),
          .list (r.trace.map fun e => .list [posTo e.pos, ruleTo e.rule, optSeqTo e.computed, seqTo e.th]),
          (let c := countsOf (Toy.rules thms) lvl r.trace
           .list [Sexp.ofNat c.thm, Sexp.ofNat c.prim, Sexp.ofNat c.mac,
                  .list (c.evald.map ruleTo), .list (c.expanded.map ruleTo)])])
    | _, _, _, _, _, _ => "bad-op"
  | some (.list [.atom "hcheck", ng, co, lvl, fuel, thms, hitems, hproofs, root]) =>
    -- the heap walk: HITEMS = ((ID RULE ARG (ID…) TH SUBIDX|N)…) by index, HPROOFS = ((idx…)…)
    let hitemOf : Sexp → Option HItem := fun
      | .list [id, .atom rule, args, prevs, th, sub] => do
        let sub ← match sub with
          | .atom "N" => some none
          | s => s.toNat?.map some
        some ⟨← intsOf id, if rule == "%e" then "" else rule, ← argOf args, ← (← prevs.toList?).mapM intsOf, ← optSeqOf th, sub⟩
      | _ => none
    match ng.toBool?, co.toBool?, lvl.toNat?, fuel.toNat?, thmsOf thms, hitems.toList?, hproofs.toList?, root.toNat? with
    | some ng, some co, some lvl, some fuel, some thms, some his, some hps, some root =>
      match his.mapM hitemOf, hps.mapM natsOf with
      | some items, some proofs =>
        -- last field: the tree model on the unfolding of this graph (Unfold.lean) fails / accepts
        -- together with the heap walk, with the same theorem, gaps and trace
        let hr := hCheckProof (Toy.rules thms) ⟨ng, co, lvl⟩ fuel ⟨items, proofs⟩ root
        let st : Store := ⟨items, proofs⟩
        let small := ((proofs[root]?).getD []).foldl (fun b j => unfoldCost st fuel j b) 3000 != 0
        let same : Sexp := .atom (if !small then "S"      -- unfolding too large to build: skipped
          else if sameOutcome hr (checkUnfolded (Toy.rules thms) ⟨ng, co, lvl⟩ fuel st root) then "T" else "F")
        match hr with
        | .error e => toString (Sexp.list [.atom "err", .atom (errTo e), same])
        | .ok r => toString (Sexp.list [.atom "ok", optSeqTo r.th,
            .list (r.walked.map fun w => .list [posTo w.1, optSeqTo ((r.st.items[w.2]?).bind (·.th))]),
            .list (r.gaps.map seqTo),
            .list (r.trace.map fun e => .list [posTo e.pos, ruleTo e.rule, optSeqTo e.computed, seqTo e.th]),
            .list (r.walked.map fun w => .list [posTo w.1, Sexp.ofNat w.2]), same])
      | _, _ => "bad-op"
    | _, _, _, _, _, _, _, _ => "bad-op"
  | some (.list [.atom "extend", fuel, thms, exts]) =>
    match fuel.toNat?, thmsOf thms, exts.toList? with
    | some fuel, some thms, some exts =>
      match exts.mapM extOf with
      | some exts =>
        let (st, e) := checkedExtend Toy.rules fuel ⟨thms, []⟩ exts
        let pr := fun (l : List (String × Seq)) => Sexp.list (l.map fun p => .list [.atom p.1, seqTo p.2])
        toString (Sexp.list [pr st.theorems, pr st.axioms,
          match e with | none => .atom "N" | some e => .atom (errTo e)])
      | none => "bad-op"
    | _, _, _ => "bad-op"
  | some (.list [.atom "find", prf, id]) =>
    match proofOf prf, intsOf id with
    | some prf, some id =>
      match findItem prf id with
      | none => "N"
      | some it => toString (Sexp.list [idTo it.id, ruleTo it.rule, optSeqTo it.th])
    | _, _ => "bad-op"
  | some (.list [.atom "dep", a, b]) =>
    match intsOf a, intsOf b with
    | some a, some b => boolOpt (Gen.can_depend_on a b)
    | _, _ => "bad-op"
  | some (.list [.atom "incr_after", a, b, n]) =>
    match intsOf a, intsOf b, n.toInt? with
    | some a, some b, some n => idOpt (Gen.incr_id_after a b n)
    | _, _, _ => "bad-op"
  | some (.list [.atom "incr", a, n]) =>
    match intsOf a, n.toInt? with
    | some a, some n => idOpt (Gen.incr_id a n)
    | _, _ => "bad-op"
  | some (.list [.atom "decr", a, b]) =>
    match intsOf a, intsOf b with
    | some a, some b => idOpt (Gen.decr_id a b)
    | _, _ => "bad-op"
  | some (.list [.atom "last", a]) =>
    match intsOf a with
    | some a => (match Gen.last a with | none => "E" | some n => toString n)
    | _ => "bad-op"
  | some (.list [.atom "canprove", a, b]) =>
    match seqOf a, seqOf b with
    | some a, some b => boolOpt (Gen.can_prove a b)
    | _, _ => "bad-op"
  | _ => "bad-op"

end Holpy.C02.Driver

def main : IO Unit := Holpy.lineLoop Holpy.C02.Driver.handle
