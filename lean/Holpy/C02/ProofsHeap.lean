import Holpy.C02.Heap
import Holpy.C02.ProofsTree
/-
C02 — the heap walk: an accepted walk visits every object at the position its id spells, ids never
change, so no object is walked at two positions (the walked part of an accepted object graph is a
tree).
-/
namespace Holpy.C02

/-- The id of the object with index `j`, if there is one. -/
def idOf (st : Store) (j : Nat) : Option (List Int) := (st.items[j]?).map (·.id)

theorem idOf_setTh (st : Store) (i : Nat) (v : Option Seq) (j : Nat) : idOf (st.setTh i v) j = idOf st j := by
  simp only [idOf, Store.setTh, List.getElem?_modify]
  by_cases h : i = j
  · subst h; cases st.items[i]? <;> simp
  · simp [h]

theorem idOf_setSub (st : Store) (i : Nat) (v : Option Nat) (j : Nat) : idOf (st.setSub i v) j = idOf st j := by
  simp only [idOf, Store.setSub, List.getElem?_modify]
  by_cases h : i = j
  · subst h; cases st.items[i]? <;> simp
  · simp [h]

theorem len_setTh (st : Store) (i : Nat) (v : Option Seq) : (st.setTh i v).items.length = st.items.length := by
  simp [Store.setTh]

theorem len_setSub (st : Store) (i : Nat) (v : Option Nat) : (st.setSub i v).items.length = st.items.length := by
  simp [Store.setSub]

/-- Allocation only appends objects. -/
theorem allocItems_grows : ∀ (fuel : Nat) (st : Store) (l : List Item),
    st.items.length ≤ (allocItems fuel st l).1.items.length ∧
    ∀ j, j < st.items.length → (allocItems fuel st l).1.items[j]? = st.items[j]? := by
  intro fuel st l
  fun_induction allocItems fuel st l with
  | case1 => exact ⟨Nat.le_refl _, fun _ _ => rfl⟩
  | case2 => exact ⟨Nat.le_refl _, fun _ _ => rfl⟩
  | case3 fuel st it rest st1 sub hst1 i st2 st' idxs hrec ih2 ih1 =>
    have h1 : st.items.length ≤ st1.items.length ∧ ∀ j, j < st.items.length → st1.items[j]? = st.items[j]? := by
      cases hs : it.sub with
      | none =>
        simp only [hs, Prod.mk.injEq] at hst1
        rw [← hst1.1]; exact ⟨Nat.le_refl _, fun _ _ => rfl⟩
      | some s =>
        simp only [hs] at hst1
        have := ih2 s
        generalize allocItems fuel st s = r at hst1 this
        obtain ⟨st'', idxs''⟩ := r
        simp only [Prod.mk.injEq] at hst1
        rw [← hst1.1]; exact this
    rw [hrec] at ih1
    have hlen2 : st2.items.length = st1.items.length + 1 := by simp [st2]
    refine ⟨?_, ?_⟩
    · have := ih1.1; simp only [] at this ⊢; omega
    · intro j hj
      have := ih1.2 j (by omega)
      simp only [] at this ⊢
      rw [this]
      simp only [st2]
      rw [List.getElem?_append_left (by omega)]
      exact h1.2 j hj

theorem allocProof_grows (st : Store) (l : List Item) :
    st.items.length ≤ (allocProof st l).1.items.length ∧
    ∀ j, j < st.items.length → idOf (allocProof st l).1 j = idOf st j := by
  have := allocItems_grows 64 st l
  simp only [allocProof]
  generalize allocItems 64 st l = r at this
  obtain ⟨st', idxs⟩ := r
  exact ⟨this.1, fun j hj => by simp only [idOf]; rw [this.2 j hj]⟩

theorem idOf_some_lt {st : Store} {j : Nat} {x : List Int} (h : idOf st j = some x) : j < st.items.length := by
  simp only [idOf] at h
  cases hj : st.items[j]? with
  | none => simp [hj] at h
  | some it => exact (List.getElem?_eq_some_iff.mp hj).1

/-- What a successful part of the walk guarantees about objects and ids. -/
structure HInv (st : Store) (out : HOut) : Prop where
  grows : st.items.length ≤ out.st.items.length
  ids : ∀ j, j < st.items.length → idOf out.st j = idOf st j
  walked : ∀ pj ∈ out.walked, idOf out.st pj.2 = some (posId pj.1)

theorem HInv.single {st : Store} {pos : List Nat} {i : Nat} (h : idOf st i = some (posId pos))
    (g : List Seq) (t : List Ev) : HInv st ⟨st, g, t, [(pos, i)]⟩ :=
  ⟨Nat.le_refl _, fun _ _ => rfl, by intro pj hpj; simp at hpj; subst hpj; exact h⟩

theorem hFinish_inv {R : Rules} {st0 st1 : Store} {pos : List Nat} {i : Nat} {gaps : List Seq}
    {trace : List Ev} {walked : List (List Nat × Nat)} {res : Option Seq} {out : HOut}
    (h : hFinish R st1 pos i gaps trace walked res = .ok out)
    (hg : st0.items.length ≤ st1.items.length)
    (hids : ∀ j, j < st0.items.length → idOf st1 j = idOf st0 j)
    (hw : ∀ pj ∈ walked, idOf st1 pj.2 = some (posId pj.1))
    (hi : idOf st1 i = some (posId pos)) : HInv st0 out := by
  unfold hFinish at h
  split at h
  · simp at h
  · split at h
    · simp at h
    · split at h
      · split at h
        · simp only [Except.ok.injEq] at h; subst h
          refine ⟨by rw [len_setTh]; exact hg, fun j hj => by rw [idOf_setTh]; exact hids j hj, ?_⟩
          intro pj hpj
          rw [idOf_setTh]
          rcases List.mem_append.mp hpj with hpj | hpj
          · exact hw pj hpj
          · simp at hpj; subst hpj; exact hi
        · simp at h
      · split at h
        · split at h
          · simp only [Except.ok.injEq] at h; subst h
            refine ⟨hg, hids, ?_⟩
            intro pj hpj
            rcases List.mem_append.mp hpj with hpj | hpj
            · exact hw pj hpj
            · simp at hpj; subst hpj; exact hi
          · simp at h
        · simp at h

theorem hCheckList_inv (f : Store → List Nat → Nat → Except Err HOut) (pre : List Nat)
    (hf : ∀ st pos i out, f st pos i = .ok out → HInv st out) :
    ∀ (l : List Nat) (st : Store) (j : Nat) (out : HOut),
      hCheckList f pre st j l = .ok out → HInv st out := by
  intro l
  induction l with
  | nil =>
    intro st j out h
    simp only [hCheckList, Except.ok.injEq] at h
    subst h
    exact ⟨Nat.le_refl _, fun _ _ => rfl, by simp⟩
  | cons i rest ih =>
    intro st j out h
    simp only [hCheckList] at h
    split at h
    · simp at h
    · rename_i o1 h1
      split at h
      · simp at h
      · rename_i o2 h2
        simp only [Except.ok.injEq] at h
        subst h
        have P1 := hf _ _ _ _ h1
        have P2 := ih _ _ _ h2
        refine ⟨Nat.le_trans P1.grows P2.grows, ?_, ?_⟩
        · intro k hk
          show idOf o2.st k = idOf st k
          rw [P2.ids k (Nat.lt_of_lt_of_le hk P1.grows), P1.ids k hk]
        · intro pj hpj
          show idOf o2.st pj.2 = _
          rcases List.mem_append.mp hpj with hpj | hpj
          · have := P1.walked pj hpj
            rw [P2.ids pj.2 (idOf_some_lt this)]; exact this
          · exact P2.walked pj hpj

theorem hCheckItem_inv {R : Rules} {cfg : Cfg} {root : Nat} :
    ∀ (fuel : Nat) (st : Store) (pos : List Nat) (i : Nat) (out : HOut),
      hCheckItem R cfg root fuel st pos i = .ok out → HInv st out := by
  intro fuel
  induction fuel with
  | zero => intro st pos i out h; simp [hCheckItem] at h
  | succ fuel ih =>
    intro st pos i out h
    simp only [hCheckItem] at h
    split at h
    · simp at h
    · rename_i seq hseq
      split at h
      · simp at h
      · rename_i hid
        have hid : seq.id = posId pos := by simpa using hid
        have hi : idOf st i = some (posId pos) := by simp [idOf, hseq, hid]
        have hlist : ∀ (st' : Store) (l : List Nat) (o : HOut),
            hCheckList (hCheckItem R cfg root fuel) pos st' 0 l = .ok o → HInv st' o :=
          fun st' l o ho => hCheckList_inv _ _ (fun st pos i out => ih st pos i out) l st' 0 o ho
        have fin0 : ∀ {res : Option Seq}, hFinish R st pos i [] [] [] res = .ok out → HInv st out :=
          fun hh => hFinish_inv hh (Nat.le_refl _) (fun _ _ => rfl) (by simp) hi
        split at h
        · split at h
          · simp at h
          · simp only [Except.ok.injEq] at h; subst h; exact HInv.single hi _ _
        · split at h
          · split at h
            · simp at h
            · split at h
              · simp at h
              · simp only [Except.ok.injEq] at h; subst h; exact HInv.single hi _ _
          · split at h
            · -- compute_only
              split at h
              · simp only [Except.ok.injEq] at h; subst h; exact HInv.single hi _ _
              · split at h
                · split at h
                  · simp at h
                  · split at h
                    · simp at h
                    · rename_i o ho
                      simp only [Except.ok.injEq] at h; subst h
                      have P := hlist _ _ _ ho
                      refine ⟨P.grows, P.ids, ?_⟩
                      intro pj hpj
                      rcases List.mem_append.mp hpj with hpj | hpj
                      · exact P.walked pj hpj
                      · simp at hpj; subst hpj
                        rw [P.ids i (idOf_some_lt hi)]; exact hi
                · simp only [Except.ok.injEq] at h; subst h; exact HInv.single hi _ _
            · split at h
              · split at h
                · simp at h
                · simp at h
                · exact fin0 h
              · split at h
                · split at h
                  · simp at h
                  · exact fin0 h
                · split at h
                  · split at h
                    · simp at h
                    · split at h
                      · simp at h
                      · rename_i o ho
                        have P := hlist _ _ _ ho
                        exact hFinish_inv h P.grows P.ids P.walked (by rw [P.ids i (idOf_some_lt hi)]; exact hi)
                  · split at h
                    · simp at h
                    · split at h
                      · simp at h
                      · split at h
                        · split at h
                          · simp at h
                          · split at h
                            · simp at h
                            · simp at h
                            · simp at h
                            · exact fin0 h
                        · rename_i level _
                          by_cases hc : levelOk level cfg.checkLevel = true
                          · rw [if_pos hc] at h
                            split at h
                            · simp at h
                            · exact fin0 h
                          · rw [if_neg hc] at h
                            split at h
                            · simp at h
                            · rename_i exp _
                              have hA := allocProof_grows st exp
                              generalize allocProof st exp = ap at h hA
                              obtain ⟨st1, p⟩ := ap
                              simp only [] at h hA
                              split at h
                              · simp at h
                              · rename_i o ho
                                have P := hlist _ _ _ ho
                                have hlt : i < st.items.length := idOf_some_lt hi
                                have g1 : st.items.length ≤ o.st.items.length := by
                                  have := P.grows; rw [len_setSub] at this; omega
                                have ids1 : ∀ j, j < st.items.length → idOf o.st j = idOf st j := by
                                  intro j hj
                                  rw [P.ids j (by rw [len_setSub]; omega), idOf_setSub, hA.2 j hj]
                                refine hFinish_inv h (by rw [len_setSub]; exact g1)
                                  (fun j hj => by rw [idOf_setSub]; exact ids1 j hj)
                                  (fun pj hpj => by rw [idOf_setSub]; exact P.walked pj hpj)
                                  (by rw [idOf_setSub, ids1 i hlt]; exact hi)
                        · simp at h

theorem hCheckProof_inv {R : Rules} {cfg : Cfg} {fuel : Nat} {st : Store} {root : Nat} {res : HRes}
    (h : hCheckProof R cfg fuel st root = .ok res) :
    ∀ pj ∈ res.walked, idOf res.st pj.2 = some (posId pj.1) := by
  unfold hCheckProof at h
  split at h
  · simp at h
  · split at h
    · simp at h
    · rename_i o ho
      split at h
      · simp at h
      · simp only [Except.ok.injEq] at h; subst h
        exact (hCheckList_inv _ _ (fun st pos i out => hCheckItem_inv fuel st pos i out) _ _ _ _ ho).walked

end Holpy.C02
