import Holpy.C02.Heap
import Holpy.C02.ProofsHeap
/-
C02 — frame properties of the heap walk: a (sub)walk writes only the cells of the objects it walks
(and allocates fresh ones), never a `Proof` object's list; the positions it walks extend the
position it started from.
-/
namespace Holpy.C02

theorem allocItems_proofs : ∀ (fuel : Nat) (st : Store) (l : List Item),
    st.proofs.length ≤ (allocItems fuel st l).1.proofs.length ∧
    ∀ p, p < st.proofs.length → (allocItems fuel st l).1.proofs[p]? = st.proofs[p]? := by
  intro fuel st l
  fun_induction allocItems fuel st l with
  | case1 => exact ⟨Nat.le_refl _, fun _ _ => rfl⟩
  | case2 => exact ⟨Nat.le_refl _, fun _ _ => rfl⟩
  | case3 fuel st it rest st1 sub hst1 i st2 st' idxs hrec ih2 ih1 =>
    have h1 : st.proofs.length ≤ st1.proofs.length ∧ ∀ p, p < st.proofs.length → st1.proofs[p]? = st.proofs[p]? := by
      cases hs : it.sub with
      | none =>
        simp only [hs, Prod.mk.injEq] at hst1
        rw [← hst1.1]; exact ⟨Nat.le_refl _, fun _ _ => rfl⟩
      | some s =>
        simp only [hs] at hst1
        have := ih2 s
        generalize allocItems fuel st s = r at hst1 this
        obtain ⟨st'', idxs''⟩ := r
        simp only [Prod.mk.injEq] at hst1
        rw [← hst1.1]
        have hle : st.proofs.length ≤ st''.proofs.length := this.1
        refine ⟨by simp; omega, ?_⟩
        intro p hp
        simp only []
        rw [List.getElem?_append_left (by omega)]
        exact this.2 p hp
    rw [hrec] at ih1
    have hp2 : st2.proofs = st1.proofs := rfl
    refine ⟨?_, ?_⟩
    · have := ih1.1; simp only [hp2] at this ⊢; omega
    · intro p hp
      have := ih1.2 p (by rw [hp2]; omega)
      simp only [hp2] at this ⊢
      rw [this]; exact h1.2 p hp

theorem allocProof_frame (st : Store) (l : List Item) :
    (∀ j, j < st.items.length → (allocProof st l).1.items[j]? = st.items[j]?) ∧
    (∀ p, p < st.proofs.length → (allocProof st l).1.proofs[p]? = st.proofs[p]?) ∧
    st.proofs.length ≤ (allocProof st l).1.proofs.length := by
  have h1 := allocItems_grows 64 st l
  have h2 := allocItems_proofs 64 st l
  simp only [allocProof]
  generalize allocItems 64 st l = r at h1 h2
  obtain ⟨st', idxs⟩ := r
  have hle : st.proofs.length ≤ st'.proofs.length := h2.1
  refine ⟨h1.2, ?_, by simp; omega⟩
  intro p hp
  simp only []
  rw [List.getElem?_append_left (by omega)]
  exact h2.2 p hp

theorem items_setTh_ne (st : Store) (i : Nat) (v : Option Seq) (j : Nat) (h : j ≠ i) :
    (st.setTh i v).items[j]? = st.items[j]? := by
  simp only [Store.setTh, List.getElem?_modify]
  simp [Ne.symm h]

theorem items_setSub_ne (st : Store) (i : Nat) (v : Option Nat) (j : Nat) (h : j ≠ i) :
    (st.setSub i v).items[j]? = st.items[j]? := by
  simp only [Store.setSub, List.getElem?_modify]
  simp [Ne.symm h]

/-- What a successful (sub)walk started at `pos` leaves alone. -/
structure HFrame (st : Store) (pos : List Nat) (out : HOut) : Prop where
  inv : HInv st out
  cells : ∀ j, j < st.items.length → (∀ q, (q, j) ∉ out.walked) → out.st.items[j]? = st.items[j]?
  proofs : ∀ p, p < st.proofs.length → out.st.proofs[p]? = st.proofs[p]?
  plen : st.proofs.length ≤ out.st.proofs.length
  pre : ∀ qj ∈ out.walked, pos <+: qj.1

theorem HFrame.single {st : Store} {pos : List Nat} {i : Nat} (h : idOf st i = some (posId pos))
    (g : List Seq) (t : List Ev) : HFrame st pos ⟨st, g, t, [(pos, i)]⟩ :=
  ⟨HInv.single h g t, fun _ _ _ => rfl, fun _ _ => rfl, Nat.le_refl _,
    by intro qj hq; simp at hq; subst hq; exact List.prefix_refl _⟩

theorem hFinish_frame {R : Rules} {st0 st1 : Store} {pos : List Nat} {i : Nat} {gaps : List Seq}
    {trace : List Ev} {walked : List (List Nat × Nat)} {res : Option Seq} {out : HOut}
    (h : hFinish R st1 pos i gaps trace walked res = .ok out)
    (hinv : HInv st0 out)
    (hc : ∀ j, j < st0.items.length → j ≠ i → (∀ q, (q, j) ∉ walked) → st1.items[j]? = st0.items[j]?)
    (hp : ∀ p, p < st0.proofs.length → st1.proofs[p]? = st0.proofs[p]?)
    (hpl : st0.proofs.length ≤ st1.proofs.length)
    (hpre : ∀ qj ∈ walked, pos <+: qj.1) : HFrame st0 pos out := by
  have key : ∀ (st' : Store) (g : List Seq) (t : List Ev),
      out = ⟨st', g, t, walked ++ [(pos, i)]⟩ → (∀ j, j ≠ i → st'.items[j]? = st1.items[j]?) →
      st'.proofs = st1.proofs → HFrame st0 pos out := by
    intro st' g t e hcell hpr
    subst e
    refine ⟨hinv, ?_, ?_, ?_, ?_⟩
    · intro j hj hnw
      have hji : j ≠ i := fun e => hnw pos (by subst e; simp)
      show st'.items[j]? = _
      rw [hcell j hji]
      exact hc j hj hji (fun q hq => hnw q (List.mem_append_left _ hq))
    · intro p hpp; show st'.proofs[p]? = _; rw [hpr]; exact hp p hpp
    · show _ ≤ st'.proofs.length; rw [hpr]; exact hpl
    · intro qj hq
      rcases List.mem_append.mp hq with hq | hq
      · exact hpre qj hq
      · simp at hq; subst hq; exact List.prefix_refl _
  unfold hFinish at h
  split at h
  · simp at h
  · split at h
    · simp at h
    · split at h
      · split at h
        · simp only [Except.ok.injEq] at h
          exact key _ _ _ h.symm (fun j hj => items_setTh_ne _ _ _ _ hj) rfl
        · simp at h
      · split at h
        · split at h
          · simp only [Except.ok.injEq] at h
            exact key _ _ _ h.symm (fun _ _ => rfl) rfl
          · simp at h
        · simp at h

/-- The same for the loop over the items of the (sub)proof at `pre`, from position `j` on. -/
structure HFrameL (st : Store) (pre : List Nat) (j : Nat) (out : HOut) : Prop where
  inv : HInv st out
  cells : ∀ k, k < st.items.length → (∀ q, (q, k) ∉ out.walked) → out.st.items[k]? = st.items[k]?
  proofs : ∀ p, p < st.proofs.length → out.st.proofs[p]? = st.proofs[p]?
  plen : st.proofs.length ≤ out.st.proofs.length
  pre : ∀ qj ∈ out.walked, ∃ m, j ≤ m ∧ (pre ++ [m]) <+: qj.1

theorem HFrameL.prefix {st : Store} {pre : List Nat} {j : Nat} {out : HOut} (h : HFrameL st pre j out) :
    ∀ qj ∈ out.walked, pre <+: qj.1 := by
  intro qj hq
  obtain ⟨m, _, hm⟩ := h.pre qj hq
  exact (List.prefix_append pre [m]).trans hm

theorem hCheckList_frame (f : Store → List Nat → Nat → Except Err HOut) (pre : List Nat)
    (hf : ∀ st pos i out, f st pos i = .ok out → HFrame st pos out) :
    ∀ (l : List Nat) (st : Store) (j : Nat) (out : HOut),
      hCheckList f pre st j l = .ok out → HFrameL st pre j out := by
  intro l
  induction l with
  | nil =>
    intro st j out h
    simp only [hCheckList, Except.ok.injEq] at h
    subst h
    exact ⟨⟨Nat.le_refl _, fun _ _ => rfl, by simp⟩, fun _ _ _ => rfl, fun _ _ => rfl, Nat.le_refl _, by simp⟩
  | cons i rest ih =>
    intro st j out h
    have hinv := hCheckList_inv f pre (fun st pos i out hh => (hf st pos i out hh).inv) _ _ _ _ h
    simp only [hCheckList] at h
    split at h
    · simp at h
    · rename_i o1 h1
      split at h
      · simp at h
      · rename_i o2 h2
        simp only [Except.ok.injEq] at h
        subst h
        have P1 := hf _ _ _ _ h1
        have P2 := ih _ _ _ h2
        refine ⟨hinv, ?_, ?_, Nat.le_trans P1.plen P2.plen, ?_⟩
        · intro k hk hnw
          show o2.st.items[k]? = _
          rw [P2.cells k (Nat.lt_of_lt_of_le hk P1.inv.grows) (fun q hq => hnw q (List.mem_append_right _ hq)),
            P1.cells k hk (fun q hq => hnw q (List.mem_append_left _ hq))]
        · intro p hp
          show o2.st.proofs[p]? = _
          rw [P2.proofs p (Nat.lt_of_lt_of_le hp P1.plen), P1.proofs p hp]
        · intro qj hq
          rcases List.mem_append.mp hq with hq | hq
          · exact ⟨j, Nat.le_refl _, P1.pre qj hq⟩
          · obtain ⟨m, hm, hpm⟩ := P2.pre qj hq
            exact ⟨m, by omega, hpm⟩

theorem hCheckItem_frame {R : Rules} {cfg : Cfg} {root : Nat} :
    ∀ (fuel : Nat) (st : Store) (pos : List Nat) (i : Nat) (out : HOut),
      hCheckItem R cfg root fuel st pos i = .ok out → HFrame st pos out := by
  intro fuel
  induction fuel with
  | zero => intro st pos i out h; simp [hCheckItem] at h
  | succ fuel ih =>
    intro st pos i out h
    have hinv := hCheckItem_inv (fuel + 1) st pos i out h
    simp only [hCheckItem] at h
    split at h
    · simp at h
    · rename_i seq hseq
      split at h
      · simp at h
      · rename_i hid
        have hid : seq.id = posId pos := by simpa using hid
        have hi : idOf st i = some (posId pos) := by simp [idOf, hseq, hid]
        have hlist : ∀ (st' : Store) (l : List Nat) (o : HOut),
            hCheckList (hCheckItem R cfg root fuel) pos st' 0 l = .ok o → HFrameL st' pos 0 o :=
          fun st' l o ho => hCheckList_frame _ _ (fun st pos i out => ih st pos i out) l st' 0 o ho
        have fin0 : ∀ {res : Option Seq}, hFinish R st pos i [] [] [] res = .ok out → HFrame st pos out :=
          fun hh => hFinish_frame hh hinv (fun _ _ _ _ => rfl) (fun _ _ => rfl) (Nat.le_refl _) (by simp)
        split at h
        · split at h
          · simp at h
          · simp only [Except.ok.injEq] at h; subst h; exact HFrame.single hi _ _
        · split at h
          · split at h
            · simp at h
            · split at h
              · simp at h
              · simp only [Except.ok.injEq] at h; subst h; exact HFrame.single hi _ _
          · split at h
            · -- compute_only
              split at h
              · simp only [Except.ok.injEq] at h; subst h; exact HFrame.single hi _ _
              · split at h
                · split at h
                  · simp at h
                  · split at h
                    · simp at h
                    · rename_i o ho
                      simp only [Except.ok.injEq] at h; subst h
                      have P := hlist _ _ _ ho
                      refine ⟨hinv, ?_, P.proofs, P.plen, ?_⟩
                      · intro k hk hnw
                        exact P.cells k hk (fun q hq => hnw q (List.mem_append_left _ hq))
                      · intro qj hq
                        rcases List.mem_append.mp hq with hq | hq
                        · exact P.prefix qj hq
                        · simp at hq; subst hq; exact List.prefix_refl _
                · simp only [Except.ok.injEq] at h; subst h; exact HFrame.single hi _ _
            · split at h
              · split at h
                · simp at h
                · simp at h
                · exact fin0 h
              · split at h
                · split at h
                  · simp at h
                  · exact fin0 h
                · split at h
                  · split at h
                    · simp at h
                    · split at h
                      · simp at h
                      · rename_i o ho
                        have P := hlist _ _ _ ho
                        exact hFinish_frame h hinv (fun k hk _ hnw => P.cells k hk hnw) P.proofs P.plen P.prefix
                  · split at h
                    · simp at h
                    · split at h
                      · simp at h
                      · split at h
                        · split at h
                          · simp at h
                          · split at h
                            · simp at h
                            · simp at h
                            · simp at h
                            · exact fin0 h
                        · rename_i level _
                          by_cases hc : levelOk level cfg.checkLevel = true
                          · rw [if_pos hc] at h
                            split at h
                            · simp at h
                            · exact fin0 h
                          · rw [if_neg hc] at h
                            split at h
                            · simp at h
                            · rename_i exp _
                              have hA := allocProof_frame st exp
                              have hG := allocProof_grows st exp
                              generalize allocProof st exp = ap at h hA hG
                              obtain ⟨st1, p⟩ := ap
                              simp only [] at h hA hG
                              split at h
                              · simp at h
                              · rename_i o ho
                                have P := hlist _ _ _ ho
                                refine hFinish_frame h hinv ?_ ?_ ?_ P.prefix
                                · intro k hk hki hnw
                                  rw [items_setSub_ne _ _ _ _ hki,
                                    P.cells k (by rw [len_setSub]; omega) hnw,
                                    items_setSub_ne _ _ _ _ hki, hA.1 k hk]
                                · intro q hq
                                  show (o.st.setSub i none).proofs[q]? = _
                                  have : (o.st.setSub i none).proofs = o.st.proofs := rfl
                                  rw [this, P.proofs q (by show q < st1.proofs.length; omega)]
                                  exact hA.2.1 q hq
                                · show _ ≤ o.st.proofs.length
                                  have := P.plen
                                  have e : (st1.setSub i (some p)).proofs.length = st1.proofs.length := rfl
                                  omega
                        · simp at h

end Holpy.C02
