import Holpy.C02.Model
import Holpy.C02.ProofsId
import Holpy.C02.ProofsTree
import Holpy.C02.ProofsCheck
import Holpy.C02.ProofsTrace
import Holpy.C02.ProofsCover
import Holpy.C02.ProofsLevel
/-
C02 — helper lemmas that tie the invariants (ProofsCheck, ProofsTrace) to `checkProof` and
`checkedExtend`.
-/
namespace Holpy.C02

theorem Justified.mono {R : Rules} {G G' : Seq → Prop} (hG : ∀ s, G s → G' s) {s : Seq}
    (h : Justified R G s) : Justified R G' s := by
  induction h with
  | gap h => exact .gap (hG _ h)
  | thm h => exact .thm h
  | var h => exact .var h
  | prim _ hw h ih => exact .prim ih hw h
  | eval _ hw h ih => exact .eval ih hw h

theorem Good.mono {R : Rules} {G G' : Seq → Prop} (hG : ∀ s, G s → G' s) {s : Seq}
    (h : Good R G s) : Good R G' s := by
  obtain ⟨q, hq, hc⟩ := h
  exact ⟨q, hq.mono hG, hc⟩

/-- The invariant at the level of `check_proof`, for any configuration: relative to a set `G` that
contains every statement nobody computed (placeholders, and under `compute_only` the stated
sequents taken on trust). -/
theorem checkProof_post_gen {R : Rules} {cfg : Cfg} {fuel : Nat} {prf : List Item} {res : Res}
    (h : checkProof R cfg fuel prf = .ok res) (G : Seq → Prop)
    (hG : ∀ e ∈ res.trace, e.computed = none → G e.th) :
    (∀ e ∈ res.trace, Good R G e.th) ∧
    (∀ (m : Nat) (it : Item) (s : Seq), res.root[m]? = some it → it.th = some s → Good R G s) ∧
    (∀ s, res.th = some s → Good R G s) := by
  unfold checkProof at h
  split at h
  · simp at h
  · rename_i o ho
    split at h
    · simp at h
    · rename_i l hl
      simp only [Except.ok.injEq] at h
      subst h
      have PL := checkList_post (R := R) (G := G) (checkItem R cfg fuel) []
        (fun root pos seq out => checkItem_post fuel root pos seq out) prf prf 0 o ho
        (by intro k; simp [getItem_singleton])
        (by
          intro q hq
          obtain ⟨pre, a, b, suf, h1, _, hlt⟩ := hq
          have : a = 0 := by
            cases pre with
            | nil => simp at h1; omega
            | cons x pre => cases pre <;> simp at h1
          omega)
        hG
      refine ⟨PL.trace, ?_, ?_⟩
      · intro m it s hit hs
        exact PL.items m (Nat.zero_le m) it (by rw [List.nil_append, getItem_singleton]; exact hit) s hs
      · intro s hs
        have hl' : o.root[o.root.length - 1]? = some l := by
          rw [← hl, List.getLast?_eq_getElem?]
        exact PL.items (o.root.length - 1) (Nat.zero_le _) l (by rw [List.nil_append, getItem_singleton]; exact hl') s hs

/-- Without `compute_only` the only statements nobody computed are the reported gaps. -/
theorem uncomputed_are_gaps {R : Rules} {cfg : Cfg} {fuel : Nat} {prf : List Item} {res : Res}
    (hco : cfg.computeOnly = false) (h : checkProof R cfg fuel prf = .ok res) :
    ∀ e ∈ res.trace, e.computed = none → e.th ∈ res.gaps := by
  intro e he hn
  have ht := checkProof_trok h
  rcases (ht.1 e he).2.2 hn with hr | hc
  · rw [ht.2, gapsOf]
    exact List.mem_map.mpr ⟨e, List.mem_filter.mpr ⟨he, by simp [hr]⟩, rfl⟩
  · rw [hco] at hc; simp at hc

/-- The invariant at the level of `check_proof` (not `compute_only`). -/
theorem checkProof_post {R : Rules} {cfg : Cfg} {fuel : Nat} {prf : List Item} {res : Res}
    (hco : cfg.computeOnly = false) (h : checkProof R cfg fuel prf = .ok res) :
    (∀ e ∈ res.trace, Good R (fun g => g ∈ res.gaps) e.th) ∧
    (∀ (m : Nat) (it : Item) (s : Seq), res.root[m]? = some it → it.th = some s → Good R (fun g => g ∈ res.gaps) s) ∧
    (∀ s, res.th = some s → Good R (fun g => g ∈ res.gaps) s) :=
  checkProof_post_gen h _ (uncomputed_are_gaps hco h)

/-! ### `checked_extend` -/

theorem lookupThm_upsert_self (name : String) (th : Seq) :
    ∀ l, lookupThm (upsert name th l) name = some th := by
  intro l
  induction l with
  | nil => simp [upsert, lookupThm]
  | cons p l ih =>
    obtain ⟨n, t⟩ := p
    by_cases h : n = name
    · simp [upsert, lookupThm, h]
    · simp [upsert, lookupThm, h, ih]

theorem lookupThm_upsert_ne (name : String) (th : Seq) (other : String) (hne : other ≠ name) :
    ∀ l, lookupThm (upsert name th l) other = lookupThm l other := by
  intro l
  induction l with
  | nil => simp [upsert, lookupThm, Ne.symm hne]
  | cons p l ih =>
    obtain ⟨n, t⟩ := p
    by_cases h : n = name
    · subst h
      have : ¬ n = other := fun e => hne e.symm
      simp [upsert, lookupThm, this]
    · by_cases h2 : n = other
      · subst h2; simp [upsert, lookupThm, h]
      · simp [upsert, lookupThm, h, h2, ih]

/-- `checked_extend` only ever appends to the axiom report. -/
theorem checkedExtend_axioms_prefix (R : List (String × Seq) → Rules) (fuel : Nat) :
    ∀ (exts : List Ext) (st st' : ExtState) (err : Option Err),
      checkedExtend R fuel st exts = (st', err) → st.axioms <+: st'.axioms := by
  intro exts
  induction exts with
  | nil =>
    intro st st' err h
    simp only [checkedExtend, Prod.mk.injEq] at h
    rw [← h.1]; exact List.prefix_refl _
  | cons e rest ih =>
    intro st st' err h
    cases e with
    | other => simp only [checkedExtend] at h; exact ih _ _ _ h
    | «theorem» name th prf =>
      cases prf with
      | none =>
        simp only [checkedExtend] at h
        exact (List.prefix_append _ _).trans (ih _ _ _ h)
      | some p =>
        simp only [checkedExtend] at h
        split at h
        · simp only [Prod.mk.injEq] at h; rw [← h.1]; exact List.prefix_refl _
        · split at h
          · simp only [Prod.mk.injEq] at h; rw [← h.1]; exact List.prefix_refl _
          · split at h
            · exact ih (ExtState.mk (upsert name th st.theorems) st.axioms) st' err h
            · simp only [Prod.mk.injEq] at h; rw [← h.1]; exact List.prefix_refl _

/-- Processing `e :: rest` when `e` is installed is processing `rest` from the next state. -/
theorem checkedExtend_append_ok (R : List (String × Seq) → Rules) (fuel : Nat) :
    ∀ (pre post : List Ext) (st mid : ExtState),
      checkedExtend R fuel st pre = (mid, none) →
      checkedExtend R fuel st (pre ++ post) = checkedExtend R fuel mid post := by
  intro pre
  induction pre with
  | nil =>
    intro post st mid h
    simp only [checkedExtend, Prod.mk.injEq] at h
    rw [← h.1]; rfl
  | cons e pre ih =>
    intro post st mid h
    cases e with
    | other => simp only [checkedExtend, List.cons_append] at h ⊢; exact ih post _ _ h
    | «theorem» name th prf =>
      cases prf with
      | none => simp only [checkedExtend, List.cons_append] at h ⊢; exact ih post _ _ h
      | some p =>
        simp only [checkedExtend, List.cons_append] at h ⊢
        split at h
        · simp at h
        · rename_i res hres
          split at h
          · simp at h
          · rename_i r hr
            split at h
            · rename_i hcp
              simp only [hcp, if_true]
              exact ih post _ _ h
            · simp at h

end Holpy.C02
