import Holpy.C02.Model
namespace Holpy.C02
end Holpy.C02
