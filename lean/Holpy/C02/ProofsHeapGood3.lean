import Holpy.C02.ProofsHeapGood2
/-
C02 — the item step of the heap invariant and the theorem for `check_proof` on the object graph.
-/
namespace Holpy.C02

theorem finish_trace_memH {R : Rules} {st : Store} {pos : List Nat} {i : Nat}
    {gaps : List Seq} {trace : List Ev} {walked : List (List Nat × Nat)} {res : Option Seq} {out : HOut}
    (h : hFinish R st pos i gaps trace walked res = .ok out) : ∀ e ∈ trace, e ∈ out.trace := by
  unfold hFinish at h
  split at h
  · simp at h
  · split at h
    · simp at h
    · split at h
      · split at h
        · simp only [Except.ok.injEq] at h; subst h; exact fun e he => List.mem_append_left _ he
        · simp at h
      · split at h
        · split at h
          · simp only [Except.ok.injEq] at h; subst h; exact fun e he => List.mem_append_left _ he
          · simp at h
        · simp at h

theorem allocProof_new (st : Store) (l : List Item) :
    ∃ idxs, (allocProof st l).1.proofs[(allocProof st l).2]? = some idxs := by
  simp only [allocProof]
  generalize allocItems 64 st l = r
  obtain ⟨st', idxs⟩ := r
  exact ⟨idxs, by simp⟩

theorem block_after {R : Rules} {G : Seq → Prop} {root : Nat} {st' : Store} {pos : List Nat} {i : Nat}
    {l : List Nat} {o : HOut}
    (F : HFrameL st' pos 0 o) (hi : idOf st' i = some (posId pos)) (hcl : childList st' i = some l)
    (hlo : listAt o.st root pos = some l) (hVo : VisGoodH R G o.st root (pos ++ [0 + l.length])) :
    o.st.items[i]? = st'.items[i]? ∧ ∀ r, hLastTh o.st i = some r → Good R G r := by
  have hcell : o.st.items[i]? = st'.items[i]? := by
    refine F.cells i (idOf_some_lt hi) ?_
    intro q hq
    have h1 := F.inv.walked (q, i) hq
    rw [F.inv.ids i (idOf_some_lt hi), hi] at h1
    have := posId_injective (Option.some.inj h1)
    subst this
    obtain ⟨m, _, hm⟩ := F.pre (pos, i) hq
    have := hm.length_le
    simp at this
    omega
  refine ⟨hcell, ?_⟩
  intro r hr
  simp only [childList, Option.bind_eq_some_iff] at hcl
  obtain ⟨it, hit, p, hp, hpl⟩ := hcl
  have hpo : o.st.proofs[p]? = some l := by
    rw [F.proofs p (List.getElem?_eq_some_iff.mp hpl).1]; exact hpl
  simp only [hLastTh, hcell, hit, hp, hpo] at hr
  cases hlast : l.getLast? with
  | none => simp [hlast] at hr
  | some jl =>
    simp only [hlast] at hr
    have hne : l ≠ [] := by intro e; subst e; simp at hlast
    have hlen : 0 < l.length := List.length_pos_iff.mpr hne
    have hjl : l[l.length - 1]? = some jl := by rw [← hlast, List.getLast?_eq_getElem?]
    exact (hVo pos (0 + l.length) [] (l.length - 1) rfl (by omega) l jl hlo hjl).2 r hr

theorem listAt_child {st : Store} {root : Nat} {pos : List Nat} {i : Nat} {l : List Nat}
    (hpar : ∃ a k la, pos = a ++ [k] ∧ listAt st root a = some la ∧ la[k]? = some i)
    (hcl : childList st i = some l) : listAt st root pos = some l := by
  obtain ⟨a, k, la, rfl, hla, hk⟩ := hpar
  rw [listAt_snoc]; simp [hla, hk, hcl]

/-- Main invariant of the heap walk. -/
theorem hCheckItem_good {R : Rules} {cfg : Cfg} {root : Nat} {G : Seq → Prop} :
    ∀ (fuel : Nat) (st : Store) (pos : List Nat) (i : Nat) (out : HOut),
      hCheckItem R cfg root fuel st pos i = .ok out →
      (∃ a k la, pos = a ++ [k] ∧ listAt st root a = some la ∧ la[k]? = some i) →
      AncIds st root pos → VisGoodH R G st root pos →
      (∀ e ∈ out.trace, e.computed = none → G e.th) → ItemGood R G st pos i out := by
  intro fuel
  induction fuel with
  | zero => intro st pos i out h; simp [hCheckItem] at h
  | succ fuel ih =>
    intro st pos i out h hpar hA hV hT
    simp only [hCheckItem] at h
    split at h
    · simp at h
    · rename_i seq hseq
      split at h
      · simp at h
      · rename_i hid
        have hid : seq.id = posId pos := by simpa using hid
        have hi : idOf st i = some (posId pos) := by simp [idOf, hseq, hid]
        have hcth : cellTh st i = seq.th := by simp [cellTh, hseq]
        have hB := blocks_of hpar hA
        -- a block whose list `l` hangs at cell `i` of a store `st'` that keeps the surroundings
        have loop : ∀ (st' : Store) (l : List Nat) (o : HOut),
            hCheckList (hCheckItem R cfg root fuel) pos st' 0 l = .ok o →
            (∃ a k la, pos = a ++ [k] ∧ listAt st' root a = some la ∧ la[k]? = some i) →
            AncIds st' root pos → VisGoodH R G st' root pos → idOf st' i = some (posId pos) →
            childList st' i = some l → (∀ e ∈ o.trace, e.computed = none → G e.th) →
            (∀ e ∈ o.trace, Good R G e.th) ∧ o.st.items[i]? = st'.items[i]? ∧
              ∀ r, hLastTh o.st i = some r → Good R G r := by
          intro st' l o ho hpar' hA' hV' hi' hcl hTo
          have hl' := listAt_child hpar' hcl
          obtain ⟨t, lo, vo⟩ := hCheckList_good (R := R) (G := G) (root := root) (hCheckItem R cfg root fuel) pos
            (fun st pos i out => hCheckItem_frame fuel st pos i out)
            (fun st pos i out => ih st pos i out) l st' 0 o ho l hl' (by intro k; simp)
            (ancIds_child hpar' hA' hi') (visGood_child0 hV') hTo
          have F := hCheckList_frame _ _ (fun st pos i out => hCheckItem_frame fuel st pos i out) l st' 0 o ho
          obtain ⟨c, lg⟩ := block_after F hi' hcl lo vo
          exact ⟨t, c, lg⟩
        have fin0 : ∀ {r : Seq}, Good R G r → hFinish R st pos i [] [] [] (some r) = .ok out →
            ItemGood R G st pos i out := by
          intro r hr hh
          obtain ⟨t, s⟩ := hFinish_good hh (fun r' e => by simp at e; subst e; exact hr) (by simp)
          exact ⟨t, hi, s⟩
        split at h
        · -- empty line
          split at h
          · simp at h
          · rename_i hnone
            simp only [Except.ok.injEq] at h; subst h
            refine ⟨by simp, hi, ?_⟩
            intro s hs; rw [hcth] at hs; simp [hs] at hnone
        · split at h
          · -- placeholder
            split at h
            · simp at h
            · rename_i t ht
              split at h
              · simp at h
              · simp only [Except.ok.injEq] at h; subst h
                have hgt : Good R G t := Good.of_justified (.gap (hT ⟨pos, seq.rule, none, t⟩ (by simp) rfl))
                refine ⟨?_, hi, ?_⟩
                · intro e he; simp at he; subst he; exact hgt
                · intro s hs; rw [hcth, ht] at hs; simp at hs; subst hs; exact hgt
          · split at h
            · -- compute_only
              split at h
              · rename_i hnone
                simp only [Except.ok.injEq] at h; subst h
                exact ⟨by simp, hi, fun s hs => by rw [hcth, hnone] at hs; simp at hs⟩
              · rename_i t ht
                split at h
                · split at h
                  · simp at h
                  · rename_i l hl
                    split at h
                    · simp at h
                    · rename_i o ho
                      simp only [Except.ok.injEq] at h; subst h
                      have hgt : Good R G t :=
                        Good.of_justified (.gap (hT ⟨pos, seq.rule, none, t⟩ (by simp) rfl))
                      have hcl : childList st i = some l := by simpa [childList, hseq] using hl
                      obtain ⟨tr, c, _⟩ := loop st l o ho hpar hA hV hi hcl
                        (fun e he => hT e (List.mem_append_left _ he))
                      refine ⟨?_, hi, ?_⟩
                      · intro e he
                        rcases List.mem_append.mp he with he | he
                        · exact tr e he
                        · simp at he; subst he; exact hgt
                      · intro s hs
                        simp only [cellTh, c] at hs
                        have : cellTh st i = some s := hs
                        rw [hcth, ht] at this; simp at this; subst this; exact hgt
                · simp only [Except.ok.injEq] at h; subst h
                  have hgt : Good R G t :=
                    Good.of_justified (.gap (hT ⟨pos, seq.rule, none, t⟩ (by simp) rfl))
                  refine ⟨?_, hi, ?_⟩
                  · intro e he; simp at he; subst he; exact hgt
                  · intro s hs; rw [hcth, ht] at hs; simp at hs; subst hs; exact hgt
            · split at h
              · -- theorem
                split at h
                · simp at h
                · simp at h
                · rename_i r hr
                  exact fin0 (Good.of_justified (.thm hr)) h
              · split at h
                · -- variable
                  split at h
                  · simp at h
                  · rename_i r hr
                    exact fin0 (Good.of_justified (.var hr)) h
                · split at h
                  · -- subproof
                    split at h
                    · simp at h
                    · rename_i l hl
                      split at h
                      · simp at h
                      · rename_i o ho
                        have hcl : childList st i = some l := by simpa [childList, hseq] using hl
                        have hfin := hFinish_good (G := G) h
                        obtain ⟨tr, _, lg⟩ := loop st l o ho hpar hA hV hi hcl
                          (fun e he => hT e (finish_trace_memH h e he))
                        obtain ⟨t, s⟩ := hfin lg tr
                        exact ⟨t, hi, s⟩
                  · -- rule application
                    split at h
                    · simp at h
                    · rename_i pths hpths
                      split at h
                      · simp at h
                      · rename_i prevThs hprev
                        have hgoodp : ∀ p ∈ prevThs, Good R G p := by
                          intro p hp
                          rw [hid] at hpths
                          exact hResolvePrevs_good hV _ _ hpths p (allSome_mem _ _ hprev p hp)
                        obtain ⟨qs, hqs, hw⟩ := good_list hgoodp
                        split at h
                        · split at h
                          · simp at h
                          · split at h
                            · simp at h
                            · simp at h
                            · simp at h
                            · rename_i r hr
                              exact fin0 (Good.of_justified (.prim hqs hw hr)) h
                        · rename_i level _
                          by_cases hc : levelOk level cfg.checkLevel = true
                          · rw [if_pos hc] at h
                            split at h
                            · simp at h
                            · rename_i r hr
                              exact fin0 (Good.of_justified (.eval hqs hw hr)) h
                          · rw [if_neg hc] at h
                            split at h
                            · simp at h
                            · rename_i exp _
                              have hA1 := allocProof_frame st exp
                              have hG1 := allocProof_grows st exp
                              have hN1 := allocProof_new st exp
                              generalize allocProof st exp = ap at h hA1 hG1 hN1
                              obtain ⟨st1, p⟩ := ap
                              simp only [] at h hA1 hG1 hN1
                              obtain ⟨idxs, hidxs⟩ := hN1
                              simp only [hidxs, Option.getD_some] at h
                              split at h
                              · simp at h
                              · rename_i o ho
                                have hlt : i < st.items.length := idOf_some_lt hi
                                have K2 : Keeps st (st1.setSub i (some p)) pos (fun j => j = i) := by
                                  refine ⟨by rw [len_setSub]; exact hG1.1, ?_, ?_, ?_, ?_⟩
                                  · intro j hj; rw [idOf_setSub]; exact hG1.2 j hj
                                  · intro j hj hji; rw [items_setSub_ne _ _ _ _ hji]; exact hA1.1 j hj
                                  · intro q hq; exact hA1.2.1 q hq
                                  · intro j _ hji; subst hji; exact ⟨pos, hi, List.prefix_refl _⟩
                                obtain ⟨a, k, la, hpk, hla, hk⟩ := hpar
                                have hpar2 : ∃ a k la, pos = a ++ [k] ∧
                                    listAt (st1.setSub i (some p)) root a = some la ∧ la[k]? = some i :=
                                  ⟨a, k, la, hpk, K2.lists hA a [k] hpk (by simp) la hla, hk⟩
                                have hi2 : idOf (st1.setSub i (some p)) i = some (posId pos) := by
                                  rw [K2.ids i hlt]; exact hi
                                have hcl2 : childList (st1.setSub i (some p)) i = some idxs := by
                                  have h1 : st1.items[i]? = some seq := by rw [hA1.1 i hlt]; exact hseq
                                  simp [childList, Store.setSub, h1, hidxs]
                                have hfin := hFinish_good (G := G) h
                                obtain ⟨tr, _, lg⟩ := loop _ idxs o ho hpar2 (K2.ancIds hA) (K2.visGood hA hB hV)
                                  hi2 hcl2 (fun e he => hT e (finish_trace_memH h e he))
                                obtain ⟨t, s⟩ := hfin lg tr
                                exact ⟨t, hi, s⟩
                        · simp at h

/-- The invariant at the level of `check_proof` on the object graph. -/
theorem hCheckProof_good {R : Rules} {cfg : Cfg} {fuel : Nat} {st : Store} {root : Nat} {res : HRes}
    (h : hCheckProof R cfg fuel st root = .ok res) (G : Seq → Prop)
    (hG : ∀ e ∈ res.trace, e.computed = none → G e.th) :
    (∀ e ∈ res.trace, Good R G e.th) ∧ (∀ s, res.th = some s → Good R G s) := by
  unfold hCheckProof at h
  split at h
  · simp at h
  · rename_i l hl
    split at h
    · simp at h
    · rename_i o ho
      split at h
      · simp at h
      · rename_i jl hjl
        simp only [Except.ok.injEq] at h
        subst h
        have hl0 : listAt st root [] = some l := by simp [listAt, listFrom, hl]
        have hA0 : AncIds st root ([] ++ [0]) := by
          intro a k e hpos he
          cases a with
          | nil => simp at hpos; simp_all
          | cons x a => cases a <;> simp at hpos
        have hV0 : VisGoodH R G st root ([] ++ [0]) := by
          intro a x suf b hpos hb
          cases a with
          | nil => simp at hpos; omega
          | cons y a => cases a <;> simp at hpos
        obtain ⟨t, lo, vo⟩ := hCheckList_good (R := R) (G := G) (root := root) (hCheckItem R cfg root fuel) []
          (fun st pos i out => hCheckItem_frame fuel st pos i out)
          (fun st pos i out => hCheckItem_good fuel st pos i out) l st 0 o ho l hl0 (by intro k; simp) hA0 hV0 hG
        refine ⟨t, ?_⟩
        intro s hs
        have hpo : o.st.proofs[root]? = some l := by simpa [listAt, listFrom, Option.bind_eq_some_iff] using lo
        simp only [hpo, Option.bind_some] at hjl
        have hne : l ≠ [] := by intro e; subst e; simp at hjl
        have hlen : 0 < l.length := List.length_pos_iff.mpr hne
        have hj : l[l.length - 1]? = some jl := by rw [← hjl, List.getLast?_eq_getElem?]
        exact (vo [] (0 + l.length) [] (l.length - 1) rfl (by omega) l jl lo hj).2 s hs

end Holpy.C02
