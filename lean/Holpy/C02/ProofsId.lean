import Holpy.C02.Model
/-
C02 — lemmas about the Python primitives and the generated `ItemID` functions.
-/
namespace Holpy.C02

theorem list_nil_or_snoc {α : Type} (l : List α) : l = [] ∨ ∃ pre x, l = pre ++ [x] := by
  rcases List.eq_nil_or_concat l with h | ⟨p, x, h⟩
  · exact Or.inl h
  · exact Or.inr ⟨p, x, by simpa using h⟩

theorem pyIdx_nonneg {α : Type} (t : List α) (k : Int) (h : 0 ≤ k) : pyIdx t k = t[k.toNat]? := by
  unfold pyIdx
  have : ¬ k < 0 := by omega
  simp [this]

theorem pyIdx_ofNat {α : Type} (t : List α) (n : Nat) : pyIdx t (n : Int) = t[n]? := by
  rw [pyIdx_nonneg _ _ (by simp)]; simp

theorem pySlice_take {α : Type} (t : List α) (k : Int) (h : 0 ≤ k) :
    pySlice t none (some k) = t.take k.toNat := by
  unfold pySlice pyBound
  have : ¬ k < 0 := by omega
  simp only [this, if_false, List.drop_zero]
  split
  · rename_i hgt
    simp only [Int.ofNat_eq_natCast] at hgt
    rw [List.take_of_length_le (Nat.le_refl _), List.take_of_length_le]
    omega
  · rfl

theorem pySlice_take_nat {α : Type} (t : List α) (n : Nat) :
    pySlice t none (some (n : Int)) = t.take n := by
  rw [pySlice_take _ _ (by simp)]; simp

/-- What `ItemID.can_depend_on` (as generated from the Python source) says: `other` is
`pre ++ [x]`, `self` is `pre ++ y :: suf` and `x < y`. -/
theorem can_depend_on_iff (a b : List Int) :
    Gen.can_depend_on a b = some true ↔
      ∃ (pre : List Int) (x y : Int) (suf : List Int), b = pre ++ [x] ∧ a = pre ++ y :: suf ∧ x < y := by
  rcases list_nil_or_snoc b with hb | ⟨pre, x, hb⟩
  · subst hb
    constructor
    · intro h
      exfalso
      simp [Gen.can_depend_on, pyLen, pyIdx, pySlice, pyBound] at h
      split at h <;> (try split at h) <;> simp at h
    · rintro ⟨pre, x, y, suf, h, _⟩
      simp at h
  · subst hb
    have hl : pyLen (pre ++ [x]) - 1 = (pre.length : Int) := by simp [pyLen]
    unfold Gen.can_depend_on
    simp only [hl]
    rw [pyIdx_ofNat, pyIdx_ofNat, pySlice_take_nat, pySlice_take_nat]
    simp only [List.take_left', List.getElem?_concat_length]
    constructor
    · intro h
      split at h
      · simp at h
      · rename_i hlen
        split at h
        · simp at h
        · rename_i hpre
          simp only [bne_iff_ne, ne_eq, Decidable.not_not] at hpre
          simp only [Option.bind_some] at h
          cases hy : a[pre.length]? with
          | none => simp [hy] at h
          | some y =>
            simp only [hy, Option.bind_some, Option.some.injEq, decide_eq_true_eq] at h
            refine ⟨pre, x, y, a.drop (pre.length + 1), rfl, ?_, h⟩
            have h1 : a = a.take pre.length ++ a.drop pre.length := (List.take_append_drop _ _).symm
            rcases List.getElem?_eq_some_iff.mp hy with ⟨hlt, he⟩
            have h2 : a.drop pre.length = y :: a.drop (pre.length + 1) := by
              rw [List.drop_eq_getElem_cons hlt, he]
            rw [← hpre, h2] at h1; exact h1
    · rintro ⟨pre', x', y, suf, hb, ha, hlt⟩
      have hpx : pre = pre' ∧ x = x' := by
        have := List.append_inj' hb (by simp)
        simpa using this
      obtain ⟨rfl, rfl⟩ := hpx
      subst ha
      have h1 : ¬ (pyLen (pre ++ [x]) > pyLen (pre ++ y :: suf)) := by simp [pyLen]; omega
      simp [h1, hlt]

/-- `can_depend_on` is irreflexive. -/
theorem can_depend_on_irrefl' (a : List Int) : Gen.can_depend_on a a ≠ some true := by
  intro h
  obtain ⟨pre, x, y, suf, h1, h2, hlt⟩ := (can_depend_on_iff a a).mp h
  rw [h1] at h2
  have := List.append_cancel_left h2
  simp at this
  omega

/-- `can_depend_on` is transitive. -/
theorem can_depend_on_trans' (a b c : List Int)
    (hab : Gen.can_depend_on a b = some true) (hbc : Gen.can_depend_on b c = some true) :
    Gen.can_depend_on a c = some true := by
  obtain ⟨p1, x1, y1, s1, hb, ha, h1⟩ := (can_depend_on_iff a b).mp hab
  obtain ⟨p2, x2, y2, s2, hc, hb', h2⟩ := (can_depend_on_iff b c).mp hbc
  rw [can_depend_on_iff]
  subst ha hc
  -- b = p1 ++ [x1] = p2 ++ y2 :: s2
  rw [hb] at hb'
  rcases list_nil_or_snoc s2 with hs | ⟨s2', z, hs⟩
  · subst hs
    have := List.append_inj' hb' (by simp)
    simp at this
    obtain ⟨rfl, rfl⟩ := this
    exact ⟨p1, x2, y1, s1, rfl, rfl, by omega⟩
  · subst hs
    have e : p2 ++ y2 :: (s2' ++ [z]) = (p2 ++ y2 :: s2') ++ [z] := by simp
    rw [e] at hb'
    have := List.append_inj' hb' (by simp)
    simp at this
    obtain ⟨rfl, rfl⟩ := this
    exact ⟨p2, x2, y2, s2' ++ y1 :: s1, rfl, by simp, h2⟩

end Holpy.C02
