import Holpy.C02.Model
/-
C02 — lemmas about the Python primitives and the generated `ItemID` functions.
-/
set_option linter.unusedSimpArgs false
namespace Holpy.C02

theorem list_nil_or_snoc {α : Type} (l : List α) : l = [] ∨ ∃ pre x, l = pre ++ [x] := by
  rcases List.eq_nil_or_concat l with h | ⟨p, x, h⟩
  · exact Or.inl h
  · exact Or.inr ⟨p, x, by simpa using h⟩

theorem pyIdx_nonneg {α : Type} (t : List α) (k : Int) (h : 0 ≤ k) : pyIdx t k = t[k.toNat]? := by
  unfold pyIdx
  have : ¬ k < 0 := by omega
  simp [this]

theorem pyIdx_ofNat {α : Type} (t : List α) (n : Nat) : pyIdx t (n : Int) = t[n]? := by
  rw [pyIdx_nonneg _ _ (by simp)]; simp

theorem pySlice_take {α : Type} (t : List α) (k : Int) (h : 0 ≤ k) :
    pySlice t none (some k) = t.take k.toNat := by
  unfold pySlice pyBound
  have : ¬ k < 0 := by omega
  simp only [this, if_false, List.drop_zero]
  split
  · rename_i hgt
    simp only [Int.ofNat_eq_natCast] at hgt
    rw [List.take_of_length_le (Nat.le_refl _), List.take_of_length_le]
    omega
  · rfl

theorem pySlice_take_nat {α : Type} (t : List α) (n : Nat) :
    pySlice t none (some (n : Int)) = t.take n := by
  rw [pySlice_take _ _ (by simp)]; simp

/-! The proofs about generated definitions do not follow the shape of the generated code: they
split on the *semantic* facts the code can look at (lengths, equality of prefixes, whether an index
exists) and let `simp` evaluate the definition in every case, so reordering tests, merging early
returns or introducing local names in the Python source keeps them valid. -/

theorem can_depend_on_nil (a : List Int) : Gen.can_depend_on a [] ≠ some true := by
  have h0 : pyLen ([] : List Int) = 0 := rfl
  have hi : pyIdx ([] : List Int) (-1) = none := by simp [pyIdx, pyLen]
  have hs0 : pySlice ([] : List Int) none (some (-1)) = [] := by simp [pySlice]
  have hlen : ¬ ((0 : Int) > pyLen a) := by simp [pyLen]
  by_cases hs : pySlice a none (some (-1)) = []
  · simp [Gen.can_depend_on, h0, hi, hs0, hs, hlen]
  · have hs' : ¬ [] = pySlice a none (some (-1)) := fun e => hs e.symm
    simp [Gen.can_depend_on, h0, hi, hs0, hs, hs', hlen]

/-- The generated `can_depend_on` on a non-empty cited id, as a closed formula. -/
theorem can_depend_on_snoc (a pre : List Int) (x : Int) :
    Gen.can_depend_on a (pre ++ [x]) =
      if pre.length < a.length ∧ a.take pre.length = pre then
        (a[pre.length]?).map (fun y => decide (x < y))
      else some false := by
  have hl : pyLen (pre ++ [x]) - 1 = (pre.length : Int) := by simp [pyLen]
  have hlen : pyLen (pre ++ [x]) = (pre.length : Int) + 1 := by simp [pyLen]
  have hla : pyLen a = (a.length : Int) := rfl
  by_cases h1 : pre.length < a.length
  · -- every way the source may phrase "the cited id is not longer than the citing one"
    have g1 : ¬ ((pre.length : Int) + 1 > (a.length : Int)) := by omega
    have g2 : (pre.length : Int) + 1 ≤ (a.length : Int) := by omega
    have g3 : (pre.length : Int) < (a.length : Int) := by omega
    have g4 : ¬ ((a.length : Int) ≤ (pre.length : Int)) := by omega
    obtain ⟨y, hy⟩ : ∃ y, a[pre.length]? = some y := ⟨a[pre.length], by simp [h1]⟩
    by_cases h2 : a.take pre.length = pre
    · have h2' : pre = a.take pre.length := h2.symm
      simp [Gen.can_depend_on, hl, hlen, hla, g1, g2, g3, g4, pyIdx_ofNat, pySlice_take_nat, h1, hy, ← h2']
    · have h2' : ¬ pre = a.take pre.length := fun e => h2 e.symm
      simp [Gen.can_depend_on, hl, hlen, hla, g1, g2, g3, g4, pyIdx_ofNat, pySlice_take_nat, h1, hy, h2, h2']
  · have g1 : (pre.length : Int) + 1 > (a.length : Int) := by omega
    have g2 : ¬ ((pre.length : Int) + 1 ≤ (a.length : Int)) := by omega
    have g3 : ¬ ((pre.length : Int) < (a.length : Int)) := by omega
    have g4 : (a.length : Int) ≤ (pre.length : Int) := by omega
    simp [Gen.can_depend_on, hl, hlen, hla, g1, g2, g3, g4, pyIdx_ofNat, pySlice_take_nat, h1]

/-- What `ItemID.can_depend_on` (as generated from the Python source) says: `other` is
`pre ++ [x]`, `self` is `pre ++ y :: suf` and `x < y`. -/
theorem can_depend_on_iff (a b : List Int) :
    Gen.can_depend_on a b = some true ↔
      ∃ (pre : List Int) (x y : Int) (suf : List Int), b = pre ++ [x] ∧ a = pre ++ y :: suf ∧ x < y := by
  rcases list_nil_or_snoc b with hb | ⟨pre, x, hb⟩
  · subst hb
    constructor
    · intro h; exact absurd h (can_depend_on_nil a)
    · rintro ⟨pre, x, y, suf, h, _⟩
      simp at h
  · subst hb
    rw [can_depend_on_snoc]
    constructor
    · intro h
      split at h
      · rename_i hc
        obtain ⟨hlt, hpre⟩ := hc
        have hy : a[pre.length]? = some a[pre.length] := by simp [hlt]
        rw [hy] at h
        simp only [Option.map_some, Option.some.injEq, decide_eq_true_eq] at h
        refine ⟨pre, x, a[pre.length], a.drop (pre.length + 1), rfl, ?_, h⟩
        have h1 : a = a.take pre.length ++ a.drop pre.length := (List.take_append_drop _ _).symm
        rw [hpre, List.drop_eq_getElem_cons hlt] at h1
        exact h1
      · simp at h
    · rintro ⟨pre', x', y, suf, hb, ha, hlt⟩
      have hpx : pre = pre' ∧ x = x' := by
        have := List.append_inj' hb (by simp)
        simpa using this
      obtain ⟨rfl, rfl⟩ := hpx
      subst ha
      simp [hlt]

/-- `can_depend_on` is irreflexive. -/
theorem can_depend_on_irrefl' (a : List Int) : Gen.can_depend_on a a ≠ some true := by
  intro h
  obtain ⟨pre, x, y, suf, h1, h2, hlt⟩ := (can_depend_on_iff a a).mp h
  rw [h1] at h2
  have := List.append_cancel_left h2
  simp at this
  omega

/-- `can_depend_on` is transitive. -/
theorem can_depend_on_trans' (a b c : List Int)
    (hab : Gen.can_depend_on a b = some true) (hbc : Gen.can_depend_on b c = some true) :
    Gen.can_depend_on a c = some true := by
  obtain ⟨p1, x1, y1, s1, hb, ha, h1⟩ := (can_depend_on_iff a b).mp hab
  obtain ⟨p2, x2, y2, s2, hc, hb', h2⟩ := (can_depend_on_iff b c).mp hbc
  rw [can_depend_on_iff]
  subst ha hc
  -- b = p1 ++ [x1] = p2 ++ y2 :: s2
  rw [hb] at hb'
  rcases list_nil_or_snoc s2 with hs | ⟨s2', z, hs⟩
  · subst hs
    have := List.append_inj' hb' (by simp)
    simp at this
    obtain ⟨rfl, rfl⟩ := this
    exact ⟨p1, x2, y1, s1, rfl, rfl, by omega⟩
  · subst hs
    have e : p2 ++ y2 :: (s2' ++ [z]) = (p2 ++ y2 :: s2') ++ [z] := by simp
    rw [e] at hb'
    have := List.append_inj' hb' (by simp)
    simp at this
    obtain ⟨rfl, rfl⟩ := this
    exact ⟨p2, x2, y2, s2' ++ y1 :: s1, rfl, by simp, h2⟩

end Holpy.C02
