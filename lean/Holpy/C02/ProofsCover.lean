import Holpy.C02.Model
import Holpy.C02.ProofsCheck
/-
C02 — the trace covers the proof: every item of the proof object that is reached through
`subproof` blocks (and is not an empty line) has a trace event at its position.
-/
namespace Holpy.C02

/-- `it` sits at relative path `q` below `seq`, every block on the way being a `subproof` item. -/
inductive ReachFrom : Item → List Nat → Item → Prop
  | here (seq : Item) : ReachFrom seq [] seq
  | down {seq c it : Item} {s : List Item} {k : Nat} {q : List Nat} :
      seq.rule = "subproof" → seq.sub = some s → s[k]? = some c → ReachFrom c q it →
      ReachFrom seq (k :: q) it

/-- The event a checked item leaves. -/
def HasEv (trace : List Ev) (pos : List Nat) (it : Item) : Prop :=
  ∃ e ∈ trace, e.pos = pos ∧ e.rule = it.rule ∧ ∀ t, it.th = some t → e.th = t

theorem finish_hasEv {R : Rules} {root : List Item} {pos : List Nat} {seq : Item}
    {gaps : List Seq} {trace : List Ev} {res : Option Seq} {out : Out}
    (h : finish R root pos seq gaps trace res = .ok out) :
    HasEv out.trace pos seq ∧ ∀ e ∈ trace, e ∈ out.trace := by
  unfold finish at h
  split at h
  · simp at h
  · split at h
    · rename_i hth
      split at h
      · simp only [Except.ok.injEq] at h; subst h
        exact ⟨⟨_, List.mem_append_right _ (List.mem_singleton_self _), rfl, rfl,
          fun t ht => by rw [hth] at ht; simp at ht⟩, fun e he => List.mem_append_left _ he⟩
      · simp at h
    · rename_i t hth
      split at h
      · split at h
        · simp only [Except.ok.injEq] at h; subst h
          exact ⟨⟨_, List.mem_append_right _ (List.mem_singleton_self _), rfl, rfl,
            fun t' ht' => by rw [hth] at ht'; simp at ht'; exact ht'⟩, fun e he => List.mem_append_left _ he⟩
        · simp at h
      · simp at h

/-- Each element of the list was checked by `f` at its position and its events are kept. -/
theorem checkList_elem (f : List Item → List Nat → Item → Except Err Out) (pre : List Nat) :
    ∀ (items : List Item) (root : List Item) (j : Nat) (out : Out),
      checkList f pre root j items = .ok out →
      ∀ k c, items[k]? = some c →
        ∃ root' o', f root' (pre ++ [j + k]) c = .ok o' ∧ ∀ e ∈ o'.trace, e ∈ out.trace := by
  intro items
  induction items with
  | nil => intro root j out _ k c hk; simp at hk
  | cons s rest ih =>
    intro root j out h k c hk
    simp only [checkList] at h
    split at h
    · simp at h
    · rename_i o1 h1
      split at h
      · simp at h
      · rename_i o2 h2
        simp only [Except.ok.injEq] at h
        subst h
        cases k with
        | zero =>
          simp at hk; subst hk
          exact ⟨root, o1, by simpa using h1, fun e he => List.mem_append_left _ he⟩
        | succ k =>
          simp at hk
          obtain ⟨root', o', hf, hsub⟩ := ih o1.root (j + 1) o2 h2 k c hk
          refine ⟨root', o', ?_, fun e he => List.mem_append_right _ (hsub e he)⟩
          rw [show j + (k + 1) = j + 1 + k by omega]; exact hf

theorem checkItem_covers {R : Rules} {cfg : Cfg} (hco : cfg.computeOnly = false) :
    ∀ (fuel : Nat) (root : List Item) (pos : List Nat) (seq : Item) (out : Out),
      checkItem R cfg fuel root pos seq = .ok out →
      ∀ q it, ReachFrom seq q it → it.rule ≠ "" → HasEv out.trace (pos ++ q) it := by
  intro fuel
  induction fuel with
  | zero => intro root pos seq out h; simp [checkItem] at h
  | succ fuel ih =>
    intro root pos seq out h q it hreach hne
    cases hreach with
    | here =>
      -- the item itself
      simp only [List.append_nil]
      simp only [checkItem, hco, Bool.false_and, Bool.false_eq_true, if_false, hne] at h
      split at h
      · simp at h
      · split at h
        · rename_i hgap
          split at h
          · simp at h
          · rename_i t ht
            split at h
            · simp at h
            · simp only [Except.ok.injEq] at h; subst h
              exact ⟨_, List.mem_singleton_self _, rfl, rfl, fun t' ht' => by rw [ht] at ht'; simp at ht'; exact ht'⟩
        · split at h
          · split at h
            · simp at h
            · simp at h
            · exact (finish_hasEv h).1
          · split at h
            · split at h
              · simp at h
              · exact (finish_hasEv h).1
            · split at h
              · split at h
                · simp at h
                · split at h
                  · simp at h
                  · exact (finish_hasEv h).1
              · split at h
                · simp at h
                · split at h
                  · simp at h
                  · split at h
                    · split at h
                      · simp at h
                      · split at h
                        · simp at h
                        · simp at h
                        · simp at h
                        · exact (finish_hasEv h).1
                    · rename_i level _
                      by_cases hc : levelOk level cfg.checkLevel = true
                      · rw [if_pos hc] at h
                        split at h
                        · simp at h
                        · exact (finish_hasEv h).1
                      · rw [if_neg hc] at h
                        split at h
                        · simp at h
                        · split at h
                          · simp at h
                          · exact (finish_hasEv h).1
                    · simp at h
    | @down _ c _ s k q' hrule hsub hk hrest =>
      -- below a `subproof` block
      have hr1 : ¬ "subproof" = "" := by decide
      have hr2 : ¬ "subproof" = gapRule := by decide
      have hr3 : ¬ "subproof" = "theorem" := by decide
      have hr4 : ¬ "subproof" = "variable" := by decide
      simp only [checkItem, hco, Bool.false_and, Bool.false_eq_true, hrule, hsub, hr1, hr2, hr3, hr4,
        ↓reduceIte] at h
      split at h
      · simp at h
      · split at h
        · simp at h
        · rename_i o ho
          obtain ⟨root', o', hf, hsubtr⟩ := checkList_elem _ _ _ _ _ _ ho k c hk
          obtain ⟨e, he, h1, h2, h3⟩ := ih root' (pos ++ [0 + k]) c o' hf q' it hrest hne
          refine ⟨e, (finish_hasEv h).2 e (hsubtr e he), ?_, h2, h3⟩
          rw [h1]; simp

theorem checkProof_covers {R : Rules} {cfg : Cfg} {fuel : Nat} {prf : List Item} {res : Res}
    (hco : cfg.computeOnly = false) (h : checkProof R cfg fuel prf = .ok res)
    {k : Nat} {top it : Item} {q : List Nat} (hk : prf[k]? = some top) (hr : ReachFrom top q it)
    (hne : it.rule ≠ "") : HasEv res.trace (k :: q) it := by
  unfold checkProof at h
  split at h
  · simp at h
  · rename_i o ho
    split at h
    · simp at h
    · simp only [Except.ok.injEq] at h
      subst h
      obtain ⟨root', o', hf, hsub⟩ := checkList_elem _ _ _ _ _ _ ho k top hk
      obtain ⟨e, he, h1, h2, h3⟩ := checkItem_covers hco fuel root' _ top o' hf q it hr hne
      exact ⟨e, hsub e he, by rw [h1]; simp, h2, h3⟩

end Holpy.C02
