import Holpy.C02.Model
/-
C02 — the toy rule set used by the correspondence check (harness/props/c02.py registers the same
rules as holpy macros for the duration of a run) and by the non-vacuity examples.
Propositions are numbers (`Const("p<n>", bool)` on the Python side; `n ≥ 100` is a constant of a
non-boolean type, so a sequent mentioning it fails `check_thm_type`).  Hypotheses are kept as
sorted duplicate-free lists on both sides.

  assume        primitive   arg (i n), no prevs             ->  n ⊢ n
  implies_elim  primitive   two prevs                       ->  InvalidDerivationException (no implications here)
  verif_ax      level 0     arg (l (l h…) (i c))            ->  h… ⊢ c
  verif_id      level 0     one prev p                      ->  p
  verif_weaken  level 0     arg (i h), one prev p           ->  p.hyps ∪ {h} ⊢ p.concl
  verif_cut     level 0     prevs p q, q.concl ∈ p.hyps     ->  (p.hyps − q.concl) ∪ q.hyps ⊢ p.concl
  verif_join    level 0     arg (i c), any prevs            ->  all hyps and conclusions of the prevs ⊢ c
  verif_exp     level 1     arg (l SEQ (l ITEMSPEC…))       ->  eval: SEQ; expand: the items
  verif_exp2    level 2     same as verif_exp
  theorem                   arg (s name)                    ->  the named theorem (hyps must be empty)
  variable                  arg (i k)                       ->  ⊢ _VAR v_k, coded 200+k (well-typed)
-/
namespace Holpy.C02.Toy
open Holpy.C02

def insertSorted (x : Nat) : List Nat → List Nat
  | [] => [x]
  | y :: ys => if x < y then x :: y :: ys else if x = y then y :: ys else y :: insertSorted x ys

def norm (xs : List Nat) : List Nat := xs.foldr insertSorted []

def mkSeq (hyps : List Nat) (c : Nat) : Seq := ⟨norm hyps, c⟩

def argNat? : Arg → Option Nat
  | .num n => if n < 0 then none else some n.toNat
  | _ => none

def argInt? : Arg → Option Int
  | .num n => some n
  | _ => none

def argNats? : Arg → Option (List Nat)
  | .list xs => xs.mapM argNat?
  | _ => none

def argInts? : Arg → Option (List Int)
  | .list xs => xs.mapM argInt?
  | _ => none

def argSeq? : Arg → Option Seq
  | .list [hs, c] => do some (mkSeq (← argNats? hs) (← argNat? c))
  | _ => none

def argOptSeq? : Arg → Option (Option Seq)
  | .none => some none
  | a => (argSeq? a).map some

/-- id / prev specification inside an expansion: `(l (i 0) k…)` = prefix ++ k…,
`(l (i 1) k…)` = the absolute id k…, `(l (i 2) (i j))` = id of the j-th premise of the macro. -/
def idSpec (pre : List Int) (prevIds : List (List Int)) : Arg → Option (List Int)
  | .list (.num 0 :: ks) => do some (pre ++ (← ks.mapM argInt?))
  | .list (.num 1 :: ks) => ks.mapM argInt?
  | .list [.num 2, .num j] => if j < 0 then none else prevIds[j.toNat]?
  | _ => none

/-- Item specification `(l ID (s rule) ARGS (l PREV…) TH SUB)`; SUB is `none` or `(l ITEMSPEC…)`. -/
def itemSpec (pre : List Int) (prevIds : List (List Int)) : Nat → Arg → Option Item
  | 0, _ => none
  | fuel + 1, .list [i, .str rule, args, .list ps, th, sub] => do
    let id ← idSpec pre prevIds i
    let prevs ← ps.mapM (idSpec pre prevIds)
    let th ← argOptSeq? th
    let sub ← match sub with
      | .none => some none
      | .list xs => (xs.mapM (itemSpec pre prevIds fuel)).map some
      | _ => none
    some ⟨id, rule, args, prevs, th, sub⟩
  | _, _ => none

def lookup (thms : List (String × Seq)) (name : String) : Option Seq := lookupThm thms name

def kind (rule : String) : Kind :=
  if rule = "assume" || rule = "implies_elim" then .prim
  else if rule = "verif_ax" || rule = "verif_id" || rule = "verif_weaken" || rule = "verif_cut" || rule = "verif_join" then .macro (some 0)
  else if rule = "verif_exp" then .macro (some 1)
  else if rule = "verif_exp2" then .macro (some 2)
  else .unknown

def prim (rule : String) (a : Arg) (ps : List Seq) : Except RuleErr Seq :=
  if rule = "assume" then
    match a, ps with
    | .num n, [] => if n < 0 then .error .assertion else .ok (mkSeq [n.toNat] n.toNat)
    | .none, [_] => .error .assertion          -- Thm.assume(<Thm>): assert isinstance(A, Term)
    | _, _ => .error .typeError                -- wrong number of positional arguments
  else
    match a, ps with
    | .none, [_, _] => .error .invalidDerivation
    | _, _ => .error .typeError

/-- `assume` declares a term argument (the harness turns `(i n)`, n ≥ 0, into a term; anything
else stays a non-term), `implies_elim` declares none. -/
def primSig (rule : String) (a : Arg) : Bool :=
  if rule = "assume" then (argNat? a).isSome
  else match a with | .none => true | _ => false

def eval (rule : String) (a : Arg) (ps : List Seq) : Except RuleErr Seq :=
  if rule = "verif_ax" then
    match argSeq? a with
    | some s => .ok s
    | none => .error (.other 1)
  else if rule = "verif_id" then
    match ps with
    | [p] => .ok p
    | _ => .error (.other 1)
  else if rule = "verif_weaken" then
    match argNat? a, ps with
    | some h, [p] => .ok (mkSeq (h :: p.hyps) p.concl)
    | _, _ => .error (.other 1)
  else if rule = "verif_cut" then
    match ps with
    | [p, q] =>
      if p.hyps.contains q.concl then .ok (mkSeq (p.hyps.filter (fun h => h != q.concl) ++ q.hyps) p.concl)
      else .error (.other 2)
    | _ => .error (.other 1)
  else if rule = "verif_join" then
    match argNat? a with
    | some c => .ok (mkSeq (ps.flatMap (fun p => p.concl :: p.hyps)) c)
    | none => .error (.other 1)
  else
    match a with
    | .list [s, _] =>
      match argSeq? s with
      | some s => .ok s
      | none => .error (.other 1)
    | _ => .error (.other 1)

def expand (_rule : String) (pre : List Int) (a : Arg) (ps : List (List Int × Seq)) :
    Except RuleErr (List Item) :=
  match a with
  | .list [_, .list specs] =>
    match specs.mapM (itemSpec pre (ps.map (·.1)) 8) with
    | some items => .ok items
    | none => .error (.other 1)
  | _ => .error (.other 1)

def codeOk (c : Nat) : Bool := c < 100 || c ≥ 200

def typeOk (s : Seq) : Bool := codeOk s.concl && s.hyps.all codeOk

def rules (thms : List (String × Seq)) : Rules where
  kind := kind
  thm := fun a =>
    match a with
    | .str name =>
      match lookup thms name with
      | some s => if s.hyps.isEmpty then .ok s else .error .invalidDerivation
      | none => .error .theory
    | _ => .error .theory
  var := fun a =>
    match argNat? a with
    | some k => .ok ⟨[], 200 + k⟩
    | none => .error (.other 1)
  primSig := primSig
  prim := prim
  eval := eval
  expand := expand
  typeOk := typeOk

end Holpy.C02.Toy
