import Holpy.C04.MacroModel2
import Holpy.C04.MacroProofs2
import Holpy.C04.PropsMacro
/-
C04 — further per-macro theorems "evaluation = conclusion of the checked expansion" on the shared
kernel model (expansion script run by the C01 checker model `runScriptAx`, any theory `axs`).
-/
namespace Holpy.C04
open Holpy Holpy.C04.Macro

/-- `intros` without `exists` arguments, premises `_VAR x` (variable declarations) and `A |- A`
(assumptions) in any order, the proved statement last: whenever the evaluation reports `th` and the
checker accepts the exported script (one `forall_intr` / `implies_intr` line per premise, last premise
first), the script's last theorem is exactly `th`; the premises are left in place. -/
theorem macro_eval_eq_expand_intros_vars (axs : List (String × Thm)) (intros : List Thm) (body th : Thm)
    (res : List Thm) (he : introsVEval intros body = some th)
    (hr : runScriptAx axs (introsVScript intros) (intros ++ [body]) = .ok res) :
    res.getLast? = some th ∧ intros ++ [body] <+: res := by
  simp only [introsVEval] at he
  split at he
  · simp at he
  · exact run_introsVSteps axs intros.reverse intros body th res he hr
example : (introsVEval [Thm.mkVAR "x" Ty.bool, Thm.assume exA] ⟨[exA], .var "x" Ty.bool⟩).isSome = true ∧
    (runScriptAx [] (introsVScript [Thm.mkVAR "x" Ty.bool, Thm.assume exA])
      [Thm.mkVAR "x" Ty.bool, Thm.assume exA, ⟨[exA], .var "x" Ty.bool⟩]).toOption.map List.getLast? =
      some (introsVEval [Thm.mkVAR "x" Ty.bool, Thm.assume exA] ⟨[exA], .var "x" Ty.bool⟩) := by decide

/-- on assumption premises only, the evaluation with variables is the one of `macro_eval_eq_expand_intros` -/
theorem introsVEval_extends (intros : List Thm) (body th : Thm) (he : introsEval intros body = some th) :
    introsVEval intros body = some th := by
  simp only [introsEval] at he
  simp only [introsVEval]
  split at he
  · simp at he
  · rename_i hne
    simp only [hne, Bool.false_eq_true, if_false]
    split at he
    · rename_i hall
      simp only [Option.some.injEq] at he
      subst he
      rw [← List.map_reverse]
      have hall' : ∀ t ∈ intros.reverse, (!isVAR t.prop && t.hyps.length == 1 && Thm.memAeq t.prop t.hyps) = true := by
        intro t ht
        exact List.all_eq_true.mp hall t (List.mem_reverse.mp ht)
      generalize intros.reverse = l at hall'
      induction l generalizing body with
      | nil => rfl
      | cons i rest ih =>
        have hi := hall' i (by simp)
        simp only [Bool.and_eq_true, Bool.not_eq_true'] at hi
        simp only [introsFold, hi.1.1, Bool.false_eq_true, if_false, hi.1.2, hi.2, Bool.and_self, if_true,
          List.map_cons, foldIntr]
        exact ih _ (fun t ht => hall' t (List.mem_cons_of_mem _ ht))
    · simp at he
example : introsEval [Thm.assume exA] ⟨[exA], exB⟩ = some ⟨[], Term.mkImplies exA exB⟩ := by decide

/-- `apply_theorem` on a first-order monomorphic theorem `ax` without hypotheses, instantiation `inst`
(the matcher's answer, any) with complete type part, schematic variables MAY REMAIN: whenever the
evaluation (which generalises over the remaining variables with `Thm.forall_intr`) reports `th` and the
checker accepts the exported script (`theorem`, `substitution`, one `implies_elim` per premise, one
`forall_intr` per remaining variable, last first), the script's last theorem is exactly `th`. -/
theorem macro_eval_eq_expand_apply_theorem_svars (axs : List (String × Thm)) (name : String) (ax : Thm)
    (inst : Term.Inst) (prevs : List Thm) (th : Thm) (res : List Thm) (p' : Term)
    (hax : axs.lookup name = some ax) (hh : ax.hyps = [])
    (htc : Term.subst inst ax.prop = .ok (p', inst.tyinst))
    (he : applyTheoremREval axs name inst prevs = some th)
    (hr : runScriptAx axs (applyTheoremRScript name inst prevs.length (remainSvars inst ax.prop)) prevs = .ok res) :
    res.getLast? = some th := by
  simp only [applyTheoremREval, hax] at he
  cases h0 : applyTheoremEval axs name inst prevs with
  | none => simp [h0] at he
  | some th0 =>
    simp only [h0] at he
    obtain ⟨mid, h1, h2⟩ := run_applyTheoremScript_tail axs name ax inst prevs th0 _ res p' hax hh htc h0 hr
    rw [← h2] at h1
    obtain ⟨final, mid', f1, f2, _⟩ := run_forallIntrSteps axs _ mid th0 [] res (by simpa using h1)
    simp only [runScriptAx, Except.ok.injEq] at f2
    rw [he] at f1
    simp only [Option.some.injEq] at f1
    subst f2; subst f1
    simp

/-- example: `K : P → Q → P` applied to a premise; `Q` remains and is generalised -/
def exAxsK : List (String × Thm) :=
  [("K_ax", ⟨[], Term.mkImplies (.svar "P" Ty.bool) (Term.mkImplies (.svar "Q" Ty.bool) (.svar "P" Ty.bool))⟩)]
def exInstK : Term.Inst := ⟨[], [("P", exA)], []⟩
example : remainSvars exInstK (Term.mkImplies (.svar "P" Ty.bool) (Term.mkImplies (.svar "Q" Ty.bool) (.svar "P" Ty.bool))) =
    [.svar "Q" Ty.bool] := by
  simp [remainSvars, exInstK, Term.getSvars, Term.svarsAcc, Term.mkImplies, Ty.subst, Ty.bool, Ty.fn, List.lookup]

/-- the instantiation of the example is type-complete -/
private theorem ex_substK : Term.subst exInstK (Term.mkImplies (.svar "P" Ty.bool) (Term.mkImplies (.svar "Q" Ty.bool) (.svar "P" Ty.bool))) =
      .ok (Term.mkImplies exA (Term.mkImplies (.svar "Q" Ty.bool) exA), exInstK.tyinst) := by
  simp [Term.subst, exInstK, Term.getSvars, Term.svarsAcc, Term.mkImplies, Term.matchSvars, List.lookup, exA,
    Term.checkedGetType, Ty.matchIncr, Ty.matchIncrList, Ty.bool, Ty.fn, Term.substType, Ty.subst, Term.substRec, bind, Except.bind]
example : (applyTheoremREval exAxsK "K_ax" exInstK [⟨[exB], exA⟩]).isSome = true := by
  have hr : remainSvars exInstK (Term.mkImplies (.svar "P" Ty.bool) (Term.mkImplies (.svar "Q" Ty.bool) (.svar "P" Ty.bool))) =
      [.svar "Q" Ty.bool] := by
    simp [remainSvars, exInstK, Term.getSvars, Term.svarsAcc, Term.mkImplies, Ty.subst, Ty.bool, Ty.fn, List.lookup]
  have h0 : applyTheoremEval exAxsK "K_ax" exInstK [⟨[exB], exA⟩] =
      some ⟨[exB], Term.mkImplies (.svar "Q" Ty.bool) exA⟩ := by
    simp only [applyTheoremEval, exAxsK, List.lookup, beq_self_eq_true, ex_substK]
    decide
  have h1 : forallIntrAll ⟨[exB], Term.mkImplies (.svar "Q" Ty.bool) exA⟩ [.svar "Q" Ty.bool] ≠ none := by decide
  simp only [applyTheoremREval, h0]
  simp only [exAxsK, List.lookup, beq_self_eq_true, hr, List.reverse_cons, List.reverse_nil, List.nil_append]
  cases hx : forallIntrAll ⟨[exB], Term.mkImplies (.svar "Q" Ty.bool) exA⟩ [.svar "Q" Ty.bool] with
  | none => exact absurd hx h1
  | some _ => rfl

/-- `apply_theorem_for` (the same class with `with_inst`; `apply_theorem` is the call with the empty
instantiation): for EVERY matcher (type-matching loop + `first_order_match_list` started from the given
instantiation), under the conditions of the previous theorem on the matcher's answer, the accepted
script ends in what the evaluation reports. -/
theorem macro_eval_eq_expand_apply_theorem_for (axs : List (String × Thm))
    (matcher : Term.Inst → List Thm → Option Term.Inst) (name : String) (ax : Thm)
    (inst0 inst : Term.Inst) (prevs : List Thm) (th : Thm) (res : List Thm) (p' : Term)
    (hm : matcher inst0 prevs = some inst)
    (hax : axs.lookup name = some ax) (hh : ax.hyps = [])
    (htc : Term.subst inst ax.prop = .ok (p', inst.tyinst))
    (he : applyTheoremForEval axs matcher name inst0 prevs = some th)
    (hr : runScriptAx axs (applyTheoremForScript axs matcher name inst0 prevs) prevs = .ok res) :
    res.getLast? = some th := by
  simp only [applyTheoremForEval, hm] at he
  simp only [applyTheoremForScript, hm, hax] at hr
  exact macro_eval_eq_expand_apply_theorem_svars axs name ax inst prevs th res p' hax hh htc he hr
example : applyTheoremForEval exAxs (fun _ _ => some exInst) "mp_ax" ⟨[], [("P", exA)], []⟩ [⟨[exB], exA⟩] =
    applyTheoremREval exAxs "mp_ax" exInst [⟨[exB], exA⟩] := rfl

/-- `forall_elim_gen` when the instance is beta-normal (the hypothesis `hbn`; otherwise the expansion
continues with the beta-normalisation conversion, which is not modelled): whenever the evaluation
reports `th` and the checker accepts the exported `forall_elim` line, that line is exactly `th`. -/
theorem macro_eval_eq_expand_forall_elim_gen_partial (axs : List (String × Thm)) (fuel : Nat) (s : Term)
    (p th : Thm) (res : List Thm)
    (hbn : ∀ r, Thm.forallElim s p = .ok r → isBetaNormal fuel r.prop = true)
    (he : forallElimGenEval fuel s [p] = some th)
    (hr : runScriptAx axs (forallElimGenScript s) [p] = .ok res) : res.getLast? = some th := by
  simp only [forallElimGenScript] at hr
  obtain ⟨nxt, h1, _, h3⟩ := run_step_at axs "forall_elim" _ [p] 0 p [] res (by decide) rfl hr
  simp only [applyRule] at h1
  simp only [runScriptAx, Except.ok.injEq] at h3
  subst h3
  have hb := hbn nxt h1
  simp only [forallElimGenEval, h1] at he
  simp only [isBetaNormal] at hb
  split at hb
  · rename_i n hn
    simp only [hn, hb, if_true, Option.some.injEq] at he
    subst he
    simp
  · simp at hb
/-- example: `!x. x --> x` instantiated with `A` -/
def exAllId : Thm := ⟨[], .comb (.const "all" (Ty.fn (Ty.fn Ty.bool Ty.bool) Ty.bool))
  (.abs "x" Ty.bool (Term.mkImplies (.bound 0) (.bound 0)))⟩
example : forallElimGenEval 100 exA [exAllId] = some ⟨[], Term.mkImplies exA exA⟩ ∧
    (runScriptAx [] (forallElimGenScript exA) [exAllId]).toOption.map List.getLast? =
      some (some ⟨[], Term.mkImplies exA exA⟩) ∧
    isBetaNormal 100 (Term.mkImplies exA exA) = true := by decide

/-- `apply_fact_for` with at least one instantiation argument, when the instantiated fact is beta-normal
and every further premise is literally the next assumption (otherwise the evaluation model answers
`none`: those branches run the beta-normalisation conversion, which is not modelled): whenever the
evaluation reports `th` and the checker accepts the exported script (one `forall_elim` per argument, one
`implies_elim` per further premise), the script's last theorem is exactly `th`. -/
theorem macro_eval_eq_expand_apply_fact_for_partial (axs : List (String × Thm)) (fuel : Nat) (args : List Term)
    (p : Thm) (prems : List Thm) (th : Thm) (res : List Thm)
    (he : applyFactForEval fuel args (p :: prems) = some th)
    (hr : runScriptAx axs (applyFactForScript args prems.length) (p :: prems) = .ok res) :
    res.getLast? = some th := by
  cases args with
  | nil => simp [applyFactForEval] at he
  | cons s rest =>
    simp only [applyFactForEval, List.isEmpty_cons, Bool.false_eq_true, if_false] at he
    split at he
    · split at he
      · rename_i q hq
        split at he
        · simp only [applyFactForScript] at hr
          obtain ⟨nxt, h1, h2, h3⟩ := run_step_at axs "forall_elim" _ (p :: prems) 0 p _ res (by decide) rfl hr
          simp only [applyRule] at h1
          simp only [forallElimAll, h1] at hq
          have hlen : (p :: prems).length = prems.length + 1 := by simp
          obtain ⟨final, mid, f1, f2, f3, f4⟩ :=
            run_forallElimSteps axs rest (p :: prems) nxt _ res h2 (by rw [hlen]; exact h3)
          rw [hq] at f1
          simp only [Option.some.injEq] at f1
          subst f1
          have hpl : ((p :: prems) ++ mid).length = prems.length + 1 + rest.length := by simp [f3]; omega
          have hcite : ∀ m (hm : m < prems.length), ((p :: prems) ++ mid)[1 + m]? = some prems[m] := by
            intro m hm
            rw [List.getElem?_append_left (by simp; omega)]
            simp [Nat.add_comm 1 m, List.getElem?_eq_getElem hm]
          obtain ⟨fin, g1, g2, _⟩ :=
            run_elimSteps axs prems ((p :: prems) ++ mid) q 1 res hcite f4 (by rw [hpl]; exact f2)
          rw [elimAllStrict_elimAll prems q th he] at g1
          simp only [Except.ok.injEq] at g1
          subst g1
          exact g2
        · simp at he
      · simp at he
    · simp at he
/-- example: `!x. x --> x` instantiated with `A` and applied to `B |- A` -/
example : applyFactForEval 100 [exA] [exAllId, ⟨[exB], exA⟩] = some ⟨[exB], exA⟩ ∧
    (runScriptAx [] (applyFactForScript [exA] 1) [exAllId, ⟨[exB], exA⟩]).toOption.map List.getLast? =
      some (some ⟨[exB], exA⟩) := by decide

end Holpy.C04
