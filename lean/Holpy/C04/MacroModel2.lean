import Holpy.C04.MacroModel
/-
C04 — further LOGIC macros on the shared kernel model: `intros` with variable declarations,
`apply_theorem` / `apply_theorem_for` with remaining schematic variables, `forall_elim_gen`,
`apply_fact_for`.  Same conventions as `MacroModel.lean`: the one-step evaluation and the primitive
script of `get_proof_term(...).export(...)`, citations by position.  Import-free apart from the
kernel model.
-/
namespace Holpy.C04.Macro
open Holpy

/-! ### `intros` (logic/logic.py `intros_macro`) with `args = []`: assumptions and `_VAR` declarations

    pt, intros = prevs[-1], prevs[:-1]
    for intro in reversed(intros):
        if intro.th.prop.is_VAR():   pt = pt.forall_intr(intro.prop.arg)
        elif len(args) > 0 and ...   -- never with args = []
        else: assert len(intro.th.hyps) == 1 and intro.th.hyps[0] == intro.th.prop
              pt = pt.implies_intr(intro.prop)

No `eval` of its own: the evaluation runs the kernel rule functions while the proof term is built. -/

/-- `t.arg` of `_VAR x` -/
def varArg : Term → Term
  | .comb _ x => x
  | t => t

/-- the loop on sequents, premises in the order the loop visits them (last intro first) -/
def introsFold : List Thm → Thm → Option Thm
  | [], pt => some pt
  | i :: rest, pt =>
    if isVAR i.prop then
      match Thm.forallIntr (varArg i.prop) pt with
      | .ok pt' => introsFold rest pt'
      | .error _ => none
    else if i.hyps.length == 1 && Thm.memAeq i.prop i.hyps then
      introsFold rest (Thm.impliesIntr i.prop pt)
    else none

/-- evaluation: at least two premises (a single premise is the `apply_theorem trivial` case) -/
def introsVEval (intros : List Thm) (body : Thm) : Option Thm :=
  if intros.isEmpty then none else introsFold intros.reverse body

/-- the exported lines of the loop: line `k` is the theorem the first step starts from -/
def introsVSteps : Nat → List Thm → List StepAx
  | _, [] => []
  | k, i :: rest =>
    (if isVAR i.prop then (⟨"forall_intr", .prim (.term (varArg i.prop)), [k], none⟩ : StepAx)
     else ⟨"implies_intr", .prim (.term i.prop), [k], none⟩) :: introsVSteps (k + 1) rest

/-- expansion: the premises sit at positions `0 .. n` (`body` at position `n`) -/
def introsVScript (intros : List Thm) : List StepAx :=
  introsVSteps intros.length intros.reverse

/-! ### `apply_theorem` / `apply_theorem_for` (logic/logic.py `apply_theorem_macro`, the same class with
`with_inst`) for a first-order monomorphic theorem, WITH remaining schematic variables

    ... as in MacroModel.lean, then
    remain_svars = [t.subst_type(inst.tyinst) for t in svars if t.name not in inst]
    eval:    for v in reversed(remain_svars): th = Thm.forall_intr(v, th)
    expand:  for v in reversed(remain_svars): pt = pt.forall_intr(v)

`inst` is the instantiation after `first_order_match_list` (for `apply_theorem_for`: started from the
given one) — the matcher's answer is an argument.  `name in inst` looks at the dictionary of
schematic variables only. -/

/-- `remain_svars`, in the order of `get_svars()` -/
def remainSvars (inst : Term.Inst) (p : Term) : List Term :=
  ((Term.getSvars p).filter (fun v => (inst.svars.lookup v.1).isNone)).map
    (fun v => Term.svar v.1 (v.2.subst inst.tyinst))

/-- `Thm.forall_intr` for each variable in the given order -/
def forallIntrAll : Thm → List Term → Option Thm
  | th, [] => some th
  | th, v :: rest =>
    match Thm.forallIntr v th with
    | .ok th' => forallIntrAll th' rest
    | .error _ => none

def applyTheoremREval (axs : List (String × Thm)) (name : String) (inst : Term.Inst) (prevs : List Thm) :
    Option Thm :=
  match axs.lookup name, applyTheoremEval axs name inst prevs with
  | some ax, some th => forallIntrAll th (remainSvars inst ax.prop).reverse
  | _, _ => none

/-- `forall_intr` lines: line `k` is the running theorem -/
def forallIntrSteps : Nat → List Term → List StepAx
  | _, [] => []
  | k, v :: rest => ⟨"forall_intr", .prim (.term v), [k], none⟩ :: forallIntrSteps (k + 1) rest

/-- expansion: as `applyTheoremScript` (premises at `0 .. n-1`, `theorem` at `n`, `substitution` at
`n + 1`, the `implies_elim` lines up to `2 n + 1`), then one `forall_intr` line per remaining variable -/
def applyTheoremRScript (name : String) (inst : Term.Inst) (n : Nat) (remain : List Term) : List StepAx :=
  applyTheoremScript name inst n ++ forallIntrSteps (2 * n + 1) remain.reverse

/-- `apply_theorem_for` = the same class with `with_inst`: the type-matching loop over the given
instantiation and `first_order_match_list(pats, ts, inst)` are the oracle `matcher` (its failure is the
macro's failure); `apply_theorem` is the call with the empty instantiation. -/
def applyTheoremForEval (axs : List (String × Thm)) (matcher : Term.Inst → List Thm → Option Term.Inst)
    (name : String) (inst0 : Term.Inst) (prevs : List Thm) : Option Thm :=
  match matcher inst0 prevs with
  | some inst => applyTheoremREval axs name inst prevs
  | none => none

def applyTheoremForScript (axs : List (String × Thm)) (matcher : Term.Inst → List Thm → Option Term.Inst)
    (name : String) (inst0 : Term.Inst) (prevs : List Thm) : List StepAx :=
  match matcher inst0 prevs, axs.lookup name with
  | some inst, some ax => applyTheoremRScript name inst prevs.length (remainSvars inst ax.prop)
  | _, _ => []

/-! ### `forall_elim_gen` (logic/logic.py `forall_elim_gen_macro`)

    pt = pts[0].forall_elim(s)
    if pt.prop.beta_norm() != pt.prop: pt = pt.on_prop(beta_norm_conv())

In the branch in which the instance is NOT beta-normal the conversion's equation `r = r.beta_norm()`
is applied with `equal_elim`: the evaluation is modelled (same hypotheses, normalised statement), the
proof term of the conversion is not: the script below is the expansion in the beta-normal branch. -/

/-- is the statement beta-normal already?  (`pt.prop.beta_norm() != pt.prop` is false) -/
def isBetaNormal (fuel : Nat) (t : Term) : Bool :=
  match Term.betaNorm fuel t with
  | .ok n => Term.aeq n t
  | .error _ => false

def forallElimGenEval (fuel : Nat) (s : Term) (prevs : List Thm) : Option Thm :=
  match prevs with
  | [p] =>
    match Thm.forallElim s p with
    | .ok r =>
      match Term.betaNorm fuel r.prop with
      | .ok n => if Term.aeq n r.prop then some r else some ⟨r.hyps, n⟩
      | .error _ => none
    | .error _ => none
  | _ => none

def forallElimGenScript (s : Term) : List StepAx :=
  [⟨"forall_elim", .prim (.term s), [0], none⟩]

/-! ### `apply_fact_for` (logic/logic.py `apply_fact_macro(with_inst=True)`)

    pt, pt_prevs = pts[0], pts[1:]
    new_names = get_forall_names(pt.prop); new_vars, As, C = strip_all_implies(pt.prop, new_names)
    assert len(pt_prevs) <= len(As);  assert len(args) == len(new_names)
    inst = Inst({nm: v for nm, v in zip(new_names, args)})     -- the names are distinct
    for new_var in new_vars: pt = pt.forall_elim(inst[new_var.name])      -- = args in order
    if pt.prop.beta_norm() != pt.prop: pt = pt.on_prop(beta_norm_conv())
    for prev_pt in pt_prevs:
        if prev_pt.prop != pt.assums[0]: prev_pt = prev_pt.on_prop(beta_norm_conv())
        pt = pt.implies_elim(prev_pt)

(every variable is instantiated: no `forall_intr` at the end).  As above the branches that run the
beta-normalisation conversion are outside the model (`none`). -/

/-- number of leading universal quantifiers: `len(get_forall_names(t))` -/
def forallDepth : Term → Nat
  | .comb (.const n _) (.abs _ _ b) => if n == "all" then forallDepth b + 1 else 0
  | _ => 0

/-- the assumptions of the body under the leading quantifiers (their number is all that is used) -/
def forallBodyAssums : Term → Nat
  | .comb (.const n T) (.abs x U b) =>
    if n == "all" then forallBodyAssums b else (stripImplies (.comb (.const n T) (.abs x U b))).1.length
  | t => (stripImplies t).1.length

/-- `forall_elim` for each argument in order -/
def forallElimAll : Thm → List Term → Option Thm
  | th, [] => some th
  | th, s :: rest =>
    match Thm.forallElim s th with
    | .ok th' => forallElimAll th' rest
    | .error _ => none

/-- `implies_elim` for each premise, each of which must be the assumption literally -/
def elimAllStrict : Thm → List Thm → Option Thm
  | th, [] => some th
  | th, p :: rest =>
    match Term.destImplies th.prop with
    | some (a, _) =>
      if Term.aeq p.prop a then
        match Thm.impliesElim th p with
        | .ok th' => elimAllStrict th' rest
        | .error _ => none
      else none
    | none => none

def applyFactForEval (fuel : Nat) (args : List Term) (prevs : List Thm) : Option Thm :=
  match prevs with
  | [] => none
  | p :: rest =>
    if args.isEmpty then none   -- without quantifiers the first `implies_elim` cites the fact: other line structure
    else if args.length == forallDepth p.prop && rest.length ≤ forallBodyAssums p.prop then
      match forallElimAll p args with
      | some q =>
        if isBetaNormal fuel q.prop then elimAllStrict q rest else none
      | none => none
    else none

/-- `forall_elim` lines: line `k` is the running theorem -/
def forallElimSteps : Nat → List Term → List StepAx
  | _, [] => []
  | k, s :: rest => ⟨"forall_elim", .prim (.term s), [k], none⟩ :: forallElimSteps (k + 1) rest

/-- expansion: the premises sit at positions `0 .. n` (the fact at `0`); `forall_elim` lines from `n + 1`
(the first cites the fact), then the `implies_elim` lines citing premises `1 .. n` -/
def applyFactForScript (args : List Term) (n : Nat) : List StepAx :=
  match args with
  | [] => []
  | s :: rest =>
    ⟨"forall_elim", .prim (.term s), [0], none⟩ :: forallElimSteps (n + 1) rest ++
      elimSteps (n + 1 + rest.length) 1 n

end Holpy.C04.Macro
