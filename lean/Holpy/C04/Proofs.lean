import Holpy.C04.Model
namespace Holpy.C04
end Holpy.C04
