import Holpy.C04.Model
import Mathlib.Data.List.Forall2
/-
C04 — helper lemmas for Props.lean: `ItemID.can_depend_on` facts, stability of citations when lines
are appended, and the invariant of `export`'s inner `rec`.
-/
namespace Holpy.C04

/-! ### can_depend_on -/

theorem canDependOn_len {self other : ItemId} (h : canDependOn self other = true) :
    1 ≤ other.length ∧ other.length ≤ self.length := by
  unfold canDependOn at h
  split at h
  · simp at h
  · rename_i l hl
    split at h
    · simp at h
    · omega

/-- A line of the expansion of line `pfx` may cite whatever line `pfx` itself may cite. -/
theorem canDependOn_ext {pfx p : ItemId} (k : Nat) (h : canDependOn pfx p = true) :
    canDependOn (pfx ++ [k]) p = true := by
  have hlen := canDependOn_len h
  unfold canDependOn at h ⊢
  split at h
  · simp at h
  · rename_i l hl
    have hl' : l < pfx.length := by omega
    simp only [hl] at *
    split at h
    · simp at h
    · split at h
      · simp at h
      · rename_i h1 h2
        have e1 : ¬ (l + 1 > (pfx ++ [k]).length) := by simp; omega
        have e2 : (pfx ++ [k]).take l = pfx.take l := by
          rw [List.take_append_of_le_length (by omega)]
        have e3 : (pfx ++ [k])[l]? = pfx[l]? := by
          rw [List.getElem?_append_left hl']
        simp only [e1, if_false, e2, e3]
        simp only [h2]
        exact h

/-- A line of the expansion may cite every earlier line of the expansion. -/
theorem canDependOn_inner (pfx : ItemId) {j k : Nat} (h : j < k) :
    canDependOn (pfx ++ [k]) (pfx ++ [j]) = true := by
  unfold canDependOn
  have hl : (pfx ++ [j]).length = pfx.length + 1 := by simp
  rw [hl]
  simp only []
  have e1 : ¬ (pfx.length + 1 > (pfx ++ [k]).length) := by simp
  have e2 : (pfx ++ [j]).take pfx.length = pfx := by simp
  have e3 : (pfx ++ [k]).take pfx.length = pfx := by simp
  have e4 : (pfx ++ [j])[pfx.length]? = some j := by simp
  have e5 : (pfx ++ [k])[pfx.length]? = some k := by simp
  simp [e2, e3, h]

/-! ### findSeq -/

theorem findSeq_outer (ctx : ItemId → Option Seq) {pfx p : ItemId} (items : List Item)
    (h : canDependOn pfx p = true) : findSeq ctx pfx items p = ctx p := by
  have hl := canDependOn_len h
  unfold findSeq
  have : ¬ (p.length = pfx.length + 1 ∧ p.take pfx.length = pfx) := by
    intro ⟨h1, _⟩; omega
  simp [this]

theorem findSeq_inner (ctx : ItemId → Option Seq) (pfx : ItemId) {items : List Item} {j : Nat} {it : Item}
    (h : items[j]? = some it) : findSeq ctx pfx items (pfx ++ [j]) = some it.th := by
  unfold findSeq
  have h1 : (pfx ++ [j]).length = pfx.length + 1 ∧ (pfx ++ [j]).take pfx.length = pfx := by simp
  simp [h]

theorem findSeq_append (ctx : ItemId → Option Seq) (pfx : ItemId) {items : List Item} (more : List Item)
    {p : ItemId} {s : Seq} (h : findSeq ctx pfx items p = some s) :
    findSeq ctx pfx (items ++ more) p = some s := by
  unfold findSeq at h ⊢
  split
  · rename_i hc
    rw [if_pos hc] at h
    split
    · rename_i j hj
      rw [hj] at h
      simp only [] at h
      cases hi : items[j]? with
      | none => simp [hi] at h
      | some it =>
        have hlt : j < items.length := by
          rcases List.getElem?_eq_some_iff.mp hi with ⟨hlt, _⟩; exact hlt
        rw [List.getElem?_append_left hlt]
        exact h
    · rename_i hj
      rw [hj] at h
      simp at h
  · rename_i hc
    rw [if_neg hc] at h
    exact h

/-! ### The invariant of `export`'s `rec` -/

/-- What is assumed about the dictionary lookup `same` and the rule semantics: `same` keys are
related by `E` (equality, or `Thm.__eq__`), and rules respect `E` on their premises. -/
structure SameHyp (evalRule : String → Nat → List Seq → Option Seq) (same : Seq → Seq → Bool)
    (E : Seq → Seq → Prop) : Prop where
  same_E : ∀ a b, same a b = true → E a b
  refl : ∀ a, E a a
  compat : ∀ r a ths ths' s, List.Forall₂ E ths' ths → evalRule r a ths = some s →
    ∃ s', evalRule r a ths' = some s' ∧ canProve s' s = true

/-- Citation `p`, made by the line at position `k`, is admissible and resolves in `items` to a
sequent related to `s`; it refers to an earlier line of the expansion or to a line of the enclosing
proof that the macro line itself may cite. -/
def Cites (ctx : ItemId → Option Seq) (pfx : ItemId) (E : Seq → Seq → Prop) (items : List Item)
    (k : Nat) (p : ItemId) (s : Seq) : Prop :=
  canDependOn (pfx ++ [k]) p = true ∧
  (∃ s', findSeq ctx pfx items p = some s' ∧ E s' s) ∧
  ((∃ j, j < k ∧ p = pfx ++ [j]) ∨ canDependOn pfx p = true)

def ItemGood (evalRule : String → Nat → List Seq → Option Seq) (ctx : ItemId → Option Seq)
    (pfx : ItemId) (E : Seq → Seq → Prop) (items : List Item) (k : Nat) (it : Item) : Prop :=
  it.id = pfx ++ [k] ∧
  ∃ ths, List.Forall₂ (Cites ctx pfx E items k) it.prevs ths ∧ evalRule it.rule it.args ths = some it.th

structure Inv (evalRule : String → Nat → List Seq → Option Seq) (ctx : ItemId → Option Seq)
    (pfx : ItemId) (E : Seq → Seq → Prop) (st : St) : Prop where
  good : ∀ k it, st.items[k]? = some it → ItemGood evalRule ctx pfx E st.items k it
  tbl : ∀ e ∈ st.tbl, ∃ j it, st.items[j]? = some it ∧ e.2 = pfx ++ [j] ∧ it.th = e.1

theorem Cites.append {ctx : ItemId → Option Seq} {pfx : ItemId} {E : Seq → Seq → Prop} {items : List Item}
    {k : Nat} {p : ItemId} {s : Seq} (more : List Item) (h : Cites ctx pfx E items k p s) :
    Cites ctx pfx E (items ++ more) k p s := by
  obtain ⟨h1, ⟨s', h2, h3⟩, h4⟩ := h
  exact ⟨h1, ⟨s', findSeq_append ctx pfx more h2, h3⟩, h4⟩

theorem Cites.later {ctx : ItemId → Option Seq} {pfx : ItemId} {E : Seq → Seq → Prop} {items : List Item}
    {k k' : Nat} {p : ItemId} {s : Seq} (hk : k ≤ k') (h : Cites ctx pfx E items k p s) :
    Cites ctx pfx E items k' p s := by
  obtain ⟨_, h2, h4⟩ := h
  rcases h4 with ⟨j, hj, rfl⟩ | h4
  · exact ⟨canDependOn_inner pfx (by omega), h2, Or.inl ⟨j, by omega, rfl⟩⟩
  · exact ⟨canDependOn_ext k' h4, h2, Or.inr h4⟩

theorem forall2_cites_append {ctx : ItemId → Option Seq} {pfx : ItemId} {E : Seq → Seq → Prop}
    {items : List Item} {k : Nat} (more : List Item) {ps : List ItemId} {ss : List Seq}
    (h : List.Forall₂ (Cites ctx pfx E items k) ps ss) :
    List.Forall₂ (Cites ctx pfx E (items ++ more) k) ps ss := by
  induction h with
  | nil => exact .nil
  | cons a _ ih => exact .cons (a.append more) ih

theorem ItemGood.append {evalRule : String → Nat → List Seq → Option Seq} {ctx : ItemId → Option Seq}
    {pfx : ItemId} {E : Seq → Seq → Prop} {items : List Item} {k : Nat} {it : Item} (more : List Item)
    (h : ItemGood evalRule ctx pfx E items k it) : ItemGood evalRule ctx pfx E (items ++ more) k it := by
  unfold ItemGood at h ⊢
  obtain ⟨h1, ths, h2, h3⟩ := h
  exact ⟨h1, ths, forall2_cites_append more h2, h3⟩

theorem lookup_some {same : Seq → Seq → Bool} {tbl : List (Seq × ItemId)} {th : Seq} {id : ItemId}
    (h : lookup same tbl th = some id) : ∃ e ∈ tbl, same e.1 th = true ∧ e.2 = id := by
  unfold lookup at h
  cases hf : tbl.find? (fun e => same e.1 th) with
  | none => simp [hf] at h
  | some e =>
    simp [hf] at h
    exact ⟨e, List.mem_of_find?_eq_some hf, by simpa using List.find?_some hf, h⟩

theorem lastId_append_singleton (l : List Item) (it : Item) : lastId (l ++ [it]) = it.id := by
  simp [lastId]

section
variable {evalRule : String → Nat → List Seq → Option Seq} {ctx : ItemId → Option Seq}
  {pfx : ItemId} {same : Seq → Seq → Bool} {E : Seq → Seq → Prop}

mutual
theorem exportRec_spec (H : SameHyp evalRule same E) :
    ∀ (pt : PT) (st : St), pt.isAtom = false → PT.wf evalRule ctx pfx pt = true →
      Inv evalRule ctx pfx E st → lookup same st.tbl pt.th = none →
      ∃ st' more it, exportRec same pfx pt st = .ok st' ∧ Inv evalRule ctx pfx E st' ∧
        st'.items = st.items ++ more ++ [it] ∧ it.th = pt.th ∧
        it.id = pfx ++ [st.items.length + more.length]
  | .atom _ _, _, hat, _, _, _ => by simp [PT.isAtom] at hat
  | .node rule args prevs th, st, _, hwf, hinv, hlk => by
    simp only [PT.wf, Bool.and_eq_true, decide_eq_true_eq] at hwf
    obtain ⟨hev, hwfl⟩ := hwf
    obtain ⟨ids, st', more, heq, hinv', hitems, hcites⟩ := exportPrevs_spec H prevs st hwfl hinv
    simp only [PT.th] at hlk
    refine ⟨⟨st'.items ++ [⟨pfx ++ [st'.items.length], rule, args, ids, th⟩],
        (th, pfx ++ [st'.items.length]) :: st'.tbl⟩, more,
      ⟨pfx ++ [st'.items.length], rule, args, ids, th⟩, ?_, ?_, ?_, rfl, ?_⟩
    · simp only [exportRec, hlk, heq]
    · constructor
      · intro k it hk
        simp only at hk
        by_cases hlt : k < st'.items.length
        · rw [List.getElem?_append_left hlt] at hk
          exact (hinv'.good k it hk).append _
        · have hk' : k = st'.items.length := by
            have := (List.getElem?_eq_some_iff.mp hk).1
            simp at this; omega
          subst hk'
          simp at hk
          subst hk
          exact ⟨rfl, thsOf prevs, forall2_cites_append _ hcites, hev⟩
      · intro e he
        simp only [List.mem_cons] at he
        rcases he with rfl | he
        · refine ⟨st'.items.length, ⟨pfx ++ [st'.items.length], rule, args, ids, th⟩, ?_, rfl, rfl⟩
          simp
        · obtain ⟨j, it, hj, h1, h2⟩ := hinv'.tbl e he
          have hlt : j < st'.items.length := (List.getElem?_eq_some_iff.mp hj).1
          exact ⟨j, it, by simp only []; rw [List.getElem?_append_left hlt]; exact hj, h1, h2⟩
    · simp only [hitems]
    · simp only [hitems, List.length_append]

theorem exportPrevs_spec (H : SameHyp evalRule same E) :
    ∀ (ps : List PT) (st : St), wfList evalRule ctx pfx ps = true → Inv evalRule ctx pfx E st →
      ∃ ids st' more, exportPrevs same pfx ps st = .ok (ids, st') ∧ Inv evalRule ctx pfx E st' ∧
        st'.items = st.items ++ more ∧
        List.Forall₂ (Cites ctx pfx E st'.items st'.items.length) ids (thsOf ps)
  | [], st, _, hinv => ⟨[], st, [], by simp [exportPrevs], hinv, by simp, by simp [thsOf]⟩
  | .atom id th :: ps, st, hwf, hinv => by
    simp only [wfList, PT.wf, Bool.and_eq_true, decide_eq_true_eq] at hwf
    obtain ⟨⟨hctx, hdep⟩, hwfl⟩ := hwf
    obtain ⟨ids, st', more, heq, hinv', hitems, hcites⟩ := exportPrevs_spec H ps st hwfl hinv
    refine ⟨id :: ids, st', more, by simp only [exportPrevs, heq], hinv', hitems, ?_⟩
    simp only [thsOf, PT.th]
    refine .cons ⟨canDependOn_ext _ hdep, ⟨th, ?_, H.refl th⟩, Or.inr hdep⟩ hcites
    rw [findSeq_outer ctx _ hdep]; exact hctx
  | .node r a qs th :: ps, st, hwf, hinv => by
    simp only [wfList, Bool.and_eq_true] at hwf
    obtain ⟨hwfp, hwfl⟩ := hwf
    cases hlk : lookup same st.tbl th with
    | some id0 =>
      obtain ⟨e, he, hsame, hid⟩ := lookup_some hlk
      obtain ⟨j, it, hj, h1, h2⟩ := hinv.tbl e he
      obtain ⟨ids, st', more, heq, hinv', hitems, hcites⟩ := exportPrevs_spec H ps st hwfl hinv
      refine ⟨id0 :: ids, st', more, by simp only [exportPrevs, hlk, heq], hinv', hitems, ?_⟩
      simp only [thsOf, PT.th]
      have hlt : j < st.items.length := (List.getElem?_eq_some_iff.mp hj).1
      have hj' : st'.items[j]? = some it := by
        rw [hitems, List.getElem?_append_left hlt]; exact hj
      have hlt' : j < st'.items.length := (List.getElem?_eq_some_iff.mp hj').1
      have hid0 : id0 = pfx ++ [j] := by rw [← hid, h1]
      subst hid0
      refine .cons ⟨canDependOn_inner pfx hlt', ⟨it.th, findSeq_inner ctx pfx hj', ?_⟩, Or.inl ⟨j, hlt', rfl⟩⟩ hcites
      rw [h2]; exact H.same_E _ _ hsame
    | none =>
      obtain ⟨st1, more1, it1, heq1, hinv1, hitems1, hth1, hid1⟩ :=
        exportRec_spec H (.node r a qs th) st rfl hwfp hinv (by simpa [PT.th] using hlk)
      obtain ⟨ids, st', more, heq, hinv', hitems, hcites⟩ := exportPrevs_spec H ps st1 hwfl hinv1
      refine ⟨lastId st1.items :: ids, st', more1 ++ [it1] ++ more,
        by simp only [exportPrevs, hlk, heq1, heq], hinv', by simp [hitems, hitems1], ?_⟩
      simp only [thsOf, PT.th]
      have hlast : lastId st1.items = it1.id := by rw [hitems1]; exact lastId_append_singleton _ _
      have hj1 : st1.items[st.items.length + more1.length]? = some it1 := by
        rw [hitems1]; simp
      have hlt1 : st.items.length + more1.length < st1.items.length := (List.getElem?_eq_some_iff.mp hj1).1
      have hj' : st'.items[st.items.length + more1.length]? = some it1 := by
        rw [hitems, List.getElem?_append_left hlt1]; exact hj1
      have hlt' : st.items.length + more1.length < st'.items.length := (List.getElem?_eq_some_iff.mp hj').1
      rw [hlast, hid1]
      refine .cons ⟨canDependOn_inner pfx hlt', ⟨it1.th, findSeq_inner ctx pfx hj', ?_⟩, Or.inl ⟨_, hlt', rfl⟩⟩ hcites
      rw [hth1]; exact H.refl _
end
end

/-! ### From the invariant to the checker -/

section
variable {evalRule : String → Nat → List Seq → Option Seq} {ctx : ItemId → Option Seq}
  {pfx : ItemId} {same : Seq → Seq → Bool} {E : Seq → Seq → Prop}

theorem mapM_findSeq {items : List Item} {k : Nat} {ps : List ItemId} {ss : List Seq}
    (h : List.Forall₂ (Cites ctx pfx E items k) ps ss) :
    ∃ ss', ps.mapM (findSeq ctx pfx items) = some ss' ∧ List.Forall₂ E ss' ss := by
  induction h with
  | nil => exact ⟨[], by simp, .nil⟩
  | cons a _ ih =>
    obtain ⟨_, ⟨s', hs', he⟩, _⟩ := a
    obtain ⟨ss', hm, hf⟩ := ih
    exact ⟨s' :: ss', by simp [List.mapM_cons, hs', hm], .cons he hf⟩

theorem all_canDependOn {items : List Item} {k : Nat} {ps : List ItemId} {ss : List Seq}
    (h : List.Forall₂ (Cites ctx pfx E items k) ps ss) :
    ps.all (fun p => canDependOn (pfx ++ [k]) p) = true := by
  induction h with
  | nil => simp
  | cons a _ ih => simp only [List.all_cons, Bool.and_eq_true]; exact ⟨a.1, ih⟩

theorem checkItem_ok (H : SameHyp evalRule same E) {items : List Item} {k : Nat} {it : Item}
    (h : ItemGood evalRule ctx pfx E items k it) : checkItem evalRule ctx pfx items it = .ok () := by
  unfold ItemGood at h
  obtain ⟨hid, ths, hc, hev⟩ := h
  obtain ⟨ths', hm, hf⟩ := mapM_findSeq hc
  obtain ⟨res, hres, hcp⟩ := H.compat _ _ _ _ _ hf hev
  unfold checkItem
  rw [hid, all_canDependOn hc]
  simp only [if_true, hm, hres, hcp]

theorem checkAll_ok {items : List Item} :
    ∀ (l : List Item), (∀ it ∈ l, checkItem evalRule ctx pfx items it = .ok ()) →
      checkAll evalRule ctx pfx items l = .ok ()
  | [], _ => rfl
  | it :: rest, h => by
    simp only [checkAll, h it (by simp)]
    exact checkAll_ok rest (fun x hx => h x (by simp [hx]))

/-- Everything the property theorems need about one export, for a lookup `same` and a relation `E`. -/
theorem export_general (H : SameHyp evalRule same E) (pt : PT) (hnode : pt.isAtom = false)
    (hwf : PT.wf evalRule ctx pfx pt = true) :
    ∃ items, exportPT same pfx pt = .ok items ∧ checkItems evalRule ctx pfx items = .ok pt.th ∧
      ∀ k it, items[k]? = some it → ItemGood evalRule ctx pfx E items k it := by
  have hinv0 : Inv evalRule ctx pfx E ⟨[], []⟩ := ⟨by intro k it h; simp at h, by intro e he; simp at he⟩
  obtain ⟨st', more, it, heq, hinv, hitems, hth, _⟩ :=
    exportRec_spec H pt ⟨[], []⟩ hnode hwf hinv0 (by simp [lookup])
  refine ⟨st'.items, by simp [exportPT, heq], ?_, hinv.good⟩
  have hall : ∀ x ∈ st'.items, checkItem evalRule ctx pfx st'.items x = .ok () := by
    intro x hx
    obtain ⟨k, hk, hxk⟩ := List.getElem_of_mem hx
    exact checkItem_ok H (hinv.good k x (by rw [List.getElem?_eq_getElem hk, hxk]))
  unfold checkItems
  rw [checkAll_ok _ hall]
  simp only [hitems, List.nil_append, List.getLast?_append, List.getLast?_singleton, Option.some_or, hth]
end

/-- Structural equality as `same`: no assumption on the rules is needed. -/
theorem sameHyp_struct (evalRule : String → Nat → List Seq → Option Seq) :
    SameHyp evalRule sameStruct (fun a b => a = b) where
  same_E := by intro a b h; simpa [sameStruct] using h
  refl := fun _ => rfl
  compat := by
    intro r a ths ths' s hf hev
    have : ths' = ths := by
      clear hev
      induction hf with
      | nil => rfl
      | cons h _ ih => rw [h, ih]
    subst this
    exact ⟨s, hev, by simp [canProve, List.all_eq_true]⟩

/-! ### Number of lines -/

mutual
theorem exportRec_len (same : Seq → Seq → Bool) (pfx : ItemId) :
    ∀ (pt : PT) (st st' : St), exportRec same pfx pt st = .ok st' →
      st'.items.length ≤ st.items.length + pt.nodes
  | .atom _ _, _, _, h => by simp [exportRec] at h
  | .node rule args prevs th, st, st', h => by
    simp only [exportRec] at h
    split at h
    · simp at h
    · split at h
      · simp at h
      · rename_i ids st1 heq
        have := exportPrevs_len same pfx prevs st ids st1 heq
        simp only [Except.ok.injEq] at h
        subst h
        simp only [List.length_append, List.length_singleton, PT.nodes]
        omega

theorem exportPrevs_len (same : Seq → Seq → Bool) (pfx : ItemId) :
    ∀ (ps : List PT) (st : St) (ids : List ItemId) (st' : St), exportPrevs same pfx ps st = .ok (ids, st') →
      st'.items.length ≤ st.items.length + nodesList ps
  | [], st, ids, st', h => by
    simp only [exportPrevs, Except.ok.injEq, Prod.mk.injEq] at h
    rw [← h.2]; simp [nodesList]
  | .atom id th :: ps, st, ids, st', h => by
    simp only [exportPrevs] at h
    split at h
    · simp at h
    · rename_i ids1 st1 heq
      have := exportPrevs_len same pfx ps st ids1 st1 heq
      simp only [Except.ok.injEq, Prod.mk.injEq] at h
      rw [← h.2]
      simp only [nodesList, PT.nodes]; omega
  | .node r a qs th :: ps, st, ids, st', h => by
    simp only [exportPrevs] at h
    split at h
    · split at h
      · simp at h
      · rename_i ids1 st1 heq
        have := exportPrevs_len same pfx ps st ids1 st1 heq
        simp only [Except.ok.injEq, Prod.mk.injEq] at h
        rw [← h.2]
        simp only [nodesList, PT.nodes]; omega
    · split at h
      · simp at h
      · rename_i st1 heq1
        have h1 := exportRec_len same pfx (.node r a qs th) st st1 heq1
        split at h
        · simp at h
        · rename_i ids2 st2 heq2
          have h2 := exportPrevs_len same pfx ps st1 ids2 st2 heq2
          simp only [Except.ok.injEq, Prod.mk.injEq] at h
          rw [← h.2]
          simp only [nodesList, PT.nodes] at h1 ⊢; omega
end

theorem exportPT_len (same : Seq → Seq → Bool) (pfx : ItemId) (pt : PT) (items : List Item)
    (h : exportPT same pfx pt = .ok items) : items.length ≤ pt.nodes := by
  unfold exportPT at h
  split at h
  · rename_i st heq
    have := exportRec_len same pfx pt ⟨[], []⟩ st heq
    simp only [Except.ok.injEq] at h
    subst h
    simpa using this
  · simp at h

/-! ### Templates -/

theorem getD_map_th {α : Type} (f g : α → PT) (h : ∀ x, (f x).th = (g x).th) (d : PT) :
    ∀ (l : List α) (i : Nat), ((l.map f).getD i d).th = ((l.map g).getD i d).th
  | [], i => by simp
  | x :: l, 0 => by simp [h x]
  | x :: l, i + 1 => by simpa using getD_map_th f g h d l i

theorem inst_th {α : Type} (f g : α → PT) (h : ∀ x, (f x).th = (g x).th) (l : List α) :
    ∀ (t : Tmpl), (t.inst (l.map f)).th = (t.inst (l.map g)).th
  | .prem i => by simpa [Tmpl.inst] using getD_map_th f g h default l i
  | .node _ _ _ _ => by simp [Tmpl.inst, PT.th]

theorem canProve_refl (a : Seq) : canProve a a = true := by
  simp [canProve, List.all_eq_true]

theorem seqEquiv_refl (a : Seq) : seqEquiv a a = true := by
  simp [seqEquiv, canProve_refl]

theorem forall2_imp {α β : Type} {R S : α → β → Prop} (h : ∀ a b, R a b → S a b) {l1 : List α} {l2 : List β}
    (hf : List.Forall₂ R l1 l2) : List.Forall₂ S l1 l2 := by
  induction hf with
  | nil => exact .nil
  | cons a _ ih => exact .cons (h _ _ a) ih

theorem forall2_left_mem {α β : Type} {R : α → β → Prop} {l1 : List α} {l2 : List β}
    (hf : List.Forall₂ R l1 l2) {a : α} (ha : a ∈ l1) : ∃ b, R a b := by
  induction hf with
  | nil => simp at ha
  | cons h _ ih =>
    simp only [List.mem_cons] at ha
    rcases ha with rfl | ha
    · exact ⟨_, h⟩
    · exact ih ha

/-! ### Every sequent is exported at most once -/

theorem lookup_cons (same : Seq → Seq → Bool) (k : Seq) (v : ItemId) (tbl : List (Seq × ItemId)) (th : Seq) :
    lookup same ((k, v) :: tbl) th = if same k th then some v else lookup same tbl th := by
  unfold lookup
  by_cases h : same k th = true <;> simp [List.find?_cons, h]

/-- invariant of `rec` for uniqueness: every line's sequent is a key of the dictionary, the stated
sequents are pairwise different, every key is the sequent of a line -/
structure UInv (st : St) : Prop where
  keyed : ∀ it ∈ st.items, lookup sameStruct st.tbl it.th ≠ none
  nodup : (st.items.map (·.th)).Nodup

mutual
theorem exportRec_unique (pfx : ItemId) :
    ∀ (pt : PT) (st st' : St), exportRec sameStruct pfx pt st = .ok st' → pt.noRepeat = true → UInv st →
      UInv st' ∧ (∀ it ∈ st'.items, it ∈ st.items ∨ it.th ∈ pt.nodeSeqs)
  | .atom _ _, _, _, h, _, _ => by simp [exportRec] at h
  | .node rule args prevs th, st, st', h, hn, hinv => by
    simp only [exportRec] at h
    cases hlk : lookup sameStruct st.tbl th with
    | some id => simp [hlk] at h
    | none =>
      simp only [hlk] at h
      cases hp : exportPrevs sameStruct pfx prevs st with
      | error e => simp [hp] at h
      | ok r =>
        obtain ⟨ids, st1⟩ := r
        simp only [hp, Except.ok.injEq] at h
        subst h
        simp only [PT.noRepeat, Bool.and_eq_true, Bool.not_eq_true', List.contains_eq_mem,
          decide_eq_false_iff_not] at hn
        obtain ⟨hinv1, hnew⟩ := exportPrevs_unique pfx prevs st ids st1 hp hn.2 hinv
        have hfresh : ∀ it ∈ st1.items, it.th ≠ th := by
          intro it hit heq
          rcases hnew it hit with hold | hdesc
          · exact hinv.keyed it hold (by rw [heq]; exact hlk)
          · exact hn.1 (by rw [← heq]; exact hdesc)
        refine ⟨⟨?_, ?_⟩, ?_⟩
        · intro it hit
          simp only [List.mem_append, List.mem_singleton] at hit
          rw [lookup_cons]
          rcases hit with hit | rfl
          · by_cases hs : sameStruct th it.th = true
            · simp [hs]
            · simp only [hs, Bool.false_eq_true, if_false]; exact hinv1.keyed it hit
          · simp [sameStruct]
        · simp only [List.map_append, List.map_cons, List.map_nil]
          rw [List.nodup_append]
          refine ⟨hinv1.nodup, by simp, ?_⟩
          intro a ha b hb
          simp only [List.mem_singleton] at hb
          subst hb
          obtain ⟨it, hit, rfl⟩ := List.mem_map.mp ha
          exact hfresh it hit
        · intro it hit
          simp only [List.mem_append, List.mem_singleton] at hit
          rcases hit with hit | rfl
          · rcases hnew it hit with hold | hdesc
            · exact Or.inl hold
            · exact Or.inr (by simp [PT.nodeSeqs, hdesc])
          · exact Or.inr (by simp [PT.nodeSeqs])

theorem exportPrevs_unique (pfx : ItemId) :
    ∀ (ps : List PT) (st : St) (ids : List ItemId) (st' : St),
      exportPrevs sameStruct pfx ps st = .ok (ids, st') → noRepeatList ps = true → UInv st →
      UInv st' ∧ (∀ it ∈ st'.items, it ∈ st.items ∨ it.th ∈ nodeSeqsList ps)
  | [], st, ids, st', h, _, hinv => by
    simp only [exportPrevs, Except.ok.injEq, Prod.mk.injEq] at h
    rw [← h.2]
    exact ⟨hinv, fun it hit => Or.inl hit⟩
  | .atom id th :: ps, st, ids, st', h, hn, hinv => by
    simp only [exportPrevs] at h
    cases hp : exportPrevs sameStruct pfx ps st with
    | error e => simp [hp] at h
    | ok r =>
      obtain ⟨ids1, st1⟩ := r
      simp only [hp, Except.ok.injEq, Prod.mk.injEq] at h
      rw [← h.2]
      simp only [noRepeatList, PT.noRepeat, Bool.true_and] at hn
      obtain ⟨h1, h2⟩ := exportPrevs_unique pfx ps st ids1 st1 hp hn hinv
      exact ⟨h1, fun it hit => (h2 it hit).imp (fun x => x) (by simp [nodeSeqsList, PT.nodeSeqs])⟩
  | .node r a qs th :: ps, st, ids, st', h, hn, hinv => by
    simp only [noRepeatList, Bool.and_eq_true] at hn
    simp only [exportPrevs] at h
    cases hlk : lookup sameStruct st.tbl th with
    | some id0 =>
      simp only [hlk] at h
      cases hp : exportPrevs sameStruct pfx ps st with
      | error e => simp [hp] at h
      | ok r =>
        obtain ⟨ids1, st1⟩ := r
        simp only [hp, Except.ok.injEq, Prod.mk.injEq] at h
        rw [← h.2]
        obtain ⟨h1, h2⟩ := exportPrevs_unique pfx ps st ids1 st1 hp hn.2 hinv
        exact ⟨h1, fun it hit => (h2 it hit).imp (fun x => x) (fun hh => by simp [nodeSeqsList, hh])⟩
    | none =>
      simp only [hlk] at h
      cases hr : exportRec sameStruct pfx (.node r a qs th) st with
      | error e => simp [hr] at h
      | ok st1 =>
        simp only [hr] at h
        cases hp : exportPrevs sameStruct pfx ps st1 with
        | error e => simp [hp] at h
        | ok r2 =>
          obtain ⟨ids2, st2⟩ := r2
          simp only [hp, Except.ok.injEq, Prod.mk.injEq] at h
          rw [← h.2]
          obtain ⟨g1, g2⟩ := exportRec_unique pfx (.node r a qs th) st st1 hr hn.1 hinv
          obtain ⟨h1, h2⟩ := exportPrevs_unique pfx ps st1 ids2 st2 hp hn.2 g1
          refine ⟨h1, fun it hit => ?_⟩
          rcases h2 it hit with hold | hdesc
          · rcases g2 it hold with hold' | hd'
            · exact Or.inl hold'
            · exact Or.inr (by simp [nodeSeqsList, hd'])
          · exact Or.inr (by simp [nodeSeqsList, hdesc])
end

end Holpy.C04
