import Holpy.C04.MacroModel
import Holpy.C04.MacroProofs
/-
C04 — per-macro theorems "evaluation = conclusion of the checked expansion" on the shared kernel
model: the expansion script is run by the C01 checker model `runScriptAx` (any theory `axs`).
-/
namespace Holpy.C04
open Holpy Holpy.C04.Macro

/-- atoms for the examples -/
def exA : Term := .var "A" Ty.bool
def exB : Term := .var "B" Ty.bool

/-- `trivial` (goal without leading quantifiers): whenever the evaluation reports `th` and the
checker accepts the exported primitive script (`assume C`, then `implies_intr` for the assumptions,
last first), the script's last theorem is exactly `th`. -/
theorem macro_eval_eq_expand_trivial (axs : List (String × Thm)) (goal : Term) (th : Thm)
    (res : List Thm) (he : trivialEval goal = some th)
    (hr : runScriptAx axs (trivialScript goal) [] = .ok res) : res.getLast? = some th := by
  rw [run_trivialScript axs goal res hr]
  simp only [trivialEval] at he
  split at he
  · simpa using he
  · simp at he
example : trivialEval (Term.mkImplies exA (Term.mkImplies exB exA)) =
      some ⟨[], Term.mkImplies exA (Term.mkImplies exB exA)⟩ ∧
    (runScriptAx [] (trivialScript (Term.mkImplies exA (Term.mkImplies exB exA))) []).toOption.map List.getLast? =
      some (some ⟨[], Term.mkImplies exA (Term.mkImplies exB exA)⟩) := by decide

/-- what `trivial` evaluates to: no hypotheses at all, and the conclusion is the goal (rebuilt from
its assumptions and conclusion; for a signature-correct goal that is the goal itself). -/
theorem trivial_eval_spec (goal : Term) (th : Thm) (he : trivialEval goal = some th) :
    th.hyps = [] ∧ th.prop = mkImpliesList (stripImplies goal).1 (stripImplies goal).2 ∧
      (sigOK goal = true → th.prop = goal) := by
  simp only [trivialEval] at he
  split at he
  · rename_i hmem
    simp only [Option.some.injEq] at he
    subst he
    refine ⟨?_, ?_, ?_⟩
    · rw [foldIntr_hyps]
      simp only [Thm.assume, List.any_reverse, List.filter_cons, List.filter_nil]
      simp only [Thm.memAeq] at hmem
      simp [hmem]
    · simpa [Thm.assume] using foldIntr_reverse_prop (Thm.assume (stripImplies goal).2) (stripImplies goal).1
    · intro hs
      rw [foldIntr_reverse_prop]
      exact mkImpliesList_strip goal hs
  · simp at he
example : trivialEval (Term.mkImplies exA (Term.mkImplies exB exA)) =
      some ⟨[], Term.mkImplies exA (Term.mkImplies exB exA)⟩ ∧
    sigOK (Term.mkImplies exA (Term.mkImplies exB exA)) = true := by decide

/-- `intros` with assumption premises `A1 |- A1, ..., An |- An` and the proved statement as last
premise: whenever the evaluation reports `th` and the checker accepts the exported script (one
`implies_intr` per assumption, last first, the first one citing the last premise), the script's
last theorem is exactly `th`; the premises are left in place. -/
theorem macro_eval_eq_expand_intros (axs : List (String × Thm)) (intros : List Thm) (body th : Thm)
    (res : List Thm) (he : introsEval intros body = some th)
    (hr : runScriptAx axs (introsScript intros) (intros ++ [body]) = .ok res) :
    res.getLast? = some th ∧ intros ++ [body] <+: res := by
  have := run_intrSteps axs (intros.map (fun t : Thm => t.prop)).reverse intros body res hr
  refine ⟨?_, this.2⟩
  rw [this.1]
  simp only [introsEval] at he
  split at he
  · simp at he
  · split at he
    · simpa using he
    · simp at he
example : introsEval [Thm.assume exA] ⟨[exA], exB⟩ = some ⟨[], Term.mkImplies exA exB⟩ ∧
    (runScriptAx [] (introsScript [Thm.assume exA]) [Thm.assume exA, ⟨[exA], exB⟩]).toOption.map List.getLast? =
      some (some ⟨[], Term.mkImplies exA exB⟩) := by decide

/-- what `intros` evaluates to: the implication from the assumptions to the proved statement, under
hypotheses taken from those of the proved statement only (no hypothesis is added; the introduced
assumptions are removed). -/
theorem intros_eval_spec (intros : List Thm) (body th : Thm) (he : introsEval intros body = some th) :
    th.prop = mkImpliesList (intros.map (·.prop)) body.prop ∧
      th.hyps = body.hyps.filter (fun t => !(intros.map (·.prop)).any (fun a => Term.aeq t a)) := by
  simp only [introsEval] at he
  split at he
  · simp at he
  · split at he
    · simp only [Option.some.injEq] at he
      subst he
      exact ⟨foldIntr_reverse_prop body _, by rw [foldIntr_hyps]; simp only [List.any_reverse]⟩
    · simp at he
example : introsEval [Thm.assume exA] ⟨[exA, exB], exB⟩ = some ⟨[exB], Term.mkImplies exA exB⟩ := by decide

end Holpy.C04
