import Holpy.C04.MacroModel
import Holpy.C04.MacroProofs
/-
C04 — per-macro theorems "evaluation = conclusion of the checked expansion" on the shared kernel
model: the expansion script is run by the C01 checker model `runScriptAx` (any theory `axs`).
-/
namespace Holpy.C04
open Holpy Holpy.C04.Macro

/-- atoms for the examples -/
def exA : Term := .var "A" Ty.bool
def exB : Term := .var "B" Ty.bool

/-- `trivial` (goal without leading quantifiers): whenever the evaluation reports `th` and the
checker accepts the exported primitive script (`assume C`, then `implies_intr` for the assumptions,
last first), the script's last theorem is exactly `th`. -/
theorem macro_eval_eq_expand_trivial (axs : List (String × Thm)) (goal : Term) (th : Thm)
    (res : List Thm) (he : trivialEval goal = some th)
    (hr : runScriptAx axs (trivialScript goal) [] = .ok res) : res.getLast? = some th := by
  rw [run_trivialScript axs goal res hr]
  simp only [trivialEval] at he
  split at he
  · simpa using he
  · simp at he
example : trivialEval (Term.mkImplies exA (Term.mkImplies exB exA)) =
      some ⟨[], Term.mkImplies exA (Term.mkImplies exB exA)⟩ ∧
    (runScriptAx [] (trivialScript (Term.mkImplies exA (Term.mkImplies exB exA))) []).toOption.map List.getLast? =
      some (some ⟨[], Term.mkImplies exA (Term.mkImplies exB exA)⟩) := by decide

/-- what `trivial` evaluates to: no hypotheses at all, and the conclusion is the goal (rebuilt from
its assumptions and conclusion; for a signature-correct goal that is the goal itself). -/
theorem trivial_eval_spec (goal : Term) (th : Thm) (he : trivialEval goal = some th) :
    th.hyps = [] ∧ th.prop = mkImpliesList (stripImplies goal).1 (stripImplies goal).2 ∧
      (sigOK goal = true → th.prop = goal) := by
  simp only [trivialEval] at he
  split at he
  · rename_i hmem
    simp only [Option.some.injEq] at he
    subst he
    refine ⟨?_, ?_, ?_⟩
    · rw [foldIntr_hyps]
      simp only [Thm.assume, List.any_reverse, List.filter_cons, List.filter_nil]
      simp only [Thm.memAeq] at hmem
      simp [hmem]
    · simpa [Thm.assume] using foldIntr_reverse_prop (Thm.assume (stripImplies goal).2) (stripImplies goal).1
    · intro hs
      rw [foldIntr_reverse_prop]
      exact mkImpliesList_strip goal hs
  · simp at he
example : trivialEval (Term.mkImplies exA (Term.mkImplies exB exA)) =
      some ⟨[], Term.mkImplies exA (Term.mkImplies exB exA)⟩ ∧
    sigOK (Term.mkImplies exA (Term.mkImplies exB exA)) = true := by decide

/-- `intros` with assumption premises `A1 |- A1, ..., An |- An` and the proved statement as last
premise: whenever the evaluation reports `th` and the checker accepts the exported script (one
`implies_intr` per assumption, last first, the first one citing the last premise), the script's
last theorem is exactly `th`; the premises are left in place. -/
theorem macro_eval_eq_expand_intros (axs : List (String × Thm)) (intros : List Thm) (body th : Thm)
    (res : List Thm) (he : introsEval intros body = some th)
    (hr : runScriptAx axs (introsScript intros) (intros ++ [body]) = .ok res) :
    res.getLast? = some th ∧ intros ++ [body] <+: res := by
  have := run_intrSteps axs (intros.map (fun t : Thm => t.prop)).reverse intros body res hr
  refine ⟨?_, this.2⟩
  rw [this.1]
  simp only [introsEval] at he
  split at he
  · simp at he
  · split at he
    · simpa using he
    · simp at he
example : introsEval [Thm.assume exA] ⟨[exA], exB⟩ = some ⟨[], Term.mkImplies exA exB⟩ ∧
    (runScriptAx [] (introsScript [Thm.assume exA]) [Thm.assume exA, ⟨[exA], exB⟩]).toOption.map List.getLast? =
      some (some ⟨[], Term.mkImplies exA exB⟩) := by decide

/-- what `intros` evaluates to: the implication from the assumptions to the proved statement, under
hypotheses taken from those of the proved statement only (no hypothesis is added; the introduced
assumptions are removed). -/
theorem intros_eval_spec (intros : List Thm) (body th : Thm) (he : introsEval intros body = some th) :
    th.prop = mkImpliesList (intros.map (·.prop)) body.prop ∧
      th.hyps = body.hyps.filter (fun t => !(intros.map (·.prop)).any (fun a => Term.aeq t a)) := by
  simp only [introsEval] at he
  split at he
  · simp at he
  · split at he
    · simp only [Option.some.injEq] at he
      subst he
      exact ⟨foldIntr_reverse_prop body _, by rw [foldIntr_hyps]; simp only [List.any_reverse]⟩
    · simp at he
example : introsEval [Thm.assume exA] ⟨[exA, exB], exB⟩ = some ⟨[exB], Term.mkImplies exA exB⟩ := by decide

/-- `apply_theorem` on a first-order monomorphic theorem `ax` without hypotheses, with an
instantiation `inst` (the matcher's answer, any) whose type part is complete and which leaves no
schematic variable: whenever the evaluation reports `th` and the checker accepts the exported script
(`theorem`, `substitution`, one `implies_elim` per premise), the script's last theorem is exactly
`th` — the same conclusion and the same list of hypotheses. -/
theorem macro_eval_eq_expand_apply_theorem (axs : List (String × Thm)) (name : String) (ax : Thm)
    (inst : Term.Inst) (prevs : List Thm) (th : Thm) (res : List Thm) (p' : Term)
    (hax : axs.lookup name = some ax) (hh : ax.hyps = [])
    (htc : Term.subst inst ax.prop = .ok (p', inst.tyinst))
    (he : applyTheoremEval axs name inst prevs = some th)
    (hr : runScriptAx axs (applyTheoremScript name inst prevs.length) prevs = .ok res) :
    res.getLast? = some th := by
  obtain ⟨ah, ap⟩ := ax
  simp only at hh htc
  subst hh
  -- the `theorem` line
  simp only [applyTheoremScript, runScriptAx, beq_self_eq_true, Bool.true_or, if_true] at hr
  have e0 : applyRuleAx axs "theorem" (.name name) [] = .ok ⟨[], ap⟩ := by
    simp [applyRuleAx, hax]
  simp only [checkStepSt, e0, finishStep] at hr
  have hty0 : (⟨[], ap⟩ : Thm).checkThmTypeSig = true := by
    cases hX : (⟨[], ap⟩ : Thm).checkThmTypeSig with
    | true => rfl
    | false => simp [hX] at hr
  simp only [hty0, if_true] at hr
  -- the `substitution` line
  have e1 : ("substitution" == "theorem" || "substitution" == "variable") = false := by decide
  simp only [e1, Bool.false_eq_true, if_false] at hr
  have e2 : lookupPrems (prevs ++ [⟨[], ap⟩]) [prevs.length] = .ok [⟨[], ap⟩] := by simp [lookupPrems]
  simp only [e2] at hr
  have e3 : applyRuleAx axs "substitution" (.prim (.inst inst)) [⟨[], ap⟩] = .ok ⟨[], p'⟩ := by
    have f1 : ("substitution" == "theorem") = false := by decide
    have f2 : ("substitution" == "variable") = false := by decide
    simp [applyRuleAx, f1, f2, applyRule, substitution_complete inst ap p' htc]
  simp only [checkStepSt, e3, finishStep] at hr
  have hty1 : (⟨[], p'⟩ : Thm).checkThmTypeSig = true := by
    cases hX : (⟨[], p'⟩ : Thm).checkThmTypeSig with
    | true => rfl
    | false => simp [hX] at hr
  simp only [hty1, if_true] at hr
  -- the `implies_elim` lines
  have hlen : (prevs ++ [(⟨[], ap⟩ : Thm)]).length = prevs.length + 1 := by simp
  have hp : ∀ m (hm : m < prevs.length), (prevs ++ [(⟨[], ap⟩ : Thm)])[0 + m]? = some prevs[m] := by
    intro m hm
    simp [List.getElem?_append_left hm]
  obtain ⟨final, hf1, hf2, hf3⟩ :=
    run_elimSteps axs prevs (prevs ++ [(⟨[], ap⟩ : Thm)]) (⟨[], p'⟩ : Thm) 0 res hp hty1 (by rw [hlen]; exact hr)
  obtain ⟨hs1, hs2⟩ := elimAll_spec prevs _ final hf1
  rw [hf2]
  -- the evaluation
  simp only [applyTheoremEval, hax, htc] at he
  have hle : prevs.length ≤ (stripImplies ap).1.length := by
    cases hX : decide (prevs.length ≤ (stripImplies ap).1.length) with
    | true => exact of_decide_eq_true hX
    | false => simp [of_decide_eq_false hX] at he
  simp only [hle, if_true, Option.some.injEq] at he
  subst he
  have hsig : sigOK final.prop = true := by
    simp only [Thm.checkThmTypeSig, Thm.sigOK, Bool.and_eq_true] at hf3
    exact hf3.2.2
  have hprop := mkImpliesList_strip final.prop hsig
  rw [hs2] at hprop
  simp only at hprop
  cases final with
  | mk fh fp =>
    simp only at hs1 hprop
    simp only [Thm.mk', List.foldl_cons, addTuple_nil]
    rw [hprop, hs1]
/-- example: `conjD1 : A ∧ B → A` as a theorem `P → Q` over propositional atoms, instantiated and
applied to a premise -/
def exAxs : List (String × Thm) := [("mp_ax", ⟨[], Term.mkImplies (.svar "P" Ty.bool) (.svar "Q" Ty.bool)⟩)]
def exInst : Term.Inst := ⟨[], [("P", exA), ("Q", exB)], []⟩
/-- the instantiation of the example is type-complete -/
private theorem ex_subst : Term.subst exInst (Term.mkImplies (.svar "P" Ty.bool) (.svar "Q" Ty.bool)) =
      .ok (Term.mkImplies exA exB, exInst.tyinst) := by
  simp [Term.subst, exInst, Term.getSvars, Term.svarsAcc, Term.mkImplies, Term.matchSvars, List.lookup, exA, exB,
    Term.checkedGetType, Ty.matchIncr, Ty.matchIncrList, Ty.bool, Ty.fn, Term.substType, Ty.subst, Term.substRec, bind, Except.bind]
example : applyTheoremEval exAxs "mp_ax" exInst [⟨[exB], exA⟩] = some ⟨[exB], exB⟩ := by
  simp only [applyTheoremEval, exAxs, List.lookup, beq_self_eq_true, ex_subst]
  decide
example : (runScriptAx exAxs (applyTheoremScript "mp_ax" exInst 1) [⟨[exB], exA⟩]).toOption.map List.getLast? =
      some (some ⟨[exB], exB⟩) := by
  have hs : Thm.substitution exInst ⟨[], Term.mkImplies (.svar "P" Ty.bool) (.svar "Q" Ty.bool)⟩ = .ok ⟨[], Term.mkImplies exA exB⟩ :=
    substitution_complete _ _ _ ex_subst
  have a1 : applyRuleAx exAxs "theorem" (.name "mp_ax") [] = .ok ⟨[], Term.mkImplies (.svar "P" Ty.bool) (.svar "Q" Ty.bool)⟩ := by
    simp [applyRuleAx, exAxs, List.lookup]
  have a2 : applyRuleAx exAxs "substitution" (.prim (.inst exInst)) [⟨[], Term.mkImplies (.svar "P" Ty.bool) (.svar "Q" Ty.bool)⟩] = .ok ⟨[], Term.mkImplies exA exB⟩ := by
    have f1 : ("substitution" == "theorem") = false := by decide
    have f2 : ("substitution" == "variable") = false := by decide
    simp only [applyRuleAx, f1, f2, Bool.false_eq_true, if_false, applyRule, hs]
  have a3 : applyRuleAx exAxs "implies_elim" (.prim .none) [⟨[], Term.mkImplies exA exB⟩, ⟨[exB], exA⟩] = .ok ⟨[exB], exB⟩ := by
    have f1 : ("implies_elim" == "theorem") = false := by decide
    have f2 : ("implies_elim" == "variable") = false := by decide
    simp only [applyRuleAx, f1, f2, Bool.false_eq_true, if_false, applyRule]
    rfl
  have c0 : (⟨[], Term.mkImplies (.svar "P" Ty.bool) (.svar "Q" Ty.bool)⟩ : Thm).checkThmTypeSig = true := by decide
  have c1 : (⟨[], Term.mkImplies exA exB⟩ : Thm).checkThmTypeSig = true := by decide
  have c2 : (⟨[exB], exB⟩ : Thm).checkThmTypeSig = true := by decide
  have e1 : ("substitution" == "theorem" || "substitution" == "variable") = false := by decide
  have e2 : ("implies_elim" == "theorem" || "implies_elim" == "variable") = false := by decide
  simp only [applyTheoremScript, elimSteps, runScriptAx, beq_self_eq_true, Bool.true_or, if_true, checkStepSt, a1, finishStep, c0,
    e1, e2, Bool.false_eq_true, if_false, lookupPrems, List.nil_append, List.cons_append, List.getElem?_cons_succ, List.getElem?_cons_zero,
    a2, c1, a3, c2]
  rfl

end Holpy.C04
