import Holpy.C04.MacroModel2
import Holpy.C04.MacroProofs
/-
C04 — proofs about the further macro models: running the expansion scripts with the C01 checker model.
-/
namespace Holpy.C04.Macro
open Holpy

/-- one line with a single citation of the last entry: the checker applied the rule to that entry,
type-checked the result and went on -/
theorem run_step1 (axs : List (String × Thm)) (rule : String) (a : Arg) (pre : List Thm) (cur : Thm)
    (tail : List StepAx) (res : List Thm)
    (hr1 : (rule == "theorem" || rule == "variable") = false)
    (h : runScriptAx axs (⟨rule, .prim a, [pre.length], none⟩ :: tail) (pre ++ [cur]) = .ok res) :
    ∃ nxt, applyRule rule a [cur] = .ok nxt ∧ nxt.checkThmTypeSig = true ∧
      runScriptAx axs tail (pre ++ [cur] ++ [nxt]) = .ok res := by
  simp only [runScriptAx, hr1, Bool.false_eq_true, if_false] at h
  have e2 : lookupPrems (pre ++ [cur]) [pre.length] = .ok [cur] := by simp [lookupPrems]
  simp only [e2] at h
  have hr2 : (rule == "theorem") = false ∧ (rule == "variable") = false := by
    simpa [Bool.or_eq_false_iff] using hr1
  have e3 : applyRuleAx axs rule (.prim a) [cur] = applyRule rule a [cur] := by
    simp [applyRuleAx, hr2.1, hr2.2]
  simp only [checkStepSt, e3] at h
  cases hx : applyRule rule a [cur] with
  | error e => simp [hx] at h
  | ok nxt =>
    simp only [hx, finishStep] at h
    by_cases hty : nxt.checkThmTypeSig = true
    · simp only [hty, if_true] at h
      exact ⟨nxt, rfl, hty, h⟩
    · simp [hty] at h

/-- one line citing one entry anywhere in the accumulator -/
theorem run_step_at (axs : List (String × Thm)) (rule : String) (a : Arg) (acc : List Thm) (k : Nat) (cur : Thm)
    (tail : List StepAx) (res : List Thm)
    (hr1 : (rule == "theorem" || rule == "variable") = false) (hk : acc[k]? = some cur)
    (h : runScriptAx axs (⟨rule, .prim a, [k], none⟩ :: tail) acc = .ok res) :
    ∃ nxt, applyRule rule a [cur] = .ok nxt ∧ nxt.checkThmTypeSig = true ∧
      runScriptAx axs tail (acc ++ [nxt]) = .ok res := by
  simp only [runScriptAx, hr1, Bool.false_eq_true, if_false] at h
  have e2 : lookupPrems acc [k] = .ok [cur] := by simp [lookupPrems, hk]
  simp only [e2] at h
  have hr2 : (rule == "theorem") = false ∧ (rule == "variable") = false := by
    simpa [Bool.or_eq_false_iff] using hr1
  have e3 : applyRuleAx axs rule (.prim a) [cur] = applyRule rule a [cur] := by
    simp [applyRuleAx, hr2.1, hr2.2]
  simp only [checkStepSt, e3] at h
  cases hx : applyRule rule a [cur] with
  | error e => simp [hx] at h
  | ok nxt =>
    simp only [hx, finishStep] at h
    by_cases hty : nxt.checkThmTypeSig = true
    · simp only [hty, if_true] at h
      exact ⟨nxt, rfl, hty, h⟩
    · simp [hty] at h

/-- a run of `forall_elim` lines followed by more lines -/
theorem run_forallElimSteps (axs : List (String × Thm)) :
    ∀ (l : List Term) (pre : List Thm) (cur : Thm) (tail : List StepAx) (res : List Thm),
      cur.checkThmTypeSig = true →
      runScriptAx axs (forallElimSteps pre.length l ++ tail) (pre ++ [cur]) = .ok res →
      ∃ final mid, forallElimAll cur l = some final ∧ runScriptAx axs tail (pre ++ mid ++ [final]) = .ok res ∧
        mid.length = l.length ∧ final.checkThmTypeSig = true := by
  intro l
  induction l with
  | nil =>
    intro pre cur tail res hc h
    simp only [forallElimSteps, List.nil_append] at h
    exact ⟨cur, [], rfl, by simpa using h, rfl, hc⟩
  | cons v rest ih =>
    intro pre cur tail res _ h
    simp only [forallElimSteps, List.cons_append] at h
    obtain ⟨nxt, h1, h2, h3⟩ := run_step1 axs "forall_elim" _ pre cur _ res (by decide) h
    simp only [applyRule] at h1
    have hlen : (pre ++ [cur]).length = pre.length + 1 := by simp
    obtain ⟨final, mid, f1, f2, f3, f4⟩ := ih (pre ++ [cur]) nxt tail res h2 (by rw [hlen]; exact h3)
    refine ⟨final, cur :: mid, by simp [forallElimAll, h1, f1], by simpa using f2, by simp [f3], f4⟩

theorem elimAllStrict_elimAll : ∀ (ps : List Thm) (th r : Thm), elimAllStrict th ps = some r → elimAll th ps = .ok r
  | [], th, r, h => by simp only [elimAllStrict, Option.some.injEq] at h; simp [elimAll, h]
  | p :: rest, th, r, h => by
    simp only [elimAllStrict] at h
    split at h
    · split at h
      · cases hx : Thm.impliesElim th p with
        | error e => simp [hx] at h
        | ok th' =>
          simp only [hx] at h
          simp [elimAll, hx, elimAllStrict_elimAll rest th' r h]
      · simp at h
    · simp at h

/-- the `intros` loop (variables and assumptions) -/
theorem run_introsVSteps (axs : List (String × Thm)) :
    ∀ (l : List Thm) (pre : List Thm) (cur th : Thm) (res : List Thm),
      introsFold l cur = some th →
      runScriptAx axs (introsVSteps pre.length l) (pre ++ [cur]) = .ok res →
      res.getLast? = some th ∧ pre ++ [cur] <+: res
  | [], pre, cur, th, res, he, h => by
    simp only [introsVSteps, runScriptAx, Except.ok.injEq] at h
    simp only [introsFold, Option.some.injEq] at he
    subst h; subst he
    simp
  | i :: rest, pre, cur, th, res, he, h => by
    simp only [introsVSteps] at h
    simp only [introsFold] at he
    have hlen : (pre ++ [cur]).length = pre.length + 1 := by simp
    by_cases hv : isVAR i.prop = true
    · simp only [hv, if_true] at h he
      obtain ⟨nxt, h1, _, h3⟩ := run_step1 axs "forall_intr" _ pre cur _ res (by decide) h
      simp only [applyRule] at h1
      simp only [h1] at he
      have := run_introsVSteps axs rest (pre ++ [cur]) nxt th res he (by rw [hlen]; exact h3)
      exact ⟨this.1, List.IsPrefix.trans (List.prefix_append _ _) this.2⟩
    · simp only [hv, Bool.false_eq_true, if_false] at h he
      obtain ⟨nxt, h1, _, h3⟩ := run_step1 axs "implies_intr" _ pre cur _ res (by decide) h
      simp only [applyRule, Except.ok.injEq] at h1
      subst h1
      split at he
      · have := run_introsVSteps axs rest (pre ++ [cur]) _ th res he (by rw [hlen]; exact h3)
        exact ⟨this.1, List.IsPrefix.trans (List.prefix_append _ _) this.2⟩
      · simp at he

/-- a run of `forall_intr` lines followed by more lines -/
theorem run_forallIntrSteps (axs : List (String × Thm)) :
    ∀ (l : List Term) (pre : List Thm) (cur : Thm) (tail : List StepAx) (res : List Thm),
      runScriptAx axs (forallIntrSteps pre.length l ++ tail) (pre ++ [cur]) = .ok res →
      ∃ final mid, forallIntrAll cur l = some final ∧ runScriptAx axs tail (mid ++ [final]) = .ok res ∧
        mid.length = pre.length + l.length := by
  intro l pre cur tail res h
  induction l generalizing pre cur with
  | nil =>
    simp only [forallIntrSteps, List.nil_append] at h
    exact ⟨cur, pre, rfl, h, by simp⟩
  | cons v rest ih =>
    simp only [forallIntrSteps, List.cons_append] at h
    obtain ⟨nxt, h1, _, h3⟩ := run_step1 axs "forall_intr" _ pre cur _ res (by decide) h
    simp only [applyRule] at h1
    have hlen : (pre ++ [cur]).length = pre.length + 1 := by simp
    obtain ⟨final, mid, f1, f2, f3⟩ := ih (pre ++ [cur]) nxt (by rw [hlen]; exact h3)
    exact ⟨final, mid, by simp [forallIntrAll, h1, f1], f2, by rw [f3, hlen]; simp; omega⟩

/-- `run_elimSteps` with more lines after the `implies_elim` lines -/
theorem run_elimSteps_tail (axs : List (String × Thm)) :
    ∀ (prems : List Thm) (pre : List Thm) (cur : Thm) (j : Nat) (tail : List StepAx) (res : List Thm),
      (∀ m (hm : m < prems.length), pre[j + m]? = some prems[m]) →
      cur.checkThmTypeSig = true →
      runScriptAx axs (elimSteps pre.length j prems.length ++ tail) (pre ++ [cur]) = .ok res →
      ∃ final mid, elimAll cur prems = .ok final ∧ runScriptAx axs tail (mid ++ [final]) = .ok res ∧
        mid.length = pre.length + prems.length ∧ final.checkThmTypeSig = true
  | [], pre, cur, j, tail, res, _, hc, h => by
    simp only [List.length_nil, elimSteps, List.nil_append] at h
    exact ⟨cur, pre, rfl, h, by simp, hc⟩
  | p :: rest, pre, cur, j, tail, res, hp, _, h => by
    simp only [List.length_cons, elimSteps, List.cons_append, runScriptAx] at h
    have e1 : ("implies_elim" == "theorem" || "implies_elim" == "variable") = false := by decide
    simp only [e1, Bool.false_eq_true, if_false] at h
    have hj := hp 0 (by simp)
    simp only [Nat.add_zero, List.getElem_cons_zero] at hj
    have hjlt : j < pre.length := (List.getElem?_eq_some_iff.mp hj).1
    have e2 : lookupPrems (pre ++ [cur]) [pre.length, j] = .ok [cur, p] := by
      simp [lookupPrems, List.getElem?_append_left hjlt, hj]
    simp only [e2] at h
    have e3 : applyRuleAx axs "implies_elim" (.prim .none) [cur, p] = Thm.impliesElim cur p := by
      have f1 : ("implies_elim" == "theorem") = false := by decide
      have f2 : ("implies_elim" == "variable") = false := by decide
      simp [applyRuleAx, f1, f2, applyRule]
    simp only [checkStepSt, e3] at h
    cases he : Thm.impliesElim cur p with
    | error e => simp [he] at h
    | ok c' =>
      simp only [he, finishStep] at h
      by_cases hty : c'.checkThmTypeSig = true
      · simp only [hty, if_true] at h
        have hlen : (pre ++ [cur]).length = pre.length + 1 := by simp
        have hp' : ∀ m (hm : m < rest.length), (pre ++ [cur])[j + 1 + m]? = some rest[m] := by
          intro m hm
          have := hp (m + 1) (by simp; omega)
          simp only [List.getElem_cons_succ] at this
          have hlt : j + (m + 1) < pre.length := (List.getElem?_eq_some_iff.mp this).1
          rw [show j + 1 + m = j + (m + 1) by omega, List.getElem?_append_left hlt]
          exact this
        obtain ⟨final, mid, hf1, hf2, hf3, hf4⟩ :=
          run_elimSteps_tail axs rest (pre ++ [cur]) c' (j + 1) tail res hp' hty (by rw [hlen]; exact h)
        exact ⟨final, mid, by simp [elimAll, he, hf1], hf2, by rw [hf3, hlen]; simp; omega, hf4⟩
      · simp [hty] at h

/-- the `apply_theorem` script followed by more lines: the part up to the last `implies_elim` ends in
what the (first-order, monomorphic) evaluation reports before generalising -/
theorem run_applyTheoremScript_tail (axs : List (String × Thm)) (name : String) (ax : Thm)
    (inst : Term.Inst) (prevs : List Thm) (th : Thm) (tail : List StepAx) (res : List Thm) (p' : Term)
    (hax : axs.lookup name = some ax) (hh : ax.hyps = [])
    (htc : Term.subst inst ax.prop = .ok (p', inst.tyinst))
    (he : applyTheoremEval axs name inst prevs = some th)
    (hr : runScriptAx axs (applyTheoremScript name inst prevs.length ++ tail) prevs = .ok res) :
    ∃ mid, runScriptAx axs tail (mid ++ [th]) = .ok res ∧ mid.length = 2 * prevs.length + 1 := by
  obtain ⟨ah, ap⟩ := ax
  simp only at hh htc
  subst hh
  simp only [applyTheoremScript, List.cons_append, runScriptAx, beq_self_eq_true, Bool.true_or, if_true] at hr
  have e0 : applyRuleAx axs "theorem" (.name name) [] = .ok ⟨[], ap⟩ := by
    simp [applyRuleAx, hax]
  simp only [checkStepSt, e0, finishStep] at hr
  have hty0 : (⟨[], ap⟩ : Thm).checkThmTypeSig = true := by
    cases hX : (⟨[], ap⟩ : Thm).checkThmTypeSig with
    | true => rfl
    | false => simp [hX] at hr
  simp only [hty0, if_true] at hr
  have e1 : ("substitution" == "theorem" || "substitution" == "variable") = false := by decide
  simp only [e1, Bool.false_eq_true, if_false] at hr
  have e2 : lookupPrems (prevs ++ [⟨[], ap⟩]) [prevs.length] = .ok [⟨[], ap⟩] := by simp [lookupPrems]
  simp only [e2] at hr
  have e3 : applyRuleAx axs "substitution" (.prim (.inst inst)) [⟨[], ap⟩] = .ok ⟨[], p'⟩ := by
    have f1 : ("substitution" == "theorem") = false := by decide
    have f2 : ("substitution" == "variable") = false := by decide
    simp [applyRuleAx, f1, f2, applyRule, substitution_complete inst ap p' htc]
  simp only [checkStepSt, e3, finishStep] at hr
  have hty1 : (⟨[], p'⟩ : Thm).checkThmTypeSig = true := by
    cases hX : (⟨[], p'⟩ : Thm).checkThmTypeSig with
    | true => rfl
    | false => simp [hX] at hr
  simp only [hty1, if_true] at hr
  have hlen : (prevs ++ [(⟨[], ap⟩ : Thm)]).length = prevs.length + 1 := by simp
  have hp : ∀ m (hm : m < prevs.length), (prevs ++ [(⟨[], ap⟩ : Thm)])[0 + m]? = some prevs[m] := by
    intro m hm
    simp [List.getElem?_append_left hm]
  obtain ⟨final, mid, hf1, hf2, hf3, hf4⟩ :=
    run_elimSteps_tail axs prevs (prevs ++ [(⟨[], ap⟩ : Thm)]) (⟨[], p'⟩ : Thm) 0 tail res hp hty1
      (by rw [hlen]; exact hr)
  obtain ⟨hs1, hs2⟩ := elimAll_spec prevs _ final hf1
  refine ⟨mid, ?_, by rw [hf3, hlen]; omega⟩
  simp only [applyTheoremEval, hax, htc] at he
  have hle : prevs.length ≤ (stripImplies ap).1.length := by
    cases hX : decide (prevs.length ≤ (stripImplies ap).1.length) with
    | true => exact of_decide_eq_true hX
    | false => simp [of_decide_eq_false hX] at he
  simp only [hle, if_true, Option.some.injEq] at he
  subst he
  have hsig : sigOK final.prop = true := by
    simp only [Thm.checkThmTypeSig, Thm.sigOK, Bool.and_eq_true] at hf4
    exact hf4.2.2
  have hprop := mkImpliesList_strip final.prop hsig
  rw [hs2] at hprop
  simp only at hprop
  have hfin : final = Thm.mk' (mkImpliesList (List.drop prevs.length (stripImplies p').1) (stripImplies p').2)
      ([] :: List.map (fun x => x.hyps) prevs) := by
    cases final with
    | mk fh fp =>
      simp only at hs1 hprop
      simp only [Thm.mk', List.foldl_cons, addTuple_nil]
      rw [hprop, hs1]
  rw [← hfin]
  exact hf2

end Holpy.C04.Macro
