import Holpy.C04.Model
import Holpy.C04.Gen
import Holpy.C04.Proofs
import Mathlib.Data.List.Forall2
/-
C04 — property theorems (statements live here, helper lemmas in Proofs.lean).
-/
namespace Holpy.C04

/-! ### `ProofTerm.export` and the checker of the expanded macro line (Model.lean) -/

/-- Concrete instance used by the non-vacuity examples: rule `r2` proves `⊢ 6` from nothing, rule
`r1` proves `1 ⊢ 7` from `1 ⊢ 5`, `⊢ 6`, `⊢ 6`; line `0` of the enclosing proof states `1 ⊢ 5`. -/
def exRule : String → Nat → List Seq → Option Seq
  | "r2", 1, [] => some ⟨[], 6⟩
  | "r1", 0, [⟨[1], 5⟩, ⟨[], 6⟩, ⟨[], 6⟩] => some ⟨[1], 7⟩
  | _, _, _ => none
def exCtx : ItemId → Option Seq
  | [0] => some ⟨[1], 5⟩
  | _ => none
/-- a derivation with two equal sub-derivations (`r2` twice) and a premise cited by id -/
def exPT : PT :=
  .node "r1" 0 [.atom [0] ⟨[1], 5⟩, .node "r2" 1 [] ⟨[], 6⟩, .node "r2" 1 [] ⟨[], 6⟩] ⟨[1], 7⟩

/-- `export_check`: for every proof term whose nodes satisfy the constructor invariant (`th` is what
the node's rule gives on its children's `th`; atoms are lines the macro line may cite),
`pt.export(prefix)` succeeds, the checker accepts the exported lines (whatever the rule semantics,
i.e. at any check level) and the result is exactly `pt.th` — same conclusion, no hypothesis added;
line `k` has id `prefix ++ [k]` and every citation is admissible (`can_depend_on`) and refers to an
earlier line of the expansion or to a line the macro line itself may cite. -/
theorem export_check (evalRule : String → Nat → List Seq → Option Seq) (ctx : ItemId → Option Seq)
    (pfx : ItemId) (pt : PT) (hnode : pt.isAtom = false) (hwf : PT.wf evalRule ctx pfx pt = true) :
    ∃ items, exportPT sameStruct pfx pt = .ok items ∧
      checkItems evalRule ctx pfx items = .ok pt.th ∧
      ∀ (k : Nat) (it : Item), items[k]? = some it →
        it.id = pfx ++ [k] ∧
        ∀ p ∈ it.prevs, canDependOn it.id p = true ∧
          ((∃ j, j < k ∧ p = pfx ++ [j]) ∨ canDependOn pfx p = true) := by
  obtain ⟨items, h1, h2, h3⟩ := export_general (sameHyp_struct evalRule) pt hnode hwf
  refine ⟨items, h1, h2, ?_⟩
  intro k it hk
  have hg := h3 k it hk
  unfold ItemGood at hg
  obtain ⟨hid, ths, hc, _⟩ := hg
  refine ⟨hid, ?_⟩
  intro p hp
  obtain ⟨s, hs⟩ := forall2_left_mem hc hp
  exact ⟨by rw [hid]; exact hs.1, hs.2.2⟩
example : exPT.isAtom = false ∧ PT.wf exRule exCtx [3] exPT = true ∧
    exportPT sameStruct [3] exPT =
      .ok [⟨[3, 0], "r2", 1, [], ⟨[], 6⟩⟩, ⟨[3, 1], "r1", 0, [[0], [3, 0], [3, 0]], ⟨[1], 7⟩⟩] ∧
    checkItems exRule exCtx [3]
      [⟨[3, 0], "r2", 1, [], ⟨[], 6⟩⟩, ⟨[3, 1], "r1", 0, [[0], [3, 0], [3, 0]], ⟨[1], 7⟩⟩] = .ok ⟨[1], 7⟩ := by
  decide

/-- Rules respect `Thm.__eq__` on their premises (needed only if the dictionary `seq_to_id` may
identify sequents that differ in the order of hypotheses). -/
def RuleCompat (evalRule : String → Nat → List Seq → Option Seq) : Prop :=
  ∀ r a ths ths' s, List.Forall₂ (fun x y => seqEquiv x y = true) ths' ths → evalRule r a ths = some s →
    ∃ s', evalRule r a ths' = some s' ∧ canProve s' s = true

/-- `export_shared_sequent`: the `seq_to_id` sharing preserves `export_check` for EVERY dictionary
lookup `same` that only identifies `Thm.__eq__`-equal sequents: the export succeeds, checks and
yields `pt.th`; it has at most one line per derivation node (equal sub-derivations are exported
once); and every line is an instance of the constructor invariant of some node whose children's
sequents are `Thm.__eq__`-equal to the sequents stated by the lines it cites. -/
theorem export_shared_sequent (evalRule : String → Nat → List Seq → Option Seq)
    (ctx : ItemId → Option Seq) (pfx : ItemId) (same : Seq → Seq → Bool)
    (hsame : ∀ a b, same a b = true → seqEquiv a b = true) (hcompat : RuleCompat evalRule)
    (pt : PT) (hnode : pt.isAtom = false) (hwf : PT.wf evalRule ctx pfx pt = true) :
    ∃ items, exportPT same pfx pt = .ok items ∧
      checkItems evalRule ctx pfx items = .ok pt.th ∧
      items.length ≤ pt.nodes ∧
      ∀ (k : Nat) (it : Item), items[k]? = some it →
        ∃ ths, evalRule it.rule it.args ths = some it.th ∧
          List.Forall₂ (fun p s => ∃ s', findSeq ctx pfx items p = some s' ∧ seqEquiv s' s = true)
            it.prevs ths := by
  have H : SameHyp evalRule same (fun a b => seqEquiv a b = true) :=
    ⟨hsame, seqEquiv_refl, hcompat⟩
  obtain ⟨items, h1, h2, h3⟩ := export_general H pt hnode hwf
  refine ⟨items, h1, h2, exportPT_len same pfx pt items h1, ?_⟩
  intro k it hk
  have hg := h3 k it hk
  unfold ItemGood at hg
  obtain ⟨_, ths, hc, hev⟩ := hg
  exact ⟨ths, hev, forall2_imp (fun p s h => h.2.1) hc⟩
example : exPT.nodes = 3 ∧
    (∀ items, exportPT sameStruct [3] exPT = .ok items → items.length = 2) ∧
    (∀ a b, sameStruct a b = true → seqEquiv a b = true) := by
  refine ⟨by decide, ?_, ?_⟩
  · intro items h
    have : exportPT sameStruct [3] exPT =
        .ok [⟨[3, 0], "r2", 1, [], ⟨[], 6⟩⟩, ⟨[3, 1], "r1", 0, [[0], [3, 0], [3, 0]], ⟨[1], 7⟩⟩] := by decide
    rw [this] at h
    cases h
    rfl
  · intro a b h
    have : a = b := by simpa [sameStruct] using h
    subst this
    exact seqEquiv_refl a

/-- `get_proof_term` uses its premises only through their sequents: it instantiates a template that
is a function of the arguments and the premises' sequents. -/
def Parametric (gpt : Nat → List PT → PT) : Prop :=
  ∃ tmpl : Nat → List Seq → Tmpl, ∀ args pts, gpt args pts = (tmpl args (pts.map PT.th)).inst pts

/-- `default_eval_expand`: for a macro that overrides neither `eval` nor `expand`, whose
`get_proof_term` is parametric in the premises, on every input where the proof term (built on atoms
for the cited lines) is a derivation satisfying the constructor invariant: `expand` succeeds, the
checker accepts it, and the sequent it establishes is exactly the one `eval` reports. -/
theorem default_eval_expand (evalRule : String → Nat → List Seq → Option Seq)
    (ctx : ItemId → Option Seq) (pfx : ItemId) (restate : PT → PT) (gpt : Nat → List PT → PT)
    (hpar : Parametric gpt) (args : Nat) (prevs : List (ItemId × Seq))
    (hnode : (gpt args (prevs.map fun p => PT.atom p.1 p.2)).isAtom = false)
    (hwf : PT.wf evalRule ctx pfx (gpt args (prevs.map fun p => PT.atom p.1 p.2)) = true) :
    ∃ items, expandDefault sameStruct restate gpt pfx args prevs = .ok items ∧
      checkItems evalRule ctx pfx items = .ok (evalDefault gpt args (prevs.map (·.2))) := by
  obtain ⟨items, h1, h2, _⟩ := export_check evalRule ctx pfx _ hnode hwf
  refine ⟨items, by simp only [expandDefault, hnode]; exact h1, ?_⟩
  rw [h2]
  congr 1
  obtain ⟨tmpl, ht⟩ := hpar
  unfold evalDefault
  rw [ht, ht]
  have e1 : (prevs.map fun p => PT.atom p.1 p.2).map PT.th = prevs.map (·.2) := by
    simp [List.map_map, Function.comp_def, PT.th]
  have e2 : ((prevs.map (·.2)).map gapLeaf).map PT.th = prevs.map (·.2) := by
    simp [List.map_map, Function.comp_def, PT.th, gapLeaf]
  rw [e1, e2, List.map_map]
  exact inst_th (fun p => PT.atom p.1 p.2) (gapLeaf ∘ (·.2)) (fun x => by simp [PT.th, gapLeaf]) prevs _
/-- a parametric `get_proof_term`: apply `r2`, then `r1` to the first premise and the `r2` step twice -/
def exGpt : Nat → List PT → PT := fun _ pts =>
  (Tmpl.node "r1" 0 [.prem 0, .node "r2" 1 [] ⟨[], 6⟩, .node "r2" 1 [] ⟨[], 6⟩] ⟨[1], 7⟩).inst pts
example : Parametric exGpt ∧
    (exGpt 0 ([([0], (⟨[1], 5⟩ : Seq))].map fun p => PT.atom p.1 p.2)).isAtom = false ∧
    PT.wf exRule exCtx [3] (exGpt 0 ([([0], (⟨[1], 5⟩ : Seq))].map fun p => PT.atom p.1 p.2)) = true ∧
    evalDefault exGpt 0 [⟨[1], 5⟩] = ⟨[1], 7⟩ := by
  refine ⟨⟨fun _ _ => _, fun _ _ => rfl⟩, by decide, by decide, by decide⟩

/-- `default_eval_expand_bare_premise`: the other case of the default `expand` — `get_proof_term`
returns one of the premises unchanged (an atom).  If the restated derivation (`A --> A`, modus
ponens) is a derivation satisfying the constructor invariant and states the premise's sequent, the
expansion is produced, the checker accepts it, and it establishes exactly the sequent `eval`
reports. -/
theorem default_eval_expand_bare_premise (evalRule : String → Nat → List Seq → Option Seq)
    (ctx : ItemId → Option Seq) (pfx : ItemId) (restate : PT → PT) (gpt : Nat → List PT → PT)
    (hpar : Parametric gpt) (args : Nat) (prevs : List (ItemId × Seq))
    (hatom : (gpt args (prevs.map fun p => PT.atom p.1 p.2)).isAtom = true)
    (hnode : (restate (gpt args (prevs.map fun p => PT.atom p.1 p.2))).isAtom = false)
    (hth : (restate (gpt args (prevs.map fun p => PT.atom p.1 p.2))).th =
      (gpt args (prevs.map fun p => PT.atom p.1 p.2)).th)
    (hwf : PT.wf evalRule ctx pfx (restate (gpt args (prevs.map fun p => PT.atom p.1 p.2))) = true) :
    ∃ items, expandDefault sameStruct restate gpt pfx args prevs = .ok items ∧
      checkItems evalRule ctx pfx items = .ok (evalDefault gpt args (prevs.map (·.2))) := by
  obtain ⟨items, h1, h2, _⟩ := export_check evalRule ctx pfx _ hnode hwf
  refine ⟨items, by simp only [expandDefault, hatom, if_true]; exact h1, ?_⟩
  rw [h2, hth]
  congr 1
  obtain ⟨tmpl, ht⟩ := hpar
  unfold evalDefault
  rw [ht, ht]
  have e1 : (prevs.map fun p => PT.atom p.1 p.2).map PT.th = prevs.map (·.2) := by
    simp [List.map_map, Function.comp_def, PT.th]
  have e2 : ((prevs.map (·.2)).map gapLeaf).map PT.th = prevs.map (·.2) := by
    simp [List.map_map, Function.comp_def, PT.th, gapLeaf]
  rw [e1, e2, List.map_map]
  exact inst_th (fun p => PT.atom p.1 p.2) (gapLeaf ∘ (·.2)) (fun x => by simp [PT.th, gapLeaf]) prevs _
/-- identity `get_proof_term` (returns its first premise) and the restating derivation over rules
`asm`, `intr`, `mp` whose sequents are given by `exRule2` -/
def exIdGpt : Nat → List PT → PT := fun _ pts => (Tmpl.prem 0).inst pts
def exRule2 : String → Nat → List Seq → Option Seq
  | "asm", 5, [] => some ⟨[5], 5⟩
  | "intr", 5, [⟨[5], 5⟩] => some ⟨[], 9⟩
  | "mp", 0, [⟨[], 9⟩, ⟨[1], 5⟩] => some ⟨[1], 5⟩
  | _, _, _ => none
def exRestate (a : PT) : PT :=
  .node "mp" 0 [.node "intr" 5 [.node "asm" 5 [] ⟨[5], 5⟩] ⟨[], 9⟩, a] ⟨[1], 5⟩
example : Parametric exIdGpt ∧
    (exIdGpt 0 ([([0], (⟨[1], 5⟩ : Seq))].map fun p => PT.atom p.1 p.2)).isAtom = true ∧
    PT.wf exRule2 exCtx [3] (exRestate (exIdGpt 0 ([([0], (⟨[1], 5⟩ : Seq))].map fun p => PT.atom p.1 p.2))) = true ∧
    (expandDefault sameStruct exRestate exIdGpt [3] 0 [([0], ⟨[1], 5⟩)]).toOption.map List.length = some 3 ∧
    evalDefault exIdGpt 0 [⟨[1], 5⟩] = ⟨[1], 5⟩ := by
  refine ⟨⟨fun _ _ => _, fun _ _ => rfl⟩, by decide, by decide, by decide, by decide⟩

/-! ### Table obligations over the regenerated macro registry (Gen.lean) -/

/-- Names of the registered macros whose class defines its own `eval`: for these the one-step
evaluation and the expansion are separate code and can disagree (the behavioural oracle of
`harness/props/c04.py` compares them input by input). -/
def evalOverrides : List String :=
  (Gen.macros.filter (·.ovEval)).map (·.name)

/-- Macros trusted at the default check level (`level = 0`: evaluated, never expanded). -/
def trustedMacros : List String :=
  (Gen.macros.filter (fun m => m.level == some 0)).map (·.name)

/-- The macros whose class defines its own `eval` (evaluation and expansion are separate code that
can disagree) are exactly this pinned list: a new `eval` override changes Gen.lean and breaks this. -/
theorem eval_overrides_pinned : evalOverrides = [
    "prove_avalI", "int_const_ineq", "int_eval", "nat_const_ineq", "nat_const_less_eq", "nat_eval",
    "nat_norm", "real_compare", "real_const_eq", "real_const_ineq", "real_eval", "real_norm",
    "const_inequality", "apply_theorem", "apply_theorem_for", "beta_norm", "imp_conj", "imp_disj",
    "rewrite_goal", "rewrite_goal_sym", "sympy", "z3", "verit_la_generic", "verit_norm_lia",
    "verit_norm_lra", "combine_disj_clauses", "imp_to_or", "swap_disj_to_front", "verit_ac_simp",
    "verit_and", "verit_and_neg", "verit_and_pos", "verit_and_simplify", "verit_bfun_elim",
    "verit_bind", "verit_bool_simplify", "verit_comp_simplify", "verit_cong", "verit_conj_pts",
    "verit_connective_def", "verit_contraction", "verit_disj_pts", "verit_distinct_elim",
    "verit_div_simplify", "verit_eq_congruent", "verit_eq_congruent_pred", "verit_eq_reflexive",
    "verit_eq_simplify", "verit_eq_transitive", "verit_equiv1", "verit_equiv2", "verit_equiv_neg1",
    "verit_equiv_neg2", "verit_equiv_pos1", "verit_equiv_pos2", "verit_equiv_simplify",
    "verit_false", "verit_forall_inst", "verit_implies", "verit_implies_neg1", "verit_implies_neg2",
    "verit_implies_pos", "verit_implies_simplify", "verit_ite1", "verit_ite2", "verit_ite_intro",
    "verit_ite_neg1", "verit_ite_neg2", "verit_ite_pos1", "verit_ite_pos2", "verit_ite_simplify",
    "verit_la_disequality", "verit_la_rw_eq", "verit_let", "verit_minus_simplify", "verit_not_and",
    "verit_not_equiv1", "verit_not_equiv2", "verit_not_implies1", "verit_not_implies2",
    "verit_not_ite1", "verit_not_ite2", "verit_not_not", "verit_not_or", "verit_not_simplify",
    "verit_onepoint", "verit_or", "verit_or_neg", "verit_or_pos", "verit_or_simplify",
    "verit_prod_simplify", "verit_qnt_cnf", "verit_qnt_join", "verit_qnt_rm_unused",
    "verit_qnt_simplify", "verit_refl", "verit_sko_ex", "verit_sko_forall", "verit_subproof",
    "verit_sum_simplify", "verit_th_resolution", "verit_trans", "verit_unary_minus_simplify",
    "verit_xor_neg1", "verit_xor_neg2", "verit_xor_pos1", "verit_xor_pos2"] := by decide +kernel
example : "nat_const_ineq" ∈ evalOverrides ∧ "intros" ∉ evalOverrides := by decide +kernel

/-- Every macro trusted at the default check level (level 0: its `eval` is believed, its expansion
is never checked) is in this pinned list: a new trusted macro, or a level lowered to 0, breaks this. -/
theorem trusted_macros_pinned : trustedMacros = [
    "int_const_ineq", "int_eval", "nat_eval", "real_compare", "real_const_eq", "real_const_ineq",
    "real_eq_comparison", "real_eval", "real_norm", "const_inequality", "integer_simplex",
    "simplex_macro", "sympy", "z3", "verit_imp_conj"] := by decide +kernel
example : "nat_eval" ∈ trustedMacros ∧ "nat_norm" ∉ trustedMacros := by decide +kernel

/-- A macro without any expansion code (neither `get_proof_term` nor `expand` defined) is trusted
(level 0); i.e. every macro that the checker would have to expand at the default level has an expansion. -/
theorem no_expansion_only_if_trusted :
    ∀ m ∈ Gen.macros, (m.ovGpt || m.ovExpand) = false → m.level = some 0 := by decide +kernel
example : ∃ m ∈ Gen.macros, (m.ovGpt || m.ovExpand) = false := by decide +kernel

/-- Levels are `None` (always expanded) or a natural number, and only the pinned macros have `None`. -/
theorem untrusted_always_expanded_pinned :
    (Gen.macros.filter (fun m => m.level == none)).map (·.name) =
      ["int_ineq", "int_ineq_mul_const", "int_multiple_ineq_equiv"] := by decide +kernel
example : ∃ m ∈ Gen.macros, m.level = some 1 := by decide +kernel

/-- Only `z3` replaces `expand` itself (all other expansions go through `get_proof_term(...).export`,
the function modelled in Model.lean). -/
theorem expand_overrides_pinned :
    (Gen.macros.filter (·.ovExpand)).map (·.name) = ["z3"] := by decide +kernel
example : ∃ m ∈ Gen.macros, m.ovExpand = false ∧ m.ovGpt = true := by decide +kernel

end Holpy.C04
