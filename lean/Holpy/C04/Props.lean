import Holpy.C04.Model
import Holpy.C04.Gen
import Holpy.C04.Proofs
/-
C04 — property theorems (statements live here, helper lemmas in Proofs.lean).
-/
namespace Holpy.C04

/-! ### Table obligations over the regenerated macro registry (Gen.lean) -/

/-- Names of the registered macros whose class defines its own `eval`: for these the one-step
evaluation and the expansion are separate code and can disagree (the behavioural oracle of
`harness/props/c04.py` compares them input by input). -/
def evalOverrides : List String :=
  (Gen.macros.filter (·.ovEval)).map (·.name)

/-- Macros trusted at the default check level (`level = 0`: evaluated, never expanded). -/
def trustedMacros : List String :=
  (Gen.macros.filter (fun m => m.level == some 0)).map (·.name)

/-- The macros whose class defines its own `eval` (evaluation and expansion are separate code that
can disagree) are exactly this pinned list: a new `eval` override changes Gen.lean and breaks this. -/
theorem eval_overrides_pinned : evalOverrides = [
    "prove_avalI", "int_const_ineq", "int_eval", "nat_const_ineq", "nat_const_less_eq", "nat_eval",
    "nat_norm", "real_compare", "real_const_eq", "real_const_ineq", "real_eval", "real_norm",
    "const_inequality", "apply_theorem", "apply_theorem_for", "beta_norm", "imp_conj", "imp_disj",
    "rewrite_goal", "rewrite_goal_sym", "sympy", "z3", "verit_la_generic", "verit_norm_lia",
    "verit_norm_lra", "combine_disj_clauses", "imp_to_or", "swap_disj_to_front", "verit_ac_simp",
    "verit_and", "verit_and_neg", "verit_and_pos", "verit_and_simplify", "verit_bfun_elim",
    "verit_bind", "verit_bool_simplify", "verit_comp_simplify", "verit_cong", "verit_conj_pts",
    "verit_connective_def", "verit_contraction", "verit_disj_pts", "verit_distinct_elim",
    "verit_div_simplify", "verit_eq_congruent", "verit_eq_congruent_pred", "verit_eq_reflexive",
    "verit_eq_simplify", "verit_eq_transitive", "verit_equiv1", "verit_equiv2", "verit_equiv_neg1",
    "verit_equiv_neg2", "verit_equiv_pos1", "verit_equiv_pos2", "verit_equiv_simplify",
    "verit_false", "verit_forall_inst", "verit_implies", "verit_implies_neg1", "verit_implies_neg2",
    "verit_implies_pos", "verit_implies_simplify", "verit_ite1", "verit_ite2", "verit_ite_intro",
    "verit_ite_neg1", "verit_ite_neg2", "verit_ite_pos1", "verit_ite_pos2", "verit_ite_simplify",
    "verit_la_disequality", "verit_la_rw_eq", "verit_let", "verit_minus_simplify", "verit_not_and",
    "verit_not_equiv1", "verit_not_equiv2", "verit_not_implies1", "verit_not_implies2",
    "verit_not_ite1", "verit_not_ite2", "verit_not_not", "verit_not_or", "verit_not_simplify",
    "verit_onepoint", "verit_or", "verit_or_neg", "verit_or_pos", "verit_or_simplify",
    "verit_prod_simplify", "verit_qnt_cnf", "verit_qnt_join", "verit_qnt_rm_unused",
    "verit_qnt_simplify", "verit_refl", "verit_sko_ex", "verit_sko_forall", "verit_subproof",
    "verit_sum_simplify", "verit_th_resolution", "verit_trans", "verit_unary_minus_simplify",
    "verit_xor_neg1", "verit_xor_neg2", "verit_xor_pos1", "verit_xor_pos2"] := by decide +kernel
example : "nat_const_ineq" ∈ evalOverrides ∧ "intros" ∉ evalOverrides := by decide +kernel

/-- Every macro trusted at the default check level (level 0: its `eval` is believed, its expansion
is never checked) is in this pinned list: a new trusted macro, or a level lowered to 0, breaks this. -/
theorem trusted_macros_pinned : trustedMacros = [
    "int_const_ineq", "int_eval", "nat_eval", "real_compare", "real_const_eq", "real_const_ineq",
    "real_eq_comparison", "real_eval", "real_norm", "const_inequality", "integer_simplex",
    "simplex_macro", "sympy", "z3", "verit_imp_conj"] := by decide +kernel
example : "nat_eval" ∈ trustedMacros ∧ "nat_norm" ∉ trustedMacros := by decide +kernel

/-- A macro without any expansion code (neither `get_proof_term` nor `expand` defined) is trusted
(level 0); i.e. every macro that the checker would have to expand at the default level has an expansion. -/
theorem no_expansion_only_if_trusted :
    ∀ m ∈ Gen.macros, (m.ovGpt || m.ovExpand) = false → m.level = some 0 := by decide +kernel
example : ∃ m ∈ Gen.macros, (m.ovGpt || m.ovExpand) = false := by decide +kernel

/-- Levels are `None` (always expanded) or a natural number, and only the pinned macros have `None`. -/
theorem untrusted_always_expanded_pinned :
    (Gen.macros.filter (fun m => m.level == none)).map (·.name) =
      ["int_ineq", "int_ineq_mul_const", "int_multiple_ineq_equiv"] := by decide +kernel
example : ∃ m ∈ Gen.macros, m.level = some 1 := by decide +kernel

/-- Only `z3` replaces `expand` itself (all other expansions go through `get_proof_term(...).export`,
the function modelled in Model.lean). -/
theorem expand_overrides_pinned :
    (Gen.macros.filter (·.ovExpand)).map (·.name) = ["z3"] := by decide +kernel
example : ∃ m ∈ Gen.macros, m.ovExpand = false ∧ m.ovGpt = true := by decide +kernel

end Holpy.C04
