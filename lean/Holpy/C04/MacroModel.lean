import Holpy.Kernel.Thm
/-
C04 — models of structurally simple LOGIC macros on the shared kernel model (`Holpy/Kernel`):
for each macro the model of its one-step evaluation and the primitive proof script that its
`get_proof_term(...).export(...)` produces (one `StepAx` per exported line, citations by position).
Import-free apart from the kernel model.
-/
namespace Holpy.C04.Macro
open Holpy

/-- `Term.strip_implies()`: `A1 --> ... --> An --> C`  ↦  `([A1, ..., An], C)`. -/
def stripImplies : Term → List Term × Term
  | .comb (.comb (.const n T) a) b =>
    if n == "implies" then ((stripImplies b).1.cons a, (stripImplies b).2)
    else ([], .comb (.comb (.const n T) a) b)
  | t => ([], t)

/-- `Implies(A1, ..., An, C)` -/
def mkImpliesList (as : List Term) (c : Term) : Term := as.foldr Term.mkImplies c

/-- `pt.implies_intr(A)` for the `A`s in the given order (the Python loops run over `reversed(As)`) -/
def foldIntr (th : Thm) : List Term → Thm
  | [] => th
  | a :: rest => foldIntr (Thm.impliesIntr a th) rest

/-- the exported lines of such a loop: line `i` is the theorem the first step starts from -/
def intrSteps : Nat → List Term → List StepAx
  | _, [] => []
  | i, a :: rest => ⟨"implies_intr", .prim (.term a), [i], none⟩ :: intrSteps (i + 1) rest

/-! ### `trivial` (logic/logic.py `trivial_macro`), goals without leading quantifiers

    vars, As, C = strip_all_implies(goal);  assert C in As
    pt = ProofTerm.assume(C);  for A in reversed(As): pt = pt.implies_intr(A)

The macro has no `eval` of its own: its evaluation runs the same kernel rule functions while the
proof term is constructed. -/

/-- evaluation: fails unless the conclusion is one of the assumptions -/
def trivialEval (goal : Term) : Option Thm :=
  let sc := stripImplies goal
  if Thm.memAeq sc.2 sc.1 then some (foldIntr (Thm.assume sc.2) sc.1.reverse) else none

/-- expansion: `assume C`, then one `implies_intr` line per assumption, last assumption first -/
def trivialScript (goal : Term) : List StepAx :=
  let sc := stripImplies goal
  ⟨"assume", .prim (.term sc.2), [], none⟩ :: intrSteps 0 sc.1.reverse

/-! ### `intros` (logic/logic.py `intros_macro`) with assumption premises only

    pt, intros = prevs[-1], prevs[:-1]
    for intro in reversed(intros):   # here: every intro is `A |- A`
        pt = pt.implies_intr(intro.prop)

The premises are lines of the enclosing proof; in the script they are the first `n + 1` entries of
the accumulator (the `n` assumptions, then the proved statement). -/

/-- `is_VAR()` -/
def isVAR : Term → Bool
  | .comb (.const n _) _ => n == "_VAR"
  | _ => false

/-- evaluation (no `eval` of its own): the `assume` case of the loop asserts that every intro is
`A |- A` (not a `_VAR` declaration, no `exists` arguments); at least two premises (a single premise
is the `apply_theorem trivial` case) -/
def introsEval (intros : List Thm) (body : Thm) : Option Thm :=
  if intros.isEmpty then none
  else if intros.all (fun t => !isVAR t.prop && t.hyps.length == 1 && Thm.memAeq t.prop t.hyps) then
    some (foldIntr body (intros.map (·.prop)).reverse)
  else none

/-- expansion: the premises sit at positions `0 .. n` (`body` at position `n`) -/
def introsScript (intros : List Thm) : List StepAx :=
  intrSteps intros.length (intros.map (·.prop)).reverse

/-! ### `apply_theorem` (logic/logic.py `apply_theorem_macro`) for a FIRST-ORDER, monomorphic theorem
with a non-empty instantiation that leaves no schematic variable

    th = get_theorem(name);  As, C = th.prop.strip_implies();  assert len(prevs) <= len(As)
    inst = first_order_match_list(As[:len(prevs)], [prev.prop ...])      -- the matcher (C09): an argument here
    eval:    As, C = th.prop.subst(inst).strip_implies()
             Thm(Implies(*(As[len(prevs):] + [C])), th.hyps, *(prev.hyps ...))
    expand:  ProofTerm.theorem(name).substitution(inst).implies_elim(*pts)

(no type instantiation: the `subst_type` line is not emitted; no remaining schematic variable: no
`forall_intr` lines; the theorem is first-order: no `beta_norm` conversion). -/

def applyTheoremEval (axs : List (String × Thm)) (name : String) (inst : Term.Inst) (prevs : List Thm) :
    Option Thm :=
  match axs.lookup name with
  | none => none
  | some ax =>
    if prevs.length ≤ (stripImplies ax.prop).1.length then
      match Term.subst inst ax.prop with
      | .ok (p', _) =>
        some (Thm.mk' (mkImpliesList ((stripImplies p').1.drop prevs.length) (stripImplies p').2)
          (ax.hyps :: prevs.map (·.hyps)))
      | .error _ => none
    else none

/-- `implies_elim` lines: line `i` is the running theorem, `j` the position of the next premise -/
def elimSteps : Nat → Nat → Nat → List StepAx
  | _, _, 0 => []
  | i, j, k + 1 => ⟨"implies_elim", .prim .none, [i, j], none⟩ :: elimSteps (i + 1) (j + 1) k

/-- expansion: the `n` premises sit at positions `0 .. n-1`; line `n` copies the theorem, line
`n + 1` instantiates it, lines `n + 2 ..` discharge the premises in order -/
def applyTheoremScript (name : String) (inst : Term.Inst) (n : Nat) : List StepAx :=
  ⟨"theorem", .name name, [], none⟩ :: ⟨"substitution", .prim (.inst inst), [n], none⟩ ::
    elimSteps (n + 1) 0 n

end Holpy.C04.Macro
