import Holpy.C04.MacroModel
import Holpy.Kernel.SemBasic
/-
C04 — proofs about the macro models: running the expansion script with the C01 checker model.
-/
namespace Holpy.C04.Macro
open Holpy

/-- One `implies_intr` line: if the checker accepts the rest of the script after it, the line added
`impliesIntr a th` where `th` is the cited entry. -/
theorem run_intrSteps (axs : List (String × Thm)) :
    ∀ (l : List Term) (pre : List Thm) (th : Thm) (res : List Thm),
      runScriptAx axs (intrSteps pre.length l) (pre ++ [th]) = .ok res →
      res.getLast? = some (foldIntr th l) ∧ pre ++ [th] <+: res
  | [], pre, th, res, h => by
    simp only [intrSteps, runScriptAx, Except.ok.injEq] at h
    subst h
    simp [foldIntr]
  | a :: rest, pre, th, res, h => by
    simp only [intrSteps, runScriptAx] at h
    have e1 : ("implies_intr" == "theorem" || "implies_intr" == "variable") = false := by decide
    simp only [e1, Bool.false_eq_true, if_false] at h
    have e2 : lookupPrems (pre ++ [th]) [pre.length] = .ok [th] := by
      simp [lookupPrems]
    simp only [e2] at h
    have e3 : applyRuleAx axs "implies_intr" (.prim (.term a)) [th] = .ok (Thm.impliesIntr a th) := by
      have f1 : ("implies_intr" == "theorem") = false := by decide
      have f2 : ("implies_intr" == "variable") = false := by decide
      simp [applyRuleAx, f1, f2, applyRule]
    by_cases hty : (Thm.impliesIntr a th).checkThmTypeSig = true
    · simp only [checkStepSt, e3, finishStep, hty, if_true] at h
      have hlen : (pre ++ [th]).length = pre.length + 1 := by simp
      have := run_intrSteps axs rest (pre ++ [th]) (Thm.impliesIntr a th) res (by rw [hlen]; exact h)
      refine ⟨by simpa [foldIntr] using this.1, ?_⟩
      exact List.IsPrefix.trans (List.prefix_append _ _) this.2
    · simp [checkStepSt, e3, finishStep, hty] at h

theorem foldIntr_append (th : Thm) (l1 l2 : List Term) :
    foldIntr th (l1 ++ l2) = foldIntr (foldIntr th l1) l2 := by
  induction l1 generalizing th with
  | nil => rfl
  | cons a rest ih => simp [foldIntr, ih]

theorem foldIntr_reverse_prop (th : Thm) (l : List Term) :
    (foldIntr th l.reverse).prop = mkImpliesList l th.prop := by
  induction l with
  | nil => rfl
  | cons a rest ih =>
    simp only [List.reverse_cons, foldIntr_append, foldIntr, Thm.impliesIntr, mkImpliesList, List.foldr_cons]
    simp only [mkImpliesList] at ih
    rw [ih]

theorem foldIntr_hyps (th : Thm) (l : List Term) :
    (foldIntr th l).hyps = th.hyps.filter (fun t => !l.any (fun a => Term.aeq t a)) := by
  induction l generalizing th with
  | nil =>
    simp only [foldIntr, List.any_nil, Bool.not_false]
    exact (List.filter_eq_self.2 (fun _ _ => rfl)).symm
  | cons a rest ih =>
    simp only [foldIntr, ih, Thm.impliesIntr, List.filter_filter, List.any_cons, Bool.not_or]
    congr 1
    funext t
    exact Bool.and_comm _ _

/-- running the whole `trivial` script -/
theorem run_trivialScript (axs : List (String × Thm)) (goal : Term) (res : List Thm)
    (hr : runScriptAx axs (trivialScript goal) [] = .ok res) :
    res.getLast? = some (foldIntr (Thm.assume (stripImplies goal).2) (stripImplies goal).1.reverse) := by
  simp only [trivialScript, runScriptAx] at hr
  have e1 : ("assume" == "theorem" || "assume" == "variable") = false := by decide
  simp only [e1, Bool.false_eq_true, if_false, lookupPrems] at hr
  have e3 : applyRuleAx axs "assume" (.prim (.term (stripImplies goal).2)) [] =
      .ok (Thm.assume (stripImplies goal).2) := by
    have f1 : ("assume" == "theorem") = false := by decide
    have f2 : ("assume" == "variable") = false := by decide
    simp [applyRuleAx, f1, f2, applyRule]
  by_cases hty : (Thm.assume (stripImplies goal).2).checkThmTypeSig = true
  · simp only [checkStepSt, e3, finishStep, hty, if_true, List.nil_append] at hr
    exact (run_intrSteps axs _ [] _ res (by simpa using hr)).1
  · simp [checkStepSt, e3, finishStep, hty] at hr

theorem mkImpliesList_strip (t : Term) (h : sigOK t = true) :
    mkImpliesList (stripImplies t).1 (stripImplies t).2 = t := by
  fun_induction stripImplies t with
  | case1 n T a b hn ih =>
    simp only [mkImpliesList, List.foldr_cons]
    have hb : sigOK b = true := by
      simp only [sigOK, Bool.and_eq_true] at h; exact h.2
    simp only [mkImpliesList] at ih
    rw [ih hb]
    have hn' : n = "implies" := by simpa using hn
    subst hn'
    have hT : T = Ty.fn Ty.bool (Ty.fn Ty.bool Ty.bool) := by
      simp only [sigOK, Bool.and_eq_true] at h
      have h1 := h.1.1
      simp only [beq_self_eq_true, Bool.or_true, Bool.true_or, if_true] at h1
      unfold logicalKind at h1
      split at h1 <;> simp_all [Ty.fn, Ty.bool]
    subst hT
    rfl
  | case2 n T a b hn => simp [mkImpliesList]
  | case3 t ht => simp [mkImpliesList]

/-! ### apply_theorem -/

/-- `pt.implies_elim(*pts)` on sequents -/
def elimAll : Thm → List Thm → Except RErr Thm
  | th, [] => .ok th
  | th, p :: rest =>
    match Thm.impliesElim th p with
    | .ok th' => elimAll th' rest
    | .error e => .error e

theorem substitution_complete (inst : Term.Inst) (p p' : Term)
    (h : Term.subst inst p = .ok (p', inst.tyinst)) :
    Thm.substitution inst ⟨[], p⟩ = .ok ⟨[], p'⟩ := by
  have hi : ({ inst with tyinst := inst.tyinst } : Term.Inst) = inst := by cases inst; rfl
  simp [Thm.substitution, Thm.substList, Thm.catchTerm, h, hi, Thm.mk', Thm.addTuple, bind, Except.bind]

theorem run_elimSteps (axs : List (String × Thm)) :
    ∀ (prems : List Thm) (pre : List Thm) (cur : Thm) (j : Nat) (res : List Thm),
      (∀ m (hm : m < prems.length), pre[j + m]? = some prems[m]) →
      cur.checkThmTypeSig = true →
      runScriptAx axs (elimSteps pre.length j prems.length) (pre ++ [cur]) = .ok res →
      ∃ final, elimAll cur prems = .ok final ∧ res.getLast? = some final ∧ final.checkThmTypeSig = true
  | [], pre, cur, j, res, _, hc, h => by
    simp only [List.length_nil, elimSteps, runScriptAx, Except.ok.injEq] at h
    subst h
    exact ⟨cur, rfl, by simp, hc⟩
  | p :: rest, pre, cur, j, res, hp, _, h => by
    simp only [List.length_cons, elimSteps, runScriptAx] at h
    have e1 : ("implies_elim" == "theorem" || "implies_elim" == "variable") = false := by decide
    simp only [e1, Bool.false_eq_true, if_false] at h
    have hj := hp 0 (by simp)
    simp only [Nat.add_zero, List.getElem_cons_zero] at hj
    have hjlt : j < pre.length := (List.getElem?_eq_some_iff.mp hj).1
    have e2 : lookupPrems (pre ++ [cur]) [pre.length, j] = .ok [cur, p] := by
      simp [lookupPrems, List.getElem?_append_left hjlt, hj]
    simp only [e2] at h
    have e3 : applyRuleAx axs "implies_elim" (.prim .none) [cur, p] = Thm.impliesElim cur p := by
      have f1 : ("implies_elim" == "theorem") = false := by decide
      have f2 : ("implies_elim" == "variable") = false := by decide
      simp [applyRuleAx, f1, f2, applyRule]
    simp only [checkStepSt, e3] at h
    cases he : Thm.impliesElim cur p with
    | error e => simp [he] at h
    | ok c' =>
      simp only [he, finishStep] at h
      by_cases hty : c'.checkThmTypeSig = true
      · simp only [hty, if_true] at h
        have hlen : (pre ++ [cur]).length = pre.length + 1 := by simp
        have hp' : ∀ m (hm : m < rest.length), (pre ++ [cur])[j + 1 + m]? = some rest[m] := by
          intro m hm
          have := hp (m + 1) (by simp; omega)
          simp only [List.getElem_cons_succ] at this
          have hlt : j + (m + 1) < pre.length := (List.getElem?_eq_some_iff.mp this).1
          rw [show j + 1 + m = j + (m + 1) by omega, List.getElem?_append_left hlt]
          exact this
        obtain ⟨final, hf1, hf2, hf3⟩ :=
          run_elimSteps axs rest (pre ++ [cur]) c' (j + 1) res hp' hty (by rw [hlen]; exact h)
        exact ⟨final, by simp [elimAll, he, hf1], hf2, hf3⟩
      · simp [hty] at h

theorem stripImplies_dest (q a b : Term) (h : Term.destImplies q = some (a, b)) :
    stripImplies q = (a :: (stripImplies b).1, (stripImplies b).2) := by
  unfold Term.destImplies Term.destBinop at h
  split at h
  · rename_i n T x y
    split at h
    · rename_i hn
      simp only [Option.some.injEq, Prod.mk.injEq] at h
      obtain ⟨rfl, rfl⟩ := h
      simp [stripImplies, hn]
    · simp at h
  · simp at h

theorem addTuple_nil (l : List Term) : Thm.addTuple [] l = l := by simp [Thm.addTuple]

theorem elimAll_spec : ∀ (prems : List Thm) (cur final : Thm), elimAll cur prems = .ok final →
    final.hyps = (prems.map (·.hyps)).foldl Thm.addTuple cur.hyps ∧
    stripImplies final.prop = ((stripImplies cur.prop).1.drop prems.length, (stripImplies cur.prop).2)
  | [], cur, final, h => by
    simp only [elimAll, Except.ok.injEq] at h
    subst h
    simp
  | p :: rest, cur, final, h => by
    simp only [elimAll] at h
    cases he : Thm.impliesElim cur p with
    | error e => simp [he] at h
    | ok c' =>
      simp only [he] at h
      obtain ⟨ih1, ih2⟩ := elimAll_spec rest c' final h
      unfold Thm.impliesElim at he
      split at he
      · rename_i a b hd
        split at he
        · simp only [Except.ok.injEq] at he
          subst he
          simp only [Thm.mk', List.foldl_cons, List.foldl_nil, addTuple_nil] at ih1 ih2
          refine ⟨by simpa using ih1, ?_⟩
          rw [ih2, stripImplies_dest _ _ _ hd]
          simp
        · simp at he
      · simp at he

end Holpy.C04.Macro
