/-
C04 model (import-free): proof-term trees (`kernel/proofterm.py: ProofTerm`), `ProofTerm.export`
(lines 243-282: prefix ids, one line per derivation node, the `seq_to_id` sharing of equal
sequents, citations by id) and the flat checker of an expanded macro line
(`kernel/theory.py: _check_proof_item` on the items of `seq.subproof`).

Sequents are opaque: hypotheses and conclusion are `Nat` codes of terms.  The meaning of rules is a
parameter `evalRule : String → Nat → List Seq → Option Seq` (primitive rules and macro `eval`s).
-/
namespace Holpy.C04

structure Seq where
  hyps : List Nat
  concl : Nat
  deriving DecidableEq, Repr, Inhabited

/-- `ItemID.id`: a tuple of numbers. -/
abbrev ItemId := List Nat

/-- `Thm.can_prove`: same conclusion, hypotheses a subset (as sets). -/
def canProve (res target : Seq) : Bool :=
  res.concl == target.concl && res.hyps.all (fun h => target.hyps.contains h)

/-- `Thm.__eq__`: same conclusion, the same set of hypotheses. -/
def seqEquiv (a b : Seq) : Bool := canProve a b && canProve b a

/-- `ItemID.can_depend_on` (`other` empty: Python raises IndexError; modelled as `false`). -/
def canDependOn (self other : ItemId) : Bool :=
  match other.length with
  | 0 => false
  | l + 1 =>
    if l + 1 > self.length then false
    else if other.take l != self.take l then false
    else
      match other[l]?, self[l]? with
      | some o, some s => decide (o < s)
      | _, _ => false

/-- Proof terms.  `atom id th` refers to line `id` of the enclosing proof (`ProofTerm.atom`);
`node rule args prevs th` is a derivation step whose field `th` was computed (or supplied) when
the node was constructed. -/
inductive PT where
  | atom (id : ItemId) (th : Seq)
  | node (rule : String) (args : Nat) (prevs : List PT) (th : Seq)
  deriving Repr, Inhabited

def PT.th : PT → Seq
  | .atom _ th => th
  | .node _ _ _ th => th

def PT.isAtom : PT → Bool
  | .atom _ _ => true
  | .node _ _ _ _ => false

/-- One line of an exported proof (`ProofItem`): id, rule, args, cited ids, stated sequent. -/
structure Item where
  id : ItemId
  rule : String
  args : Nat
  prevs : List ItemId
  th : Seq
  deriving DecidableEq, Repr, Inhabited

inductive Err where
  | atomRoot        -- `assert pt.rule != 'atom'`
  | dupRoot         -- `assert pt.th not in seq_to_id`
  | badCitation     -- `id ... cannot depend on ...`
  | notFound        -- `previous item not found`
  | ruleFailed      -- the rule does not apply to the cited sequents
  | mismatch        -- `output does not match`
  | empty
  deriving DecidableEq, Repr, Inhabited

/-- State of `export`'s inner `rec`: the lines produced so far and the `seq_to_id` dictionary as
an association list (newest first; a later entry for a `same` key shadows an older one). -/
structure St where
  items : List Item
  tbl : List (Seq × ItemId)
  deriving Repr, Inhabited

/-- `seq_to_id.get(th)`: the dictionary lookup is modelled by a relation `same` on keys
(CPython: equal hash of the ordered hypothesis tuple, then `Thm.__eq__`). -/
def lookup (same : Seq → Seq → Bool) (tbl : List (Seq × ItemId)) (th : Seq) : Option ItemId :=
  (tbl.find? (fun e => same e.1 th)).map (·.2)

/-- `prf.items[-1].id` -/
def lastId (items : List Item) : ItemId :=
  match items.getLast? with
  | some it => it.id
  | none => []

mutual
/-- `rec(pt)` of `ProofTerm.export` for `subproof=True`. -/
def exportRec (same : Seq → Seq → Bool) (pfx : ItemId) : PT → St → Except Err St
  | .atom _ _, _ => .error .atomRoot
  | .node rule args prevs th, st =>
    match lookup same st.tbl th with
    | some _ => .error .dupRoot
    | none =>
      match exportPrevs same pfx prevs st with
      | .error e => .error e
      | .ok (ids, st') =>
        let id := pfx ++ [st'.items.length]
        .ok { items := st'.items ++ [⟨id, rule, args, ids, th⟩], tbl := (th, id) :: st'.tbl }

/-- The loop `for prev in pt.prevs` collecting the cited ids. -/
def exportPrevs (same : Seq → Seq → Bool) (pfx : ItemId) : List PT → St → Except Err (List ItemId × St)
  | [], st => .ok ([], st)
  | p :: ps, st =>
    match p with
    | .atom id _ =>
      match exportPrevs same pfx ps st with
      | .error e => .error e
      | .ok (ids, st') => .ok (id :: ids, st')
    | .node r a qs th =>
      match lookup same st.tbl th with
      | some id =>
        match exportPrevs same pfx ps st with
        | .error e => .error e
        | .ok (ids, st') => .ok (id :: ids, st')
      | none =>
        match exportRec same pfx (.node r a qs th) st with
        | .error e => .error e
        | .ok st1 =>
          match exportPrevs same pfx ps st1 with
          | .error e => .error e
          | .ok (ids, st') => .ok ((lastId st1.items) :: ids, st')
end

/-- `pt.export(prefix)`. -/
def exportPT (same : Seq → Seq → Bool) (pfx : ItemId) (pt : PT) : Except Err (List Item) :=
  match exportRec same pfx pt ⟨[], []⟩ with
  | .ok st => .ok st.items
  | .error e => .error e

/-- Structural equality: the `same` of CPython's dictionary barring hash collisions. -/
def sameStruct (a b : Seq) : Bool := decide (a = b)

/-- `prf.find_item(prev).th` for a citation made inside the expansion of line `pfx`: an id
`pfx ++ [j]` is the `j`-th item of the subproof (by POSITION, as `find_item` indexes), any other id
is a line of the enclosing proof. -/
def findSeq (ctx : ItemId → Option Seq) (pfx : ItemId) (items : List Item) (id : ItemId) : Option Seq :=
  if id.length = pfx.length + 1 ∧ id.take pfx.length = pfx then
    match id[pfx.length]? with
    | some j => (items[j]?).map (·.th)
    | none => none
  else ctx id

/-- `_check_proof_item` on one item of the subproof (`items` = the whole subproof). -/
def checkItem (evalRule : String → Nat → List Seq → Option Seq) (ctx : ItemId → Option Seq)
    (pfx : ItemId) (items : List Item) (it : Item) : Except Err Unit :=
  if it.prevs.all (fun p => canDependOn it.id p) then
    match it.prevs.mapM (findSeq ctx pfx items) with
    | none => .error .notFound
    | some ths =>
      match evalRule it.rule it.args ths with
      | none => .error .ruleFailed
      | some res => if canProve res it.th then .ok () else .error .mismatch
  else .error .badCitation

def checkAll (evalRule : String → Nat → List Seq → Option Seq) (ctx : ItemId → Option Seq)
    (pfx : ItemId) (items : List Item) : List Item → Except Err Unit
  | [] => .ok ()
  | it :: rest =>
    match checkItem evalRule ctx pfx items it with
    | .error e => .error e
    | .ok () => checkAll evalRule ctx pfx items rest

/-- The expansion branch of `_check_proof_item`: check every item of the subproof in order, the
result is the stated sequent of the last one. -/
def checkItems (evalRule : String → Nat → List Seq → Option Seq) (ctx : ItemId → Option Seq)
    (pfx : ItemId) (items : List Item) : Except Err Seq :=
  match checkAll evalRule ctx pfx items items with
  | .error e => .error e
  | .ok () =>
    match items.getLast? with
    | some it => .ok it.th
    | none => .error .empty

mutual
/-- Constructor invariant of every node (`self.th = rule_fun(*prev_ths)` / `macro.eval(args,
prev_ths)`), and what the checker has established for the atoms before it expands the macro line
`pfx`: the cited line exists with that sequent and `pfx` can depend on it. -/
def PT.wf (evalRule : String → Nat → List Seq → Option Seq) (ctx : ItemId → Option Seq)
    (pfx : ItemId) : PT → Bool
  | .atom id th => decide (ctx id = some th) && canDependOn pfx id
  | .node rule args prevs th =>
    decide (evalRule rule args (thsOf prevs) = some th) && wfList evalRule ctx pfx prevs

def wfList (evalRule : String → Nat → List Seq → Option Seq) (ctx : ItemId → Option Seq)
    (pfx : ItemId) : List PT → Bool
  | [] => true
  | p :: ps => PT.wf evalRule ctx pfx p && wfList evalRule ctx pfx ps

/-- `[prev.th for prev in prevs]` -/
def thsOf : List PT → List Seq
  | [] => []
  | p :: ps => p.th :: thsOf ps
end

mutual
/-- Number of derivation nodes. -/
def PT.nodes : PT → Nat
  | .atom _ _ => 0
  | .node _ _ prevs _ => 1 + nodesList prevs
def nodesList : List PT → Nat
  | [] => 0
  | p :: ps => p.nodes + nodesList ps
end

/-! ### Macros with the default `eval` / `expand` (`kernel/macro.py`) -/

/-- `ProofTerm.sorry(th)` -/
def gapLeaf (th : Seq) : PT := .node "gap" 0 [] th

/-- Proof-term templates: what `get_proof_term` builds when it uses its premises only through
their sequents — a tree whose leaves `prem i` stand for the `i`-th premise. -/
inductive Tmpl where
  | prem (i : Nat)
  | node (rule : String) (args : Nat) (prevs : List Tmpl) (th : Seq)
  deriving Repr, Inhabited

mutual
def Tmpl.inst (leaves : List PT) : Tmpl → PT
  | .prem i => leaves.getD i default
  | .node r a ps th => .node r a (instList leaves ps) th
def instList (leaves : List PT) : List Tmpl → List PT
  | [] => []
  | t :: ts => t.inst leaves :: instList leaves ts
end

/-- Default `Macro.eval`: `get_proof_term(args, [ProofTerm.sorry(th) ...]).th`. -/
def evalDefault (gpt : Nat → List PT → PT) (args : Nat) (ths : List Seq) : Seq :=
  (gpt args (ths.map gapLeaf)).th

/-- Default `Macro.expand` (since the fix): `pt = get_proof_term(args, [ProofTerm.atom(id, th) ...])`;
a result that is one of the premises unchanged is restated,
`pt = ProofTerm.assume(pt.prop).implies_intr(pt.prop).implies_elim(pt)` (the parameter `restate`: the
sequents of the three new nodes are computed by the kernel rules, which are opaque here); then
`pt.export(prefix)`. -/
def expandDefault (same : Seq → Seq → Bool) (restate : PT → PT) (gpt : Nat → List PT → PT) (pfx : ItemId)
    (args : Nat) (prevs : List (ItemId × Seq)) : Except Err (List Item) :=
  let pt := gpt args (prevs.map fun p => PT.atom p.1 p.2)
  exportPT same pfx (if pt.isAtom then restate pt else pt)

mutual
/-- the sequents stated by the derivation nodes of a proof term -/
def PT.nodeSeqs : PT → List Seq
  | .atom _ _ => []
  | .node _ _ prevs th => th :: nodeSeqsList prevs
def nodeSeqsList : List PT → List Seq
  | [] => []
  | p :: ps => p.nodeSeqs ++ nodeSeqsList ps
end

mutual
/-- no derivation node states the same sequent as one of the nodes below it (a derivation that
does not run in a circle) -/
def PT.noRepeat : PT → Bool
  | .atom _ _ => true
  | .node _ _ prevs th => !(nodeSeqsList prevs).contains th && noRepeatList prevs
def noRepeatList : List PT → Bool
  | [] => true
  | p :: ps => p.noRepeat && noRepeatList ps
end

end Holpy.C04
