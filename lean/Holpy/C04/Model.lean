/-
C04 model (import-free): proof-term trees, `ProofTerm.export`, flat checker of the exported proof.
-/
namespace Holpy.C04
end Holpy.C04
