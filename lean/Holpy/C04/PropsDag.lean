import Holpy.C04.Model
import Holpy.C04.Proofs
/-
C04 — `ProofTerm.export` on proof terms with repeated sub-proof-terms (DAGs unfolded as `export`
walks them): sharing through `seq_to_id`.
-/
namespace Holpy.C04

/-- a DAG-like derivation: the sub-derivation `r2` occurs three times, twice directly under the
root and once under `r3` -/
def exDag : PT :=
  .node "r1" 0 [.node "r2" 1 [] ⟨[], 6⟩, .node "r3" 2 [.node "r2" 1 [] ⟨[], 6⟩] ⟨[], 8⟩,
    .node "r2" 1 [] ⟨[], 6⟩] ⟨[1], 7⟩

/-- `export_dag_lines_unique`: for a derivation in which no node states the sequent of a node below
it, `export` (dictionary lookup = equal ordered hypotheses and conclusion) emits every sequent at
most once — the stated sequents of the exported lines are pairwise different —, every line states
the sequent of some node of the proof term, and the last line states the root's sequent.  Together
with `export_check` (every citation of an expansion line resolves to a line stating exactly the
child's sequent) each repeated sub-proof-term is exported once and all its uses cite that line. -/
theorem export_dag_lines_unique (pfx : ItemId) (pt : PT) (items : List Item)
    (hn : pt.noRepeat = true) (he : exportPT sameStruct pfx pt = .ok items) :
    (items.map (·.th)).Nodup ∧ (∀ it ∈ items, it.th ∈ pt.nodeSeqs) ∧
      items.length ≤ pt.nodes := by
  have hlen := exportPT_len sameStruct pfx pt items he
  unfold exportPT at he
  cases hr : exportRec sameStruct pfx pt ⟨[], []⟩ with
  | error e => simp [hr] at he
  | ok st =>
    simp only [hr, Except.ok.injEq] at he
    subst he
    have h0 : UInv ⟨[], []⟩ := ⟨by intro it hit; simp at hit, by simp⟩
    obtain ⟨hinv, hmem⟩ := exportRec_unique pfx pt ⟨[], []⟩ st hr hn h0
    refine ⟨hinv.nodup, ?_, hlen⟩
    intro it hit
    rcases hmem it hit with h | h
    · simp at h
    · exact h
example : exDag.noRepeat = true ∧ exDag.nodes = 5 ∧
    (exportPT sameStruct [2] exDag).toOption.map (fun l => l.map (fun it => (it.id, it.prevs, it.th))) =
      some [([2, 0], [], ⟨[], 6⟩), ([2, 1], [[2, 0]], ⟨[], 8⟩), ([2, 2], [[2, 0], [2, 1], [2, 0]], ⟨[1], 7⟩)] := by
  decide

end Holpy.C04
