import Holpy.Common.Sexp
import Holpy.C04.Model
/-
Line protocol for the C04 model (one s-expression in, one out):
  (export PFX PT)               -> (ok (ITEM ...)) | (error KIND)
  (check PFX CTX TABLE ITEMS)   -> (ok SEQ) | (error KIND)
  (roundtrip PFX CTX TABLE PT)  -> (ok SEQ NLINES) | (error KIND)        export, then check
  (depends ID ID)               -> T | F                                 ItemID.can_depend_on
PFX, ID = (n1 n2 ...)      SEQ = ((h1 h2 ...) c)
PT   = (atom ID SEQ) | (node RULE ARGS (PT ...) SEQ)      RULE an atom, ARGS a number
ITEM = (ID RULE ARGS (ID ...) SEQ)
CTX  = ((ID SEQ) ...)                 sequents of the lines of the enclosing proof
TABLE = ((RULE ARGS (SEQ ...) SEQ) ...)   finite graph of evalRule; absent -> none
`same` (the seq_to_id lookup) is structural equality of sequents.
-/
open Holpy Holpy.C04

namespace Holpy.C04.Driver

def natsOf (s : Sexp) : Option (List Nat) := do (← s.toList?).mapM Sexp.toNat?

def seqOf : Sexp → Option Seq
  | .list [hs, c] => do some ⟨← natsOf hs, ← c.toNat?⟩
  | _ => none

def seqsOf (s : Sexp) : Option (List Seq) := do (← s.toList?).mapM seqOf

partial def ptOf : Sexp → Option PT
  | .list [.atom "atom", id, sq] => do some (.atom (← natsOf id) (← seqOf sq))
  | .list [.atom "node", .atom r, a, .list ps, sq] => do
    some (.node r (← a.toNat?) (← ps.mapM ptOf) (← seqOf sq))
  | _ => none

def itemOf : Sexp → Option Item
  | .list [id, .atom r, a, .list ps, sq] => do
    some ⟨← natsOf id, r, ← a.toNat?, ← ps.mapM natsOf, ← seqOf sq⟩
  | _ => none

def ctxOf (s : Sexp) : Option (List (ItemId × Seq)) := do
  (← s.toList?).mapM fun
    | .list [id, sq] => do some ((← natsOf id), (← seqOf sq))
    | _ => none

def tableOf (s : Sexp) : Option (List (String × Nat × List Seq × Seq)) := do
  (← s.toList?).mapM fun
    | .list [.atom r, a, ths, sq] => do some (r, (← a.toNat?), (← seqsOf ths), (← seqOf sq))
    | _ => none

def ctxFun (l : List (ItemId × Seq)) (id : ItemId) : Option Seq :=
  (l.find? (fun e => e.1 == id)).map (·.2)

def tableFun (t : List (String × Nat × List Seq × Seq)) (r : String) (a : Nat) (ths : List Seq) : Option Seq :=
  (t.find? (fun e => e.1 == r && e.2.1 == a && decide (e.2.2.1 = ths))).map (·.2.2.2)

def idTo (id : ItemId) : Sexp := .list (id.map Sexp.ofNat)
def seqTo (s : Seq) : Sexp := .list [.list (s.hyps.map Sexp.ofNat), Sexp.ofNat s.concl]
def itemTo (it : Item) : Sexp :=
  .list [idTo it.id, .atom it.rule, Sexp.ofNat it.args, .list (it.prevs.map idTo), seqTo it.th]

def errTo : Err → String
  | .atomRoot => "atom-root"
  | .dupRoot => "dup-root"
  | .badCitation => "bad-citation"
  | .notFound => "not-found"
  | .ruleFailed => "rule-failed"
  | .mismatch => "mismatch"
  | .empty => "empty"

def errLine (e : Err) : String := toString (Sexp.list [.atom "error", .atom (errTo e)])

def handle (line : String) : String :=
  match Sexp.parse line with
  | some (.list [.atom "export", pfx, pt]) =>
    match natsOf pfx, ptOf pt with
    | some p, some t =>
      match exportPT sameStruct p t with
      | .ok items => toString (Sexp.list [.atom "ok", .list (items.map itemTo)])
      | .error e => errLine e
    | _, _ => "bad-op"
  | some (.list [.atom "check", pfx, ctx, tbl, items]) =>
    match natsOf pfx, ctxOf ctx, tableOf tbl, (do (← items.toList?).mapM itemOf) with
    | some p, some c, some t, some its =>
      match checkItems (tableFun t) (ctxFun c) p its with
      | .ok s => toString (Sexp.list [.atom "ok", seqTo s])
      | .error e => errLine e
    | _, _, _, _ => "bad-op"
  | some (.list [.atom "roundtrip", pfx, ctx, tbl, pt]) =>
    match natsOf pfx, ctxOf ctx, tableOf tbl, ptOf pt with
    | some p, some c, some t, some tr =>
      match exportPT sameStruct p tr with
      | .error e => errLine e
      | .ok items =>
        match checkItems (tableFun t) (ctxFun c) p items with
        | .ok s => toString (Sexp.list [.atom "ok", seqTo s, Sexp.ofNat items.length])
        | .error e => errLine e
    | _, _, _, _ => "bad-op"
  | some (.list [.atom "depends", a, b]) =>
    match natsOf a, natsOf b with
    | some x, some y => toString (Sexp.ofBool (canDependOn x y))
    | _, _ => "bad-op"
  | _ => "bad-op"

end Holpy.C04.Driver

def main : IO Unit := Holpy.lineLoop Holpy.C04.Driver.handle
