import Holpy.Common.Sexp
import Holpy.C04.Model
import Holpy.Kernel.Wire
import Holpy.C04.MacroModel
import Holpy.C04.MacroModel2
/-
Line protocol for the C04 model (one s-expression in, one out):
  (export PFX PT)               -> (ok (ITEM ...)) | (error KIND)
  (check PFX CTX TABLE ITEMS)   -> (ok SEQ) | (error KIND)
  (roundtrip PFX CTX TABLE PT)  -> (ok SEQ NLINES) | (error KIND)        export, then check
  (depends ID ID)               -> T | F                                 ItemID.can_depend_on
PFX, ID = (n1 n2 ...)      SEQ = ((h1 h2 ...) c)
PT   = (atom ID SEQ) | (node RULE ARGS (PT ...) SEQ)      RULE an atom, ARGS a number
ITEM = (ID RULE ARGS (ID ...) SEQ)
CTX  = ((ID SEQ) ...)                 sequents of the lines of the enclosing proof
TABLE = ((RULE ARGS (SEQ ...) SEQ) ...)   finite graph of evalRule; absent -> none
`same` (the seq_to_id lookup) is structural equality of sequents.
  (macro trivial TERM)                         -> (ok EVAL (STEP ...) RUN)      macro models on the kernel model
  (macro intros (THM ...))                     -> idem   (the last THM is the proved statement)
  (macro apply_theorem NAME THM INST (THM ...))-> idem   (THM = the stored theorem, INST = (inst TY SV VS))
  (macro intros_vars (THM ...))                -> idem   (`_VAR` premises allowed)
  (macro apply_theorem_svars NAME THM INST INST0 (THM ...)) -> idem  (INST = the matcher's answer from INST0; remaining svars generalised)
  (macro forall_elim_gen TERM (THM ...))       -> idem   (script: the beta-normal branch)
  (macro apply_fact_for (TERM ...) (THM ...))  -> idem   (the first THM is the fact)
EVAL = THM | none; STEP = (RULE ARG (pos ...)); RUN = last theorem of the script run by `runScriptAx` | (error KIND)
-/
open Holpy Holpy.C04

namespace Holpy.C04.Driver

def natsOf (s : Sexp) : Option (List Nat) := do (← s.toList?).mapM Sexp.toNat?

def seqOf : Sexp → Option Seq
  | .list [hs, c] => do some ⟨← natsOf hs, ← c.toNat?⟩
  | _ => none

def seqsOf (s : Sexp) : Option (List Seq) := do (← s.toList?).mapM seqOf

partial def ptOf : Sexp → Option PT
  | .list [.atom "atom", id, sq] => do some (.atom (← natsOf id) (← seqOf sq))
  | .list [.atom "node", .atom r, a, .list ps, sq] => do
    some (.node r (← a.toNat?) (← ps.mapM ptOf) (← seqOf sq))
  | _ => none

def itemOf : Sexp → Option Item
  | .list [id, .atom r, a, .list ps, sq] => do
    some ⟨← natsOf id, r, ← a.toNat?, ← ps.mapM natsOf, ← seqOf sq⟩
  | _ => none

def ctxOf (s : Sexp) : Option (List (ItemId × Seq)) := do
  (← s.toList?).mapM fun
    | .list [id, sq] => do some ((← natsOf id), (← seqOf sq))
    | _ => none

def tableOf (s : Sexp) : Option (List (String × Nat × List Seq × Seq)) := do
  (← s.toList?).mapM fun
    | .list [.atom r, a, ths, sq] => do some (r, (← a.toNat?), (← seqsOf ths), (← seqOf sq))
    | _ => none

def ctxFun (l : List (ItemId × Seq)) (id : ItemId) : Option Seq :=
  (l.find? (fun e => e.1 == id)).map (·.2)

def tableFun (t : List (String × Nat × List Seq × Seq)) (r : String) (a : Nat) (ths : List Seq) : Option Seq :=
  (t.find? (fun e => e.1 == r && e.2.1 == a && decide (e.2.2.1 = ths))).map (·.2.2.2)

def idTo (id : ItemId) : Sexp := .list (id.map Sexp.ofNat)
def seqTo (s : Seq) : Sexp := .list [.list (s.hyps.map Sexp.ofNat), Sexp.ofNat s.concl]
def itemTo (it : Item) : Sexp :=
  .list [idTo it.id, .atom it.rule, Sexp.ofNat it.args, .list (it.prevs.map idTo), seqTo it.th]

def errTo : Err → String
  | .atomRoot => "atom-root"
  | .dupRoot => "dup-root"
  | .badCitation => "bad-citation"
  | .notFound => "not-found"
  | .ruleFailed => "rule-failed"
  | .mismatch => "mismatch"
  | .empty => "empty"

def errLine (e : Err) : String := toString (Sexp.list [.atom "error", .atom (errTo e)])

/-! macro models on the kernel model -/
open Holpy.C04.Macro in
def argAxTo : ArgAx → Sexp
  | .prim (.term t) => .list [.atom "term", Wire.termTo t]
  | .prim .none => .list [.atom "none"]
  | .prim (.inst _) => .list [.atom "inst"]
  | .name s => .list [.atom "name", .atom s]
  | _ => .list [.atom "other"]

def stepTo (s : StepAx) : Sexp := .list [.atom s.rule, argAxTo s.arg, .list (s.prevs.map Sexp.ofNat)]

def optThmTo : Option Thm → Sexp
  | some th => Wire.thmTo th
  | none => .atom "none"

def runTo : Except RErr (List Thm) → Sexp
  | .ok ths => match ths.getLast? with
    | some t => Wire.thmTo t
    | none => .atom "empty"
  | .error e => .list [.atom "error", .atom (Wire.rerrTo e)]

def macroAnswer (ev : Option Thm) (script : List StepAx) (axs : List (String × Thm)) (acc : List Thm) : String :=
  toString (Sexp.list [.atom "ok", optThmTo ev, .list (script.map stepTo), runTo (runScriptAx axs script acc)])

def handleMacro : List Sexp → String
  | [.atom "trivial", g] =>
    match Wire.termOf g with
    | some goal => macroAnswer (Macro.trivialEval goal) (Macro.trivialScript goal) [] []
    | none => "bad-op"
  | [.atom "intros", .list ths] =>
    match ths.mapM Wire.thmOf with
    | some l =>
      match l.getLast? with
      | some body => macroAnswer (Macro.introsEval l.dropLast body) (Macro.introsScript l.dropLast) [] l
      | none => "bad-op"
    | none => "bad-op"
  | [.atom "apply_theorem", .atom name, ax, inst, .list ths] =>
    match Wire.thmOf ax, Wire.argOf inst, ths.mapM Wire.thmOf with
    | some a, some (.inst i), some l =>
      macroAnswer (Macro.applyTheoremEval [(name, a)] name i l) (Macro.applyTheoremScript name i l.length) [(name, a)] l
    | _, _, _ => "bad-op"
  | [.atom "intros_vars", .list ths] =>
    match ths.mapM Wire.thmOf with
    | some l =>
      match l.getLast? with
      | some body => macroAnswer (Macro.introsVEval l.dropLast body) (Macro.introsVScript l.dropLast) [] l
      | none => "bad-op"
    | none => "bad-op"
  | [.atom "apply_theorem_svars", .atom name, ax, inst, inst0, .list ths] =>
    match Wire.thmOf ax, Wire.argOf inst, Wire.argOf inst0, ths.mapM Wire.thmOf with
    | some a, some (.inst i), some (.inst i0), some l =>
      macroAnswer (Macro.applyTheoremForEval [(name, a)] (fun _ _ => some i) name i0 l)
        (Macro.applyTheoremForScript [(name, a)] (fun _ _ => some i) name i0 l) [(name, a)] l
    | _, _, _, _ => "bad-op"
  | [.atom "forall_elim_gen", t, .list ths] =>
    match Wire.termOf t, ths.mapM Wire.thmOf with
    | some s, some l => macroAnswer (Macro.forallElimGenEval 100000 s l) (Macro.forallElimGenScript s) [] l
    | _, _ => "bad-op"
  | [.atom "apply_fact_for", .list ts, .list ths] =>
    match ts.mapM Wire.termOf, ths.mapM Wire.thmOf with
    | some args, some l => macroAnswer (Macro.applyFactForEval 100000 args l) (Macro.applyFactForScript args (l.length - 1)) [] l
    | _, _ => "bad-op"
  | _ => "bad-op"

def handle (line : String) : String :=
  match Sexp.parse line with
  | some (.list (.atom "macro" :: rest)) => handleMacro rest
  | some (.list [.atom "export", pfx, pt]) =>
    match natsOf pfx, ptOf pt with
    | some p, some t =>
      match exportPT sameStruct p t with
      | .ok items => toString (Sexp.list [.atom "ok", .list (items.map itemTo)])
      | .error e => errLine e
    | _, _ => "bad-op"
  | some (.list [.atom "check", pfx, ctx, tbl, items]) =>
    match natsOf pfx, ctxOf ctx, tableOf tbl, (do (← items.toList?).mapM itemOf) with
    | some p, some c, some t, some its =>
      match checkItems (tableFun t) (ctxFun c) p its with
      | .ok s => toString (Sexp.list [.atom "ok", seqTo s])
      | .error e => errLine e
    | _, _, _, _ => "bad-op"
  | some (.list [.atom "roundtrip", pfx, ctx, tbl, pt]) =>
    match natsOf pfx, ctxOf ctx, tableOf tbl, ptOf pt with
    | some p, some c, some t, some tr =>
      match exportPT sameStruct p tr with
      | .error e => errLine e
      | .ok items =>
        match checkItems (tableFun t) (ctxFun c) p items with
        | .ok s => toString (Sexp.list [.atom "ok", seqTo s, Sexp.ofNat items.length])
        | .error e => errLine e
    | _, _, _, _ => "bad-op"
  | some (.list [.atom "depends", a, b]) =>
    match natsOf a, natsOf b with
    | some x, some y => toString (Sexp.ofBool (canDependOn x y))
    | _, _ => "bad-op"
  | _ => "bad-op"

end Holpy.C04.Driver

def main : IO Unit := Holpy.lineLoop Holpy.C04.Driver.handle
