import Holpy.C15.Model
/-
C15 — the PROOF TERM of `tseitin.encode` as a script over a small proof system (import-free: linked
into the driver).  A `Prf` is the spine of the real `ProofTerm`: `assume`, `equal_elim` with a
`top_conv(rewr_conv(eq_pt, sym=True))` conversion (`rewrHypSym`), `apply_theorem('conjI', …)`,
`equal_elim` with `top_conv(rewr_conv(<library theorem>))` (`rewrThm`), and the final
`conj_norm` (two `imp_conj` macro steps, `conjNorm`).  `Prf.check` recomputes the sequent of every
node the way the kernel rules / the macros' `eval` do and refuses anything else.
-/
namespace Holpy.C15

/-- the library equations `encode` rewrites with: `encode_conj/disj/imp/eq/not` left to right,
`eq_true`, `eq_false` right to left -/
inductive Rule where
  | conj | disj | imp | eq | not | eqTrue | eqFalse
  deriving DecidableEq, Repr

/-- right-hand sides of the `encode_*` theorems (as `library/sat.json` prints them; `∧`, `∨`
associate to the right) with arbitrary terms for `l`, `r1`, `r2` -/
def rhsConj (l a b : Form) : Form :=
  .and (.or (.not l) a) (.and (.or (.not l) b) (.or (.not a) (.or (.not b) l)))
def rhsDisj (l a b : Form) : Form :=
  .and (.or (.not l) (.or a b)) (.and (.or (.not a) l) (.or (.not b) l))
def rhsImp (l a b : Form) : Form :=
  .and (.or (.not l) (.or (.not a) b)) (.and (.or a l) (.or (.not b) l))
def rhsEq (l a b : Form) : Form :=
  .and (.or (.not l) (.or (.not a) b)) (.and (.or (.not l) (.or a (.not b)))
    (.and (.or l (.or (.not a) (.not b))) (.or l (.or a b))))
def rhsNot (l a : Form) : Form := .and (.or l a) (.or (.not l) (.not a))

/-- `top_conv(rewr_conv(th))` for one of the seven theorems: a redex is rewritten where it is met
first on the way down, then the conversion goes on inside the result (whose skeleton holds no
redex, so: inside the instantiated `l`, `r1`, `r2`). -/
def Form.rewr (r : Rule) : Form → Form
  | .not a => .not (a.rewr r)
  | .and a b => .and (a.rewr r) (b.rewr r)
  | .or a b => .or (a.rewr r) (b.rewr r)
  | .imp a b => .imp (a.rewr r) (b.rewr r)
  | .iff l rhs =>
    let fb := Form.iff (l.rewr r) (rhs.rewr r)
    match r, rhs with
    | .conj, .and a b => rhsConj (l.rewr r) (a.rewr r) (b.rewr r)
    | .disj, .or a b => rhsDisj (l.rewr r) (a.rewr r) (b.rewr r)
    | .imp, .imp a b => rhsImp (l.rewr r) (a.rewr r) (b.rewr r)
    | .eq, .iff a b => rhsEq (l.rewr r) (a.rewr r) (b.rewr r)
    | .not, .not a => rhsNot (l.rewr r) (a.rewr r)
    | .eqTrue, .tt => l.rewr r
    | .eqFalse, .ff => .not (l.rewr r)
    | _, _ => fb
  | t => t

/-- a sequent `hyps ⊢ concl` -/
abbrev Sequent := List Form × Form

/-- union of hypothesis sets (kept as lists without regard to order) -/
def hunion (a b : List Form) : List Form := a ++ b.filter (fun x => !a.contains x)

/-- `set(strip_conj(A)) - {true}` of the `imp_conj` macro -/
def conjSet (t : Form) : List Form := t.conjuncts.filter (fun c => c != .tt)

/-- the two `imp_conj` steps of `conj_norm`: each side's conjuncts occur on the other side -/
def sameConj (a b : Form) : Bool :=
  (conjSet a).all (conjSet b).contains && (conjSet b).all (conjSet a).contains

/-- the spine of `encode`'s proof term -/
inductive Prf where
  | assume (t : Form)
  | rewrHypSym (eq src : Prf)
  | conjI (a b : Prf)
  | rewrThm (r : Rule) (src : Prf)
  | conjNorm (target : Form) (src : Prf)
  deriving Repr

/-- the checker of the small proof system: the sequent a node derives, `none` if a rule does not
apply.  A conversion that changes nothing contributes no hypothesis (`ProofTerm.equal_elim`
returns the theorem itself when the equation is reflexive). -/
def Prf.check : Prf → Option Sequent
  | .assume t => some ([t], t)
  | .rewrHypSym e s =>
    match e.check, s.check with
    | some (he, .iff (.atom x) rhs), some (hs, c) =>
      if c.replace rhs x = c then some (hs, c) else some (hunion he hs, c.replace rhs x)
    | _, _ => none
  | .conjI a b =>
    match a.check, b.check with
    | some (ha, ca), some (hb, cb) => some (hunion ha hb, .and ca cb)
    | _, _ => none
  | .rewrThm r s =>
    match s.check with
    | some (hs, c) => some (hs, c.rewr r)
    | none => none
  | .conjNorm tgt s =>
    match s.check with
    | some (hs, c) => if sameConj c tgt then some (hs, tgt) else none
    | none => none

/-- the equation `encode` assumes for the subterm `g` -/
def eqOf (names : List Nat) (order : List Form) (g : Form) : Form :=
  .iff (.atom (varOf names order g)) (rhsOf names order g)

/-- `is_logical(eq_pt.rhs) or eq_pt.rhs in (true, false)` -/
def isLogical : Form → Bool
  | .atom _ => false
  | _ => true

/-- order of the seven rewriting passes in `encode` -/
def passes : List Rule := [.conj, .disj, .imp, .eq, .not, .eqTrue, .eqFalse]

/-- the proof term `encode` builds, up to the last step -/
def encodePre (names : List Nat) (order : List Form) (f : Form) : Prf :=
  let p1 := order.foldl (fun p g => .rewrHypSym (.assume (eqOf names order g)) p) (.assume f)
  let p2 := (order.filter isLogical).foldl (fun p g => .conjI (.assume (eqOf names order g)) p) p1
  passes.foldl (fun p r => .rewrThm r p) p2

/-- the whole proof term; `tgt` is the sorted conjunction `conj_norm` states -/
def encodePrf (names : List Nat) (order : List Form) (f tgt : Form) : Prf :=
  .conjNorm tgt (encodePre names order f)

/-- a clause / a CNF as the formula `convert_cnf` reads back -/
def formOfLit (l : Lit) : Form := if l.2 then .atom l.1 else .not (.atom l.1)
def formOfClause : Clause → Form
  | [] => .ff
  | [l] => formOfLit l
  | l :: ls => .or (formOfLit l) (formOfClause ls)
def formOfCnf : CNF → Form
  | [] => .tt
  | [c] => formOfClause c
  | c :: cs => .and (formOfClause c) (formOfCnf cs)

/-- the lines of a proof, premises first: (rule, cited theorem or assumption, sequent) -/
def Prf.lines : Prf → List (String × Option Sequent)
  | .assume t => [("assume", some ([t], t))]
  | .rewrHypSym e s => s.lines ++ [("rewr-hyp-sym", (Prf.rewrHypSym e s).check)]
  | .conjI a b => b.lines ++ [("conjI", (Prf.conjI a b).check)]
  | .rewrThm r s => s.lines ++ [(match r with
      | .conj => "encode_conj" | .disj => "encode_disj" | .imp => "encode_imp" | .eq => "encode_eq"
      | .not => "encode_not" | .eqTrue => "eq_true" | .eqFalse => "eq_false", (Prf.rewrThm r s).check)]
  | .conjNorm t s => s.lines ++ [("conj_norm", (Prf.conjNorm t s).check)]

/-- `encode`'s proof for the numbering the harness recorded (`tseitinOrd`'s choice of order and
names) and the final conjunction the real run stated -/
def encodeScript (f : Form) (extra : List Nat) (o : List Form) (tgt : Form) : Option Prf :=
  match pickOrder f o with
  | some order => some (encodePrf (freshNames (f.names ++ extra) order.length) order f tgt)
  | none => none

end Holpy.C15
