import Holpy.C15.Model
namespace Holpy.C15
end Holpy.C15
