import Holpy.C15.Model
import Holpy.C15.Proofs.Basic
import Holpy.C15.Proofs.Trace
/-! C15 helper lemmas; the parts live in `Holpy/C15/Proofs/*.lean`. -/
