import Holpy.C15.Model
import Holpy.C15.Proofs.Basic
import Holpy.C15.Proofs.Trace
import Holpy.C15.Proofs.Replay
import Holpy.C15.Proofs.ZChaff
import Holpy.C15.Proofs.Trail
import Holpy.C15.Proofs.Analyze
import Holpy.C15.Proofs.NoCrash
import Holpy.C15.Proofs.TraceInv
import Holpy.C15.Proofs.Fuel
import Holpy.C15.Proofs.Terminate
import Holpy.C15.Proofs.ListLemmas
import Holpy.C15.Proofs.TrailOrd
import Holpy.C15.Proofs.AnalyzeTerm
import Holpy.C15.Proofs.TermBase
import Holpy.C15.Proofs.Backjump
import Holpy.C15.Proofs.Rank
import Holpy.C15.Proofs.MainTerm
import Holpy.C15.Proofs.ReplayComplete
import Holpy.C15.Proofs.MainLoop
import Holpy.C15.Proofs.Solver
import Holpy.C15.Proofs.Tseitin
import Holpy.C15.Proofs.TseitinRewrite
import Holpy.C15.Proofs.TseitinMain
import Holpy.C15.Proofs.TseitinSequent
import Holpy.C15.Proofs.TseitinInst
/-! C15 helper lemmas; the parts live in `Holpy/C15/Proofs/*.lean`:
`Basic` (membership in `dedup`/`resolution` results), `Trace` (the trace checker is sound),
`Trail` (invariant of `assigns`, `unit_propagate`), `Analyze` (`analyze_conflict`), `NoCrash` (its assertion and `backtrack`'s indexing never fail),
`TraceInv` (invariant of `proofs`), `MainLoop`, `Solver` (`solve_cnf`), `Tseitin` (clause semantics, fresh names), `TseitinRewrite` (the rewriting passes), `TseitinMain`. -/
