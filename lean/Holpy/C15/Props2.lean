import Holpy.C15.Model
import Holpy.C15.Gen
import Holpy.C15.Proofs
import Holpy.C15.Props
/-
C15 — property theorems, second file: the statement of `tseitin.encode`'s theorem, the replay of
resolution traces by `logic.resolution` (zChaff / proofrec), termination of `solve_cnf`.
-/
namespace Holpy.C15

/-! ### the theorem `tseitin.encode` returns -/

/-- The conclusion of `encode`'s theorem is exactly the model's clause set: for a usable subterm
order the rewriting passes end in the single variable of `f`, so the stated CNF is the rules'
clauses of every subterm plus that variable's unit clause, under the fresh names. -/
theorem encode_statement_eq_model {f : Form} (extra : List Nat) {o : List Form}
    (h : orderOK o f = true) :
    tseitinOrd f extra o = some
      (o.flatMap (clausesOf (freshNames (f.names ++ extra) o.length) o) ++
        [[(varOf (freshNames (f.names ++ extra) o.length) o f, true)]]) :=
  (tseitinOrd_eq (extra := extra) (by simp [pickOrder, h] : pickOrder f o = some o)).1

/-- The sequent `x₁ ⟷ …, …, xₙ ⟷ …, f ⊢ CNF` that `encode` claims is valid: every assignment (of
the one name space) satisfying all hypotheses satisfies every clause. -/
theorem encode_sequent_valid {f : Form} {extra : List Nat} {o : List Form} {cnf : CNF}
    {hs : List Form} (h1 : tseitinOrd f extra o = some cnf) (h2 : tseitinHyps f extra o = some hs)
    (τ : Nat → Bool) (h : ∀ t ∈ hs, Form.eval τ t = true) : Sat τ cnf :=
  tseitin_sequent_valid' h1 h2 τ h

/-- `a ∧ ¬x1`: hypotheses `x2 ⟷ a`, `x3 ⟷ x1`, `x4 ⟷ ¬x3`, `x5 ⟷ x2 ∧ x4` and the formula -/
example : tseitinHyps clashForm [] [] = some
    [.iff (.atom 4) (.atom 1), .iff (.atom 6) (.atom 2), .iff (.atom 8) (.not (.atom 6)),
     .iff (.atom 10) (.and (.atom 4) (.atom 8)), clashForm] := by decide
example : ∃ cnf, tseitinOrd clashForm [] [] = some cnf ∧
    Sat (fun n => n == 1 || n == 4 || n == 8 || n == 10) cnf := by
  have h1 : tseitinOrd clashForm [] [] = some
      [[(8, true), (6, true)], [(8, false), (6, false)], [(10, false), (4, true)],
       [(10, false), (8, true)], [(4, false), (8, false), (10, true)], [(10, true)]] := by decide
  have h2 : tseitinHyps clashForm [] [] = some
      [.iff (.atom 4) (.atom 1), .iff (.atom 6) (.atom 2), .iff (.atom 8) (.not (.atom 6)),
       .iff (.atom 10) (.and (.atom 4) (.atom 8)), clashForm] := by decide
  exact ⟨_, h1, encode_sequent_valid h1 h2 _ (by decide)⟩

/-- The CNF `encode` states is what its theorem instances produce: one instance of
`encode_not/conj/disj/imp/eq` (or `eq_true` / `eq_false`) per non-atomic subterm, with the
subterm's and its arguments' variables substituted, each contributing the right-hand side of the
rule as `library/sat.json` states it — plus the top variable's unit clause.  (These instances are
what the harness reads off the `theorem` + `substitution` lines of the real exported proof term and
compares with the model; the proof term itself — about 100 primitive steps and the macros
`imp_conj`, `apply_theorem` per formula — is not replayed on the kernel model.) -/
theorem encode_instances_cover {f : Form} (extra : List Nat) {o : List Form}
    (h : orderOK o f = true) :
    tseitinOrd f extra o = some
      ((o.filterMap (ruleInstance (freshNames (f.names ++ extra) o.length) o)).flatMap
          instanceClauses ++ [[(varOf (freshNames (f.names ++ extra) o.length) o f, true)]]) :=
  tseitinOrd_eq_instances extra h

/-- `a ∧ ¬x1`: two instances, `encode_not[l := x4, r := x3]` and `encode_conj[l := x5, r1 := x2, r2 := x4]` -/
example : (dedupF clashForm.subs).filterMap
    (ruleInstance (freshNames clashForm.names 4) (dedupF clashForm.subs)) =
    [(.encode_not, [8, 6]), (.encode_conj, [10, 4, 8])] := by decide

/-! ### replay of resolution traces by `logic.resolution` (zChaff.solve, proofrec.solve_cnf) -/

/-- One `logic.resolution(pt1, pt2)` step derives a consequence: wherever both clauses hold, the
clause of the resulting theorem holds. -/
theorem macro_resolve_sound {c d r : Clause} {σ : Nat → Bool} (h : macroResolve c d = some r)
    (hc : ∃ l ∈ c, σ l.1 = l.2) (hd : ∃ l ∈ d, σ l.1 = l.2) : ∃ l ∈ r, σ l.1 = l.2 :=
  macroResolve_entails h hc hd

example : macroResolve [(0, true), (1, true), (0, true)] [(2, true), (0, false)] =
    some [(1, true), (2, true)] := by decide

/-- The replay loop (one `Resolvent` line / proof list after the other, each folded with
`logic.resolution`, the result appended): the clause list only grows, and every clause in it —
every replayed resolvent — is entailed by the clauses the replay started from. -/
theorem replay_sound {cnf c' : CNF} {ps : List (List Nat)} (h : zReplay cnf ps = some c') :
    (∃ ext, c' = cnf ++ ext) ∧ ∀ d ∈ c', ∀ σ, Sat σ cnf → ∃ l ∈ d, σ l.1 = l.2 :=
  zReplay_entailed cnf ps cnf c' (fun d hd σ hσ => hσ d hd) h

/-- ... so a replay that reaches the empty clause (`contra_pt.prop == false`) shows that the
starting clauses are unsatisfiable. -/
theorem replay_empty_unsat {cnf : CNF} {ps : List (List Nat)} (h : proofrecCheck cnf ps = true) :
    ¬ ∃ σ, Sat σ cnf := by
  unfold proofrecCheck at h
  split at h
  · rename_i c hc
    obtain ⟨ys, rfl⟩ := List.getLast?_eq_some_iff.mp (by simpa using h)
    exact zReplay_unsat hc (by simp)
  · cases h

/-- the trace our own solver gives for `exUnsat`, replayed the way `proofrec.solve_cnf` does -/
example : zReplay exUnsat [[3, 1], [2, 4, 0, 4]] = some (exUnsat ++ [[(0, false)], []]) := by decide
example : ¬ ∃ σ, Sat σ exUnsat :=
  replay_empty_unsat (ps := [[3, 1], [2, 4, 0, 4]]) (by decide)

/-- The traces of `solve_cnf` are replayable by `logic.resolution`: replaying the returned proofs on
the (de-duplicated) input the way `proofrec.solve_cnf` and `zChaff.solve` do ends in the empty
clause, so `assert contra_pt.prop == false` cannot fail.  (Wherever the verified checker's step
applies, the macro computes the same clause: `macroResolve_of_resolveStep`.) -/
theorem solver_trace_replays {fuel : Nat} {cnf : CNF} {o : Oracle} {c' : CNF}
    {ps : List (Nat × List Nat)} (h : solveCnf fuel cnf o = .unsat c' ps) :
    proofrecCheck (cnf.map dedup) (ps.map (·.2)) = true :=
  proofrecCheck_of_checkProofs (proofs_valid h)

example : proofrecCheck (exUnsat.map dedup) [[3, 1], [2, 4, 0, 4]] = true :=
  solver_trace_replays exUnsat_run

/-- `zChaff.solve` end to end, from the content of the trace file (the whitespace-separated tokens
of its lines, numbers already read): if the lines parse, the `CL` lines replay with `logic.resolution`, every `VAR` line
follows from its antecedent clause and the values recorded before (in level order), and the `CONF`
clause is falsified by recorded values — i.e. if the reconstruction reaches `false` — then the CNF
is unsatisfiable. -/
theorem zchaff_replay_sound {cnf : CNF} {lines : List (List ZTok)}
    (h : zCheckLines cnf lines = true) : ¬ ∃ σ, Sat σ cnf :=
  zCheckLines_sound h

/-- `(a) (¬a ∨ b) (¬b)`: no learned clause, two implications, conflict in clause 2 -/
example : zCheckLines [[(1, true)], [(1, false), (2, true)], [(2, false)]]
    [[.word "VAR:", .num 1, .word "L:", .num 0, .word "V:", .num 1, .word "A:", .num 0, .word "Lits:", .num 2],
     [.word "VAR:", .num 2, .word "L:", .num 0, .word "V:", .num 1, .word "A:", .num 1, .word "Lits:", .num 3, .num 4],
     [.word "CONF:", .num 2, .word "==", .num 5]] = true := by decide
example : ¬ ∃ σ, Sat σ [[(1, true)], [(1, false), (2, true)], [(2, false)]] :=
  zchaff_replay_sound (lines := [[.word "VAR:", .num 1, .word "L:", .num 0, .word "V:", .num 1, .word "A:", .num 0, .word "Lits:", .num 2],
     [.word "VAR:", .num 2, .word "L:", .num 0, .word "V:", .num 1, .word "A:", .num 1, .word "Lits:", .num 3, .num 4],
     [.word "CONF:", .num 2, .word "==", .num 5]]) (by decide)
/-- a trace whose second implication cites the wrong clause is rejected -/
example : zCheckLines [[(1, true)], [(1, false), (2, true)], [(2, false)]]
    [[.word "VAR:", .num 1, .word "L:", .num 0, .word "V:", .num 1, .word "A:", .num 0, .word "Lits:", .num 2],
     [.word "VAR:", .num 2, .word "L:", .num 0, .word "V:", .num 1, .word "A:", .num 2, .word "Lits:", .num 3, .num 4],
     [.word "CONF:", .num 2, .word "==", .num 5]] = false := by decide

/-! ### termination -/

/-- The `while True` of `analyze_conflict` ends.  In a state satisfying the trail invariants
(`TrailOK`: reasons are unit under the earlier trail; `TrailOrd`: the other literals of a reason
were assigned before the propagated one; clauses repeat no literal), started on a clause all of
whose literals are false, `2^(trail length)` rounds are enough: the measure
`Σ_{literals} 2^(trail position of the variable)` goes down in every resolution step, although a
variable resolved away can come back. -/
theorem analyze_terminates {cnf : CNF} {tr : Trail} {level : Nat} (ht : TrailOK cnf tr level)
    (ho : TrailOrd cnf tr) (hnd : ∀ c ∈ cnf, c.Nodup) {af : Nat} (haf : 2 ^ tr.length ≤ af)
    (proof : List Nat) {clause : Clause} (orc : List Clause) (hf : AllFalse tr clause)
    (hc : clause.Nodup) : ∃ res, analyze af cnf tr proof clause orc = .ok res :=
  analyze_terminates' ht ho hnd haf proof orc hf hc

/-- `x` propagated from clause 0, conflict in clause 1: one resolution, `2^1` rounds suffice -/
example : analyze 2 [[(0, true)], [(0, false)]] [⟨0, true, false, 0, 0⟩] [1] [(0, false)] []
    = .ok ([1, 0], [], []) := by rfl

/-- `solve_cnf` TERMINATES: for every CNF and every set order, `termFuel n = n·(n+1)^n + 2^n + 1`
rounds (`n` = number of variables) are enough — with that much fuel the model never answers an
error, so it answers `sat` or `unsat`.  The invariants: one decision per level, no clause is
all-false under the trail cut at a lower level, clauses repeat no literal, the learned clause
consists of negated decisions of distinct levels and is unit after the backjump; the measure
`Σ_{entries} (n+1)^(n − level)` rises in every round (`decide_step`, `backjump_step`). -/
theorem solve_terminates {fuel : Nat} {cnf : CNF} {o : Oracle}
    (h : termFuel (varsOf (cnf.map dedup)).length ≤ fuel) : ∀ e, solveCnf fuel cnf o ≠ .error e :=
  solveCnf_terminates h

example : termFuel (varsOf (exUnsat.map dedup)).length = 23 := by decide
example : ∀ e, solveCnf 100 exUnsat ⟨[0,1],[]⟩ ≠ .error e := solve_terminates (by decide)

/-- Total correctness of `solve_cnf`: with `termFuel n` rounds the answer is `satisfiable` with
an assignment satisfying every clause, or `unsatisfiable` with proofs that pass the verified
checker, and then no assignment satisfies the input. -/
theorem total_correctness {fuel : Nat} {cnf : CNF} {o : Oracle}
    (h : termFuel (varsOf (cnf.map dedup)).length ≤ fuel) :
    (∃ a, solveCnf fuel cnf o = .sat a ∧ isSolution cnf a = true) ∨
    (∃ c' ps, solveCnf fuel cnf o = .unsat c' ps ∧ checkProofs cnf ps = true ∧ ¬ ∃ σ, Sat σ cnf) := by
  cases hr : solveCnf fuel cnf o with
  | sat a => exact Or.inl ⟨a, rfl, sat_sound hr⟩
  | unsat c' ps => exact Or.inr ⟨c', ps, rfl, proofs_valid hr, unsat_sound hr⟩
  | error e => exact absurd hr (solve_terminates h e)

example : (∃ a, solveCnf 300 exSat ⟨[2,1,0],[]⟩ = .sat a ∧ isSolution exSat a = true) ∨
    (∃ c' ps, solveCnf 300 exSat ⟨[2,1,0],[]⟩ = .unsat c' ps ∧ checkProofs exSat ps = true ∧
      ¬ ∃ σ, Sat σ exSat) := total_correctness (by decide)

/-- A sharper bound on the path without learning: on every run that learns no non-empty clause
(`noLearnRun`), `#variables + 1` rounds are enough. -/
theorem solve_terminates_no_learning {fuel : Nat} {cnf : CNF} {o : Oracle}
    (hnl : noLearnRun fuel cnf o = true) (hfuel : (varsOf (cnf.map dedup)).length < fuel) :
    ∀ e, solveCnf fuel cnf o ≠ .error e :=
  solveCnf_noLearn_terminates hnl hfuel

example : noLearnRun 4 exSat ⟨[2,1,0],[]⟩ = true := by rfl
example : ∀ e, solveCnf 4 exSat ⟨[2,1,0],[]⟩ ≠ .error e :=
  solve_terminates_no_learning (by rfl) (by decide)
example : noLearnRun 100 exUnsat ⟨[0,1],[]⟩ = false := by rfl

end Holpy.C15
