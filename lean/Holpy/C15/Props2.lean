import Holpy.C15.Model
import Holpy.C15.Gen
import Holpy.C15.Proofs
import Holpy.C15.Props
/-
C15 — property theorems, second file: the statement of `tseitin.encode`'s theorem, the replay of
resolution traces by `logic.resolution` (zChaff / proofrec), termination of `solve_cnf`.
-/
namespace Holpy.C15

/-! ### the theorem `tseitin.encode` returns -/

/-- The conclusion of `encode`'s theorem is exactly the model's clause set: for a usable subterm
order the rewriting passes end in the single variable of `f`, so the stated CNF is the rules'
clauses of every subterm plus that variable's unit clause, under the fresh names. -/
theorem encode_statement_eq_model {f : Form} (extra : List Nat) {o : List Form}
    (h : orderOK o f = true) :
    tseitinOrd f extra o = some
      (o.flatMap (clausesOf (freshNames (f.names ++ extra) o.length) o) ++
        [[(varOf (freshNames (f.names ++ extra) o.length) o f, true)]]) :=
  (tseitinOrd_eq (extra := extra) (by simp [pickOrder, h] : pickOrder f o = some o)).1

/-- The sequent `x₁ ⟷ …, …, xₙ ⟷ …, f ⊢ CNF` that `encode` claims is valid: every assignment (of
the one name space) satisfying all hypotheses satisfies every clause. -/
theorem encode_sequent_valid {f : Form} {extra : List Nat} {o : List Form} {cnf : CNF}
    {hs : List Form} (h1 : tseitinOrd f extra o = some cnf) (h2 : tseitinHyps f extra o = some hs)
    (τ : Nat → Bool) (h : ∀ t ∈ hs, Form.eval τ t = true) : Sat τ cnf :=
  tseitin_sequent_valid' h1 h2 τ h

/-- `a ∧ ¬x1`: hypotheses `x2 ⟷ a`, `x3 ⟷ x1`, `x4 ⟷ ¬x3`, `x5 ⟷ x2 ∧ x4` and the formula -/
example : tseitinHyps clashForm [] [] = some
    [.iff (.atom 4) (.atom 1), .iff (.atom 6) (.atom 2), .iff (.atom 8) (.not (.atom 6)),
     .iff (.atom 10) (.and (.atom 4) (.atom 8)), clashForm] := by decide
example : ∃ cnf, tseitinOrd clashForm [] [] = some cnf ∧
    Sat (fun n => n == 1 || n == 4 || n == 8 || n == 10) cnf := by
  have h1 : tseitinOrd clashForm [] [] = some
      [[(8, true), (6, true)], [(8, false), (6, false)], [(10, false), (4, true)],
       [(10, false), (8, true)], [(4, false), (8, false), (10, true)], [(10, true)]] := by decide
  have h2 : tseitinHyps clashForm [] [] = some
      [.iff (.atom 4) (.atom 1), .iff (.atom 6) (.atom 2), .iff (.atom 8) (.not (.atom 6)),
       .iff (.atom 10) (.and (.atom 4) (.atom 8)), clashForm] := by decide
  exact ⟨_, h1, encode_sequent_valid h1 h2 _ (by decide)⟩

end Holpy.C15
