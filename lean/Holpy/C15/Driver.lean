import Holpy.Common.Sexp
import Holpy.C15.Model
import Holpy.C15.Script
/-
Line protocol for the C15 model (one s-expression in, one out):
  (solve FUEL CNF VARS RES)     -> (sat ASG) | (unsat CNF PROOFS) | (error KIND)
  (nolearn FUEL CNF VARS RES)   -> T | F             (the run learns no non-empty clause)
  (issol CNF ASG)               -> T | F
  (resolve C1 C2 NAME)          -> CLAUSE            (canonical order)
  (checktrace CNF N0 PROOFS)    -> T | F
  (checkproofs CNF PROOFS)      -> T | F             (CNF = the input; learned clauses are rebuilt)
  (tseitin FORM (n ...) (FORM ...)) -> CNF | none   (extra used names; the subterm numbering)
  (zcheck CNF ((tok ...) ...))  -> T | F             (zChaff trace given as the tokens of its lines)
  (macro-resolve C1 C2)         -> CLAUSE | none     (logic.resolution on two clauses)
  (zreplay CNF ((i ...) ...))   -> CNF | none        (replay loop of zChaff.solve / proofrec.solve_cnf)
  (tseitin-hyps FORM (n ...) (FORM ...)) -> (FORM ...) | none   (hypotheses of encode's theorem)
  (tseitin-unfixed FORM (FORM ...)) -> CNF | none   (naming x1..xn regardless of the formula)
  (tseitin-script FORM (n ...) (FORM ...) TGT) -> ((rule (FORM ...) FORM) | (rule none) ...) | none   (lines of encode's proof script, checked)
FORM = (atom n) | tt | ff | (not F) | (and F F) | (or F F) | (imp F F) | (iff F F)
CNF = (CLAUSE ...), CLAUSE = ((name T|F) ...), ASG = ((name T|F) ...), PROOFS = ((id (i ...)) ...)
-/
open Holpy Holpy.C15

namespace Holpy.C15.Driver

def litOf : Sexp → Option Lit
  | .list [n, b] => do some ((← n.toNat?), (← b.toBool?))
  | _ => none

def clauseOf (s : Sexp) : Option Clause := do (← s.toList?).mapM litOf
def cnfOf (s : Sexp) : Option CNF := do (← s.toList?).mapM clauseOf
def natsOf (s : Sexp) : Option (List Nat) := do (← s.toList?).mapM Sexp.toNat?
def proofsOf (s : Sexp) : Option (List (Nat × List Nat)) := do
  (← s.toList?).mapM fun
    | .list [i, p] => do some ((← i.toNat?), (← natsOf p))
    | _ => none

partial def formOf : Sexp → Option Form
  | .list [.atom "atom", n] => do some (.atom (← n.toNat?))
  | .atom "tt" => some .tt
  | .atom "ff" => some .ff
  | .list [.atom "not", a] => do some (.not (← formOf a))
  | .list [.atom "and", a, b] => do some (.and (← formOf a) (← formOf b))
  | .list [.atom "or", a, b] => do some (.or (← formOf a) (← formOf b))
  | .list [.atom "imp", a, b] => do some (.imp (← formOf a) (← formOf b))
  | .list [.atom "iff", a, b] => do some (.iff (← formOf a) (← formOf b))
  | _ => none

def formTo : Form → Sexp
  | .atom n => .list [.atom "atom", Sexp.ofNat n]
  | .tt => .atom "tt"
  | .ff => .atom "ff"
  | .not a => .list [.atom "not", formTo a]
  | .and a b => .list [.atom "and", formTo a, formTo b]
  | .or a b => .list [.atom "or", formTo a, formTo b]
  | .imp a b => .list [.atom "imp", formTo a, formTo b]
  | .iff a b => .list [.atom "iff", formTo a, formTo b]

def litTo (l : Lit) : Sexp := .list [Sexp.ofNat l.1, Sexp.ofBool l.2]
def clauseTo (c : Clause) : Sexp := .list (c.map litTo)
def cnfTo (c : CNF) : Sexp := .list (c.map clauseTo)

def errTo : Err → String
  | .assertion => "assertion"
  | .index => "index"
  | .outOfFuel => "fuel"
  | .propFuel => "prop-fuel"

def handle (line : String) : String :=
  match Sexp.parse line with
  | some (.list [.atom "solve", fuel, cnf, vars, res]) =>
    match fuel.toNat?, cnfOf cnf, natsOf vars, cnfOf res with
    | some f, some c, some v, some r =>
      match solveCnf f c ⟨v, r⟩ with
      | .sat a => toString (Sexp.list [.atom "sat", clauseTo a])
      | .unsat c' ps => toString (Sexp.list [.atom "unsat", cnfTo c',
          .list (ps.map fun p => .list [Sexp.ofNat p.1, .list (p.2.map Sexp.ofNat)])])
      | .error e => toString (Sexp.list [.atom "error", .atom (errTo e)])
    | _, _, _, _ => "bad-op"
  | some (.list [.atom "nolearn", fuel, cnf, vars, res]) =>
    match fuel.toNat?, cnfOf cnf, natsOf vars, cnfOf res with
    | some f, some c, some v, some r => toString (Sexp.ofBool (noLearnRun f c ⟨v, r⟩))
    | _, _, _, _ => "bad-op"
  | some (.list [.atom "issol", cnf, asg]) =>
    match cnfOf cnf, clauseOf asg with
    | some c, some a => toString (Sexp.ofBool (isSolution c a))
    | _, _ => "bad-op"
  | some (.list [.atom "resolve", c1, c2, n]) =>
    match clauseOf c1, clauseOf c2, n.toNat? with
    | some a, some b, some k => toString (clauseTo (resolveCanon a b k))
    | _, _, _ => "bad-op"
  | some (.list [.atom "checktrace", cnf, n0, ps]) =>
    match cnfOf cnf, n0.toNat?, proofsOf ps with
    | some c, some n, some p => toString (Sexp.ofBool (checkTrace c n p))
    | _, _, _ => "bad-op"
  | some (.list [.atom "checkproofs", cnf, ps]) =>
    match cnfOf cnf, proofsOf ps with
    | some c, some p => toString (Sexp.ofBool (checkProofs c p))
    | _, _ => "bad-op"
  | some (.list [.atom "tseitin", f, extra, order]) =>
    match formOf f, natsOf extra, (do (← order.toList?).mapM formOf) with
    | some f, some e, some o =>
      match tseitinOrd f e o with
      | some c => toString (cnfTo c)
      | none => "none"
    | _, _, _ => "bad-op"
  | some (.list [.atom "zcheck", cnf, lines]) =>
    match cnfOf cnf, (do (← lines.toList?).mapM (fun l => do (← l.toList?).mapM (fun t =>
        match t with
        | .atom a => some (match a.toNat? with | some n => ZTok.num n | none => ZTok.word a)
        | _ => none))) with
    | some c, some ls => toString (Sexp.ofBool (zCheckLines c ls))
    | _, _ => "bad-op"
  | some (.list [.atom "macro-resolve", c1, c2]) =>
    match clauseOf c1, clauseOf c2 with
    | some a, some b =>
      match macroResolve a b with
      | some r => toString (clauseTo r)
      | none => "none"
    | _, _ => "bad-op"
  | some (.list [.atom "zreplay", cnf, ps]) =>
    match cnfOf cnf, (do (← ps.toList?).mapM natsOf) with
    | some c, some p =>
      match zReplay c p with
      | some r => toString (cnfTo r)
      | none => "none"
    | _, _ => "bad-op"
  | some (.list [.atom "tseitin-hyps", f, extra, order]) =>
    match formOf f, natsOf extra, (do (← order.toList?).mapM formOf) with
    | some f, some e, some o =>
      match tseitinHyps f e o with
      | some hs => toString (Sexp.list (hs.map formTo))
      | none => "none"
    | _, _, _ => "bad-op"
  | some (.list [.atom "tseitin-script", f, extra, order, tgt]) =>
    match formOf f, natsOf extra, (do (← order.toList?).mapM formOf), formOf tgt with
    | some f, some e, some o, some t =>
      match encodeScript f e o t with
      | some p => toString (Sexp.list (p.lines.map fun (r, s) =>
          match s with
          | some (hs, c) => Sexp.list [.atom r, .list (hs.map formTo), formTo c]
          | none => Sexp.list [.atom r, .atom "none"]))
      | none => "none"
    | _, _, _, _ => "bad-op"
  | some (.list [.atom "tseitin-unfixed", f, order]) =>
    match formOf f, (do (← order.toList?).mapM formOf) with
    | some f, some o =>
      match tseitinUnfixed f o with
      | some c => toString (cnfTo c)
      | none => "none"
    | _, _ => "bad-op"
  | _ => "bad-op"

end Holpy.C15.Driver

def main : IO Unit := Holpy.lineLoop Holpy.C15.Driver.handle
