import Holpy.C15.Model
import Holpy.C15.Proofs.Replay
namespace Holpy.C15

/-! ### the VAR / CONF sections of a zChaff trace -/

/-- every recorded value holds in every model of `base` -/
def KnownOK (base : CNF) (known : List Lit) : Prop := ∀ l ∈ known, ∀ σ, Sat σ base → σ l.1 = l.2

theorem knownLit_mem {known : List Lit} {x : Nat} {k : Lit} (h : knownLit known x = some k) :
    k ∈ known := by
  unfold knownLit at h
  exact List.mem_reverse.mp (List.mem_of_find?_eq_some h)

theorem lookupAll_mem {known : List Lit} : ∀ {xs : List Nat} {ks : List Lit},
    lookupAll known xs = some ks → ∀ k ∈ ks, k ∈ known := by
  intro xs
  induction xs with
  | nil => intro ks h k hk; simp only [lookupAll, Option.some.injEq] at h; subst h; cases hk
  | cons x rest ih =>
    intro ks h k hk
    unfold lookupAll at h
    split at h
    · rename_i k0 ks0 h1 h2
      simp only [Option.some.injEq] at h; subst h
      rcases List.mem_cons.mp hk with rfl | hk
      · exact knownLit_mem h1
      · exact ih h2 k hk
    · cases h

theorem zImply_sound {base cnf : CNF} (hcnf : ∀ d ∈ cnf, Entailed base d) {known : List Lit}
    (hk : KnownOK base known) {v : Nat} {value : Bool} {ante : Nat} {lits : List Nat} {g : Lit}
    (h : zImply cnf known v value ante lits = some g) : ∀ σ, Sat σ base → σ g.1 = g.2 := by
  unfold zImply at h
  split at h
  · cases h
  · rename_i c hc
    dsimp only at h
    split at h
    · cases h
    · rename_i ks hks
      intro σ hσ
      obtain ⟨x, hx, sx⟩ := hcnf c (List.mem_iff_getElem?.mpr ⟨_, hc⟩) σ hσ
      split at h
      · split at h
        · rename_i hall
          simp only [Option.some.injEq] at h; subst h
          simp only [Bool.and_eq_true, List.all_eq_true, beq_iff_eq] at hall
          rw [← hall.1 x hx]; exact sx
        · cases h
      · split at h
        · rename_i hall
          simp only [Option.some.injEq] at h; subst h
          simp only [Bool.and_eq_true, List.all_eq_true, List.contains_iff_mem] at hall
          have hm := hall.1 x hx
          rcases List.mem_cons.mp hm with e | hm
          · rw [← e]; exact sx
          · exfalso
            obtain ⟨k, hkm, rfl⟩ := List.mem_map.mp hm
            have := hk k (lookupAll_mem hks k hkm) σ hσ
            simp only at sx
            rw [this] at sx
            cases hb : k.2 <;> simp [hb] at sx
        · cases h

theorem zImplyAll_sound {base cnf : CNF} (hcnf : ∀ d ∈ cnf, Entailed base d) :
    ∀ (vars : List ZLine) (known known' : List Lit), KnownOK base known →
      zImplyAll cnf vars known = some known' → KnownOK base known' := by
  intro vars
  induction vars with
  | nil => intro known known' hk h; simp only [zImplyAll, Option.some.injEq] at h; subst h; exact hk
  | cons x rest ih =>
    intro known known' hk h
    cases x with
    | cl _ _ => simp [zImplyAll] at h
    | conf _ _ => simp [zImplyAll] at h
    | var v lvl value ante lits =>
      unfold zImplyAll at h
      split at h
      · rename_i g hg
        refine ih _ _ ?_ h
        intro l hl
        rcases List.mem_append.mp hl with hl | hl
        · exact hk l hl
        · simp only [List.mem_singleton] at hl; subst hl
          exact zImply_sound hcnf hk hg
      · cases h

theorem zConflict_sound {base cnf : CNF} (hcnf : ∀ d ∈ cnf, Entailed base d) {known : List Lit}
    (hk : KnownOK base known) {cls : Nat} {lits : List Nat}
    (h : zConflict cnf known cls lits = true) : ¬ ∃ σ, Sat σ base := by
  rintro ⟨σ, hσ⟩
  unfold zConflict at h
  split at h
  · rename_i c ks hc hks
    obtain ⟨x, hx, sx⟩ := hcnf c (List.mem_iff_getElem?.mpr ⟨_, hc⟩) σ hσ
    simp only [List.all_eq_true, List.contains_iff_mem] at h
    have := hk _ (lookupAll_mem hks _ (h x hx)) σ hσ
    simp only at this
    rw [sx] at this
    cases hb : x.2 <;> simp [hb] at this
  · cases h

/-- If the refutation read off a zChaff trace goes through — the `CL` lines replay, the `VAR`
lines follow by unit propagation, the `CONF` clause is falsified — the CNF has no model. -/
theorem zCheck_sound {cnf : CNF} {trace : List ZLine} (h : zCheck cnf trace = true) :
    ¬ ∃ σ, Sat σ cnf := by
  unfold zCheck at h
  dsimp only at h
  split at h
  · rename_i c' cl lits rest hrep hconf
    split at h
    · rename_i known hknown
      have hent := (zReplay_entailed cnf _ cnf c' (fun d hd σ hσ => hσ d hd) hrep).2
      have hk := zImplyAll_sound hent _ [] known (fun l hl => by cases hl) hknown
      exact zConflict_sound hent hk h
    · cases h
  · cases h

theorem zCheckLines_sound {cnf : CNF} {lines : List (List ZTok)}
    (h : zCheckLines cnf lines = true) : ¬ ∃ σ, Sat σ cnf := by
  unfold zCheckLines at h
  split at h
  · exact zCheck_sound h
  · cases h

end Holpy.C15
