import Holpy.C15.Model
import Holpy.C15.Gen
import Holpy.C15.Proofs.TseitinMain
namespace Holpy.C15

/-! ### the library theorems `encode`'s proof term instantiates -/

/-- the theorems `tseitin.encode` rewrites an equation with -/
inductive RuleName where
  | encode_not | encode_conj | encode_disj | encode_imp | encode_eq | eq_true | eq_false
  deriving DecidableEq, Repr

/-- the instance used for the equation of the subterm `g`: theorem and the variables substituted
for its schematic variables (`l, r` / `l, r1, r2` / `A`), none for an atom -/
def ruleInstance (names : List Nat) (order : List Form) (g : Form) : Option (RuleName × List Nat) :=
  let v := varOf names order
  match g with
  | .atom _ => none
  | .tt => some (.eq_true, [v g])
  | .ff => some (.eq_false, [v g])
  | .not a => some (.encode_not, [v g, v a])
  | .and a b => some (.encode_conj, [v g, v a, v b])
  | .or a b => some (.encode_disj, [v g, v a, v b])
  | .imp a b => some (.encode_imp, [v g, v a, v b])
  | .iff a b => some (.encode_eq, [v g, v a, v b])

/-- the clauses an instance rewrites its equation to: the right-hand side of the rule as
`library/sat.json` states it (Gen.lean), `x` / `¬x` for `eq_true` / `eq_false` -/
def instanceClauses : RuleName × List Nat → CNF
  | (.encode_not, [l, r]) => Gen.encode_not_cnf l r
  | (.encode_conj, [l, r1, r2]) => Gen.encode_conj_cnf l r1 r2
  | (.encode_disj, [l, r1, r2]) => Gen.encode_disj_cnf l r1 r2
  | (.encode_imp, [l, r1, r2]) => Gen.encode_imp_cnf l r1 r2
  | (.encode_eq, [l, r1, r2]) => Gen.encode_eq_cnf l r1 r2
  | (.eq_true, [x]) => [[(x, true)]]
  | (.eq_false, [x]) => [[(x, false)]]
  | _ => []

theorem clausesOf_eq_instance (names : List Nat) (order : List Form) (g : Form) :
    clausesOf names order g = ((ruleInstance names order g).toList).flatMap instanceClauses := by
  cases g <;> simp [clausesOf, ruleInstance, instanceClauses, clausesNot, clausesAnd, clausesOr,
    clausesImp, clausesIff, Gen.encode_not_cnf, Gen.encode_conj_cnf, Gen.encode_disj_cnf,
    Gen.encode_imp_cnf, Gen.encode_eq_cnf]

theorem flatMap_clausesOf_eq (names : List Nat) (order : List Form) : ∀ (l : List Form),
    l.flatMap (clausesOf names order) =
      (l.filterMap (ruleInstance names order)).flatMap instanceClauses := by
  intro l
  induction l with
  | nil => rfl
  | cons g rest ih =>
    rw [List.flatMap_cons, ih, clausesOf_eq_instance, List.filterMap_cons]
    cases ruleInstance names order g <;> simp

theorem tseitinOrd_eq_instances {f : Form} (extra : List Nat) {o : List Form}
    (h : orderOK o f = true) :
    tseitinOrd f extra o = some
      ((o.filterMap (ruleInstance (freshNames (f.names ++ extra) o.length) o)).flatMap
          instanceClauses ++ [[(varOf (freshNames (f.names ++ extra) o.length) o f, true)]]) := by
  rw [(tseitinOrd_eq (extra := extra) (by simp [pickOrder, h] : pickOrder f o = some o)).1,
    coreCNF, flatMap_clausesOf_eq]

end Holpy.C15
