import Holpy.C15.Model
import Holpy.C15.Proofs.Trail
namespace Holpy.C15

/-! ### the inner fuel of `unit_propagate` always suffices -/

theorem filter_length_le' {α} {p q : α → Bool} : ∀ (l : List α), (∀ x ∈ l, q x = true → p x = true) →
    (l.filter q).length ≤ (l.filter p).length := by
  intro l
  induction l with
  | nil => intro _; simp
  | cons y ys ih =>
    intro h
    have ih' := ih (fun x hx => h x (List.mem_cons_of_mem _ hx))
    simp only [List.filter_cons]
    by_cases hq : q y = true
    · have hp := h y List.mem_cons_self hq
      simp only [hq, hp, if_true, List.length_cons]; omega
    · simp only [hq, Bool.false_eq_true, if_false]
      by_cases hp : p y = true
      · rw [if_pos hp, List.length_cons]; omega
      · rw [if_neg hp]; omega

theorem filter_length_lt' {α} {p q : α → Bool} : ∀ (l : List α), (∀ x ∈ l, q x = true → p x = true) →
    (∃ x ∈ l, p x = true ∧ q x = false) → (l.filter q).length < (l.filter p).length := by
  intro l
  induction l with
  | nil => intro _ ⟨x, hx, _⟩; cases hx
  | cons y ys ih =>
    intro h ⟨x, hx, hpx, hqx⟩
    have hmono : ∀ x ∈ ys, q x = true → p x = true := fun x hx => h x (List.mem_cons_of_mem _ hx)
    simp only [List.filter_cons]
    rcases List.mem_cons.mp hx with rfl | hx'
    · have := filter_length_le' ys hmono
      simp only [hpx, hqx, if_true, Bool.false_eq_true, if_false, List.length_cons]; omega
    · have ih' := ih hmono ⟨x, hx', hpx, hqx⟩
      by_cases hq : q y = true
      · have hp := h y List.mem_cons_self hq
        simp only [hq, hp, if_true, List.length_cons]; omega
      · simp only [hq, Bool.false_eq_true, if_false]
        by_cases hp : p y = true
        · rw [if_pos hp, List.length_cons]; omega
        · rw [if_neg hp]; omega

/-- the variables of `vs` the trail leaves unassigned -/
def freeVars (vs : List Nat) (tr : Trail) : List Nat := vs.filter (fun v => (lookup tr v).isNone)

theorem lookup_append_none {tr : Trail} {a : Asg} {v : Nat} :
    (lookup (tr ++ [a]) v).isNone = ((lookup tr v).isNone && (a.name != v)) := by
  unfold lookup
  rw [List.find?_append]
  cases h : tr.find? (fun a => a.name == v) with
  | some b => rfl
  | none =>
    by_cases e : a.name = v <;> simp [e]

theorem freeVars_lt {vs : List Nat} {tr : Trail} {a : Asg} (hv : a.name ∈ vs)
    (hu : lookup tr a.name = none) : (freeVars vs (tr ++ [a])).length < (freeVars vs tr).length := by
  unfold freeVars
  apply filter_length_lt'
  · intro x _ hx
    rw [lookup_append_none] at hx
    simp only [Bool.and_eq_true] at hx
    exact hx.1
  · exact ⟨a.name, hv, by simp [hu], by rw [lookup_append_none]; simp⟩

theorem unitPropagate_fuel_suffices {vs : List Nat} {cnf : CNF}
    (hvs : ∀ c ∈ cnf, ∀ l ∈ c, l.1 ∈ vs) :
    ∀ (fuel : Nat) (tr : Trail) (level : Nat), (freeVars vs tr).length < fuel →
      (unitPropagate fuel cnf tr level).1 ≠ .outOfFuel := by
  intro fuel
  induction fuel with
  | zero => intro tr level h; omega
  | succ f ih =>
    intro tr level h
    unfold unitPropagate
    split
    · simp
    · rename_i cid l hs
      obtain ⟨c, _, hc, _, hu⟩ := scan_unit hs
      have hl : l ∈ unassigned tr c := by rw [hu]; exact List.mem_singleton.mpr rfl
      have hlc : l ∈ c := (List.mem_filter.mp hl).1
      have hlu : lookup tr l.1 = none := by
        simpa [litUnassigned] using (List.mem_filter.mp hl).2
      have hcm : c ∈ cnf := List.mem_iff_getElem?.mpr ⟨_, hc⟩
      have := freeVars_lt (vs := vs) (tr := tr) (a := ⟨l.1, l.2, false, level, cid⟩)
        (hvs c hcm l hlc) hlu
      exact ih _ _ (by omega)
    · rename_i hu hs
      cases hu <;> simp

theorem freeVars_le (vs : List Nat) (tr : Trail) : (freeVars vs tr).length ≤ vs.length :=
  List.length_filter_le _ _


theorem mem_foldl_dedupNat (c : List Nat) : ∀ (acc : List Nat) (v : Nat),
    v ∈ c.foldl (fun acc v => if acc.contains v then acc else acc ++ [v]) acc ↔ v ∈ acc ∨ v ∈ c := by
  induction c with
  | nil => simp
  | cons x xs ih =>
    intro acc v
    simp only [List.foldl_cons, ih, List.mem_cons]
    by_cases h : acc.contains x = true
    · simp only [h, if_true]
      have : x ∈ acc := List.contains_iff_mem.mp h
      constructor
      · rintro (h | h) <;> simp [h]
      · rintro (h | h | h) <;> simp_all
    · simp only [h]
      simp
      grind

theorem mem_varsOf {cnf : CNF} {c : Clause} {l : Lit} (hc : c ∈ cnf) (hl : l ∈ c) :
    l.1 ∈ varsOf cnf := by
  unfold varsOf
  rw [mem_foldl_dedupNat]
  right
  simp only [List.mem_flatMap, List.mem_map]
  exact ⟨c, hc, l, hl, rfl⟩

/-- every literal of the learned clause is a literal of some clause (of its variable, at least) -/
theorem analyze_vars {cnf : CNF} {tr : Trail} (P : Nat → Prop)
    (hcnf : ∀ c ∈ cnf, ∀ l ∈ c, P l.1) :
    ∀ (af : Nat) (proof : List Nat) (clause : Clause) (orc : List Clause)
      (proof' : List Nat) (clause' : Clause) (orc' : List Clause),
      analyze af cnf tr proof clause orc = .ok (proof', clause', orc') →
      (∀ l ∈ clause, P l.1) → ∀ l ∈ clause', P l.1 := by
  intro af
  induction af with
  | zero => intro proof clause orc proof' clause' orc' h; simp [analyze] at h
  | succ f ih =>
    intro proof clause orc proof' clause' orc' h hcl
    unfold analyze at h
    split at h
    · cases h
    · cases h; exact hcl
    · rename_i name r hp
      split at h
      · cases h
      · rename_i rc hrc
        refine ih _ _ _ _ _ _ h ?_
        intro l hl
        rcases (mem_resolveWith.mp hl).1 with h1 | h1
        · exact hcl l h1
        · exact hcnf rc (List.mem_iff_getElem?.mpr ⟨r, hrc⟩) l h1

end Holpy.C15
