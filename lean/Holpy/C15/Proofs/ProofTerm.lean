import Holpy.C15.Script
import Holpy.C15.Proofs.TseitinRewrite
import Holpy.C15.Proofs.TseitinMain
/-! the small proof system of `Script.lean` is sound; `encode`'s script checks -/
namespace Holpy.C15

theorem bconj (l a b : Bool) : ((!l || a) && ((!l || b) && (!a || (!b || l)))) = (l == (a && b)) := by
  cases l <;> cases a <;> cases b <;> rfl
theorem bdisj (l a b : Bool) : ((!l || (a || b)) && ((!a || l) && (!b || l))) = (l == (a || b)) := by
  cases l <;> cases a <;> cases b <;> rfl
theorem bimp (l a b : Bool) : ((!l || (!a || b)) && ((a || l) && (!b || l))) = (l == (!a || b)) := by
  cases l <;> cases a <;> cases b <;> rfl
theorem beq' (l a b : Bool) : ((!l || (!a || b)) && ((!l || (a || !b)) && ((l || (!a || !b)) && (l || (a || b))))) = (l == (a == b)) := by
  cases l <;> cases a <;> cases b <;> rfl
theorem bnot (l a : Bool) : ((l || a) && (!l || !a)) = (l == !a) := by
  cases l <;> cases a <;> rfl

theorem rewr_eval (r : Rule) (ρ : Nat → Bool) (t : Form) : (t.rewr r).eval ρ = t.eval ρ := by
  fun_induction Form.rewr r t <;>
    simp only [Form.eval, rhsConj, rhsDisj, rhsImp, rhsEq, rhsNot, bconj, bdisj, bimp, beq', bnot, *] <;>
    simp_all +zetaDelta [Form.eval]

theorem replace_eval {ρ : Nat → Bool} {pat : Form} {x : Nat} (h : ρ x = pat.eval ρ) (t : Form) :
    (t.replace pat x).eval ρ = t.eval ρ := by
  induction t with
  | atom n => rw [replace_eq]; split; (next hp => subst hp; simpa [Form.eval] using h); (next => simp_all [mapChildren, Form.eval])
  | tt => rw [replace_eq]; split; (next hp => subst hp; simpa [Form.eval] using h); (next => simp_all [mapChildren, Form.eval])
  | ff => rw [replace_eq]; split; (next hp => subst hp; simpa [Form.eval] using h); (next => simp_all [mapChildren, Form.eval])
  | not a iha => rw [replace_eq]; split; (next hp => subst hp; simpa [Form.eval] using h); (next => simp_all [mapChildren, Form.eval])
  | and a b iha ihb => rw [replace_eq]; split; (next hp => subst hp; simpa [Form.eval] using h); (next => simp_all [mapChildren, Form.eval])
  | or a b iha ihb => rw [replace_eq]; split; (next hp => subst hp; simpa [Form.eval] using h); (next => simp_all [mapChildren, Form.eval])
  | imp a b iha ihb => rw [replace_eq]; split; (next hp => subst hp; simpa [Form.eval] using h); (next => simp_all [mapChildren, Form.eval])
  | iff a b iha ihb => rw [replace_eq]; split; (next hp => subst hp; simpa [Form.eval] using h); (next => simp_all [mapChildren, Form.eval])

theorem conjuncts_eval (ρ : Nat → Bool) (t : Form) :
    t.eval ρ = t.conjuncts.all (fun c => c.eval ρ) := by
  induction t <;> simp_all [Form.conjuncts, Form.eval, List.all_append]

theorem mem_hunion {a b : List Form} {x : Form} : x ∈ hunion a b ↔ x ∈ a ∨ x ∈ b := by
  simp only [hunion, List.mem_append, List.mem_filter, Bool.not_eq_true', List.contains_iff_mem]
  by_cases hx : x ∈ a <;> simp [hx]

theorem sameConj_sound {a b : Form} (h : sameConj a b = true) (ρ : Nat → Bool)
    (ha : a.eval ρ = true) : b.eval ρ = true := by
  rw [conjuncts_eval] at ha ⊢
  simp only [sameConj, conjSet, Bool.and_eq_true, List.all_eq_true, List.contains_iff_mem,
    List.mem_filter, bne_iff_ne, ne_eq] at h ha ⊢
  intro c hc
  by_cases hct : c = .tt
  · subst hct; rfl
  · exact ha c (h.2 c ⟨hc, hct⟩).1

/-- soundness of the proof system -/
theorem check_sound : ∀ (p : Prf) {s : Sequent}, p.check = some s →
    ∀ ρ : Nat → Bool, (∀ h ∈ s.1, h.eval ρ = true) → s.2.eval ρ = true := by
  intro p
  induction p with
  | assume t =>
    intro s h ρ hh
    simp only [Prf.check, Option.some.injEq] at h
    subst h
    exact hh t (by simp)
  | rewrHypSym e src ihe ihs =>
    intro s h ρ hh
    simp only [Prf.check] at h
    split at h
    · rename_i he x rhs hs c hce hcs
      have h2 := ihs hcs ρ
      split at h
      · simp only [Option.some.injEq] at h; subst h; exact h2 hh
      · simp only [Option.some.injEq] at h; subst h
        have h1 := ihe hce ρ (fun t ht => hh t (mem_hunion.mpr (Or.inl ht)))
        have h3 := h2 (fun t ht => hh t (mem_hunion.mpr (Or.inr ht)))
        simp only [Form.eval, beq_iff_eq] at h1
        simpa [replace_eval h1] using h3
    · cases h
  | conjI a b iha ihb =>
    intro s h ρ hh
    simp only [Prf.check] at h
    split at h
    · rename_i ha ca hb cb hca hcb
      simp only [Option.some.injEq] at h; subst h
      have h1 := iha hca ρ (fun t ht => hh t (mem_hunion.mpr (Or.inl ht)))
      have h2 := ihb hcb ρ (fun t ht => hh t (mem_hunion.mpr (Or.inr ht)))
      simp_all [Form.eval]
    · cases h
  | rewrThm r src ih =>
    intro s h ρ hh
    simp only [Prf.check] at h
    split at h
    · rename_i hs c hc
      simp only [Option.some.injEq] at h; subst h
      simpa [rewr_eval] using ih hc ρ hh
    · cases h
  | conjNorm tgt src ih =>
    intro s h ρ hh
    simp only [Prf.check] at h
    split at h
    · rename_i hs c hc
      split at h
      · rename_i hsc
        simp only [Option.some.injEq] at h; subst h
        exact sameConj_sound hsc ρ (ih hc ρ hh)
      · cases h
    · cases h

end Holpy.C15
