import Holpy.C15.Model
import Holpy.C15.Proofs.AnalyzeTerm
import Holpy.C15.Proofs.Terminate
namespace Holpy.C15

/-! ### conflicts, scans and propagation (facts used by the termination proof) -/

/-- the clause is a conflict under the trail, as `unit_propagate` tests it -/
def Confl (tr : Trail) (c : Clause) : Prop := clauseSat tr c = false ∧ unassigned tr c = []

theorem scan_done_noconfl {tr : Trail} : ∀ {cnf : CNF} {cid : Nat} {h b : Bool},
    scan tr cnf cid h = .done b → ∀ c ∈ cnf, ¬ Confl tr c := by
  intro cnf
  induction cnf with
  | nil => intro _ _ _ _ c hc; cases hc
  | cons cl rest ih =>
    intro cid h b hs c hc
    unfold scan at hs
    split at hs
    · rename_i hsat
      rcases List.mem_cons.mp hc with rfl | hc'
      · intro hcf; rw [hcf.1] at hsat; cases hsat
      · exact ih hs c hc'
    · split at hs
      · cases hs
      · cases hs
      · rename_i hne _
        rcases List.mem_cons.mp hc with rfl | hc'
        · intro hcf; exact hne hcf.2
        · exact ih hs c hc'

theorem scan_unit_of {tr : Trail} : ∀ {cnf : CNF} (cid : Nat) (h : Bool),
    (∀ c ∈ cnf, ¬ Confl tr c) →
    (∃ c ∈ cnf, clauseSat tr c = false ∧ ∃ l, unassigned tr c = [l]) →
    ∃ k l, scan tr cnf cid h = .unit k l := by
  intro cnf
  induction cnf with
  | nil => intro _ _ _ ⟨c, hc, _⟩; cases hc
  | cons cl rest ih =>
    intro cid h hnc ⟨c, hc, hs, l, hu⟩
    have hnc' : ∀ c ∈ rest, ¬ Confl tr c := fun c hc => hnc c (List.mem_cons_of_mem _ hc)
    unfold scan
    split
    · rename_i hsat
      rcases List.mem_cons.mp hc with rfl | hc'
      · rw [hs] at hsat; cases hsat
      · exact ih _ _ hnc' ⟨c, hc', hs, l, hu⟩
    · rename_i hsat
      split
      · rename_i hnil
        exact absurd ⟨by simpa using hsat, hnil⟩ (hnc cl List.mem_cons_self)
      · exact ⟨_, _, rfl⟩
      · rename_i hne1 hne2
        rcases List.mem_cons.mp hc with rfl | hc'
        · exact absurd hu (hne2 l)
        · exact ih _ _ hnc' ⟨c, hc', hs, l, hu⟩

/-- `unit_propagate` appends entries of the current level, each for a variable of some clause;
at least one if the first scan finds a unit clause; and when it does not answer "conflict" no
clause is a conflict under the final trail. -/
theorem unitPropagate_ext2 : ∀ (fuel : Nat) (cnf : CNF) (tr : Trail) (level : Nat),
    ∃ ext, (unitPropagate fuel cnf tr level).2 = tr ++ ext ∧
      (∀ a ∈ ext, a.lvl = level ∧ a.dec = false ∧ ∃ c ∈ cnf, ∃ l ∈ c, l.1 = a.name) ∧
      ((∃ k l, scan tr cnf 0 false = .unit k l) → 0 < fuel → ext ≠ []) ∧
      (((unitPropagate fuel cnf tr level).1 = .undecided ∨
        (unitPropagate fuel cnf tr level).1 = .sat) →
        ∀ c ∈ cnf, ¬ Confl (unitPropagate fuel cnf tr level).2 c) := by
  intro fuel
  induction fuel with
  | zero =>
    intro cnf tr level
    refine ⟨[], by simp [unitPropagate], by simp, fun _ h => by omega, ?_⟩
    simp [unitPropagate]
  | succ f ih =>
    intro cnf tr level
    unfold unitPropagate
    split
    · rename_i cid hs
      refine ⟨[], by simp, by simp, ?_, by simp⟩
      rintro ⟨k, l, hk⟩ _; rw [hs] at hk; cases hk
    · rename_i cid l hs
      obtain ⟨c, _, hc, _, hu⟩ := scan_unit hs
      have hl : l ∈ c := by
        have : l ∈ unassigned tr c := by rw [hu]; exact List.mem_singleton.mpr rfl
        exact (List.mem_filter.mp this).1
      obtain ⟨ext, he, h1, _, h3⟩ := ih cnf (tr ++ [⟨l.1, l.2, false, level, cid⟩]) level
      refine ⟨[⟨l.1, l.2, false, level, cid⟩] ++ ext, by rw [he]; simp, ?_, fun _ _ => by simp, h3⟩
      intro a ha
      rcases List.mem_append.mp ha with ha | ha
      · simp only [List.mem_singleton] at ha; subst ha
        exact ⟨rfl, rfl, c, List.mem_iff_getElem?.mpr ⟨_, hc⟩, l, hl, rfl⟩
      · exact h1 a ha
    · rename_i hu hs
      refine ⟨[], by simp, by simp, ?_, ?_⟩
      · rintro ⟨k, l, hk⟩ _; rw [hs] at hk; cases hk
      · intro _; exact scan_done_noconfl hs

/-! ### looking up in a backtracked trail -/

theorem filter_names_nodup {tr : Trail} (hn : (tr.map (·.name)).Nodup) (p : Asg → Bool) :
    ((tr.filter p).map (·.name)).Nodup :=
  (List.filter_sublist.map _).nodup hn

theorem lookup_filter_of_mem {tr : Trail} (hn : (tr.map (·.name)).Nodup) {p : Asg → Bool}
    {a : Asg} (ha : a ∈ tr) (hp : p a = true) : lookup (tr.filter p) a.name = some a :=
  lookup_of_mem (filter_names_nodup hn p) (List.mem_filter.mpr ⟨ha, hp⟩)

theorem lookup_filter_none {tr : Trail} (hn : (tr.map (·.name)).Nodup) {p : Asg → Bool}
    {a : Asg} (ha : a ∈ tr) (hp : p a = false) : lookup (tr.filter p) a.name = none := by
  cases h : lookup (tr.filter p) a.name with
  | none => rfl
  | some b =>
    have hb := lookup_some h
    have hb' := List.mem_filter.mp hb.1
    have : b = a := name_inj hn hb'.1 ha hb.2
    subst this
    rw [hp] at hb'; cases hb'.2

theorem decideVar_eq {vars : List Nat} {tr : Trail} (level : Nat)
    (h : ∃ v ∈ vars, lookup tr v = none) :
    ∃ w, w ∈ vars ∧ lookup tr w = none ∧ decideVar vars tr level = tr ++ [⟨w, true, true, level, 0⟩] := by
  unfold decideVar
  split
  · rename_i w hw
    exact ⟨w, List.mem_of_find?_eq_some hw, by simpa using List.find?_some hw, rfl⟩
  · rename_i hnone
    obtain ⟨v, hv, hu⟩ := h
    have := List.find?_eq_none.mp hnone v hv
    simp [hu] at this

end Holpy.C15
