import Holpy.C15.Model
import Holpy.C15.Proofs.Trail
namespace Holpy.C15

/-! ### conflict analysis -/

theorem pick_resolve {tr : Trail} : ∀ {c : Clause} {name r : Nat}, pick tr c = .resolve name r →
    ∃ a v, a ∈ tr ∧ a.name = name ∧ a.dec = false ∧ a.reason = r ∧ (name, v) ∈ c ∧ v ≠ a.val := by
  intro c
  induction c with
  | nil => intro name r h; simp [pick] at h
  | cons l rest ih =>
    intro name r h
    unfold pick at h
    split at h
    · cases h
    · rename_i a ha
      split at h
      · cases h
      · rename_i hv
        split at h
        · rename_i hd
          cases h
          have := lookup_some ha
          exact ⟨a, l.2, this.1, this.2, by simpa using hd, rfl, by simp, by simpa using hv⟩
        · obtain ⟨a', v, h1, h2, h3, h4, h5, h6⟩ := ih h
          exact ⟨a', v, h1, h2, h3, h4, List.mem_cons_of_mem _ h5, h6⟩

/-- `sh` lists, position by position, clauses with the same members as those of `cnf` (the
learned clauses as a replay computes them vs. as `resolution`'s set order left them). -/
def Shadow (sh cnf : CNF) : Prop :=
  sh.length = cnf.length ∧
  ∀ (i : Nat) (c d : Clause), sh[i]? = some c → cnf[i]? = some d → ∀ l, l ∈ c ↔ l ∈ d

theorem Shadow.refl (cnf : CNF) : Shadow cnf cnf :=
  ⟨rfl, fun i c d hc hd l => by rw [hc] at hd; cases hd; exact Iff.rfl⟩

theorem Shadow.get {sh cnf : CNF} (h : Shadow sh cnf) {i : Nat} {d : Clause}
    (hd : cnf[i]? = some d) : ∃ c, sh[i]? = some c ∧ ∀ l, l ∈ c ↔ l ∈ d := by
  have hi : i < sh.length := by rw [h.1]; exact (List.getElem?_eq_some_iff.mp hd).1
  exact ⟨sh[i], List.getElem?_eq_getElem hi, h.2 i _ d (List.getElem?_eq_getElem hi) hd⟩

theorem Shadow.snoc {sh cnf : CNF} (h : Shadow sh cnf) {c d : Clause} (hcd : ∀ l, l ∈ c ↔ l ∈ d) :
    Shadow (sh ++ [c]) (cnf ++ [d]) := by
  refine ⟨by simp [h.1], ?_⟩
  intro i c' d' hc' hd'
  by_cases hi : i < sh.length
  · rw [List.getElem?_append_left hi] at hc'
    rw [List.getElem?_append_left (h.1 ▸ hi)] at hd'
    exact h.2 i c' d' hc' hd'
  · have hlen : i < (sh ++ [c]).length := (List.getElem?_eq_some_iff.mp hc').1
    have : i = sh.length := by simp at hlen; omega
    subst this
    simp at hc'
    rw [h.1] at hd'
    simp at hd'
    subst hc' hd'
    exact hcd

/-- The replay of `proof` over `cnf` succeeds with a clause having the members of `clause`. -/
def Replays (cnf : CNF) (proof : List Nat) (clause : Clause) : Prop :=
  ∃ c, replayProof cnf proof = some c ∧ ∀ l, l ∈ c ↔ l ∈ clause

theorem replayProof_snoc {cnf : CNF} {proof : List Nat} (hne : proof ≠ []) (r : Nat) :
    replayProof cnf (proof ++ [r]) = replayStep cnf (replayProof cnf proof) r := by
  cases proof with
  | nil => exact absurd rfl hne
  | cons i rest =>
    simp only [List.cons_append, replayProof]
    split
    · simp [replayStep]
    · rw [List.foldl_append]; rfl

theorem resolveStep_of_unique_clash {c d : Clause} {n : Nat} {w : Bool}
    (hc : (n, !w) ∈ c) (hd : (n, w) ∈ d)
    (hc1 : ∀ x ∈ c, x.1 = n → x.2 = !w) (hd1 : ∀ x ∈ d, x.1 = n → x.2 = w)
    (huniq : ∀ x ∈ c, (x.1, !x.2) ∈ d → x.1 = n) :
    resolveStep c d = some (resolveCanon c d n) := by
  unfold resolveStep clashLit
  split
  · rename_i h
    have := List.find?_eq_none.mp h (n, !w) hc
    simp at this
    exact absurd hd this
  · rename_i l hl
    have hlc := List.mem_of_find?_eq_some hl
    have hp : (l.1, !l.2) ∈ d := by
      have := List.find?_some hl
      exact List.contains_iff_mem.mp this
    have e1 : l.1 = n := huniq l hlc hp
    have e2 : l.2 = !w := hc1 l hlc e1
    have : (c.all (fun x => x.1 != l.1 || x.2 == l.2) && d.all (fun x => x.1 != l.1 || x.2 == !l.2)) = true := by
      simp only [Bool.and_eq_true, List.all_eq_true, Bool.or_eq_true, bne_iff_ne, ne_eq, beq_iff_eq]
      refine ⟨fun x hx => ?_, fun x hx => ?_⟩
      · by_cases e : x.1 = l.1
        · right; rw [e2]; exact hc1 x hx (e.trans e1)
        · left; exact e
      · by_cases e : x.1 = l.1
        · right; rw [e2, Bool.not_not]; exact hd1 x hx (e.trans e1)
        · left; exact e
    rw [if_pos this, e1]

/-- One step of `analyze_conflict` keeps: all literals false, entailed, replayable. -/
theorem analyze_step {cnf : CNF} {tr : Trail} {level : Nat} (ht : TrailOK cnf tr level)
    {clause : Clause} {name r : Nat} (hp : pick tr clause = .resolve name r)
    (hf : AllFalse tr clause) :
    ∃ D, cnf[r]? = some D ∧ ∀ o,
      AllFalse tr (resolveWith clause D name o) ∧
      (∀ base, Entailed base clause → Entailed base D → Entailed base (resolveWith clause D name o)) ∧
      (∀ c D', (∀ l, l ∈ c ↔ l ∈ clause) → (∀ l, l ∈ D' ↔ l ∈ D) →
        ∃ c', resolveStep c D' = some c' ∧ ∀ l, l ∈ c' ↔ l ∈ resolveWith clause D name o) := by
  obtain ⟨a, v, ha, han, hdec, har, hvc, hva⟩ := pick_resolve hp
  obtain ⟨D, hD, haD, hrest⟩ := ht.reason a ha hdec
  subst han har
  have hv : v = !a.val := by cases v <;> cases h : a.val <;> simp_all
  subst hv
  -- `clause` mentions `a.name` only negated
  have hc1 : ∀ x ∈ clause, x.1 = a.name → x.2 = !a.val := by
    intro x hx e
    obtain ⟨b, hb, hb1, hb2⟩ := hf x hx
    have : b = a := name_inj ht.nodup hb ha (hb1.trans e)
    subst this
    cases h1 : x.2 <;> cases h2 : b.val <;> simp_all
  have hd1 : ∀ x ∈ D, x.1 = a.name → x.2 = a.val := by
    intro x hx e
    rcases hrest x hx with h1 | ⟨h1, _⟩
    · rw [h1]
    · exact absurd e h1
  refine ⟨D, hD, fun o => ⟨?_, ?_, ?_⟩⟩
  · intro l hl
    rcases mem_resolveWith.mp hl with ⟨h1 | h1, h2⟩
    · exact hf l h1
    · rcases hrest l h1 with e | ⟨_, b, hb, hb1, hb2, _⟩
      · exact absurd (by rw [e]) h2
      · exact ⟨b, hb, hb1, hb2⟩
  · intro base hec heD σ hσ
    obtain ⟨l1, h1, s1⟩ := hec σ hσ
    obtain ⟨l2, h2, s2⟩ := heD σ hσ
    by_cases e1 : l1.1 = a.name
    · by_cases e2 : l2.1 = a.name
      · have x1 := hc1 l1 h1 e1
        have x2 := hd1 l2 h2 e2
        rw [e1, x1] at s1; rw [e2, x2, s1] at s2
        cases h : a.val <;> simp [h] at s2
      · exact ⟨l2, mem_resolveWith.mpr ⟨Or.inr h2, e2⟩, s2⟩
    · exact ⟨l1, mem_resolveWith.mpr ⟨Or.inl h1, e1⟩, s1⟩
  · intro c D' hcm hDm
    refine ⟨resolveCanon c D' a.name, ?_, ?_⟩
    · apply resolveStep_of_unique_clash (w := a.val)
      · exact (hcm _).mpr hvc
      · exact (hDm _).mpr haD
      · exact fun x hx => hc1 x ((hcm x).mp hx)
      · exact fun x hx => hd1 x ((hDm x).mp hx)
      · intro x hx hxd
        rcases hrest _ ((hDm _).mp hxd) with e | ⟨_, b', hb', hn', hv', _⟩
        · exact congrArg Prod.fst e
        · exfalso
          obtain ⟨b, hb, hb1, hb2⟩ := hf x ((hcm x).mp hx)
          have : b = b' := name_inj ht.nodup hb hb' (hb1.trans hn'.symm)
          subst this
          simp only [Bool.not_not] at hv'
          rw [hv'] at hb2
          cases h : x.2 <;> simp [h] at hb2
    · intro l
      rw [mem_resolveCanon, mem_resolveWith, hcm l, hDm l]

theorem analyze_spec {cnf : CNF} {tr : Trail} {level : Nat} (ht : TrailOK cnf tr level) (base : CNF)
    (hbase : ∀ c ∈ cnf, Entailed base c) :
    ∀ (af : Nat) (proof : List Nat) (clause : Clause) (orc : List Clause)
      (proof' : List Nat) (clause' : Clause) (orc' : List Clause),
      analyze af cnf tr proof clause orc = .ok (proof', clause', orc') →
      proof ≠ [] → (∀ j ∈ proof, j < cnf.length) →
      AllFalse tr clause → Entailed base clause →
      (∀ j ∈ proof', j < cnf.length) ∧ Entailed base clause' ∧
      ∀ sh, Shadow sh cnf → Replays sh proof clause → Replays sh proof' clause' := by
  intro af
  induction af with
  | zero => intro proof clause orc proof' clause' orc' h; simp [analyze] at h
  | succ f ih =>
    intro proof clause orc proof' clause' orc' h hne hlt hf he
    unfold analyze at h
    split at h
    · cases h
    · cases h; exact ⟨hlt, he, fun _ _ hr => hr⟩
    · rename_i name r hp
      obtain ⟨D, hD, hstep⟩ := analyze_step ht hp hf
      simp only [hD] at h
      obtain ⟨s1, s2, s3⟩ := hstep orc.head?
      have hrlt : r < cnf.length := (List.getElem?_eq_some_iff.mp hD).1
      obtain ⟨i1, i2, i3⟩ := ih _ _ _ _ _ _ h (by simp) (by
          intro j hj
          rcases List.mem_append.mp hj with hj | hj
          · exact hlt j hj
          · simp only [List.mem_singleton] at hj; subst hj; exact hrlt) s1
        (s2 base he (hbase D (List.mem_iff_getElem?.mpr ⟨r, hD⟩)))
      refine ⟨i1, i2, fun sh hsh hr => i3 sh hsh ?_⟩
      obtain ⟨c, hc, hcm⟩ := hr
      obtain ⟨D', hD', hDm⟩ := hsh.get hD
      obtain ⟨c', hc', hcm'⟩ := s3 c D' hcm hDm
      refine ⟨c', ?_, hcm'⟩
      rw [replayProof_snoc hne, hc]
      simp only [replayStep, hD']
      exact hc'

end Holpy.C15
