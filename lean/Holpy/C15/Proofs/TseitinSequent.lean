import Holpy.C15.Model
import Holpy.C15.Proofs.TseitinMain
namespace Holpy.C15

/-! ### the sequent `encode` proves is valid -/

/-- Under an assignment satisfying all hypotheses every subterm's variable has the subterm's
value; hence all clauses hold. -/
theorem hyps_entail_cnf {names : List Nat} {order : List Form} {f : Form}
    (hmem : ∀ g, g ∈ order ↔ g ∈ f.subs) {τ : Nat → Bool}
    (h : ∀ t ∈ hypsNamed names order f, t.eval τ = true) : Sat τ (coreCNF names order f) := by
  have hc := closed_of_same_subs hmem
  have heq : ∀ g ∈ order, τ (varOf names order g) = (rhsOf names order g).eval τ := by
    intro g hg
    have := h (.iff (.atom (varOf names order g)) (rhsOf names order g))
      (by simp only [hypsNamed, List.mem_append, List.mem_map]; exact Or.inl ⟨g, hg, rfl⟩)
    simpa [Form.eval] using this
  have hf : f.eval τ = true := h f (by simp [hypsNamed])
  have hval : ∀ g, g ∈ order → τ (varOf names order g) = g.eval τ := by
    intro g
    induction g with
    | atom n => intro hg; rw [heq _ hg]; rfl
    | tt => intro hg; rw [heq _ hg]; rfl
    | ff => intro hg; rw [heq _ hg]; rfl
    | not a iha =>
      intro hg
      rw [heq _ hg]
      simp only [rhsOf, Form.eval, iha (hc _ hg a (by simp [Form.children]))]
    | and a b iha ihb | or a b iha ihb | imp a b iha ihb | iff a b iha ihb =>
      intro hg
      rw [heq _ hg]
      simp only [rhsOf, Form.eval, iha (hc _ hg a (by simp [Form.children])),
        ihb (hc _ hg b (by simp [Form.children]))]
  intro cl hcl
  simp only [coreCNF, List.mem_append, List.mem_flatMap, List.mem_singleton] at hcl
  rcases hcl with ⟨g, hg, hcl⟩ | rfl
  · revert cl
    show Sat τ (clausesOf names order g)
    have hch : ∀ c ∈ g.children, c ∈ order := hc g hg
    cases g with
    | atom n => intro cl hcl; simp [clausesOf] at hcl
    | tt =>
      intro cl hcl
      simp only [clausesOf, List.mem_singleton] at hcl; subst hcl
      exact ⟨_, List.mem_singleton.mpr rfl, by rw [hval _ hg]; rfl⟩
    | ff =>
      intro cl hcl
      simp only [clausesOf, List.mem_singleton] at hcl; subst hcl
      exact ⟨_, List.mem_singleton.mpr rfl, by rw [hval _ hg]; rfl⟩
    | not a =>
      rw [clausesOf, sat_clausesNot, hval _ hg, hval _ (hch a (by simp [Form.children]))]; rfl
    | and a b =>
      rw [clausesOf, sat_clausesAnd, hval _ hg, hval _ (hch a (by simp [Form.children])),
        hval _ (hch b (by simp [Form.children]))]; rfl
    | or a b =>
      rw [clausesOf, sat_clausesOr, hval _ hg, hval _ (hch a (by simp [Form.children])),
        hval _ (hch b (by simp [Form.children]))]; rfl
    | imp a b =>
      rw [clausesOf, sat_clausesImp, hval _ hg, hval _ (hch a (by simp [Form.children])),
        hval _ (hch b (by simp [Form.children]))]; rfl
    | iff a b =>
      rw [clausesOf, sat_clausesIff, hval _ hg, hval _ (hch a (by simp [Form.children])),
        hval _ (hch b (by simp [Form.children]))]; rfl
  · exact ⟨_, List.mem_singleton.mpr rfl,
      by rw [hval f ((hmem f).mpr f.self_mem_subs)]; exact hf⟩

theorem tseitin_sequent_valid' {f : Form} {extra : List Nat} {o : List Form} {cnf : CNF}
    {hs : List Form} (h1 : tseitinOrd f extra o = some cnf) (h2 : tseitinHyps f extra o = some hs)
    (τ : Nat → Bool) (h : ∀ t ∈ hs, t.eval τ = true) : Sat τ cnf := by
  cases hp : pickOrder f o with
  | none => simp [tseitinOrd, hp] at h1
  | some order =>
    obtain ⟨e, hg⟩ := tseitinOrd_eq (extra := extra) hp
    rw [e] at h1; cases h1
    simp only [tseitinHyps, hp, Option.some.injEq] at h2; subst h2
    exact hyps_entail_cnf hg.mem h

end Holpy.C15
