import Holpy.C15.Model
import Holpy.C15.Proofs.TrailOrd
namespace Holpy.C15

/-! ### the loop of `analyze_conflict` terminates -/

/-- measure of the running clause: `Σ 2^(position in the trail of the literal's variable)`.
A resolution step replaces one literal by literals assigned earlier (possibly re-introducing a
variable resolved away before), so the sum goes down. -/
def clauseWeight (tr : Trail) (c : Clause) : Nat := (c.map (fun l => 2 ^ posOf tr l.1)).sum

theorem clauseWeight_lt {tr : Trail} (hn : (tr.map (·.name)).Nodup) {c : Clause} {p : Nat}
    (hf : AllFalse tr c) (hc : c.Nodup) (hp : ∀ l ∈ c, posOf tr l.1 < p) :
    clauseWeight tr c < 2 ^ p := by
  have hP : (c.map (fun l => posOf tr l.1)).Nodup := by
    apply nodup_map_of_inj hc
    intro l hl l' hl' e
    obtain ⟨b, hb, hb1, hb2⟩ := hf l hl
    obtain ⟨b', hb', hb1', hb2'⟩ := hf l' hl'
    have hlt : posOf tr l.1 < tr.length := hb1 ▸ posOf_lt_of_mem hb
    have hname : l.1 = l'.1 := posOf_inj hlt e
    have : b = b' := name_inj hn hb hb' (hb1.trans (hname.trans hb1'.symm))
    subst this
    have h2 : l.2 = l'.2 := by
      rw [hb2] at hb2'
      cases h1 : l.2 <;> cases h2 : l'.2 <;> simp_all
    exact Prod.ext hname h2
  have := sum_pow_lt hP (p := p) (by
    intro i hi
    obtain ⟨l, hl, rfl⟩ := List.mem_map.mp hi
    exact hp l hl)
  simpa [clauseWeight, List.map_map, Function.comp_def] using this

/-- one resolution step of `analyze_conflict` lowers the measure -/
theorem clauseWeight_step {cnf : CNF} {tr : Trail} {level : Nat} (ht : TrailOK cnf tr level)
    (ho : TrailOrd cnf tr) (hnd : ∀ c ∈ cnf, c.Nodup) {clause : Clause} {name r : Nat}
    (hp : pick tr clause = .resolve name r) (hf : AllFalse tr clause) {D : Clause}
    (hD : cnf[r]? = some D) (o : Option Clause) :
    clauseWeight tr (resolveWith clause D name o) < clauseWeight tr clause := by
  obtain ⟨a, v, ha, han, hdec, har, hvc, _⟩ := pick_resolve hp
  subst han har
  obtain ⟨D', hD', haD, hrest⟩ := ht.reason a ha hdec
  rw [hD] at hD'; cases hD'
  let f : Lit → Nat := fun l => 2 ^ posOf tr l.1
  let keep : Lit → Bool := fun l => l.1 != a.name
  -- the resolvent weighs at most the two remainders
  have h1 : clauseWeight tr (resolveWith clause D a.name o) ≤
      ((clause.filter keep).map f).sum + ((D.filter keep).map f).sum := by
    have := sum_le_of_nodup_subset f (resolveWith_nodup clause D a.name o)
      (m := clause.filter keep ++ D.filter keep) (by
        intro x hx
        obtain ⟨hm, hne⟩ := mem_resolveWith.mp hx
        rw [List.mem_append, List.mem_filter, List.mem_filter]
        rcases hm with hm | hm
        · exact Or.inl ⟨hm, by simpa [keep] using hne⟩
        · exact Or.inr ⟨hm, by simpa [keep] using hne⟩)
    simpa [clauseWeight, List.map_append, List.sum_append] using this
  -- the clause loses the resolved literal
  have h2 : ((clause.filter keep).map f).sum + 2 ^ posOf tr a.name ≤ clauseWeight tr clause := by
    have hs := sum_filter_split f keep clause
    have hm : (a.name, v) ∈ clause.filter (fun x => !keep x) :=
      List.mem_filter.mpr ⟨hvc, by simp [keep]⟩
    have := le_sum_map_of_mem f hm
    simp only [clauseWeight]
    simp only [f] at hs this ⊢
    omega
  -- the reason's other literals were assigned earlier
  have h3 : ((D.filter keep).map f).sum < 2 ^ posOf tr a.name := by
    have hothers : ∀ l ∈ D.filter keep, l.1 ≠ a.name ∧ l ∈ D := by
      intro l hl
      have := List.mem_filter.mp hl
      exact ⟨by simpa [keep] using this.2, this.1⟩
    apply clauseWeight_lt ht.nodup
    · intro l hl
      obtain ⟨hne, hlD⟩ := hothers l hl
      rcases hrest l hlD with e | ⟨_, b, hb, hb1, hb2, _⟩
      · exact absurd (by rw [e]) hne
      · exact ⟨b, hb, hb1, hb2⟩
    · exact (List.filter_sublist).nodup (hnd D (List.mem_iff_getElem?.mpr ⟨_, hD⟩))
    · intro l hl
      obtain ⟨hne, hlD⟩ := hothers l hl
      exact (ho a ha hdec D hD l hlD hne).pos_lt
  omega

/-- With more fuel than the measure of the conflict clause, `analyze_conflict`'s loop ends. -/
theorem analyze_terminates_aux {cnf : CNF} {tr : Trail} {level : Nat} (ht : TrailOK cnf tr level)
    (ho : TrailOrd cnf tr) (hnd : ∀ c ∈ cnf, c.Nodup) :
    ∀ (af : Nat) (proof : List Nat) (clause : Clause) (orc : List Clause),
      AllFalse tr clause → clauseWeight tr clause < af →
      ∃ res, analyze af cnf tr proof clause orc = .ok res := by
  intro af
  induction af with
  | zero => intro _ _ _ _ h; omega
  | succ f ih =>
    intro proof clause orc hf hw
    unfold analyze
    split
    · rename_i hp; exact absurd hp (pick_ne_assertFail ht.nodup hf)
    · exact ⟨_, rfl⟩
    · rename_i name r hp
      obtain ⟨D, hD, hstep⟩ := analyze_step ht hp hf
      simp only [hD]
      have := clauseWeight_step ht ho hnd hp hf hD orc.head?
      exact ih _ _ _ (hstep orc.head?).1 (by omega)

theorem analyze_terminates' {cnf : CNF} {tr : Trail} {level : Nat} (ht : TrailOK cnf tr level)
    (ho : TrailOrd cnf tr) (hnd : ∀ c ∈ cnf, c.Nodup) {af : Nat} (haf : 2 ^ tr.length ≤ af)
    (proof : List Nat) {clause : Clause} (orc : List Clause) (hf : AllFalse tr clause)
    (hc : clause.Nodup) : ∃ res, analyze af cnf tr proof clause orc = .ok res := by
  apply analyze_terminates_aux ht ho hnd af proof clause orc hf
  have := clauseWeight_lt ht.nodup hf hc (p := tr.length) (by
    intro l hl
    obtain ⟨b, hb, hb1, _⟩ := hf l hl
    exact hb1 ▸ posOf_lt_of_mem hb)
  omega

/-! ### what the learned clause looks like -/

theorem pick_noResolution {tr : Trail} : ∀ {c : Clause}, pick tr c = .noResolution →
    ∀ l ∈ c, ∃ a, lookup tr l.1 = some a ∧ a.dec = true ∧ a.val = !l.2 := by
  intro c
  induction c with
  | nil => intro _ l hl; cases hl
  | cons x rest ih =>
    intro h l hl
    unfold pick at h
    split at h
    · cases h
    · rename_i a ha
      split at h
      · cases h
      · rename_i hv
        split at h
        · cases h
        · rename_i hd
          rcases List.mem_cons.mp hl with rfl | hl'
          · refine ⟨a, ha, by simpa using hd, ?_⟩
            cases h1 : l.2 <;> cases h2 : a.val <;> simp_all
          · exact ih h l hl'

/-- the clause `analyze_conflict` returns: no literal can be resolved any more, no literal is
repeated -/
theorem analyze_ok_props {cnf : CNF} {tr : Trail} :
    ∀ (af : Nat) (proof : List Nat) (clause : Clause) (orc : List Clause)
      (proof' : List Nat) (clause' : Clause) (orc' : List Clause),
      analyze af cnf tr proof clause orc = .ok (proof', clause', orc') → clause.Nodup →
      pick tr clause' = .noResolution ∧ clause'.Nodup := by
  intro af
  induction af with
  | zero => intro proof clause orc proof' clause' orc' h; simp [analyze] at h
  | succ f ih =>
    intro proof clause orc proof' clause' orc' h hc
    unfold analyze at h
    split at h
    · cases h
    · rename_i hp; cases h; exact ⟨hp, hc⟩
    · split at h
      · cases h
      · exact ih _ _ _ _ _ _ h (resolveWith_nodup _ _ _ _)

end Holpy.C15
