import Holpy.C15.Model
import Holpy.C15.Proofs.TermBase
namespace Holpy.C15

/-! ### the backjump level and the learned clause after the backjump -/

theorem foldl_max_ge (l : List Nat) : ∀ (acc : Nat), acc ≤ l.foldl max acc ∧ ∀ x ∈ l, x ≤ l.foldl max acc := by
  induction l with
  | nil => intro acc; exact ⟨Nat.le_refl _, fun x hx => by cases hx⟩
  | cons y ys ih =>
    intro acc
    obtain ⟨h1, h2⟩ := ih (max acc y)
    refine ⟨by simp only [List.foldl_cons]; omega, ?_⟩
    intro x hx
    simp only [List.foldl_cons]
    rcases List.mem_cons.mp hx with rfl | hx
    · omega
    · exact h2 x hx

theorem foldl_max_mem (l : List Nat) : ∀ (acc : Nat), l.foldl max acc = acc ∨ l.foldl max acc ∈ l := by
  induction l with
  | nil => intro acc; exact Or.inl rfl
  | cons y ys ih =>
    intro acc
    simp only [List.foldl_cons]
    rcases ih (max acc y) with h | h
    · rw [h]
      by_cases e : acc ≤ y
      · right; rw [Nat.max_eq_right e]; exact List.mem_cons_self
      · left; exact Nat.max_eq_left (by omega)
    · exact Or.inr (List.mem_cons_of_mem _ h)

theorem le_maxNat {l : List Nat} {x : Nat} (h : x ∈ l) : x ≤ maxNat l := (foldl_max_ge l 0).2 x h

theorem maxNat_mem {l : List Nat} (h : l ≠ []) : maxNat l ∈ l := by
  rcases foldl_max_mem l 0 with h0 | hm
  · -- the maximum is 0: every element is 0, and the head is in the list
    cases l with
    | nil => exact absurd rfl h
    | cons y ys =>
      have : y ≤ maxNat (y :: ys) := le_maxNat List.mem_cons_self
      unfold maxNat at this ⊢
      rw [h0] at this ⊢
      have : y = 0 := by omega
      subst this; exact List.mem_cons_self
  · exact hm

/-- level recorded for the variable of a literal (0 if unassigned) -/
def lvlAt (tr : Trail) (l : Lit) : Nat := ((lookup tr l.1).map (·.lvl)).getD 0

theorem mapM_lvlOf_eq {tr : Trail} : ∀ {c : Clause}, (∀ l ∈ c, ∃ a, lookup tr l.1 = some a) →
    c.mapM (fun l => lvlOf tr l.1) = some (c.map (lvlAt tr)) := by
  intro c
  induction c with
  | nil => intro _; rfl
  | cons x xs ih =>
    intro h
    obtain ⟨a, ha⟩ := h x List.mem_cons_self
    have hx : lvlOf tr x.1 = some (lvlAt tr x) := by simp [lvlOf, lvlAt, ha]
    simp only [List.mapM_cons, hx, ih (fun l hl => h l (List.mem_cons_of_mem _ hl)), List.map_cons]
    rfl

/-- what `pick = noResolution` says of each literal of the learned clause -/
def DecFalse (tr : Trail) (c : Clause) : Prop :=
  ∀ l ∈ c, ∃ a, lookup tr l.1 = some a ∧ a.dec = true ∧ a.val = !l.2

/-- The learned clause has one literal whose level is above the backjump level; all the others
are at or below it. -/
theorem backtrackLevel_spec {tr : Trail}
    (hdec1 : ∀ a ∈ tr, a.dec = true → 1 ≤ a.lvl)
    (hinj : ∀ a ∈ tr, ∀ b ∈ tr, a.dec = true → b.dec = true → a.lvl = b.lvl → a = b)
    {c : Clause} (hc : DecFalse tr c) (hnd : c.Nodup) (hne : c ≠ []) {bl : Nat}
    (h : backtrackLevel tr c = .ok bl) :
    ∃ ltop ∈ c, bl < lvlAt tr ltop ∧ ∀ l ∈ c, l ≠ ltop → lvlAt tr l ≤ bl := by
  have hlv : ∀ l ∈ c, ∃ a, a ∈ tr ∧ lookup tr l.1 = some a ∧ a.dec = true ∧ a.val = (!l.2) ∧
      lvlAt tr l = a.lvl := by
    intro l hl
    obtain ⟨a, ha, hd, hv⟩ := hc l hl
    exact ⟨a, (lookup_some ha).1, ha, hd, hv, by simp [lvlAt, ha]⟩
  have hinjc : ∀ l ∈ c, ∀ l' ∈ c, lvlAt tr l = lvlAt tr l' → l = l' := by
    intro l hl l' hl' e
    obtain ⟨a, ham, ha, hd, hv, e1⟩ := hlv l hl
    obtain ⟨a', ham', ha', hd', hv', e2⟩ := hlv l' hl'
    have : a = a' := hinj a ham a' ham' hd hd' (by rw [← e1, ← e2, e])
    subst this
    have hn : l.1 = l'.1 := (lookup_some ha).2.symm.trans (lookup_some ha').2
    have h2 : l.2 = l'.2 := by
      rw [hv] at hv'
      cases h1 : l.2 <;> cases h2 : l'.2 <;> simp_all
    exact Prod.ext hn h2
  unfold backtrackLevel at h
  split at h
  · rename_i x
    cases h
    obtain ⟨a, ham, _, hd, _, e1⟩ := hlv x List.mem_cons_self
    refine ⟨x, List.mem_cons_self, by rw [e1]; exact hdec1 a ham hd, ?_⟩
    intro l hl hne'
    simp only [List.mem_singleton] at hl
    exact absurd hl hne'
  · rename_i hnot1
    rw [mapM_lvlOf_eq (fun l hl => ⟨_, (hc l hl).choose_spec.1⟩)] at h
    simp only at h
    cases hs : secondHighest (c.map (lvlAt tr)) with
    | none => rw [hs] at h; cases h
    | some b =>
      rw [hs] at h
      simp only [Except.ok.injEq] at h
      subst h
      unfold secondHighest at hs
      split at hs
      · cases hs
      simp only [Option.some.injEq] at hs
      have h := hs
      have hnodup : (c.map (lvlAt tr)).Nodup := nodup_map_of_inj hnd hinjc
      have hne' : c.map (lvlAt tr) ≠ [] := by simpa using hne
      have hM := maxNat_mem hne'
      obtain ⟨ltop, hltop, hMe⟩ := List.mem_map.mp hM
      have herase_ne : (c.map (lvlAt tr)).erase (maxNat (c.map (lvlAt tr))) ≠ [] := by
        intro e
        have := List.length_erase_of_mem hM
        rw [e] at this
        simp only [List.length_nil] at this
        omega
      have hbl := maxNat_mem herase_ne
      rw [h] at hbl
      have hbl' := (hnodup.mem_erase_iff).mp hbl
      refine ⟨ltop, hltop, ?_, ?_⟩
      · have := le_maxNat hbl'.2
        rw [hMe]; omega
      · intro l hl hne2
        have hm : lvlAt tr l ∈ (c.map (lvlAt tr)).erase (maxNat (c.map (lvlAt tr))) := by
          rw [hnodup.mem_erase_iff]
          refine ⟨?_, List.mem_map_of_mem hl⟩
          intro e
          exact hne2 (hinjc l hl ltop hltop (e.trans hMe.symm))
        have := le_maxNat hm
        rw [h] at this
        exact this

/-- After the backjump the learned clause is unit: its top literal is unassigned, the others are
false. -/
theorem learned_unit_after_backjump {tr : Trail} (hn : (tr.map (·.name)).Nodup)
    {c : Clause} (hc : DecFalse tr c) (hnd : c.Nodup) {bl : Nat} {ltop : Lit} (hltop : ltop ∈ c)
    (htop : bl < lvlAt tr ltop) (hrest : ∀ l ∈ c, l ≠ ltop → lvlAt tr l ≤ bl) :
    clauseSat (tr.filter (fun a => a.lvl ≤ bl)) c = false ∧
    unassigned (tr.filter (fun a => a.lvl ≤ bl)) c = [ltop] := by
  have key : ∀ l ∈ c, (l = ltop → lookup (tr.filter (fun a => a.lvl ≤ bl)) l.1 = none) ∧
      (l ≠ ltop → ∃ a, lookup (tr.filter (fun a => a.lvl ≤ bl)) l.1 = some a ∧ a.val = !l.2) := by
    intro l hl
    obtain ⟨a, ha, _, hv⟩ := hc l hl
    have ham := (lookup_some ha).1
    have han := (lookup_some ha).2
    have hlv : lvlAt tr l = a.lvl := by simp [lvlAt, ha]
    constructor
    · intro e
      rw [← han]
      apply lookup_filter_none hn ham
      have : bl < a.lvl := by rw [← hlv, e]; exact htop
      simpa using this
    · intro e
      refine ⟨a, ?_, hv⟩
      rw [← han]
      apply lookup_filter_of_mem hn ham
      have := hrest l hl e
      rw [hlv] at this
      simpa using this
  constructor
  · simp only [clauseSat, List.any_eq_false]
    intro l hl
    by_cases e : l = ltop
    · simp [litSat, trailVal, (key l hl).1 e]
    · obtain ⟨a, ha, hv⟩ := (key l hl).2 e
      simp only [litSat, trailVal, ha, Option.map_some, hv]
      cases l.2 <;> simp
  · apply filter_eq_singleton hnd hltop
    · simp [litUnassigned, (key ltop hltop).1 rfl]
    · intro y hy hyu
      by_cases e : y = ltop
      · exact e
      · obtain ⟨a, ha, _⟩ := (key y hy).2 e
        simp [litUnassigned, ha] at hyu

end Holpy.C15
