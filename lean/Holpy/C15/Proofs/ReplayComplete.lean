import Holpy.C15.Model
import Holpy.C15.Proofs.Replay
import Holpy.C15.Proofs.TraceInv
namespace Holpy.C15

/-! ### a trace the checker accepts is replayed by `logic.resolution` to the same clauses -/

theorem findClashAux_of_find {d : Clause} : ∀ {c : Clause} (i0 : Nat) {l : Lit},
    c.find? (fun l => d.contains (l.1, !l.2)) = some l →
    ∃ i j, findClashAux d c i0 = some (i, j) ∧ i0 ≤ i ∧ c[i - i0]? = some l ∧
      d[j]? = some (l.1, !l.2) := by
  intro c
  induction c with
  | nil => intro i0 l h; simp at h
  | cons x rest ih =>
    intro i0 l h
    unfold findClashAux
    by_cases hx : d.contains (x.1, !x.2) = true
    · rw [List.find?_cons_of_pos (by exact hx)] at h
      have hl : x = l := Option.some.inj h
      subst hl
      cases hj : d.findIdx? (fun m => m == (x.1, !x.2)) with
      | none =>
        have := List.findIdx?_eq_none_iff.mp hj (x.1, !x.2) (List.contains_iff_mem.mp hx)
        simp at this
      | some j =>
        obtain ⟨hlt, hp, _⟩ := List.findIdx?_eq_some_iff_getElem.mp hj
        refine ⟨i0, j, rfl, Nat.le_refl _, by simp, ?_⟩
        rw [List.getElem?_eq_getElem hlt]
        simpa using hp
    · have hrest : rest.find? (fun l => d.contains (l.1, !l.2)) = some l := by
        rw [List.find?_cons_of_neg (by exact hx)] at h; exact h
      have hnone : d.findIdx? (fun m => m == (x.1, !x.2)) = none := by
        rw [List.findIdx?_eq_none_iff]
        intro m hm
        by_cases e : m = (x.1, !x.2)
        · subst e; exact absurd (List.contains_iff_mem.mpr hm) hx
        · simpa using e
      rw [hnone]
      obtain ⟨i, j, h1, h2, h3, h4⟩ := ih (i0 + 1) hrest
      refine ⟨i, j, h1, by omega, ?_, h4⟩
      have : i - i0 = (i - (i0 + 1)) + 1 := by omega
      rw [this]; simpa using h3

theorem bne_eq_bne {α β : Type} [BEq α] [LawfulBEq α] [BEq β] [LawfulBEq β] {a b : α} {c d : β}
    (h : a = b ↔ c = d) : (a != b) = (c != d) := by
  rw [Bool.eq_iff_iff]
  simp only [bne_iff_ne]
  exact not_congr h

/-- where the checker's resolution step applies, `logic.resolution` gives the same clause -/
theorem macroResolve_of_resolveStep {c d r : Clause} (h : resolveStep c d = some r) :
    macroResolve c d = some r := by
  unfold resolveStep clashLit at h
  split at h
  · cases h
  · rename_i l hl
    split at h
    · rename_i hc
      simp only [Option.some.injEq] at h
      subst h
      simp only [Bool.and_eq_true, List.all_eq_true, Bool.or_eq_true, bne_iff_ne, ne_eq,
        beq_iff_eq] at hc
      obtain ⟨i, j, h1, _, h3, h4⟩ := findClashAux_of_find 0 hl
      simp only [Nat.sub_zero] at h3
      unfold macroResolve findClash
      simp only [h1, h3, h4, resolveCanon, Option.some.injEq]
      congr 2
      · apply List.filter_congr
        intro x hx
        apply bne_eq_bne
        constructor
        · intro e; rw [e]
        · intro e
          rcases hc.1 x hx with h' | h'
          · exact absurd e h'
          · exact Prod.ext e h'
      · apply List.filter_congr
        intro x hx
        apply bne_eq_bne
        constructor
        · intro e; rw [e]
        · intro e
          rcases hc.2 x hx with h' | h'
          · exact absurd e h'
          · exact Prod.ext e h'
    · cases h

theorem zStep_of_replayStep {cnf : CNF} {acc : Option Clause} {j : Nat} {r : Clause}
    (h : replayStep cnf acc j = some r) : zStep cnf acc j = some r := by
  unfold replayStep at h
  unfold zStep
  split at h
  · rename_i c0 d hd
    exact macroResolve_of_resolveStep h
  · cases h

theorem zFold_of_replayFold {cnf : CNF} : ∀ (rest : List Nat) (acc : Option Clause) (r : Clause),
    rest.foldl (replayStep cnf) acc = some r → rest.foldl (zStep cnf) acc = some r := by
  intro rest
  induction rest with
  | nil => intro acc r h; exact h
  | cons j js ih =>
    intro acc r h
    simp only [List.foldl_cons] at h ⊢
    cases hs : replayStep cnf acc j with
    | none => rw [hs, foldl_replayStep_none] at h; cases h
    | some c1 =>
      rw [hs] at h
      rw [zStep_of_replayStep hs]
      exact ih _ _ h

theorem zReplayOne_of_replayProof {cnf : CNF} {p : List Nat} {r : Clause}
    (h : replayProof cnf p = some r) : zReplayOne cnf p = some r := by
  unfold replayProof at h
  unfold zReplayOne
  split at h
  · cases h
  · rename_i i rest
    split at h
    · cases h
    · rename_i c0 hc0
      exact zFold_of_replayFold _ _ _ h

/-- the clause list rebuilt by the checker is the one the replay loop of `proofrec.solve_cnf` /
`zChaff.solve` computes -/
theorem zReplay_of_rebuild : ∀ (ps : List (Nat × List Nat)) (c sh : CNF),
    rebuild c ps = some sh → zReplay c (ps.map (·.2)) = some sh := by
  intro ps
  induction ps with
  | nil => intro c sh h; simpa [rebuild, zReplay] using h
  | cons x xs ih =>
    intro c sh h
    obtain ⟨i, p⟩ := x
    unfold rebuild at h
    simp only [List.map_cons]
    unfold zReplay
    split at h
    · split at h
      · rename_i r hr
        rw [zReplayOne_of_replayProof hr]
        exact ih _ _ h
      · cases h
    · cases h

theorem proofrecCheck_of_checkProofs {cnf : CNF} {ps : List (Nat × List Nat)}
    (h : checkProofs cnf ps = true) : proofrecCheck (cnf.map dedup) (ps.map (·.2)) = true := by
  unfold checkProofs at h
  split at h
  · rename_i sh hsh
    unfold proofrecCheck
    rw [zReplay_of_rebuild _ _ _ hsh]
    simp only [checkTrace, Bool.and_eq_true, beq_iff_eq] at h
    simp [h.2]
  · cases h

end Holpy.C15
