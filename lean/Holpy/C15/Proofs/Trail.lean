import Holpy.C15.Model
import Holpy.C15.Proofs.Basic
import Holpy.C15.Proofs.Trace
namespace Holpy.C15

/-! ### the trail -/

theorem lookup_some {tr : Trail} {n : Nat} {a : Asg} (h : lookup tr n = some a) :
    a ∈ tr ∧ a.name = n := by
  unfold lookup at h
  exact ⟨List.mem_of_find?_eq_some h, by simpa using List.find?_some h⟩

theorem lookup_none {tr : Trail} {n : Nat} (h : lookup tr n = none) : ∀ a ∈ tr, a.name ≠ n := by
  unfold lookup at h
  intro a ha
  simpa using List.find?_eq_none.mp h a ha

theorem name_inj {tr : Trail} (hn : (tr.map (·.name)).Nodup) {a b : Asg} (ha : a ∈ tr) (hb : b ∈ tr)
    (h : a.name = b.name) : a = b := by
  induction tr with
  | nil => cases ha
  | cons x xs ih =>
    simp only [List.map_cons, List.nodup_cons, List.mem_map, not_exists, not_and] at hn
    rcases List.mem_cons.mp ha with rfl | ha' <;> rcases List.mem_cons.mp hb with rfl | hb'
    · rfl
    · exact absurd h.symm (hn.1 b hb')
    · exact absurd h (hn.1 a ha')
    · exact ih hn.2 ha' hb'

/-- `l` is false under the trail, by an entry of level at most `k`. -/
def FalseIn (tr : Trail) (l : Lit) (k : Nat) : Prop :=
  ∃ b ∈ tr, b.name = l.1 ∧ b.val = (!l.2) ∧ b.lvl ≤ k

/-- every literal of the clause is false under the trail -/
def AllFalse (tr : Trail) (c : Clause) : Prop := ∀ l ∈ c, ∃ b ∈ tr, b.name = l.1 ∧ b.val = (!l.2)

/-- Invariant of the trail (`assigns`): names unique, levels bounded by the current level, and
every propagated entry's reason clause contains its literal once and otherwise only literals on
other variables that are false by entries of at most the same level. -/
structure TrailOK (cnf : CNF) (tr : Trail) (level : Nat) : Prop where
  nodup : (tr.map (·.name)).Nodup
  lvl_le : ∀ a ∈ tr, a.lvl ≤ level
  reason : ∀ a ∈ tr, a.dec = false → ∃ D, cnf[a.reason]? = some D ∧ (a.name, a.val) ∈ D ∧
      ∀ l ∈ D, l = (a.name, a.val) ∨ (l.1 ≠ a.name ∧ FalseIn tr l a.lvl)

theorem FalseIn.mono {tr tr' : Trail} {l : Lit} {k : Nat} (h : FalseIn tr l k)
    (hsub : ∀ b ∈ tr, b.lvl ≤ k → b ∈ tr') : FalseIn tr' l k := by
  obtain ⟨b, hb, h1, h2, h3⟩ := h
  exact ⟨b, hsub b hb h3, h1, h2, h3⟩

theorem TrailOK.nil (cnf : CNF) (level : Nat) : TrailOK cnf [] level :=
  ⟨by simp, by simp, by simp⟩

theorem TrailOK.append_cnf {cnf : CNF} {tr : Trail} {level : Nat} (h : TrailOK cnf tr level)
    (ext : CNF) : TrailOK (cnf ++ ext) tr level := by
  refine ⟨h.nodup, h.lvl_le, ?_⟩
  intro a ha hd
  obtain ⟨D, hD, rest⟩ := h.reason a ha hd
  refine ⟨D, ?_, rest⟩
  have : a.reason < cnf.length := (List.getElem?_eq_some_iff.mp hD).1
  rw [List.getElem?_append_left this]; exact hD

theorem TrailOK.backtrack {cnf : CNF} {tr : Trail} {level : Nat} (h : TrailOK cnf tr level)
    (bl : Nat) : TrailOK cnf (tr.filter (fun a => a.lvl ≤ bl)) bl := by
  refine ⟨?_, ?_, ?_⟩
  · exact (List.filter_sublist.map _).nodup h.nodup
  · intro a ha
    simpa using (List.mem_filter.mp ha).2
  · intro a ha hd
    have ha' := List.mem_filter.mp ha
    obtain ⟨D, hD, hm, rest⟩ := h.reason a ha'.1 hd
    refine ⟨D, hD, hm, ?_⟩
    intro l hl
    rcases rest l hl with h1 | ⟨h1, h2⟩
    · exact Or.inl h1
    · refine Or.inr ⟨h1, h2.mono ?_⟩
      intro b hb hbl
      have : a.lvl ≤ bl := by simpa using ha'.2
      exact List.mem_filter.mpr ⟨hb, by simpa using Nat.le_trans hbl this⟩


/-! ### one scan of the clause list -/

theorem lit_false_of {tr : Trail} {l : Lit} {b : Asg} (hb : lookup tr l.1 = some b)
    (hs : litSat tr l = false) : b.val = (!l.2) := by
  simp only [litSat, trailVal, hb, Option.map_some, beq_eq_false_iff_ne, ne_eq,
    Option.some.injEq] at hs
  cases hv : b.val <;> cases hl : l.2 <;> simp_all

theorem allFalse_of_conflict {tr : Trail} {c : Clause} (hs : clauseSat tr c = false)
    (hu : unassigned tr c = []) : AllFalse tr c := by
  intro l hl
  have h1 : litUnassigned tr l = false := by
    cases h : litUnassigned tr l
    · rfl
    · have : l ∈ unassigned tr c := List.mem_filter.mpr ⟨hl, h⟩
      rw [hu] at this; cases this
  have h2 : litSat tr l = false := by
    simp only [clauseSat, List.any_eq_false] at hs
    simpa using hs l hl
  simp only [litUnassigned, Option.isNone_eq_false_iff, Option.isSome_iff_exists] at h1
  obtain ⟨b, hb⟩ := h1
  exact ⟨b, (lookup_some hb).1, (lookup_some hb).2, lit_false_of hb h2⟩

theorem scan_conflict {tr : Trail} : ∀ {cnf : CNF} {cid : Nat} {h : Bool} {k : Nat},
    scan tr cnf cid h = .conflict k →
    ∃ c, cid ≤ k ∧ cnf[k - cid]? = some c ∧ clauseSat tr c = false ∧ unassigned tr c = [] := by
  intro cnf
  induction cnf with
  | nil => intro cid h k hs; simp [scan] at hs
  | cons cl rest ih =>
    intro cid h k hs
    unfold scan at hs
    split at hs
    · obtain ⟨c, h1, h2, h3⟩ := ih hs
      refine ⟨c, by omega, ?_, h3⟩
      have : k - cid = (k - (cid + 1)) + 1 := by omega
      rw [this]; simpa using h2
    · rename_i hns
      split at hs
      · rename_i hu
        cases hs
        exact ⟨cl, Nat.le_refl _, by simp, by simpa using hns, hu⟩
      · cases hs
      · obtain ⟨c, h1, h2, h3⟩ := ih hs
        refine ⟨c, by omega, ?_, h3⟩
        have : k - cid = (k - (cid + 1)) + 1 := by omega
        rw [this]; simpa using h2

theorem scan_unit {tr : Trail} : ∀ {cnf : CNF} {cid : Nat} {h : Bool} {k : Nat} {l : Lit},
    scan tr cnf cid h = .unit k l →
    ∃ c, cid ≤ k ∧ cnf[k - cid]? = some c ∧ clauseSat tr c = false ∧ unassigned tr c = [l] := by
  intro cnf
  induction cnf with
  | nil => intro cid h k l hs; simp [scan] at hs
  | cons cl rest ih =>
    intro cid h k l hs
    unfold scan at hs
    split at hs
    · obtain ⟨c, h1, h2, h3⟩ := ih hs
      refine ⟨c, by omega, ?_, h3⟩
      have : k - cid = (k - (cid + 1)) + 1 := by omega
      rw [this]; simpa using h2
    · rename_i hns
      split at hs
      · cases hs
      · rename_i l' hu
        cases hs
        exact ⟨cl, Nat.le_refl _, by simp, by simpa using hns, hu⟩
      · obtain ⟨c, h1, h2, h3⟩ := ih hs
        refine ⟨c, by omega, ?_, h3⟩
        have : k - cid = (k - (cid + 1)) + 1 := by omega
        rw [this]; simpa using h2

theorem scan_done {tr : Trail} : ∀ {cnf : CNF} {cid : Nat} {h : Bool},
    scan tr cnf cid h = .done false → ∀ c ∈ cnf, clauseSat tr c = true := by
  intro cnf
  induction cnf with
  | nil => intro cid h _ c hc; cases hc
  | cons cl rest ih =>
    intro cid h hs c hc
    unfold scan at hs
    split at hs
    · rename_i hsat
      rcases List.mem_cons.mp hc with rfl | hc'
      · exact hsat
      · exact ih hs c hc'
    · split at hs
      · cases hs
      · cases hs
      · -- the flag is `true` from here on and never reset
        exfalso
        have : ∀ (cnf : CNF) (cid : Nat), scan tr cnf cid true ≠ .done false := by
          intro cnf
          induction cnf with
          | nil => intro cid; simp [scan]
          | cons x xs ih2 =>
            intro cid; unfold scan
            split
            · exact ih2 _
            · split <;> first | exact ih2 _ | simp
        exact this _ _ hs

/-! ### unit propagation -/

/-- What the answer of `unit_propagate` says about the trail it leaves. -/
def PrOK (cnf : CNF) (tr : Trail) : Prop' → Prop
  | .sat => ∀ c ∈ cnf, clauseSat tr c = true
  | .conflict cid => ∃ c, cnf[cid]? = some c ∧ AllFalse tr c
  | _ => True

theorem TrailOK.propagate {cnf : CNF} {tr : Trail} {level : Nat} (h : TrailOK cnf tr level)
    {cid : Nat} {l : Lit} {c : Clause} (hc : cnf[cid]? = some c) (hs : clauseSat tr c = false)
    (hu : unassigned tr c = [l]) : TrailOK cnf (tr ++ [⟨l.1, l.2, false, level, cid⟩]) level := by
  have hl : l ∈ unassigned tr c := by rw [hu]; exact List.mem_singleton.mpr rfl
  have hlc : l ∈ c := (List.mem_filter.mp hl).1
  have hlu : lookup tr l.1 = none := by
    simpa [litUnassigned] using (List.mem_filter.mp hl).2
  refine ⟨?_, ?_, ?_⟩
  · simp only [List.map_append, List.map_cons, List.map_nil]
    rw [List.nodup_append]
    refine ⟨h.nodup, by simp, ?_⟩
    intro n hn m hm
    simp only [List.mem_singleton] at hm
    subst hm
    obtain ⟨a, ha, rfl⟩ := List.mem_map.mp hn
    exact lookup_none hlu a ha
  · intro a ha
    rcases List.mem_append.mp ha with ha | ha
    · exact h.lvl_le a ha
    · simp only [List.mem_singleton] at ha; subst ha; exact Nat.le_refl _
  · intro a ha hd
    rcases List.mem_append.mp ha with ha | ha
    · obtain ⟨D, hD, hm, rest⟩ := h.reason a ha hd
      refine ⟨D, hD, hm, fun l' hl' => ?_⟩
      rcases rest l' hl' with h1 | ⟨h1, h2⟩
      · exact Or.inl h1
      · exact Or.inr ⟨h1, h2.mono (fun b hb _ => List.mem_append_left _ hb)⟩
    · simp only [List.mem_singleton] at ha; subst ha
      refine ⟨c, hc, hlc, fun l' hl' => ?_⟩
      by_cases e : l' = l
      · exact Or.inl e
      · right
        have h1 : litUnassigned tr l' = false := by
          cases hh : litUnassigned tr l'
          · rfl
          · have : l' ∈ unassigned tr c := List.mem_filter.mpr ⟨hl', hh⟩
            rw [hu] at this; exact absurd (List.mem_singleton.mp this) e
        have h2 : litSat tr l' = false := by
          simp only [clauseSat, List.any_eq_false] at hs
          simpa using hs l' hl'
        simp only [litUnassigned, Option.isNone_eq_false_iff, Option.isSome_iff_exists] at h1
        obtain ⟨b, hb⟩ := h1
        have hb' := lookup_some hb
        refine ⟨?_, b, List.mem_append_left _ hb'.1, hb'.2, lit_false_of hb h2, h.lvl_le b hb'.1⟩
        intro e1
        exact lookup_none hlu b hb'.1 (hb'.2.trans e1)

theorem unitPropagate_spec : ∀ (fuel : Nat) (cnf : CNF) (tr : Trail) (level : Nat),
    TrailOK cnf tr level →
    TrailOK cnf (unitPropagate fuel cnf tr level).2 level ∧
    PrOK cnf (unitPropagate fuel cnf tr level).2 (unitPropagate fuel cnf tr level).1 := by
  intro fuel
  induction fuel with
  | zero => intro cnf tr level h; exact ⟨h, trivial⟩
  | succ f ih =>
    intro cnf tr level h
    unfold unitPropagate
    split
    · rename_i cid hs
      obtain ⟨c, _, hc, h1, h2⟩ := scan_conflict hs
      exact ⟨h, c, by simpa using hc, allFalse_of_conflict h1 h2⟩
    · rename_i cid l hs
      obtain ⟨c, _, hc, h1, h2⟩ := scan_unit hs
      exact ih _ _ _ (h.propagate (by simpa using hc) h1 h2)
    · rename_i hu hs
      refine ⟨h, ?_⟩
      cases hu
      · exact scan_done hs
      · trivial

end Holpy.C15
