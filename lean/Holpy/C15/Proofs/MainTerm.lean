import Holpy.C15.Model
import Holpy.C15.Proofs.Backjump
import Holpy.C15.Proofs.Rank
import Holpy.C15.Proofs.MainLoop
namespace Holpy.C15

/-! ### the main loop terminates -/

/-- Invariant of the solver state used for termination (`vs`: the variables, `vars`: the decision
order). -/
structure TInv (vs vars : List Nat) (s : St) : Prop where
  trail : TrailOK s.cnf s.tr s.level
  ord : TrailOrd s.cnf s.tr
  nd : ∀ c ∈ s.cnf, c.Nodup
  cvars : ∀ c ∈ s.cnf, ∀ l ∈ c, l.1 ∈ vars
  names : ∀ a ∈ s.tr, a.name ∈ vs
  dec1 : ∀ a ∈ s.tr, a.dec = true → 1 ≤ a.lvl
  decinj : ∀ a ∈ s.tr, ∀ b ∈ s.tr, a.dec = true → b.dec = true → a.lvl = b.lvl → a = b
  declvl : ∀ k, 1 ≤ k → k ≤ s.level → ∃ a ∈ s.tr, a.dec = true ∧ a.lvl = k
  low : ∀ k, k < s.level → ∀ c ∈ s.cnf, ¬ Confl (s.tr.filter (fun a => a.lvl ≤ k)) c

/-- what the answer of the last `unit_propagate` guarantees -/
def PrT (cnf : CNF) (tr : Trail) (pr : Prop') : Prop :=
  pr ≠ .outOfFuel ∧ PrOK cnf tr pr ∧
  (pr = .undecided → (∃ c ∈ cnf, ∃ l ∈ c, lookup tr l.1 = none) ∧ ∀ c ∈ cnf, ¬ Confl tr c)

theorem trail_length_le {vs : List Nat} {tr : Trail} (hn : (tr.map (·.name)).Nodup)
    (hs : ∀ a ∈ tr, a.name ∈ vs) : tr.length ≤ vs.length := by
  have := length_le_of_nodup_subset hn (m := vs) (by
    intro x hx
    obtain ⟨a, ha, rfl⟩ := List.mem_map.mp hx
    exact hs a ha)
  simpa using this

theorem level_le_length {tr : Trail} {level : Nat}
    (h : ∀ k, 1 ≤ k → k ≤ level → ∃ a ∈ tr, a.dec = true ∧ a.lvl = k) : level ≤ tr.length := by
  have := length_le_of_nodup_subset (l := List.range' 1 level) (m := tr.map (·.lvl))
    List.nodup_range' (by
      intro k hk
      simp only [List.mem_range'_1] at hk
      obtain ⟨a, ha, _, hl⟩ := h k hk.1 (by omega)
      exact List.mem_map.mpr ⟨a, ha, hl⟩)
  simpa using this

/-- all facts about one call of `unit_propagate` the proof needs -/
theorem propagate_facts {vs vars : List Nat} {nvars : Nat} (hnv : vs.length ≤ nvars)
    (hsub : ∀ x ∈ vars, x ∈ vs) {cnf : CNF} {tr : Trail} {level : Nat}
    (ht : TrailOK cnf tr level) (ho : TrailOrd cnf tr) (hcv : ∀ c ∈ cnf, ∀ l ∈ c, l.1 ∈ vars) :
    TrailOK cnf (unitPropagate (nvars + 2) cnf tr level).2 level ∧
    TrailOrd cnf (unitPropagate (nvars + 2) cnf tr level).2 ∧
    PrT cnf (unitPropagate (nvars + 2) cnf tr level).2 (unitPropagate (nvars + 2) cnf tr level).1 ∧
    ∃ ext, (unitPropagate (nvars + 2) cnf tr level).2 = tr ++ ext ∧
      (∀ a ∈ ext, a.lvl = level ∧ a.dec = false ∧ a.name ∈ vs) ∧
      ((∃ k l, scan tr cnf 0 false = .unit k l) → ext ≠ []) := by
  have h1 := unitPropagate_spec (nvars + 2) cnf tr level ht
  have h2 := unitPropagate_ord (nvars + 2) cnf tr level ho
  have h3 := unitPropagate_fuel_suffices (vs := vs) (fun c hc l hl => hsub _ (hcv c hc l hl))
    (nvars + 2) tr level (by have := freeVars_le vs tr; omega)
  have h4 := unitPropagate_ext (nvars + 2) cnf tr level
  obtain ⟨ext, he, hx1, hx2, hx3⟩ := unitPropagate_ext2 (nvars + 2) cnf tr level
  refine ⟨h1.1, h2, ⟨h3, h1.2, fun hu => ⟨h4.2 hu, hx3 (Or.inl hu)⟩⟩, ext, he, ?_, fun h => hx2 h (by omega)⟩
  intro a ha
  obtain ⟨e1, e2, c, hc, l, hl, e3⟩ := hx1 a ha
  exact ⟨e1, e2, e3 ▸ hsub _ (hcv c hc l hl)⟩

theorem filter_append_high {tr ext : Trail} {k lv : Nat} (hk : k < lv) (hext : ∀ a ∈ ext, a.lvl = lv) :
    (tr ++ ext).filter (fun a => a.lvl ≤ k) = tr.filter (fun a => a.lvl ≤ k) := by
  rw [List.filter_append]
  have : ext.filter (fun a => a.lvl ≤ k) = [] := by
    rw [List.filter_eq_nil_iff]
    intro a ha
    have := hext a ha
    simp; omega
  rw [this, List.append_nil]


/-- a `decide` round keeps the invariant and raises the rank -/
theorem decide_step {vs vars : List Nat} {nvars : Nat} (n : Nat) (hnv : vs.length ≤ nvars)
    (hsub : ∀ x ∈ vars, x ∈ vs) {s : St} (hi : TInv vs vars s)
    (hp : PrT s.cnf s.tr .undecided) :
    let r := unitPropagate (nvars + 2) s.cnf (decideVar vars s.tr (s.level + 1)) (s.level + 1)
    TInv vs vars { s with tr := r.2, level := s.level + 1 } ∧ PrT s.cnf r.2 r.1 ∧
      rank n s.tr < rank n r.2 := by
  intro r
  obtain ⟨⟨c, hc, l, hl, hu⟩, hnoconf⟩ := hp.2.2 rfl
  obtain ⟨w, hw, hwu, hdv⟩ := decideVar_eq (s.level + 1) ⟨l.1, hi.cvars c hc l hl, hu⟩
  have ht1 := hi.trail.decide vars
  have ho1 := hi.ord.decide vars (s.level + 1)
  obtain ⟨f1, f2, f3, ext, he, hx1, _⟩ := propagate_facts hnv hsub ht1 ho1 hi.cvars
  have htr : r.2 = s.tr ++ ([⟨w, true, true, s.level + 1, 0⟩] ++ ext) := by
    show (unitPropagate (nvars + 2) s.cnf (decideVar vars s.tr (s.level + 1)) (s.level + 1)).2 = _
    rw [he, hdv, List.append_assoc]
  have hnew : ∀ a ∈ ([⟨w, true, true, s.level + 1, 0⟩] ++ ext : Trail), a.lvl = s.level + 1 := by
    intro a ha
    rcases List.mem_append.mp ha with ha | ha
    · simp only [List.mem_singleton] at ha; subst ha; rfl
    · exact (hx1 a ha).1
  have hdecmem : ∀ a ∈ r.2, a.dec = true → a ∈ s.tr ∨ a = ⟨w, true, true, s.level + 1, 0⟩ := by
    intro a ha hd
    rw [htr] at ha
    rcases List.mem_append.mp ha with ha | ha
    · exact Or.inl ha
    · rcases List.mem_append.mp ha with ha | ha
      · exact Or.inr (List.mem_singleton.mp ha)
      · rw [(hx1 a ha).2.1] at hd; cases hd
  refine ⟨⟨f1, f2, hi.nd, hi.cvars, ?_, ?_, ?_, ?_, ?_⟩, f3, ?_⟩
  · intro a ha
    have ha' : a ∈ s.tr ++ ([⟨w, true, true, s.level + 1, 0⟩] ++ ext) := htr ▸ ha
    rcases List.mem_append.mp ha' with ha' | ha'
    · exact hi.names a ha'
    · rcases List.mem_append.mp ha' with ha' | ha'
      · simp only [List.mem_singleton] at ha'; subst ha'; exact hsub w hw
      · exact (hx1 a ha').2.2
  · intro a ha hd
    rcases hdecmem a ha hd with h | h
    · exact hi.dec1 a h hd
    · subst h; simp
  · intro a ha b hb hda hdb e
    rcases hdecmem a ha hda with h1 | h1 <;> rcases hdecmem b hb hdb with h2 | h2
    · exact hi.decinj a h1 b h2 hda hdb e
    · subst h2
      have := hi.trail.lvl_le a h1
      simp only at e; omega
    · subst h1
      have := hi.trail.lvl_le b h2
      simp only at e; omega
    · rw [h1, h2]
  · intro k hk1 hk2
    by_cases hk : k ≤ s.level
    · obtain ⟨a, ha, hd, hl'⟩ := hi.declvl k hk1 hk
      exact ⟨a, by rw [htr]; exact List.mem_append_left _ ha, hd, hl'⟩
    · refine ⟨⟨w, true, true, s.level + 1, 0⟩, by rw [htr]; simp, rfl, ?_⟩
      simp only at hk2 ⊢; omega
  · intro k hk c' hc'
    simp only at hk
    have hfil : (r.2).filter (fun a => a.lvl ≤ k) = s.tr.filter (fun a => a.lvl ≤ k) := by
      rw [htr]; exact filter_append_high (lv := s.level + 1) (by omega) hnew
    show ¬ Confl (List.filter (fun a => decide (a.lvl ≤ k)) r.2) c'
    rw [hfil]
    by_cases hk' : k < s.level
    · exact hi.low k hk' c' hc'
    · have : s.tr.filter (fun a => a.lvl ≤ k) = s.tr := by
        rw [List.filter_eq_self]
        intro a ha
        have := hi.trail.lvl_le a ha
        simp; omega
      rw [this]; exact hnoconf c' hc'
  · rw [htr, rank_append]
    have := rank_pos_of_ne_nil n (tr := [⟨w, true, true, s.level + 1, 0⟩] ++ ext) (by simp)
    omega


/-- a conflict with a non-empty learned clause: after the backjump and the propagation the
invariant holds again and the rank is higher -/
theorem backjump_step {vs vars : List Nat} {nvars af : Nat} (hnv : vs.length ≤ nvars)
    (hsub : ∀ x ∈ vars, x ∈ vs) {s : St} (hi : TInv vs vars s) {cid : Nat} {c0 : Clause}
    (hc0 : s.cnf[cid]? = some c0) (hf0 : AllFalse s.tr c0) {proof : List Nat} {clause : Clause}
    {orc' : List Clause} (han : analyze af s.cnf s.tr [cid] c0 s.orc = .ok (proof, clause, orc'))
    (hne : clause ≠ []) {bl : Nat} (hbl : backtrackLevel s.tr clause = .ok bl)
    (ps : List (Nat × List Nat)) :
    let r := unitPropagate (nvars + 2) (s.cnf ++ [clause]) (s.tr.filter (fun a => a.lvl ≤ bl)) bl
    TInv vs vars ⟨s.cnf ++ [clause], r.2, bl, ps, orc'⟩ ∧ PrT (s.cnf ++ [clause]) r.2 r.1 ∧
      rank vs.length s.tr < rank vs.length r.2 := by
  intro r
  have hc0m : c0 ∈ s.cnf := List.mem_iff_getElem?.mpr ⟨cid, hc0⟩
  have hfin := analyze_allFalse hi.trail _ _ _ _ _ _ _ han hf0
  obtain ⟨hpick, hcnd⟩ := analyze_ok_props _ _ _ _ _ _ _ han (hi.nd c0 hc0m)
  have hcv := analyze_vars (fun v => v ∈ vars) hi.cvars _ _ _ _ _ _ _ han (hi.cvars c0 hc0m)
  have hdf : DecFalse s.tr clause := pick_noResolution hpick
  obtain ⟨ltop, hltop, htop, hrest⟩ := backtrackLevel_spec hi.dec1 hi.decinj hdf hcnd hne hbl
  obtain ⟨hsat, hun⟩ := learned_unit_after_backjump hi.trail.nodup hdf hcnd hltop htop hrest
  obtain ⟨atop, hatop, _, _⟩ := hdf ltop hltop
  have hatm := (lookup_some hatop).1
  have hatn := (lookup_some hatop).2
  have hatl : lvlAt s.tr ltop = atop.lvl := by simp [lvlAt, hatop]
  have hbllt : bl < s.level := by
    have := hi.trail.lvl_le atop hatm
    rw [hatl] at htop; omega
  have ht' : TrailOK (s.cnf ++ [clause]) (s.tr.filter (fun a => a.lvl ≤ bl)) bl :=
    (hi.trail.backtrack bl).append_cnf [clause]
  have ho' : TrailOrd (s.cnf ++ [clause]) (s.tr.filter (fun a => a.lvl ≤ bl)) :=
    (hi.ord.backtrack hi.trail bl).append_cnf (hi.trail.backtrack bl) [clause]
  have hcv' : ∀ c ∈ s.cnf ++ [clause], ∀ l ∈ c, l.1 ∈ vars := by
    intro c hc
    rcases List.mem_append.mp hc with hc | hc
    · exact hi.cvars c hc
    · simp only [List.mem_singleton] at hc; subst hc; exact hcv
  have hnoconf : ∀ c ∈ s.cnf ++ [clause], ¬ Confl (s.tr.filter (fun a => a.lvl ≤ bl)) c := by
    intro c hc
    rcases List.mem_append.mp hc with hc | hc
    · exact hi.low bl hbllt c hc
    · simp only [List.mem_singleton] at hc; subst hc
      intro hcf
      have h2 := hcf.2
      rw [hun] at h2; cases h2
  have hunit := scan_unit_of (tr := s.tr.filter (fun a => a.lvl ≤ bl)) 0 false hnoconf
    ⟨clause, by simp, hsat, ltop, hun⟩
  obtain ⟨f1, f2, f3, ext, he, hx1, hx2⟩ := propagate_facts hnv hsub ht' ho' hcv'
  have hextne := hx2 hunit
  have htr : r.2 = s.tr.filter (fun a => a.lvl ≤ bl) ++ ext := he
  have hold : ∀ a ∈ r.2, a.dec = true → a ∈ s.tr ∧ a.lvl ≤ bl := by
    intro a ha hd
    rw [htr] at ha
    rcases List.mem_append.mp ha with ha | ha
    · have := List.mem_filter.mp ha
      exact ⟨this.1, by simpa using this.2⟩
    · rw [(hx1 a ha).2.1] at hd; cases hd
  have hlen : s.tr.length ≤ vs.length := trail_length_le hi.trail.nodup hi.names
  have hlvl : s.level ≤ s.tr.length := level_le_length hi.declvl
  refine ⟨⟨f1, f2, ?_, hcv', ?_, ?_, ?_, ?_, ?_⟩, f3, ?_⟩
  · intro c hc
    rcases List.mem_append.mp hc with hc | hc
    · exact hi.nd c hc
    · simp only [List.mem_singleton] at hc; subst hc; exact hcnd
  · intro a ha
    have ha' : a ∈ s.tr.filter (fun a => a.lvl ≤ bl) ++ ext := htr ▸ ha
    rcases List.mem_append.mp ha' with ha' | ha'
    · exact hi.names a (List.mem_filter.mp ha').1
    · exact (hx1 a ha').2.2
  · intro a ha hd
    exact hi.dec1 a (hold a ha hd).1 hd
  · intro a ha b hb hda hdb e
    exact hi.decinj a (hold a ha hda).1 b (hold b hb hdb).1 hda hdb e
  · intro k hk1 hk2
    simp only at hk2
    obtain ⟨a, ha, hd, hl'⟩ := hi.declvl k hk1 (by omega)
    refine ⟨a, ?_, hd, hl'⟩
    show a ∈ r.2
    rw [htr]
    exact List.mem_append_left _ (List.mem_filter.mpr ⟨ha, by simp; omega⟩)
  · intro k hk c' hc'
    simp only at hk
    have hfil : (r.2).filter (fun a => a.lvl ≤ k) = s.tr.filter (fun a => a.lvl ≤ k) := by
      rw [htr, filter_append_high (lv := bl) hk (fun a ha => (hx1 a ha).1), List.filter_filter]
      apply List.filter_congr
      intro a _
      by_cases h : a.lvl ≤ k
      · have : a.lvl ≤ bl := by omega
        simp [h, this]
      · simp [h]
    show ¬ Confl (List.filter (fun a => decide (a.lvl ≤ k)) r.2) c'
    rw [hfil]
    rcases List.mem_append.mp hc' with hc' | hc'
    · exact hi.low k (by omega) c' hc'
    · simp only [List.mem_singleton] at hc'; subst hc'
      intro hcf
      have hnone : lookup (s.tr.filter (fun a => a.lvl ≤ k)) ltop.1 = none := by
        rw [← hatn]
        apply lookup_filter_none hi.trail.nodup hatm
        rw [hatl] at htop
        simp; omega
      have : ltop ∈ unassigned (s.tr.filter (fun a => a.lvl ≤ k)) c' :=
        List.mem_filter.mpr ⟨hltop, by simp [litUnassigned, hnone]⟩
      rw [hcf.2] at this; cases this
  · rw [htr]
    exact rank_backjump hlen (by omega) hextne (fun a ha => (hx1 a ha).1)


/-- The main loop ends: while the fuel exceeds what is left of the rank's range
`n·(n+1)^n` (and `analyze_conflict` gets `2^n`), no error — in particular not "out of fuel" —
is returned. -/
theorem mainLoop_terminates (vs vars : List Nat) (nvars af : Nat) (hnv : vs.length ≤ nvars)
    (hsub : ∀ x ∈ vars, x ∈ vs) (haf : 2 ^ vs.length ≤ af) :
    ∀ (fuel : Nat) (s : St) (pr : Prop'), TInv vs vars s → PrT s.cnf s.tr pr →
      vs.length * (vs.length + 1) ^ vs.length - rank vs.length s.tr < fuel →
      ∀ e, mainLoop vars nvars af fuel s pr ≠ .error e := by
  intro fuel
  induction fuel with
  | zero => intro s pr _ _ h; omega
  | succ f ih =>
    intro s pr hi hp hfuel e
    have hbound : ∀ tr : Trail, (tr.map (·.name)).Nodup → (∀ a ∈ tr, a.name ∈ vs) →
        rank vs.length tr ≤ vs.length * (vs.length + 1) ^ vs.length := by
      intro tr h1 h2
      exact Nat.le_trans (rank_le _ tr) (Nat.mul_le_mul_right _ (trail_length_le h1 h2))
    unfold mainLoop
    split
    · exact absurd rfl hp.1
    · simp
    · -- undecided
      obtain ⟨hi', hp', hr⟩ := decide_step vs.length hnv hsub hi hp
      dsimp only at hi' hp' hr ⊢
      generalize unitPropagate (nvars + 2) s.cnf (decideVar vars s.tr (s.level + 1)) (s.level + 1) = up
        at hi' hp' hr
      obtain ⟨pr', tr'⟩ := up
      refine ih _ pr' hi' hp' ?_ e
      have := hbound tr' hi'.trail.nodup hi'.names
      simp only at hr this ⊢
      omega
    · -- conflict
      rename_i cid
      obtain ⟨c0, hc0, hf0⟩ := hp.2.1
      simp only [hc0]
      have hc0m : c0 ∈ s.cnf := List.mem_iff_getElem?.mpr ⟨cid, hc0⟩
      have hlen : s.tr.length ≤ vs.length := trail_length_le hi.trail.nodup hi.names
      obtain ⟨⟨proof, clause, orc'⟩, han⟩ := analyze_terminates' hi.trail hi.ord hi.nd
        (af := af) (Nat.le_trans (Nat.pow_le_pow_right (by omega) hlen) haf) [cid] s.orc hf0
        (hi.nd c0 hc0m)
      simp only [han]
      by_cases hemp : clause.isEmpty = true
      · simp [hemp]
      · rw [if_neg hemp]
        have hfin := analyze_allFalse hi.trail _ _ _ _ _ _ _ han hf0
        obtain ⟨bl, hbl⟩ := backtrackLevel_ok hi.trail.nodup hfin (by simpa using hemp)
        simp only [hbl]
        obtain ⟨hi', hp', hr⟩ := backjump_step (af := af) hnv hsub hi hc0 hf0 han
          (by intro h; subst h; simp at hemp) hbl (s.proofs ++ [(s.cnf.length, proof)])
        generalize unitPropagate (nvars + 2) (s.cnf ++ [clause])
          (s.tr.filter (fun a => decide (a.lvl ≤ bl))) bl = up at hi' hp' hr
        obtain ⟨pr', tr'⟩ := up
        refine ih _ pr' hi' hp' ?_ e
        have := hbound tr' hi'.trail.nodup hi'.names
        simp only at hr this ⊢
        omega


/-- rounds of `while True` that always suffice for `n` variables: the range of the rank,
`n·(n+1)^n`, and `2^n` for the loop of `analyze_conflict` (the model uses one fuel for both) -/
def termFuel (n : Nat) : Nat := n * (n + 1) ^ n + 2 ^ n + 1

theorem solveCnf_terminates {fuel : Nat} {cnf : CNF} {o : Oracle}
    (hfuel : termFuel (varsOf (cnf.map dedup)).length ≤ fuel) :
    ∀ e, solveCnf fuel cnf o ≠ .error e := by
  unfold solveCnf
  dsimp only
  unfold termFuel at hfuel
  have hvars : ∀ c ∈ cnf.map dedup, ∀ l ∈ c, l.1 ∈ varsOf (cnf.map dedup) :=
    fun c hc l hl => mem_varsOf hc hl
  have hnd : ∀ c ∈ cnf.map dedup, c.Nodup := by
    intro c hc
    obtain ⟨c', _, rfl⟩ := List.mem_map.mp hc
    exact dedup_nodup c'
  have hB : (varsOf (cnf.map dedup)).length * ((varsOf (cnf.map dedup)).length + 1) ^
      (varsOf (cnf.map dedup)).length < fuel := by
    have := Nat.zero_le (2 ^ (varsOf (cnf.map dedup)).length)
    omega
  have hA : 2 ^ (varsOf (cnf.map dedup)).length ≤ fuel := by
    have := Nat.zero_le ((varsOf (cnf.map dedup)).length *
      ((varsOf (cnf.map dedup)).length + 1) ^ (varsOf (cnf.map dedup)).length)
    omega
  -- whichever decision order is used, it lists the variables
  have main : ∀ vars : List Nat, (∀ x ∈ vars, x ∈ varsOf (cnf.map dedup)) →
      (∀ x ∈ varsOf (cnf.map dedup), x ∈ vars) →
      ∀ e, mainLoop vars (varsOf (cnf.map dedup)).length fuel fuel
        ⟨cnf.map dedup,
          (unitPropagate ((varsOf (cnf.map dedup)).length + 2) (cnf.map dedup) [] 0).2, 0, [], o.res⟩
        (unitPropagate ((varsOf (cnf.map dedup)).length + 2) (cnf.map dedup) [] 0).1 ≠ .error e := by
    intro vars hsub hsup e
    have hcv : ∀ c ∈ cnf.map dedup, ∀ l ∈ c, l.1 ∈ vars := fun c hc l hl => hsup _ (hvars c hc l hl)
    obtain ⟨f1, f2, f3, ext, he, hx1, _⟩ := propagate_facts (Nat.le_refl _) hsub
      (TrailOK.nil (cnf.map dedup) 0) (TrailOrd.nil (cnf.map dedup)) hcv
    simp only [List.nil_append] at he
    have hx1' : ∀ a ∈ (unitPropagate ((varsOf (cnf.map dedup)).length + 2) (cnf.map dedup) [] 0).2,
        a.lvl = 0 ∧ a.dec = false ∧ a.name ∈ varsOf (cnf.map dedup) := he ▸ hx1
    refine mainLoop_terminates (varsOf (cnf.map dedup)) vars _ fuel (Nat.le_refl _) hsub hA fuel
      ⟨cnf.map dedup, _, 0, [], o.res⟩ _
      ⟨f1, f2, hnd, hcv, fun a ha => (hx1' a ha).2.2, ?_, ?_, ?_, ?_⟩ f3
      (Nat.lt_of_le_of_lt (Nat.sub_le _ _) hB) e
    · intro a ha hd; rw [(hx1' a ha).2.1] at hd; cases hd
    · intro a ha b _ hd; rw [(hx1' a ha).2.1] at hd; cases hd
    · intro k h1 h2; simp only at h2; omega
    · intro k hk; simp only at hk; omega
  split
  · rename_i hok
    simp only [Bool.and_eq_true, List.all_eq_true, List.contains_iff_mem] at hok
    exact main o.vars (fun x hx => hok.2 x hx) (fun x hx => hok.1.2 x hx)
  · exact main _ (fun x hx => hx) (fun x hx => hx)

end Holpy.C15
