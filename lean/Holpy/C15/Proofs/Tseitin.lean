import Holpy.C15.Model
import Holpy.C15.Proofs.Basic
namespace Holpy.C15

theorem mem_dedupF_aux (c : List Form) : ∀ (acc : List Form) (l : Form),
    l ∈ c.foldl (fun acc l => if acc.contains l then acc else acc ++ [l]) acc ↔ l ∈ acc ∨ l ∈ c := by
  induction c with
  | nil => simp
  | cons x xs ih =>
    intro acc l
    simp only [List.foldl_cons, ih, List.mem_cons]
    by_cases h : acc.contains x = true
    · simp only [h, if_true]
      have : x ∈ acc := List.contains_iff_mem.mp h
      constructor
      · rintro (h | h) <;> simp [h]
      · rintro (h | h | h) <;> simp_all
    · simp only [h]
      simp
      grind

theorem mem_dedupF {c : List Form} {l : Form} : l ∈ dedupF c ↔ l ∈ c := by
  unfold dedupF; rw [mem_dedupF_aux]; simp

/-! ### semantics of the five clause groups -/

theorem sat_clausesNot (σ : Nat → Bool) (l r : Nat) :
    Sat σ (clausesNot l r) ↔ σ l = !(σ r) := by
  simp only [Sat, clausesNot, List.mem_cons, List.not_mem_nil, or_false, forall_eq_or_imp,
    forall_eq, exists_eq_or_imp, exists_eq_left]
  cases σ l <;> cases σ r <;> simp

theorem sat_clausesAnd (σ : Nat → Bool) (l r1 r2 : Nat) :
    Sat σ (clausesAnd l r1 r2) ↔ σ l = (σ r1 && σ r2) := by
  simp only [Sat, clausesAnd, List.mem_cons, List.not_mem_nil, or_false, forall_eq_or_imp,
    forall_eq, exists_eq_or_imp, exists_eq_left]
  cases σ l <;> cases σ r1 <;> cases σ r2 <;> simp

theorem sat_clausesOr (σ : Nat → Bool) (l r1 r2 : Nat) :
    Sat σ (clausesOr l r1 r2) ↔ σ l = (σ r1 || σ r2) := by
  simp only [Sat, clausesOr, List.mem_cons, List.not_mem_nil, or_false, forall_eq_or_imp,
    forall_eq, exists_eq_or_imp, exists_eq_left]
  cases σ l <;> cases σ r1 <;> cases σ r2 <;> simp

theorem sat_clausesImp (σ : Nat → Bool) (l r1 r2 : Nat) :
    Sat σ (clausesImp l r1 r2) ↔ σ l = (!(σ r1) || σ r2) := by
  simp only [Sat, clausesImp, List.mem_cons, List.not_mem_nil, or_false, forall_eq_or_imp,
    forall_eq, exists_eq_or_imp, exists_eq_left]
  cases σ l <;> cases σ r1 <;> cases σ r2 <;> simp

theorem sat_clausesIff (σ : Nat → Bool) (l r1 r2 : Nat) :
    Sat σ (clausesIff l r1 r2) ↔ σ l = (σ r1 == σ r2) := by
  simp only [Sat, clausesIff, List.mem_cons, List.not_mem_nil, or_false, forall_eq_or_imp,
    forall_eq, exists_eq_or_imp, exists_eq_left]
  cases σ l <;> cases σ r1 <;> cases σ r2 <;> simp


/-! ### subterms -/

theorem Form.self_mem_subs (g : Form) : g ∈ g.subs := by
  cases g <;> simp [Form.subs]

theorem Form.subs_trans {f : Form} : ∀ {g : Form}, g ∈ f.subs → ∀ h ∈ g.subs, h ∈ f.subs := by
  induction f with
  | atom n => intro g hg h hh; simp only [Form.subs, List.mem_singleton] at hg; subst hg; exact hh
  | not a iha =>
    intro g hg h hh
    simp only [Form.subs, List.mem_append, List.mem_singleton] at hg ⊢
    rcases hg with hg | rfl
    · exact Or.inl (iha hg h hh)
    · simpa [Form.subs] using hh
  | and a b iha ihb | or a b iha ihb | imp a b iha ihb | iff a b iha ihb =>
    intro g hg h hh
    simp only [Form.subs, List.mem_append, List.mem_singleton] at hg ⊢
    rcases hg with (hg | hg) | rfl
    · exact Or.inl (Or.inl (iha hg h hh))
    · exact Or.inl (Or.inr (ihb hg h hh))
    · simpa [Form.subs, or_assoc] using hh

/-- a list of formulas closed under immediate subformulas -/
def Closed (order : List Form) : Prop :=
  (∀ a, Form.not a ∈ order → a ∈ order) ∧
  (∀ a b, Form.and a b ∈ order → a ∈ order ∧ b ∈ order) ∧
  (∀ a b, Form.or a b ∈ order → a ∈ order ∧ b ∈ order) ∧
  (∀ a b, Form.imp a b ∈ order → a ∈ order ∧ b ∈ order) ∧
  (∀ a b, Form.iff a b ∈ order → a ∈ order ∧ b ∈ order)

theorem closed_of_same_subs {order : List Form} {f : Form} (h : ∀ g, g ∈ order ↔ g ∈ f.subs) :
    Closed order := by
  have key : ∀ g c, g ∈ order → c ∈ g.subs → c ∈ order :=
    fun g c hg hc => (h c).mpr (Form.subs_trans ((h g).mp hg) c hc)
  refine ⟨fun a ha => key _ a ha ?_, fun a b ha => ⟨key _ a ha ?_, key _ b ha ?_⟩,
    fun a b ha => ⟨key _ a ha ?_, key _ b ha ?_⟩, fun a b ha => ⟨key _ a ha ?_, key _ b ha ?_⟩,
    fun a b ha => ⟨key _ a ha ?_, key _ b ha ?_⟩⟩ <;>
  simp [Form.subs, Form.self_mem_subs]

/-! ### equisatisfiability -/

/-- From a model of the CNF: every numbered subterm's variable has the value of the subterm under
the valuation read off the atoms' variables. -/
theorem var_eq_eval {order : List Form} {f : Form} {σ : Nat → Bool} (hc : Closed order)
    (hs : Sat σ (tseitinWith order f)) :
    ∀ g, g ∈ order → σ (varOf order g) = g.eval (fun a => σ (varOf order (.atom a))) := by
  have hcl : ∀ g ∈ order, Sat σ (clausesOf order g) := by
    intro g hg cl hcl
    apply hs
    simp only [tseitinWith, List.mem_append, List.mem_flatMap]
    exact Or.inl ⟨g, hg, hcl⟩
  obtain ⟨c1, c2, c3, c4, c5⟩ := hc
  intro g
  induction g with
  | atom n => intro _; rfl
  | not a iha =>
    intro hg
    have := (sat_clausesNot σ _ _).mp (hcl _ hg)
    rw [this, iha (c1 a hg)]; rfl
  | and a b iha ihb =>
    intro hg
    have := (sat_clausesAnd σ _ _ _).mp (hcl _ hg)
    rw [this, iha (c2 a b hg).1, ihb (c2 a b hg).2]; rfl
  | or a b iha ihb =>
    intro hg
    have := (sat_clausesOr σ _ _ _).mp (hcl _ hg)
    rw [this, iha (c3 a b hg).1, ihb (c3 a b hg).2]; rfl
  | imp a b iha ihb =>
    intro hg
    have := (sat_clausesImp σ _ _ _).mp (hcl _ hg)
    rw [this, iha (c4 a b hg).1, ihb (c4 a b hg).2]; rfl
  | iff a b iha ihb =>
    intro hg
    have := (sat_clausesIff σ _ _ _).mp (hcl _ hg)
    rw [this, iha (c5 a b hg).1, ihb (c5 a b hg).2]; rfl

/-- the assignment giving every numbered subterm its value under `ρ` -/
def extend (order : List Form) (ρ : Nat → Bool) (n : Nat) : Bool :=
  match n with
  | 0 => false
  | k + 1 => match order[k]? with
    | some g => g.eval ρ
    | none => false

theorem extend_varOf {order : List Form} (ρ : Nat → Bool) {g : Form} (hg : g ∈ order) :
    extend order ρ (varOf order g) = g.eval ρ := by
  have hlt : order.idxOf g < order.length := List.idxOf_lt_length_iff.mpr hg
  simp only [extend, varOf]
  rw [List.getElem?_eq_getElem hlt, List.getElem_idxOf hlt]

theorem tseitinWith_equisat {order : List Form} {f : Form} (h : ∀ g, g ∈ order ↔ g ∈ f.subs) :
    (∃ σ, Sat σ (tseitinWith order f)) ↔ (∃ ρ, f.eval ρ = true) := by
  have hc := closed_of_same_subs h
  have hf : f ∈ order := (h f).mpr f.self_mem_subs
  constructor
  · rintro ⟨σ, hs⟩
    refine ⟨fun a => σ (varOf order (.atom a)), ?_⟩
    rw [← var_eq_eval hc hs f hf]
    obtain ⟨l, hl, hv⟩ := hs [(varOf order f, true)] (by simp [tseitinWith])
    simp only [List.mem_singleton] at hl; subst hl; exact hv
  · rintro ⟨ρ, hρ⟩
    refine ⟨extend order ρ, ?_⟩
    intro cl hcl
    simp only [tseitinWith, List.mem_append, List.mem_flatMap, List.mem_singleton] at hcl
    rcases hcl with ⟨g, hg, hcl⟩ | rfl
    · obtain ⟨c1, c2, c3, c4, c5⟩ := hc
      revert cl
      show Sat (extend order ρ) (clausesOf order g)
      cases g with
      | atom n => intro cl hcl; simp [clausesOf] at hcl
      | not a =>
        rw [clausesOf, sat_clausesNot, extend_varOf ρ hg, extend_varOf ρ (c1 a hg)]; rfl
      | and a b =>
        rw [clausesOf, sat_clausesAnd, extend_varOf ρ hg, extend_varOf ρ (c2 a b hg).1,
          extend_varOf ρ (c2 a b hg).2]; rfl
      | or a b =>
        rw [clausesOf, sat_clausesOr, extend_varOf ρ hg, extend_varOf ρ (c3 a b hg).1,
          extend_varOf ρ (c3 a b hg).2]; rfl
      | imp a b =>
        rw [clausesOf, sat_clausesImp, extend_varOf ρ hg, extend_varOf ρ (c4 a b hg).1,
          extend_varOf ρ (c4 a b hg).2]; rfl
      | iff a b =>
        rw [clausesOf, sat_clausesIff, extend_varOf ρ hg, extend_varOf ρ (c5 a b hg).1,
          extend_varOf ρ (c5 a b hg).2]; rfl
    · exact ⟨_, List.mem_singleton.mpr rfl, by rw [extend_varOf ρ hf]; exact hρ⟩

theorem tseitinOrd_equisat (f : Form) (o : List Form) :
    (∃ σ, Sat σ (tseitinOrd f o)) ↔ (∃ ρ, f.eval ρ = true) := by
  unfold tseitinOrd
  dsimp only
  split
  · rename_i hv
    simp only [Bool.and_eq_true, List.all_eq_true, List.contains_iff_mem] at hv
    exact tseitinWith_equisat fun g =>
      ⟨fun hg => mem_dedupF.mp (hv.1 g hg), fun hg => hv.2 g (mem_dedupF.mpr hg)⟩
  · exact tseitinWith_equisat fun g => mem_dedupF

end Holpy.C15
