import Holpy.C15.Model
import Holpy.C15.Proofs.Basic
namespace Holpy.C15

theorem mem_dedupF_aux (c : List Form) : ∀ (acc : List Form) (l : Form),
    l ∈ c.foldl (fun acc l => if acc.contains l then acc else acc ++ [l]) acc ↔ l ∈ acc ∨ l ∈ c := by
  induction c with
  | nil => simp
  | cons x xs ih =>
    intro acc l
    simp only [List.foldl_cons, ih, List.mem_cons]
    by_cases h : acc.contains x = true
    · simp only [h, if_true]
      have : x ∈ acc := List.contains_iff_mem.mp h
      constructor
      · rintro (h | h) <;> simp [h]
      · rintro (h | h | h) <;> simp_all
    · simp only [h]
      simp
      grind

theorem mem_dedupF {c : List Form} {l : Form} : l ∈ dedupF c ↔ l ∈ c := by
  unfold dedupF; rw [mem_dedupF_aux]; simp

/-! ### semantics of the five clause groups -/

theorem sat_clausesNot (σ : Nat → Bool) (l r : Nat) :
    Sat σ (clausesNot l r) ↔ σ l = !(σ r) := by
  simp only [Sat, clausesNot, List.mem_cons, List.not_mem_nil, or_false, forall_eq_or_imp,
    forall_eq, exists_eq_or_imp, exists_eq_left]
  cases σ l <;> cases σ r <;> simp

theorem sat_clausesAnd (σ : Nat → Bool) (l r1 r2 : Nat) :
    Sat σ (clausesAnd l r1 r2) ↔ σ l = (σ r1 && σ r2) := by
  simp only [Sat, clausesAnd, List.mem_cons, List.not_mem_nil, or_false, forall_eq_or_imp,
    forall_eq, exists_eq_or_imp, exists_eq_left]
  cases σ l <;> cases σ r1 <;> cases σ r2 <;> simp

theorem sat_clausesOr (σ : Nat → Bool) (l r1 r2 : Nat) :
    Sat σ (clausesOr l r1 r2) ↔ σ l = (σ r1 || σ r2) := by
  simp only [Sat, clausesOr, List.mem_cons, List.not_mem_nil, or_false, forall_eq_or_imp,
    forall_eq, exists_eq_or_imp, exists_eq_left]
  cases σ l <;> cases σ r1 <;> cases σ r2 <;> simp

theorem sat_clausesImp (σ : Nat → Bool) (l r1 r2 : Nat) :
    Sat σ (clausesImp l r1 r2) ↔ σ l = (!(σ r1) || σ r2) := by
  simp only [Sat, clausesImp, List.mem_cons, List.not_mem_nil, or_false, forall_eq_or_imp,
    forall_eq, exists_eq_or_imp, exists_eq_left]
  cases σ l <;> cases σ r1 <;> cases σ r2 <;> simp

theorem sat_clausesIff (σ : Nat → Bool) (l r1 r2 : Nat) :
    Sat σ (clausesIff l r1 r2) ↔ σ l = (σ r1 == σ r2) := by
  simp only [Sat, clausesIff, List.mem_cons, List.not_mem_nil, or_false, forall_eq_or_imp,
    forall_eq, exists_eq_or_imp, exists_eq_left]
  cases σ l <;> cases σ r1 <;> cases σ r2 <;> simp


/-! ### subterms -/

theorem Form.self_mem_subs (g : Form) : g ∈ g.subs := by
  cases g <;> simp [Form.subs]

theorem Form.subs_trans {f : Form} : ∀ {g : Form}, g ∈ f.subs → ∀ h ∈ g.subs, h ∈ f.subs := by
  induction f with
  | atom n => intro g hg h hh; simp only [Form.subs, List.mem_singleton] at hg; subst hg; exact hh
  | tt => intro g hg h hh; simp only [Form.subs, List.mem_singleton] at hg; subst hg; exact hh
  | ff => intro g hg h hh; simp only [Form.subs, List.mem_singleton] at hg; subst hg; exact hh
  | not a iha =>
    intro g hg h hh
    simp only [Form.subs, List.mem_append, List.mem_singleton] at hg ⊢
    rcases hg with hg | rfl
    · exact Or.inl (iha hg h hh)
    · simpa [Form.subs] using hh
  | and a b iha ihb | or a b iha ihb | imp a b iha ihb | iff a b iha ihb =>
    intro g hg h hh
    simp only [Form.subs, List.mem_append, List.mem_singleton] at hg ⊢
    rcases hg with (hg | hg) | rfl
    · exact Or.inl (Or.inl (iha hg h hh))
    · exact Or.inl (Or.inr (ihb hg h hh))
    · simpa [Form.subs, or_assoc] using hh

theorem Form.children_sub (g : Form) : ∀ c ∈ g.children, c ∈ g.subs := by
  cases g <;> simp [Form.children, Form.subs, Form.self_mem_subs]

/-- names of a subterm are names of the formula -/
theorem Form.names_of_subs {f : Form} : ∀ {g : Form}, g ∈ f.subs → ∀ m ∈ g.names, m ∈ f.names := by
  induction f with
  | atom n => intro g hg m hm; simp only [Form.subs, List.mem_singleton] at hg; subst hg; exact hm
  | tt => intro g hg m hm; simp only [Form.subs, List.mem_singleton] at hg; subst hg; exact hm
  | ff => intro g hg m hm; simp only [Form.subs, List.mem_singleton] at hg; subst hg; exact hm
  | not a iha =>
    intro g hg m hm
    simp only [Form.subs, List.mem_append, List.mem_singleton] at hg
    rcases hg with hg | rfl
    · exact iha hg m hm
    · exact hm
  | and a b iha ihb | or a b iha ihb | imp a b iha ihb | iff a b iha ihb =>
    intro g hg m hm
    simp only [Form.subs, List.mem_append, List.mem_singleton] at hg
    rcases hg with (hg | hg) | rfl
    · simp only [Form.names, List.mem_append]; exact Or.inl (iha hg m hm)
    · simp only [Form.names, List.mem_append]; exact Or.inr (ihb hg m hm)
    · exact hm

/-- a list of formulas closed under immediate subformulas -/
def Closed (order : List Form) : Prop := ∀ g ∈ order, ∀ c ∈ g.children, c ∈ order

theorem closed_of_same_subs {order : List Form} {f : Form} (h : ∀ g, g ∈ order ↔ g ∈ f.subs) :
    Closed order := fun g hg c hc =>
  (h c).mpr (Form.subs_trans ((h g).mp hg) c (g.children_sub c hc))

/-! ### equisatisfiability of the intended clause set -/

/-- the clauses of all equations and the unit clause of the top variable -/
def coreCNF (names : List Nat) (order : List Form) (f : Form) : CNF :=
  order.flatMap (clausesOf names order) ++ [[(varOf names order f, true)]]

/-- From a model of the CNF: every numbered subterm's variable has the value of the subterm under
the valuation read off the atoms' variables. -/
theorem var_eq_eval {names : List Nat} {order : List Form} {f : Form} {σ : Nat → Bool}
    (hc : Closed order) (hs : Sat σ (coreCNF names order f)) :
    ∀ g, g ∈ order → σ (varOf names order g) =
      g.eval (fun a => σ (varOf names order (.atom a))) := by
  have hcl : ∀ g ∈ order, Sat σ (clausesOf names order g) := by
    intro g hg cl hcl
    apply hs
    simp only [coreCNF, List.mem_append, List.mem_flatMap]
    exact Or.inl ⟨g, hg, hcl⟩
  intro g
  induction g with
  | atom n => intro _; rfl
  | tt =>
    intro hg
    obtain ⟨l, hl, hv⟩ := hcl _ hg [(varOf names order .tt, true)] (by simp [clausesOf])
    simp only [List.mem_singleton] at hl; subst hl; exact hv
  | ff =>
    intro hg
    obtain ⟨l, hl, hv⟩ := hcl _ hg [(varOf names order .ff, false)] (by simp [clausesOf])
    simp only [List.mem_singleton] at hl; subst hl; exact hv
  | not a iha =>
    intro hg
    have := (sat_clausesNot σ _ _).mp (hcl _ hg)
    rw [this, iha (hc _ hg a (by simp [Form.children]))]; rfl
  | and a b iha ihb =>
    intro hg
    have := (sat_clausesAnd σ _ _ _).mp (hcl _ hg)
    rw [this, iha (hc _ hg a (by simp [Form.children])), ihb (hc _ hg b (by simp [Form.children]))]; rfl
  | or a b iha ihb =>
    intro hg
    have := (sat_clausesOr σ _ _ _).mp (hcl _ hg)
    rw [this, iha (hc _ hg a (by simp [Form.children])), ihb (hc _ hg b (by simp [Form.children]))]; rfl
  | imp a b iha ihb =>
    intro hg
    have := (sat_clausesImp σ _ _ _).mp (hcl _ hg)
    rw [this, iha (hc _ hg a (by simp [Form.children])), ihb (hc _ hg b (by simp [Form.children]))]; rfl
  | iff a b iha ihb =>
    intro hg
    have := (sat_clausesIff σ _ _ _).mp (hcl _ hg)
    rw [this, iha (hc _ hg a (by simp [Form.children])), ihb (hc _ hg b (by simp [Form.children]))]; rfl

/-- the assignment giving every named subterm its value under `ρ` -/
def extend (names : List Nat) (order : List Form) (ρ : Nat → Bool) (x : Nat) : Bool :=
  match order[names.idxOf x]? with
  | some g => g.eval ρ
  | none => false

theorem varOf_eq {names : List Nat} {order : List Form} (hlen : names.length = order.length)
    {g : Form} (hg : g ∈ order) :
    ∃ h : order.idxOf g < names.length, varOf names order g = names[order.idxOf g] := by
  have hlt : order.idxOf g < order.length := List.idxOf_lt_length_iff.mpr hg
  refine ⟨hlen ▸ hlt, ?_⟩
  simp [varOf, List.getD_eq_getElem?_getD, List.getElem?_eq_getElem (hlen ▸ hlt)]

theorem varOf_mem {names : List Nat} {order : List Form} (hlen : names.length = order.length)
    {g : Form} (hg : g ∈ order) : varOf names order g ∈ names := by
  obtain ⟨h, e⟩ := varOf_eq hlen hg
  rw [e]; exact List.getElem_mem h

theorem varOf_inj {names : List Nat} {order : List Form} (hlen : names.length = order.length)
    (hn : names.Nodup) {g g' : Form} (hg : g ∈ order) (hg' : g' ∈ order)
    (h : varOf names order g = varOf names order g') : g = g' := by
  obtain ⟨h1, e1⟩ := varOf_eq hlen hg
  obtain ⟨h2, e2⟩ := varOf_eq hlen hg'
  rw [e1, e2] at h
  have hi : order.idxOf g = order.idxOf g' := by
    have a1 := hn.idxOf_getElem _ h1
    have a2 := hn.idxOf_getElem _ h2
    rw [h] at a1; rw [← a1, a2]
  have b1 := List.getElem_idxOf (List.idxOf_lt_length_iff.mpr hg)
  have b2 := List.getElem_idxOf (List.idxOf_lt_length_iff.mpr hg')
  rw [← b1, ← b2]; simp [hi]

theorem extend_varOf {names : List Nat} {order : List Form} (hlen : names.length = order.length)
    (hn : names.Nodup) (ρ : Nat → Bool) {g : Form} (hg : g ∈ order) :
    extend names order ρ (varOf names order g) = g.eval ρ := by
  obtain ⟨h, e⟩ := varOf_eq hlen hg
  have hlt : order.idxOf g < order.length := List.idxOf_lt_length_iff.mpr hg
  simp only [extend, e, hn.idxOf_getElem _ h, List.getElem?_eq_getElem hlt, List.getElem_idxOf hlt]

theorem coreCNF_equisat {names : List Nat} {order : List Form} {f : Form}
    (h : ∀ g, g ∈ order ↔ g ∈ f.subs) (hlen : names.length = order.length) (hn : names.Nodup) :
    (∃ σ, Sat σ (coreCNF names order f)) ↔ (∃ ρ, f.eval ρ = true) := by
  have hc := closed_of_same_subs h
  have hf : f ∈ order := (h f).mpr f.self_mem_subs
  constructor
  · rintro ⟨σ, hs⟩
    refine ⟨fun a => σ (varOf names order (.atom a)), ?_⟩
    rw [← var_eq_eval hc hs f hf]
    obtain ⟨l, hl, hv⟩ := hs [(varOf names order f, true)] (by simp [coreCNF])
    simp only [List.mem_singleton] at hl; subst hl; exact hv
  · rintro ⟨ρ, hρ⟩
    refine ⟨extend names order ρ, ?_⟩
    have ev : ∀ {g}, g ∈ order → extend names order ρ (varOf names order g) = g.eval ρ :=
      fun hg => extend_varOf hlen hn ρ hg
    intro cl hcl
    simp only [coreCNF, List.mem_append, List.mem_flatMap, List.mem_singleton] at hcl
    rcases hcl with ⟨g, hg, hcl⟩ | rfl
    · revert cl
      show Sat (extend names order ρ) (clausesOf names order g)
      have hch : ∀ c ∈ g.children, c ∈ order := hc g hg
      cases g with
      | atom n => intro cl hcl; simp [clausesOf] at hcl
      | tt =>
        intro cl hcl
        simp only [clausesOf, List.mem_singleton] at hcl; subst hcl
        exact ⟨_, List.mem_singleton.mpr rfl, by rw [ev hg]; rfl⟩
      | ff =>
        intro cl hcl
        simp only [clausesOf, List.mem_singleton] at hcl; subst hcl
        exact ⟨_, List.mem_singleton.mpr rfl, by rw [ev hg]; rfl⟩
      | not a =>
        rw [clausesOf, sat_clausesNot, ev hg, ev (hch a (by simp [Form.children]))]; rfl
      | and a b =>
        rw [clausesOf, sat_clausesAnd, ev hg, ev (hch a (by simp [Form.children])),
          ev (hch b (by simp [Form.children]))]; rfl
      | or a b =>
        rw [clausesOf, sat_clausesOr, ev hg, ev (hch a (by simp [Form.children])),
          ev (hch b (by simp [Form.children]))]; rfl
      | imp a b =>
        rw [clausesOf, sat_clausesImp, ev hg, ev (hch a (by simp [Form.children])),
          ev (hch b (by simp [Form.children]))]; rfl
      | iff a b =>
        rw [clausesOf, sat_clausesIff, ev hg, ev (hch a (by simp [Form.children])),
          ev (hch b (by simp [Form.children]))]; rfl
    · exact ⟨_, List.mem_singleton.mpr rfl, by rw [ev hf]; exact hρ⟩

/-! ### the fresh names -/

theorem le_sum_of_mem {l : List Nat} {u : Nat} (h : u ∈ l) : u ≤ l.sum := by
  induction l with
  | nil => cases h
  | cons x xs ih =>
    simp only [List.sum_cons]
    rcases List.mem_cons.mp h with rfl | h
    · omega
    · have := ih h; omega

theorem nextFree_ge (used : List Nat) : ∀ (fuel i : Nat), i ≤ nextFree used fuel i := by
  intro fuel
  induction fuel with
  | zero => intro i; exact Nat.le_refl _
  | succ k ih =>
    intro i
    unfold nextFree
    split
    · exact Nat.le_trans (Nat.le_succ i) (ih (i + 1))
    · exact Nat.le_refl _

/-- the `while` loop stops at an index whose name is free -/
theorem nextFree_free (used : List Nat) : ∀ (fuel i : Nat), used.sum < fuel + i →
    2 * nextFree used fuel i ∉ used := by
  intro fuel
  induction fuel with
  | zero =>
    intro i h hm
    have := le_sum_of_mem hm
    simp only [nextFree] at this; omega
  | succ k ih =>
    intro i h
    unfold nextFree
    split
    · exact ih (i + 1) (by omega)
    · rename_i hc
      intro hm; exact hc (List.contains_iff_mem.mpr hm)

theorem freshFrom_spec (used : List Nat) : ∀ (n i : Nat),
    (freshFrom used n i).length = n ∧ (∀ x ∈ freshFrom used n i, x ∉ used ∧ 2 * i ≤ x) ∧
    (freshFrom used n i).Nodup := by
  intro n
  induction n with
  | zero => intro i; simp [freshFrom]
  | succ k ih =>
    intro i
    simp only [freshFrom]
    obtain ⟨h1, h2, h3⟩ := ih (nextFree used (used.sum + 1) i + 1)
    have hge := nextFree_ge used (used.sum + 1) i
    refine ⟨by simp [h1], ?_, ?_⟩
    · intro x hx
      rcases List.mem_cons.mp hx with rfl | hx
      · exact ⟨nextFree_free used _ i (by omega), by omega⟩
      · have := h2 x hx; exact ⟨this.1, by omega⟩
    · rw [List.nodup_cons]
      refine ⟨fun hm => ?_, h3⟩
      have := (h2 _ hm).2; omega

theorem freshNames_spec (used : List Nat) (n : Nat) :
    (freshNames used n).length = n ∧ (∀ x ∈ freshNames used n, x ∉ used) ∧
    (freshNames used n).Nodup :=
  let ⟨a, b, c⟩ := freshFrom_spec used n 1
  ⟨a, fun x hx => (b x hx).1, c⟩

end Holpy.C15
