import Holpy.C15.Model
import Holpy.C15.Proofs.MainLoop
namespace Holpy.C15

theorem sat_map_dedup {σ : Nat → Bool} {cnf : CNF} : Sat σ (cnf.map dedup) ↔ Sat σ cnf := by
  unfold Sat
  constructor
  · intro h cl hcl
    obtain ⟨l, hl, hs⟩ := h (dedup cl) (List.mem_map_of_mem hcl)
    exact ⟨l, mem_dedup.mp hl, hs⟩
  · intro h cl hcl
    obtain ⟨c, hc, rfl⟩ := List.mem_map.mp hcl
    obtain ⟨l, hl, hs⟩ := h c hc
    exact ⟨l, mem_dedup.mpr hl, hs⟩

theorem solveCnf_spec (fuel : Nat) (cnf : CNF) (o : Oracle) :
    (∀ a, solveCnf fuel cnf o = .sat a → isSolution cnf a = true) ∧
    (∀ c' ps, solveCnf fuel cnf o = .unsat c' ps →
      (¬ ∃ σ, Sat σ cnf) ∧ checkTrace c' cnf.length ps = true ∧
      c'.take cnf.length = cnf.map dedup ∧ checkProofs cnf ps = true) ∧
    (∀ e, solveCnf fuel cnf o = .error e → e = .outOfFuel) := by
  unfold solveCnf
  dsimp only
  have ht := unitPropagate_spec ((varsOf (cnf.map dedup)).length + 2) (cnf.map dedup) [] 0
    (TrailOK.nil _ _)
  have hvars : ∀ c ∈ cnf.map dedup, ∀ l ∈ c, l.1 ∈ varsOf (cnf.map dedup) :=
    fun c hc l hl => mem_varsOf hc hl
  have hfu := unitPropagate_fuel_suffices hvars ((varsOf (cnf.map dedup)).length + 2) [] 0
    (by have := freeVars_le (varsOf (cnf.map dedup)) []; omega)
  generalize unitPropagate ((varsOf (cnf.map dedup)).length + 2) (cnf.map dedup) [] 0 = up at ht hfu
  obtain ⟨pr, tr⟩ := up
  dsimp only
  have hinv : Inv (cnf.map dedup) ⟨cnf.map dedup, tr, 0, [], o.res⟩ :=
    ⟨⟨[], by simp⟩, fun c hc σ hσ => hσ c hc, ht.1, TraceOK.nil _, ⟨_, rfl, Shadow.refl _⟩, hvars⟩
  obtain ⟨h1, h2, hnc⟩ := mainLoop_spec (cnf.map dedup) _ (varsOf (cnf.map dedup)).length fuel
    (Nat.le_refl _) fuel _ pr hinv ht.2 hfu
  refine ⟨?_, ?_, hnc⟩
  · intro a ha
    have := h1 a ha
    simp only [isSolution, List.all_eq_true]
    intro cl hcl
    have h3 := this (dedup cl) (List.mem_map_of_mem hcl)
    rw [List.any_eq_true] at h3 ⊢
    obtain ⟨l, hl, hs⟩ := h3
    exact ⟨l, mem_dedup.mp hl, hs⟩
  · intro c' ps h
    obtain ⟨h3, h4, h5, sh, h6, h7⟩ := h2 c' ps h
    simp only [List.length_map] at h4 h5 h7
    refine ⟨?_, h4, h5, ?_⟩
    · rintro ⟨σ, hσ⟩
      exact h3 ⟨σ, sat_map_dedup.mpr hσ⟩
    · simp only [checkProofs, h6, h7]

/-- The assignment read off a solution list (unassigned variables false). -/
def asgFun (a : List (Nat × Bool)) (n : Nat) : Bool :=
  match a.find? (fun p => p.1 == n) with
  | some p => p.2
  | none => false

theorem sat_of_isSolution {cnf : CNF} {a : List (Nat × Bool)} (h : isSolution cnf a = true) :
    Sat (asgFun a) cnf := by
  intro cl hcl
  simp only [isSolution, List.all_eq_true, List.any_eq_true] at h
  obtain ⟨l, hl, hs⟩ := h cl hcl
  refine ⟨l, hl, ?_⟩
  unfold litTrue at hs
  unfold asgFun
  split at hs
  · rename_i p hp; simp only [hp]; simpa using hs
  · cases hs

end Holpy.C15

namespace Holpy.C15

theorem rebuild_prefix : ∀ (ps : List (Nat × List Nat)) (c c' : CNF), rebuild c ps = some c' →
    ∃ ext, c' = c ++ ext := by
  intro ps
  induction ps with
  | nil => intro c c' h; simp only [rebuild, Option.some.injEq] at h; exact ⟨[], by simp [h]⟩
  | cons x xs ih =>
    intro c c' h
    obtain ⟨i, p⟩ := x
    unfold rebuild at h
    split at h
    · split at h
      · rename_i r _
        obtain ⟨ext, he⟩ := ih _ _ h
        exact ⟨[r] ++ ext, by simp [he]⟩
      · cases h
    · cases h

theorem checkProofs_unsat {cnf : CNF} {ps : List (Nat × List Nat)} (h : checkProofs cnf ps = true) :
    ¬ ∃ σ, Sat σ cnf := by
  unfold checkProofs at h
  split at h
  · rename_i c hc
    obtain ⟨ext, he⟩ := rebuild_prefix _ _ _ hc
    have := checkTrace_unsat h
    rw [he, List.take_append_of_le_length (by simp)] at this
    rw [List.take_of_length_le (by simp)] at this
    rintro ⟨σ, hσ⟩
    exact this ⟨σ, sat_map_dedup.mpr hσ⟩
  · cases h

end Holpy.C15
