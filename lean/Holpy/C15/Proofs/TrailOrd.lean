import Holpy.C15.Model
import Holpy.C15.Proofs.ListLemmas
import Holpy.C15.Proofs.NoCrash
namespace Holpy.C15

/-! ### order of the trail: a reason's other literals were assigned earlier -/

/-- position of the entry for `n` in the trail (the trail's length when unassigned) -/
def posOf (tr : Trail) (n : Nat) : Nat := tr.findIdx (fun a => a.name == n)

/-- `x` is assigned in a prefix of the trail in which `y` is not -/
def Before (tr : Trail) (x y : Nat) : Prop :=
  ∃ l1 l2, tr = l1 ++ l2 ∧ (∃ b ∈ l1, b.name = x) ∧ (∀ b ∈ l1, b.name ≠ y)

theorem Before.pos_lt {tr : Trail} {x y : Nat} (h : Before tr x y) : posOf tr x < posOf tr y := by
  obtain ⟨l1, l2, rfl, ⟨b, hb, hbx⟩, hy⟩ := h
  unfold posOf
  rw [List.findIdx_append, List.findIdx_append]
  have h1 : List.findIdx (fun a => a.name == x) l1 < l1.length :=
    List.findIdx_lt_length_of_exists ⟨b, hb, by simpa using hbx⟩
  have h2 : List.findIdx (fun a => a.name == y) l1 = l1.length :=
    List.findIdx_eq_length.mpr (fun a ha => by simpa using hy a ha)
  rw [if_pos h1, h2, if_neg (Nat.lt_irrefl _)]
  omega

theorem Before.append {tr : Trail} {x y : Nat} (h : Before tr x y) (ext : Trail) :
    Before (tr ++ ext) x y := by
  obtain ⟨l1, l2, rfl, h1, h2⟩ := h
  exact ⟨l1, l2 ++ ext, by simp, h1, h2⟩

theorem Before.filter {tr : Trail} {x y : Nat} (h : Before tr x y) (p : Asg → Bool)
    (hx : ∀ b ∈ tr, b.name = x → p b = true) : Before (tr.filter p) x y := by
  obtain ⟨l1, l2, rfl, ⟨b, hb, hbx⟩, h2⟩ := h
  refine ⟨l1.filter p, l2.filter p, by simp, ⟨b, ?_, hbx⟩, fun c hc => h2 c (List.mem_filter.mp hc).1⟩
  exact List.mem_filter.mpr ⟨hb, hx b (List.mem_append_left _ hb) hbx⟩

theorem before_new {tr : Trail} {a : Asg} {x : Nat} (hx : ∃ b ∈ tr, b.name = x)
    (hy : lookup tr a.name = none) : Before (tr ++ [a]) x a.name :=
  ⟨tr, [a], rfl, hx, fun b hb => lookup_none hy b hb⟩

theorem posOf_lt_of_mem {tr : Trail} {b : Asg} (hb : b ∈ tr) : posOf tr b.name < tr.length :=
  List.findIdx_lt_length_of_exists ⟨b, hb, by simp⟩

theorem posOf_spec {tr : Trail} {x : Nat} (hx : posOf tr x < tr.length) :
    ∃ a, tr[posOf tr x]? = some a ∧ a.name = x := by
  unfold posOf at hx ⊢
  refine ⟨tr[List.findIdx (fun a : Asg => a.name == x) tr], List.getElem?_eq_getElem hx, ?_⟩
  have := List.findIdx_getElem (w := hx)
  simpa using this

theorem posOf_inj {tr : Trail} {x y : Nat} (hx : posOf tr x < tr.length)
    (h : posOf tr x = posOf tr y) : x = y := by
  obtain ⟨a, ha, hax⟩ := posOf_spec hx
  obtain ⟨b, hb, hby⟩ := posOf_spec (h ▸ hx : posOf tr y < tr.length)
  rw [h, hb] at ha
  cases ha
  exact hax.symm.trans hby

/-- every other literal of a reason clause was assigned before the propagated one -/
def TrailOrd (cnf : CNF) (tr : Trail) : Prop :=
  ∀ a ∈ tr, a.dec = false → ∀ D, cnf[a.reason]? = some D → ∀ l ∈ D, l.1 ≠ a.name →
    Before tr l.1 a.name

theorem TrailOrd.nil (cnf : CNF) : TrailOrd cnf [] := fun a ha => by cases ha

theorem TrailOrd.append_cnf {cnf : CNF} {tr : Trail} {level : Nat} (h : TrailOrd cnf tr)
    (ht : TrailOK cnf tr level) (ext : CNF) : TrailOrd (cnf ++ ext) tr := by
  intro a ha hd D hD l hl hne
  obtain ⟨D', hD', _⟩ := ht.reason a ha hd
  have hlt : a.reason < cnf.length := (List.getElem?_eq_some_iff.mp hD').1
  rw [List.getElem?_append_left hlt] at hD
  exact h a ha hd D hD l hl hne

theorem TrailOrd.decide {cnf : CNF} {tr : Trail} (h : TrailOrd cnf tr) (vars : List Nat)
    (level : Nat) : TrailOrd cnf (decideVar vars tr level) := by
  unfold decideVar
  split
  · intro a ha hd D hD l hl hne
    rcases List.mem_append.mp ha with ha | ha
    · exact (h a ha hd D hD l hl hne).append _
    · simp only [List.mem_singleton] at ha; subst ha; cases hd
  · exact h

theorem TrailOrd.propagate {cnf : CNF} {tr : Trail} {level : Nat} (h : TrailOrd cnf tr)
    {cid : Nat} {l : Lit} {c : Clause} (hc : cnf[cid]? = some c)
    (hu : unassigned tr c = [l]) : TrailOrd cnf (tr ++ [⟨l.1, l.2, false, level, cid⟩]) := by
  have hl : l ∈ unassigned tr c := by rw [hu]; exact List.mem_singleton.mpr rfl
  have hlu : lookup tr l.1 = none := by
    simpa [litUnassigned] using (List.mem_filter.mp hl).2
  intro a ha hd D hD l' hl' hne
  rcases List.mem_append.mp ha with ha | ha
  · exact (h a ha hd D hD l' hl' hne).append _
  · simp only [List.mem_singleton] at ha; subst ha
    simp only at hD hne ⊢
    rw [hc] at hD; cases hD
    -- `l'` is another literal of the unit clause: it is assigned
    have h1 : litUnassigned tr l' = false := by
      cases hh : litUnassigned tr l'
      · rfl
      · have : l' ∈ unassigned tr c := List.mem_filter.mpr ⟨hl', hh⟩
        rw [hu] at this
        exact absurd (congrArg Prod.fst (List.mem_singleton.mp this)) hne
    simp only [litUnassigned, Option.isNone_eq_false_iff, Option.isSome_iff_exists] at h1
    obtain ⟨b, hb⟩ := h1
    exact before_new (a := ⟨l.1, l.2, false, level, cid⟩) ⟨b, (lookup_some hb).1, (lookup_some hb).2⟩ hlu

theorem TrailOrd.backtrack {cnf : CNF} {tr : Trail} {level : Nat} (h : TrailOrd cnf tr)
    (ht : TrailOK cnf tr level) (bl : Nat) : TrailOrd cnf (tr.filter (fun a => a.lvl ≤ bl)) := by
  intro a ha hd D hD l hl hne
  have ha' := List.mem_filter.mp ha
  have halvl : a.lvl ≤ bl := by simpa using ha'.2
  refine (h a ha'.1 hd D hD l hl hne).filter _ ?_
  intro b hb hbn
  obtain ⟨D', hD', _, hrest⟩ := ht.reason a ha'.1 hd
  rw [hD] at hD'; cases hD'
  rcases hrest l hl with e | ⟨_, b', hb', hn', _, hlv⟩
  · exact absurd (by rw [e]) hne
  · have : b = b' := name_inj ht.nodup hb hb' (hbn.trans hn'.symm)
    subst this
    simpa using Nat.le_trans hlv halvl

theorem unitPropagate_ord : ∀ (fuel : Nat) (cnf : CNF) (tr : Trail) (level : Nat),
    TrailOrd cnf tr → TrailOrd cnf (unitPropagate fuel cnf tr level).2 := by
  intro fuel
  induction fuel with
  | zero => intro cnf tr level h; exact h
  | succ f ih =>
    intro cnf tr level h
    unfold unitPropagate
    split
    · exact h
    · rename_i cid l hs
      obtain ⟨c, _, hc, _, h2⟩ := scan_unit hs
      exact ih _ _ _ (h.propagate (by simpa using hc) h2)
    · exact h

end Holpy.C15
