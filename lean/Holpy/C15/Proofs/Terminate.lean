import Holpy.C15.Model
import Holpy.C15.Proofs.Fuel
namespace Holpy.C15

/-! ### termination of the main loop on runs that learn no clause (the DPLL path) -/

theorem scan_done_true {tr : Trail} : ∀ {cnf : CNF} {cid : Nat} {h : Bool},
    scan tr cnf cid h = .done true → h = true ∨ ∃ c ∈ cnf, ∃ l ∈ c, lookup tr l.1 = none := by
  intro cnf
  induction cnf with
  | nil => intro cid h hs; simp only [scan, Scan.done.injEq] at hs; exact Or.inl hs
  | cons cl rest ih =>
    intro cid h hs
    unfold scan at hs
    split at hs
    · rcases ih hs with h1 | ⟨c, hc, l, hl, hu⟩
      · exact Or.inl h1
      · exact Or.inr ⟨c, List.mem_cons_of_mem _ hc, l, hl, hu⟩
    · split at hs
      · cases hs
      · cases hs
      · rename_i hne1 hne2
        right
        -- `unassigned tr cl` is neither empty nor a singleton: it has a member
        cases hu : unassigned tr cl with
        | nil => exact absurd hu hne1
        | cons l ls =>
          have hl : l ∈ unassigned tr cl := by rw [hu]; exact List.mem_cons_self
          have := List.mem_filter.mp hl
          exact ⟨cl, List.mem_cons_self, l, this.1, by simpa [litUnassigned] using this.2⟩

/-- `unit_propagate` only extends the trail; if it answers "undecided" some variable of some
clause is still unassigned. -/
theorem unitPropagate_ext : ∀ (fuel : Nat) (cnf : CNF) (tr : Trail) (level : Nat),
    (∃ ext, (unitPropagate fuel cnf tr level).2 = tr ++ ext) ∧
    ((unitPropagate fuel cnf tr level).1 = .undecided →
      ∃ c ∈ cnf, ∃ l ∈ c, lookup (unitPropagate fuel cnf tr level).2 l.1 = none) := by
  intro fuel
  induction fuel with
  | zero => intro cnf tr level; exact ⟨⟨[], by simp [unitPropagate]⟩, by simp [unitPropagate]⟩
  | succ f ih =>
    intro cnf tr level
    unfold unitPropagate
    split
    · exact ⟨⟨[], by simp⟩, by simp⟩
    · rename_i cid l hs
      obtain ⟨⟨ext, he⟩, h2⟩ := ih cnf (tr ++ [⟨l.1, l.2, false, level, cid⟩]) level
      exact ⟨⟨[⟨l.1, l.2, false, level, cid⟩] ++ ext, by rw [he]; simp⟩, h2⟩
    · rename_i hu hs
      refine ⟨⟨[], by simp⟩, ?_⟩
      cases hu with
      | false => simp
      | true =>
        intro _
        rcases scan_done_true hs with h | h
        · cases h
        · exact h

theorem freeVars_append_le (vs : List Nat) (tr ext : Trail) :
    (freeVars vs (tr ++ ext)).length ≤ (freeVars vs tr).length := by
  unfold freeVars
  apply filter_length_le'
  intro x _ hx
  unfold lookup at hx ⊢
  rw [List.find?_append] at hx
  cases h : tr.find? (fun a => a.name == x) with
  | none => rfl
  | some b => rw [h] at hx; simp at hx

/-- `decide` assigns a variable that was unassigned, when there is one in the order -/
theorem decideVar_progress {vs vars : List Nat} {tr : Trail} {v : Nat} (level : Nat)
    (hsub : ∀ x ∈ vars, x ∈ vs) (hv : v ∈ vars) (hu : lookup tr v = none) :
    (freeVars vs (decideVar vars tr level)).length < (freeVars vs tr).length := by
  unfold decideVar
  split
  · rename_i w hw
    have hwm : w ∈ vars := List.mem_of_find?_eq_some hw
    have hwu : lookup tr w = none := by simpa using List.find?_some hw
    exact freeVars_lt (a := ⟨w, true, true, level, 0⟩) (hsub w hwm) hwu
  · rename_i hnone
    have := List.find?_eq_none.mp hnone v hv
    simp [hu] at this

theorem mainLoop_noLearn_terminates (vs vars : List Nat) (nvars af : Nat) (cnf : CNF)
    (hvs : ∀ c ∈ cnf, ∀ l ∈ c, l.1 ∈ vars) (hsub : ∀ x ∈ vars, x ∈ vs) (hnv : vs.length ≤ nvars) :
    ∀ (fuel : Nat) (s : St) (pr : Prop'), s.cnf = cnf → pr ≠ .outOfFuel →
      (pr = .undecided → ∃ c ∈ cnf, ∃ l ∈ c, lookup s.tr l.1 = none) →
      (freeVars vs s.tr).length < fuel →
      noLearn vars nvars af fuel s pr = true →
      ∀ e, mainLoop vars nvars af fuel s pr ≠ .error e := by
  intro fuel
  induction fuel with
  | zero => intro s pr _ _ _ h; omega
  | succ f ih =>
    intro s pr hcnf hpr hund hfuel hnl e
    unfold mainLoop
    unfold noLearn at hnl
    split
    · exact absurd rfl hpr
    · simp
    · -- undecided
      obtain ⟨c, hc, l, hl, hu⟩ := hund rfl
      have hprog := decideVar_progress (vs := vs) (s.level + 1) hsub (hvs c hc l hl) hu
      have hext := unitPropagate_ext (nvars + 2) s.cnf (decideVar vars s.tr (s.level + 1)) (s.level + 1)
      have hfu := unitPropagate_fuel_suffices (vs := vs) (cnf := s.cnf)
        (fun c hc l hl => hsub _ (hvs c (hcnf ▸ hc) l hl)) (nvars + 2)
        (decideVar vars s.tr (s.level + 1)) (s.level + 1)
        (by have := freeVars_le vs (decideVar vars s.tr (s.level + 1)); omega)
      dsimp only at hnl ⊢
      generalize unitPropagate (nvars + 2) s.cnf (decideVar vars s.tr (s.level + 1)) (s.level + 1) = up at hext hnl hfu
      obtain ⟨pr', tr'⟩ := up
      obtain ⟨⟨ext, he⟩, hund'⟩ := hext
      simp only at he hund' hfu hnl
      refine ih { s with tr := tr', level := s.level + 1 } pr' hcnf hfu ?_ ?_ hnl e
      · intro hp
        obtain ⟨c', hc', l', hl', hu'⟩ := hund' hp
        exact ⟨c', hcnf ▸ hc', l', hl', hu'⟩
      · have := freeVars_append_le vs (decideVar vars s.tr (s.level + 1)) ext
        simp only [he]
        omega
    · -- conflict
      rename_i cid
      cases hc0 : s.cnf[cid]? with
      | none => simp [hc0] at hnl
      | some c0 =>
        simp only [hc0] at hnl ⊢
        split at hnl
        · cases hnl
        · rename_i proof clause orc' han
          simp [hnl]

theorem solveCnf_noLearn_terminates {fuel : Nat} {cnf : CNF} {o : Oracle}
    (hnl : noLearnRun fuel cnf o = true) (hfuel : (varsOf (cnf.map dedup)).length < fuel) :
    ∀ e, solveCnf fuel cnf o ≠ .error e := by
  unfold noLearnRun at hnl
  unfold solveCnf
  dsimp only at hnl ⊢
  have hvars : ∀ c ∈ cnf.map dedup, ∀ l ∈ c, l.1 ∈ varsOf (cnf.map dedup) :=
    fun c hc l hl => mem_varsOf hc hl
  have hext := unitPropagate_ext ((varsOf (cnf.map dedup)).length + 2) (cnf.map dedup) [] 0
  have hfu := unitPropagate_fuel_suffices hvars ((varsOf (cnf.map dedup)).length + 2) [] 0
    (by have := freeVars_le (varsOf (cnf.map dedup)) []; omega)
  generalize unitPropagate ((varsOf (cnf.map dedup)).length + 2) (cnf.map dedup) [] 0 = up
    at hext hfu hnl
  obtain ⟨pr, tr⟩ := up
  obtain ⟨_, hund⟩ := hext
  simp only at hund hfu hnl
  have hfree : (freeVars (varsOf (cnf.map dedup)) tr).length < fuel :=
    Nat.lt_of_le_of_lt (freeVars_le _ _) hfuel
  split at hnl
  · rename_i hok
    simp only [Bool.and_eq_true, List.all_eq_true, List.contains_iff_mem] at hok
    rw [if_pos (by simpa [Bool.and_eq_true, List.all_eq_true] using hok)]
    exact mainLoop_noLearn_terminates (varsOf (cnf.map dedup)) o.vars _ fuel (cnf.map dedup)
      (fun c hc l hl => hok.1.2 _ (hvars c hc l hl)) (fun x hx => hok.2 x hx) (Nat.le_refl _)
      fuel _ pr rfl hfu hund hfree hnl
  · rename_i hok
    rw [if_neg hok]
    exact mainLoop_noLearn_terminates (varsOf (cnf.map dedup)) (varsOf (cnf.map dedup)) _ fuel
      (cnf.map dedup) hvars (fun x hx => hx) (Nat.le_refl _) fuel _ pr rfl hfu hund hfree hnl

end Holpy.C15
