import Holpy.C15.Model
import Holpy.C15.Proofs.TraceInv
import Holpy.C15.Proofs.Fuel
namespace Holpy.C15

/-! ### the main loop -/

/-- Invariant of the solver state; `cnf0` is the de-duplicated input. -/
structure Inv (cnf0 : CNF) (s : St) : Prop where
  pre : ∃ ext, s.cnf = cnf0 ++ ext
  ent : ∀ c ∈ s.cnf, Entailed cnf0 c
  trail : TrailOK s.cnf s.tr s.level
  trace : TraceOK s.cnf cnf0.length s.proofs
  reb : ∃ sh, rebuild cnf0 s.proofs = some sh ∧ Shadow sh s.cnf
  vars : ∀ c ∈ s.cnf, ∀ l ∈ c, l.1 ∈ varsOf cnf0

theorem TrailOK.decide {cnf : CNF} {tr : Trail} {level : Nat} (h : TrailOK cnf tr level)
    (vars : List Nat) : TrailOK cnf (decideVar vars tr (level + 1)) (level + 1) := by
  have hmono : TrailOK cnf tr (level + 1) :=
    ⟨h.nodup, fun a ha => Nat.le_succ_of_le (h.lvl_le a ha), h.reason⟩
  unfold decideVar
  split
  · rename_i v hv
    have hv' : lookup tr v = none := by simpa using List.find?_some hv
    refine ⟨?_, ?_, ?_⟩
    · simp only [List.map_append, List.map_cons, List.map_nil]
      rw [List.nodup_append]
      refine ⟨h.nodup, by simp, ?_⟩
      intro n hn m hm
      simp only [List.mem_singleton] at hm
      subst hm
      obtain ⟨a, ha, rfl⟩ := List.mem_map.mp hn
      exact lookup_none hv' a ha
    · intro a ha
      rcases List.mem_append.mp ha with ha | ha
      · exact hmono.lvl_le a ha
      · simp only [List.mem_singleton] at ha; subst ha; exact Nat.le_refl _
    · intro a ha hd
      rcases List.mem_append.mp ha with ha | ha
      · obtain ⟨D, hD, hm, rest⟩ := h.reason a ha hd
        refine ⟨D, hD, hm, fun l' hl' => ?_⟩
        rcases rest l' hl' with h1 | ⟨h1, h2⟩
        · exact Or.inl h1
        · exact Or.inr ⟨h1, h2.mono (fun b hb _ => List.mem_append_left _ hb)⟩
      · simp only [List.mem_singleton] at ha; subst ha; cases hd
  · exact hmono

theorem litTrue_map (tr : Trail) (l : Lit) :
    litTrue (tr.map (fun a => (a.name, a.val))) l = litSat tr l := by
  unfold litTrue litSat trailVal lookup
  rw [List.find?_map]
  have : ((fun p : Nat × Bool => p.1 == l.1) ∘ fun a : Asg => (a.name, a.val)) =
      fun a => a.name == l.1 := rfl
  rw [this]
  cases tr.find? (fun a => a.name == l.1) with
  | none => simp
  | some a => simp

theorem mainLoop_spec (cnf0 : CNF) (vars : List Nat) (nvars af : Nat)
    (hnv : (varsOf cnf0).length ≤ nvars) :
    ∀ (fuel : Nat) (s : St) (pr : Prop'), Inv cnf0 s → PrOK s.cnf s.tr pr → pr ≠ .outOfFuel →
    (∀ a, mainLoop vars nvars af fuel s pr = .sat a → ∀ c ∈ cnf0, c.any (litTrue a) = true) ∧
    (∀ c' ps, mainLoop vars nvars af fuel s pr = .unsat c' ps →
      (¬ ∃ σ, Sat σ cnf0) ∧ checkTrace c' cnf0.length ps = true ∧ c'.take cnf0.length = cnf0 ∧
      ∃ sh, rebuild cnf0 ps = some sh ∧ checkTrace sh cnf0.length ps = true) ∧
    (∀ e, mainLoop vars nvars af fuel s pr = .error e → e = .outOfFuel) := by
  intro fuel
  induction fuel with
  | zero =>
    intro s pr _ _ _
    refine ⟨by simp [mainLoop], by simp [mainLoop], ?_⟩
    intro e h; simp only [mainLoop] at h; cases h; rfl
  | succ f ih =>
    intro s pr hinv hpr hnof
    unfold mainLoop
    split
    · -- outOfFuel
      exact absurd rfl hnof
    · -- sat
      refine ⟨?_, by simp, by simp⟩
      intro a ha c hc
      cases ha
      have hmem : c ∈ s.cnf := by
        obtain ⟨ext, he⟩ := hinv.pre
        rw [he]; exact List.mem_append_left _ hc
      have := hpr c hmem
      simp only [clauseSat] at this
      simpa [litTrue_map] using this
    · -- undecided: decide, propagate
      have ht := hinv.trail.decide vars
      have hu := unitPropagate_spec (nvars + 2) s.cnf _ _ ht
      have hfu := unitPropagate_fuel_suffices hinv.vars (nvars + 2)
        (decideVar vars s.tr (s.level + 1)) (s.level + 1)
        (by have := freeVars_le (varsOf cnf0) (decideVar vars s.tr (s.level + 1)); omega)
      dsimp only
      generalize unitPropagate (nvars + 2) s.cnf (decideVar vars s.tr (s.level + 1)) (s.level + 1) = up at hu hfu
      obtain ⟨pr', tr'⟩ := up
      exact ih { s with tr := tr', level := s.level + 1 } pr'
        ⟨hinv.pre, hinv.ent, hu.1, hinv.trace, hinv.reb, hinv.vars⟩ hu.2 hfu
    · -- conflict
      rename_i cid
      obtain ⟨c0, hc0, hf0⟩ := hpr
      simp only [hc0]
      split
      · rename_i e' han
        refine ⟨by simp, by simp, ?_⟩
        intro e h; cases h
        exact analyze_no_crash hinv.trail _ _ _ _ _ han hf0
      · rename_i proof clause orc' han
        have hfin := analyze_allFalse hinv.trail _ _ _ _ _ _ _ han hf0
        have hcid : cid < s.cnf.length := (List.getElem?_eq_some_iff.mp hc0).1
        have hc0m : c0 ∈ s.cnf := List.mem_iff_getElem?.mpr ⟨cid, hc0⟩
        obtain ⟨hlt, hent, hrepAll⟩ := analyze_spec hinv.trail cnf0 hinv.ent af [cid] c0 s.orc
          proof clause orc' han (by simp) (by simpa using hcid) hf0 (hinv.ent c0 hc0m)
        have hrep : Replays s.cnf proof clause := hrepAll s.cnf (Shadow.refl _)
          ⟨c0, by simp [replayProof, hc0], fun _ => Iff.rfl⟩
        have htrace := hinv.trace.learn hlt hrep
        -- the same for the clause list rebuilt from the proofs alone
        obtain ⟨sh, hsh, hshadow⟩ := hinv.reb
        obtain ⟨c0', hc0', hc0m'⟩ := hshadow.get hc0
        obtain ⟨r, hr, hrm⟩ := hrepAll sh hshadow ⟨c0', by simp [replayProof, hc0'], hc0m'⟩
        have hreb : rebuild cnf0 (s.proofs ++ [(s.cnf.length, proof)]) = some (sh ++ [r]) := by
          rw [← hshadow.1]; exact rebuild_snoc _ _ _ _ _ hsh hr
        have hshadow' : Shadow (sh ++ [r]) (s.cnf ++ [clause]) := hshadow.snoc hrm
        obtain ⟨ext, hext⟩ := hinv.pre
        split
        · -- learned clause empty: unsatisfiable
          rename_i hemp
          refine ⟨by simp, ?_, by simp⟩
          intro c' ps h
          cases h
          have : clause = [] := by simpa using hemp
          subst this
          refine ⟨?_, htrace.checkTrace (by simp), ?_, sh ++ [r], hreb, ?_⟩
          · rintro ⟨σ, hσ⟩
            obtain ⟨l, hl, _⟩ := hent σ hσ
            cases hl
          · rw [hext, List.append_assoc, List.take_left]
          · have hr0 : r = [] := by
              cases r with
              | nil => rfl
              | cons x xs => exact absurd ((hrm x).mp List.mem_cons_self) (by simp)
            subst hr0
            have := rebuild_traceOK cnf0.length _ [] cnf0 _ (TraceOK.nil cnf0) hreb
            exact TraceOK.checkTrace (by simpa using this) (by simp)
        · rename_i hemp
          split
          · rename_i e' hbl
            obtain ⟨bl, hbl'⟩ := backtrackLevel_ok hinv.trail.nodup hfin (by simpa using hemp)
            rw [hbl'] at hbl; cases hbl
          · rename_i bl hbl
            have ht := (hinv.trail.backtrack bl).append_cnf [clause]
            have hu := unitPropagate_spec (nvars + 2) (s.cnf ++ [clause]) _ _ ht
            have hvars' : ∀ c ∈ s.cnf ++ [clause], ∀ l ∈ c, l.1 ∈ varsOf cnf0 := by
              intro c hc
              rcases List.mem_append.mp hc with hc | hc
              · exact hinv.vars c hc
              · simp only [List.mem_singleton] at hc; subst hc
                exact analyze_vars (fun v => v ∈ varsOf cnf0) hinv.vars _ _ _ _ _ _ _ han
                  (hinv.vars c0 hc0m)
            have hfu := unitPropagate_fuel_suffices hvars' (nvars + 2)
              (s.tr.filter (fun a => decide (a.lvl ≤ bl))) bl
              (by have := freeVars_le (varsOf cnf0) (s.tr.filter (fun a => decide (a.lvl ≤ bl))); omega)
            generalize unitPropagate (nvars + 2) (s.cnf ++ [clause])
              (s.tr.filter (fun a => decide (a.lvl ≤ bl))) bl = up at hu hfu
            obtain ⟨pr', tr'⟩ := up
            refine ih ⟨s.cnf ++ [clause], tr', bl, s.proofs ++ [(s.cnf.length, proof)], orc'⟩ pr'
              ⟨⟨ext ++ [clause], by simp [hext]⟩, ?_, hu.1, htrace, ⟨sh ++ [r], hreb, hshadow'⟩, hvars'⟩
              hu.2 hfu
            intro c hc
            rcases List.mem_append.mp hc with hc | hc
            · exact hinv.ent c hc
            · simp only [List.mem_singleton] at hc; subst hc; exact hent

end Holpy.C15
