import Holpy.C15.Model
import Holpy.C15.Proofs.Basic
namespace Holpy.C15

/-! ### counting lemmas on lists (for the termination measures) -/

theorem sum_map_erase {α} [BEq α] [LawfulBEq α] (f : α → Nat) : ∀ {l : List α} {x : α}, x ∈ l →
    (l.map f).sum = f x + ((l.erase x).map f).sum := by
  intro l
  induction l with
  | nil => intro x h; cases h
  | cons y ys ih =>
    intro x h
    by_cases e : y = x
    · subst e; simp
    · have hx : x ∈ ys := by
        rcases List.mem_cons.mp h with h | h
        · exact absurd h.symm e
        · exact h
      have hne : (y == x) = false := by simpa using e
      simp only [List.erase_cons, hne, List.map_cons, List.sum_cons, ih hx]
      simp only [Bool.false_eq_true, if_false, List.map_cons, List.sum_cons]
      omega

/-- weighted pigeonhole: a list without repetitions inside `m` weighs at most `m` -/
theorem sum_le_of_nodup_subset {α} [BEq α] [LawfulBEq α] (f : α → Nat) :
    ∀ {l m : List α}, l.Nodup → (∀ x ∈ l, x ∈ m) → (l.map f).sum ≤ (m.map f).sum := by
  intro l
  induction l with
  | nil => intro m _ _; simp
  | cons x xs ih =>
    intro m hn hs
    have hx : x ∈ m := hs x List.mem_cons_self
    have hn' := List.nodup_cons.mp hn
    have hsub : ∀ y ∈ xs, y ∈ m.erase x := by
      intro y hy
      have hne : y ≠ x := fun e => hn'.1 (e ▸ hy)
      exact (List.mem_erase_of_ne hne).mpr (hs y (List.mem_cons_of_mem _ hy))
    have := ih hn'.2 hsub
    rw [sum_map_erase f hx]
    simp only [List.map_cons, List.sum_cons]
    omega

theorem sum_map_one {α} : ∀ (l : List α), (l.map (fun _ => 1)).sum = l.length := by
  intro l
  induction l with
  | nil => rfl
  | cons x xs ih => simp only [List.map_cons, List.sum_cons, ih, List.length_cons]; omega

theorem length_le_of_nodup_subset {α} [BEq α] [LawfulBEq α] {l m : List α} (hn : l.Nodup)
    (hs : ∀ x ∈ l, x ∈ m) : l.length ≤ m.length := by
  have := sum_le_of_nodup_subset (fun _ => 1) hn hs
  rwa [sum_map_one, sum_map_one] at this

theorem sum_pow_range (p : Nat) : ((List.range p).map (fun i => 2 ^ i)).sum + 1 = 2 ^ p := by
  induction p with
  | zero => rfl
  | succ k ih =>
    rw [List.range_succ, List.map_append, List.sum_append]
    simp only [List.map_cons, List.map_nil, List.sum_cons, List.sum_nil, Nat.add_zero]
    rw [Nat.pow_succ]; omega

/-- distinct powers of two below `2^p` sum to less than `2^p` -/
theorem sum_pow_lt {l : List Nat} {p : Nat} (hn : l.Nodup) (hl : ∀ i ∈ l, i < p) :
    (l.map (fun i => 2 ^ i)).sum < 2 ^ p := by
  have := sum_le_of_nodup_subset (fun i => 2 ^ i) hn (m := List.range p)
    (fun x hx => List.mem_range.mpr (hl x hx))
  have h2 := sum_pow_range p
  omega

theorem nodup_map_of_inj {α β} {f : α → β} : ∀ {l : List α}, l.Nodup →
    (∀ x ∈ l, ∀ y ∈ l, f x = f y → x = y) → (l.map f).Nodup := by
  intro l
  induction l with
  | nil => intro _ _; exact List.nodup_nil
  | cons x xs ih =>
    intro hn hinj
    have hn' := List.nodup_cons.mp hn
    rw [List.map_cons, List.nodup_cons]
    refine ⟨?_, ih hn'.2 (fun a ha b hb => hinj a (List.mem_cons_of_mem _ ha) b (List.mem_cons_of_mem _ hb))⟩
    intro hm
    obtain ⟨y, hy, e⟩ := List.mem_map.mp hm
    have := hinj y (List.mem_cons_of_mem _ hy) x List.mem_cons_self e
    exact hn'.1 (this ▸ hy)

theorem sum_filter_split {α} (f : α → Nat) (p : α → Bool) : ∀ (l : List α),
    (l.map f).sum = ((l.filter p).map f).sum + ((l.filter (fun x => !p x)).map f).sum := by
  intro l
  induction l with
  | nil => rfl
  | cons x xs ih =>
    simp only [List.map_cons, List.sum_cons, List.filter_cons, ih]
    cases p x <;> simp <;> omega

theorem le_sum_map_of_mem {α} (f : α → Nat) : ∀ {l : List α} {x : α}, x ∈ l → f x ≤ (l.map f).sum := by
  intro l
  induction l with
  | nil => intro x h; cases h
  | cons y ys ih =>
    intro x h
    simp only [List.map_cons, List.sum_cons]
    rcases List.mem_cons.mp h with rfl | h
    · omega
    · have := ih h; omega

theorem sum_map_le_length_mul {α} (f : α → Nat) (b : Nat) : ∀ (l : List α), (∀ x ∈ l, f x ≤ b) →
    (l.map f).sum ≤ l.length * b := by
  intro l
  induction l with
  | nil => intro _; simp
  | cons y ys ih =>
    intro h
    have h1 := h y List.mem_cons_self
    have h2 := ih (fun x hx => h x (List.mem_cons_of_mem _ hx))
    simp only [List.map_cons, List.sum_cons, List.length_cons, Nat.add_mul, Nat.one_mul]
    omega

/-- a list without repetitions in which exactly `x` passes the test filters to `[x]` -/
theorem filter_eq_singleton {α} {p : α → Bool} : ∀ {l : List α} {x : α}, l.Nodup → x ∈ l → p x = true →
    (∀ y ∈ l, p y = true → y = x) → l.filter p = [x] := by
  intro l
  induction l with
  | nil => intro x _ h; cases h
  | cons y ys ih =>
    intro x hn hx hp huniq
    have hn' := List.nodup_cons.mp hn
    rcases List.mem_cons.mp hx with rfl | hx'
    · have : ys.filter p = [] := by
        rw [List.filter_eq_nil_iff]
        intro z hz hpz
        have := huniq z (List.mem_cons_of_mem _ hz) hpz
        exact hn'.1 (this ▸ hz)
      simp [hp, this]
    · have hy : p y = false := by
        cases h : p y
        · rfl
        · have := huniq y List.mem_cons_self h
          exact absurd (this ▸ hx') hn'.1
      simp only [List.filter_cons, hy, Bool.false_eq_true, if_false]
      exact ih hn'.2 hx' hp (fun z hz => huniq z (List.mem_cons_of_mem _ hz))

theorem dedup_nodup_aux (c : Clause) : ∀ (acc : Clause), acc.Nodup →
    (c.foldl (fun acc l => if acc.contains l then acc else acc ++ [l]) acc).Nodup := by
  induction c with
  | nil => intro acc h; exact h
  | cons x xs ih =>
    intro acc h
    simp only [List.foldl_cons]
    split
    · exact ih acc h
    · rename_i hc
      refine ih _ ?_
      rw [List.nodup_append]
      refine ⟨h, by simp, ?_⟩
      intro a ha b hb
      simp only [List.mem_singleton] at hb; subst hb
      intro e; subst e
      exact hc (List.contains_iff_mem.mpr ha)

theorem dedup_nodup (c : Clause) : (dedup c).Nodup := dedup_nodup_aux c [] List.nodup_nil

theorem nodupLit_nodup : ∀ {l : Clause}, nodupLit l = true → l.Nodup := by
  intro l
  induction l with
  | nil => intro _; exact List.nodup_nil
  | cons x xs ih =>
    intro h
    simp only [nodupLit, Bool.and_eq_true, Bool.not_eq_true', List.contains_eq_mem,
      decide_eq_false_iff_not] at h
    exact List.nodup_cons.mpr ⟨h.1, ih h.2⟩

theorem resolveWith_nodup (c1 c2 : Clause) (name : Nat) (o : Option Clause) :
    (resolveWith c1 c2 name o).Nodup := by
  unfold resolveWith
  cases o with
  | none => exact dedup_nodup _
  | some oc =>
    simp only
    split
    · rename_i h
      simp only [isArrangement, Bool.and_eq_true] at h
      exact nodupLit_nodup h.2
    · exact dedup_nodup _

end Holpy.C15
