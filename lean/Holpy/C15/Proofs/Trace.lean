import Holpy.C15.Model
import Holpy.C15.Proofs.Basic
namespace Holpy.C15

theorem resolveStep_eq {c d r : Clause} (h : resolveStep c d = some r) :
    ∃ l, l ∈ c ∧ (l.1, !l.2) ∈ d ∧ (∀ x ∈ c, x.1 = l.1 → x.2 = l.2) ∧
      (∀ x ∈ d, x.1 = l.1 → x.2 = !l.2) ∧ r = resolveCanon c d l.1 := by
  unfold resolveStep at h
  split at h
  · simp at h
  · rename_i l hl
    split at h
    · rename_i hc
      simp only [Bool.and_eq_true, List.all_eq_true, Bool.or_eq_true, bne_iff_ne, ne_eq,
        beq_iff_eq] at hc
      refine ⟨l, List.mem_of_find?_eq_some hl, ?_, ?_, ?_, ?_⟩
      · have := List.find?_some hl
        exact List.contains_iff_mem.mp this
      · intro x hx hx1
        rcases hc.1 x hx with h' | h'
        · exact absurd hx1 h'
        · exact h'
      · intro x hx hx1
        rcases hc.2 x hx with h' | h'
        · exact absurd hx1 h'
        · exact h'
      · simpa using h.symm
    · simp at h

theorem resolveStep_entails {c d r : Clause} {σ : Nat → Bool} (h : resolveStep c d = some r)
    (hc : ∃ l ∈ c, σ l.1 = l.2) (hd : ∃ l ∈ d, σ l.1 = l.2) : ∃ l ∈ r, σ l.1 = l.2 := by
  obtain ⟨l, _, _, hcl, hdl, rfl⟩ := resolveStep_eq h
  obtain ⟨l1, h1, s1⟩ := hc
  obtain ⟨l2, h2, s2⟩ := hd
  by_cases e1 : l1.1 = l.1
  · by_cases e2 : l2.1 = l.1
    · have a := hcl l1 h1 e1
      have b := hdl l2 h2 e2
      rw [e1] at s1; rw [e2] at s2
      rw [a] at s1; rw [b, s1] at s2
      cases hh : l.2 <;> simp [hh] at s2
    · exact ⟨l2, mem_resolveCanon.mpr ⟨Or.inr h2, e2⟩, s2⟩
  · exact ⟨l1, mem_resolveCanon.mpr ⟨Or.inl h1, e1⟩, s1⟩

/-- `C` holds under every assignment satisfying `base`. -/
def Entailed (base : CNF) (C : Clause) : Prop := ∀ σ, Sat σ base → ∃ l ∈ C, σ l.1 = l.2

theorem sameSet_mem {a b : Clause} (h : sameSet a b = true) (l : Lit) : l ∈ a ↔ l ∈ b := by
  simp only [sameSet, Bool.and_eq_true, List.all_eq_true, List.contains_iff_mem] at h
  exact ⟨h.1 l, h.2 l⟩

theorem replayFold_entailed (base cnf : CNF) (P : Nat → Prop)
    (hP : ∀ j, P j → ∀ d, cnf[j]? = some d → Entailed base d) :
    ∀ (rest : List Nat) (acc : Option Clause) (r : Clause),
      (∀ j ∈ rest, P j) → (∀ c, acc = some c → Entailed base c) →
      rest.foldl (replayStep cnf) acc = some r → Entailed base r := by
  intro rest
  induction rest with
  | nil => intro acc r _ hacc h; exact hacc r h
  | cons j js ih =>
    intro acc r hj hacc h
    simp only [List.foldl_cons] at h
    refine ih _ r (fun j' hj' => hj j' (List.mem_cons_of_mem _ hj')) ?_ h
    intro c hc
    unfold replayStep at hc
    split at hc
    · rename_i c0 d hd
      intro σ hσ
      exact resolveStep_entails hc (hacc c0 rfl σ hσ) (hP j (hj j List.mem_cons_self) d hd σ hσ)
    · simp at hc

theorem replayProof_entailed {base cnf : CNF} {P : Nat → Prop}
    (hP : ∀ j, P j → ∀ d, cnf[j]? = some d → Entailed base d) {p : List Nat} {r : Clause}
    (hp : ∀ j ∈ p, P j) (h : replayProof cnf p = some r) : Entailed base r := by
  unfold replayProof at h
  split at h
  · simp at h
  · rename_i i rest
    split at h
    · simp at h
    · rename_i c0 hc0
      refine replayFold_entailed base cnf P hP rest (some c0) r
        (fun j hj => hp j (List.mem_cons_of_mem _ hj)) ?_ h
      intro c hc
      cases hc
      exact hP i (hp i List.mem_cons_self) c0 hc0

theorem checkTrace_entailed {c : CNF} {n0 : Nat} {ps : List (Nat × List Nat)}
    (h : checkTrace c n0 ps = true) :
    ∀ n i : Nat, i < n → ∀ d, c[i]? = some d → Entailed (c.take n0) d := by
  simp only [checkTrace, Bool.and_eq_true, List.all_eq_true, beq_iff_eq] at h
  obtain ⟨⟨hlen, hall⟩, _⟩ := h
  intro n
  induction n with
  | zero => intro i hi; omega
  | succ n ih =>
    intro i hi d hd
    by_cases hin : i < n
    · exact ih i hin d hd
    · have hi' : i = n := by omega
      subst hi'
      by_cases h0 : i < n0
      · intro σ hσ
        apply hσ
        rw [List.mem_iff_getElem?]
        exact ⟨i, by rw [List.getElem?_take]; simp [h0, hd]⟩
      · have hlt : i < c.length := by
          rcases List.getElem?_eq_some_iff.mp hd with ⟨h, _⟩; exact h
        have hk : i - n0 < ps.length := by omega
        have hmem : (ps[i - n0], i - n0) ∈ ps.zipIdx := by
          rw [List.mem_zipIdx_iff_getElem?]; simp [hk]
        have := hall _ hmem
        simp only [decide_eq_true_eq] at this
        obtain ⟨⟨_, hids⟩, hrep⟩ := this
        have e : n0 + (i - n0) = i := by omega
        rw [e] at hrep hids
        split at hrep
        · rename_i r d' hr hd'
          rw [hd] at hd'; cases hd'
          have hr' : Entailed (c.take n0) r :=
            replayProof_entailed (P := fun j => j < i) (fun j hj d hd => ih j hj d hd) hids hr
          intro σ hσ
          obtain ⟨l, hl, hs⟩ := hr' σ hσ
          exact ⟨l, (sameSet_mem hrep l).mp hl, hs⟩
        · simp at hrep

theorem checkTrace_unsat {c : CNF} {n0 : Nat} {ps : List (Nat × List Nat)}
    (h : checkTrace c n0 ps = true) : ¬ ∃ σ, Sat σ (c.take n0) := by
  rintro ⟨σ, hσ⟩
  have hlast : c.getLast? = some [] := by
    simp only [checkTrace, Bool.and_eq_true, beq_iff_eq] at h
    exact h.2
  obtain ⟨ys, rfl⟩ := List.getLast?_eq_some_iff.mp hlast
  have := checkTrace_entailed h (ys.length + 1) ys.length (by omega) [] (by simp) σ hσ
  simp at this

end Holpy.C15
