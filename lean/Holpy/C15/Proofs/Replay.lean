import Holpy.C15.Model
import Holpy.C15.Proofs.Trace
namespace Holpy.C15

/-! ### replay by `logic.resolution` is sound -/

theorem findClashAux_spec {d : Clause} : ∀ {c : Clause} {i0 i j : Nat},
    findClashAux d c i0 = some (i, j) →
    ∃ l, i0 ≤ i ∧ c[i - i0]? = some l ∧ d[j]? = some (l.1, !l.2) := by
  intro c
  induction c with
  | nil => intro i0 i j h; simp [findClashAux] at h
  | cons l rest ih =>
    intro i0 i j h
    unfold findClashAux at h
    split at h
    · rename_i j' hj
      simp only [Option.some.injEq, Prod.mk.injEq] at h
      obtain ⟨rfl, rfl⟩ := h
      obtain ⟨hlt, hp, _⟩ := List.findIdx?_eq_some_iff_getElem.mp hj
      refine ⟨l, Nat.le_refl _, by simp, ?_⟩
      rw [List.getElem?_eq_getElem hlt]
      simpa using hp
    · obtain ⟨l', h1, h2, h3⟩ := ih h
      refine ⟨l', by omega, ?_, h3⟩
      have : i - i0 = (i - (i0 + 1)) + 1 := by omega
      rw [this]; simpa using h2

theorem macroResolve_spec {c d r : Clause} (h : macroResolve c d = some r) :
    ∃ l, l ∈ c ∧ (l.1, !l.2) ∈ d ∧
      ∀ x, x ∈ r ↔ (x ∈ c ∧ x ≠ l) ∨ (x ∈ d ∧ x ≠ (l.1, !l.2)) := by
  unfold macroResolve at h
  split at h
  · rename_i i j hf
    obtain ⟨l, _, h2, h3⟩ := findClashAux_spec (i0 := 0) hf
    simp only [Nat.sub_zero] at h2
    simp only [h2, h3, Option.some.injEq] at h
    subst h
    refine ⟨l, List.mem_iff_getElem?.mpr ⟨i, h2⟩, List.mem_iff_getElem?.mpr ⟨j, h3⟩, fun x => ?_⟩
    simp [mem_dedup, List.mem_append, List.mem_filter]
  · cases h

/-- `logic.resolution` derives a consequence of its two premises -/
theorem macroResolve_entails {c d r : Clause} {σ : Nat → Bool} (h : macroResolve c d = some r)
    (hc : ∃ l ∈ c, σ l.1 = l.2) (hd : ∃ l ∈ d, σ l.1 = l.2) : ∃ l ∈ r, σ l.1 = l.2 := by
  obtain ⟨l, _, _, hr⟩ := macroResolve_spec h
  obtain ⟨x, hx, sx⟩ := hc
  obtain ⟨y, hy, sy⟩ := hd
  by_cases e1 : x = l
  · by_cases e2 : y = (l.1, !l.2)
    · subst e1 e2
      simp only at sy
      rw [sx] at sy
      cases hl : x.2 <;> simp [hl] at sy
    · exact ⟨y, (hr y).mpr (Or.inr ⟨hy, e2⟩), sy⟩
  · exact ⟨x, (hr x).mpr (Or.inl ⟨hx, e1⟩), sx⟩

theorem zFold_entailed (base cnf : CNF) (hcnf : ∀ d ∈ cnf, Entailed base d) :
    ∀ (rest : List Nat) (acc : Option Clause) (r : Clause),
      (∀ c, acc = some c → Entailed base c) →
      rest.foldl (zStep cnf) acc = some r → Entailed base r := by
  intro rest
  induction rest with
  | nil => intro acc r hacc h; exact hacc r h
  | cons j js ih =>
    intro acc r hacc h
    simp only [List.foldl_cons] at h
    refine ih _ r ?_ h
    intro c hc
    unfold zStep at hc
    split at hc
    · rename_i c0 d hd
      intro σ hσ
      exact macroResolve_entails hc (hacc c0 rfl σ hσ)
        (hcnf d (List.mem_iff_getElem?.mpr ⟨j, hd⟩) σ hσ)
    · cases hc

theorem zReplayOne_entailed {base cnf : CNF} (hcnf : ∀ d ∈ cnf, Entailed base d) {p : List Nat}
    {r : Clause} (h : zReplayOne cnf p = some r) : Entailed base r := by
  unfold zReplayOne at h
  split at h
  · cases h
  · rename_i i rest
    split at h
    · cases h
    · rename_i c0 hc0
      refine zFold_entailed base cnf hcnf rest (some c0) r ?_ h
      intro c hc; cases hc
      exact hcnf c0 (List.mem_iff_getElem?.mpr ⟨i, hc0⟩)

theorem zReplay_entailed (base : CNF) : ∀ (ps : List (List Nat)) (c c' : CNF),
    (∀ d ∈ c, Entailed base d) → zReplay c ps = some c' →
    (∃ ext, c' = c ++ ext) ∧ ∀ d ∈ c', Entailed base d := by
  intro ps
  induction ps with
  | nil =>
    intro c c' hc h
    simp only [zReplay, Option.some.injEq] at h; subst h
    exact ⟨⟨[], by simp⟩, hc⟩
  | cons p rest ih =>
    intro c c' hc h
    unfold zReplay at h
    split at h
    · rename_i r hr
      have hr' := zReplayOne_entailed hc hr
      obtain ⟨⟨ext, he⟩, h2⟩ := ih (c ++ [r]) c' (by
        intro d hd
        rcases List.mem_append.mp hd with hd | hd
        · exact hc d hd
        · simp only [List.mem_singleton] at hd; subst hd; exact hr') h
      exact ⟨⟨[r] ++ ext, by simp [he]⟩, h2⟩
    · cases h

theorem zReplay_unsat {cnf c' : CNF} {ps : List (List Nat)} (h : zReplay cnf ps = some c')
    (hempty : [] ∈ c') : ¬ ∃ σ, Sat σ cnf := by
  rintro ⟨σ, hσ⟩
  obtain ⟨l, hl, _⟩ := (zReplay_entailed cnf ps cnf c' (fun d hd σ hσ => hσ d hd) h).2 [] hempty σ hσ
  cases hl

end Holpy.C15
