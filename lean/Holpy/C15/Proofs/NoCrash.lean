import Holpy.C15.Model
import Holpy.C15.Proofs.Analyze
namespace Holpy.C15

/-! ### `analyze_conflict` and `backtrack` do not raise -/

theorem lookup_of_mem {tr : Trail} (hn : (tr.map (·.name)).Nodup) {b : Asg} (hb : b ∈ tr) :
    lookup tr b.name = some b := by
  cases h : lookup tr b.name with
  | none => exact absurd rfl (lookup_none h b hb)
  | some a =>
    have := lookup_some h
    rw [name_inj hn this.1 hb this.2]

theorem pick_ne_assertFail {tr : Trail} (hn : (tr.map (·.name)).Nodup) :
    ∀ {c : Clause}, AllFalse tr c → pick tr c ≠ .assertFail := by
  intro c
  induction c with
  | nil => intro _; simp [pick]
  | cons l rest ih =>
    intro hf
    obtain ⟨b, hb, hb1, hb2⟩ := hf l List.mem_cons_self
    have hl : lookup tr l.1 = some b := hb1 ▸ lookup_of_mem hn hb
    unfold pick
    simp only [hl]
    have hne : (l.2 == b.val) = false := by rw [hb2]; cases l.2 <;> rfl
    simp only [hne, Bool.false_eq_true, if_false]
    split
    · simp
    · exact ih (fun x hx => hf x (List.mem_cons_of_mem _ hx))

theorem analyze_no_crash {cnf : CNF} {tr : Trail} {level : Nat} (ht : TrailOK cnf tr level) :
    ∀ (af : Nat) (proof : List Nat) (clause : Clause) (orc : List Clause) (e : Err),
      analyze af cnf tr proof clause orc = .error e → AllFalse tr clause → e = .outOfFuel := by
  intro af
  induction af with
  | zero => intro proof clause orc e h _; simp only [analyze] at h; cases h; rfl
  | succ f ih =>
    intro proof clause orc e h hf
    unfold analyze at h
    split at h
    · rename_i hp; exact absurd hp (pick_ne_assertFail ht.nodup hf)
    · cases h
    · rename_i name r hp
      obtain ⟨D, hD, hstep⟩ := analyze_step ht hp hf
      simp only [hD] at h
      exact ih _ _ _ _ h (hstep orc.head?).1

theorem analyze_allFalse {cnf : CNF} {tr : Trail} {level : Nat} (ht : TrailOK cnf tr level) :
    ∀ (af : Nat) (proof : List Nat) (clause : Clause) (orc : List Clause)
      (proof' : List Nat) (clause' : Clause) (orc' : List Clause),
      analyze af cnf tr proof clause orc = .ok (proof', clause', orc') →
      AllFalse tr clause → AllFalse tr clause' := by
  intro af
  induction af with
  | zero => intro proof clause orc proof' clause' orc' h; simp [analyze] at h
  | succ f ih =>
    intro proof clause orc proof' clause' orc' h hf
    unfold analyze at h
    split at h
    · cases h
    · cases h; exact hf
    · rename_i name r hp
      obtain ⟨D, hD, hstep⟩ := analyze_step ht hp hf
      simp only [hD] at h
      exact ih _ _ _ _ _ _ h (hstep orc.head?).1

theorem mapM_lvlOf_some {tr : Trail} (hn : (tr.map (·.name)).Nodup) :
    ∀ {c : Clause}, AllFalse tr c → ∃ lv, c.mapM (fun l => lvlOf tr l.1) = some lv ∧ lv.length = c.length := by
  intro c
  induction c with
  | nil => intro _; exact ⟨[], rfl, rfl⟩
  | cons l rest ih =>
    intro hf
    obtain ⟨b, hb, hb1, _⟩ := hf l List.mem_cons_self
    have hl : lookup tr l.1 = some b := hb1 ▸ lookup_of_mem hn hb
    obtain ⟨lv, h1, h2⟩ := ih (fun x hx => hf x (List.mem_cons_of_mem _ hx))
    refine ⟨b.lvl :: lv, ?_, by simp [h2]⟩
    have hh : lvlOf tr l.1 = some b.lvl := by simp [lvlOf, hl]
    simp only [List.mapM_cons, hh, h1]
    rfl

theorem backtrackLevel_ok {tr : Trail} (hn : (tr.map (·.name)).Nodup) {c : Clause}
    (hf : AllFalse tr c) (hne : c.isEmpty = false) : ∃ bl, backtrackLevel tr c = .ok bl := by
  unfold backtrackLevel
  split
  · exact ⟨0, rfl⟩
  · rename_i hnot1
    obtain ⟨lv, h1, h2⟩ := mapM_lvlOf_some hn hf
    simp only [h1]
    have hlen : 2 ≤ c.length := by
      match c, hne, hnot1 with
      | [], hne, _ => simp at hne
      | [x], _, hnot1 => exact absurd rfl (hnot1 x)
      | _ :: _ :: _, _, _ => simp
    unfold secondHighest
    rw [if_neg (by omega)]
    exact ⟨_, rfl⟩

end Holpy.C15
