import Holpy.C15.Model
import Holpy.C15.Proofs.ListLemmas
namespace Holpy.C15

/-! ### the measure of the main loop: `Σ_entries (n+1)^(n − level)` -/

/-- the trail as a number: entries of low level weigh more than all entries of higher levels
together (there are at most `n` entries) -/
def rank (n : Nat) (tr : Trail) : Nat := (tr.map (fun a => (n + 1) ^ (n - a.lvl))).sum

theorem rank_append (n : Nat) (t1 t2 : Trail) : rank n (t1 ++ t2) = rank n t1 + rank n t2 := by
  simp [rank, List.map_append, List.sum_append]

theorem rank_le (n : Nat) (tr : Trail) : rank n tr ≤ tr.length * (n + 1) ^ n := by
  apply sum_map_le_length_mul
  intro a _
  exact Nat.pow_le_pow_right (by omega) (by omega)

theorem rank_pos_of_ne_nil (n : Nat) {tr : Trail} (h : tr ≠ []) : 0 < rank n tr := by
  cases tr with
  | nil => exact absurd rfl h
  | cons a rest =>
    have : 0 < (n + 1) ^ (n - a.lvl) := Nat.pow_pos (by omega)
    simp only [rank, List.map_cons, List.sum_cons]
    omega

/-- a backjump to level `bl` followed by at least one propagation at `bl` raises the rank -/
theorem rank_backjump {n : Nat} {tr ext : Trail} {bl : Nat} (hlen : tr.length ≤ n) (hbl : bl < n)
    (hext : ext ≠ []) (hlv : ∀ a ∈ ext, a.lvl = bl) :
    rank n tr < rank n (tr.filter (fun a => a.lvl ≤ bl) ++ ext) := by
  rw [rank_append]
  have hsplit := sum_filter_split (fun a : Asg => (n + 1) ^ (n - a.lvl)) (fun a => a.lvl ≤ bl) tr
  have hhigh : ((tr.filter (fun a => !decide (a.lvl ≤ bl))).map
      (fun a : Asg => (n + 1) ^ (n - a.lvl))).sum ≤
      (tr.filter (fun a => !decide (a.lvl ≤ bl))).length * (n + 1) ^ (n - bl - 1) := by
    apply sum_map_le_length_mul
    intro a ha
    have : ¬ a.lvl ≤ bl := by simpa using (List.mem_filter.mp ha).2
    exact Nat.pow_le_pow_right (by omega) (by omega)
  have hcount : (tr.filter (fun a => !decide (a.lvl ≤ bl))).length ≤ n :=
    Nat.le_trans (List.length_filter_le _ _) hlen
  have hmul : (tr.filter (fun a => !decide (a.lvl ≤ bl))).length * (n + 1) ^ (n - bl - 1) ≤
      n * (n + 1) ^ (n - bl - 1) := Nat.mul_le_mul_right _ hcount
  have hext' : (n + 1) ^ (n - bl) ≤ rank n ext := by
    cases ext with
    | nil => exact absurd rfl hext
    | cons a rest =>
      have := hlv a List.mem_cons_self
      simp only [rank, List.map_cons, List.sum_cons, this]
      omega
  have hpow : (n + 1) ^ (n - bl) = (n + 1) * (n + 1) ^ (n - bl - 1) := by
    have : n - bl = (n - bl - 1) + 1 := by omega
    rw [this, Nat.pow_succ, Nat.mul_comm]
    simp
  have hpos : 0 < (n + 1) ^ (n - bl - 1) := Nat.pow_pos (by omega)
  simp only [rank] at hsplit ⊢
  simp only [rank] at hext'
  have : n * (n + 1) ^ (n - bl - 1) < (n + 1) * (n + 1) ^ (n - bl - 1) :=
    Nat.mul_lt_mul_of_pos_right (by omega) hpos
  omega

end Holpy.C15
