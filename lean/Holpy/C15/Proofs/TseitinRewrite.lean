import Holpy.C15.Model
import Holpy.C15.Proofs.Tseitin
namespace Holpy.C15

/-! ### the rewriting turns the formula into its variable -/

/-- apply `F` to the immediate subformulas -/
def mapChildren (F : Form → Form) : Form → Form
  | .not a => .not (F a)
  | .and a b => .and (F a) (F b)
  | .or a b => .or (F a) (F b)
  | .imp a b => .imp (F a) (F b)
  | .iff a b => .iff (F a) (F b)
  | t => t

/-- `t` after the first `k` rewriting passes: maximal subterms among the first `k` of the order
are replaced by their variables -/
def absK (names : List Nat) (order : List Form) (k : Nat) (t : Form) : Form :=
  if order.idxOf t < k then .atom (varOf names order t) else
  match t with
  | .not a => .not (absK names order k a)
  | .and a b => .and (absK names order k a) (absK names order k b)
  | .or a b => .or (absK names order k a) (absK names order k b)
  | .imp a b => .imp (absK names order k a) (absK names order k b)
  | .iff a b => .iff (absK names order k a) (absK names order k b)
  | t => t

theorem absK_eq (names : List Nat) (order : List Form) (k : Nat) (t : Form) :
    absK names order k t = if order.idxOf t < k then .atom (varOf names order t)
      else mapChildren (absK names order k) t := by
  cases t <;> (unfold absK; rfl)

theorem replace_eq (t pat : Form) (x : Nat) :
    t.replace pat x = if t = pat then .atom x else mapChildren (fun c => c.replace pat x) t := by
  cases t <;> (conv => lhs; unfold Form.replace) <;> rfl


/-- hypotheses shared by the lemmas below: `g = order[k]` is about to be rewritten -/
structure Step (names : List Nat) (order : List Form) (k : Nat) (g : Form) : Prop where
  hlen : names.length = order.length
  hn : names.Nodup
  hk : order[k]? = some g
  hidx : order.idxOf g = k
  topo : ∀ c ∈ g.children, order.idxOf c < k
  fresh : ∀ m ∈ g.names, m ∉ names

theorem mem_of_idxOf_lt {order : List Form} {t : Form} {k : Nat} (h : order.idxOf t < k)
    (hk : k ≤ order.length) : t ∈ order :=
  List.idxOf_lt_length_iff.mp (Nat.lt_of_lt_of_le h hk)

theorem Step.klt {names order k g} (s : Step names order k g) : k < order.length :=
  (List.getElem?_eq_some_iff.mp s.hk).1

theorem Step.gmem {names order k g} (s : Step names order k g) : g ∈ order :=
  List.mem_iff_getElem?.mpr ⟨k, s.hk⟩

/-- an abstracted term is a name variable only if the term itself was already numbered -/
theorem absK_atom {names order k} {t : Form} {x : Nat}
    (hx : x ∈ names) (ht : ∀ m ∈ t.names, m ∉ names)
    (h : absK names order k t = .atom x) : order.idxOf t < k ∧ x = varOf names order t := by
  rw [absK_eq] at h
  split at h
  · rename_i hlt; exact ⟨hlt, by cases h; rfl⟩
  · cases t <;> simp [mapChildren] at h
    subst h
    exact absurd hx (ht _ (by simp [Form.names]))

theorem absK_child {names order k g} (s : Step names order k g) {c : Form} (hc : c ∈ g.children) :
    absK names order k c = .atom (varOf names order c) := by
  rw [absK_eq, if_pos (s.topo c hc)]

theorem mapChildren_g {names order k g} (s : Step names order k g) :
    mapChildren (absK names order k) g = rhsOf names order g := by
  cases g with
  | atom n => rfl
  | tt => rfl
  | ff => rfl
  | not a => simp only [mapChildren, rhsOf, absK_child s (c := a) (by simp [Form.children])]
  | and a b | or a b | imp a b | iff a b =>
    simp only [mapChildren, rhsOf, absK_child s (c := a) (by simp [Form.children]),
      absK_child s (c := b) (by simp [Form.children])]


theorem Step.child_mem {names order k g} (s : Step names order k g) {c : Form}
    (hc : c ∈ g.children) : c ∈ order :=
  mem_of_idxOf_lt (s.topo c hc) (Nat.le_of_lt s.klt)

/-- only `g` itself abstracts to the left-hand side pattern of `g`'s equation -/
theorem mapChildren_inj {names order k g} (s : Step names order k g) {t : Form}
    (ht : ∀ m ∈ t.names, m ∉ names)
    (h : mapChildren (absK names order k) t = rhsOf names order g) : t = g := by
  have key : ∀ {a c : Form}, (∀ m ∈ a.names, m ∉ names) → c ∈ g.children →
      absK names order k a = .atom (varOf names order c) → a = c := by
    intro a c ha hc he
    have hcm := s.child_mem hc
    obtain ⟨hlt, hv⟩ := absK_atom (varOf_mem s.hlen hcm) ha he
    exact (varOf_inj s.hlen s.hn hcm (mem_of_idxOf_lt hlt (Nat.le_of_lt s.klt)) hv).symm
  cases t with
  | atom n =>
    cases g <;> simp [mapChildren, rhsOf] at h ⊢
    exact h
  | tt => cases g <;> simp [mapChildren, rhsOf] at h ⊢
  | ff => cases g <;> simp [mapChildren, rhsOf] at h ⊢
  | not a =>
    cases g <;> simp [mapChildren, rhsOf] at h ⊢
    exact key (fun m hm => ht m (by simpa [Form.names] using hm)) (by simp [Form.children]) h
  | and a b =>
    cases g <;> simp [mapChildren, rhsOf] at h ⊢
    exact ⟨key (fun m hm => ht m (by simp [Form.names, hm])) (by simp [Form.children]) h.1,
      key (fun m hm => ht m (by simp [Form.names, hm])) (by simp [Form.children]) h.2⟩
  | or a b =>
    cases g <;> simp [mapChildren, rhsOf] at h ⊢
    exact ⟨key (fun m hm => ht m (by simp [Form.names, hm])) (by simp [Form.children]) h.1,
      key (fun m hm => ht m (by simp [Form.names, hm])) (by simp [Form.children]) h.2⟩
  | imp a b =>
    cases g <;> simp [mapChildren, rhsOf] at h ⊢
    exact ⟨key (fun m hm => ht m (by simp [Form.names, hm])) (by simp [Form.children]) h.1,
      key (fun m hm => ht m (by simp [Form.names, hm])) (by simp [Form.children]) h.2⟩
  | iff a b =>
    cases g <;> simp [mapChildren, rhsOf] at h ⊢
    exact ⟨key (fun m hm => ht m (by simp [Form.names, hm])) (by simp [Form.children]) h.1,
      key (fun m hm => ht m (by simp [Form.names, hm])) (by simp [Form.children]) h.2⟩


theorem rhsOf_ne_name {names order k g} (s : Step names order k g) {x : Nat} (hx : x ∈ names) :
    Form.atom x ≠ rhsOf names order g := by
  cases g <;> simp [rhsOf]
  rename_i n
  intro e; subst e
  exact s.fresh x (by simp [Form.names]) hx

theorem mapChildren_comp (F G : Form → Form) (t : Form) :
    mapChildren F (mapChildren G t) = mapChildren (fun c => F (G c)) t := by
  cases t <;> rfl

theorem eq_of_idxOf_eq {names order k g} (s : Step names order k g) {t : Form}
    (h : order.idxOf t = k) : t = g := by
  have hm : t ∈ order := List.idxOf_lt_length_iff.mp (h ▸ s.klt)
  have h1 := List.getElem_idxOf (List.idxOf_lt_length_iff.mpr hm)
  have e := s.hk
  rw [List.getElem?_eq_getElem s.klt] at e
  rw [← h1, ← Option.some.inj e]
  simp [h]

theorem replace_absK_core {names order k g} (s : Step names order k g) (t : Form)
    (ht : ∀ m ∈ t.names, m ∉ names)
    (ihc : mapChildren (fun c => (absK names order k c).replace (rhsOf names order g)
        (varOf names order g)) t = mapChildren (absK names order (k + 1)) t) :
    (absK names order k t).replace (rhsOf names order g) (varOf names order g) =
      absK names order (k + 1) t := by
  rw [absK_eq, absK_eq names order (k + 1)]
  by_cases h1 : order.idxOf t < k
  · rw [if_pos h1, if_pos (Nat.lt_succ_of_lt h1), replace_eq,
      if_neg (rhsOf_ne_name s (varOf_mem s.hlen (mem_of_idxOf_lt h1 (Nat.le_of_lt s.klt))))]
    rfl
  · rw [if_neg h1]
    by_cases h2 : order.idxOf t < k + 1
    · have : t = g := eq_of_idxOf_eq s (by omega)
      rw [if_pos h2, this, mapChildren_g s, replace_eq, if_pos rfl]
    · rw [if_neg h2, replace_eq]
      have hne : mapChildren (absK names order k) t ≠ rhsOf names order g := by
        intro e
        have := mapChildren_inj s ht e
        rw [this, s.hidx] at h2; omega
      rw [if_neg hne, mapChildren_comp]
      exact ihc

/-- one rewriting pass -/
theorem replace_absK {names order k g} (s : Step names order k g) :
    ∀ t : Form, (∀ m ∈ t.names, m ∉ names) →
      (absK names order k t).replace (rhsOf names order g) (varOf names order g) =
        absK names order (k + 1) t := by
  intro t
  induction t with
  | atom n | tt | ff => intro ht; exact replace_absK_core s _ ht rfl
  | not a iha =>
    intro ht
    refine replace_absK_core s _ ht ?_
    simp only [mapChildren, iha (fun m hm => ht m (by simpa [Form.names] using hm))]
  | and a b iha ihb | or a b iha ihb | imp a b iha ihb | iff a b iha ihb =>
    intro ht
    refine replace_absK_core s _ ht ?_
    simp only [mapChildren, iha (fun m hm => ht m (by simp [Form.names, hm])),
      ihb (fun m hm => ht m (by simp [Form.names, hm]))]


theorem absK_zero (names : List Nat) (order : List Form) (t : Form) : absK names order 0 t = t := by
  induction t with
  | atom n | tt | ff => rw [absK_eq]; simp [mapChildren]
  | not a iha => rw [absK_eq]; simp [mapChildren, iha]
  | and a b iha ihb | or a b iha ihb | imp a b iha ihb | iff a b iha ihb =>
    rw [absK_eq]; simp [mapChildren, iha, ihb]

/-- what the encoding needs of the numbering and the names -/
structure GoodOrder (names : List Nat) (order : List Form) (f : Form) : Prop where
  hlen : names.length = order.length
  hn : names.Nodup
  ho : order.Nodup
  mem : ∀ g, g ∈ order ↔ g ∈ f.subs
  topo : ∀ (k : Nat) (g : Form), order[k]? = some g → ∀ c ∈ g.children, order.idxOf c < k
  fresh : ∀ m ∈ f.names, m ∉ names

theorem GoodOrder.step {names order f} (h : GoodOrder names order f) {k : Nat} {g : Form}
    (hk : order[k]? = some g) : Step names order k g := by
  have hlt := (List.getElem?_eq_some_iff.mp hk).1
  have hg : order[k] = g := (List.getElem?_eq_some_iff.mp hk).2
  refine ⟨h.hlen, h.hn, hk, ?_, h.topo k g hk, ?_⟩
  · rw [← hg]; exact h.ho.idxOf_getElem k hlt
  · intro m hm
    exact h.fresh m (Form.names_of_subs ((h.mem g).mp (List.mem_iff_getElem?.mpr ⟨k, hk⟩)) m hm)

theorem foldl_take_absK {names order f} (h : GoodOrder names order f) :
    ∀ k, k ≤ order.length →
      (order.take k).foldl (fun t g => t.replace (rhsOf names order g) (varOf names order g)) f =
        absK names order k f := by
  intro k
  induction k with
  | zero => intro _; simp [absK_zero]
  | succ k ih =>
    intro hk
    have hlt : k < order.length := by omega
    rw [List.take_add_one, List.foldl_append, ih (by omega), List.getElem?_eq_getElem hlt]
    simp only [Option.toList_some, List.foldl_cons, List.foldl_nil]
    exact replace_absK (h.step (List.getElem?_eq_getElem hlt)) f h.fresh

/-- after all passes the formula is the variable standing for it -/
theorem rewriteAll_eq {names order f} (h : GoodOrder names order f) :
    rewriteAll names order f = .atom (varOf names order f) := by
  have := foldl_take_absK h order.length (Nat.le_refl _)
  rw [List.take_length] at this
  unfold rewriteAll
  rw [this, absK_eq, if_pos]
  exact List.idxOf_lt_length_iff.mpr ((h.mem f).mpr f.self_mem_subs)

theorem tseitinNamed_eq {names order f} (h : GoodOrder names order f) :
    tseitinNamed names order f = some (coreCNF names order f) := by
  unfold tseitinNamed
  rw [rewriteAll_eq h]
  rfl

theorem nodupB_nodup : ∀ {l : List Form}, nodupB l = true → l.Nodup := by
  intro l
  induction l with
  | nil => intro _; exact List.nodup_nil
  | cons x xs ih =>
    intro h
    simp only [nodupB, Bool.and_eq_true, Bool.not_eq_true', List.contains_eq_mem,
      decide_eq_false_iff_not] at h
    exact List.nodup_cons.mpr ⟨h.1, ih h.2⟩

theorem goodOrder_of_orderOK {names : List Nat} {order : List Form} {f : Form}
    (hok : orderOK order f = true) (hlen : names.length = order.length) (hn : names.Nodup)
    (hfresh : ∀ m ∈ f.names, m ∉ names) : GoodOrder names order f := by
  simp only [orderOK, Bool.and_eq_true, List.all_eq_true, List.contains_iff_mem,
    decide_eq_true_eq] at hok
  obtain ⟨⟨⟨h1, h2⟩, h3⟩, h4⟩ := hok
  refine ⟨hlen, hn, nodupB_nodup h3, fun g => ⟨h1 g, h2 g⟩, ?_, hfresh⟩
  intro k g hk c hc
  exact h4 (g, k) (List.mem_zipIdx_iff_getElem?.mpr hk) c hc

end Holpy.C15
