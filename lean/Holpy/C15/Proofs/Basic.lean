import Holpy.C15.Model
namespace Holpy.C15


theorem mem_dedup_aux (c : Clause) : ∀ (acc : Clause) (l : Lit),
    l ∈ c.foldl (fun acc l => if acc.contains l then acc else acc ++ [l]) acc ↔ l ∈ acc ∨ l ∈ c := by
  induction c with
  | nil => simp
  | cons x xs ih =>
    intro acc l
    simp only [List.foldl_cons, ih, List.mem_cons]
    by_cases h : acc.contains x = true
    · simp only [h, if_true]
      have : x ∈ acc := List.contains_iff_mem.mp h
      constructor
      · rintro (h | h) <;> simp [h]
      · rintro (h | h | h) <;> simp_all
    · simp only [h]
      simp
      grind

theorem mem_dedup {c : Clause} {l : Lit} : l ∈ dedup c ↔ l ∈ c := by
  unfold dedup; rw [mem_dedup_aux]; simp

theorem mem_resolveCanon {c1 c2 : Clause} {n : Nat} {l : Lit} :
    l ∈ resolveCanon c1 c2 n ↔ (l ∈ c1 ∨ l ∈ c2) ∧ l.1 ≠ n := by
  simp [resolveCanon, mem_dedup, List.mem_filter]
  grind

theorem mem_of_isArrangement {o c : Clause} (h : isArrangement o c = true) (l : Lit) :
    l ∈ o ↔ l ∈ c := by
  simp only [isArrangement, Bool.and_eq_true, List.all_eq_true, List.contains_iff_mem] at h
  exact ⟨h.1.2 l, h.1.1.2 l⟩

theorem mem_resolveWith {c1 c2 : Clause} {n : Nat} {o : Option Clause} {l : Lit} :
    l ∈ resolveWith c1 c2 n o ↔ (l ∈ c1 ∨ l ∈ c2) ∧ l.1 ≠ n := by
  unfold resolveWith
  cases o with
  | none => simp [mem_resolveCanon]
  | some oc =>
    simp only
    split
    · rename_i h; rw [mem_of_isArrangement h, mem_resolveCanon]
    · exact mem_resolveCanon

end Holpy.C15
