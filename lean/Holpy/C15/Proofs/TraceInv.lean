import Holpy.C15.Model
import Holpy.C15.Proofs.Analyze
import Holpy.C15.Proofs.NoCrash
namespace Holpy.C15

/-! ### replaying in a longer clause list -/

theorem foldl_replayStep_none (cnf : CNF) (rest : List Nat) :
    rest.foldl (replayStep cnf) none = none := by
  induction rest with
  | nil => rfl
  | cons j js ih => simpa [replayStep] using ih

theorem replayStep_append {cnf : CNF} (ext : CNF) {acc : Option Clause} {j : Nat} {c : Clause}
    (h : replayStep cnf acc j = some c) : replayStep (cnf ++ ext) acc j = some c := by
  unfold replayStep at h ⊢
  split at h
  · rename_i c0 d hd
    have : j < cnf.length := (List.getElem?_eq_some_iff.mp hd).1
    simp only [List.getElem?_append_left this, hd]
    exact h
  · cases h

theorem foldl_replayStep_append {cnf : CNF} (ext : CNF) : ∀ (rest : List Nat) (acc : Option Clause)
    (c : Clause), rest.foldl (replayStep cnf) acc = some c →
    rest.foldl (replayStep (cnf ++ ext)) acc = some c := by
  intro rest
  induction rest with
  | nil => intro acc c h; exact h
  | cons j js ih =>
    intro acc c h
    simp only [List.foldl_cons] at h ⊢
    cases hs : replayStep cnf acc j with
    | none => rw [hs, foldl_replayStep_none] at h; cases h
    | some c1 =>
      rw [hs] at h
      rw [replayStep_append ext hs]
      exact ih _ _ h

theorem replayProof_append {cnf : CNF} (ext : CNF) {p : List Nat} {c : Clause}
    (h : replayProof cnf p = some c) : replayProof (cnf ++ ext) p = some c := by
  unfold replayProof at h ⊢
  split at h
  · cases h
  · rename_i i rest
    split at h
    · cases h
    · rename_i c0 hc0
      have : i < cnf.length := (List.getElem?_eq_some_iff.mp hc0).1
      simp only [List.getElem?_append_left this, hc0]
      exact foldl_replayStep_append ext _ _ _ h

/-! ### the recorded proofs -/

/-- Invariant of `proofs`: one entry per learned clause, ids consecutive from `n0`, every entry
cites earlier clauses only and replays to (an arrangement of) the clause stored under its id. -/
structure TraceOK (cnf : CNF) (n0 : Nat) (proofs : List (Nat × List Nat)) : Prop where
  len : proofs.length + n0 = cnf.length
  each : ∀ (k : Nat) (p : Nat × List Nat), proofs[k]? = some p →
    p.1 = n0 + k ∧ (∀ j ∈ p.2, j < n0 + k) ∧
    ∃ c d, replayProof cnf p.2 = some c ∧ cnf[n0 + k]? = some d ∧ ∀ l, l ∈ c ↔ l ∈ d

theorem TraceOK.nil (cnf : CNF) : TraceOK cnf cnf.length [] :=
  ⟨by simp, by simp⟩

theorem TraceOK.learn {cnf : CNF} {n0 : Nat} {proofs : List (Nat × List Nat)}
    (h : TraceOK cnf n0 proofs) {proof : List Nat} {clause : Clause}
    (hlt : ∀ j ∈ proof, j < cnf.length) (hr : Replays cnf proof clause) :
    TraceOK (cnf ++ [clause]) n0 (proofs ++ [(cnf.length, proof)]) := by
  refine ⟨by simp [← h.len]; omega, ?_⟩
  intro k p hk
  by_cases hkl : k < proofs.length
  · rw [List.getElem?_append_left hkl] at hk
    obtain ⟨h1, h2, c, d, h3, h4, h5⟩ := h.each k p hk
    refine ⟨h1, h2, c, d, replayProof_append _ h3, ?_, h5⟩
    have : n0 + k < cnf.length := (List.getElem?_eq_some_iff.mp h4).1
    rw [List.getElem?_append_left this]; exact h4
  · have hk' : k = proofs.length := by
      have := (List.getElem?_eq_some_iff.mp hk).1
      simp at this; omega
    subst hk'
    simp at hk
    subst hk
    have e : n0 + proofs.length = cnf.length := by have := h.len; omega
    obtain ⟨c, hc, hcm⟩ := hr
    refine ⟨e.symm, by simpa [e] using hlt, c, clause, replayProof_append _ hc, by simp [e], hcm⟩

theorem replayStep_some {cnf : CNF} {acc : Option Clause} {j : Nat} {c : Clause}
    (h : replayStep cnf acc j = some c) : j < cnf.length := by
  unfold replayStep at h
  split at h
  · rename_i hd; exact (List.getElem?_eq_some_iff.mp hd).1
  · cases h

theorem foldl_replayStep_lt {cnf : CNF} : ∀ (rest : List Nat) (acc : Option Clause) (c : Clause),
    rest.foldl (replayStep cnf) acc = some c → ∀ j ∈ rest, j < cnf.length := by
  intro rest
  induction rest with
  | nil => intro acc c _ j hj; cases hj
  | cons x xs ih =>
    intro acc c h j hj
    simp only [List.foldl_cons] at h
    cases hs : replayStep cnf acc x with
    | none => rw [hs, foldl_replayStep_none] at h; cases h
    | some c1 =>
      rcases List.mem_cons.mp hj with rfl | hj
      · exact replayStep_some hs
      · rw [hs] at h; exact ih _ _ h j hj

/-- a replay that succeeds cites existing clauses only -/
theorem replayProof_lt {cnf : CNF} {p : List Nat} {c : Clause} (h : replayProof cnf p = some c) :
    ∀ j ∈ p, j < cnf.length := by
  unfold replayProof at h
  split at h
  · cases h
  · rename_i i rest
    split at h
    · cases h
    · rename_i c0 hc0
      intro j hj
      rcases List.mem_cons.mp hj with rfl | hj
      · exact (List.getElem?_eq_some_iff.mp hc0).1
      · exact foldl_replayStep_lt _ _ _ h j hj

/-- `rebuild` produces a clause list against which the proofs check. -/
theorem rebuild_traceOK (n0 : Nat) : ∀ (ps done : List (Nat × List Nat)) (c sh : CNF),
    TraceOK c n0 done → rebuild c ps = some sh → TraceOK sh n0 (done ++ ps) := by
  intro ps
  induction ps with
  | nil => intro done c sh ht h; simp only [rebuild, Option.some.injEq] at h; subst h; simpa using ht
  | cons x xs ih =>
    intro done c sh ht h
    obtain ⟨i, p⟩ := x
    unfold rebuild at h
    split at h
    · rename_i hi
      have hi : i = c.length := by simpa using hi
      subst hi
      split at h
      · rename_i r hr
        have := ih (done ++ [(c.length, p)]) (c ++ [r]) sh
          (ht.learn (replayProof_lt hr) ⟨r, hr, fun _ => Iff.rfl⟩) h
        simpa using this
      · cases h
    · cases h

theorem rebuild_snoc : ∀ (ps : List (Nat × List Nat)) (c sh : CNF) (p : List Nat) (r : Clause),
    rebuild c ps = some sh → replayProof sh p = some r →
    rebuild c (ps ++ [(sh.length, p)]) = some (sh ++ [r]) := by
  intro ps
  induction ps with
  | nil =>
    intro c sh p r h hr
    simp only [rebuild, Option.some.injEq] at h
    subst h
    simp [rebuild, hr]
  | cons x xs ih =>
    intro c sh p r h hr
    obtain ⟨i, q⟩ := x
    unfold rebuild at h
    simp only [List.cons_append]
    unfold rebuild
    split at h
    · rename_i hi
      rw [if_pos hi]
      split at h
      · rename_i r1 hr1
        exact ih _ _ _ _ h hr
      · cases h
    · cases h

theorem sameSet_of_mem {a b : Clause} (h : ∀ l, l ∈ a ↔ l ∈ b) : sameSet a b = true := by
  simp only [sameSet, Bool.and_eq_true, List.all_eq_true, List.contains_iff_mem]
  exact ⟨fun l => (h l).mp, fun l => (h l).mpr⟩

theorem TraceOK.checkTrace {cnf : CNF} {n0 : Nat} {proofs : List (Nat × List Nat)}
    (h : TraceOK cnf n0 proofs) (hlast : cnf.getLast? = some []) :
    checkTrace cnf n0 proofs = true := by
  simp only [Holpy.C15.checkTrace, Bool.and_eq_true, List.all_eq_true, beq_iff_eq]
  refine ⟨⟨h.len, ?_⟩, hlast⟩
  rintro ⟨p, k⟩ hmem
  have hk : proofs[k]? = some p := List.mem_zipIdx_iff_getElem?.mp hmem
  obtain ⟨h1, h2, c, d, h3, h4, h5⟩ := h.each k p hk
  simp only [h1, h3, h4, sameSet_of_mem h5, decide_eq_true_eq]
  exact ⟨⟨trivial, h2⟩, trivial⟩

end Holpy.C15
