import Holpy.C15.Model
import Holpy.C15.Proofs.TseitinRewrite
namespace Holpy.C15

theorem pickOrder_ok {f : Form} {o order : List Form} (h : pickOrder f o = some order) :
    orderOK order f = true := by
  unfold pickOrder at h
  split at h
  · cases h; assumption
  · split at h
    · cases h; assumption
    · cases h

/-- the fixed `encode` produces exactly the intended clause set -/
theorem tseitinOrd_eq {f : Form} {extra : List Nat} {o order : List Form}
    (h : pickOrder f o = some order) :
    tseitinOrd f extra o =
      some (coreCNF (freshNames (f.names ++ extra) order.length) order f) ∧
    GoodOrder (freshNames (f.names ++ extra) order.length) order f := by
  obtain ⟨h1, h2, h3⟩ := freshNames_spec (f.names ++ extra) order.length
  have hg : GoodOrder (freshNames (f.names ++ extra) order.length) order f :=
    goodOrder_of_orderOK (pickOrder_ok h) h1 h3
      (fun m hm hx => h2 m hx (List.mem_append_left _ hm))
  refine ⟨?_, hg⟩
  unfold tseitinOrd
  rw [h]
  exact tseitinNamed_eq hg

theorem tseitinOrd_equisat {f : Form} {extra : List Nat} {o : List Form} {cnf : CNF}
    (h : tseitinOrd f extra o = some cnf) :
    (∃ σ, Sat σ cnf) ↔ (∃ ρ, f.eval ρ = true) := by
  cases hp : pickOrder f o with
  | none => simp [tseitinOrd, hp] at h
  | some order =>
    obtain ⟨e, hg⟩ := tseitinOrd_eq (extra := extra) hp
    rw [e] at h
    cases h
    exact coreCNF_equisat hg.mem hg.hlen hg.hn

theorem tseitinOrd_isSome {f : Form} (extra : List Nat) {o : List Form}
    (h : orderOK o f = true) : ∃ cnf, tseitinOrd f extra o = some cnf := by
  have hp : pickOrder f o = some o := by simp [pickOrder, h]
  exact ⟨_, (tseitinOrd_eq hp).1⟩

/-- the auxiliary variables of the fixed `encode` are not variables of the formula -/
theorem tseitinOrd_fresh {f : Form} {extra : List Nat} {o : List Form} {cnf : CNF}
    (h : tseitinOrd f extra o = some cnf) :
    ∀ cl ∈ cnf, ∀ l ∈ cl, l.1 ∉ f.names ++ extra := by
  cases hp : pickOrder f o with
  | none => simp [tseitinOrd, hp] at h
  | some order =>
    obtain ⟨e, hg⟩ := tseitinOrd_eq (extra := extra) hp
    rw [e] at h
    cases h
    have hfree := (freshNames_spec (f.names ++ extra) order.length).2.1
    have hv : ∀ g ∈ order, varOf (freshNames (f.names ++ extra) order.length) order g ∉
        f.names ++ extra := fun g hg' => hfree _ (varOf_mem hg.hlen hg')
    have hc := closed_of_same_subs hg.mem
    intro cl hcl l hl
    simp only [coreCNF, List.mem_append, List.mem_flatMap, List.mem_singleton] at hcl
    rcases hcl with ⟨g, hgm, hcl⟩ | rfl
    · have hch : ∀ c ∈ g.children, c ∈ order := hc g hgm
      cases g with
      | atom n => simp [clausesOf] at hcl
      | tt | ff =>
        simp only [clausesOf, List.mem_singleton] at hcl; subst hcl
        simp only [List.mem_singleton] at hl; subst hl
        exact hv _ hgm
      | not a =>
        have ha := hv a (hch a (by simp [Form.children]))
        have hg0 := hv _ hgm
        simp only [clausesOf, clausesNot, List.mem_cons, List.not_mem_nil, or_false] at hcl
        rcases hcl with rfl | rfl <;>
          (simp only [List.mem_cons, List.not_mem_nil, or_false] at hl
           rcases hl with rfl | rfl <;> assumption)
      | and a b | or a b | imp a b | iff a b =>
        have ha := hv a (hch a (by simp [Form.children]))
        have hb := hv b (hch b (by simp [Form.children]))
        have hg0 := hv _ hgm
        simp only [clausesOf, clausesAnd, clausesOr, clausesImp, clausesIff, List.mem_cons,
          List.not_mem_nil, or_false] at hcl
        rcases hcl with rfl | rfl | rfl | rfl <;>
          (simp only [List.mem_cons, List.not_mem_nil, or_false] at hl
           rcases hl with rfl | rfl | rfl <;> assumption)
    · simp only [List.mem_singleton] at hl; subst hl
      exact hv f ((hg.mem f).mpr f.self_mem_subs)

end Holpy.C15
