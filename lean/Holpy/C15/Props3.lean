import Holpy.C15.Model
import Holpy.C15.Script
import Holpy.C15.Proofs.ProofTerm
/-
C15 — property theorems, third file: the proof term of `tseitin.encode` as a script over a small
proof system (`Script.lean`: assume, rewriting with an assumed equation right to left, conjI,
rewriting with encode_* / eq_true / eq_false, conj_norm).
-/
namespace Holpy.C15

/-- The small proof system is sound: whatever sequent `Prf.check` accepts for a script — `encode`'s
or any other built from assume / `top_conv(rewr_conv(eq, sym=True))` / `conjI` /
`top_conv(rewr_conv(encode_*, eq_true, eq_false))` / `conj_norm` steps — is valid: every assignment
making the hypotheses true makes the conclusion true. -/
theorem proof_system_sound {p : Prf} {s : Sequent} (h : p.check = some s) (ρ : Nat → Bool)
    (hh : ∀ t ∈ s.1, t.eval ρ = true) : s.2.eval ρ = true :=
  check_sound p h ρ hh

/-- `x2 ⟷ a ∧ b, a ∧ b ⊢ (¬x2 ∨ a) ∧ (¬x2 ∨ b) ∧ (¬a ∨ ¬b ∨ x2) ∧ x2` by assume, rewrite, conjI, encode_conj -/
example : (Prf.rewrThm .conj (.conjI (.assume (.iff (.atom 4) (.and (.atom 1) (.atom 3))))
      (.rewrHypSym (.assume (.iff (.atom 4) (.and (.atom 1) (.atom 3))))
        (.assume (.and (.atom 1) (.atom 3)))))).check =
    some ([.iff (.atom 4) (.and (.atom 1) (.atom 3)), .and (.atom 1) (.atom 3)],
      .and (rhsConj (.atom 4) (.atom 1) (.atom 3)) (.atom 4)) := by decide

/-- One pass `top_conv(rewr_conv(th))` with `encode_conj/disj/imp/eq/not`, `eq_true`, `eq_false`
(the latter two right to left) keeps the meaning of the formula, whatever terms `l`, `r1`, `r2`
are matched: the rewriting steps of `encode` are equivalences. -/
theorem encode_rewrite_pass_equiv (r : Rule) (ρ : Nat → Bool) (t : Form) :
    (t.rewr r).eval ρ = t.eval ρ := rewr_eval r ρ t

example : (Form.iff (.atom 4) (.and (.atom 1) (.iff (.atom 3) .tt))).rewr .conj =
    rhsConj (.atom 4) (.atom 1) (.iff (.atom 3) .tt) := by decide

/-- PARTIAL (the missing part is the ONE hypothesis `hc`: that the script `encode` builds for `f`
is accepted by `Prf.check`; it is evaluated by the model driver on every generated formula and
compared line by line with the real proof term, not proved for all formulas): if `encode`'s
script for `f` checks, the sequent it derives is valid — and it is the script's own last line. -/
theorem encode_proofterm_valid_partial {f tgt : Form} {extra : List Nat} {o : List Form} {p : Prf}
    {s : Sequent} (_hp : encodeScript f extra o tgt = some p) (hc : p.check = some s)
    (ρ : Nat → Bool) (hh : ∀ t ∈ s.1, t.eval ρ = true) : s.2.eval ρ = true :=
  check_sound p hc ρ hh

/-- `a ∧ ¬x1` (`(Form.and (.atom 1) (.not (.atom 2)))`): the script of `encode` checks and states the model's CNF, with the
model's hypotheses -/
example : (encodeScript (Form.and (.atom 1) (.not (.atom 2))) [] [] (formOfCnf
      [[(8, true), (6, true)], [(8, false), (6, false)], [(10, false), (4, true)],
       [(10, false), (8, true)], [(4, false), (8, false), (10, true)], [(10, true)]])).bind Prf.check =
    some ([.iff (.atom 10) (.and (.atom 4) (.atom 8)), .iff (.atom 8) (.not (.atom 6)),
           .iff (.atom 6) (.atom 2), .iff (.atom 4) (.atom 1), (Form.and (.atom 1) (.not (.atom 2)))],
      formOfCnf [[(8, true), (6, true)], [(8, false), (6, false)], [(10, false), (4, true)],
       [(10, false), (8, true)], [(4, false), (8, false), (10, true)], [(10, true)]]) := by decide

end Holpy.C15
