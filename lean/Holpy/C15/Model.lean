/-
C15 — executable model of `prover/sat.py` (`solve_cnf`, `resolution`, `is_solution`).

The model follows the Python statement by statement, including what looks accidental:
* `unit_propagate` rescans the clause list from the start after every propagation;
* a clause whose unassigned literals are `[y, y]` is *not* unit (the list has length 2);
* `analyze_conflict` resolves on the first literal of the current clause (in list order) whose
  variable was propagated, and asserts `val != assigns[name][0]` only for the literals it visits;
* `backtrack` returns to the second highest level of the learned clause (0 for a unit clause).

Two things in the Python are order-unspecified because they go through a `set` of tuples /
strings (whose iteration order depends on the per-process string hash seed):
`resolution` returns `list(set(lit1 + lit2))`, and decisions iterate `variables`, a `set`.
The model takes both orders as *oracle* arguments (`Oracle.vars`, `Oracle.res`); every theorem in
`Props.lean` is for an arbitrary oracle.  The correspondence harness records the orders the real
run used and hands them to the model.

Variable names are `Nat` (the harness numbers the strings injectively).
Import-free: this file is linked into the `c15_model` driver.
-/
namespace Holpy.C15

abbrev Lit := Nat × Bool
abbrev Clause := List Lit
abbrev CNF := List Clause

/-- The assignment `σ` satisfies every clause of `cnf` (the meaning of a CNF). -/
def Sat (σ : Nat → Bool) (cnf : CNF) : Prop := ∀ cl ∈ cnf, ∃ l ∈ cl, σ l.1 = l.2

/-- One entry of the Python dict `assigns`: name ↦ (val, is_decide, level, clause_id). -/
structure Asg where
  name : Nat
  val : Bool
  dec : Bool
  lvl : Nat
  reason : Nat
  deriving Repr, BEq, DecidableEq

abbrev Trail := List Asg

def lookup (tr : Trail) (n : Nat) : Option Asg := tr.find? (fun a => a.name == n)

/-- `is_solution(cnf, assignment)`; the assignment is the dict as an association list. -/
def litTrue (asg : List (Nat × Bool)) (l : Lit) : Bool :=
  match asg.find? (fun p => p.1 == l.1) with
  | some p => p.2 == l.2
  | none => false

def isSolution (cnf : CNF) (asg : List (Nat × Bool)) : Bool :=
  cnf.all (fun cl => cl.any (litTrue asg))

/-- `resolution(clause1, clause2, name)` up to the order of the result (a Python `set`). -/
def dedup (c : Clause) : Clause :=
  c.foldl (fun acc l => if acc.contains l then acc else acc ++ [l]) []

def resolveCanon (c1 c2 : Clause) (name : Nat) : Clause :=
  dedup (c1.filter (fun l => l.1 != name) ++ c2.filter (fun l => l.1 != name))

def nodupLit : Clause → Bool
  | [] => true
  | x :: xs => !xs.contains x && nodupLit xs

/-- `o` lists exactly the members of `c`, each once. -/
def isArrangement (o c : Clause) : Bool :=
  o.length == c.length && c.all o.contains && o.all c.contains && nodupLit o

/-- Use the recorded order when it is an arrangement of the canonical result. -/
def resolveWith (c1 c2 : Clause) (name : Nat) (o : Option Clause) : Clause :=
  let r := resolveCanon c1 c2 name
  match o with
  | some oc => if isArrangement oc r then oc else r
  | none => r

-- ---------------------------------------------------------------- unit propagation

def trailVal (tr : Trail) (n : Nat) : Option Bool := (lookup tr n).map (·.val)

/-- literal satisfied by the trail -/
def litSat (tr : Trail) (l : Lit) : Bool := trailVal tr l.1 == some l.2

def litUnassigned (tr : Trail) (l : Lit) : Bool := (lookup tr l.1).isNone

def clauseSat (tr : Trail) (cl : Clause) : Bool := cl.any (litSat tr)

def unassigned (tr : Trail) (cl : Clause) : Clause := cl.filter (litUnassigned tr)

inductive Scan where
  | conflict (cid : Nat)
  | unit (cid : Nat) (l : Lit)
  | done (hasUnsat : Bool)
  deriving Repr

/-- one pass of the `for clause_id, clause in enumerate(cnf)` loop -/
def scan (tr : Trail) : CNF → Nat → Bool → Scan
  | [], _, hasUnsat => .done hasUnsat
  | cl :: rest, cid, hasUnsat =>
    if clauseSat tr cl then scan tr rest (cid + 1) hasUnsat
    else match unassigned tr cl with
      | [] => .conflict cid
      | [l] => .unit cid l
      | _ => scan tr rest (cid + 1) true

inductive Prop' where
  | conflict (cid : Nat)
  | sat
  | undecided
  | outOfFuel
  deriving Repr, BEq

/-- `unit_propagate()`; every propagation assigns a fresh variable, so `fuel` = number of
variables + 1 always suffices (the driver passes more). -/
def unitPropagate : Nat → CNF → Trail → Nat → Prop' × Trail
  | 0, _, tr, _ => (.outOfFuel, tr)
  | fuel + 1, cnf, tr, level =>
    match scan tr cnf 0 false with
    | .conflict cid => (.conflict cid, tr)
    | .unit cid l => unitPropagate fuel cnf (tr ++ [⟨l.1, l.2, false, level, cid⟩]) level
    | .done hasUnsat => (if hasUnsat then .undecided else .sat, tr)

-- ---------------------------------------------------------------- conflict analysis

inductive Pick where
  | resolve (name : Nat) (reason : Nat)
  | noResolution
  | assertFail
  deriving Repr

/-- the `for lit in clause` loop of `analyze_conflict` -/
def pick (tr : Trail) : Clause → Pick
  | [] => .noResolution
  | l :: rest =>
    match lookup tr l.1 with
    | none => .assertFail
    | some a =>
      if l.2 == a.val then .assertFail
      else if !a.dec then .resolve l.1 a.reason
      else pick tr rest

inductive Err where
  | assertion      -- AssertionError in analyze_conflict
  | index          -- IndexError / KeyError
  | outOfFuel      -- the fuel standing in for `while True` of the main loop / of `analyze_conflict` ran out
  | propFuel       -- the fuel of `unit_propagate` ran out (never happens: `no_crash`)
  deriving Repr, BEq, DecidableEq

/-- `analyze_conflict`: returns (proof, clause, remaining oracle). -/
def analyze : Nat → CNF → Trail → List Nat → Clause → List Clause →
    Except Err (List Nat × Clause × List Clause)
  | 0, _, _, _, _, _ => .error .outOfFuel
  | fuel + 1, cnf, tr, proof, clause, orc =>
    match pick tr clause with
    | .assertFail => .error .assertion
    | .noResolution => .ok (proof, clause, orc)
    | .resolve name r =>
      match cnf[r]? with
      | none => .error .index
      | some rc =>
        analyze fuel cnf tr (proof ++ [r]) (resolveWith clause rc name orc.head?) orc.tail

-- ---------------------------------------------------------------- backtracking

def lvlOf (tr : Trail) (n : Nat) : Option Nat := (lookup tr n).map (·.lvl)

def maxNat (l : List Nat) : Nat := l.foldl max 0

/-- level of `sorted(clause, key=level)[-2]`: the largest level left when one copy of the largest
is taken away -/
def secondHighest (lvls : List Nat) : Option Nat :=
  if lvls.length < 2 then none else some (maxNat (lvls.erase (maxNat lvls)))

def backtrackLevel (tr : Trail) (clause : Clause) : Except Err Nat :=
  match clause with
  | [_] => .ok 0
  | _ =>
    match clause.mapM (fun l => lvlOf tr l.1) with
    | none => .error .index
    | some lv =>
      match secondHighest lv with
      | some b => .ok b
      | none => .error .index

-- ---------------------------------------------------------------- main loop

structure Oracle where
  vars : List Nat          -- iteration order of the Python set `variables`
  res : List Clause        -- results of the successive `resolution` calls

inductive Result where
  | sat (asg : List (Nat × Bool))
  | unsat (cnf : CNF) (proofs : List (Nat × List Nat))   -- final clause list, learned id ↦ proof
  | error (e : Err)
  deriving Repr

structure St where
  cnf : CNF
  tr : Trail
  level : Nat
  proofs : List (Nat × List Nat)
  orc : List Clause

def decideVar (vars : List Nat) (tr : Trail) (level : Nat) : Trail :=
  match vars.find? (fun v => (lookup tr v).isNone) with
  | some v => tr ++ [⟨v, true, true, level, 0⟩]
  | none => tr

def mainLoop (vars : List Nat) (nvars af : Nat) : Nat → St → Prop' → Result
  | 0, _, _ => .error .outOfFuel
  | fuel + 1, s, pr =>
    match pr with
    | .outOfFuel => .error .propFuel
    | .sat => .sat (s.tr.map (fun a => (a.name, a.val)))
    | .undecided =>
      let level := s.level + 1
      let tr := decideVar vars s.tr level
      let (pr', tr') := unitPropagate (nvars + 2) s.cnf tr level
      mainLoop vars nvars af fuel { s with tr := tr', level := level } pr'
    | .conflict cid =>
      match s.cnf[cid]? with
      | none => .error .index
      | some c0 =>
        match analyze af s.cnf s.tr [cid] c0 s.orc with
        | .error e => .error e
        | .ok (proof, clause, orc') =>
          let newId := s.cnf.length
          let cnf' := s.cnf ++ [clause]
          let proofs' := s.proofs ++ [(newId, proof)]
          if clause.isEmpty then .unsat cnf' proofs'
          else
            match backtrackLevel s.tr clause with
            | .error e => .error e
            | .ok bl =>
              let tr := s.tr.filter (fun a => a.lvl ≤ bl)
              let (pr', tr') := unitPropagate (nvars + 2) cnf' tr bl
              mainLoop vars nvars af fuel ⟨cnf', tr', bl, proofs', orc'⟩ pr'

def varsOf (cnf : CNF) : List Nat :=
  (cnf.flatMap (fun c => c.map (·.1))).foldl (fun acc v => if acc.contains v then acc else acc ++ [v]) []

/-- `solve_cnf(cnf)`.  `o.vars` is used as the decision order when it lists exactly the
variables of the CNF, otherwise first-occurrence order. -/
def solveCnf (fuel : Nat) (cnf0 : CNF) (o : Oracle) : Result :=
  -- `cnf = [list(dict.fromkeys(clause)) for clause in cnf]` (first occurrences kept)
  let cnf := cnf0.map dedup
  let vs := varsOf cnf
  let order := if o.vars.length == vs.length && vs.all o.vars.contains && o.vars.all vs.contains
               then o.vars else vs
  let nvars := vs.length
  let (pr, tr) := unitPropagate (nvars + 2) cnf [] 0
  mainLoop order nvars fuel fuel ⟨cnf, tr, 0, [], o.res⟩ pr

-- ---------------------------------------------------------------- runs without learning (used by `solve_terminates_partial`)

/-- The run from `(s, pr)` learns no non-empty clause within `fuel` iterations: it ends by
`satisfiable`, or by a conflict whose analysis gives the empty clause (a conflict at level 0).
Same recursion as `mainLoop`. -/
def noLearn (vars : List Nat) (nvars af : Nat) : Nat → St → Prop' → Bool
  | 0, _, _ => true
  | fuel + 1, s, pr =>
    match pr with
    | .outOfFuel => true
    | .sat => true
    | .undecided =>
      let level := s.level + 1
      let tr := decideVar vars s.tr level
      let (pr', tr') := unitPropagate (nvars + 2) s.cnf tr level
      noLearn vars nvars af fuel { s with tr := tr', level := level } pr'
    | .conflict cid =>
      match s.cnf[cid]? with
      | none => false
      | some c0 =>
        match analyze af s.cnf s.tr [cid] c0 s.orc with
        | .error _ => false
        | .ok (_, clause, _) => clause.isEmpty

/-- `noLearn` for the whole of `solve_cnf` (same set-up as `solveCnf`) -/
def noLearnRun (fuel : Nat) (cnf0 : CNF) (o : Oracle) : Bool :=
  let cnf := cnf0.map dedup
  let vs := varsOf cnf
  let order := if o.vars.length == vs.length && vs.all o.vars.contains && o.vars.all vs.contains
               then o.vars else vs
  let nvars := vs.length
  let (pr, tr) := unitPropagate (nvars + 2) cnf [] 0
  noLearn order nvars fuel fuel ⟨cnf, tr, 0, [], o.res⟩ pr

-- ---------------------------------------------------------------- trace checking

/-- First literal of `c1` whose negation occurs in `c2`. -/
def clashLit (c1 c2 : Clause) : Option Lit :=
  c1.find? (fun l => c2.contains (l.1, !l.2))

/-- One checked resolution step: the pivot is the first clashing literal `(n, b)` of `c`; `c` must
mention `n` only as `(n, b)` and `d` only as `(n, !b)` (otherwise dropping every literal on `n`,
as `resolution` does, would not be a resolution step). -/
def resolveStep (c d : Clause) : Option Clause :=
  match clashLit c d with
  | none => none
  | some l =>
    if c.all (fun x => x.1 != l.1 || x.2 == l.2) && d.all (fun x => x.1 != l.1 || x.2 == !l.2)
    then some (resolveCanon c d l.1) else none

/-- One step of a replay: resolve the clause so far with clause number `j`. -/
def replayStep (cnf : CNF) (acc : Option Clause) (j : Nat) : Option Clause :=
  match acc, cnf[j]? with
  | some c, some d => resolveStep c d
  | _, _ => none

/-- Fold `resolution` over the clauses named by a proof. -/
def replayProof (cnf : CNF) : List Nat → Option Clause
  | [] => none
  | i :: rest =>
    match cnf[i]? with
    | none => none
    | some c0 => rest.foldl (replayStep cnf) (some c0)

def sameSet (a b : Clause) : Bool := a.all b.contains && b.all a.contains

/-- Checker for an `unsatisfiable` answer: `n0` original clauses, then one learned clause per
proof entry, each replayed from clauses with smaller index; the last learned clause is empty. -/
def checkTrace (cnf : CNF) (n0 : Nat) (proofs : List (Nat × List Nat)) : Bool :=
  proofs.length + n0 == cnf.length &&
  (proofs.zipIdx.all fun (p, k) =>
    p.1 == n0 + k && p.2.all (· < n0 + k) &&
    match replayProof cnf p.2, cnf[n0 + k]? with
    | some c, some d => sameSet c d
    | _, _ => false) &&
  cnf.getLast? == some []

/-- Rebuild the learned clauses from the proofs alone (what `solve_cnf` returns): entry `(i, p)`
must carry the next free id and cite existing clauses; its clause is the replay of `p`. -/
def rebuild : CNF → List (Nat × List Nat) → Option CNF
  | c, [] => some c
  | c, (i, p) :: rest =>
    if i == c.length then
      match replayProof c p with
      | some r => rebuild (c ++ [r]) rest
      | none => none
    else none

/-- Checker for the pair `('unsatisfiable', proofs)` against the input CNF. -/
def checkProofs (cnf : CNF) (proofs : List (Nat × List Nat)) : Bool :=
  match rebuild (cnf.map dedup) proofs with
  | some c => checkTrace c cnf.length proofs
  | none => false

-- ---------------------------------------------------------------- replay by `logic.resolution`

/-- `resolution_macro.get_proof_term`: the first pair `(i, j)` — `i` over the first clause, for it
the first `j` — such that the literals are complementary (after `fixes/C15-4.patch` the positions
found are used whichever side the positive literal is on). -/
def findClashAux (d : Clause) : Clause → Nat → Option (Nat × Nat)
  | [], _ => none
  | l :: rest, i =>
    match d.findIdx? (fun m => m == (l.1, !l.2)) with
    | some j => some (i, j)
    | none => findClashAux d rest (i + 1)

def findClash (c d : Clause) : Option (Nat × Nat) := findClashAux d c 0

/-- `logic.resolution(pt1, pt2)` on the clauses of the two theorems: the two found literals are
removed (every copy of them, `fixes/C15-5.patch`), the rest is joined; `disj_norm` sorts and
removes repetitions (the order is not observable: results are compared as sets).
`none` = "literal not found". -/
def macroResolve (c d : Clause) : Option Clause :=
  match findClash c d with
  | some (i, j) =>
    match c[i]?, d[j]? with
    | some l, some m => some (dedup (c.filter (fun x => x != l) ++ d.filter (fun x => x != m)))
    | _, _ => none
  | none => none

def zStep (cnf : CNF) (acc : Option Clause) (j : Nat) : Option Clause :=
  match acc, cnf[j]? with
  | some c, some d => macroResolve c d
  | _, _ => none

/-- one `Resolvent` line `CL: id <= c0 c1 …` of a zChaff trace, or one proof list of
`sat.solve_cnf`: `pt = clause_pt[c0]; for c in rest: pt = resolution(pt, clause_pt[c])` -/
def zReplayOne (cnf : CNF) : List Nat → Option Clause
  | [] => none
  | i :: rest =>
    match cnf[i]? with
    | none => none
    | some c0 => rest.foldl (zStep cnf) (some c0)

/-- the replay loop of `zChaff.solve` / `proofrec.solve_cnf`: every derived clause is appended
under the next index (the ids written in the trace are not read) -/
def zReplay : CNF → List (List Nat) → Option CNF
  | c, [] => some c
  | c, p :: rest =>
    match zReplayOne c p with
    | some r => zReplay (c ++ [r]) rest
    | none => none

/-- `proofrec.solve_cnf` after the replay: `assert clause_pts[-1].prop == false` -/
def proofrecCheck (cnf : CNF) (proofs : List (List Nat)) : Bool :=
  match zReplay cnf proofs with
  | some c => c.getLast? == some []
  | none => false

end Holpy.C15

-- ---------------------------------------------------------------- zChaff traces: VAR / CONF sections
namespace Holpy.C15

/-- one line of a zChaff `resolve_trace` as `zChaff.solve` reads it -/
inductive ZLine where
  | cl (id : Nat) (rsl : List Nat)                                  -- `CL: id <= c0 c1 …`
  | var (v level : Nat) (value : Bool) (ante : Nat) (lits : List Nat) -- `VAR: v L: l V: b A: c Lits: …`
  | conf (cls : Nat) (lits : List Nat)                              -- `CONF: c == …`
  deriving Repr, DecidableEq

/-- a whitespace-separated token of a trace line: a number or anything else -/
inductive ZTok where
  | num (n : Nat)
  | word (s : String)
  deriving Repr, DecidableEq

/-- `Resolvent` / `ImpliedVarValue` / `Conflict`: the line's kind is read off its beginning, the
regular expressions drop the labels, what is left must be numbers. -/
def zLabels : List String := ["CL:", "<=", "VAR:", "L:", "V:", "A:", "Lits:", "CONF:", "=="]

def zNums : List ZTok → Option (List Nat)
  | [] => some []
  | .num n :: rest => (zNums rest).map (n :: ·)
  | .word w :: rest => if zLabels.contains w then zNums rest else none

def parseZLine (toks : List ZTok) : Option ZLine :=
  match toks, zNums toks with
  | .word "CL:" :: _, some (i :: rsl) => some (.cl i rsl)
  | .word "VAR:" :: _, some (v :: l :: b :: a :: lits) => some (.var v l (b == 1) a lits)
  | .word "CONF:" :: _, some (c :: lits) => some (.conf c lits)
  | _, _ => none

/-- stable insertion by level (`sorted(second, key=lambda x: x.level)`) -/
def insertByLevel (x : Nat × ZLine) : List (Nat × ZLine) → List (Nat × ZLine)
  | [] => [x]
  | y :: ys => if y.1 ≤ x.1 then y :: insertByLevel x ys else x :: y :: ys

def zLevel : ZLine → Nat
  | .var _ l _ _ _ => l
  | _ => 0

def sortByLevel (l : List ZLine) : List ZLine :=
  ((l.map (fun x => (zLevel x, x))).foldl (fun acc x => insertByLevel x acc) []).map (·.2)

/-- value recorded for a variable (`var_pt`, a dict: the last entry counts) -/
def knownLit (known : List Lit) (x : Nat) : Option Lit := known.reverse.find? (fun l => l.1 == x)

def lookupAll (known : List Lit) : List Nat → Option (List Lit)
  | [] => some []
  | x :: xs =>
    match knownLit known x, lookupAll known xs with
    | some k, some ks => some (k :: ks)
    | _, _ => none

/-- one `VAR` line: the antecedent clause must consist of the implied literal and the negations
of the recorded values of the other listed variables, exactly (`DisjForceMacro`) -/
def zImply (cnf : CNF) (known : List Lit) (v : Nat) (value : Bool) (ante : Nat) (lits : List Nat) :
    Option Lit :=
  match cnf[ante]? with
  | none => none
  | some c =>
    let others := (lits.map (· / 2)).filter (fun x => x != v)
    match lookupAll known others with
    | none => none
    | some ks =>
      let goal : Lit := (v, value)
      let expected : Clause := goal :: ks.map (fun l => (l.1, !l.2))
      if others.isEmpty then (if c.all (· == goal) && !c.isEmpty then some goal else none)
      else if c.all expected.contains && expected.all c.contains then some goal else none

def zImplyAll (cnf : CNF) : List ZLine → List Lit → Option (List Lit)
  | [], known => some known
  | .var v _ value ante lits :: rest, known =>
    match zImply cnf known v value ante lits with
    | some g => zImplyAll cnf rest (known ++ [g])
    | none => none
  | _ :: _, _ => none

/-- the `CONF` line: every literal of the conflicting clause is the negation of the recorded value
of a listed variable (`DisjFalseMacro` reduces the clause to `false`) -/
def zConflict (cnf : CNF) (known : List Lit) (cls : Nat) (lits : List Nat) : Bool :=
  match cnf[cls]?, lookupAll known (lits.map (· / 2)) with
  | some c, some ks => c.all (fun l => ks.contains (l.1, !l.2))
  | _, _ => false

/-- `zChaff.solve` from the parsed trace on: replay the `CL` lines, derive the implied values in
level order, check the conflict (the first `CONF` line).  `true` = the refutation goes through. -/
def zCheck (cnf : CNF) (trace : List ZLine) : Bool :=
  let cls := trace.filterMap (fun l => match l with | .cl _ rsl => some rsl | _ => none)
  let vars := sortByLevel (trace.filter (fun l => match l with | .var .. => true | _ => false))
  let confs := trace.filter (fun l => match l with | .conf .. => true | _ => false)
  match zReplay cnf cls, confs with
  | some c', .conf cl lits :: _ =>
    match zImplyAll c' vars [] with
    | some known => zConflict c' known cl lits
    | none => false
  | _, _ => false

/-- from the file content (token lists of its lines) -/
def zCheckLines (cnf : CNF) (lines : List (List ZTok)) : Bool :=
  match lines.mapM parseZLine with
  | some tr => zCheck cnf tr
  | none => false

end Holpy.C15

-- ---------------------------------------------------------------- Tseitin encoding
namespace Holpy.C15

/-- Propositional formulas as `prover/tseitin.py` sees them (`is_logical`: ¬ ∧ ∨ ⟶ and ⟷ between
booleans; `true`/`false`; anything else is an atom).  Variable names are numbers shared with the
CNF: the name `x<k>` is `2 * k`, every other name (and the identity of an atom that is not a
variable, such as `m = n` on numbers) is an odd number. -/
inductive Form where
  | atom (n : Nat)
  | tt
  | ff
  | not (a : Form)
  | and (a b : Form)
  | or (a b : Form)
  | imp (a b : Form)
  | iff (a b : Form)
  deriving DecidableEq, Repr

def Form.eval (ρ : Nat → Bool) : Form → Bool
  | .atom n => ρ n
  | .tt => true
  | .ff => false
  | .not a => !(a.eval ρ)
  | .and a b => a.eval ρ && b.eval ρ
  | .or a b => a.eval ρ || b.eval ρ
  | .imp a b => !(a.eval ρ) || b.eval ρ
  | .iff a b => a.eval ρ == b.eval ρ

/-- `rec(t)` of `logic_subterms`: the subterms, children first. -/
def Form.subs : Form → List Form
  | .atom n => [.atom n]
  | .tt => [.tt]
  | .ff => [.ff]
  | .not a => a.subs ++ [.not a]
  | .and a b => a.subs ++ b.subs ++ [.and a b]
  | .or a b => a.subs ++ b.subs ++ [.or a b]
  | .imp a b => a.subs ++ b.subs ++ [.imp a b]
  | .iff a b => a.subs ++ b.subs ++ [.iff a b]

/-- immediate logical subterms -/
def Form.children : Form → List Form
  | .not a => [a]
  | .and a b | .or a b | .imp a b | .iff a b => [a, b]
  | _ => []

/-- the atoms of the formula (for variables: their names, part of `t.get_vars()`) -/
def Form.names : Form → List Nat
  | .atom n => [n]
  | .tt | .ff => []
  | .not a => a.names
  | .and a b | .or a b | .imp a b | .iff a b => a.names ++ b.names

/-- the distinct subterms in first-occurrence order (`set(ts)`; the Python then sorts them with
`term_ord.fast_compare` — that order is an oracle argument of `tseitinOrd`) -/
def dedupF (l : List Form) : List Form :=
  l.foldl (fun acc g => if acc.contains g then acc else acc ++ [g]) []

/-- `while 'x' + str(i) in used_names: i += 1`; no name above `used.sum` is used, so the fuel
`used.sum + 1` the caller passes always suffices (`nextFree_free`). -/
def nextFree (used : List Nat) : Nat → Nat → Nat
  | 0, i => i
  | fuel + 1, i => if used.contains (2 * i) then nextFree used fuel (i + 1) else i

/-- the indices `encode` gives to `n` subterms, starting the search at `i` -/
def freshFrom (used : List Nat) : Nat → Nat → List Nat
  | 0, _ => []
  | n + 1, i =>
    let j := nextFree used (used.sum + 1) i
    (2 * j) :: freshFrom used n (j + 1)

/-- names of the auxiliary variables after the fix: `x<i>` for the first `n` indices `i ≥ 1` whose
name is not in `used` (the atoms of the formula and the variables inside its non-variable atoms) -/
def freshNames (used : List Nat) (n : Nat) : List Nat := freshFrom used n 1

/-- names before the fix: `x1 .. xn` whatever `f` mentions -/
def plainNames (n : Nat) : List Nat := (List.range n).map (fun i => 2 * (i + 1))

/-- `subterm_dict[g]` for the numbering `order` and the names `names` -/
def varOf (names : List Nat) (order : List Form) (g : Form) : Nat :=
  names.getD (order.idxOf g) 0

/-- right-hand side of the equation `x_g ⟷ …` that `encode` assumes for `g` -/
def rhsOf (names : List Nat) (order : List Form) : Form → Form
  | .not a => .not (.atom (varOf names order a))
  | .and a b => .and (.atom (varOf names order a)) (.atom (varOf names order b))
  | .or a b => .or (.atom (varOf names order a)) (.atom (varOf names order b))
  | .imp a b => .imp (.atom (varOf names order a)) (.atom (varOf names order b))
  | .iff a b => .iff (.atom (varOf names order a)) (.atom (varOf names order b))
  | g => g

/-- `top_conv(rewr_conv(x = pat, sym=True))`: every occurrence of `pat`, found top-down, becomes
the variable `x` -/
def Form.replace (t : Form) (pat : Form) (x : Nat) : Form :=
  if t = pat then .atom x else
  match t with
  | .not a => .not (a.replace pat x)
  | .and a b => .and (a.replace pat x) (b.replace pat x)
  | .or a b => .or (a.replace pat x) (b.replace pat x)
  | .imp a b => .imp (a.replace pat x) (b.replace pat x)
  | .iff a b => .iff (a.replace pat x) (b.replace pat x)
  | t => t

/-- the loop `for eq_pt in eq_pts: encode_pt = encode_pt.on_prop(top_conv(rewr_conv(eq_pt, sym=True)))` -/
def rewriteAll (names : List Nat) (order : List Form) (f : Form) : Form :=
  order.foldl (fun t g => t.replace (rhsOf names order g) (varOf names order g)) f

/-- right-hand sides of `encode_not/conj/disj/imp/eq` as clause lists (checked against the rules
regenerated from `library/sat.json` in `Props.lean`) -/
def clausesNot (l r : Nat) : CNF := [[(l, true), (r, true)], [(l, false), (r, false)]]
def clausesAnd (l r1 r2 : Nat) : CNF :=
  [[(l, false), (r1, true)], [(l, false), (r2, true)], [(r1, false), (r2, false), (l, true)]]
def clausesOr (l r1 r2 : Nat) : CNF :=
  [[(l, false), (r1, true), (r2, true)], [(r1, false), (l, true)], [(r2, false), (l, true)]]
def clausesImp (l r1 r2 : Nat) : CNF :=
  [[(l, false), (r1, false), (r2, true)], [(r1, true), (l, true)], [(r2, false), (l, true)]]
def clausesIff (l r1 r2 : Nat) : CNF :=
  [[(l, false), (r1, false), (r2, true)], [(l, false), (r1, true), (r2, false)],
   [(l, true), (r1, false), (r2, false)], [(l, true), (r1, true), (r2, true)]]

/-- the clauses contributed by the equation of `g`: the rule's right-hand side for a connective,
the unit clause `x` / `¬x` for `true` / `false` (`eq_true`, `eq_false`), none for an atom (its
equation `x_g ⟷ atom` stays a hypothesis of the theorem) -/
def clausesOf (names : List Nat) (order : List Form) (g : Form) : CNF :=
  let v := varOf names order
  match g with
  | .atom _ => []
  | .tt => [[(v g, true)]]
  | .ff => [[(v g, false)]]
  | .not a => clausesNot (v g) (v a)
  | .and a b => clausesAnd (v g) (v a) (v b)
  | .or a b => clausesOr (v g) (v a) (v b)
  | .imp a b => clausesImp (v g) (v a) (v b)
  | .iff a b => clausesIff (v g) (v a) (v b)

/-- `convert_cnf` on what is left of the formula itself after the rewriting (a single variable
when the encoding works as intended): conjuncts, then disjuncts along the right spine, then
literals; `none` where `convert_literal` would fail. -/
def Form.conjuncts : Form → List Form
  | .and a b => a.conjuncts ++ b.conjuncts
  | t => [t]

def Form.disjuncts : Form → List Form
  | .or a b => a :: b.disjuncts
  | t => [t]

def litOfForm : Form → Option Lit
  | .atom n => some (n, true)
  | .not (.atom n) => some (n, false)
  | _ => none

def cnfOfForm (t : Form) : Option CNF :=
  t.conjuncts.mapM (fun c => c.disjuncts.mapM litOfForm)

/-- CNF of `tseitin.encode(f)` for a numbering of the subterms and a choice of names: the clauses
of every subterm's equation, and the clauses of the rewritten formula. -/
def tseitinNamed (names : List Nat) (order : List Form) (f : Form) : Option CNF :=
  match cnfOfForm (rewriteAll names order f) with
  | some c => some (order.flatMap (clausesOf names order) ++ c)
  | none => none

def nodupB : List Form → Bool
  | [] => true
  | x :: xs => !xs.contains x && nodupB xs

/-- hypotheses of the theorem `encode` returns: the equations `x_g ⟷ …` of all subterms (for an
atom: `x_g ⟷ atom`) and the formula itself; its conclusion is the CNF -/
def hypsNamed (names : List Nat) (order : List Form) (f : Form) : List Form :=
  order.map (fun g => .iff (.atom (varOf names order g)) (rhsOf names order g)) ++ [f]

/-- what the theorems need of the numbering: it lists exactly the subterms of `f`, each once,
children before parents (`sorted_terms` sorts by size first) -/
def orderOK (order : List Form) (f : Form) : Bool :=
  order.all f.subs.contains && f.subs.all order.contains && nodupB order &&
  order.zipIdx.all (fun (g, i) => g.children.all (fun c => order.idxOf c < i))

/-- the recorded subterm order when usable, else first-occurrence order -/
def pickOrder (f : Form) (o : List Form) : Option (List Form) :=
  if orderOK o f then some o
  else if orderOK (dedupF f.subs) f then some (dedupF f.subs) else none

/-- `encode` after the fix; `extra` = names of variables inside atoms that are not variables. -/
def tseitinOrd (f : Form) (extra : List Nat) (o : List Form) : Option CNF :=
  match pickOrder f o with
  | some order => tseitinNamed (freshNames (f.names ++ extra) order.length) order f
  | none => none

def tseitin (f : Form) : Option CNF := tseitinOrd f [] []

/-- hypotheses of `encode`'s theorem (same choice of order and names as `tseitinOrd`) -/
def tseitinHyps (f : Form) (extra : List Nat) (o : List Form) : Option (List Form) :=
  match pickOrder f o with
  | some order => some (hypsNamed (freshNames (f.names ++ extra) order.length) order f)
  | none => none

/-- the naming before the fix (`x1..xn` regardless of the atoms of `f`) -/
def tseitinUnfixed (f : Form) (o : List Form) : Option CNF :=
  match pickOrder f o with
  | some order => tseitinNamed (plainNames order.length) order f
  | none => none

end Holpy.C15
