import Holpy.C15.Model
import Holpy.C15.Gen
import Holpy.C15.Proofs
/-
C15 — property theorems (statements live here, helper lemmas in Proofs.lean).
Every theorem about the solver is for an arbitrary fuel and an arbitrary oracle (the orders
Python's sets may produce).
-/
namespace Holpy.C15

/-! ### Tseitin rules, regenerated from `library/sat.json` on every run (Gen.lean) -/

theorem encode_conj_valid : ∀ l r1 r2 : Bool, Gen.encode_conj l r1 r2 = true := by decide
theorem encode_disj_valid : ∀ l r1 r2 : Bool, Gen.encode_disj l r1 r2 = true := by decide
theorem encode_imp_valid : ∀ l r1 r2 : Bool, Gen.encode_imp l r1 r2 = true := by decide
theorem encode_eq_valid : ∀ l r1 r2 : Bool, Gen.encode_eq l r1 r2 = true := by decide
theorem encode_not_valid : ∀ l r : Bool, Gen.encode_not l r = true := by decide
theorem encode_rules_complete :
    Gen.ruleNames = ["encode_conj", "encode_disj", "encode_imp", "encode_eq", "encode_not"] := by decide

end Holpy.C15
