import Holpy.C15.Model
import Holpy.C15.Gen
import Holpy.C15.Proofs
/-
C15 — property theorems (statements live here, helper lemmas in Proofs.lean).
Every theorem about the solver is for an arbitrary fuel and an arbitrary oracle (the orders
Python's sets may produce).
-/
namespace Holpy.C15

/-! ### `solve_cnf` -/

/-- a satisfiable instance (with a repeated literal) and an unsatisfiable one, used below -/
def exSat : CNF := [[(0,true),(1,true)],[(0,false),(2,true),(2,true)],[(1,false),(2,false)],[(0,false),(1,false)]]
def exUnsat : CNF :=
  [[(0,true),(1,true)],[(0,false),(1,true)],[(0,true),(1,false)],[(0,false),(1,false)]]

theorem exSat_run : solveCnf 100 exSat ⟨[2,1,0],[]⟩ = .sat [(2, true), (1, false), (0, true)] := by
  rfl
theorem exUnsat_run : solveCnf 100 exUnsat ⟨[0,1],[]⟩ =
    .unsat (exUnsat ++ [[(0, false)], []]) [(4, [3, 1]), (5, [2, 4, 0, 4])] := by rfl

/-- `solve_cnf` answering `'satisfiable', a`: `is_solution(cnf, a)` holds (for the input as given,
before repeated literals are removed). -/
theorem sat_sound {fuel : Nat} {cnf : CNF} {o : Oracle} {a : List (Nat × Bool)}
    (h : solveCnf fuel cnf o = .sat a) : isSolution cnf a = true :=
  (solveCnf_spec fuel cnf o).1 a h

example : isSolution exSat [(2, true), (1, false), (0, true)] = true := sat_sound exSat_run

/-- ... hence some total assignment satisfies every clause. -/
theorem sat_sound_sem {fuel : Nat} {cnf : CNF} {o : Oracle} {a : List (Nat × Bool)}
    (h : solveCnf fuel cnf o = .sat a) : ∃ σ, Sat σ cnf :=
  ⟨asgFun a, sat_of_isSolution (sat_sound h)⟩

example : ∃ σ, Sat σ exSat := sat_sound_sem exSat_run

/-- One checked resolution step (what `resolution(c, d, name)` computes when `c`, `d` clash on
`name` only in one polarity each) is sound: the resolvent holds wherever both premises hold. -/
theorem resolveStep_sound {c d r : Clause} {σ : Nat → Bool} (h : resolveStep c d = some r)
    (hc : ∃ l ∈ c, σ l.1 = l.2) (hd : ∃ l ∈ d, σ l.1 = l.2) : ∃ l ∈ r, σ l.1 = l.2 :=
  resolveStep_entails h hc hd

example : resolveStep [(0,true),(1,false)] [(0,false),(2,true)] = some [(1,false),(2,true)] := by
  decide

/-- The trace checker is sound: a clause list whose learned part replays by resolution from
earlier clauses and ends in the empty clause certifies that the first `n0` clauses are
unsatisfiable. -/
theorem checkTrace_sound {c : CNF} {n0 : Nat} {ps : List (Nat × List Nat)}
    (h : checkTrace c n0 ps = true) : ¬ ∃ σ, Sat σ (c.take n0) :=
  checkTrace_unsat h

example : ¬ ∃ σ, Sat σ exUnsat := by
  have h := checkTrace_sound (c := exUnsat ++ [[(0, false)], []]) (n0 := 4)
    (ps := [(4, [3, 1]), (5, [2, 4, 0, 4])]) (by decide)
  exact h

/-- The checker the harness runs on every `('unsatisfiable', proofs)` the real `solve_cnf`
returns (learned clauses rebuilt from the proofs alone): acceptance means the input has no model. -/
theorem checkProofs_sound {cnf : CNF} {ps : List (Nat × List Nat)}
    (h : checkProofs cnf ps = true) : ¬ ∃ σ, Sat σ cnf :=
  checkProofs_unsat h

example : ¬ ∃ σ, Sat σ exUnsat :=
  checkProofs_sound (ps := [(4, [3, 1]), (5, [2, 4, 0, 4])]) (by decide)
example : checkProofs exUnsat [(4, [3, 1]), (5, [2, 4, 0])] = false := by decide

/-- `solve_cnf` answering `'unsatisfiable'`: no assignment satisfies the input. -/
theorem unsat_sound {fuel : Nat} {cnf : CNF} {o : Oracle} {c' : CNF} {ps : List (Nat × List Nat)}
    (h : solveCnf fuel cnf o = .unsat c' ps) : ¬ ∃ σ, Sat σ cnf :=
  ((solveCnf_spec fuel cnf o).2.1 c' ps h).1

example : ¬ ∃ σ, Sat σ exUnsat := unsat_sound exUnsat_run

/-- `solve_cnf` answering `'unsatisfiable', proofs`: the final clause list starts with the
(de-duplicated) input, and `proofs` passes the trace checker against it — ids consecutive, every
proof cites earlier clauses only, each learned clause is what folding `resolution` over the cited
clauses gives (pivot = the clashing variable, occurring in one polarity on each side), and the last
learned clause is empty. -/
theorem trace_valid {fuel : Nat} {cnf : CNF} {o : Oracle} {c' : CNF} {ps : List (Nat × List Nat)}
    (h : solveCnf fuel cnf o = .unsat c' ps) :
    checkTrace c' cnf.length ps = true ∧ c'.take cnf.length = cnf.map dedup :=
  ⟨((solveCnf_spec fuel cnf o).2.1 c' ps h).2.1, ((solveCnf_spec fuel cnf o).2.1 c' ps h).2.2.1⟩

example : checkTrace (exUnsat ++ [[(0, false)], []]) 4 [(4, [3, 1]), (5, [2, 4, 0, 4])] = true :=
  (trace_valid exUnsat_run).1

/-- The same from what `solve_cnf` actually returns (the proofs, not the learned clauses): the
learned clauses can be recomputed by replaying the proofs in order, whatever order `resolution`'s
sets had, and the proofs pass the checker against the recomputed list. -/
theorem proofs_valid {fuel : Nat} {cnf : CNF} {o : Oracle} {c' : CNF} {ps : List (Nat × List Nat)}
    (h : solveCnf fuel cnf o = .unsat c' ps) : checkProofs cnf ps = true :=
  ((solveCnf_spec fuel cnf o).2.1 c' ps h).2.2.2

example : checkProofs exUnsat [(4, [3, 1]), (5, [2, 4, 0, 4])] = true := proofs_valid exUnsat_run

/-- The verdict agrees with exhaustive search, whichever it is. -/
theorem verdict_correct {fuel : Nat} {cnf : CNF} {o : Oracle} :
    (∀ a, solveCnf fuel cnf o = .sat a → ∃ σ, Sat σ cnf) ∧
    (∀ c' ps, solveCnf fuel cnf o = .unsat c' ps → ¬ ∃ σ, Sat σ cnf) :=
  ⟨fun _ h => sat_sound_sem h, fun _ _ h => unsat_sound h⟩

example : (∃ σ, Sat σ exSat) ∧ ¬ ∃ σ, Sat σ exUnsat :=
  ⟨verdict_correct.1 _ exSat_run, verdict_correct.2 _ _ exUnsat_run⟩

/-- `unit_propagate` needs at most one round per variable: with more fuel than variables (the main
loop passes `nvars + 2`) the model's inner loop never runs out — every propagation assigns a variable
that was unassigned.  `vs` is any list containing the variables of the clauses. -/
theorem unit_propagate_fuel_suffices {vs : List Nat} {cnf : CNF}
    (hvs : ∀ c ∈ cnf, ∀ l ∈ c, l.1 ∈ vs) (fuel : Nat) (tr : Trail) (level : Nat)
    (h : vs.length < fuel) : (unitPropagate fuel cnf tr level).1 ≠ .outOfFuel :=
  unitPropagate_fuel_suffices hvs fuel tr level
    (Nat.lt_of_le_of_lt (freeVars_le vs tr) h)

example : (unitPropagate 3 [[(0, true)], [(0, false), (1, true)]] [] 0).1 = .sat := by rfl

/-- `solve_cnf` never raises: the `assert` in `analyze_conflict`, the clause lookups and the
`clause[-2]` / `assigns[name]` indexing in `backtrack` cannot fail, for any CNF and any set order;
nor does the inner fuel of `unit_propagate` run out (`.propFuel`).  The only other outcome of the
model is `.outOfFuel`: the fuel argument, which stands in for `while True` of the main loop and of
`analyze_conflict`, was too small; termination itself is not proved. -/
theorem no_crash {fuel : Nat} {cnf : CNF} {o : Oracle} {e : Err}
    (h : solveCnf fuel cnf o = .error e) : e = .outOfFuel :=
  (solveCnf_spec fuel cnf o).2.2 e h

example : solveCnf 1 exUnsat ⟨[0,1],[]⟩ = .error .outOfFuel := by rfl
example : solveCnf 100 exUnsat ⟨[0,1],[]⟩ ≠ .error .propFuel := fun h => by cases no_crash h

/-! ### Tseitin rules, regenerated from `library/sat.json` on every run (Gen.lean) -/

theorem encode_conj_valid : ∀ l r1 r2 : Bool, Gen.encode_conj l r1 r2 = true := by decide
theorem encode_disj_valid : ∀ l r1 r2 : Bool, Gen.encode_disj l r1 r2 = true := by decide
theorem encode_imp_valid : ∀ l r1 r2 : Bool, Gen.encode_imp l r1 r2 = true := by decide
theorem encode_eq_valid : ∀ l r1 r2 : Bool, Gen.encode_eq l r1 r2 = true := by decide
theorem encode_not_valid : ∀ l r : Bool, Gen.encode_not l r = true := by decide
theorem encode_rules_complete :
    Gen.ruleNames = ["encode_conj", "encode_disj", "encode_imp", "encode_eq", "encode_not"] := by decide

/-- The clause groups the model's `tseitin` emits are literally the right-hand sides of the rules
`tseitin.encode` rewrites with (as `library/sat.json` states them now). -/
theorem clauses_match_rules :
    (∀ l r, clausesNot l r = Gen.encode_not_cnf l r) ∧
    (∀ l r1 r2, clausesAnd l r1 r2 = Gen.encode_conj_cnf l r1 r2) ∧
    (∀ l r1 r2, clausesOr l r1 r2 = Gen.encode_disj_cnf l r1 r2) ∧
    (∀ l r1 r2, clausesImp l r1 r2 = Gen.encode_imp_cnf l r1 r2) ∧
    (∀ l r1 r2, clausesIff l r1 r2 = Gen.encode_eq_cnf l r1 r2) :=
  ⟨fun _ _ => rfl, fun _ _ _ => rfl, fun _ _ _ => rfl, fun _ _ _ => rfl, fun _ _ _ => rfl⟩

/-- Each rule's clause list says exactly that `l` is the connective applied to `r1`, `r2`
(for arbitrary, not necessarily distinct, variables). -/
theorem encode_cnf_meaning (σ : Nat → Bool) :
    (∀ l r, Sat σ (Gen.encode_not_cnf l r) ↔ σ l = !(σ r)) ∧
    (∀ l r1 r2, Sat σ (Gen.encode_conj_cnf l r1 r2) ↔ σ l = (σ r1 && σ r2)) ∧
    (∀ l r1 r2, Sat σ (Gen.encode_disj_cnf l r1 r2) ↔ σ l = (σ r1 || σ r2)) ∧
    (∀ l r1 r2, Sat σ (Gen.encode_imp_cnf l r1 r2) ↔ σ l = (!(σ r1) || σ r2)) ∧
    (∀ l r1 r2, Sat σ (Gen.encode_eq_cnf l r1 r2) ↔ σ l = (σ r1 == σ r2)) :=
  ⟨sat_clausesNot σ, sat_clausesAnd σ, sat_clausesOr σ, sat_clausesImp σ, sat_clausesIff σ⟩

example : Sat (fun n => n == 2) (Gen.encode_conj_cnf 0 1 2) :=
  ((encode_cnf_meaning _).2.1 0 1 2).mpr rfl

/-! ### Tseitin encoding -/

/-- `tseitin.encode(f)` (after the fix of the auxiliary names): whenever the model's `encode`
answers — it does for every numbering that lists the subterms once, children first, see
`tseitin_succeeds` — the rewriting passes have turned `f` into its variable, the CNF consists of
the clauses of each subterm's rule and that variable's unit clause, and it is satisfiable iff `f`
is.  `extra` = names of variables inside atoms that are not variables, `o` = order of
`term_ord.sorted_terms`; both arbitrary. -/
theorem tseitin_equisat {f : Form} {extra : List Nat} {o : List Form} {cnf : CNF}
    (h : tseitinOrd f extra o = some cnf) :
    (∃ σ, Sat σ cnf) ↔ (∃ ρ, Form.eval ρ f = true) :=
  tseitinOrd_equisat h

/-- ... and `encode` does answer for such a numbering. -/
theorem tseitin_succeeds {f : Form} (extra : List Nat) {o : List Form}
    (h : orderOK o f = true) : ∃ cnf, tseitinOrd f extra o = some cnf :=
  tseitinOrd_isSome extra h

/-- Freshness: no variable of the CNF is a variable of the formula (atoms and auxiliary variables
share one name space in the model, as in the Python). -/
theorem tseitin_names_fresh {f : Form} {extra : List Nat} {o : List Form} {cnf : CNF}
    (h : tseitinOrd f extra o = some cnf) : ∀ cl ∈ cnf, ∀ l ∈ cl, l.1 ∉ f.names ++ extra :=
  tseitinOrd_fresh h

/-- `(a ∧ false) ∨ (b ⟷ true)` with `a` = name 1, `b` = name 3: seven subterms, 13 clauses -/
def exForm : Form := .or (.and (.atom 1) .ff) (.iff (.atom 3) .tt)
theorem exForm_run : tseitin exForm = some
    [[(4, false)],
     [(6, false), (2, true)], [(6, false), (4, true)], [(2, false), (4, false), (6, true)],
     [(10, true)],
     [(12, false), (8, false), (10, true)], [(12, false), (8, true), (10, false)],
     [(12, true), (8, false), (10, false)], [(12, true), (8, true), (10, true)],
     [(14, false), (6, true), (12, true)], [(6, false), (14, true)], [(12, false), (14, true)],
     [(14, true)]] := by decide
example : ∃ σ, Sat σ ((tseitin exForm).getD []) := by
  rw [exForm_run]; exact (tseitin_equisat exForm_run).mpr ⟨fun n => n == 3, by decide⟩
example : ∀ cnf, tseitin (.and (.atom 1) (.not (.atom 1))) = some cnf → ¬ ∃ σ, Sat σ cnf := by
  intro cnf h; rw [tseitin_equisat h]; rintro ⟨ρ, h⟩; simp [Form.eval] at h

/-- `a ∧ ¬x1` (`a` = name 1, `x1` = name 2): with the fix the auxiliary names start at `x2`. -/
def clashForm : Form := .and (.atom 1) (.not (.atom 2))
example : tseitin clashForm = some
    [[(8, true), (6, true)], [(8, false), (6, false)],
     [(10, false), (4, true)], [(10, false), (8, true)], [(4, false), (8, false), (10, true)],
     [(10, true)]] := by decide

/-- Before the fix (`x1..xn` whatever the formula mentions) the same formula, which is
satisfiable, gets an unsatisfiable CNF: the atom `x1` is identified with the variable introduced
for `a`, the rewriting stops at `x2 ∧ x3`, and `x3 ⟷ ¬x2` is among the clauses.  (This is what the
unfixed `tseitin.encode` returns: `[x3∨x2] [¬x3∨¬x2] [¬x4∨x1] [¬x4∨x3] [¬x1∨¬x3∨x4] [x2] [x3]`.) -/
theorem tseitin_name_clash_counterexample :
    ∃ cnf, tseitinUnfixed clashForm [] = some cnf ∧ (¬ ∃ σ, Sat σ cnf) ∧
      (∃ ρ, Form.eval ρ clashForm = true) := by
  refine ⟨[[(6, true), (4, true)], [(6, false), (4, false)], [(8, false), (2, true)],
    [(8, false), (6, true)], [(2, false), (6, false), (8, true)], [(4, true)], [(6, true)]],
    by decide, ?_, ⟨fun n => n == 1, by decide⟩⟩
  exact checkProofs_sound (ps := [(7, [6, 1, 5])]) (by decide)

end Holpy.C15
