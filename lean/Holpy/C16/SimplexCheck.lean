import Holpy.C16.SimplexInv
/-
C16 — soundness of `check()` of the simplex model: the invariant it maintains, SAT and UNSAT.
-/
namespace Holpy.C16.Simplex

/-- `v x` lies within the bounds the state has for `x` -/
def InB (s : SState) (v : Var → ℚ) (x : Var) : Prop :=
  (∀ l, s.lo x = some l → l ≤ v x) ∧ (∀ u, s.hi x = some u → v x ≤ u)

/-- the invariant of the solver state -/
structure Inv (s : SState) : Prop where
  wf : WF s
  rows : RowsHold s.rows s.mapping
  nb : ∀ x, isBasic s x = false → InB s s.mapping x
  bnd : ∀ x l u, s.lo x = some l → s.hi x = some u → l ≤ u

theorem coeffOf_eq_eval (x : Var) (js : Jars) (h : DistinctVars js) :
    coeffOf x js = evalJ js (setQ (fun _ => (0 : ℚ)) x 1) := by
  rw [evalJ_setQ js _ x 1 h]
  have : ∀ l : Jars, evalJ l (fun _ => (0 : ℚ)) = 0 := by
    intro l; induction l with
    | nil => rfl
    | cons p l ih => obtain ⟨y, c⟩ := p; simp [evalJ, ih]
  rw [this]; ring

theorem coeffOf_reducePairs (x : Var) (js : Jars) (h : DistinctVars js) :
    coeffOf x (reducePairs js) = coeffOf x js := by
  rw [coeffOf_eq_eval x _ (sorted_reducePairs js).distinct, coeffOf_eq_eval x js h, evalJ_reducePairs]

theorem evalJ_le (js : Jars) (v m : Var → ℚ) (h : ∀ j ∈ js, j.2 * v j.1 ≤ j.2 * m j.1) : evalJ js v ≤ evalJ js m := by
  induction js with
  | nil => simp [evalJ]
  | cons p js ih =>
    obtain ⟨y, c⟩ := p
    simp only [evalJ]
    have h1 := h (y, c) (List.mem_cons_self ..)
    have h2 := ih (fun j hj => h j (List.mem_cons_of_mem _ hj))
    simp only at h1
    linarith

/-! ### what `pickViolated` returns -/

theorem pickViolated_fold_some (s : SState) : ∀ (rows : List (Var × Jars)) (best : Option Var) (xi : Var),
    rows.foldl (fun best r =>
      if ltLo s r.1 || gtHi s r.1 then
        match best with
        | none => some r.1
        | some b => if r.1 < b then some r.1 else some b
      else best) best = some xi →
    best = some xi ∨ ∃ r ∈ rows, r.1 = xi ∧ (ltLo s r.1 || gtHi s r.1) = true := by
  intro rows
  induction rows with
  | nil => intro best xi h; left; simpa using h
  | cons r rows ih =>
    intro best xi h
    simp only [List.foldl_cons] at h
    rcases ih _ xi h with h1 | ⟨r', hr', h2⟩
    · split at h1
      · rename_i hv
        split at h1
        · right; exact ⟨r, List.mem_cons_self .., by simpa using h1, hv⟩
        · split at h1
          · right; exact ⟨r, List.mem_cons_self .., by simpa using h1, hv⟩
          · left; exact h1
      · left; exact h1
    · right; exact ⟨r', List.mem_cons_of_mem _ hr', h2⟩

theorem pickViolated_fold_none (s : SState) : ∀ (rows : List (Var × Jars)) (best : Option Var),
    rows.foldl (fun best r =>
      if ltLo s r.1 || gtHi s r.1 then
        match best with
        | none => some r.1
        | some b => if r.1 < b then some r.1 else some b
      else best) best = none →
    best = none ∧ ∀ r ∈ rows, (ltLo s r.1 || gtHi s r.1) = false := by
  intro rows
  induction rows with
  | nil => intro best h; exact ⟨by simpa using h, by simp⟩
  | cons r rows ih =>
    intro best h
    simp only [List.foldl_cons] at h
    obtain ⟨h1, h2⟩ := ih _ h
    split at h1
    · split at h1
      · cases h1
      · split at h1 <;> cases h1
    · rename_i hv
      refine ⟨h1, ?_⟩
      intro r' hr'
      rcases List.mem_cons.mp hr' with rfl | hr'
      · simpa using hv
      · exact h2 r' hr'

theorem pickViolated_some (s : SState) (xi : Var) (h : pickViolated s = some xi) :
    (∃ jars, (xi, jars) ∈ s.rows) ∧ (ltLo s xi || gtHi s xi) = true := by
  rcases pickViolated_fold_some s s.rows none xi h with h1 | ⟨r, hr, rfl, h2⟩
  · cases h1
  · exact ⟨⟨r.2, hr⟩, h2⟩

theorem pickViolated_none (s : SState) (h : pickViolated s = none) :
    ∀ x, isBasic s x = true → ltLo s x = false ∧ gtHi s x = false := by
  intro x hx
  obtain ⟨r, hr, rfl⟩ := List.mem_map.mp ((isBasic_iff s x).mp hx)
  have := (pickViolated_fold_none s s.rows none h).2 r hr
  simpa using this

theorem inB_of_not_violated (s : SState) (x : Var) (h1 : ltLo s x = false) (h2 : gtHi s x = false) :
    InB s s.mapping x := by
  constructor
  · intro l hl
    simp only [ltLo, hl, decide_eq_false_iff_not, not_lt] at h1
    exact h1
  · intro u hu
    simp only [gtHi, hu, decide_eq_false_iff_not, not_lt] at h2
    exact h2

end Holpy.C16.Simplex
