import Holpy.C16.SimplexTermination
import Holpy.C16.SimplexCheck3
/-
C16 — along a run of `check`: every state satisfies the tableau invariant, has the bounds and the row
solutions of the first one; a repair step changes the value of no non-basic variable except the
entering one, and puts the leaving variable on the bound it violated.  (Ingredients of the
no-repeat argument for Bland's rule.)
-/
namespace Holpy.C16.Simplex

/-- the data of a repair step: leaving variable `xi` (smallest violated basic variable), entering
variable `xj` (smallest suitable variable of its row), the bound `v` that `xi` is moved to -/
theorem step_next_spec (s s' : SState) (hinv : Inv s) (h : step s = .next s') :
    ∃ xi xj jars v, (xi, jars) ∈ s.rows ∧ coeffOf xj jars ≠ 0 ∧ s' = pivotAndUpdate s xi xj v ∧
      pickViolated s = some xi ∧
      ((ltLo s xi = true ∧ s.lo xi = some v) ∨ (ltLo s xi = false ∧ gtHi s xi = true ∧ s.hi xi = some v)) := by
  unfold step at h
  split at h
  · cases h
  · rename_i xi hpick
    obtain ⟨⟨jars, hm⟩, hviol⟩ := pickViolated_some s xi hpick
    have hrow : (rowOf s xi).getD [] = jars := by rw [rowOf_of_mem s hinv.wf.heads xi jars hm]; rfl
    simp only [hrow] at h
    have hd := hinv.wf.distinct _ hm
    split at h
    · rename_i hlt
      split at h
      · rename_i j hfind
        cases h
        have hj := List.mem_of_find?_eq_some hfind
        have hp := List.find?_some hfind
        have hc : coeffOf j.1 jars ≠ 0 := by
          rw [mem_reducePairs_coeff jars hd j hj]
          simp only [Bool.or_eq_true, Bool.and_eq_true, decide_eq_true_eq] at hp
          rcases hp with ⟨h1, _⟩ | ⟨h1, _⟩
          · exact ne_of_gt h1
          · exact ne_of_lt h1
        have hlt' := hlt
        simp only [ltLo] at hlt'
        cases hl : s.lo xi with
        | none => simp [hl] at hlt'
        | some l => exact ⟨xi, j.1, jars, l, hm, hc, by simp [hl], hpick, Or.inl ⟨hlt, hl⟩⟩
      · cases h
    · rename_i hnlt
      have hlf : ltLo s xi = false := by simpa using hnlt
      have hgt : gtHi s xi = true := by rw [hlf] at hviol; simpa using hviol
      split at h
      · rename_i j hfind
        cases h
        have hj := List.mem_of_find?_eq_some hfind
        have hp := List.find?_some hfind
        have hc : coeffOf j.1 jars ≠ 0 := by
          rw [mem_reducePairs_coeff jars hd j hj]
          simp only [Bool.or_eq_true, Bool.and_eq_true, decide_eq_true_eq] at hp
          rcases hp with ⟨h1, _⟩ | ⟨h1, _⟩
          · exact ne_of_lt h1
          · exact ne_of_gt h1
        have hgt' := hgt
        simp only [gtHi] at hgt'
        cases hu : s.hi xi with
        | none => simp [hu] at hgt'
        | some u => exact ⟨xi, j.1, jars, u, hm, hc, by simp [hu], hpick, Or.inr ⟨hlf, hgt, hu⟩⟩
      · cases h

/-- a repair step keeps the invariant, the bounds and the solution set of the rows -/
theorem step_preserves (s s' : SState) (hinv : Inv s) (h : step s = .next s') :
    Inv s' ∧ s'.lo = s.lo ∧ s'.hi = s.hi ∧ ∀ w, RowsHold s'.rows w ↔ RowsHold s.rows w := by
  obtain ⟨xi, xj, jars, v, hm, hc, rfl, _, hb⟩ := step_next_spec s s' hinv h
  apply pivotAndUpdate_inv s xi xj jars v hinv hm hc
  rcases hb with ⟨_, hl⟩ | ⟨_, _, hu⟩
  · exact ⟨fun l hl' => by rw [hl] at hl'; cases hl'; exact le_refl _, fun u hu => hinv.bnd xi v u hl hu⟩
  · exact ⟨fun l hl => hinv.bnd xi l v hl hu, fun u hu' => by rw [hu] at hu'; cases hu'; exact le_refl _⟩

/-- every state along the run of `check` satisfies the invariant and has the bounds and row solutions of the first -/
theorem traj_preserves : ∀ (k : Nat) (s a : SState), Inv s → traj s k = some a →
    Inv a ∧ a.lo = s.lo ∧ a.hi = s.hi ∧ ∀ w, RowsHold a.rows w ↔ RowsHold s.rows w := by
  intro k
  induction k with
  | zero => intro s a hinv h; simp only [traj, Option.some.injEq] at h; subst h; exact ⟨hinv, rfl, rfl, fun _ => Iff.rfl⟩
  | succ k ih =>
    intro s a hinv h
    simp only [traj] at h
    cases hs : step s with
    | sat => rw [hs] at h; cases h
    | unsat xi => rw [hs] at h; cases h
    | next s' =>
      rw [hs] at h
      obtain ⟨i1, l1, u1, r1⟩ := step_preserves s s' hinv hs
      obtain ⟨i2, l2, u2, r2⟩ := ih s' a i1 h
      exact ⟨i2, l2.trans l1, u2.trans u1, fun w => (r2 w).trans (r1 w)⟩

/-- a repair step moves the leaving variable onto its violated bound and leaves every other non-basic,
non-entering variable where it was -/
theorem step_values (s s' : SState) (hinv : Inv s) (h : step s = .next s') :
    ∃ xi xj v, isBasic s xi = true ∧ isBasic s xj = false ∧ s'.mapping xi = v ∧
      (s.lo xi = some v ∨ s.hi xi = some v) ∧
      ∀ y, y ≠ xi → y ≠ xj → isBasic s y = false → s'.mapping y = s.mapping y := by
  obtain ⟨xi, xj, jars, v, hm, hc, rfl, _, hb⟩ := step_next_spec s s' hinv h
  have hxj := mem_varsOf_of_coeff_ne xj jars hc
  refine ⟨xi, xj, v, (isBasic_iff s xi).mpr (List.mem_map.mpr ⟨_, hm, rfl⟩), hinv.wf.nonbasic _ hm xj hxj, ?_, ?_, ?_⟩
  · simp [pivotAndUpdate, pivot]
  · rcases hb with ⟨_, hl⟩ | ⟨_, _, hu⟩
    · exact Or.inl hl
    · exact Or.inr hu
  · intro y h1 h2 h3
    simp [pivotAndUpdate, pivot, h1, h2, h3]

end Holpy.C16.Simplex

namespace Holpy.C16.Simplex

theorem mem_allVars_head (s : SState) (b : Var) (js : Jars) (h : (b, js) ∈ s.rows) : b ∈ allVars s := by
  simp only [allVars, List.mem_flatMap]
  exact ⟨(b, js), h, by simp⟩

/-- the special case "adjacent states" of the no-repeat statement: a repair step changes the configuration
(the leaving variable is basic before and non-basic after) -/
theorem step_changes_conf (s s' : SState) (hinv : Inv s) (h : step s = .next s') :
    conf (allVars s) s ≠ conf (allVars s) s' := by
  obtain ⟨xi, xj, jars, v, hm, hc, rfl, _, _⟩ := step_next_spec s s' hinv h
  have hxj := mem_varsOf_of_coeff_ne xj jars hc
  have hxjnb : isBasic s xj = false := hinv.wf.nonbasic _ hm xj hxj
  have hxib : isBasic s xi = true := (isBasic_iff s xi).mpr (List.mem_map.mpr ⟨_, hm, rfl⟩)
  have hne : xi ≠ xj := fun e => by rw [e, hxjnb] at hxib; cases hxib
  have hnb' : isBasic (pivotAndUpdate s xi xj v) xi = false := by
    have hrows : (pivotAndUpdate s xi xj v).rows = (pivot s xi xj).rows := by
      unfold pivotAndUpdate; simp [pivot, rowOf]
    cases hb : isBasic (pivotAndUpdate s xi xj v) xi with
    | false => rfl
    | true =>
      have hb' : isBasic (pivot s xi xj) xi = true := by simpa [isBasic, hrows] using hb
      rcases (isBasic_pivot s xi xj jars hinv.wf.heads hm xi).mp hb' with ⟨_, h2⟩ | h1
      · exact absurd rfl h2
      · exact absurd h1 hne
  obtain ⟨n, hn⟩ := List.mem_iff_get.mp (mem_allVars_head s xi jars hm)
  intro heq
  have := congrFun heq n
  simp only [conf, hn, code, hxib, hnb', if_true, Bool.false_eq_true, if_false] at this
  split at this <;> (try split at this) <;> simp at this

end Holpy.C16.Simplex
