import Holpy.C16.SimplexBland
/-
C16 — the sign contradiction at the heart of Bland's anti-cycling argument (Dutertre–de Moura):
`P` is a state in which the variable `t` leaves the basis, `Q` one in which it enters (leaving variable
`r < t`); all larger non-basic variables of `Q` have the value they had in `P`, and `t` sits in `Q` on
the bound it violated in `P`.  Then row `r` of `Q`, evaluated on both mappings, is contradictory.
-/
namespace Holpy.C16.Simplex

/-- every variable smaller than the leaving one is within its bounds -/
theorem inB_below_leaving (P : SState) (t : Var) (hP : Inv P) (hpP : pickViolated P = some t) (y : Var) (hy : y < t) :
    InB P P.mapping y := by
  cases hb : isBasic P y with
  | false => exact hP.nb y hb
  | true =>
    obtain ⟨h1, h2⟩ := pickViolated_min P t hpP y hb hy
    exact inB_of_not_violated P y h1 h2

theorem mem_reducePairs_unique (jars : Jars) (j j' : Var × ℚ) (hj : j ∈ reducePairs jars) (hj' : j' ∈ reducePairs jars)
    (h : j.1 = j'.1) : j.2 = j'.2 := by
  have h1 := coeffOf_mem j.1 j.2 _ (sorted_reducePairs jars).distinct hj
  have h2 := coeffOf_mem j'.1 j'.2 _ (sorted_reducePairs jars).distinct hj'
  rw [h] at h1; rw [← h1, ← h2]

/-- the entering variable `t`: sign of its coefficient against the move from `P` to `Q` -/
theorem bland_core_low (P Q : SState) (t r : Var) (jars : Jars) (jt : Var × ℚ)
    (hP : Inv P) (hQ : Inv Q) (hlo : Q.lo = P.lo) (hhi : Q.hi = P.hi)
    (hrows : ∀ w, RowsHold Q.rows w ↔ RowsHold P.rows w)
    (hpP : pickViolated P = some t)
    (hm : (r, jars) ∈ Q.rows) (hrt : r < t) (hjt : jt.1 = t)
    (hlt : ltLo Q r = true)
    (hfind : (reducePairs jars).find? (fun j => (decide (j.2 > 0) && belowHi Q j.1) || (decide (j.2 < 0) && aboveLo Q j.1)) = some jt)
    (hbig : ∀ y, t < y → isBasic Q y = false → Q.mapping y = P.mapping y)
    (hval : (ltLo P t = true → P.lo t = some (Q.mapping t)) ∧ (ltLo P t = false → P.hi t = some (Q.mapping t))) : False := by
  have hjtm := List.mem_of_find?_eq_some hfind
  have hpt := List.find?_some hfind
  have hviol := (pickViolated_some P t hpP).2
  have hle : evalJ (reducePairs jars) P.mapping ≤ evalJ (reducePairs jars) Q.mapping := by
    apply evalJ_le
    intro j hj
    rcases lt_trichotomy j.1 t with hlt' | heq | hgt
    · -- smaller variable: not suitable in Q, within bounds in P
      have hnp := find_sorted_min _ (reducePairs jars) jt (sorted_reducePairs jars) hfind j hj (by rw [hjt]; exact hlt')
      have hin := inB_below_leaving P t hP hpP j.1 hlt'
      simp only [Bool.or_eq_false_iff, Bool.and_eq_false_iff, decide_eq_false_iff_not] at hnp
      rcases lt_trichotomy j.2 0 with hneg | hz | hpos
      · have h2 : aboveLo Q j.1 = false := by
          rcases hnp.2 with h | h
          · exact absurd hneg h
          · exact h
        simp only [aboveLo, hlo] at h2
        cases hl : P.lo j.1 with
        | none => simp [hl] at h2
        | some l =>
          simp only [hl, decide_eq_false_iff_not, not_lt] at h2
          have := hin.1 l hl
          nlinarith
      · rw [hz]; simp
      · have h2 : belowHi Q j.1 = false := by
          rcases hnp.1 with h | h
          · exact absurd hpos h
          · exact h
        simp only [belowHi, hhi] at h2
        cases hu : P.hi j.1 with
        | none => simp [hu] at h2
        | some u =>
          simp only [hu, decide_eq_false_iff_not, not_lt] at h2
          have := hin.2 u hu
          nlinarith
    · -- the entering variable itself
      have hc : j.2 = jt.2 := mem_reducePairs_unique jars j jt hj hjtm (by rw [heq, hjt])
      rw [hc, heq]
      simp only [hjt, Bool.or_eq_true, Bool.and_eq_true, decide_eq_true_eq] at hpt
      cases hl : ltLo P t with
      | true =>
        have hlo' := hval.1 hl
        have hlt2 : P.mapping t < Q.mapping t := by
          simp only [ltLo, hlo', decide_eq_true_eq] at hl; exact hl
        have hna : aboveLo Q t = false := by
          simp only [aboveLo, hlo, hlo', lt_self_iff_false, decide_false]
        rcases hpt with ⟨hpos, _⟩ | ⟨_, ha⟩
        · nlinarith
        · rw [hna] at ha; cases ha
      | false =>
        have hg : gtHi P t = true := by rw [hl] at hviol; simpa using hviol
        have hhi' := hval.2 hl
        have hlt2 : Q.mapping t < P.mapping t := by
          simp only [gtHi, hhi', decide_eq_true_eq] at hg; exact hg
        have hnb : belowHi Q t = false := by
          simp only [belowHi, hhi, hhi', lt_self_iff_false, decide_false]
        rcases hpt with ⟨_, hb⟩ | ⟨hneg, _⟩
        · rw [hnb] at hb; cases hb
        · nlinarith
    · -- larger variable: same value
      have hmem : j.1 ∈ varsOf jars := (mem_varsOf_reducePairs jars j.1).mp (List.mem_map.mpr ⟨j, hj, rfl⟩)
      have := hbig j.1 hgt (hQ.wf.nonbasic _ hm j.1 hmem)
      rw [this]
  rw [evalJ_reducePairs, evalJ_reducePairs] at hle
  have h1 := hQ.rows _ hm
  have h2 := ((hrows P.mapping).mpr hP.rows) _ hm
  simp only at h1 h2
  have hin := inB_below_leaving P t hP hpP r hrt
  simp only [ltLo, hlo] at hlt
  cases hl : P.lo r with
  | none => simp [hl] at hlt
  | some l =>
    simp only [hl, decide_eq_true_eq] at hlt
    have := hin.1 l hl
    linarith

theorem bland_core_high (P Q : SState) (t r : Var) (jars : Jars) (jt : Var × ℚ)
    (hP : Inv P) (hQ : Inv Q) (hlo : Q.lo = P.lo) (hhi : Q.hi = P.hi)
    (hrows : ∀ w, RowsHold Q.rows w ↔ RowsHold P.rows w)
    (hpP : pickViolated P = some t)
    (hm : (r, jars) ∈ Q.rows) (hrt : r < t) (hjt : jt.1 = t)
    (hgt : gtHi Q r = true)
    (hfind : (reducePairs jars).find? (fun j => (decide (j.2 < 0) && belowHi Q j.1) || (decide (j.2 > 0) && aboveLo Q j.1)) = some jt)
    (hbig : ∀ y, t < y → isBasic Q y = false → Q.mapping y = P.mapping y)
    (hval : (ltLo P t = true → P.lo t = some (Q.mapping t)) ∧ (ltLo P t = false → P.hi t = some (Q.mapping t))) : False := by
  have hjtm := List.mem_of_find?_eq_some hfind
  have hpt := List.find?_some hfind
  have hviol := (pickViolated_some P t hpP).2
  have hle : evalJ (reducePairs jars) Q.mapping ≤ evalJ (reducePairs jars) P.mapping := by
    apply evalJ_le
    intro j hj
    rcases lt_trichotomy j.1 t with hlt' | heq | hgt'
    · have hnp := find_sorted_min _ (reducePairs jars) jt (sorted_reducePairs jars) hfind j hj (by rw [hjt]; exact hlt')
      have hin := inB_below_leaving P t hP hpP j.1 hlt'
      simp only [Bool.or_eq_false_iff, Bool.and_eq_false_iff, decide_eq_false_iff_not] at hnp
      rcases lt_trichotomy j.2 0 with hneg | hz | hpos
      · have h2 : belowHi Q j.1 = false := by
          rcases hnp.1 with h | h
          · exact absurd hneg h
          · exact h
        simp only [belowHi, hhi] at h2
        cases hu : P.hi j.1 with
        | none => simp [hu] at h2
        | some u =>
          simp only [hu, decide_eq_false_iff_not, not_lt] at h2
          have := hin.2 u hu
          nlinarith
      · rw [hz]; simp
      · have h2 : aboveLo Q j.1 = false := by
          rcases hnp.2 with h | h
          · exact absurd hpos h
          · exact h
        simp only [aboveLo, hlo] at h2
        cases hl : P.lo j.1 with
        | none => simp [hl] at h2
        | some l =>
          simp only [hl, decide_eq_false_iff_not, not_lt] at h2
          have := hin.1 l hl
          nlinarith
    · have hc : j.2 = jt.2 := mem_reducePairs_unique jars j jt hj hjtm (by rw [heq, hjt])
      rw [hc, heq]
      simp only [hjt, Bool.or_eq_true, Bool.and_eq_true, decide_eq_true_eq] at hpt
      cases hl : ltLo P t with
      | true =>
        have hlo' := hval.1 hl
        have hlt2 : P.mapping t < Q.mapping t := by
          simp only [ltLo, hlo', decide_eq_true_eq] at hl; exact hl
        have hna : aboveLo Q t = false := by
          simp only [aboveLo, hlo, hlo', lt_self_iff_false, decide_false]
        rcases hpt with ⟨hneg, _⟩ | ⟨_, ha⟩
        · nlinarith
        · rw [hna] at ha; cases ha
      | false =>
        have hg : gtHi P t = true := by rw [hl] at hviol; simpa using hviol
        have hhi' := hval.2 hl
        have hlt2 : Q.mapping t < P.mapping t := by
          simp only [gtHi, hhi', decide_eq_true_eq] at hg; exact hg
        have hnb : belowHi Q t = false := by
          simp only [belowHi, hhi, hhi', lt_self_iff_false, decide_false]
        rcases hpt with ⟨_, hb⟩ | ⟨hpos, _⟩
        · rw [hnb] at hb; cases hb
        · nlinarith
    · have hmem : j.1 ∈ varsOf jars := (mem_varsOf_reducePairs jars j.1).mp (List.mem_map.mpr ⟨j, hj, rfl⟩)
      have := hbig j.1 hgt' (hQ.wf.nonbasic _ hm j.1 hmem)
      rw [this]
  rw [evalJ_reducePairs, evalJ_reducePairs] at hle
  have h1 := hQ.rows _ hm
  have h2 := ((hrows P.mapping).mpr hP.rows) _ hm
  simp only at h1 h2
  have hin := inB_below_leaving P t hP hpP r hrt
  simp only [gtHi, hhi] at hgt
  cases hu : P.hi r with
  | none => simp [hu] at hgt
  | some u =>
    simp only [hu, decide_eq_true_eq] at hgt
    have := hin.2 u hu
    linarith

end Holpy.C16.Simplex
