import Holpy.C16.OmegaProofs
/-
C16 — `solve` / `solve_matrix` of the model return `contr d` only with `checkDeriv rows d = true`.
-/
namespace Holpy.C16

/-- the contradiction of `one_var_analysis`: least upper bound below greatest lower bound -/
theorem oneVar_contr (rows : List Row) (w : Nat) (dfs : List DF) (em : Mode) (d : Deriv)
    (hg : ∀ df ∈ dfs, GoodDF rows w df) (h1 : hasOneVar dfs = true)
    (h : oneVarAnalysis dfs em = .contr d) : checkDeriv rows d = true := by
  unfold oneVarAnalysis at h
  split at h
  · cases h
  · rename_i x hx
    split at h
    · cases h
    · split at h <;> cases h
    · split at h <;> cases h
    · rename_i u du l dl hu hl
      split at h
      · rename_i hul
        split at h
        · cases h
        · cases h
          rcases scanUpper_spec x dfs none u du hu with h0 | ⟨fu, hfu, rfl, rfl, hcu⟩
          · cases h0
          rcases scanLower_spec x dfs none l dl hl with h0 | ⟨fl, hfl, rfl, rfl, hcl⟩
          · cases h0
          obtain ⟨ju, nu, lu⟩ := hg fu hfu
          obtain ⟨jl, nl, ll⟩ := hg fl hfl
          have ou := hasOneVar_spec dfs x h1 hx fu hfu
          have ol := hasOneVar_spec dfs x h1 hx fl hfl
          have cu := unit_coeff fu.factoid x nu ou
          have cl := unit_coeff fl.factoid x nl ol
          have hlen : fu.factoid.length = fl.factoid.length := by rw [lu, ll]
          simp only [checkDeriv, evalDeriv]
          rw [show evalDeriv rows fu.deriv = some fu.factoid from ju, show evalDeriv rows fl.deriv = some fl.factoid from jl]
          simp only [hlen, if_true, isFalseRow, Bool.and_eq_true, decide_eq_true_eq]
          refine ⟨?_, ?_⟩
          · rw [isZeroVar_iff]
            intro i
            rw [coeffAt_addRow _ _ i hlen]
            by_cases hi : i = x
            · subst hi; omega
            · have a : coeffAt fu.factoid i = 0 := by
                by_contra hne; exact hi (ou i hne)
              have b : coeffAt fl.factoid i = 0 := by
                by_contra hne; exact hi (ol i hne)
              omega
          · rw [rowConst_addRow _ _ hlen]; omega
      · split at h <;> cases h

theorem combine_real_length (i : Int) (f1 f2 r : Row) (h : Gen.combine_real_factoid i f1 f2 = some r)
    (hl : f1.length = f2.length) : r.length = f1.length := by
  obtain ⟨c, d, _, _, _, _, _, _, rfl⟩ := combine_real_spec i f1 f2 r h
  simp [hl]

theorem crossStep_good (rows : List Row) (w : Nat) (db : DB) (i : Nat) (low up : DF)
    (hdb : GoodXP rows w (.db db)) (hl : GoodDF rows w low) (hu : GoodDF rows w up) :
    GoodXP rows w (crossStep db true i low up) := by
  unfold crossStep
  simp only [if_true]
  split
  · trivial
  · rename_i f hf
    obtain ⟨jl, _, ll⟩ := hl
    obtain ⟨ju, _, lu⟩ := hu
    have hlen : low.factoid.length = up.factoid.length := by rw [ll, lu]
    have j0 : Just rows ⟨f, .realCombine i low.deriv up.deriv⟩ := by
      simp only [Just, evalDeriv]
      rw [show evalDeriv rows low.deriv = some low.factoid from jl, show evalDeriv rows up.deriv = some up.factoid from ju]
      simp [hlen, hf]
    have l0 : f.length = w := by rw [combine_real_length _ _ _ _ hf hlen, ll]
    have j1 := normalizeDF_just rows _ j0
    have l1 : (normalizeDF ⟨f, .realCombine i low.deriv up.deriv⟩).factoid.length = w := by
      rw [normalizeDF_length]; exact l0
    split
    · exact hdb
    · split
      · rename_i hfalse
        simp only [GoodXP, checkDeriv]
        rw [show evalDeriv rows _ = some _ from j1]
        exact hfalse
      · split
        · exact hdb
        · rename_i ht hfa _
          intro x hx
          rcases (mem_flat_insertDb _ _ _).mp hx with hx | rfl
          · exact hdb x hx
          · exact ⟨j1, normalizeDF_norm _ (not_zeroVar_of_not_true_false _ (by simpa using ht) (by simpa using hfa)), l1⟩

theorem crossUppers_good (rows : List Row) (w : Nat) (i : Nat) (low : DF) (hl : GoodDF rows w low) :
    ∀ (ups : List DF) (db : DB), GoodXP rows w (.db db) → (∀ u ∈ ups, GoodDF rows w u) →
      GoodXP rows w (crossUppers db true i low ups) := by
  intro ups
  induction ups with
  | nil => intro db hdb _; exact hdb
  | cons up rest ih =>
    intro db hdb hu
    simp only [crossUppers]
    have h := crossStep_good rows w db i low up hdb hl (hu up (List.mem_cons_self ..))
    split
    · rename_i db' he
      rw [he] at h
      exact ih db' h (fun u hm => hu u (List.mem_cons_of_mem _ hm))
    · rename_i r hne
      exact h

theorem extendCrossProduct_good (rows : List Row) (w : Nat) (i : Nat) (ups : List DF)
    (hu : ∀ u ∈ ups, GoodDF rows w u) :
    ∀ (lows : List DF) (db : DB), GoodXP rows w (.db db) → (∀ l ∈ lows, GoodDF rows w l) →
      GoodXP rows w (extendCrossProduct db true i lows ups) := by
  intro lows
  induction lows with
  | nil => intro db hdb _; exact hdb
  | cons low rest ih =>
    intro db hdb hl
    simp only [extendCrossProduct]
    have h := crossUppers_good rows w i low (hl low (List.mem_cons_self ..)) ups db hdb hu
    split
    · rename_i db' he
      rw [he] at h
      exact ih db' h (fun l hm => hl l (List.mem_cons_of_mem _ hm))
    · exact h

/-! ### `solve` -/

theorem extendSat_contr (dfs : List DF) (v : Nat) (r : Result) (d : Deriv)
    (h : extendSat dfs v r = .contr d) : r = .contr d := by
  unfold extendSat at h
  split at h
  · split at h <;> cases h
  · exact h

theorem dropContr_ne (r : Result) (d : Deriv) : dropContr r ≠ .contr d := by
  unfold dropContr; split <;> simp_all

theorem redundantPost_contr (elim : List DF) (j : Nat) (hasUp : Bool) (r : Result) (d : Deriv)
    (h : redundantPost elim j hasUp r = .contr d) : r = .contr d := by
  unfold redundantPost at h
  split at h
  · split at h
    all_goals (first | cases h | (dsimp only at h; split at h <;> cases h))
  · exact h

theorem modeResult_contr (em : Mode) (r : Result) (d : Deriv) (h : modeResult em r = .contr d) :
    r = .contr d ∧ (em = .exact ∨ em = .real) := by
  cases em <;> cases r <;> simp_all [modeResult]

theorem elimDispatch_contr (rec : Mode → XP → Result) (em : Mode) (isExact : Bool) (dfs : List DF) (v : Nat)
    (dbE dbD : XP) (d : Deriv) (h : elimDispatch rec em isExact dfs v dbE dbD = .contr d) :
    (em = .exact ∧ rec .exact dbE = .contr d) ∨ ((em = .exact ∨ em = .real) ∧ rec .real dbE = .contr d) := by
  unfold elimDispatch at h
  split at h
  · split at h
    · exact Or.inl ⟨rfl, extendSat_contr _ _ _ _ h⟩
    · split at h
      · rename_i d' hd
        cases h
        exact Or.inr ⟨Or.inl rfl, hd⟩
      · cases h
      · exact absurd h (dropContr_ne _ _)
  · exact Or.inr ⟨Or.inr rfl, h⟩
  · split at h <;> exact absurd h (dropContr_ne _ _)
  · split at h <;> exact absurd h (dropContr_ne _ _)

/-- in the dark modes `solve` never answers a contradiction for a database -/
theorem solve_dark : ∀ (fuel : Nat) (em : Mode) (db : DB) (w : Nat) (d : Deriv), (em = .dark ∨ em = .edark) →
    solve fuel em (.db db) w ≠ .contr d := by
  intro fuel
  induction fuel with
  | zero => intro em db w d _ h; simp [solve] at h
  | succ fuel ih =>
    intro em db w d hem h
    simp only [solve] at h
    split at h
    · split at h <;> cases h
    · split at h
      · have := (modeResult_contr _ _ _ h).2
        rcases hem with rfl | rfl <;> simp at this
      · split at h
        · exact ih em _ w d hem (redundantPost_contr _ _ _ _ _ h)
        · split at h
          · cases h
          · rcases elimDispatch_contr _ _ _ _ _ _ _ _ h with ⟨he, _⟩ | ⟨he, _⟩
            · rcases hem with rfl | rfl <;> cases he
            · rcases hem with rfl | rfl <;> rcases he with he | he <;> cases he

theorem solve_sound (rows : List Row) (w0 : Nat) : ∀ (fuel : Nat) (em : Mode) (xp : XP) (w : Nat) (d : Deriv),
    (em = .real ∨ em = .exact) → GoodXP rows w0 xp → solve fuel em xp w = .contr d → checkDeriv rows d = true := by
  intro fuel
  induction fuel with
  | zero => intro em xp w d _ _ h; simp [solve] at h
  | succ fuel ih =>
    intro em xp w d hem hg h
    cases xp with
    | contr d' =>
      simp only [solve] at h
      cases h
      exact hg
    | error e => simp [solve] at h
    | db db =>
      simp only [solve] at h
      have hgood : ∀ df ∈ flat db, GoodDF rows w0 df := hg
      split at h
      · split at h <;> cases h
      · split at h
        · rename_i h1
          exact oneVar_contr rows w0 (flat db) em d hgood h1 (modeResult_contr _ _ _ h).1
        · split at h
          · refine ih em _ w d hem ?_ (redundantPost_contr _ _ _ _ _ h)
            intro df hdf
            rcases (mem_foldl_insertDb _ _ _).mp hdf with hx | hx
            · simp [flat] at hx
            · exact hgood df (List.mem_of_mem_filter hx)
          · split at h
            · cases h
            · rename_i v _
              have hE : GoodXP rows w0 (extendCrossProduct
                  (List.foldl insertDb [] (List.filter (fun df => decide (coeffAt df.factoid v = 0)) (flat db))) true v
                  (List.filter (fun df => decide (coeffAt df.factoid v > 0)) (flat db))
                  (List.filter (fun df => decide (coeffAt df.factoid v < 0)) (flat db))) := by
                apply extendCrossProduct_good
                · intro u hu; exact hgood u (List.mem_of_mem_filter hu)
                · intro df hdf
                  rcases (mem_foldl_insertDb _ _ _).mp hdf with hx | hx
                  · simp [flat] at hx
                  · exact hgood df (List.mem_of_mem_filter hx)
                · intro l hl; exact hgood l (List.mem_of_mem_filter hl)
              rcases elimDispatch_contr _ _ _ _ _ _ _ _ h with ⟨_, hr⟩ | ⟨_, hr⟩
              · exact ih .exact _ w d (Or.inr rfl) hE hr
              · exact ih .real _ w d (Or.inl rfl) hE hr

theorem initDb_good (rows : List Row) (w : Nat) : ∀ (rs : List Row) (db : DB), (∀ r ∈ rs, r ∈ rows ∧ r.length = w) →
    GoodXP rows w (.db db) → GoodXP rows w (initDb rs db) := by
  intro rs
  induction rs with
  | nil => intro db _ h; exact h
  | cons r rest ih =>
    intro db hr hdb
    simp only [initDb]
    have hr0 := hr r (List.mem_cons_self ..)
    have j0 : Just rows ⟨r, .asm r⟩ := by
      simp only [Just, evalDeriv]
      simp [hr0.1]
    have j1 := normalizeDF_just rows _ j0
    have l1 : (normalizeDF ⟨r, .asm r⟩).factoid.length = w := by rw [normalizeDF_length]; exact hr0.2
    have hrest : ∀ r' ∈ rest, r' ∈ rows ∧ r'.length = w := fun r' hm => hr r' (List.mem_cons_of_mem _ hm)
    split
    · rename_i hfalse
      simp only [GoodXP, checkDeriv]
      rw [show evalDeriv rows _ = some _ from j1]
      exact hfalse
    · split
      · exact ih db hrest hdb
      · rename_i hfa ht
        apply ih _ hrest
        intro x hx
        rcases (mem_flat_insertDb _ _ _).mp hx with hx | rfl
        · exact hdb x hx
        · exact ⟨j1, normalizeDF_norm _ (not_zeroVar_of_not_true_false _ (by simpa using ht) (by simpa using hfa)), l1⟩

end Holpy.C16
