import Holpy.C16.SatLemmas
import Holpy.C16.OmegaSound
/-
C16 — SAT side of the Omega model: outside REAL mode, a `sat s` answer of `solve` satisfies every
factoid of the database (the database is gcd-normalised; nothing else is assumed — in particular
the dark factoids need no justification, because `extend_vmap` asserts `lower ≤ upper`).
-/
namespace Holpy.C16

def NormDF (w : Nat) (df : DF) : Prop := Norm df.factoid ∧ df.factoid.length = w
def SatAll (dfs : List DF) (v : Nat → Int) : Prop := ∀ df ∈ dfs, 0 ≤ evalRow df.factoid v

/-! ### one-variable analysis -/

theorem scanUpper_min (x : Nat) : ∀ (dfs : List DF) (acc : Option (Int × Deriv)) (u : Int) (d : Deriv),
    scanUpper x dfs acc = some (u, d) →
      (∀ u0 d0, acc = some (u0, d0) → u ≤ u0) ∧ ∀ df ∈ dfs, coeffAt df.factoid x < 0 → u ≤ rowConst df.factoid := by
  intro dfs
  induction dfs with
  | nil =>
    intro acc u d h
    simp only [scanUpper] at h
    exact ⟨fun u0 d0 he => by rw [he] at h; cases h; exact Int.le_refl _, by simp⟩
  | cons df rest ih =>
    intro acc u d h
    simp only [scanUpper] at h
    split at h
    · rename_i hc
      split at h
      · obtain ⟨h1, h2⟩ := ih _ u d h
        refine ⟨fun u0 d0 he => (by cases he), ?_⟩
        intro df' hm hc'
        rcases List.mem_cons.mp hm with rfl | hm
        · exact h1 _ _ rfl
        · exact h2 df' hm hc'
      · rename_i u0 d0
        split at h
        · rename_i hgt
          obtain ⟨h1, h2⟩ := ih _ u d h
          have := h1 _ _ rfl
          refine ⟨fun u0' d0' he => by cases he; omega, ?_⟩
          intro df' hm hc'
          rcases List.mem_cons.mp hm with rfl | hm
          · exact this
          · exact h2 df' hm hc'
        · rename_i hgt
          obtain ⟨h1, h2⟩ := ih _ u d h
          have := h1 _ _ rfl
          refine ⟨fun u0' d0' he => by cases he; omega, ?_⟩
          intro df' hm hc'
          rcases List.mem_cons.mp hm with rfl | hm
          · omega
          · exact h2 df' hm hc'
    · rename_i hc
      obtain ⟨h1, h2⟩ := ih _ u d h
      refine ⟨h1, ?_⟩
      intro df' hm hc'
      rcases List.mem_cons.mp hm with rfl | hm
      · exact absurd hc' hc
      · exact h2 df' hm hc'

theorem scanUpper_none (x : Nat) : ∀ (dfs : List DF) (acc : Option (Int × Deriv)),
    scanUpper x dfs acc = none → ∀ df ∈ dfs, ¬ coeffAt df.factoid x < 0 := by
  intro dfs
  induction dfs with
  | nil => intro acc _; simp
  | cons df rest ih =>
    intro acc h
    simp only [scanUpper] at h
    have key : ∀ acc', acc' ≠ none → scanUpper x rest acc' ≠ none := by
      intro acc' hne hs
      cases acc' with
      | none => exact hne rfl
      | some p =>
        -- a `some` accumulator never becomes `none`
        have : ∀ (l : List DF) (p : Int × Deriv), scanUpper x l (some p) ≠ none := by
          intro l
          induction l with
          | nil => intro p; simp [scanUpper]
          | cons a l ihl =>
            intro p
            simp only [scanUpper]
            split
            · split
              · exact ihl _
              · exact ihl _
            · exact ihl _
        exact this rest p hs
    split at h
    · split at h
      · exact absurd h (key _ (by simp))
      · split at h
        · exact absurd h (key _ (by simp))
        · exact absurd h (key _ (by simp))
    · rename_i hc
      intro df' hm
      rcases List.mem_cons.mp hm with rfl | hm
      · exact hc
      · exact ih _ h df' hm

theorem scanLower_max (x : Nat) : ∀ (dfs : List DF) (acc : Option (Int × Deriv)) (l : Int) (d : Deriv),
    scanLower x dfs acc = some (l, d) →
      (∀ l0 d0, acc = some (l0, d0) → l0 ≤ l) ∧ ∀ df ∈ dfs, coeffAt df.factoid x > 0 → -rowConst df.factoid ≤ l := by
  intro dfs
  induction dfs with
  | nil =>
    intro acc u d h
    simp only [scanLower] at h
    exact ⟨fun u0 d0 he => by rw [he] at h; cases h; exact Int.le_refl _, by simp⟩
  | cons df rest ih =>
    intro acc u d h
    simp only [scanLower] at h
    split at h
    · rename_i hc
      split at h
      · obtain ⟨h1, h2⟩ := ih _ u d h
        refine ⟨fun u0 d0 he => (by cases he), ?_⟩
        intro df' hm hc'
        rcases List.mem_cons.mp hm with rfl | hm
        · exact h1 _ _ rfl
        · exact h2 df' hm hc'
      · rename_i u0 d0
        split at h
        · rename_i hgt
          obtain ⟨h1, h2⟩ := ih _ u d h
          have := h1 _ _ rfl
          refine ⟨fun u0' d0' he => by cases he; omega, ?_⟩
          intro df' hm hc'
          rcases List.mem_cons.mp hm with rfl | hm
          · exact this
          · exact h2 df' hm hc'
        · rename_i hgt
          obtain ⟨h1, h2⟩ := ih _ u d h
          have := h1 _ _ rfl
          refine ⟨fun u0' d0' he => by cases he; omega, ?_⟩
          intro df' hm hc'
          rcases List.mem_cons.mp hm with rfl | hm
          · omega
          · exact h2 df' hm hc'
    · rename_i hc
      obtain ⟨h1, h2⟩ := ih _ u d h
      refine ⟨h1, ?_⟩
      intro df' hm hc'
      rcases List.mem_cons.mp hm with rfl | hm
      · exact absurd hc' hc
      · exact h2 df' hm hc'

theorem scanLower_none (x : Nat) : ∀ (dfs : List DF) (acc : Option (Int × Deriv)),
    scanLower x dfs acc = none → ∀ df ∈ dfs, ¬ coeffAt df.factoid x > 0 := by
  intro dfs
  induction dfs with
  | nil => intro acc _; simp
  | cons df rest ih =>
    intro acc h
    simp only [scanLower] at h
    have this : ∀ (l : List DF) (p : Int × Deriv), scanLower x l (some p) ≠ none := by
      intro l
      induction l with
      | nil => intro p; simp [scanLower]
      | cons a l ihl =>
        intro p
        simp only [scanLower]
        split
        · split
          · exact ihl _
          · exact ihl _
        · exact ihl _
    split at h
    · split at h
      · exact absurd h (this _ _)
      · split at h
        · exact absurd h (this _ _)
        · exact absurd h (this _ _)
    · rename_i hc
      intro df' hm
      rcases List.mem_cons.mp hm with rfl | hm
      · exact hc
      · exact ih _ h df' hm

theorem get_singleton (x : Nat) (u : Int) : Store.get [(x, u)] x = u := by simp [Store.get]

/-- a satisfying value from `one_var_analysis` satisfies every factoid of the one-variable database -/
theorem oneVar_sat (w : Nat) (dfs : List DF) (em : Mode) (s : Store)
    (hn : ∀ df ∈ dfs, NormDF w df) (h1 : hasOneVar dfs = true)
    (h : oneVarAnalysis dfs em = .sat s) : SatAll dfs s.get := by
  unfold oneVarAnalysis at h
  split at h
  · cases h
  · rename_i x hx
    have hone := hasOneVar_spec dfs x h1 hx
    have unit : ∀ df ∈ dfs, (coeffAt df.factoid x).natAbs = 1 :=
      fun df hdf => unit_coeff df.factoid x (hn df hdf).1 (hone df hdf)
    have ev : ∀ df ∈ dfs, ∀ v : Nat → Int, evalRow df.factoid v = coeffAt df.factoid x * v x + rowConst df.factoid :=
      fun df hdf v => oneVar_eval _ x v (hone df hdf)
    split at h
    · cases h
    · rename_i u du hu hl
      split at h
      · cases h
      · cases h
        intro df hdf
        rw [ev df hdf, get_singleton]
        have hu1 := unit df hdf
        have hno := scanLower_none x dfs none hl df hdf
        have hmin := (scanUpper_min x dfs none u du hu).2 df hdf
        have hc : coeffAt df.factoid x = -1 := by omega
        have := hmin (by omega)
        rw [hc]; omega
    · rename_i l dl hu hl
      split at h
      · cases h
      · cases h
        intro df hdf
        rw [ev df hdf, get_singleton]
        have hu1 := unit df hdf
        have hno := scanUpper_none x dfs none hu df hdf
        have hmax := (scanLower_max x dfs none l dl hl).2 df hdf
        have hc : coeffAt df.factoid x = 1 := by omega
        have := hmax (by omega)
        rw [hc]; omega
    · rename_i u du l dl hu hl
      split at h
      · split at h <;> cases h
      · rename_i hul
        split at h
        · cases h
        · cases h
          intro df hdf
          rw [ev df hdf, get_singleton]
          have hu1 := unit df hdf
          have hmin := (scanUpper_min x dfs none u du hu).2 df hdf
          have hmax := (scanLower_max x dfs none l dl hl).2 df hdf
          rcases Int.lt_or_gt_of_ne (show coeffAt df.factoid x ≠ 0 by omega) with hc | hc
          · have hc' : coeffAt df.factoid x = -1 := by omega
            have := hmin hc
            rw [hc']; omega
          · have hc' : coeffAt df.factoid x = 1 := by omega
            have := hmax hc
            rw [hc']; omega

end Holpy.C16
