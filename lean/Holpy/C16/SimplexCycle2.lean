import Holpy.C16.SimplexCycle
/-
C16 — Bland's anti-cycling argument on a segment of a run: if the basis at both ends is the same and
every non-basic variable that sits on a bound at the end had the same value at the start, the segment
is empty.  (The largest variable that changes its basis status must both leave and enter; compare the
state where it leaves with the one where it enters: `bland_core_low/high`.)
-/
namespace Holpy.C16.Simplex

theorem exists_max (F : Nat → Prop) (N : Nat) (hne : ∃ x, F x) (hb : ∀ x, F x → x ≤ N) :
    ∃ t, F t ∧ ∀ x, F x → x ≤ t := by
  induction N with
  | zero =>
    obtain ⟨x, hx⟩ := hne
    have : x = 0 := by have := hb x hx; omega
    subst this
    exact ⟨0, hx, hb⟩
  | succ N ih =>
    by_cases h : F (N + 1)
    · exact ⟨N + 1, h, hb⟩
    · apply ih
      intro x hx
      have := hb x hx
      have hne' : x ≠ N + 1 := fun e => h (e ▸ hx)
      omega

/-- `x` changes its basis status somewhere in the segment -/
def Fickle (S : Nat → SState) (i j : Nat) (x : Var) : Prop := ∃ k, i ≤ k ∧ k < j ∧ (LeavesAt S k x ∨ EntersAt S k x)

theorem fickle_bound (S : Nat → SState) (i j : Nat) (hseg : Seg S i j) : ∃ N, ∀ x, Fickle S i j x → x ≤ N := by
  have key : ∀ n, i + n ≤ j → ∃ N, ∀ k, i ≤ k → k < i + n → ∀ x, (LeavesAt S k x ∨ EntersAt S k x) → x ≤ N := by
    intro n
    induction n with
    | zero => intro _; exact ⟨0, fun k h1 h2 => by omega⟩
    | succ n ih =>
      intro h
      obtain ⟨N, hN⟩ := ih (by omega)
      obtain ⟨xi, jars, jq, v, _, _, _, _, hL, hE, _⟩ := seg_step S i j hseg (i + n) (by omega) (by omega)
      refine ⟨max N (max xi jq.1), ?_⟩
      intro k h1 h2 x hx
      by_cases hk : k < i + n
      · exact le_trans (hN k h1 hk x hx) (le_max_left _ _)
      · have hk' : k = i + n := by omega
        subst hk'
        rcases hx with hx | hx
        · rw [hL x hx]; exact le_trans (le_max_left _ _) (le_max_right _ _)
        · rw [hE x hx]; exact le_trans (le_max_right _ _) (le_max_right _ _)
  by_cases hij : i ≤ j
  · obtain ⟨N, hN⟩ := key (j - i) (by omega)
    exact ⟨N, fun x ⟨k, h1, h2, h3⟩ => hN k h1 (by omega) x h3⟩
  · exact ⟨0, fun x ⟨k, h1, h2, _⟩ => by omega⟩

/-- with the same basis at both ends, a variable that changes status both leaves and enters -/
theorem fickle_leaves_enters (S : Nat → SState) (i j : Nat) (hbasic : ∀ x, isBasic (S i) x = isBasic (S j) x)
    (x : Var) (hF : Fickle S i j x) :
    (∃ p, i ≤ p ∧ p < j ∧ LeavesAt S p x) ∧ (∃ q, i ≤ q ∧ q < j ∧ EntersAt S q x) := by
  constructor
  · by_contra hno
    have hno' : ∀ k, i ≤ k → k < j → ¬ LeavesAt S k x := fun k h1 h2 h => hno ⟨k, h1, h2, h⟩
    obtain ⟨k, h1, h2, h | h⟩ := hF
    · exact hno' k h1 h2 h
    · have b1 : isBasic (S j) x = true := stays_basic S x (k + 1) j (by omega) (fun k' a b => hno' k' (by omega) b) h.2
      have b2 : isBasic (S i) x = true := by rw [hbasic]; exact b1
      have b3 : isBasic (S k) x = true := stays_basic S x i k h1 (fun k' a b => hno' k' a (by omega)) b2
      rw [h.1] at b3; cases b3
  · by_contra hno
    have hno' : ∀ k, i ≤ k → k < j → ¬ EntersAt S k x := fun k h1 h2 h => hno ⟨k, h1, h2, h⟩
    obtain ⟨k, h1, h2, h | h⟩ := hF
    · have b1 : isBasic (S j) x = false := stays_nonbasic S x (k + 1) j (by omega) (fun k' a b => hno' k' (by omega) b) h.2
      have b2 : isBasic (S i) x = false := by rw [hbasic]; exact b1
      have b3 : isBasic (S k) x = false := stays_nonbasic S x i k h1 (fun k' a b => hno' k' a (by omega)) b2
      rw [h.1] at b3; cases b3
    · exact hno' k h1 h2 h

/-- a variable that never changes status and is non-basic somewhere is non-basic everywhere -/
theorem nonfickle_nonbasic (S : Nat → SState) (i j : Nat) (y : Var) (hF : ¬ Fickle S i j y) (q : Nat) (hiq : i ≤ q) (hqj : q ≤ j)
    (hq : isBasic (S q) y = false) : ∀ k, i ≤ k → k ≤ j → isBasic (S k) y = false := by
  intro k hik hkj
  rcases le_total k q with hkq | hqk
  · cases hb : isBasic (S k) y with
    | false => rfl
    | true =>
      have := stays_basic S y k q hkq (fun k' a b h => hF ⟨k', by omega, by omega, Or.inl h⟩) hb
      rw [hq] at this; cases this
  · exact stays_nonbasic S y q k hqk (fun k' a b h => hF ⟨k', by omega, by omega, Or.inr h⟩) hq

/-- the pair of states to compare: `t` leaves at `p`, enters at `q`, and at `q` still has the value it was given at `p` -/
theorem pick_leave_enter (S : Nat → SState) (i j : Nat) (hseg : Seg S i j)
    (hbasic : ∀ x, isBasic (S i) x = isBasic (S j) x)
    (hvalue : ∀ x, isBasic (S j) x = false →
      ((S j).lo x = some ((S j).mapping x) ∨ (S j).hi x = some ((S j).mapping x)) → (S i).mapping x = (S j).mapping x)
    (t : Var) (hleave : ∃ p, i ≤ p ∧ p < j ∧ LeavesAt S p t) (henter : ∃ q, i ≤ q ∧ q < j ∧ EntersAt S q t) :
    ∃ p q, i ≤ p ∧ p < j ∧ i ≤ q ∧ q < j ∧ LeavesAt S p t ∧ EntersAt S q t ∧ (S q).mapping t = (S (p + 1)).mapping t := by
  obtain ⟨q, hq1, hq2, hq⟩ := henter
  by_cases hex : ∃ p, i ≤ p ∧ p < q ∧ LeavesAt S p t
  · obtain ⟨p, ⟨hp1, hp2, hp3⟩, hmax⟩ := exists_max (fun p => i ≤ p ∧ p < q ∧ LeavesAt S p t) q hex (fun p h => by omega)
    have noleave : ∀ k, p < k → k < q → ¬ LeavesAt S k t := fun k a b h => by
      have := hmax k ⟨by omega, b, h⟩; omega
    have noenter : ∀ k, p + 1 ≤ k → k < q → ¬ EntersAt S k t := fun k a b h => by
      have := stays_basic S t (k + 1) q (by omega) (fun k' a' b' => noleave k' (by omega) b') h.2
      rw [hq.1] at this; cases this
    have nb : ∀ k, p + 1 ≤ k → k ≤ q → isBasic (S k) t = false := fun k a b =>
      stays_nonbasic S t (p + 1) k a (fun k' a' b' => noenter k' a' (by omega)) hp3.2
    exact ⟨p, q, hp1, by omega, hq1, hq2, hp3, hq, value_const S i j hseg t (p + 1) q (by omega) (by omega) (by omega) nb⟩
  · have hno : ∀ p, i ≤ p → p < q → ¬ LeavesAt S p t := fun p a b h => hex ⟨p, a, b, h⟩
    have nb1 : ∀ k, i ≤ k → k ≤ q → isBasic (S k) t = false := by
      intro k a b
      cases hb : isBasic (S k) t with
      | false => rfl
      | true =>
        have := stays_basic S t k q b (fun k' a' b' => hno k' (by omega) b') hb
        rw [hq.1] at this; cases this
    have v1 : (S q).mapping t = (S i).mapping t := value_const S i j hseg t i q (le_refl _) hq1 (by omega) nb1
    have nbj : isBasic (S j) t = false := by rw [← hbasic]; exact nb1 i (le_refl _) hq1
    obtain ⟨p, ⟨hp1, hp2, hp3⟩, hmax⟩ := exists_max (fun p => i ≤ p ∧ p < j ∧ LeavesAt S p t) j hleave (fun p h => by omega)
    have noleave : ∀ k, p < k → k < j → ¬ LeavesAt S k t := fun k a b h => by
      have := hmax k ⟨by omega, b, h⟩; omega
    have noenter : ∀ k, p + 1 ≤ k → k < j → ¬ EntersAt S k t := fun k a b h => by
      have := stays_basic S t (k + 1) j (by omega) (fun k' a' b' => noleave k' (by omega) b') h.2
      rw [nbj] at this; cases this
    have nb2 : ∀ k, p + 1 ≤ k → k ≤ j → isBasic (S k) t = false := fun k a b =>
      stays_nonbasic S t (p + 1) k a (fun k' a' b' => noenter k' a' (by omega)) hp3.2
    have v2 : (S j).mapping t = (S (p + 1)).mapping t := value_const S i j hseg t (p + 1) j (by omega) (by omega) (le_refl _) nb2
    obtain ⟨xi, jars, jq, v, _, _, _, _, hL, _, hv, hsel⟩ := seg_step S i j hseg p hp1 hp2
    have hxi : t = xi := hL t hp3
    subst hxi
    have hlo : (S j).lo = (S p).lo := by rw [hseg.lo j (by omega) (le_refl _), hseg.lo p hp1 (by omega)]
    have hhi : (S j).hi = (S p).hi := by rw [hseg.hi j (by omega) (le_refl _), hseg.hi p hp1 (by omega)]
    have hbound : (S j).lo t = some ((S j).mapping t) ∨ (S j).hi t = some ((S j).mapping t) := by
      rw [v2, hv, hlo, hhi]
      rcases hsel with ⟨_, h, _⟩ | ⟨_, _, h, _⟩
      · exact Or.inl h
      · exact Or.inr h
    have v3 := hvalue t nbj hbound
    exact ⟨p, q, hp1, hp2, hq1, hq2, hp3, hq, by rw [v1, v3, v2]⟩

/-- **Bland's rule does not cycle**: a non-empty segment of a run cannot end with the basis it started
with and with its bounded non-basic variables on the values they had at the start -/
theorem seg_no_repeat (S : Nat → SState) (i j : Nat) (hij : i < j) (hseg : Seg S i j)
    (hbasic : ∀ x, isBasic (S i) x = isBasic (S j) x)
    (hvalue : ∀ x, isBasic (S j) x = false →
      ((S j).lo x = some ((S j).mapping x) ∨ (S j).hi x = some ((S j).mapping x)) → (S i).mapping x = (S j).mapping x) : False := by
  obtain ⟨N, hN⟩ := fickle_bound S i j hseg
  have hne : ∃ x, Fickle S i j x := by
    obtain ⟨xi, _, _, _, _, _, hL, _⟩ := seg_step S i j hseg i (le_refl _) hij
    exact ⟨xi, i, le_refl _, hij, Or.inl hL⟩
  obtain ⟨t, hFt, hmax⟩ := exists_max (Fickle S i j) N hne hN
  obtain ⟨hleave, henter⟩ := fickle_leaves_enters S i j hbasic t hFt
  obtain ⟨p, q, hp1, hp2, hq1, hq2, hp, hq, hval⟩ := pick_leave_enter S i j hseg hbasic hvalue t hleave henter
  -- the step at p: t is the leaving variable
  obtain ⟨xp, _, _, vp, _, hpickP, _, _, hLp, _, hvp, hselP⟩ := seg_step S i j hseg p hp1 hp2
  have hxp : t = xp := hLp t hp
  subst hxp
  -- the step at q: t is the entering variable, r the leaving one
  obtain ⟨r, jars, jq, vq, hmq, hpickQ, hLq, _, _, hEq, _, hselQ⟩ := seg_step S i j hseg q hq1 hq2
  have hjt : jq.1 = t := (hEq t hq).symm
  have hrt : r < t := by
    have h1 : r ≤ t := hmax r ⟨q, hq1, hq2, Or.inl hLq⟩
    have h2 : r ≠ t := fun e => by
      have := hLq.1; rw [e, hq.1] at this; cases this
    exact lt_of_le_of_ne h1 h2
  have hlo : (S q).lo = (S p).lo := by rw [hseg.lo q hq1 (by omega), hseg.lo p hp1 (by omega)]
  have hhi : (S q).hi = (S p).hi := by rw [hseg.hi q hq1 (by omega), hseg.hi p hp1 (by omega)]
  have hrows : ∀ w, RowsHold (S q).rows w ↔ RowsHold (S p).rows w := fun w =>
    (hseg.rows q hq1 (by omega) w).trans (hseg.rows p hp1 (by omega) w).symm
  have hbig : ∀ y, t < y → isBasic (S q) y = false → (S q).mapping y = (S p).mapping y := by
    intro y hy hnb
    have hF : ¬ Fickle S i j y := fun h => by have := hmax y h; omega
    have nb := nonfickle_nonbasic S i j y hF q hq1 (by omega) hnb
    have e1 := value_const S i j hseg y i q (le_refl _) hq1 (by omega) (fun k a b => nb k a (by omega))
    have e2 := value_const S i j hseg y i p (le_refl _) hp1 (by omega) (fun k a b => nb k a (by omega))
    rw [e1, e2]
  have hvalP : (ltLo (S p) t = true → (S p).lo t = some ((S q).mapping t)) ∧
      (ltLo (S p) t = false → (S p).hi t = some ((S q).mapping t)) := by
    rw [hval, hvp]
    rcases hselP with ⟨h1, h2, _⟩ | ⟨h1, _, h2, _⟩
    · exact ⟨fun _ => h2, fun h => (by rw [h1] at h; cases h)⟩
    · exact ⟨fun h => (by rw [h1] at h; cases h), fun _ => h2⟩
  have hP := hseg.inv p hp1 (by omega)
  have hQ := hseg.inv q hq1 (by omega)
  rcases hselQ with ⟨h1, _, h3⟩ | ⟨_, h2, _, h3⟩
  · exact bland_core_low (S p) (S q) t r jars jq hP hQ hlo hhi hrows hpickP hmq hrt hjt h1 h3 hbig hvalP
  · exact bland_core_high (S p) (S q) t r jars jq hP hQ hlo hhi hrows hpickP hmq hrt hjt h2 h3 hbig hvalP

end Holpy.C16.Simplex
