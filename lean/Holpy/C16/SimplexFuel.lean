import Holpy.C16.SimplexModel
/-
C16 — the answer of `check` does not depend on the fuel once there is enough of it.
-/
namespace Holpy.C16.Simplex

theorem check_fuel_succ : ∀ (n : Nat) (s : SState), (check n s).1 ≠ .fuel → check (n + 1) s = check n s := by
  intro n
  induction n with
  | zero => intro s h; simp [check] at h
  | succ n ih =>
    intro s h
    simp only [check] at h ⊢
    cases hp : pickViolated s with
    | none => rfl
    | some xi =>
      simp only [hp] at h ⊢
      by_cases hlt : ltLo s xi = true
      · simp only [hlt, if_true] at h ⊢
        split at h
        · rename_i j hj
          exact ih _ h
        · rename_i hnone
          rfl
      · simp only [hlt, Bool.false_eq_true, if_false] at h ⊢
        split at h
        · rename_i j hj
          exact ih _ h
        · rename_i hnone
          rfl

/-- more fuel never changes an answer that is not `fuel` -/
theorem check_fuel_mono (n k : Nat) (s : SState) (h : (check n s).1 ≠ .fuel) : check (n + k) s = check n s := by
  induction k with
  | zero => rfl
  | succ k ih =>
    have : (check (n + k) s).1 ≠ .fuel := by rw [ih]; exact h
    rw [← Nat.add_assoc, check_fuel_succ (n + k) s this, ih]

end Holpy.C16.Simplex
