import Holpy.C16.StrictModel
import Holpy.C16.StrictProofs
import Holpy.C16.SimplexModel
import Mathlib.Tactic.Ring
import Holpy.C16.StrictSimplexCheck2
import Holpy.C16.StrictSimplexHandle
import Holpy.C16.StrictSimplexRun
/-
C16 — property theorems about the δ-rationals of `prover/simplex_strict.py` (`Pair`, `binary_delta`,
`multi_delta`; model in StrictModel.lean, tied to the code by the `delta` stream of
harness/props/c16.py).  The strict solver itself (the `Simplex` class of simplex_strict.py over
pairs) is NOT modelled.
-/
namespace Holpy.C16
open Holpy.C16.Strict Holpy.C16.Simplex Holpy.C16.StrictSimplex

/-- the tableau of `x0 + 2·x1 ⋈ …`, `x0 - x1 ⋈ …` right after `add_ineqs` -/
def exampleStateS : SState :=
  { emptyState with rows := [(0, [(100, 1), (101, 2)]), (1, [(100, 1), (101, -1)])], vars := [100, 101, 0, 1], index := 2 }

/-- `multi_delta(*ps)` is positive, and every comparison `p1 <= p2` of δ-rationals in `ps` holds as a
comparison of the rationals `x + y·δ` for that concrete `δ`. -/
theorem strict_delta_sound (ps : List (Pair × Pair)) :
    0 < multiDelta ps ∧ ∀ pq ∈ ps, pq.1.le pq.2 = true → pq.1.at (multiDelta ps) ≤ pq.2.at (multiDelta ps) :=
  multiDelta_sound ps

example : multiDelta [(⟨0, 1⟩, ⟨1, 0⟩), (⟨0, 3⟩, ⟨1, 1⟩)] = 1 / 2 ∧ Pair.le ⟨0, 3⟩ ⟨1, 1⟩ = true := by decide +kernel

/-- a constraint `Σ cⱼ·xⱼ ⋈ b` with `⋈ ∈ {≥, >, ≤, <}` -/
structure SIneq where
  kind : Kind
  jars : Jars
  bound : Rat
  strict : Bool

/-- value of a linear form under a δ-assignment (componentwise) -/
def evalP : Jars → (Var → Pair) → Pair
  | [], _ => ⟨0, 0⟩
  | (x, c) :: rest, m => ⟨c * (m x).x + (evalP rest m).x, c * (m x).y + (evalP rest m).y⟩

/-- the bound as a δ-rational: `b`, `b + δ` (for `>`), `b - δ` (for `<`) — the encoding of simplex_strict.py -/
def boundPair (q : SIneq) : Pair := ⟨q.bound, if q.strict then (match q.kind with | .ge => 1 | .le => -1) else 0⟩

/-- the comparison of δ-rationals that the strict solver maintains for the constraint -/
def comparison (q : SIneq) (m : Var → Pair) : Pair × Pair :=
  match q.kind with
  | .ge => (boundPair q, evalP q.jars m)
  | .le => (evalP q.jars m, boundPair q)

/-- the constraint under a rational assignment -/
def SIneq.holds (q : SIneq) (w : Var → ℚ) : Prop :=
  match q.kind, q.strict with
  | .ge, false => q.bound ≤ evalJ q.jars w
  | .ge, true => q.bound < evalJ q.jars w
  | .le, false => evalJ q.jars w ≤ q.bound
  | .le, true => evalJ q.jars w < q.bound

private theorem evalP_at (js : Jars) (m : Var → Pair) (d : ℚ) : (evalP js m).at d = evalJ js (fun x => (m x).at d) := by
  induction js with
  | nil => simp [evalP, evalJ, Pair.at]
  | cons p js ih => obtain ⟨x, c⟩ := p; simp only [evalP, evalJ, Pair.at] at ih ⊢; rw [← ih]; ring

/-- PARTIAL statement for the strict simplex: IF a δ-assignment `m` satisfies every constraint in the
lexicographic order on δ-rationals (what `simplex_strict.Simplex` is meant to have established when
`handle_assertion()` returns — that part is NOT proved, the strict solver is not modelled), THEN
with `δ = multi_delta(comparisons)` the rational assignment `x ↦ m(x).x + m(x).y·δ` satisfies every
constraint, the strict ones strictly. -/
theorem strict_sat_sound_partial (qs : List SIneq) (m : Var → Pair)
    (h : ∀ q ∈ qs, (comparison q m).1.le (comparison q m).2 = true) :
    0 < multiDelta (qs.map (comparison · m)) ∧
      ∀ q ∈ qs, q.holds (fun x => (m x).at (multiDelta (qs.map (comparison · m)))) := by
  obtain ⟨hpos, hall⟩ := multiDelta_sound (qs.map (comparison · m))
  refine ⟨hpos, ?_⟩
  intro q hq
  have := hall (comparison q m) (List.mem_map.mpr ⟨q, hq, rfl⟩) (h q hq)
  generalize multiDelta (qs.map (comparison · m)) = d at this hpos
  unfold SIneq.holds
  unfold comparison at this
  cases hk : q.kind <;> cases hs : q.strict <;> simp only [hk, hs] at this ⊢ <;>
    rw [evalP_at] at this <;> simp [boundPair, hk, hs, Pair.at] at this <;> simp only [Pair.at] <;> linarith

example : (comparison ⟨.ge, [(100, 1)], 0, true⟩ (fun _ => ⟨0, 1⟩)).1.le (comparison ⟨.ge, [(100, 1)], 0, true⟩ (fun _ => ⟨0, 1⟩)).2 = true := by
  decide +kernel

/-- `check()` of `simplex_strict.Simplex` answering SAT (any fuel): both components of `mapping`
satisfy the row equations and every variable lies within its δ-rational bounds in the lexicographic
order; rows keep their solutions, bounds are unchanged.  (`PInv`: well-formed tableau, both
components of `mapping` satisfy the rows, non-basic variables within bounds, lower ≤ upper.) -/
theorem strict_check_sat_sound (fuel : Nat) (s s' : PState) (hinv : PInv s) (h : checkP fuel s = (.sat, s')) :
    RowsHoldP s'.sx.rows (pval s') ∧ (∀ x, PInB s' (pval s') x) ∧ (∀ w, RowsHold s'.sx.rows w ↔ RowsHold s.sx.rows w) ∧
      s'.lo = s.lo ∧ s'.hi = s.hi := by
  obtain ⟨i, l, u, r, hs, _⟩ := checkP_spec fuel s s' .sat hinv h
  exact ⟨⟨i.rx, i.ry⟩, hs rfl, r, l, u⟩

/-- `check()` of `simplex_strict.Simplex` answering UNSAT (any fuel): no δ-rational assignment
satisfies the row equations and the bounds of the state it started from (fuel-bounded as for the
non-strict solver: termination is not proved). -/
theorem strict_check_unsat_sound (fuel : Nat) (s s' : PState) (xi : Var) (hinv : PInv s) (h : checkP fuel s = (.unsat xi, s')) :
    ¬ ∃ V : Var → Pair, RowsHoldP s.sx.rows V ∧ ∀ x, PInB s V x := by
  obtain ⟨_, l, u, r, _, hu⟩ := checkP_spec fuel s s' (.unsat xi) hinv h
  rintro ⟨V, hV, hb⟩
  exact hu xi rfl ⟨V, ⟨(r _).mpr hV.1, (r _).mpr hV.2⟩, fun x => (PInB_congr s s' l u V x).mpr (hb x)⟩

-- x0 + 2·x1 = s0 > 1 (bound 1 + δ): check pivots and answers SAT; with x0 ≤ 0, x1 < 0 as well it answers UNSAT
def exStrictSat : PState := ⟨exampleStateS, fun _ => 0, setQ (fun _ => none) 0 (some ⟨1, 1⟩), fun _ => none⟩
def exStrictUnsat : PState :=
  ⟨exampleStateS, fun _ => 0, setQ (fun _ => none) 0 (some ⟨1, 1⟩), setQ (setQ (fun _ => none) 100 (some ⟨0, 0⟩)) 101 (some ⟨0, -1⟩)⟩

example : (checkP 5 exStrictSat).1 == .sat ∧ (checkP 5 exStrictUnsat).1 == .unsat 0 := by decide +kernel

/-- `handle_assertion()` of `simplex_strict.Simplex` running through all atoms: both components of the
final `mapping` satisfy the rows (which still have the solutions of the initial tableau), and the
mapping satisfies the initial bounds and every asserted atom `x ≥ c` / `x ≤ c` in the δ-order.
With `strict_sat_sound_partial` this yields a concrete rational assignment for the asserted atoms;
MISSING for a full `strict_sat_sound`: the link between the atoms / slack rows that `add_ineqs`
creates and the given constraints (proved for the non-strict solver only: `simplex_sat_sound`). -/
theorem strict_handle_assertion_sat_sound (fuel : Nat) (s s' : PState) (atoms : List PAtom) (k : Nat) (tr tr' : List PState)
    (hinv : PInv s) (hall : ∀ x, PInB s (pval s) x) (h : handleAssertionP fuel s atoms k tr = (.sat s', tr')) :
    RowsHoldP s'.sx.rows (pval s') ∧ (∀ w, RowsHold s'.sx.rows w ↔ RowsHold s.sx.rows w) ∧
      (∀ x, PInB s (pval s') x) ∧ ∀ a ∈ atoms, AtomHoldsP a (pval s') := by
  obtain ⟨i, r, hb, hiff⟩ := StrictSimplex.handle_spec fuel atoms s k tr _ tr' hinv hall h
  have := (hiff (pval s')).mp hb
  exact ⟨⟨i.rx, i.ry⟩, r, this.1, this.2⟩

/-- `handle_assertion()` of `simplex_strict.Simplex` raising `UNSATException` or
`AssertUpper/LowerException`: no δ-rational assignment satisfies the rows of the initial tableau, the
initial bounds and the asserted atoms (fuel-bounded; the link to the given constraints is missing as above). -/
theorem strict_handle_assertion_unsat_sound (fuel : Nat) (s : PState) (atoms : List PAtom) (k : Nat) (tr tr' : List PState)
    (o : POutcome) (hinv : PInv s) (hall : ∀ x, PInB s (pval s) x) (h : handleAssertionP fuel s atoms k tr = (o, tr'))
    (ho : (∃ xi s', o = .unsat xi s') ∨ (∃ j s', o = .conflict j s')) :
    ¬ ∃ V : Var → Pair, RowsHoldP s.sx.rows V ∧ (∀ y, PInB s V y) ∧ ∀ a ∈ atoms, AtomHoldsP a V := by
  have := StrictSimplex.handle_spec fuel atoms s k tr o tr' hinv hall h
  rcases ho with ⟨xi, s', rfl⟩ | ⟨j, s', rfl⟩ <;> exact this

def poutcomeTag : POutcome → Nat
  | .sat _ => 0
  | .unsat _ _ => 1
  | .conflict _ _ => 2
  | .fuel _ => 3

-- s0 > 1 is satisfiable; after x0 ≤ 0 and x1 < 0 it is not; x0 > 1 then x0 ≤ 1 is refused by assert_upper
example : poutcomeTag (handleAssertionP 9 ⟨exampleStateS, fun _ => 0, fun _ => none, fun _ => none⟩ [.geq 0 ⟨1, 1⟩] 0 []).1 = 0 ∧
    poutcomeTag (handleAssertionP 9 ⟨exampleStateS, fun _ => 0, fun _ => none, fun _ => none⟩ [.leq 100 ⟨0, 0⟩, .leq 101 ⟨0, -1⟩, .geq 0 ⟨1, 1⟩] 0 []).1 = 1 ∧
    poutcomeTag (handleAssertionP 9 ⟨exampleStateS, fun _ => 0, fun _ => none, fun _ => none⟩ [.geq 100 ⟨1, 1⟩, .leq 100 ⟨1, 0⟩] 0 []).1 = 2 := by
  decide +kernel

/-- the constraint as `simplex_strict` receives it: `>` / `<` become `≥ b + δ` / `≤ b − δ` -/
def toP (q : SIneq) : PIneq := ⟨q.kind, q.jars, boundPair q⟩

private theorem evalP_eq_EP (js : Jars) (m : Var → Pair) : evalP js m = EP js m := by
  induction js with
  | nil => simp [evalP, EP, evalJ]
  | cons p js ih => obtain ⟨x, c⟩ := p; simp only [evalP, ih, EP, evalJ]

private theorem comparison_iff (q : SIneq) (m : Var → Pair) :
    (comparison q m).1.le (comparison q m).2 = true ↔ PIneqHolds (toP q) m := by
  unfold comparison PIneqHolds toP
  cases hk : q.kind <;> simp only [hk, ple_iff, evalP_eq_EP]

/-- A whole run `s = simplex_strict.Simplex(); s.add_ineqs(*qs); s.handle_assertion()` that ends
without exception (any fuel): with `δ = multi_delta(comparisons)` the rational assignment
`x ↦ mapping[x].x + mapping[x].y·δ` satisfies every given constraint, the strict ones (`>`/`<`)
strictly.  (`InputOK` as for the non-strict solver; constraints of the ignored form `0·x ⋈ b` excluded.) -/
theorem strict_sat_sound (N fuel : Nat) (sq : List SIneq) (hin : InputOK N ((sq.map toP).map projIneq))
    (hnz : ∀ q ∈ sq, ∀ x, q.jars ≠ [(x, 0)]) (s' : PState) (tr : List PState)
    (h : runP fuel (sq.map toP) = (.sat s', tr)) :
    0 < multiDelta (sq.map (comparison · (pval s'))) ∧
      ∀ q ∈ sq, q.holds (fun x => (pval s' x).at (multiDelta (sq.map (comparison · (pval s'))))) :=
  strict_sat_sound_partial sq (pval s') (fun q hq =>
    (comparison_iff q (pval s')).mpr (runP_sat N fuel (sq.map toP) hin s' tr h (toP q) (List.mem_map.mpr ⟨q, hq, rfl⟩) (hnz q hq)))

/-- A whole run of `simplex_strict.Simplex` that ends in `UNSATException` or an
`AssertUpper/LowerException`: the given constraints (strict ones strictly) have no rational solution.
Fuel-bounded like the non-strict statement: the outcome `fuel` claims nothing. -/
theorem strict_unsat_sound (N fuel : Nat) (sq : List SIneq) (hin : InputOK N ((sq.map toP).map projIneq))
    (o : POutcome) (tr : List PState) (h : runP fuel (sq.map toP) = (o, tr))
    (ho : (∃ xi s', o = .unsat xi s') ∨ (∃ j s', o = .conflict j s')) :
    ¬ ∃ w : Var → ℚ, ∀ q ∈ sq, q.holds w := by
  rintro ⟨w, hw⟩
  apply runP_unsat N fuel (sq.map toP) hin o tr h ho
  refine ⟨fun x => ⟨w x, 0⟩, ?_⟩
  intro p hp
  obtain ⟨q, hq, rfl⟩ := List.mem_map.mp hp
  have hh := hw q hq
  have hE : EP q.jars (fun x => (⟨w x, 0⟩ : Pair)) = ⟨evalJ q.jars w, 0⟩ := by
    simp only [EP, evalJ_zero]
  unfold PIneqHolds toP
  unfold SIneq.holds at hh
  cases hk : q.kind <;> cases hs : q.strict <;> simp only [hk, hs] at hh ⊢ <;> rw [hE] <;>
    simp only [boundPair, hk, hs, PLe] <;> simp
  · exact lt_or_eq_of_le hh
  · exact Or.inl hh
  · exact lt_or_eq_of_le hh
  · exact Or.inl hh

-- x + y > 1, x ≤ 0, 2y < 1 (no solution: a check() answers UNSAT);  2x > 1, 2x ≤ 2 (satisfiable)
def exSUnsat : List SIneq := [⟨.ge, [(100, 1), (101, 1)], 1, true⟩, ⟨.le, [(100, 1)], 0, false⟩, ⟨.le, [(101, 2)], 1, true⟩]
def exSSat : List SIneq := [⟨.ge, [(100, 2)], 1, true⟩, ⟨.le, [(100, 2)], 2, false⟩]

example : poutcomeTag (runP 20 (exSUnsat.map toP)).1 = 1 ∧ poutcomeTag (runP 20 (exSSat.map toP)).1 = 0 := by decide +kernel

end Holpy.C16
