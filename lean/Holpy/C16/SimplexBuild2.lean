import Holpy.C16.SimplexBuild
/-
C16 — one `add_ineq` step and the whole `add_ineqs` of the simplex model.
-/
namespace Holpy.C16.Simplex

/-- what one `add_ineq` guarantees -/
def AddSpec (N : Nat) (s : SState) (q : Ineq) (res : SState × Option Atom) : Prop :=
  Built N res.1 ∧ res.1.index ≤ s.index + (if isUnit q then 0 else 1) ∧ (∀ r ∈ s.rows, r ∈ res.1.rows) ∧
  (∀ a, res.2 = some a → ∀ rows : List (Var × Jars), (∀ r ∈ res.1.rows, r ∈ rows) → ∀ w : Var → ℚ, RowsHold rows w →
    (AtomHolds a w ↔ IneqHolds q w)) ∧
  (res.2 = none → ∃ x, q.jars = [(x, 0)])

/-- the common part: the constraint gets the slack variable of its linear form (an old one or a new one) -/
theorem slack_case (N : Nat) (s0 s : SState) (k : Kind) (js : Jars) (b : ℚ) (hb : Built N s)
    (hrows : s.rows = s0.rows) (hidx : s.index = s0.index)
    (hd : DistinctVars js) (hv : ∀ x ∈ varsOf js, N ≤ x) (hnu : isUnit ⟨k, js, b⟩ = false) (post : SState → Var → SState)
    (hpost : ∀ t sl, (post t sl).rows = t.rows ∧ (post t sl).matrix = t.matrix ∧ (post t sl).index = t.index ∧
      (post t sl).mapping = t.mapping ∧ (post t sl).lo = t.lo ∧ (post t sl).hi = t.hi) :
    AddSpec N s0 ⟨k, js, b⟩
      (match s.matrix.find? (fun p => p.1 == js) with
       | some p => (post s p.2, some (mkAtom k p.2 b))
       | none =>
         (post { s with index := s.index + 1, matrix := s.matrix ++ [(js, s.index)], rows := s.rows ++ [(s.index, js)] } s.index,
           some (mkAtom k s.index b))) := by
  have keep : ∀ t sl, Built N t → Built N (post t sl) := by
    intro t sl ht
    obtain ⟨h1, h2, h3, h4, h5, h6⟩ := hpost t sl
    exact ⟨by rw [h1, h2]; exact ht.rows_eq, by rw [h2, h3]; exact ht.ids, by rw [h4]; exact ht.zero,
      by rw [h5]; exact ht.nolo, by rw [h6]; exact ht.nohi, by rw [h1]; exact ht.rowvars⟩
  split
  · rename_i p hfind
    have hp := List.mem_of_find?_eq_some hfind
    have hpe : p.1 = js := by simpa using List.find?_some hfind
    have hrow : (p.2, js) ∈ s.rows := by
      rw [hb.rows_eq, ← hpe]; exact List.mem_map.mpr ⟨p, hp, rfl⟩
    refine ⟨keep s p.2 hb, ?_, ?_, ?_, ?_⟩
    · rw [(hpost s p.2).2.2.1, hidx, hnu]; simp
    · intro r hr; rw [(hpost s p.2).1, hrows]; exact hr
    · intro a ha rows hsub w hw
      simp only [Option.some.injEq] at ha; subst ha
      exact atom_slack_iff k p.2 js b rows (hsub _ (by rw [(hpost s p.2).1]; exact hrow)) w hw
    · intro h; cases h
  · refine ⟨keep _ s.index (built_newSlack N s js hb hd hv), ?_, ?_, ?_, ?_⟩
    · rw [(hpost _ s.index).2.2.1, hnu]; simp [hidx]
    · intro r hr; rw [(hpost _ s.index).1]; simp only; rw [hrows]; exact List.mem_append_left _ hr
    · intro a ha rows hsub w hw
      simp only [Option.some.injEq] at ha; subst ha
      exact atom_slack_iff k s.index js b rows (hsub _ (by rw [(hpost _ s.index).1]; simp)) w hw
    · intro h; cases h

theorem addIneq_spec (N : Nat) (s : SState) (q : Ineq) (hb : Built N s) (hd : DistinctVars q.jars)
    (hv : ∀ x ∈ varsOf q.jars, N ≤ x) : AddSpec N s q (addIneq s q) := by
  obtain ⟨k, jars, b⟩ := q
  simp only at hd hv
  unfold addIneq
  simp only
  split
  · rename_i x c
    split
    · rename_i hc
      have hc' : c = 1 := by simpa using hc
      subst hc'
      refine ⟨built_addVar N s x hb, by rw [(addVar_same s x).2.2.1]; simp [isUnit], by intro r hr; rw [(addVar_same s x).1]; exact hr, ?_, by intro h; cases h⟩
      intro a ha rows _ w _
      simp only [Option.some.injEq] at ha; subst ha
      cases k <;> simp [mkAtom, AtomHolds, IneqHolds, evalJ]
    · split
      · rename_i hc0
        have : c = 0 := by simpa using hc0
        subst this
        exact ⟨hb, by simp, fun r hr => hr, by intro a ha; simp at ha, fun _ => ⟨x, rfl⟩⟩
      · rename_i hc1 _
        exact slack_case N s s k [(x, c)] b hb rfl rfl hd hv (by simpa [isUnit] using hc1) (fun t sl => addVar (addVar t x) sl) (by
          intro t sl
          obtain ⟨a1, a2, a3, a4, a5, a6⟩ := addVar_same t x
          obtain ⟨b1, b2, b3, b4, b5, b6⟩ := addVar_same (addVar t x) sl
          exact ⟨b1.trans a1, b2.trans a2, b3.trans a3, b4.trans a4, b5.trans a5, b6.trans a6⟩)
  · rename_i hnot
    obtain ⟨f1, f2, f3⟩ := foldl_addVar_same jars s
    have hnu : isUnit ⟨k, jars, b⟩ = false := by
      unfold isUnit
      split
      · rename_i x c heq; exact absurd heq (hnot x c)
      · rfl
    have := slack_case N s (jars.foldl (fun st j => addVar st j.1) s) k jars b (built_foldl_addVar N jars s hb) f1 f3 hd hv hnu
      (fun t sl => addVar t sl) (fun t sl => addVar_same t sl)
    exact this

/-- all of `add_ineqs` -/
theorem addIneqs_spec (N : Nat) : ∀ (qs : List Ineq) (s : SState), Built N s →
    (∀ q ∈ qs, DistinctVars q.jars ∧ ∀ x ∈ varsOf q.jars, N ≤ x) →
    Built N (addIneqs s qs).1 ∧ (addIneqs s qs).1.index ≤ s.index + slackCount qs ∧ (∀ r ∈ s.rows, r ∈ (addIneqs s qs).1.rows) ∧
    (∀ w : Var → ℚ, RowsHold (addIneqs s qs).1.rows w →
      ((∀ a ∈ (addIneqs s qs).2, AtomHolds a w) ↔ ∀ q ∈ qs, (∀ x, q.jars ≠ [(x, 0)]) → IneqHolds q w) ∧
      ((∀ q ∈ qs, IneqHolds q w) → ∀ a ∈ (addIneqs s qs).2, AtomHolds a w)) := by
  intro qs
  induction qs with
  | nil => intro s hb _; simp [addIneqs]; exact hb
  | cons q rest ih =>
    intro s hb hq
    obtain ⟨hq1, hq2⟩ := hq q (List.mem_cons_self ..)
    obtain ⟨b1, i1, r1, a1, n1⟩ := addIneq_spec N s q hb hq1 hq2
    obtain ⟨b2, i2, r2, a2⟩ := ih (addIneq s q).1 b1 (fun q' hq' => hq q' (List.mem_cons_of_mem _ hq'))
    simp only [addIneqs]
    have hsc : slackCount (q :: rest) = (if isUnit q then 0 else 1) + slackCount rest := by
      unfold slackCount
      cases hu : isUnit q <;> simp [List.filter_cons, hu] <;> omega
    refine ⟨b2, by rw [hsc]; omega, fun r hr => r2 r (r1 r hr), ?_⟩
    intro w hw
    obtain ⟨a2a, a2b⟩ := a2 w hw
    cases hat : (addIneq s q).2 with
    | none =>
      obtain ⟨x0, hx0⟩ := n1 hat
      refine ⟨?_, ?_⟩
      · rw [a2a]
        constructor
        · intro h q' hq' hnz
          rcases List.mem_cons.mp hq' with rfl | hq'
          · exact absurd hx0 (hnz x0)
          · exact h q' hq' hnz
        · intro h q' hq' hnz; exact h q' (List.mem_cons_of_mem _ hq') hnz
      · intro h; exact a2b (fun q' hq' => h q' (List.mem_cons_of_mem _ hq'))
    | some a =>
      have hiff := a1 a hat (addIneqs (addIneq s q).1 rest).1.rows r2 w hw
      dsimp only
      refine ⟨?_, ?_⟩
      · simp only [List.forall_mem_cons, hiff, a2a]
        constructor
        · rintro ⟨h0, h⟩
          exact ⟨fun _ => h0, h⟩
        · rintro ⟨hq0, h⟩
          refine ⟨?_, h⟩
          apply hq0
          intro x hx
          -- a constraint `0 * x ⋈ b` produces no atom
          have : (addIneq s q).2 = none := by
            obtain ⟨k, jars, b⟩ := q
            simp only at hx; subst hx
            simp [addIneq]
          rw [this] at hat; cases hat
      · intro h
        simp only [List.forall_mem_cons]
        exact ⟨hiff.mpr (h q (List.mem_cons_self ..)), a2b (fun q' hq' => h q' (List.mem_cons_of_mem _ hq'))⟩

end Holpy.C16.Simplex
