import Holpy.C16.SimplexProofs
/-
C16 — the tableau invariant of the simplex model: `pivot` keeps the solution set of the row
equations, `update` and `pivotAndUpdate` keep `mapping` a solution of them.
-/
namespace Holpy.C16.Simplex

/-- `v` satisfies every row equation `b = Σ cⱼ·xⱼ` -/
def RowsHold (rows : List (Var × Jars)) (v : Var → ℚ) : Prop := ∀ r ∈ rows, v r.1 = evalJ r.2 v

/-- well-formed tableau: one row per basic variable, no variable twice in a row, rows mention
non-basic variables only -/
structure WF (s : SState) : Prop where
  heads : (s.rows.map (·.1)).Nodup
  distinct : ∀ r ∈ s.rows, DistinctVars r.2
  nonbasic : ∀ r ∈ s.rows, ∀ x ∈ varsOf r.2, isBasic s x = false

theorem isBasic_iff (s : SState) (x : Var) : isBasic s x = true ↔ x ∈ s.rows.map (·.1) := by
  simp only [isBasic, List.any_eq_true, beq_iff_eq, List.mem_map]

theorem row_unique {rows : List (Var × Jars)} (h : (rows.map (·.1)).Nodup) {b : Var} {j1 j2 : Jars}
    (h1 : (b, j1) ∈ rows) (h2 : (b, j2) ∈ rows) : j1 = j2 := by
  induction rows with
  | nil => cases h1
  | cons r rows ih =>
    simp only [List.map_cons, List.nodup_cons] at h
    rcases List.mem_cons.mp h1 with e1 | h1 <;> rcases List.mem_cons.mp h2 with e2 | h2
    · rw [← e1] at e2; exact (Prod.mk.inj e2).2.symm ▸ rfl
    · exact absurd (List.mem_map.mpr ⟨(b, j2), h2, rfl⟩) (by rw [← e1] at h; exact h.1)
    · exact absurd (List.mem_map.mpr ⟨(b, j1), h1, rfl⟩) (by rw [← e2] at h; exact h.1)
    · exact ih h.2 h1 h2

theorem rowOf_of_mem (s : SState) (hw : (s.rows.map (·.1)).Nodup) (b : Var) (js : Jars) (hm : (b, js) ∈ s.rows) :
    rowOf s b = some js := by
  unfold rowOf
  cases hf : s.rows.find? (fun r => r.1 == b) with
  | none =>
    have := List.find?_eq_none.mp hf (b, js) hm
    simp at this
  | some r =>
    have hr := List.mem_of_find?_eq_some hf
    have hb : r.1 = b := by simpa using List.find?_some hf
    obtain ⟨b', js'⟩ := r
    simp only at hb; subst hb
    simp [row_unique hw hr hm]

theorem aij_of_mem (s : SState) (hw : (s.rows.map (·.1)).Nodup) (b x : Var) (js : Jars) (hm : (b, js) ∈ s.rows) :
    aij s b x = coeffOf x js := by
  simp [aij, rowOf_of_mem s hw b js hm]

/-! ### the two new kinds of rows -/

theorem evalJ_pivotRepr (xi xj : Var) (jars : Jars) (v : Var → ℚ) (hd : DistinctVars jars) :
    evalJ (pivotRepr xi xj (coeffOf xj jars) jars) v =
      (1 / coeffOf xj jars) * v xi - (1 / coeffOf xj jars) * (evalJ jars v - coeffOf xj jars * v xj) := by
  unfold pivotRepr
  rw [evalJ_reducePairs]
  simp only [evalJ]
  rw [evalJ_scale (-(1 / coeffOf xj jars)), evalJ_filter_var xj jars v hd]
  ring

theorem evalJ_substRow (xj : Var) (repr rhs : Jars) (v : Var → ℚ) (hd : DistinctVars rhs) :
    evalJ (substRow xj repr rhs) v = evalJ rhs v + coeffOf xj rhs * (evalJ repr v - v xj) := by
  unfold substRow
  rw [evalJ_reducePairs, evalJ_append, filter_jar_eq xj rhs hd, evalJ_filter_var xj rhs v hd, evalJ_scale]
  ring

/-- the rewritten version of a row that is not the pivot row -/
def pivotOther (xj : Var) (repr : Jars) (r : Var × Jars) : Var × Jars :=
  if r.2.any (fun j => j.1 == xj) then (r.1, substRow xj repr r.2) else r

theorem pivot_rows (s : SState) (xi xj : Var) (jars : Jars) (hw : (s.rows.map (·.1)).Nodup) (hm : (xi, jars) ∈ s.rows) :
    (pivot s xi xj).rows =
      (s.rows.filter (fun r => r.1 != xi)).map (pivotOther xj (pivotRepr xi xj (coeffOf xj jars) jars)) ++
        [(xj, pivotRepr xi xj (coeffOf xj jars) jars)] := by
  simp [pivot, rowOf_of_mem s hw xi jars hm, pivotOther]

theorem pivotOther_fst (xj : Var) (repr : Jars) (r : Var × Jars) : (pivotOther xj repr r).1 = r.1 := by
  unfold pivotOther; split <;> rfl

theorem any_var_iff (js : Jars) (x : Var) : js.any (fun j => j.1 == x) = true ↔ x ∈ varsOf js := by
  simp only [List.any_eq_true, beq_iff_eq, varsOf, List.mem_map]

theorem evalJ_pivotOther (xj : Var) (repr : Jars) (r : Var × Jars) (v : Var → ℚ) (hd : DistinctVars r.2) :
    evalJ (pivotOther xj repr r).2 v = evalJ r.2 v + coeffOf xj r.2 * (evalJ repr v - v xj) := by
  unfold pivotOther
  split
  · exact evalJ_substRow xj repr r.2 v hd
  · rename_i h
    have : xj ∉ varsOf r.2 := fun hm => h ((any_var_iff r.2 xj).mpr hm)
    rw [coeffOf_not_mem xj r.2 this]; ring

/-- **`pivot` preserves the solution set of the row equations.** -/
theorem pivot_rows_iff (s : SState) (xi xj : Var) (jars : Jars) (hwf : WF s) (hm : (xi, jars) ∈ s.rows)
    (ha : coeffOf xj jars ≠ 0) (v : Var → ℚ) :
    RowsHold (pivot s xi xj).rows v ↔ RowsHold s.rows v := by
  rw [pivot_rows s xi xj jars hwf.heads hm]
  set repr := pivotRepr xi xj (coeffOf xj jars) jars with hrepr
  have hE := evalJ_pivotRepr xi xj jars v (hwf.distinct _ hm)
  rw [← hrepr] at hE
  -- the new row of xj holds iff the old row of xi holds
  have key : v xj = evalJ repr v ↔ v xi = evalJ jars v := by
    rw [hE]
    constructor
    · intro h; field_simp at h; linarith
    · intro h; rw [h]; field_simp; ring
  constructor
  · intro hnew r hr
    have hxj : v xj = evalJ repr v := hnew (xj, repr) (by simp)
    by_cases hri : r.1 = xi
    · obtain ⟨b, js⟩ := r
      simp only at hri; subst hri
      rw [row_unique hwf.heads hr hm]
      exact key.mp hxj
    · have hmem : pivotOther xj repr r ∈ (s.rows.filter (fun r => r.1 != xi)).map (pivotOther xj repr) ++ [(xj, repr)] := by
        apply List.mem_append_left
        exact List.mem_map.mpr ⟨r, List.mem_filter.mpr ⟨hr, by simpa using hri⟩, rfl⟩
      have := hnew _ hmem
      rw [pivotOther_fst, evalJ_pivotOther xj repr r v (hwf.distinct r hr), ← hxj] at this
      simpa using this
  · intro hold r hr
    have hxj : v xj = evalJ repr v := key.mpr (hold (xi, jars) hm)
    rcases List.mem_append.mp hr with hr | hr
    · obtain ⟨r0, hr0, rfl⟩ := List.mem_map.mp hr
      have hr0' := (List.mem_filter.mp hr0).1
      rw [pivotOther_fst, evalJ_pivotOther xj repr r0 v (hwf.distinct r0 hr0'), ← hxj]
      simpa using hold r0 hr0'
    · simp only [List.mem_singleton] at hr
      subst hr
      exact hxj

end Holpy.C16.Simplex
