import Holpy.C16.SimplexAssert
/-
C16 — `assert_lower` of the simplex model (mirror image of `assert_upper`).
-/
namespace Holpy.C16.Simplex

def cAboveHi (s : SState) (x : Var) (c : ℚ) : Bool := match s.hi x with | some u => decide (u < c) | none => false
def cAboveLo (s : SState) (x : Var) (c : ℚ) : Bool := match s.lo x with | some l => decide (l < c) | none => true

theorem assertLower_eq (s : SState) (x : Var) (c : ℚ) : assertLower s x c =
    if cAboveHi s x c then .conflict
    else if cAboveLo s x c then
      (if !isBasic s x && decide (s.mapping x < c) then .ok (update { s with lo := setQ s.lo x (some c) } x c)
       else .ok { s with lo := setQ s.lo x (some c) })
    else .ok s := rfl

theorem assertLower_ok (s s' : SState) (x : Var) (c : ℚ) (hinv : Inv s) (h : assertLower s x c = .ok s') :
    Inv s' ∧ s'.rows = s.rows ∧ ∀ w : Var → ℚ, (∀ y, InB s' w y) ↔ ((∀ y, InB s w y) ∧ c ≤ w x) := by
  rw [assertLower_eq] at h
  by_cases hcl : cAboveHi s x c = true
  · simp only [hcl, if_true] at h; cases h
  · have hnl := hcl
    simp only [cAboveHi] at hnl
    simp only [hcl, Bool.false_eq_true, if_false] at h
    by_cases hcu0 : cAboveLo s x c = true
    · have hcu := hcu0
      simp only [cAboveLo] at hcu
      simp only [hcu0, if_true] at h
      have hlc : ∀ u, s.hi x = some u → c ≤ u := by
        intro u hu; rw [hu] at hnl; simpa using hnl
      have hbounds : ∀ w : Var → ℚ, (∀ y, InB { s with lo := setQ s.lo x (some c) } w y) ↔ ((∀ y, InB s w y) ∧ c ≤ w x) := by
        intro w
        constructor
        · intro hw
          refine ⟨fun y => ?_, ?_⟩
          · by_cases hy : y = x
            · subst hy
              refine ⟨?_, (hw y).2⟩
              intro l hl
              have h1 : c ≤ w y := (hw y).1 c (by simp [setQ])
              rw [hl] at hcu
              have : l < c := by simpa using hcu
              linarith
            · have := hw y
              simpa [InB, setQ, hy] using this
          · exact (hw x).1 c (by simp [setQ])
        · rintro ⟨hw, hxc⟩ y
          by_cases hy : y = x
          · subst hy
            refine ⟨?_, (hw y).2⟩
            intro l hl
            simp [setQ] at hl; rw [← hl]; exact hxc
          · have := hw y
            simpa [InB, setQ, hy] using this
      have hbnd : ∀ y l u, setQ s.lo x (some c) y = some l → s.hi y = some u → l ≤ u := by
        intro y l u hl hu
        by_cases hy : y = x
        · subst hy; simp [setQ] at hl; rw [← hl]; exact hlc u hu
        · simp [setQ, hy] at hl; exact hinv.bnd y l u hl hu
      split at h
      · rename_i hmove
        cases h
        simp only [Bool.and_eq_true, Bool.not_eq_true', decide_eq_true_eq] at hmove
        have hxnb : isBasic s x = false := hmove.1
        set s1 : SState := { s with lo := setQ s.lo x (some c) } with hs1
        have hwf1 : WF s1 := ⟨hinv.wf.heads, hinv.wf.distinct, hinv.wf.nonbasic⟩
        obtain ⟨hr1, hr2⟩ := update_rowsHold s1 x c hwf1 hxnb hinv.rows
        refine ⟨⟨⟨hinv.wf.heads, hinv.wf.distinct, hinv.wf.nonbasic⟩, hr2, ?_, hbnd⟩, rfl, hbounds⟩
        intro y hy
        have hy' : isBasic s y = false := hy
        by_cases hyx : y = x
        · subst hyx
          have : (update s1 y c).mapping y = c := by simp [update, setQ]
          refine ⟨fun l hl => ?_, fun u hu => ?_⟩
          · rw [this]; have : l = c := by simpa [update, hs1, setQ] using hl.symm
            rw [this]
          · rw [this]; exact hlc u hu
        · have hm : (update s1 x c).mapping y = s.mapping y := by
            have : isBasic s1 y = false := hy'
            simp only [update, setQ, if_neg hyx, this]
            simp [hs1]
          have := hinv.nb y hy'
          refine ⟨fun l hl => ?_, fun u hu => ?_⟩
          · rw [hm]; have hl' : s.lo y = some l := by simpa [update, hs1, setQ, hyx] using hl
            exact this.1 l hl'
          · rw [hm]; exact this.2 u hu
      · rename_i hstay
        cases h
        refine ⟨⟨⟨hinv.wf.heads, hinv.wf.distinct, hinv.wf.nonbasic⟩, hinv.rows, ?_, hbnd⟩, rfl, hbounds⟩
        intro y hy
        have hy' : isBasic s y = false := hy
        have := hinv.nb y hy'
        by_cases hyx : y = x
        · subst hyx
          refine ⟨fun l hl => ?_, this.2⟩
          have : l = c := by simpa [setQ] using hl.symm
          rw [this]
          simp only [Bool.and_eq_true, Bool.not_eq_true', decide_eq_true_eq, not_and, not_lt] at hstay
          exact hstay hy'
        · refine ⟨fun l hl => ?_, this.2⟩
          have hl' : s.lo y = some l := by simpa [setQ, hyx] using hl
          exact this.1 l hl'
    · have hncu := hcu0
      simp only [cAboveLo] at hncu
      simp only [hcu0, Bool.false_eq_true, if_false] at h
      cases h
      refine ⟨hinv, rfl, fun w => ⟨fun hw => ⟨hw, ?_⟩, fun hw => hw.1⟩⟩
      cases hl : s.lo x with
      | none => simp [hl] at hncu
      | some l =>
        simp only [hl, decide_eq_true_eq, not_lt] at hncu
        exact le_trans hncu ((hw x).1 l hl)

theorem assertLower_conflict (s : SState) (x : Var) (c : ℚ) (h : assertLower s x c = .conflict) :
    ¬ ∃ w : Var → ℚ, (∀ y, InB s w y) ∧ c ≤ w x := by
  rw [assertLower_eq] at h
  by_cases hcl0 : cAboveHi s x c = true
  · have hcl := hcl0
    simp only [cAboveHi] at hcl
    rintro ⟨w, hw, hxc⟩
    cases hu : s.hi x with
    | none => simp [hu] at hcl
    | some u =>
      simp only [hu, decide_eq_true_eq] at hcl
      have := (hw x).2 u hu
      linarith
  · simp only [hcl0, Bool.false_eq_true, if_false] at h
    split at h
    · split at h <;> cases h
    · cases h

end Holpy.C16.Simplex
