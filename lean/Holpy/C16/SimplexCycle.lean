import Holpy.C16.SimplexBlandCore
/-
C16 — bookkeeping for the no-repeat argument: the full data of one repair step, a segment of a run as
a sequence of states, and how basis membership and the values of non-basic variables evolve along it.
-/
namespace Holpy.C16.Simplex

/-- everything one repair step does: leaving variable `xi` (smallest violated basic variable),
entering variable `j.1` (first suitable jar of the sorted row), new basis, values -/
theorem step_data (s s' : SState) (hinv : Inv s) (h : step s = .next s') :
    ∃ xi jars j v, (xi, jars) ∈ s.rows ∧ pickViolated s = some xi ∧ isBasic s xi = true ∧ isBasic s j.1 = false ∧
      (∀ x, isBasic s' x = true ↔ ((isBasic s x = true ∧ x ≠ xi) ∨ x = j.1)) ∧
      s'.mapping xi = v ∧
      (∀ y, y ≠ xi → y ≠ j.1 → isBasic s y = false → s'.mapping y = s.mapping y) ∧
      ((ltLo s xi = true ∧ s.lo xi = some v ∧
          (reducePairs jars).find? (fun j => (decide (j.2 > 0) && belowHi s j.1) || (decide (j.2 < 0) && aboveLo s j.1)) = some j) ∨
       (ltLo s xi = false ∧ gtHi s xi = true ∧ s.hi xi = some v ∧
          (reducePairs jars).find? (fun j => (decide (j.2 < 0) && belowHi s j.1) || (decide (j.2 > 0) && aboveLo s j.1)) = some j)) := by
  have key : ∀ (xi : Var) (jars : Jars) (j : Var × ℚ) (v : ℚ), (xi, jars) ∈ s.rows → j ∈ reducePairs jars → j.2 ≠ 0 →
      s' = pivotAndUpdate s xi j.1 v →
      isBasic s xi = true ∧ isBasic s j.1 = false ∧
      (∀ x, isBasic s' x = true ↔ ((isBasic s x = true ∧ x ≠ xi) ∨ x = j.1)) ∧
      s'.mapping xi = v ∧
      (∀ y, y ≠ xi → y ≠ j.1 → isBasic s y = false → s'.mapping y = s.mapping y) := by
    intro xi jars j v hm hj hjc hs'
    have hd := hinv.wf.distinct _ hm
    have hc : coeffOf j.1 jars ≠ 0 := by rw [mem_reducePairs_coeff jars hd j hj]; exact hjc
    have hxj := mem_varsOf_of_coeff_ne j.1 jars hc
    subst hs'
    refine ⟨(isBasic_iff s xi).mpr (List.mem_map.mpr ⟨_, hm, rfl⟩), hinv.wf.nonbasic _ hm j.1 hxj, ?_, ?_, ?_⟩
    · intro x
      have hrows : (pivotAndUpdate s xi j.1 v).rows = (pivot s xi j.1).rows := by
        unfold pivotAndUpdate; simp [pivot, rowOf]
      have : isBasic (pivotAndUpdate s xi j.1 v) x = isBasic (pivot s xi j.1) x := by simp [isBasic, hrows]
      rw [this]
      exact isBasic_pivot s xi j.1 jars hinv.wf.heads hm x
    · simp [pivotAndUpdate, pivot]
    · intro y h1 h2 h3
      simp [pivotAndUpdate, pivot, h1, h2, h3]
  unfold step at h
  split at h
  · cases h
  · rename_i xi hpick
    obtain ⟨⟨jars, hm⟩, hviol⟩ := pickViolated_some s xi hpick
    have hrow : (rowOf s xi).getD [] = jars := by rw [rowOf_of_mem s hinv.wf.heads xi jars hm]; rfl
    simp only [hrow] at h
    split at h
    · rename_i hlt
      split at h
      · rename_i j hfind
        cases h
        have hj := List.mem_of_find?_eq_some hfind
        have hp := List.find?_some hfind
        have hjc : j.2 ≠ 0 := by
          simp only [Bool.or_eq_true, Bool.and_eq_true, decide_eq_true_eq] at hp
          rcases hp with ⟨h1, _⟩ | ⟨h1, _⟩
          · exact ne_of_gt h1
          · exact ne_of_lt h1
        obtain ⟨l, hl⟩ : ∃ l, s.lo xi = some l := by
          cases hl : s.lo xi with
          | none => simp [ltLo, hl] at hlt
          | some l => exact ⟨l, rfl⟩
        obtain ⟨k1, k2, k3, k4, k5⟩ := key xi jars j l hm hj hjc (by simp [hl])
        exact ⟨xi, jars, j, l, hm, hpick, k1, k2, k3, k4, k5, Or.inl ⟨hlt, hl, hfind⟩⟩
      · cases h
    · rename_i hnlt
      have hlf : ltLo s xi = false := by simpa using hnlt
      have hgt : gtHi s xi = true := by rw [hlf] at hviol; simpa using hviol
      split at h
      · rename_i j hfind
        cases h
        have hj := List.mem_of_find?_eq_some hfind
        have hp := List.find?_some hfind
        have hjc : j.2 ≠ 0 := by
          simp only [Bool.or_eq_true, Bool.and_eq_true, decide_eq_true_eq] at hp
          rcases hp with ⟨h1, _⟩ | ⟨h1, _⟩
          · exact ne_of_lt h1
          · exact ne_of_gt h1
        obtain ⟨u, hu⟩ : ∃ u, s.hi xi = some u := by
          cases hu : s.hi xi with
          | none => simp [gtHi, hu] at hgt
          | some u => exact ⟨u, rfl⟩
        obtain ⟨k1, k2, k3, k4, k5⟩ := key xi jars j u hm hj hjc (by simp [hu])
        exact ⟨xi, jars, j, u, hm, hpick, k1, k2, k3, k4, k5, Or.inr ⟨hlf, hgt, hu, hfind⟩⟩
      · cases h

/-- a segment `S i, …, S j` of a run of `check`: consecutive states are related by `step`, all satisfy the
invariant and share bounds and row solutions -/
structure Seg (S : Nat → SState) (i j : Nat) : Prop where
  step : ∀ k, i ≤ k → k < j → step (S k) = .next (S (k + 1))
  inv : ∀ k, i ≤ k → k ≤ j → Inv (S k)
  lo : ∀ k, i ≤ k → k ≤ j → (S k).lo = (S i).lo
  hi : ∀ k, i ≤ k → k ≤ j → (S k).hi = (S i).hi
  rows : ∀ k, i ≤ k → k ≤ j → ∀ w, RowsHold (S k).rows w ↔ RowsHold (S i).rows w

def LeavesAt (S : Nat → SState) (k : Nat) (x : Var) : Prop := isBasic (S k) x = true ∧ isBasic (S (k + 1)) x = false
def EntersAt (S : Nat → SState) (k : Nat) (x : Var) : Prop := isBasic (S k) x = false ∧ isBasic (S (k + 1)) x = true

theorem stays_nonbasic (S : Nat → SState) (x : Var) (m n : Nat) (hmn : m ≤ n)
    (hno : ∀ k, m ≤ k → k < n → ¬ EntersAt S k x) (h : isBasic (S m) x = false) : isBasic (S n) x = false := by
  induction n, hmn using Nat.le_induction with
  | base => exact h
  | succ n hmn ih =>
    have ih' := ih (fun k h1 h2 => hno k h1 (by omega))
    cases hb : isBasic (S (n + 1)) x with
    | false => rfl
    | true => exact absurd ⟨ih', hb⟩ (hno n hmn (by omega))

theorem stays_basic (S : Nat → SState) (x : Var) (m n : Nat) (hmn : m ≤ n)
    (hno : ∀ k, m ≤ k → k < n → ¬ LeavesAt S k x) (h : isBasic (S m) x = true) : isBasic (S n) x = true := by
  induction n, hmn using Nat.le_induction with
  | base => exact h
  | succ n hmn ih =>
    have ih' := ih (fun k h1 h2 => hno k h1 (by omega))
    cases hb : isBasic (S (n + 1)) x with
    | true => rfl
    | false => exact absurd ⟨ih', hb⟩ (hno n hmn (by omega))

/-- a variable that is non-basic throughout `[m, n]` keeps its value -/
theorem value_const (S : Nat → SState) (i j : Nat) (hseg : Seg S i j) (x : Var) (m n : Nat) (him : i ≤ m) (hmn : m ≤ n)
    (hnj : n ≤ j) (hnb : ∀ k, m ≤ k → k ≤ n → isBasic (S k) x = false) : (S n).mapping x = (S m).mapping x := by
  induction n, hmn using Nat.le_induction with
  | base => rfl
  | succ n hmn ih =>
    have ih' := ih (by omega) (fun k h1 h2 => hnb k h1 (by omega))
    obtain ⟨xi, jars, jq, v, _, _, hbi, _, hiff, _, hval, _⟩ :=
      step_data (S n) (S (n + 1)) (hseg.inv n (by omega) (by omega)) (hseg.step n (by omega) (by omega))
    have h1 : isBasic (S n) x = false := hnb n hmn (by omega)
    have h2 : isBasic (S (n + 1)) x = false := hnb (n + 1) (by omega) (by omega)
    have hne1 : x ≠ xi := fun e => by rw [e, hbi] at h1; cases h1
    have hne2 : x ≠ jq.1 := fun e => by
      have := (hiff x).mpr (Or.inr e); rw [h2] at this; cases this
    rw [hval x hne1 hne2 h1, ih']

/-- what leaves at step `k` is the chosen violated variable; what enters is the chosen jar -/
theorem seg_step (S : Nat → SState) (i j : Nat) (hseg : Seg S i j) (k : Nat) (hik : i ≤ k) (hkj : k < j) :
    ∃ xi jars jq v, (xi, jars) ∈ (S k).rows ∧ pickViolated (S k) = some xi ∧ LeavesAt S k xi ∧ EntersAt S k jq.1 ∧
      (∀ x, LeavesAt S k x → x = xi) ∧ (∀ x, EntersAt S k x → x = jq.1) ∧
      (S (k + 1)).mapping xi = v ∧
      ((ltLo (S k) xi = true ∧ (S k).lo xi = some v ∧
          (reducePairs jars).find? (fun j => (decide (j.2 > 0) && belowHi (S k) j.1) || (decide (j.2 < 0) && aboveLo (S k) j.1)) = some jq) ∨
       (ltLo (S k) xi = false ∧ gtHi (S k) xi = true ∧ (S k).hi xi = some v ∧
          (reducePairs jars).find? (fun j => (decide (j.2 < 0) && belowHi (S k) j.1) || (decide (j.2 > 0) && aboveLo (S k) j.1)) = some jq)) := by
  obtain ⟨xi, jars, jq, v, hm, hp, hbi, hbj, hiff, hv, _, hsel⟩ :=
    step_data (S k) (S (k + 1)) (hseg.inv k hik (by omega)) (hseg.step k hik hkj)
  have hne : xi ≠ jq.1 := fun e => by rw [e, hbj] at hbi; cases hbi
  refine ⟨xi, jars, jq, v, hm, hp, ⟨hbi, ?_⟩, ⟨hbj, (hiff _).mpr (Or.inr rfl)⟩, ?_, ?_, hv, hsel⟩
  · cases hb : isBasic (S (k + 1)) xi with
    | false => rfl
    | true =>
      rcases (hiff xi).mp hb with ⟨_, h2⟩ | h2
      · exact absurd rfl h2
      · exact absurd h2 hne
  · intro x ⟨h1, h2⟩
    by_contra hx
    have := (hiff x).mpr (Or.inl ⟨h1, hx⟩)
    rw [h2] at this; cases this
  · intro x ⟨h1, h2⟩
    rcases (hiff x).mp h2 with ⟨h3, _⟩ | h3
    · rw [h1] at h3; cases h3
    · exact h3

end Holpy.C16.Simplex
