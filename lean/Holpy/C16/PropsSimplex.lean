import Holpy.C16.SimplexModel
import Holpy.C16.SimplexInv
import Holpy.C16.SimplexCheck3
import Holpy.C16.SimplexHandle
import Holpy.C16.SimplexRun
import Holpy.C16.SimplexFuel
import Holpy.C16.SimplexTermination
import Holpy.C16.SimplexTrajectory
import Holpy.C16.SimplexBland
import Holpy.C16.SimplexCycle3
import Holpy.C16.SimplexBBProofs
/-
C16 — property theorems about the model of `prover/simplex.py` (`Simplex`).  The model
(`SimplexModel.lean`) is tied to the code by the step-by-step correspondence stream of
harness/props/c16.py (same assertion sequences, verdict / mapping / basic set compared after every
`check()`).  `RowsHold rows v`: `v` satisfies every row equation `b = Σ cⱼ·xⱼ` of the tableau.
`WF s`: one row per basic variable, no variable twice in a row, rows mention non-basic variables only.
-/
namespace Holpy.C16
open Holpy.C16.Simplex

/-- `Simplex.pivot(xi, xj)` (pivot coefficient ≠ 0) does not change the solution set of the row equations. -/
theorem pivot_preserves_rows (s : SState) (xi xj : Var) (jars : Jars) (hwf : WF s) (hm : (xi, jars) ∈ s.rows)
    (ha : coeffOf xj jars ≠ 0) (v : Var → ℚ) :
    RowsHold (pivot s xi xj).rows v ↔ RowsHold s.rows v :=
  pivot_rows_iff s xi xj jars hwf hm ha v

/-- `Simplex.pivot` keeps the tableau well-formed (so the next pivot is covered again). -/
theorem pivot_preserves_wf (s : SState) (xi xj : Var) (jars : Jars) (hwf : WF s) (hm : (xi, jars) ∈ s.rows)
    (hxj : xj ∈ varsOf jars) : WF (pivot s xi xj) :=
  pivot_WF s xi xj jars hwf hm hxj

/-- `Simplex.update(x, c)` on a non-basic `x` leaves the rows alone and `mapping` still satisfies them. -/
theorem update_preserves_rows (s : SState) (x : Var) (c : ℚ) (hwf : WF s) (hx : isBasic s x = false)
    (h : RowsHold s.rows s.mapping) :
    (update s x c).rows = s.rows ∧ RowsHold (update s x c).rows (update s x c).mapping :=
  update_rowsHold s x c hwf hx h

/-- After `Simplex.pivotAndUpdate(xi, xj, v)` the new `mapping` satisfies the new row equations. -/
theorem pivotAndUpdate_preserves_rows (s : SState) (xi xj : Var) (jars : Jars) (v : ℚ) (hwf : WF s)
    (hm : (xi, jars) ∈ s.rows) (ha : coeffOf xj jars ≠ 0) (h : RowsHold s.rows s.mapping) :
    RowsHold (pivotAndUpdate s xi xj v).rows (pivotAndUpdate s xi xj v).mapping :=
  pivotAndUpdate_rowsHold s xi xj jars v hwf hm ha h

/-- the tableau of `x0 + 2·x1 ⋈ …` and `x0 - x1 ⋈ …` right after `add_ineqs` (non-vacuity of the hypotheses) -/
def exampleState : SState :=
  { emptyState with rows := [(0, [(100, 1), (101, 2)]), (1, [(100, 1), (101, -1)])], vars := [100, 101, 0, 1], index := 2 }

example : WF exampleState ∧ (0, [(100, 1), (101, 2)]) ∈ exampleState.rows ∧ coeffOf 101 [(100, (1 : ℚ)), (101, 2)] ≠ 0 ∧
    RowsHold exampleState.rows exampleState.mapping ∧ isBasic exampleState 100 = false := by
  refine ⟨⟨by decide, ?_, ?_⟩, by simp [exampleState], by simp [coeffOf], ?_, by decide⟩
  · intro r hr; simp [exampleState] at hr; rcases hr with rfl | rfl <;> simp [DistinctVars, varsOf]
  · intro r hr x hx; simp [exampleState] at hr; rcases hr with rfl | rfl <;> simp [varsOf] at hx <;> rcases hx with rfl | rfl <;> decide
  · intro r hr; simp [exampleState] at hr; rcases hr with rfl | rfl <;> simp [exampleState, emptyState, evalJ]

/-- `Simplex.check()` answering SAT (any fuel): the tableau has the same solutions as before, and
`mapping` satisfies every row equation and puts every variable within its bounds.
(`Inv s`: well-formed tableau, `mapping` satisfies the rows, non-basic variables within their bounds,
lower ≤ upper bounds — established by `add_ineqs` and kept by `assert_upper/lower`.) -/
theorem check_sat_sound (fuel : Nat) (s s' : SState) (hinv : Inv s) (h : check fuel s = (.sat, s')) :
    RowsHold s'.rows s'.mapping ∧ (∀ x, InB s' s'.mapping x) ∧ (∀ w, RowsHold s'.rows w ↔ RowsHold s.rows w) ∧
      s'.lo = s.lo ∧ s'.hi = s.hi := by
  obtain ⟨i, l, u, r, hs, _⟩ := check_spec fuel s s' .sat hinv h
  exact ⟨i.rows, hs rfl, r, l, u⟩

/-- `Simplex.check()` answering UNSAT with `wrong_var = xi` (any fuel): the row equations together
with the bounds have no rational solution — in the state it stopped in (the row of `xi` and the bounds
of its variables are the Farkas-style explanation) and therefore in the state it started from.
Stated for every fuel; that the answer `fuel` does not occur with fuel > `confBound s` is `check_terminates_bland`. -/
theorem check_unsat_sound (fuel : Nat) (s s' : SState) (xi : Var) (hinv : Inv s) (h : check fuel s = (.unsat xi, s')) :
    ¬ ∃ w : Var → ℚ, RowsHold s.rows w ∧ ∀ x, InB s w x := by
  obtain ⟨_, l, u, r, _, hu⟩ := check_spec fuel s s' (.unsat xi) hinv h
  rintro ⟨w, hw, hb⟩
  exact hu xi rfl ⟨w, (r w).mpr hw, fun x => (InB_congr s s' l u w x).mpr (hb x)⟩

/-- `x0 + 2·x1 = s0 ≥ 1`, `x0 - x1 = s1`: `check` has to pivot (non-vacuity: the hypotheses hold and both verdicts occur) -/
def exampleSat : SState := { exampleState with lo := setQ (fun _ => none) 0 (some 1) }
def exampleUnsat : SState :=
  { exampleState with lo := setQ (fun _ => none) 0 (some 1), hi := setQ (setQ (fun _ => none) 100 (some 0)) 101 (some 0) }

example : (check 5 exampleSat).1 == .sat ∧ (check 5 exampleUnsat).1 == .unsat 0 := by decide

private theorem exampleState_wf : WF exampleState := by
  refine ⟨by decide, ?_, ?_⟩
  · intro r hr; simp [exampleState] at hr; rcases hr with rfl | rfl <;> simp [DistinctVars, varsOf]
  · intro r hr x hx; simp [exampleState] at hr; rcases hr with rfl | rfl <;> simp [varsOf] at hx <;> rcases hx with rfl | rfl <;> decide

private theorem exampleSat_inv : Inv exampleSat := by
  refine ⟨⟨exampleState_wf.heads, exampleState_wf.distinct, exampleState_wf.nonbasic⟩, ?_, ?_, ?_⟩
  · intro r hr; simp [exampleSat, exampleState] at hr; rcases hr with rfl | rfl <;> simp [exampleSat, exampleState, emptyState, evalJ]
  · intro x hx
    have hx0 : x ≠ 0 := by rintro rfl; revert hx; decide
    simp [InB, exampleSat, exampleState, emptyState, setQ, hx0]
  · intro x l u hl hu; simp [exampleSat, exampleState, emptyState] at hu

example : Inv exampleSat := exampleSat_inv

/-- `Simplex.handle_assertion()` running through all atoms (every `check()` answered SAT): the final
`mapping` satisfies the row equations, every bound, hence every asserted atom `x ≥ c` / `x ≤ c`;
the rows still have the solutions of the initial tableau. -/
theorem handle_assertion_sat_sound (fuel : Nat) (s s' : SState) (atoms : List Atom) (k : Nat) (tr tr' : List SState)
    (hinv : Inv s) (hall : ∀ x, InB s s.mapping x) (h : handleAssertion fuel s atoms k tr = (.sat s', tr')) :
    RowsHold s'.rows s'.mapping ∧ (∀ w, RowsHold s'.rows w ↔ RowsHold s.rows w) ∧
      (∀ x, InB s s'.mapping x) ∧ ∀ a ∈ atoms, AtomHolds a s'.mapping := by
  obtain ⟨i, r, hb, hiff⟩ := handle_spec fuel atoms s k tr _ tr' hinv hall h
  have := (hiff s'.mapping).mp hb
  exact ⟨i.rows, r, this.1, this.2⟩

/-- `Simplex.handle_assertion()` raising `UNSATException` (a `check()` answered UNSAT) or
`AssertUpper/LowerException`: no rational assignment satisfies the row equations of the initial
tableau, the bounds present at the start and the asserted atoms.  Stated for every fuel; every
`check()` inside terminates (`check_terminates_bland`), so with enough fuel the outcome `fuel` does not occur. -/
theorem handle_assertion_unsat_sound (fuel : Nat) (s : SState) (atoms : List Atom) (k : Nat) (tr tr' : List SState)
    (o : Outcome) (hinv : Inv s) (hall : ∀ x, InB s s.mapping x) (h : handleAssertion fuel s atoms k tr = (o, tr'))
    (ho : (∃ xi s', o = .unsat xi s') ∨ (∃ j s', o = .conflict j s')) :
    ¬ ∃ w : Var → ℚ, RowsHold s.rows w ∧ (∀ y, InB s w y) ∧ ∀ a ∈ atoms, AtomHolds a w := by
  have := handle_spec fuel atoms s k tr o tr' hinv hall h
  rcases ho with ⟨xi, s', rfl⟩ | ⟨j, s', rfl⟩ <;> exact this

def outcomeTag : Outcome → Nat
  | .sat _ => 0
  | .unsat _ _ => 1
  | .conflict _ _ => 2
  | .fuel _ => 3

-- s0 ≥ 1 on the example tableau is satisfiable; with x0 ≤ 0, x1 ≤ 0 asserted first it is not (a check() answers UNSAT);
-- x0 ≥ 1 then x0 ≤ 0 is refused by assert_upper
example : outcomeTag (handleAssertion 9 exampleState [.geq 0 1] 0 []).1 = 0 ∧
    outcomeTag (handleAssertion 9 exampleState [.leq 100 0, .leq 101 0, .geq 0 1] 0 []).1 = 1 ∧
    outcomeTag (handleAssertion 9 exampleState [.geq 100 1, .leq 100 0] 0 []).1 = 2 := by decide

/-- A whole run `s = Simplex(); s.add_ineqs(*qs); s.handle_assertion()` that ends without exception:
`s.mapping` satisfies every given constraint `Σ cⱼ·xⱼ ≥ b` / `≤ b` — except constraints of the form
`0·x ⋈ b`, which `add_ineq` silently ignores (the hypothesis excludes them; they are not generated by
holpy's own callers).  `InputOK N qs`: each constraint mentions a variable at most once and problem
variables are numbered from `N ≥ len(qs)` upwards (the harness uses `100 + i`). -/
theorem simplex_sat_sound (N fuel : Nat) (qs : List Ineq) (hin : InputOK N qs) (s' : SState) (tr : List SState)
    (h : run fuel qs = (.sat s', tr)) :
    ∀ q ∈ qs, (∀ x, q.jars ≠ [(x, 0)]) → IneqHolds q s'.mapping :=
  run_sat N fuel qs hin s' tr h

/-- A whole run that ends in `UNSATException` (some `check()` answered UNSAT) or in an
`AssertUpper/LowerException`: the given constraints have no rational solution.  Stated for every
fuel; every `check()` of the run terminates (`check_terminates_bland`). -/
theorem simplex_unsat_sound (N fuel : Nat) (qs : List Ineq) (hin : InputOK N qs) (o : Outcome) (tr : List SState)
    (h : run fuel qs = (o, tr)) (ho : (∃ xi s', o = .unsat xi s') ∨ (∃ j s', o = .conflict j s')) :
    ¬ ∃ w : Var → ℚ, ∀ q ∈ qs, IneqHolds q w :=
  run_unsat N fuel qs hin o tr h ho

-- x + y ≥ 1, x ≤ 0, 2·y ≤ 1 (unsatisfiable: a check() answers UNSAT);  2·x ≥ 1, 2·x ≤ 1 (satisfiable with x = 1/2);
-- x ≥ 3, x ≤ 2 (refused by assert_upper)
def exUnsat : List Ineq := [⟨.ge, [(100, 1), (101, 1)], 1⟩, ⟨.le, [(100, 1)], 0⟩, ⟨.le, [(101, 2)], 1⟩]
def exSat : List Ineq := [⟨.ge, [(100, 2)], 1⟩, ⟨.le, [(100, 2)], 1⟩]
def exConflict : List Ineq := [⟨.ge, [(100, 1)], 3⟩, ⟨.le, [(100, 1)], 2⟩]

example : outcomeTag (run 20 exUnsat).1 = 1 ∧ outcomeTag (run 20 exSat).1 = 0 ∧ outcomeTag (run 20 exConflict).1 = 2 := by decide +kernel

example : InputOK 100 exUnsat ∧ InputOK 100 exSat ∧ InputOK 100 exConflict := by
  refine ⟨⟨by decide, ?_⟩, ⟨by decide, ?_⟩, ⟨by decide, ?_⟩⟩ <;>
  · intro q hq
    simp [exUnsat, exSat, exConflict] at hq
    rcases hq with rfl | rfl | rfl <;> simp [DistinctVars, varsOf]

/-- The two children of a `branch_and_bound` node, `x ≤ ⌊v⌋` and `x ≥ ⌈v⌉`, cover every integer value of `x`. -/
theorem branch_covers_integers (z : Int) (v : ℚ) : z ≤ floorQ v ∨ ceilQ v ≤ z :=
  branch_covers z v

/-- `branch_and_bound` returning a mapping (any fuel, any node budget, whatever variables
`find_not_int_var` picked): the mapping satisfies every original constraint (except the ignored form
`0·x ⋈ b`) and gives every input variable an integer value. -/
theorem bb_sat_sound (N fuel budget : Nat) (qs : List Ineq) (picks : List Var) (hin : InputOK N qs) (s : SState) (n : Nat)
    (h : branchAndBound fuel budget qs picks = (.found s, n)) :
    (∀ q ∈ qs, (∀ x, q.jars ≠ [(x, 0)]) → IneqHolds q s.mapping) ∧ ∀ x ∈ inputVars qs, (s.mapping x).den = 1 :=
  bbLoop_found N fuel qs budget [qs] picks 0 n s (by
    intro node hnode; simp only [List.mem_singleton] at hnode; subst hnode; exact ⟨hin, fun q hq => hq⟩) h

/-- `branch_and_bound` ending with an empty queue ("no integer solution", it returns the tree): the
constraints have no integer solution.  PARTIAL: only for runs of the model that end this way, i.e.
no node's `check()` ran out of fuel and the node budget was not exhausted (the Python loop has no
budget and need not terminate); and the bare `except:` is modelled as "UNSATException /
AssertUpper/LowerException close the node" — any other exception inside a node (none occurs in the
generated systems; the harness counts them) would also close it in the Python and is not covered. -/
theorem bb_unsat_sound_partial (N fuel budget : Nat) (qs : List Ineq) (picks : List Var) (hin : InputOK N qs) (n : Nat)
    (h : branchAndBound fuel budget qs picks = (.none, n)) :
    ¬ ∃ w : Var → ℚ, (∀ x, ∃ z : Int, w x = (z : ℚ)) ∧ ∀ q ∈ qs, IneqHolds q w :=
  bbLoop_none N fuel budget [qs] picks 0 n (by
    intro node hnode; simp only [List.mem_singleton] at hnode; subst hnode; exact hin) h qs (List.mem_singleton.mpr rfl)

def bbTag : BBResult → Nat
  | .found _ => 0
  | .none => 1
  | .gaveUp => 2
  | .fuel => 3
  | .badPick => 4

-- 1 ≤ 2x ≤ 3 has the integer solution x = 1 (found after one branching); 2x = 1 has none (both children closed)
example : bbTag (branchAndBound 20 10 [⟨.ge, [(100, 2)], 1⟩, ⟨.le, [(100, 2)], 3⟩] [100]).1 = 0 ∧
    bbTag (branchAndBound 20 10 [⟨.ge, [(100, 2)], 1⟩, ⟨.le, [(100, 2)], 1⟩] [100]).1 = 1 := by decide +kernel

/-- The answer of `Simplex.check()` in the model does not depend on the fuel once it is not `fuel`:
so "check terminates on `s`" means exactly `∃ n, (check n s).1 ≠ .fuel`, and then every larger fuel
gives the same verdict and state.  That such an `n` exists for every state with the tableau invariant
(termination under Bland's rule, fix C16-5) is `check_terminates_bland` below. -/
theorem check_fuel_independent (n k : Nat) (s : SState) (h : (check n s).1 ≠ .fuel) : check (n + k) s = check n s :=
  check_fuel_mono n k s h

example : (check 5 exampleSat).1 ≠ .fuel := by
  intro h; have : ((check 5 exampleSat).1 == Verdict.fuel) = false := by decide
  rw [h] at this; exact absurd this (by decide)

/-- `check()` is the iteration of one explicit repair step `step` (pick the smallest violated basic
variable, pivot with the smallest suitable non-basic one): `check (n+1)` does one step and continues with fuel `n`. -/
theorem check_unfolds_step (n : Nat) (s : SState) : check (n + 1) s =
    match step s with
    | .sat => (.sat, s)
    | .unsat xi => (.unsat xi, s)
    | .next s' => check n s' :=
  check_succ n s

/-- **No repeat ⇒ terminates.**  The configuration of a state says, for every variable of the tableau,
whether it is basic or at which bound it sits (`code`: basic / on its lower bound / on its upper bound /
elsewhere); there are at most `confBound s = 4 ^ #variable-occurrences` of them.  If no configuration
occurs twice along the run of `check` from `s`, then `check` answers within `confBound s + 1` steps. -/
theorem check_terminates_of_no_repeat (s : SState) (h : NoRepeat s) : (check (confBound s + 1) s).1 ≠ .fuel :=
  check_terminates_of_no_repeat_aux s h

/-- **Bland's rule does not cycle** (fix C16-5, as modelled by `step`): along a run of `check()` from a
state that satisfies the tableau invariant no configuration occurs twice.  (Dutertre–de Moura's
argument: the largest variable that both enters and leaves the basis between two equal configurations
yields a sign contradiction between the row with which it enters and the state in which it leaves.) -/
theorem check_no_repeat_bland (s : SState) (hinv : Inv s) : NoRepeat s :=
  Simplex.bland_no_repeat s hinv

/-- **`check()` terminates** on every state satisfying the tableau invariant, within the explicit
bound `confBound s + 1` on the number of pivots, and every larger fuel gives the same answer: the
fuel of the model is immaterial.  No hypothesis is left. -/
theorem check_terminates_bland (s : SState) (hinv : Inv s) :
    (check (confBound s + 1) s).1 ≠ .fuel ∧ ∀ k, check (confBound s + 1 + k) s = check (confBound s + 1) s :=
  ⟨check_terminates_of_no_repeat s (check_no_repeat_bland s hinv),
    fun k => check_fuel_mono _ k s (check_terminates_of_no_repeat s (check_no_repeat_bland s hinv))⟩

/-- **Total correctness of `check()`**: from a state satisfying the tableau invariant, with any fuel
above `confBound s`, `check` answers SAT with a `mapping` that satisfies the rows and every bound
(tableau solutions and bounds unchanged), or UNSAT and rows + bounds have no rational solution. -/
theorem check_total_correct (s : SState) (hinv : Inv s) :
    ∃ vd s', (∀ k, check (confBound s + 1 + k) s = (vd, s')) ∧
      ((vd = .sat ∧ RowsHold s'.rows s'.mapping ∧ (∀ x, InB s' s'.mapping x) ∧
          (∀ w, RowsHold s'.rows w ↔ RowsHold s.rows w) ∧ s'.lo = s.lo ∧ s'.hi = s.hi) ∨
       (∃ xi, vd = .unsat xi ∧ ¬ ∃ w : Var → ℚ, RowsHold s.rows w ∧ ∀ x, InB s w x)) := by
  obtain ⟨hne, hk⟩ := check_terminates_bland s hinv
  generalize hr : check (confBound s + 1) s = r at hne hk
  obtain ⟨vd, s'⟩ := r
  refine ⟨vd, s', hk, ?_⟩
  cases vd with
  | sat => exact Or.inl ⟨rfl, check_sat_sound _ s s' hinv hr⟩
  | unsat xi => exact Or.inr ⟨xi, rfl, check_unsat_sound _ s s' xi hinv hr⟩
  | fuel => exact absurd rfl hne

example : Inv exampleSat ∧ Inv exampleUnsat := ⟨exampleSat_inv, by
  refine ⟨⟨exampleState_wf.heads, exampleState_wf.distinct, exampleState_wf.nonbasic⟩, ?_, ?_, ?_⟩
  · intro r hr; simp [exampleUnsat, exampleState] at hr; rcases hr with rfl | rfl <;> simp [exampleUnsat, exampleState, emptyState, evalJ]
  · intro x hx
    have hx0 : x ≠ 0 := by rintro rfl; revert hx; decide
    simp only [InB, exampleUnsat, exampleState, emptyState, setQ, hx0, if_false]
    constructor
    · intro l hl; cases hl
    · intro u hu; split at hu <;> (try split at hu) <;> simp_all
  · intro x l u hl hu
    simp only [exampleUnsat, setQ] at hl hu
    split at hl
    · subst_vars; simp at hu
    · cases hl⟩

-- on the example tableau with `s0 ≥ 1`: one repair step, then SAT; the two configurations differ, so `NoRepeat` holds
example : (traj exampleSat 1).isSome = true ∧ (traj exampleSat 2).isNone = true ∧ confBound exampleSat = 4 ^ 6 := by decide +kernel

example : NoRepeat exampleSat := by
  intro i j a b hij ha hb
  have h2 : traj exampleSat 2 = none := by
    have : (traj exampleSat 2).isNone = true := by decide +kernel
    simpa using this
  have hj : j < 2 := by
    by_contra hge
    rw [traj_none_of_le exampleSat 2 j (by omega) h2] at hb; cases hb
  have hi0 : i = 0 := by omega
  have hj1 : j = 1 := by omega
  subst hi0; subst hj1
  simp only [traj] at ha
  cases ha
  intro heq
  have h1 := congrFun heq ⟨0, by decide⟩
  have e : (allVars exampleSat).get ⟨0, by decide⟩ = 0 := by decide
  simp only [conf, e] at h1
  -- variable 0 (the slack) is basic before the step and non-basic after it
  have hc0 : code exampleSat 0 = 0 := by decide
  have : (traj exampleSat 1).map (fun t => decide (code t 0 = 0)) = some false := by decide +kernel
  rw [hb] at this
  simp only [Option.map_some, Option.some.injEq, decide_eq_false_iff_not] at this
  exact this (by rw [← h1]; exact hc0)

/-- Every state along a run of `check()` satisfies the tableau invariant and has the bounds and the
row solutions of the state the run started from (an ingredient of the no-repeat argument). -/
theorem traj_preserves_inv (k : Nat) (s a : SState) (hinv : Inv s) (h : traj s k = some a) :
    Inv a ∧ a.lo = s.lo ∧ a.hi = s.hi ∧ ∀ w, RowsHold a.rows w ↔ RowsHold s.rows w :=
  traj_preserves k s a hinv h

/-- One repair step of `check()`: the leaving variable was basic and is put on the bound it violated,
the entering variable was non-basic, and no other non-basic variable changes its value. -/
theorem step_changes_only_entering (s s' : SState) (hinv : Inv s) (h : step s = .next s') :
    ∃ xi xj v, isBasic s xi = true ∧ isBasic s xj = false ∧ s'.mapping xi = v ∧
      (s.lo xi = some v ∨ s.hi xi = some v) ∧
      ∀ y, y ≠ xi → y ≠ xj → isBasic s y = false → s'.mapping y = s.mapping y :=
  step_values s s' hinv h

/-- One repair step of `check()` always changes the configuration — the leaving variable is basic
before and non-basic after (the distance-one case of `check_no_repeat_bland`, kept as a lemma of its own). -/
theorem repair_step_changes_configuration (s s' : SState) (hinv : Inv s) (h : step s = .next s') :
    conf (allVars s) s ≠ conf (allVars s) s' :=
  step_changes_conf s s' hinv h

example : (match step exampleSat with | .next _ => true | _ => false) = true := by decide +kernel

/-- Bland's rule, leaving side, as modelled (fix C16-5): the variable `check()` repairs is the
smallest violated basic variable — every smaller basic variable is within its bounds.  (The entering
side is `find_sorted_min`: the first suitable element of the row sorted by variable.)  Ingredient of
the no-repeat argument. -/
theorem bland_leaving_is_smallest (s : SState) (xi : Var) (h : pickViolated s = some xi) :
    ∀ x, isBasic s x = true → x < xi → ltLo s x = false ∧ gtHi s x = false :=
  pickViolated_min s xi h

example : pickViolated exampleSat = some 0 := by decide +kernel

end Holpy.C16
