import Holpy.C16.SimplexModel
import Holpy.C16.SimplexInv
/-
C16 — property theorems about the model of `prover/simplex.py` (`Simplex`).  The model
(`SimplexModel.lean`) is tied to the code by the step-by-step correspondence stream of
harness/props/c16.py (same assertion sequences, verdict / mapping / basic set compared after every
`check()`).  `RowsHold rows v`: `v` satisfies every row equation `b = Σ cⱼ·xⱼ` of the tableau.
`WF s`: one row per basic variable, no variable twice in a row, rows mention non-basic variables only.
-/
namespace Holpy.C16
open Holpy.C16.Simplex

/-- `Simplex.pivot(xi, xj)` (pivot coefficient ≠ 0) does not change the solution set of the row equations. -/
theorem pivot_preserves_rows (s : SState) (xi xj : Var) (jars : Jars) (hwf : WF s) (hm : (xi, jars) ∈ s.rows)
    (ha : coeffOf xj jars ≠ 0) (v : Var → ℚ) :
    RowsHold (pivot s xi xj).rows v ↔ RowsHold s.rows v :=
  pivot_rows_iff s xi xj jars hwf hm ha v

/-- `Simplex.pivot` keeps the tableau well-formed (so the next pivot is covered again). -/
theorem pivot_preserves_wf (s : SState) (xi xj : Var) (jars : Jars) (hwf : WF s) (hm : (xi, jars) ∈ s.rows)
    (hxj : xj ∈ varsOf jars) : WF (pivot s xi xj) :=
  pivot_WF s xi xj jars hwf hm hxj

/-- `Simplex.update(x, c)` on a non-basic `x` leaves the rows alone and `mapping` still satisfies them. -/
theorem update_preserves_rows (s : SState) (x : Var) (c : ℚ) (hwf : WF s) (hx : isBasic s x = false)
    (h : RowsHold s.rows s.mapping) :
    (update s x c).rows = s.rows ∧ RowsHold (update s x c).rows (update s x c).mapping :=
  update_rowsHold s x c hwf hx h

/-- After `Simplex.pivotAndUpdate(xi, xj, v)` the new `mapping` satisfies the new row equations. -/
theorem pivotAndUpdate_preserves_rows (s : SState) (xi xj : Var) (jars : Jars) (v : ℚ) (hwf : WF s)
    (hm : (xi, jars) ∈ s.rows) (ha : coeffOf xj jars ≠ 0) (h : RowsHold s.rows s.mapping) :
    RowsHold (pivotAndUpdate s xi xj v).rows (pivotAndUpdate s xi xj v).mapping :=
  pivotAndUpdate_rowsHold s xi xj jars v hwf hm ha h

/-- the tableau of `x0 + 2·x1 ⋈ …` and `x0 - x1 ⋈ …` right after `add_ineqs` (non-vacuity of the hypotheses) -/
def exampleState : SState :=
  { emptyState with rows := [(0, [(100, 1), (101, 2)]), (1, [(100, 1), (101, -1)])], vars := [100, 101, 0, 1], index := 2 }

example : WF exampleState ∧ (0, [(100, 1), (101, 2)]) ∈ exampleState.rows ∧ coeffOf 101 [(100, (1 : ℚ)), (101, 2)] ≠ 0 ∧
    RowsHold exampleState.rows exampleState.mapping ∧ isBasic exampleState 100 = false := by
  refine ⟨⟨by decide, ?_, ?_⟩, by simp [exampleState], by simp [coeffOf], ?_, by decide⟩
  · intro r hr; simp [exampleState] at hr; rcases hr with rfl | rfl <;> simp [DistinctVars, varsOf]
  · intro r hr x hx; simp [exampleState] at hr; rcases hr with rfl | rfl <;> simp [varsOf] at hx <;> rcases hx with rfl | rfl <;> decide
  · intro r hr; simp [exampleState] at hr; rcases hr with rfl | rfl <;> simp [exampleState, emptyState, evalJ]

end Holpy.C16
