import Holpy.C16.StrictSimplexCheck
/-
C16 — `check()` of the strict simplex model is sound (induction on the fuel).
-/
namespace Holpy.C16.StrictSimplex
open Holpy.C16.Simplex Holpy.C16.Strict

theorem pickViolatedP_fold_some (s : PState) : ∀ (rows : List (Var × Jars)) (best : Option Var) (xi : Var),
    rows.foldl (fun best r =>
      if ltLoP s r.1 || gtHiP s r.1 then
        match best with
        | none => some r.1
        | some b => if r.1 < b then some r.1 else some b
      else best) best = some xi →
    best = some xi ∨ ∃ r ∈ rows, r.1 = xi ∧ (ltLoP s r.1 || gtHiP s r.1) = true := by
  intro rows
  induction rows with
  | nil => intro best xi h; left; simpa using h
  | cons r rows ih =>
    intro best xi h
    simp only [List.foldl_cons] at h
    rcases ih _ xi h with h1 | ⟨r', hr', h2⟩
    · split at h1
      · rename_i hv
        split at h1
        · right; exact ⟨r, List.mem_cons_self .., by simpa using h1, hv⟩
        · split at h1
          · right; exact ⟨r, List.mem_cons_self .., by simpa using h1, hv⟩
          · left; exact h1
      · left; exact h1
    · right; exact ⟨r', List.mem_cons_of_mem _ hr', h2⟩

theorem pickViolatedP_fold_none (s : PState) : ∀ (rows : List (Var × Jars)) (best : Option Var),
    rows.foldl (fun best r =>
      if ltLoP s r.1 || gtHiP s r.1 then
        match best with
        | none => some r.1
        | some b => if r.1 < b then some r.1 else some b
      else best) best = none →
    best = none ∧ ∀ r ∈ rows, (ltLoP s r.1 || gtHiP s r.1) = false := by
  intro rows
  induction rows with
  | nil => intro best h; exact ⟨by simpa using h, by simp⟩
  | cons r rows ih =>
    intro best h
    simp only [List.foldl_cons] at h
    obtain ⟨h1, h2⟩ := ih _ h
    split at h1
    · split at h1
      · cases h1
      · split at h1 <;> cases h1
    · rename_i hv
      refine ⟨h1, ?_⟩
      intro r' hr'
      rcases List.mem_cons.mp hr' with rfl | hr'
      · simpa using hv
      · exact h2 r' hr'

theorem pickViolatedP_some (s : PState) (xi : Var) (h : pickViolatedP s = some xi) :
    (∃ jars, (xi, jars) ∈ s.sx.rows) ∧ (ltLoP s xi || gtHiP s xi) = true := by
  rcases pickViolatedP_fold_some s s.sx.rows none xi h with h1 | ⟨r, hr, rfl, h2⟩
  · cases h1
  · exact ⟨⟨r.2, hr⟩, h2⟩

theorem pickViolatedP_none (s : PState) (h : pickViolatedP s = none) :
    ∀ x, isBasic s.sx x = true → ltLoP s x = false ∧ gtHiP s x = false := by
  intro x hx
  obtain ⟨r, hr, rfl⟩ := List.mem_map.mp ((isBasic_iff s.sx x).mp hx)
  have := (pickViolatedP_fold_none s s.sx.rows none h).2 r hr
  simpa using this


theorem pinB_of_not_violated (s : PState) (x : Var) (h1 : ltLoP s x = false) (h2 : gtHiP s x = false) :
    PInB s (pval s) x := by
  constructor
  · intro l hl
    apply not_plt
    intro hlt
    have := (ltLoP_iff s x).mpr ⟨l, hl, hlt⟩
    rw [h1] at this; cases this
  · intro u hu
    apply not_plt
    intro hlt
    have := (gtHiP_iff s x).mpr ⟨u, hu, hlt⟩
    rw [h2] at this; cases this

theorem PInB_congr (s s' : PState) (hlo : s'.lo = s.lo) (hhi : s'.hi = s.hi) (V : Var → Pair) (x : Var) :
    PInB s' V x ↔ PInB s V x := by
  simp only [PInB, hlo, hhi]

/-- what `check` of the strict solver guarantees, for every fuel -/
theorem checkP_spec : ∀ (fuel : Nat) (s s' : PState) (vd : Verdict), PInv s → checkP fuel s = (vd, s') →
    PInv s' ∧ s'.lo = s.lo ∧ s'.hi = s.hi ∧ (∀ w, RowsHold s'.sx.rows w ↔ RowsHold s.sx.rows w) ∧
    (vd = .sat → ∀ x, PInB s' (pval s') x) ∧
    (∀ xi, vd = .unsat xi → ¬ ∃ V : Var → Pair, RowsHoldP s'.sx.rows V ∧ ∀ x, PInB s' V x) := by
  intro fuel
  induction fuel with
  | zero =>
    intro s s' vd hinv h
    simp only [checkP] at h
    cases h
    exact ⟨hinv, rfl, rfl, fun _ => Iff.rfl, by simp, by simp⟩
  | succ fuel ih =>
    intro s s' vd hinv h
    simp only [checkP] at h
    split at h
    · rename_i hpick
      cases h
      refine ⟨hinv, rfl, rfl, fun _ => Iff.rfl, ?_, by simp⟩
      intro _ x
      cases hb : isBasic s.sx x with
      | false => exact hinv.nb x hb
      | true =>
        have := pickViolatedP_none s hpick x hb
        exact pinB_of_not_violated s x this.1 this.2
    · rename_i xi hpick
      obtain ⟨⟨jars, hm⟩, hviol⟩ := pickViolatedP_some s xi hpick
      have hrow : (rowOf s.sx xi).getD [] = jars := by rw [rowOf_of_mem s.sx hinv.wf.heads xi jars hm]; rfl
      rw [hrow] at h
      have hd := hinv.wf.distinct _ hm
      have step : ∀ (xj : Var) (v : Pair) (vd : Verdict) (s' : PState), coeffOf xj jars ≠ 0 →
          ((∀ l, s.lo xi = some l → PLe l v) ∧ (∀ u, s.hi xi = some u → PLe v u)) →
          checkP fuel (pivotAndUpdateP s xi xj v) = (vd, s') →
          PInv s' ∧ s'.lo = s.lo ∧ s'.hi = s.hi ∧ (∀ w, RowsHold s'.sx.rows w ↔ RowsHold s.sx.rows w) ∧
          (vd = .sat → ∀ x, PInB s' (pval s') x) ∧
          (∀ xi, vd = .unsat xi → ¬ ∃ V : Var → Pair, RowsHoldP s'.sx.rows V ∧ ∀ x, PInB s' V x) := by
        intro xj v vd s' ha hv hc
        obtain ⟨i1, l1, u1, r1⟩ := pivotAndUpdateP_inv s xi xj jars v hinv hm ha hv
        obtain ⟨i2, l2, u2, r2, sat2, un2⟩ := ih _ s' vd i1 hc
        exact ⟨i2, l2.trans l1, u2.trans u1, fun w => (r2 w).trans (r1 w), sat2, un2⟩
      have coeff_ne : ∀ j ∈ reducePairs jars, (j.2 > 0 ∨ j.2 < 0) → coeffOf j.1 jars ≠ 0 := by
        intro j hj hs
        rw [mem_reducePairs_coeff jars hd j hj]
        rcases hs with h1 | h1
        · exact ne_of_gt h1
        · exact ne_of_lt h1
      split at h
      · rename_i hlt
        split at h
        · rename_i j hfind
          have hj := List.mem_of_find?_eq_some hfind
          have hp := List.find?_some hfind
          have hc : coeffOf j.1 jars ≠ 0 := by
            apply coeff_ne j hj
            simp only [Bool.or_eq_true, Bool.and_eq_true, decide_eq_true_eq] at hp
            rcases hp with ⟨h1, _⟩ | ⟨h1, _⟩
            · exact Or.inl h1
            · exact Or.inr h1
          obtain ⟨l, hl, _⟩ := (ltLoP_iff s xi).mp hlt
          rw [hl] at h
          refine step j.1 l vd s' hc ⟨?_, ?_⟩ h
          · intro l' hl'; rw [hl] at hl'; cases hl'; exact PLe.refl _
          · intro u hu; exact hinv.bnd xi l u hl hu
        · rename_i hnone
          cases h
          refine ⟨hinv, rfl, rfl, fun _ => Iff.rfl, by simp, ?_⟩
          intro _ _
          exact stuck_lower_unsatP s xi jars hinv hm hlt hnone
      · rename_i hnlt
        have hgt : gtHiP s xi = true := by
          cases hb : ltLoP s xi with
          | true => exact absurd hb hnlt
          | false => rw [hb] at hviol; simpa using hviol
        split at h
        · rename_i j hfind
          have hj := List.mem_of_find?_eq_some hfind
          have hp := List.find?_some hfind
          have hc : coeffOf j.1 jars ≠ 0 := by
            apply coeff_ne j hj
            simp only [Bool.or_eq_true, Bool.and_eq_true, decide_eq_true_eq] at hp
            rcases hp with ⟨h1, _⟩ | ⟨h1, _⟩
            · exact Or.inr h1
            · exact Or.inl h1
          obtain ⟨u, hu, _⟩ := (gtHiP_iff s xi).mp hgt
          rw [hu] at h
          refine step j.1 u vd s' hc ⟨?_, ?_⟩ h
          · intro l hl; exact hinv.bnd xi l u hl hu
          · intro u' hu'; rw [hu] at hu'; cases hu'; exact PLe.refl _
        · rename_i hnone
          cases h
          refine ⟨hinv, rfl, rfl, fun _ => Iff.rfl, by simp, ?_⟩
          intro _ _
          exact stuck_upper_unsatP s xi jars hinv hm hgt hnone

end Holpy.C16.StrictSimplex
