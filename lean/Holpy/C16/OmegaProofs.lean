import Holpy.C16.Proofs
/-
C16 — the Omega model answers `contr d` only with a derivation that `checkDeriv` accepts.
Invariant of the database: every factoid is (a) justified by its derivation, (b) gcd-normalised,
(c) of the common width.  Dark-mode databases are not justified; their contradictions are dropped.
-/
namespace Holpy.C16

/-! ### list facts -/

theorem all_zero_iff_getD (l : List Int) : l.all (· == 0) = true ↔ ∀ i, l.getD i 0 = 0 := by
  induction l with
  | nil => simp
  | cons a l ih =>
    simp only [List.all_cons, Bool.and_eq_true, beq_iff_eq, ih]
    constructor
    · rintro ⟨ha, h⟩ i
      cases i with
      | zero => simpa using ha
      | succ i => simpa using h i
    · intro h
      exact ⟨by simpa using h 0, fun i => by simpa using h (i + 1)⟩

theorem isZeroVar_iff (f : Row) : isZeroVar f = true ↔ ∀ i, coeffAt f i = 0 := by
  simp only [isZeroVar, coeffAt]; exact all_zero_iff_getD _

theorem rowKey_addRow : ∀ (a b : Row), a.length = b.length → rowKey (addRow a b) = addRow (rowKey a) (rowKey b)
  | [], [], _ => by simp [rowKey, addRow]
  | [x], [y], _ => by simp [rowKey, addRow]
  | x :: x' :: a, y :: y' :: b, h => by
    have ih := rowKey_addRow (x' :: a) (y' :: b) (by simpa using h)
    simp only [rowKey, addRow, List.zipWith_cons_cons, List.dropLast_cons_cons] at ih ⊢
    rw [ih]
  | [], _ :: _, h => by simp at h
  | _ :: _, [], h => by simp at h
  | [_], _ :: _ :: _, h => by simp at h
  | _ :: _ :: _, [_], h => by simp at h

theorem getD_addRow : ∀ (a b : Row) (i : Nat), a.length = b.length →
    (addRow a b).getD i 0 = a.getD i 0 + b.getD i 0
  | [], [], i, _ => by simp [addRow]
  | x :: a, y :: b, 0, _ => by simp [addRow]
  | x :: a, y :: b, i + 1, h => by
    have ih := getD_addRow a b i (by simpa using h)
    simpa [addRow] using ih
  | [], _ :: _, _, h => by simp at h
  | _ :: _, [], _, h => by simp at h

theorem rowKey_length (f : Row) : (rowKey f).length = f.length - 1 := by simp [rowKey]

theorem coeffAt_addRow (a b : Row) (i : Nat) (h : a.length = b.length) :
    coeffAt (addRow a b) i = coeffAt a i + coeffAt b i := by
  simp only [coeffAt, rowKey_addRow a b h]
  exact getD_addRow _ _ i (by simp [rowKey_length, h])

theorem rowConst_addRow : ∀ (a b : Row), a.length = b.length → rowConst (addRow a b) = rowConst a + rowConst b
  | [], [], _ => by simp [rowConst, addRow]
  | [x], [y], _ => by simp [rowConst, addRow]
  | x :: x' :: a, y :: y' :: b, h => by
    have ih := rowConst_addRow (x' :: a) (y' :: b) (by simpa using h)
    simp only [rowConst, addRow, List.zipWith_cons_cons, List.getLastD_cons] at ih ⊢
    exact ih
  | [], _ :: _, h => by simp at h
  | _ :: _, [], h => by simp at h
  | [_], _ :: _ :: _, h => by simp at h
  | _ :: _ :: _, [_], h => by simp at h

/-! ### gcd facts -/

theorem gcdList_eq_zero (l : List Int) (h : gcdList l = 0) : ∀ k ∈ l, k = 0 := by
  intro k hk
  have := gcdList_dvd l k hk
  rw [h] at this
  simpa using this

theorem gcdFold_map_div (g : Nat) (hg : 0 < g) : ∀ (l : List Int) (a0 : Nat), g ∣ a0 → (∀ k ∈ l, (g : Int) ∣ k) →
    (l.map (· / (g : Int))).foldl (fun a c => Nat.gcd a c.natAbs) (a0 / g) =
      l.foldl (fun a c => Nat.gcd a c.natAbs) a0 / g
  | [], a0, _, _ => by simp
  | c :: l, a0, h0, h => by
    have hc : (g : Int) ∣ c := h c (List.mem_cons_self ..)
    have hc' : g ∣ c.natAbs := Int.natCast_dvd.mp hc
    have e : (c / (g : Int)).natAbs = c.natAbs / g := by
      obtain ⟨q, rfl⟩ := hc
      have hg' : (g : Int) ≠ 0 := by omega
      rw [Int.mul_ediv_cancel_left _ hg', Int.natAbs_mul, Int.natAbs_natCast, Nat.mul_div_cancel_left _ hg]
    simp only [List.map_cons, List.foldl_cons, e, Nat.gcd_div h0 hc']
    exact gcdFold_map_div g hg l _ (Nat.dvd_gcd h0 hc') (fun k hk => h k (List.mem_cons_of_mem _ hk))

theorem gcdList_map_div (l : List Int) (h : 0 < gcdList l) :
    gcdList (l.map (· / (gcdList l : Int))) = 1 := by
  have := gcdFold_map_div (gcdList l) h l 0 (Nat.dvd_zero _) (fun k hk => gcdList_dvd l k hk)
  simp only [Nat.zero_div] at this
  rw [gcdList, this]
  exact Nat.div_self h

/-! ### the invariant -/

/-- the derivation of `df` is legal and proves exactly its factoid -/
def Just (rows : List Row) (df : DF) : Prop := evalDeriv rows df.deriv = some df.factoid
/-- the variable coefficients have gcd 1 -/
def Norm (f : Row) : Prop := gcdList (rowKey f) = 1

def GoodDF (rows : List Row) (w : Nat) (df : DF) : Prop :=
  Just rows df ∧ Norm df.factoid ∧ df.factoid.length = w

def GoodXP (rows : List Row) (w : Nat) : XP → Prop
  | .contr d => checkDeriv rows d = true
  | .db db => ∀ df ∈ flat db, GoodDF rows w df
  | .error _ => True

theorem mem_flat_insertDb (db : DB) (df x : DF) : x ∈ flat (insertDb db df) ↔ x ∈ flat db ∨ x = df := by
  induction db with
  | nil => simp [insertDb, flat]
  | cons hb rest ih =>
    obtain ⟨h, b⟩ := hb
    simp only [insertDb]
    split
    · simp only [flat, List.flatMap_cons, List.mem_append, List.mem_singleton]; tauto
    · simp only [flat, List.flatMap_cons, List.mem_append] at ih ⊢
      rw [ih]; tauto

theorem mem_foldl_insertDb (l : List DF) : ∀ (db : DB) (x : DF),
    x ∈ flat (l.foldl insertDb db) ↔ x ∈ flat db ∨ x ∈ l := by
  induction l with
  | nil => intro db x; simp
  | cons a l ih =>
    intro db x
    simp only [List.foldl_cons, ih, mem_flat_insertDb, List.mem_cons]
    tauto

theorem rowKey_divRow (f : Row) (g : Int) : rowKey (divRow f g) = (rowKey f).map (· / g) := by
  simp [rowKey, divRow, List.map_dropLast]

theorem not_zeroVar_of_not_true_false (f : Row) (h1 : isTrueRow f = false) (h2 : isFalseRow f = false) :
    isZeroVar f = false := by
  cases hz : isZeroVar f with
  | false => rfl
  | true =>
    simp only [isTrueRow, isFalseRow, hz, Bool.true_and, decide_eq_false_iff_not] at h1 h2
    omega

theorem normalizeDF_eq (df : DF) : normalizeDF df =
    if 1 < gcdList (rowKey df.factoid) then ⟨divRow df.factoid (gcdList (rowKey df.factoid) : Int), .gcdCheck df.deriv⟩ else df := rfl

theorem normalizeDF_just (rows : List Row) (df : DF) (h : Just rows df) : Just rows (normalizeDF df) := by
  rw [normalizeDF_eq]
  split
  · rename_i hg
    simp only [Just, evalDeriv] at h ⊢
    rw [h]
    have hne : df.factoid ≠ [] := by
      intro he; rw [he] at hg; simp [rowKey, gcdList] at hg
    simp [hg, hne]
  · exact h

theorem normalizeDF_length (df : DF) : (normalizeDF df).factoid.length = df.factoid.length := by
  rw [normalizeDF_eq]
  split <;> simp [divRow]

theorem normalizeDF_norm (df : DF) (hz : isZeroVar (normalizeDF df).factoid = false) :
    Norm (normalizeDF df).factoid := by
  rw [normalizeDF_eq] at hz ⊢
  split
  · rename_i hg
    simp only [Norm, rowKey_divRow]
    exact gcdList_map_div _ (by omega)
  · rename_i hg
    simp only [hg, if_false] at hz
    simp only [Norm]
    rcases Nat.lt_or_ge 0 (gcdList (rowKey df.factoid)) with h | h
    · omega
    · have h0 : gcdList (rowKey df.factoid) = 0 := by omega
      have := gcdList_eq_zero _ h0
      have hz' : isZeroVar df.factoid = true := by
        simp only [isZeroVar, List.all_eq_true, beq_iff_eq]; exact this
      rw [hz'] at hz; cases hz

/-! ### one-variable analysis -/

theorem mem_nzIdx (l : List Int) : ∀ (n i : Nat),
    i ∈ ((l.zipIdx n).filter (fun p => p.1 != 0)).map (·.2) ↔ n ≤ i ∧ l.getD (i - n) 0 ≠ 0 := by
  induction l with
  | nil => intro n i; simp
  | cons a l ih =>
    intro n i
    simp only [List.zipIdx_cons, List.filter_cons]
    by_cases ha : a = 0
    · subst ha
      simp only [bne_self_eq_false, Bool.false_eq_true, if_false, ih]
      constructor
      · rintro ⟨h1, h2⟩
        refine ⟨by omega, ?_⟩
        have : i - n = (i - (n + 1)) + 1 := by omega
        rw [this]; simpa using h2
      · rintro ⟨h1, h2⟩
        rcases Nat.eq_or_lt_of_le h1 with rfl | h
        · simp at h2
        · refine ⟨by omega, ?_⟩
          have : i - n = (i - (n + 1)) + 1 := by omega
          rw [this] at h2; simpa using h2
    · have hb : (a != 0) = true := by simpa using ha
      simp only [hb, if_true, List.map_cons, List.mem_cons, ih]
      constructor
      · rintro (rfl | ⟨h1, h2⟩)
        · simpa using ha
        · refine ⟨by omega, ?_⟩
          have : i - n = (i - (n + 1)) + 1 := by omega
          rw [this]; simpa using h2
      · rintro ⟨h1, h2⟩
        rcases Nat.eq_or_lt_of_le h1 with rfl | h
        · left; rfl
        · right
          refine ⟨by omega, ?_⟩
          have : i - n = (i - (n + 1)) + 1 := by omega
          rw [this] at h2; simpa using h2

theorem mem_nonzeroIdx (dfs : List DF) (i : Nat) :
    i ∈ nonzeroIdx dfs ↔ ∃ df ∈ dfs, coeffAt df.factoid i ≠ 0 := by
  simp only [nonzeroIdx, List.mem_flatMap, mem_nzIdx, coeffAt]
  constructor
  · rintro ⟨df, hdf, _, h⟩; exact ⟨df, hdf, by simpa using h⟩
  · rintro ⟨df, hdf, h⟩; exact ⟨df, hdf, Nat.zero_le _, by simpa using h⟩

/-- in a one-variable database every non-zero coefficient sits at the variable `find_var` returns -/
theorem hasOneVar_spec (dfs : List DF) (x : Nat) (h1 : hasOneVar dfs = true) (h2 : findVar dfs = some x) :
    ∀ df ∈ dfs, ∀ i, coeffAt df.factoid i ≠ 0 → i = x := by
  intro df hdf i hi
  have hm : i ∈ nonzeroIdx dfs := (mem_nonzeroIdx dfs i).mpr ⟨df, hdf, hi⟩
  simp only [hasOneVar, findVar] at h1 h2
  cases hn : nonzeroIdx dfs with
  | nil => rw [hn] at hm; simp at hm
  | cons y rest =>
    rw [hn] at h1 h2 hm
    simp only [List.head?_cons, Option.some.injEq] at h2
    subst h2
    rcases List.mem_cons.mp hm with rfl | hr
    · rfl
    · simpa using (List.all_eq_true.mp h1) i hr

theorem mem_of_getD_ne (l : List Int) (i : Nat) (h : l.getD i 0 ≠ 0) : l.getD i 0 ∈ l := by
  induction l generalizing i with
  | nil => simp at h
  | cons a l ih =>
    cases i with
    | zero => simp
    | succ i => simp only [List.getD_cons_succ] at h ⊢; exact List.mem_cons_of_mem _ (ih i h)

theorem exists_getD_of_mem (l : List Int) (k : Int) (h : k ∈ l) : ∃ i, l.getD i 0 = k := by
  induction l with
  | nil => simp at h
  | cons a l ih =>
    rcases List.mem_cons.mp h with rfl | h
    · exact ⟨0, by simp⟩
    · obtain ⟨i, hi⟩ := ih h; exact ⟨i + 1, by simpa using hi⟩

/-- a normalised factoid whose only variable is `x` has coefficient `±1` there -/
theorem unit_coeff (f : Row) (x : Nat) (hn : Norm f) (h1 : ∀ i, coeffAt f i ≠ 0 → i = x) :
    (coeffAt f x).natAbs = 1 := by
  have hd : (coeffAt f x).natAbs ∣ gcdList (rowKey f) := by
    apply dvd_gcdFold _ _ 0 (Nat.dvd_zero _)
    intro k hk
    obtain ⟨i, hi⟩ := exists_getD_of_mem _ k hk
    by_cases hk0 : k = 0
    · subst hk0; simp
    · have : i = x := h1 i (by simp only [coeffAt]; rw [hi]; exact hk0)
      subst this
      simp only [coeffAt, hi]; exact Nat.dvd_refl _
  rw [hn] at hd
  exact Nat.dvd_one.mp hd

theorem scanUpper_spec (x : Nat) : ∀ (dfs : List DF) (acc : Option (Int × Deriv)) (u : Int) (d : Deriv),
    scanUpper x dfs acc = some (u, d) →
      acc = some (u, d) ∨ ∃ df ∈ dfs, df.deriv = d ∧ rowConst df.factoid = u ∧ coeffAt df.factoid x < 0 := by
  intro dfs
  induction dfs with
  | nil => intro acc u d h; left; simpa [scanUpper] using h
  | cons df rest ih =>
    intro acc u d h
    simp only [scanUpper] at h
    have here : ∀ (u' : Int) (d' : Deriv), (u', d') = (rowConst df.factoid, df.deriv) → coeffAt df.factoid x < 0 →
        scanUpper x rest (some (u', d')) = some (u, d) →
        acc = some (u, d) ∨ ∃ df' ∈ df :: rest, df'.deriv = d ∧ rowConst df'.factoid = u ∧ coeffAt df'.factoid x < 0 := by
      intro u' d' he hc hs
      rcases ih _ u d hs with h1 | ⟨df', hm, h2⟩
      · right
        simp only [Option.some.injEq] at h1
        rw [he] at h1
        exact ⟨df, List.mem_cons_self .., (Prod.mk.inj h1).2, (Prod.mk.inj h1).1, hc⟩
      · right; exact ⟨df', List.mem_cons_of_mem _ hm, h2⟩
    have there : ∀ acc', acc' = acc → scanUpper x rest acc' = some (u, d) →
        acc = some (u, d) ∨ ∃ df' ∈ df :: rest, df'.deriv = d ∧ rowConst df'.factoid = u ∧ coeffAt df'.factoid x < 0 := by
      intro acc' he hs
      rcases ih _ u d hs with h1 | ⟨df', hm, h2⟩
      · left; rw [← he]; exact h1
      · right; exact ⟨df', List.mem_cons_of_mem _ hm, h2⟩
    split at h
    · rename_i hc
      split at h
      · exact here _ _ rfl hc h
      · split at h
        · exact here _ _ rfl hc h
        · exact there _ rfl h
    · exact there _ rfl h

theorem scanLower_spec (x : Nat) : ∀ (dfs : List DF) (acc : Option (Int × Deriv)) (l : Int) (d : Deriv),
    scanLower x dfs acc = some (l, d) →
      acc = some (l, d) ∨ ∃ df ∈ dfs, df.deriv = d ∧ -rowConst df.factoid = l ∧ coeffAt df.factoid x > 0 := by
  intro dfs
  induction dfs with
  | nil => intro acc u d h; left; simpa [scanLower] using h
  | cons df rest ih =>
    intro acc u d h
    simp only [scanLower] at h
    have here : ∀ (u' : Int) (d' : Deriv), (u', d') = (-rowConst df.factoid, df.deriv) → coeffAt df.factoid x > 0 →
        scanLower x rest (some (u', d')) = some (u, d) →
        acc = some (u, d) ∨ ∃ df' ∈ df :: rest, df'.deriv = d ∧ -rowConst df'.factoid = u ∧ coeffAt df'.factoid x > 0 := by
      intro u' d' he hc hs
      rcases ih _ u d hs with h1 | ⟨df', hm, h2⟩
      · right
        simp only [Option.some.injEq] at h1
        rw [he] at h1
        exact ⟨df, List.mem_cons_self .., (Prod.mk.inj h1).2, (Prod.mk.inj h1).1, hc⟩
      · right; exact ⟨df', List.mem_cons_of_mem _ hm, h2⟩
    have there : ∀ acc', acc' = acc → scanLower x rest acc' = some (u, d) →
        acc = some (u, d) ∨ ∃ df' ∈ df :: rest, df'.deriv = d ∧ -rowConst df'.factoid = u ∧ coeffAt df'.factoid x > 0 := by
      intro acc' he hs
      rcases ih _ u d hs with h1 | ⟨df', hm, h2⟩
      · left; rw [← he]; exact h1
      · right; exact ⟨df', List.mem_cons_of_mem _ hm, h2⟩
    split at h
    · rename_i hc
      split at h
      · exact here _ _ rfl hc h
      · split at h
        · exact here _ _ rfl hc h
        · exact there _ rfl h
    · exact there _ rfl h

end Holpy.C16
