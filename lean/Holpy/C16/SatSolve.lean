import Holpy.C16.SatSound
/-
C16 — `solve` of the model: outside REAL mode a `sat s` answer satisfies every factoid of the database.
-/
namespace Holpy.C16

/-! ### redundant variables -/

theorem findRedundantVar_spec (dfs : List DF) (w j : Nat) (hasUp : Bool)
    (h : findRedundantVar dfs w = some (j, hasUp)) :
    (hasUp = true → ∀ df ∈ dfs, coeffAt df.factoid j ≤ 0) ∧
    (hasUp = false → ∀ df ∈ dfs, 0 ≤ coeffAt df.factoid j) := by
  unfold findRedundantVar at h
  cases dfs with
  | nil => simp at h
  | cons df0 rest =>
    simp only [Option.map_eq_some_iff] at h
    obtain ⟨i, hf, he⟩ := h
    have hp := List.find?_some hf
    simp only [Prod.mk.injEq] at he
    obtain ⟨rfl, rfl⟩ := he
    constructor
    · intro hup df hdf
      rw [hup] at hp
      have hpos : anyPos (df0 :: rest) i = false := by
        cases hq : anyPos (df0 :: rest) i <;> simp_all
      simp only [anyPos, List.any_eq_false, decide_eq_true_eq] at hpos
      have := hpos df hdf
      omega
    · intro hup df hdf
      simp only [anyNeg, List.any_eq_false, decide_eq_true_eq] at hup
      have := hup df hdf
      omega

theorem redundantPost_sat (elim : List DF) (j : Nat) (hasUp : Bool) (r : Result) (s : Store)
    (h : redundantPost elim j hasUp r = .sat s) :
    ∃ vmap x, r = .sat vmap ∧ s = vmap.set j x ∧
      (hasUp = true → ∀ df ∈ elim, x ≤ evalExcept df.factoid 0 vmap j / (-(coeffAt df.factoid j))) ∧
      (hasUp = false → ∀ df ∈ elim, -(evalExcept df.factoid 0 vmap j / coeffAt df.factoid j) ≤ x) := by
  unfold redundantPost at h
  split at h
  · rename_i vmap
    dsimp only at h
    split at h
    · rename_i x hx
      cases h
      refine ⟨vmap, x, rfl, rfl, ?_, ?_⟩
      · intro hup df hdf
        rw [hup] at hx
        simp only [if_true] at hx
        exact listMin_le _ _ hx _ (List.mem_map.mpr ⟨df, hdf, by simp⟩)
      · intro hup df hdf
        rw [hup] at hx
        simp only [Bool.false_eq_true, if_false] at hx
        exact listMax_ge _ _ hx _ (List.mem_map.mpr ⟨df, hdf, by simp⟩)
    · cases h
  · rename_i hne
    exact absurd h (by intro he; exact hne s he)

/-! ### back-substitution of an eliminated variable -/

theorem extendVmap_spec (dfs : List DF) (i : Nat) (s s' : Store) (h : extendVmap dfs i s = .ok s') :
    ∃ x, s' = s.set i x ∧
      (∀ df ∈ dfs, 0 < coeffAt df.factoid i → -(evalExcept df.factoid 0 s i / coeffAt df.factoid i) ≤ x) ∧
      (∀ df ∈ dfs, coeffAt df.factoid i < 0 → x ≤ evalExcept df.factoid 0 s i / (-(coeffAt df.factoid i))) := by
  unfold extendVmap at h
  dsimp only at h
  split at h
  · rename_i lower upper hl hu
    split at h
    · rename_i hle
      cases h
      refine ⟨lower, rfl, ?_, ?_⟩
      · intro df hdf hc
        exact listMax_ge _ _ hl _ (List.mem_map.mpr ⟨df, List.mem_filter.mpr ⟨hdf, by simpa using hc⟩, rfl⟩)
      · intro df hdf hc
        have := listMin_le _ _ hu _ (List.mem_map.mpr ⟨df, List.mem_filter.mpr ⟨hdf, by simpa using hc⟩, rfl⟩)
        omega
    · cases h
  · cases h

/-! ### the cross product keeps the old factoids and keeps the database normalised -/

/-- the two ways `crossStep` can return a database: unchanged, or with one new normalised factoid
that is neither a true nor a false constant row -/
theorem crossStep_cases (db db' : DB) (ex : Bool) (i : Nat) (low up : DF)
    (h : crossStep db ex i low up = .db db') :
    db' = db ∨ ∃ f d, (if ex then Gen.combine_real_factoid (i : Int) low.factoid up.factoid
                        else Gen.combine_dark_factoid (i : Int) low.factoid up.factoid) = some f ∧
      db' = insertDb db (normalizeDF ⟨f, d⟩) ∧ isTrueRow (normalizeDF ⟨f, d⟩).factoid = false ∧
      isFalseRow (normalizeDF ⟨f, d⟩).factoid = false := by
  cases ex with
  | true =>
    simp only [crossStep, if_true] at h ⊢
    split at h
    · cases h
    · rename_i f hf
      split at h
      · cases h; exact Or.inl rfl
      · split at h
        · cases h
        · split at h
          · cases h; exact Or.inl rfl
          · rename_i ht hfa _
            cases h
            exact Or.inr ⟨f, _, hf, rfl, by simpa using ht, by simpa using hfa⟩
  | false =>
    simp only [crossStep, Bool.false_eq_true, if_false] at h ⊢
    split at h
    · cases h
    · rename_i f hf
      split at h
      · cases h; exact Or.inl rfl
      · split at h
        · cases h
        · split at h
          · cases h; exact Or.inl rfl
          · rename_i ht hfa _
            cases h
            exact Or.inr ⟨f, _, hf, rfl, by simpa using ht, by simpa using hfa⟩

theorem crossStep_mono (db db' : DB) (ex : Bool) (i : Nat) (low up : DF)
    (h : crossStep db ex i low up = .db db') : ∀ x ∈ flat db, x ∈ flat db' := by
  rcases crossStep_cases db db' ex i low up h with rfl | ⟨f, d, _, rfl, _, _⟩
  · exact fun x hx => hx
  · intro x hx
    exact (mem_flat_insertDb _ _ _).mpr (Or.inl hx)

theorem crossUppers_mono (ex : Bool) (i : Nat) (low : DF) : ∀ (ups : List DF) (db db' : DB),
    crossUppers db ex i low ups = .db db' → ∀ x ∈ flat db, x ∈ flat db' := by
  intro ups
  induction ups with
  | nil => intro db db' h; simp only [crossUppers] at h; cases h; exact fun x hx => hx
  | cons up rest ih =>
    intro db db' h
    simp only [crossUppers] at h
    split at h
    · rename_i db1 he
      intro x hx
      exact ih db1 db' h x (crossStep_mono db db1 ex i low up he x hx)
    · rename_i r hne
      rw [h] at hne
      exact absurd rfl (hne db')

theorem extendCrossProduct_mono (ex : Bool) (i : Nat) (ups : List DF) : ∀ (lows : List DF) (db db' : DB),
    extendCrossProduct db ex i lows ups = .db db' → ∀ x ∈ flat db, x ∈ flat db' := by
  intro lows
  induction lows with
  | nil => intro db db' h; simp only [extendCrossProduct] at h; cases h; exact fun x hx => hx
  | cons low rest ih =>
    intro db db' h
    simp only [extendCrossProduct] at h
    split at h
    · rename_i db1 he
      intro x hx
      exact ih db1 db' h x (crossUppers_mono ex i low ups db db1 he x hx)
    · rename_i r hne
      rw [h] at hne
      exact absurd rfl (hne db')

theorem combine_dark_length (i : Int) (f1 f2 r : Row) (h : Gen.combine_dark_factoid i f1 f2 = some r)
    (hl : f1.length = f2.length) : r.length = f1.length := by
  obtain ⟨_, _, _, rfl⟩ := combine_dark_spec i f1 f2 r h
  simp [Py.setIdx, hl]
  split <;> simp [hl]

theorem crossStep_norm (w : Nat) (db db' : DB) (ex : Bool) (i : Nat) (low up : DF)
    (hdb : ∀ df ∈ flat db, NormDF w df) (hl : NormDF w low) (hu : NormDF w up)
    (h : crossStep db ex i low up = .db db') : ∀ df ∈ flat db', NormDF w df := by
  have hlen : low.factoid.length = up.factoid.length := by rw [hl.2, hu.2]
  rcases crossStep_cases db db' ex i low up h with rfl | ⟨f, d, hf, rfl, ht, hfa⟩
  · exact hdb
  · have l0 : f.length = w := by
      cases ex with
      | true => simp only [if_true] at hf; rw [combine_real_length _ _ _ _ hf hlen, hl.2]
      | false => simp only [Bool.false_eq_true, if_false] at hf; rw [combine_dark_length _ _ _ _ hf hlen, hl.2]
    intro x hx
    rcases (mem_flat_insertDb _ _ _).mp hx with hx | rfl
    · exact hdb x hx
    · exact ⟨normalizeDF_norm _ (not_zeroVar_of_not_true_false _ ht hfa), by rw [normalizeDF_length]; exact l0⟩

theorem crossUppers_norm (w : Nat) (ex : Bool) (i : Nat) (low : DF) (hl : NormDF w low) :
    ∀ (ups : List DF) (db db' : DB), (∀ df ∈ flat db, NormDF w df) → (∀ u ∈ ups, NormDF w u) →
      crossUppers db ex i low ups = .db db' → ∀ df ∈ flat db', NormDF w df := by
  intro ups
  induction ups with
  | nil => intro db db' hdb _ h; simp only [crossUppers] at h; cases h; exact hdb
  | cons up rest ih =>
    intro db db' hdb hu h
    simp only [crossUppers] at h
    split at h
    · rename_i db1 he
      exact ih db1 db' (crossStep_norm w db db1 ex i low up hdb hl (hu up (List.mem_cons_self ..)) he)
        (fun u hm => hu u (List.mem_cons_of_mem _ hm)) h
    · rename_i r hne
      rw [h] at hne
      exact absurd rfl (hne db')

theorem extendCrossProduct_norm (w : Nat) (ex : Bool) (i : Nat) (ups : List DF) (hu : ∀ u ∈ ups, NormDF w u) :
    ∀ (lows : List DF) (db db' : DB), (∀ df ∈ flat db, NormDF w df) → (∀ l ∈ lows, NormDF w l) →
      extendCrossProduct db ex i lows ups = .db db' → ∀ df ∈ flat db', NormDF w df := by
  intro lows
  induction lows with
  | nil => intro db db' hdb _ h; simp only [extendCrossProduct] at h; cases h; exact hdb
  | cons low rest ih =>
    intro db db' hdb hl h
    simp only [extendCrossProduct] at h
    split at h
    · rename_i db1 he
      exact ih db1 db' (crossUppers_norm w ex i low (hl low (List.mem_cons_self ..)) ups db db1 hdb hu he)
        (fun l hm => hl l (List.mem_cons_of_mem _ hm)) h
    · rename_i r hne
      rw [h] at hne
      exact absurd rfl (hne db')

end Holpy.C16
