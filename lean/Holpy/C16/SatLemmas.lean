import Holpy.C16.OmegaProofs
import Holpy.C16.DarkShadow
/-
C16 — lemmas for the SAT side of the Omega model: stores, evaluation under an updated assignment,
one-variable analysis, minima/maxima, back-substitution of one variable.
-/
namespace Holpy.C16

/-! ### stores -/

theorem Store.get_set_same (s : Store) (i : Nat) (v : Int) : (s.set i v).get i = v := by
  induction s with
  | nil => simp [Store.set, Store.get]
  | cons p rest ih =>
    obtain ⟨j, w⟩ := p
    simp only [Store.set]
    by_cases h : j = i
    · subst h; simp [Store.get]
    · have hb : (j == i) = false := by simpa using h
      have hb' : (i == j) = false := by simpa using (Ne.symm h)
      simp only [hb, Bool.false_eq_true, if_false]
      simp only [Store.get, List.lookup, hb'] at ih ⊢
      exact ih

theorem Store.get_set_other (s : Store) (i j : Nat) (v : Int) (h : j ≠ i) : (s.set i v).get j = s.get j := by
  induction s with
  | nil =>
    have hb : (j == i) = false := by simpa using h
    simp [Store.set, Store.get, List.lookup, hb]
  | cons p rest ih =>
    obtain ⟨k, w⟩ := p
    simp only [Store.set]
    by_cases hk : k = i
    · subst hk
      have hb : (j == k) = false := by simpa using h
      simp [Store.get, List.lookup, hb]
    · have hb : (k == i) = false := by simpa using hk
      simp only [hb, Bool.false_eq_true, if_false]
      simp only [Store.get, List.lookup] at ih ⊢
      cases hjk : (j == k) with
      | true => simp
      | false => simpa using ih

theorem Store.get_set (s : Store) (i : Nat) (v : Int) : (s.set i v).get = upd s.get i v := by
  funext j
  by_cases h : j = i
  · subst h; simp [upd, Store.get_set_same]
  · simp [upd, h, Store.get_set_other s i j v h]

/-! ### evaluation under an updated assignment -/

theorem rowKey_cons_cons (a b : Int) (rest : List Int) : rowKey (a :: b :: rest) = a :: rowKey (b :: rest) := by
  simp [rowKey]

theorem evalAt_upd_key : ∀ (f : Row) (k : Nat) (v : Nat → Int) (j : Nat) (x : Int), k ≤ j →
    evalAt f k (upd v j x) = (rowKey f).getD (j - k) 0 * x + evalAt f k (upd v j 0)
  | [], _, _, _, _, _ => by simp [evalAt, rowKey]
  | [_], _, _, _, _, _ => by simp [evalAt, rowKey]
  | a :: b :: rest, k, v, j, x, hk => by
    simp only [evalAt, rowKey_cons_cons]
    rcases Nat.eq_or_lt_of_le hk with rfl | hlt
    · have e : evalAt (b :: rest) (k + 1) (upd v k x) = evalAt (b :: rest) (k + 1) (upd v k 0) :=
        evalAt_congr _ _ _ _ (fun j hj => by simp [upd]; omega)
      simp [upd, e]
    · have ih := evalAt_upd_key (b :: rest) (k + 1) v j x (by omega)
      have hne : k ≠ j := by omega
      have : j - k = (j - (k + 1)) + 1 := by omega
      rw [ih, this]
      simp [upd, hne]
      ring

theorem evalRow_upd (f : Row) (v : Nat → Int) (j : Nat) (x : Int) :
    evalRow f (upd v j x) = coeffAt f j * x + evalRow f (upd v j 0) := by
  simpa [evalRow, coeffAt] using evalAt_upd_key f 0 v j x (Nat.zero_le _)

theorem evalRow_upd_zero (f : Row) (v : Nat → Int) (j : Nat) : evalRow f (upd v j 0) = evalRow f v - coeffAt f j * v j := by
  have := evalRow_upd f v j (v j)
  rw [upd_self] at this
  omega

theorem evalExcept_eq : ∀ (f : Row) (k : Nat) (s : Store) (j : Nat),
    evalExcept f k s j = evalAt f k (upd s.get j 0)
  | [], _, _, _ => rfl
  | [_], _, _, _ => rfl
  | a :: b :: rest, k, s, j => by
    simp only [evalExcept, evalAt]
    rw [evalExcept_eq (b :: rest) (k + 1) s j]
    by_cases h : k = j <;> simp [upd, h]

theorem evalAt_zero_terms : ∀ (f : Row) (k : Nat) (u : Nat → Int),
    (∀ i, (rowKey f).getD i 0 * u (k + i) = 0) → evalAt f k u = rowConst f
  | [], _, _, _ => by simp [evalAt, rowConst]
  | [_], _, _, _ => by simp [evalAt, rowConst]
  | a :: b :: rest, k, u, h => by
    have h0 : a * u k = 0 := by simpa [rowKey_cons_cons] using h 0
    have ih := evalAt_zero_terms (b :: rest) (k + 1) u (fun i => by
      have := h (i + 1)
      simp only [rowKey_cons_cons, List.getD_cons_succ] at this
      rw [show k + 1 + i = k + (i + 1) by omega]; exact this)
    simp only [evalAt]
    rw [ih, h0]; simp [rowConst]

/-- a factoid whose only variable is `x` -/
theorem oneVar_eval (f : Row) (x : Nat) (v : Nat → Int) (h : ∀ i, coeffAt f i ≠ 0 → i = x) :
    evalRow f v = coeffAt f x * v x + rowConst f := by
  have h1 := evalRow_upd_zero f v x
  have h2 : evalRow f (upd v x 0) = rowConst f := by
    apply evalAt_zero_terms
    intro i
    by_cases hi : i = x
    · subst hi; simp [upd]
    · have : coeffAt f i = 0 := by
        by_contra hne; exact hi (h i hne)
      simp only [coeffAt] at this
      rw [Nat.zero_add, this]; simp
  omega

/-! ### minima and maxima -/

theorem foldl_min_le : ∀ (rest : List Int) (a : Int), rest.foldl min a ≤ a ∧ ∀ x ∈ rest, rest.foldl min a ≤ x
  | [], a => by simp
  | b :: rest, a => by
    obtain ⟨h1, h2⟩ := foldl_min_le rest (min a b)
    simp only [List.foldl_cons]
    refine ⟨by omega, ?_⟩
    intro x hx
    rcases List.mem_cons.mp hx with rfl | hx
    · omega
    · exact h2 x hx

theorem foldl_max_ge : ∀ (rest : List Int) (a : Int), a ≤ rest.foldl max a ∧ ∀ x ∈ rest, x ≤ rest.foldl max a
  | [], a => by simp
  | b :: rest, a => by
    obtain ⟨h1, h2⟩ := foldl_max_ge rest (max a b)
    simp only [List.foldl_cons]
    refine ⟨by omega, ?_⟩
    intro x hx
    rcases List.mem_cons.mp hx with rfl | hx
    · omega
    · exact h2 x hx

theorem listMin_le (l : List Int) (m : Int) (h : listMin l = some m) : ∀ x ∈ l, m ≤ x := by
  cases l with
  | nil => simp [listMin] at h
  | cons a rest =>
    simp only [listMin, Option.some.injEq] at h
    subst h
    intro x hx
    rcases List.mem_cons.mp hx with rfl | hx
    · exact (foldl_min_le rest _).1
    · exact (foldl_min_le rest a).2 x hx

theorem listMax_ge (l : List Int) (m : Int) (h : listMax l = some m) : ∀ x ∈ l, x ≤ m := by
  cases l with
  | nil => simp [listMax] at h
  | cons a rest =>
    simp only [listMax, Option.some.injEq] at h
    subst h
    intro x hx
    rcases List.mem_cons.mp hx with rfl | hx
    · exact (foldl_max_ge rest _).1
    · exact (foldl_max_ge rest a).2 x hx

/-! ### giving one variable a value -/

/-- If `x` respects the bound that `f` puts on variable `i` under `s` (or `f` does not mention `i` and
holds under `s`), then `f` holds under `s[i := x]`. -/
theorem sat_after_set (f : Row) (s : Store) (i : Nat) (x : Int)
    (hpos : 0 < coeffAt f i → -(evalExcept f 0 s i / coeffAt f i) ≤ x)
    (hneg : coeffAt f i < 0 → x ≤ evalExcept f 0 s i / (-(coeffAt f i)))
    (hzero : coeffAt f i = 0 → 0 ≤ evalRow f s.get) :
    0 ≤ evalRow f (s.set i x).get := by
  rw [Store.get_set, evalRow_upd]
  have he : evalExcept f 0 s i = evalRow f (upd s.get i 0) := evalExcept_eq f 0 s i
  rw [he] at hpos hneg
  have hz := evalRow_upd_zero f s.get i
  generalize coeffAt f i = c at *
  generalize hE : evalRow f (upd s.get i 0) = e at *
  rcases Int.lt_trichotomy c 0 with hc | hc | hc
  · have h1 := hneg hc
    have h2 : (-c) * (e / (-c)) ≤ e := Int.mul_ediv_self_le (by omega)
    nlinarith
  · subst hc
    have h0 := hzero rfl
    simp at hz
    omega
  · have h1 := hpos hc
    have h2 : c * (e / c) ≤ e := Int.mul_ediv_self_le (by omega)
    nlinarith

end Holpy.C16
