import Holpy.C16.SimplexCheck3
/-
C16 — `assert_upper` / `assert_lower` of the simplex model keep the invariant and add exactly the
asserted bound; a refused assertion means the bound contradicts the bounds already present.
-/
namespace Holpy.C16.Simplex

def AtomHolds (a : Atom) (w : Var → ℚ) : Prop :=
  match a with
  | .geq x c => c ≤ w x
  | .leq x c => w x ≤ c

theorem isBasic_congr_rows (s s' : SState) (h : s'.rows = s.rows) (x : Var) : isBasic s' x = isBasic s x := by
  simp [isBasic, h]

def cBelowLo (s : SState) (x : Var) (c : ℚ) : Bool := match s.lo x with | some l => decide (c < l) | none => false
def cBelowHi (s : SState) (x : Var) (c : ℚ) : Bool := match s.hi x with | some u => decide (c < u) | none => true

theorem assertUpper_eq (s : SState) (x : Var) (c : ℚ) : assertUpper s x c =
    if cBelowLo s x c then .conflict
    else if cBelowHi s x c then
      (if !isBasic s x && decide (c < s.mapping x) then .ok (update { s with hi := setQ s.hi x (some c) } x c)
       else .ok { s with hi := setQ s.hi x (some c) })
    else .ok s := rfl

theorem assertUpper_ok (s s' : SState) (x : Var) (c : ℚ) (hinv : Inv s) (h : assertUpper s x c = .ok s') :
    Inv s' ∧ s'.rows = s.rows ∧ ∀ w : Var → ℚ, (∀ y, InB s' w y) ↔ ((∀ y, InB s w y) ∧ w x ≤ c) := by
  rw [assertUpper_eq] at h
  by_cases hcl : cBelowLo s x c = true
  · simp only [hcl, if_true] at h; cases h
  · have hnl := hcl
    simp only [cBelowLo] at hnl
    simp only [hcl, Bool.false_eq_true, if_false] at h
    by_cases hcu0 : cBelowHi s x c = true
    · have hcu := hcu0
      simp only [cBelowHi] at hcu
      simp only [hcu0, if_true] at h
      -- the bound is tightened
      have hlc : ∀ l, s.lo x = some l → l ≤ c := by
        intro l hl; rw [hl] at hnl; simpa using hnl
      have hbounds : ∀ w : Var → ℚ, (∀ y, InB { s with hi := setQ s.hi x (some c) } w y) ↔ ((∀ y, InB s w y) ∧ w x ≤ c) := by
        intro w
        constructor
        · intro hw
          refine ⟨fun y => ?_, ?_⟩
          · by_cases hy : y = x
            · subst hy
              refine ⟨(hw y).1, ?_⟩
              intro u hu
              have h1 : w y ≤ c := (hw y).2 c (by simp [setQ])
              rw [hu] at hcu
              have : c < u := by simpa using hcu
              linarith
            · have := hw y
              simpa [InB, setQ, hy] using this
          · exact (hw x).2 c (by simp [setQ])
        · rintro ⟨hw, hxc⟩ y
          by_cases hy : y = x
          · subst hy
            refine ⟨(hw y).1, ?_⟩
            intro u hu
            simp [setQ] at hu; rw [← hu]; exact hxc
          · have := hw y
            simpa [InB, setQ, hy] using this
      have hbnd : ∀ y l u, s.lo y = some l → setQ s.hi x (some c) y = some u → l ≤ u := by
        intro y l u hl hu
        by_cases hy : y = x
        · subst hy; simp [setQ] at hu; rw [← hu]; exact hlc l hl
        · simp [setQ, hy] at hu; exact hinv.bnd y l u hl hu
      split at h
      · rename_i hmove
        cases h
        simp only [Bool.and_eq_true, Bool.not_eq_true', decide_eq_true_eq] at hmove
        have hxnb : isBasic s x = false := hmove.1
        set s1 : SState := { s with hi := setQ s.hi x (some c) } with hs1
        have hwf1 : WF s1 := ⟨hinv.wf.heads, hinv.wf.distinct, hinv.wf.nonbasic⟩
        obtain ⟨hr1, hr2⟩ := update_rowsHold s1 x c hwf1 hxnb hinv.rows
        refine ⟨⟨⟨hinv.wf.heads, hinv.wf.distinct, hinv.wf.nonbasic⟩, hr2, ?_, hbnd⟩, rfl, hbounds⟩
        intro y hy
        have hy' : isBasic s y = false := hy
        by_cases hyx : y = x
        · subst hyx
          have : (update s1 y c).mapping y = c := by simp [update, setQ]
          refine ⟨fun l hl => ?_, fun u hu => ?_⟩
          · rw [this]; exact hlc l hl
          · rw [this]; have : u = c := by simpa [update, hs1, setQ] using hu.symm
            rw [this]
        · have hm : (update s1 x c).mapping y = s.mapping y := by
            have : isBasic s1 y = false := hy'
            simp only [update, setQ, if_neg hyx, this]
            simp [hs1]
          have := hinv.nb y hy'
          refine ⟨fun l hl => ?_, fun u hu => ?_⟩
          · rw [hm]; exact this.1 l hl
          · rw [hm]; have hu' : s.hi y = some u := by simpa [update, hs1, setQ, hyx] using hu
            exact this.2 u hu'
      · rename_i hstay
        cases h
        refine ⟨⟨⟨hinv.wf.heads, hinv.wf.distinct, hinv.wf.nonbasic⟩, hinv.rows, ?_, hbnd⟩, rfl, hbounds⟩
        intro y hy
        have hy' : isBasic s y = false := hy
        have := hinv.nb y hy'
        by_cases hyx : y = x
        · subst hyx
          refine ⟨this.1, fun u hu => ?_⟩
          have : u = c := by simpa [setQ] using hu.symm
          rw [this]
          simp only [Bool.and_eq_true, Bool.not_eq_true', decide_eq_true_eq, not_and, not_lt] at hstay
          exact hstay hy'
        · refine ⟨this.1, fun u hu => ?_⟩
          have hu' : s.hi y = some u := by simpa [setQ, hyx] using hu
          exact this.2 u hu'
    · have hncu := hcu0
      simp only [cBelowHi] at hncu
      simp only [hcu0, Bool.false_eq_true, if_false] at h
      cases h
      refine ⟨hinv, rfl, fun w => ⟨fun hw => ⟨hw, ?_⟩, fun hw => hw.1⟩⟩
      cases hu : s.hi x with
      | none => simp [hu] at hncu
      | some u =>
        simp only [hu, decide_eq_true_eq, not_lt] at hncu
        exact le_trans ((hw x).2 u hu) hncu

theorem assertUpper_conflict (s : SState) (x : Var) (c : ℚ) (h : assertUpper s x c = .conflict) :
    ¬ ∃ w : Var → ℚ, (∀ y, InB s w y) ∧ w x ≤ c := by
  rw [assertUpper_eq] at h
  by_cases hcl0 : cBelowLo s x c = true
  · have hcl := hcl0
    simp only [cBelowLo] at hcl
    rintro ⟨w, hw, hxc⟩
    cases hl : s.lo x with
    | none => simp [hl] at hcl
    | some l =>
      simp only [hl, decide_eq_true_eq] at hcl
      have := (hw x).1 l hl
      linarith
  · simp only [hcl0, Bool.false_eq_true, if_false] at h
    split at h
    · split at h <;> cases h
    · cases h

end Holpy.C16.Simplex
