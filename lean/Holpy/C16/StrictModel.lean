/-
C16 — the δ-rationals of `prover/simplex_strict.py`: `Pair(x, y)` stands for `x + y·δ` with an
infinitesimal `δ > 0`; `__lt__`/`__le__` are lexicographic; `binary_delta` / `multi_delta` compute
a concrete positive `δ` under which given comparisons `p1 ≤ p2` of pairs hold as comparisons of
rationals.  Finite pairs only (the solver's `±inf` bounds never reach `binary_delta` in a meaningful
way).  Core Lean only.
-/
namespace Holpy.C16.Strict

structure Pair where
  x : Rat
  y : Rat
  deriving Repr, Inhabited, BEq

/-- `Pair.__lt__` -/
def Pair.lt (p q : Pair) : Bool := decide (p.x < q.x) || (p.x == q.x && decide (p.y < q.y))
/-- `Pair.__le__` -/
def Pair.le (p q : Pair) : Bool := decide (p.x < q.x) || (p.x == q.x && decide (p.y ≤ q.y))

/-- the rational `x + y·δ` -/
def Pair.at (p : Pair) (d : Rat) : Rat := p.x + p.y * d

/-- `binary_delta(p1, p2)` (asserts `p1 <= p2`) -/
def binaryDelta (p1 p2 : Pair) : Option Rat :=
  if !p1.le p2 then none
  else if decide (p1.x < p2.x) && decide (p2.y < p1.y) then some ((p2.x - p1.x) / (p1.y - p2.y))
  else some 1

/-- `multi_delta(*ps)`: `min(d) if d else 1` over `d = {binary_delta(p1, p2) | p1 <= p2}` -/
def multiDelta (ps : List (Pair × Pair)) : Rat :=
  match ps.filterMap (fun pq => binaryDelta pq.1 pq.2) with
  | [] => 1
  | d :: rest => rest.foldl (fun a b => if b < a then b else a) d

end Holpy.C16.Strict
